(** C10 (Midline, additions): a keyword for a reported parameter beats the positional value
    and every global name.  Statement and proof: theories/ParamsMidlineMore.v. *)
From LymphModel Require Import Base States Linalg Graph Transition Observation Dist Unilateral Models Params
  ParamsStatements ParamsMidline ParamsMidlineMore.
Local Open Scope string_scope.
Local Open Scope list_scope.

Theorem C10_mid_keyword_over_positional : C10_mid_keyword_over_positional_stmt.
Proof. exact mid_keyword_over_positional. Qed.
Print Assumptions C10_mid_keyword_over_positional.

(** * Non-vacuity: a trinary Midline model (use_mixing, central and unknown sub-models, LNL
    spread asymmetric) over three LNLs listed II, III, I with an arc against the listing
    order, a frozen and a parametric distribution: 21 reported parameters *)
Definition C10m_graph : graph :=
  force_graph (build_graph 3
     [ (("tumor", "T"), CList ["II"; "III"]);
       (("lnl", "II"), CList ["III"]);
       (("lnl", "III"), CList []);
       (("lnl", "I"), CList ["II"]) ]).
Definition C10m_uni : uni :=
  new_uni C10m_graph [("early", Frozen [qc 1 2; qc 1 4; qc 1 4]); ("late", Param 0 [("p", qc 1 3)])] 2.
Definition C10m_mid : midline := new_midline C10m_uni true true false true false.
Example C10m_ok : mid_set_ok C10m_mid = true /\ length (mid_items C10m_mid) = 21%nat.
Proof. split; vm_compute; reflexivity. Qed.
(** set_params( *v, contra_TtoIII_spread=11/20, spread=1/100, ipsi_ItoII_micro=13/20, late_p=1/5,
    mixing=1/2, midext_prob=3/8) with a full positional vector v *)
Definition C10m_v : list Qc :=
  [qc 1 10; qc 2 10; qc 3 10; qc 4 10; qc 5 10; qc 6 10; qc 7 10; qc 8 10; qc 9 10;
   qc 3 10; qc 4 10; qc 1 10; qc 2 10; qc 3 10; qc 4 10; qc 5 10; qc 6 10; qc 7 10;
   qc 1 4; qc 3 4; qc 1 8].
Definition C10m_kw : kwargs :=
  [ (["contra"; "TtoIII"; "spread"], V (qc 11 20)); (["spread"], V (qc 1 100)); (["ipsi"; "ItoII"; "micro"], V (qc 13 20));
    (["late"; "p"], V (qc 1 5)); (["mixing"], V (qc 1 2)); (["midext"; "prob"], V (qc 3 8)) ].
Definition C10m_call := m_set_params C10m_mid (vals C10m_v) C10m_kw.
Example C10m_returns : snd C10m_call = Some [] /\ NoDup (map fst C10m_kw).
Proof. split; [vm_compute; reflexivity|]. repeat constructor; cbn; intuition discriminate. Qed.
(** the five keywords that name a reported parameter arrive, each through its own route
    (contra -> noext.contra, ipsi -> ext.ipsi LNL arc, ext -> ipsi -> "late", the mixing
    parameter, midext_prob), although positional values AND the global "spread" compete *)
Example C10m_keywords_win :
  map (fun K => option_map (fun l => option_map qout (kw_get K l)) (m_got (fst C10m_call)))
      [["contra"; "TtoIII"; "spread"]; ["ipsi"; "ItoII"; "micro"]; ["late"; "p"]; ["mixing"]; ["midext"; "prob"]]
  = map (fun x => Some (Some x)) [(11, 20); (13, 20); (1, 5); (1, 2); (3, 8)]%Z.
Proof. vm_compute. reflexivity. Qed.
(** ... as the theorem says, e.g. for the contralateral tumour arc and the distribution parameter *)
Example C10m_by_theorem :
  option_map (kw_get ["contra"; "TtoIII"; "spread"]) (m_got (fst C10m_call)) = Some (Some (qc 11 20))
  /\ option_map (kw_get ["late"; "p"]) (m_got (fst C10m_call)) = Some (Some (qc 1 5)).
Proof.
  split.
  - apply (C10_mid_keyword_over_positional C10m_mid (vals C10m_v) C10m_kw ["contra"; "TtoIII"; "spread"] (qc 11 20));
      [vm_compute; reflexivity | apply C10m_returns | vm_compute; tauto | reflexivity | | vm_compute; discriminate].
    vm_compute. intros [H|[]]. discriminate H.
  - apply (C10_mid_keyword_over_positional C10m_mid (vals C10m_v) C10m_kw ["late"; "p"] (qc 1 5));
      [vm_compute; reflexivity | apply C10m_returns | vm_compute; tauto | reflexivity | | vm_compute; discriminate].
    intros _. repeat split; vm_compute; reflexivity.
Qed.
(** the other spread parameters take the global "spread" = 1/100, growth / micro parameters their
    positional values: the complete report *)
Example C10m_report :
  option_map (fun l => map (fun kv => qout (snd kv)) l) (m_got (fst C10m_call))
  = Some [(1, 100); (1, 100); (3, 5); (1, 100); (4, 5); (9, 10); (3, 10); (1, 100); (13, 20);
          (1, 100); (11, 20); (1, 5); (1, 100); (2, 5); (1, 2); (3, 5); (1, 100); (1, 4);
          (1, 2); (1, 5); (3, 8)]%Z.
Proof. vm_compute. reflexivity. Qed.
