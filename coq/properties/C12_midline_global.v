(** C12 for models.Midline with declared GLOBAL names (theories/NamedMidlineGlobal.v); non-vacuity: the examples of
    properties/C17_midline_global.v (C12 tags) *)
From LymphModel Require Import Base States Linalg Graph Transition Observation Dist Unilateral Models Params
  ParamsStatements ParamsLemmas ParamsProofs ParamsBilateral ParamsMidline ParamsMidlineMore
  Safe ParamsMidlineSafe Named NamedProofs NamedMidline NamedMidlineMore ParamsMidlineRest NamedMidlineGlobal.

Theorem C12_midline_named_global_scored : C12_midline_named_global_scored_stmt.
Proof. exact midline_named_global_scored. Qed.
Print Assumptions C12_midline_named_global_scored.

Theorem C12_midline_named_global_reads_back : C12_midline_named_global_reads_back_stmt.
Proof. exact midline_named_global_reads_back. Qed.
Print Assumptions C12_midline_named_global_reads_back.

