From LymphModel Require Import Base States Linalg Graph Transition Observation Dist Unilateral UniStatements.
From LymphModel Require Import TransitionProofs ObservationProofs PriorProofs LikelihoodProofs PosteriorProofs.
Local Open Scope nat_scope.
Open Scope Qc_scope.

Theorem C02_encoding_spec : C02_encoding_spec_stmt.
Proof. exact encoding_spec. Qed.
Print Assumptions C02_encoding_spec.

Theorem C02_posterior_bayes : C02_posterior_bayes_stmt.
Proof. exact (posterior_bayes observation_entries). Qed.
Print Assumptions C02_posterior_bayes.

Theorem C02_posterior_sum_one : C02_posterior_sum_one_stmt.
Proof. exact posterior_sum_one. Qed.
Print Assumptions C02_posterior_sum_one.

Theorem C02_risk_bayes : C02_risk_bayes_stmt.
Proof. exact (risk_bayes observation_entries). Qed.
Print Assumptions C02_risk_bayes.

Theorem C02_risk_in_unit_interval : C02_risk_in_unit_interval_stmt.
Proof. exact risk_in_unit_interval. Qed.
Print Assumptions C02_risk_in_unit_interval.

Theorem C02_risk_empty_pattern : C02_risk_empty_pattern_stmt.
Proof. exact risk_empty_pattern. Qed.
Print Assumptions C02_risk_empty_pattern.

Theorem C02_risk_partition : C02_risk_partition_stmt.
Proof. exact risk_partition. Qed.
Print Assumptions C02_risk_partition.

(** Non-vacuity: the trinary two-modality model [C01_ex_uni] (T -> II, T -> III, III -> II,
    growth arcs), the "late" (binomial) prior, a diagnosis with a complete CT finding and a
    partial pathology finding. *)
Example C02_ex_hypotheses :
  wf_uni C01_ex_uni = true /\
  wf_patient {| p_tstage := ""; p_find := C02_ex_diag |} = true /\
  length C02_ex_prior = length (u_states C01_ex_uni) /\
  posterior_of C01_ex_uni C02_ex_prior (Some C02_ex_diag) = inr (Some C02_ex_post) /\
  length C02_ex_post = length (u_states C01_ex_uni) /\
  forallb (fun x => Nat.eqb (length (filter (fun inv => matches_pattern (u_lnls C01_ex_uni) inv 3 x)
                                           C02_ex_invs)) 1) (u_states C01_ex_uni) = true.
Proof. vm_compute. repeat split; reflexivity. Qed.

(** trinary encoding of "II not macroscopic, III involved" *)
Example C02_ex_encoding :
  compute_encoding (u_lnls C01_ex_uni) [("II", Some INotMacro); ("III", Some IInvolved)]%string 3
  = Some [false; true; true; false; true; true; false; false; false].
Proof. vm_compute. reflexivity. Qed.

(** evidence P(diagnosis) and the posterior of (II microscopic, III microscopic) *)
Example C02_ex_posterior :
  sumQ (joint_spec C01_ex_uni C02_ex_prior C02_ex_diag) = qc 115253 3600000 /\
  nth 4 C02_ex_post 0 = qc 32508 115253 /\
  sumQ C02_ex_post = 1.
Proof. repeat split; apply Qc_is_canon; vm_compute; reflexivity. Qed.

(** risk of II involved (micro or macro), through [marginalize_of] and end to end through
    [risk]; the risks of the partition healthy / micro / macro add up to 1 *)
Example C02_ex_risk :
  marginalize_of C01_ex_uni [("II", Some IInvolved)]%string C02_ex_post = inr (qc 6908 15033) /\
  risk C01_ex_uni [("II", Some IInvolved)]%string (Some C02_ex_diag) "late" true = inr (Some (qc 6908 15033)) /\
  match sequence (map (fun inv => marginalize_of C01_ex_uni inv C02_ex_post) C02_ex_invs) with
  | inr rs => qouts rs
  | inl _ => []
  end = [(8125, 15033); (136249, 345759); (7545, 115253)]%Z /\
  qc 8125 15033 + qc 136249 345759 + qc 7545 115253 = 1.
Proof.
  split; [vm_compute; f_equal; apply Qc_is_canon; reflexivity|].
  split; [vm_compute; do 2 f_equal; apply Qc_is_canon; reflexivity|].
  split; [vm_compute; reflexivity|apply Qc_is_canon; vm_compute; reflexivity].
Qed.
