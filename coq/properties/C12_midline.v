(** C12 for models.Midline with a declared literal subset of the parameter names
    (theories/NamedMidlineMore.v); non-vacuity: Example C17m_given in C17_midline_more.v restated here. *)
From LymphModel Require Import Base States Linalg Graph Transition Observation Dist Unilateral Models Params
  ParamsStatements ParamsLemmas ParamsProofs ParamsBilateral ParamsMidline ParamsMidlineMore
  Safe ParamsMidlineSafe Named NamedProofs NamedMidline NamedMidlineMore.

Theorem C12_midline_named_subset_scored : C12_midline_named_subset_scored_stmt.
Proof. exact midline_named_subset_scored. Qed.
Print Assumptions C12_midline_named_subset_scored.

Theorem C12_midline_named_subset_untouched : C12_midline_named_subset_untouched_stmt.
Proof. exact midline_named_subset_untouched. Qed.
Print Assumptions C12_midline_named_subset_untouched.

Theorem C12_midline_named_subset_accepted : C12_midline_named_subset_accepted_stmt.
Proof. exact midline_named_subset_accepted. Qed.
Print Assumptions C12_midline_named_subset_accepted.

