From LymphModel Require Import Base States Linalg Graph Transition Observation Dist Unilateral UniStatements Models Bilateral Midline Cohort.
From LymphModel Require Import CohortProofs.
Local Open Scope nat_scope.

Theorem C13_split_is_partition : C13_split_is_partition_stmt.
Proof. exact split_is_partition. Qed.
Print Assumptions C13_split_is_partition.

Theorem C13_split_counts : C13_split_counts_stmt.
Proof. exact split_counts. Qed.
Print Assumptions C13_split_counts.

Theorem C13_reload_replaces_all : C13_reload_replaces_all_stmt.
Proof. exact reload_replaces_all. Qed.
Print Assumptions C13_reload_replaces_all.

Theorem C13_sub_cohorts_are_selections : C13_sub_cohorts_are_selections_stmt.
Proof. exact sub_cohorts_are_selections. Qed.
Print Assumptions C13_sub_cohorts_are_selections.

Theorem C13_hpv_split : C13_hpv_split_stmt.
Proof. exact hpv_split. Qed.
Print Assumptions C13_hpv_split.

Theorem C13_cohort_likelihood_is_sum : C13_cohort_likelihood_is_sum_stmt.
Proof. exact cohort_likelihood_is_sum. Qed.
Print Assumptions C13_cohort_likelihood_is_sum.

(** Non-vacuity: a five-row table (extension recorded true / false / missing, one central
    tumour, one row of an unscored T-stage) loaded with use_central = marginalize_unknown
    = True into a midline model over the trinary graph of C07 with all four sub-models. *)
Example C13_ex_split :
  let d := ml_load true true ml_data_empty C13_ex_table in
  (length (d_ext d), length (d_noext d), option_map (@length _) (d_central d), option_map (@length _) (d_unknown d))
    = (1, 2, Some 1, Some 1) /\
  map (landing_count true true) C13_ex_table = [1; 1; 1; 1; 1] /\
  map (landing_count false false) C13_ex_table = [1; 1; 0; 1; 1] /\
  forallb central_implies_ext C13_ex_table = true.
Proof. vm_compute. repeat split; reflexivity. Qed.

(** the cohort likelihood has one factor per scored patient (the "T9" row is not scored):
    ext, unknown (early); noext (late); central *)
Example C13_ex_likelihood :
  match ml_hmm_likelihood_factors C13_ex_ml (ml_load true true ml_data_empty C13_ex_table) None with
  | inr v => qouts v | inl _ => [] end
  = [(302723, 15360000); (26799, 160000); (221, 1620); (15401, 360000)]%Z /\
  ml_t_stages C13_ex_ml = ["early"; "late"]%string.
Proof. split; vm_compute; reflexivity. Qed.
