From LymphModel Require Import Base States Linalg Graph Transition Observation Dist Unilateral UniStatements Encoding.
From LymphModel Require Import LikelihoodProofs EncodingProofs.
From Coq Require Import Permutation.
Local Open Scope nat_scope.
Open Scope Qc_scope.

Theorem C08_encoding_row_spec : C08_encoding_row_spec_stmt.
Proof. exact encoding_row_spec. Qed.
Print Assumptions C08_encoding_row_spec.

Theorem C08_row_likelihood_spec : C08_row_likelihood_spec_stmt.
Proof. exact row_likelihood_spec. Qed.
Print Assumptions C08_row_likelihood_spec.

Theorem C08_factors_of_table : C08_factors_of_table_stmt.
Proof. exact factors_of_table. Qed.
Print Assumptions C08_factors_of_table.

Theorem C08_depends_only_on_recorded_cells : C08_depends_only_on_recorded_cells_stmt.
Proof. exact depends_only_on_recorded_cells. Qed.
Print Assumptions C08_depends_only_on_recorded_cells.

Theorem C08_unknown_columns_removable : C08_unknown_columns_removable_stmt.
Proof. exact unknown_columns_removable. Qed.
Print Assumptions C08_unknown_columns_removable.

Theorem C08_irrelevant_columns_ignored : C08_irrelevant_columns_ignored_stmt.
Proof. exact irrelevant_columns_ignored. Qed.
Print Assumptions C08_irrelevant_columns_ignored.

Theorem C08_column_order_irrelevant : C08_column_order_irrelevant_stmt.
Proof. exact column_order_irrelevant. Qed.
Print Assumptions C08_column_order_irrelevant.

Theorem C08_unknown_modality_is_marginalised : C08_unknown_modality_is_marginalised_stmt.
Proof. exact unknown_modality_is_marginalised. Qed.
Print Assumptions C08_unknown_modality_is_marginalised.

Theorem C08_likelihood_perm_invariant : C08_likelihood_perm_invariant_stmt.
Proof. exact likelihood_perm_invariant. Qed.
Print Assumptions C08_likelihood_perm_invariant.

Theorem C08_likelihood_split_additive : C08_likelihood_split_additive_stmt.
Proof. exact likelihood_split_additive. Qed.
Print Assumptions C08_likelihood_split_additive.

Theorem C08_tstage_mapping_pointwise : C08_tstage_mapping_pointwise_stmt.
Proof. exact tstage_mapping_pointwise. Qed.
Print Assumptions C08_tstage_mapping_pointwise.

Theorem C08_t_stage_rows_select : C08_t_stage_rows_select_stmt.
Proof. exact t_stage_rows_select. Qed.
Print Assumptions C08_t_stage_rows_select.

Theorem C08_loaded_findings : C08_loaded_findings_stmt.
Proof. exact loaded_findings. Qed.
Print Assumptions C08_loaded_findings.

(** Non-vacuity: the trinary two-modality model [C01_ex_uni] (T -> II, T -> III, III -> II against
    the listing order; CT clinical, path pathological) and the three-row table [C08_ex_rows]
    (both sides, a modality "XX" the model does not know, no pathology column for II, an
    explicit unknown, an empty row; raw T-stages 1, 3, 2). *)
Example C08_ex_hypotheses :
  wf_uni C01_ex_uni = true /\ mods_not_reserved C01_ex_uni = true /\
  u_lnls C01_ex_uni = ["II"; "III"]%string /\
  table_modalities "ipsi" C08_ex_rows = ["path"; "XX"; "CT"]%string /\
  table_modalities "contra" C08_ex_rows = ["CT"]%string /\
  option_map (map p_tstage) (load_patient_data (u_lnls C01_ex_uni) "ipsi" early_late C08_ex_rows)
    = Some ["early"; "late"; "early"]%string.
Proof. vm_compute. repeat split; reflexivity. Qed.

(** the data matrix of the loaded table: row 1 marks the two observations CT = (II+, III-),
    path = (II ?, III+); row 2 the eight with CT III+; the empty row 3 marks all sixteen *)
Example C08_ex_data_matrix :
  match load_patient_data (u_lnls C01_ex_uni) "ipsi" early_late C08_ex_rows with
  | Some d => match data_matrix C01_ex_uni d None with inr D => bvecs_out D | inl _ => [] end
  | None => []
  end
  = [[0; 0; 0; 0; 0; 0; 0; 0; 0; 1; 0; 1; 0; 0; 0; 0];
     [0; 0; 0; 0; 1; 1; 1; 1; 0; 0; 0; 0; 1; 1; 1; 1];
     [1; 1; 1; 1; 1; 1; 1; 1; 1; 1; 1; 1; 1; 1; 1; 1]]%nat /\
  row_encoding C01_ex_uni "ipsi" (nth 1 C08_ex_rows {| r_tstage_raw := 0%Z; r_cells := [] |})
  = [false; false; false; false; true; true; true; true; false; false; false; false; true; true; true; true].
Proof. split; vm_compute; reflexivity. Qed.

(** likelihood factors (early patients first: rows 1 and 3, then the late row 2), from the
    Impl and from the recorded cells; the contralateral side sees only one CT finding; the
    re-arranged table [C08_ex_rows'] (column order, absent instead of None, no extra columns)
    gives the same factors *)
Example C08_ex_likelihood :
  let factors side rows :=
    match load_patient_data (u_lnls C01_ex_uni) side early_late rows with
    | Some d => match hmm_likelihood_factors C01_ex_uni d None with inr v => qouts v | inl _ => [] end
    | None => []
    end in
  factors "ipsi"%string C08_ex_rows = [(54453, 1600000); (1, 1); (371, 1800)]%Z /\
  factors "contra"%string C08_ex_rows = [(629, 800); (1, 1); (1, 1)]%Z /\
  factors "ipsi"%string C08_ex_rows' = [(54453, 1600000); (1, 1); (371, 1800)]%Z /\
  qout (row_lik_spec C01_ex_uni "ipsi" [qc 1 2; qc 1 4; qc 1 4]
          (nth 0 C08_ex_rows {| r_tstage_raw := 0%Z; r_cells := [] |})) = (54453, 1600000)%Z /\
  qout (row_findings_prob C01_ex_uni "ipsi" (nth 0 C08_ex_rows {| r_tstage_raw := 0%Z; r_cells := [] |}) [1; 2]%nat)
    = (7, 200)%Z.
Proof. vm_compute. repeat split; reflexivity. Qed.

(** the two tables agree on every cell the model looks at (hypothesis of
    C08_depends_only_on_recorded_cells), checked cell by cell *)
Example C08_ex_rows_agree :
  forallb (fun '(r, r') =>
      Z.eqb (r_tstage_raw r) (r_tstage_raw r') &&
      forallb (fun m => forallb (fun l =>
          match cell_get (m, "ipsi"%string, l) (r_cells r), cell_get (m, "ipsi"%string, l) (r_cells r') with
          | Some a, Some b => Bool.eqb a b | None, None => true | _, _ => false end)
        (u_lnls C01_ex_uni)) (u_mod_names C01_ex_uni))
    (combine C08_ex_rows C08_ex_rows') = true.
Proof. vm_compute. reflexivity. Qed.

(** T-stage mappings: the default raises on 5 (the load fails as a whole); a dict without the
    key gives the NaN stage; a callable raises *)
Example C08_ex_mappings :
  early_late 0%Z = Some "early"%string /\ early_late 4%Z = Some "late"%string /\ early_late 5%Z = None /\
  early_late (-1)%Z = None /\
  load_patient_data ["II"]%string "ipsi" early_late [{| r_tstage_raw := 1%Z; r_cells := [] |}; {| r_tstage_raw := 5%Z; r_cells := [] |}] = None /\
  option_map (map p_tstage)
    (load_patient_data ["II"]%string "ipsi" (dict_mapping [(1%Z, "a"%string)])
       [{| r_tstage_raw := 1%Z; r_cells := [] |}; {| r_tstage_raw := 5%Z; r_cells := [] |}])
    = Some ["a"%string; nan_stage] /\
  load_patient_data ["II"]%string "ipsi" (fun_mapping [(1%Z, "a"%string)])
       [{| r_tstage_raw := 1%Z; r_cells := [] |}; {| r_tstage_raw := 5%Z; r_cells := [] |}] = None.
Proof. vm_compute. repeat split; reflexivity. Qed.

(** the model without the pathology modality: on a table that records no pathology the
    factors coincide (C08_unknown_modality_is_marginalised), on [C08_ex_rows] they differ *)
Example C08_ex_drop_modality :
  let factors u rows :=
    match load_patient_data (u_lnls C01_ex_uni) "ipsi" early_late rows with
    | Some d => match hmm_likelihood_factors u d None with inr v => qouts v | inl _ => [] end
    | None => []
    end in
  u_mod_names (drop_modality "path" C01_ex_uni) = ["CT"]%string /\
  factors (drop_modality "path" C01_ex_uni) (tl C08_ex_rows) = factors C01_ex_uni (tl C08_ex_rows) /\
  factors C01_ex_uni (tl C08_ex_rows) = [(1, 1); (371, 1800)]%Z /\
  factors (drop_modality "path" C01_ex_uni) C08_ex_rows <> factors C01_ex_uni C08_ex_rows.
Proof. vm_compute. repeat split; try reflexivity. discriminate. Qed.
