From LymphModel Require Import Base States Linalg Graph Transition Observation Dist Unilateral UniStatements.
From LymphModel Require Import Models Bilateral Midline BiStatements.
From LymphModel Require Import TransitionProofs ObservationProofs PriorProofs LikelihoodProofs PosteriorProofs BilateralProofs.
Local Open Scope nat_scope.
Open Scope Qc_scope.

Theorem C02_bi_posterior_bayes : C02_bi_posterior_bayes_stmt.
Proof. exact bi_posterior_bayes. Qed.
Print Assumptions C02_bi_posterior_bayes.

Theorem C02_bi_posterior_sum_one : C02_bi_posterior_sum_one_stmt.
Proof. exact bi_posterior_sum_one. Qed.
Print Assumptions C02_bi_posterior_sum_one.

Theorem C02_bi_risk_bayes : C02_bi_risk_bayes_stmt.
Proof. exact bi_risk_bayes. Qed.
Print Assumptions C02_bi_risk_bayes.

(** Non-vacuity: the trinary two-modality bilateral model [C03_ex_bi] (different tumor spread
    per side, LNL arc III -> II against the listing order), the "late" joint prior, a
    diagnosis with CT + partial pathology findings ipsilaterally and one CT finding
    contralaterally. *)
Example C02_bi_ex_hypotheses :
  wf_bilateral C03_ex_bi = true /\
  wf_bpatient {| bp_t := ""; bp_ipsi := bp_ipsi C03_ex_p1; bp_contra := bp_contra C03_ex_p1 |} = true /\
  bi_state_dist C03_ex_bi "late" true = inr C03_ex_joint /\
  bi_posterior_of C03_ex_bi C03_ex_joint (bp_ipsi C03_ex_p1) (bp_contra C03_ex_p1) = inr (Some C03_ex_post) /\
  length C03_ex_post = length (u_states (b_ipsi C03_ex_bi)).
Proof. vm_compute. repeat split; reflexivity. Qed.

(** evidence P(diagnosis) (the normalising sum of Bayes' rule, from the spec), the posterior
    of (ipsi: II, III microscopic; contra: II healthy, III microscopic), total mass one *)
Example C02_bi_ex_posterior :
  msum (tab2 (bi_joint_dx C03_ex_bi (bi_joint_spec C03_ex_bi C03_ex_pm) (bp_ipsi C03_ex_p1) (bp_contra C03_ex_p1))
             (u_states (b_ipsi C03_ex_bi)) (u_states (b_contra C03_ex_bi))) = qc 91920217 3600000000 /\
  mget C03_ex_post 4 1 = qc 32031846 2298005425 /\
  msum C03_ex_post = 1.
Proof. repeat split; apply Qc_is_canon; vm_compute; reflexivity. Qed.

(** risk of (ipsi II involved, contra III healthy) through [bi_marginalize_of] and end to end
    through [bi_risk] *)
Example C02_bi_ex_risk :
  match bi_marginalize_of C03_ex_bi [("II", Some IInvolved)]%string [("III", Some IHealthy)]%string C03_ex_post with
  | inr r => Some (qout r)
  | inl _ => None
  end = Some (3924598903, 9192021700)%Z /\
  match bi_risk C03_ex_bi [("II", Some IInvolved)]%string [("III", Some IHealthy)]%string
                (bp_ipsi C03_ex_p1) (bp_contra C03_ex_p1) "late" true with
  | inr (Some r) => Some (qout r)
  | _ => None
  end = Some (3924598903, 9192021700)%Z.
Proof. split; vm_compute; reflexivity. Qed.
