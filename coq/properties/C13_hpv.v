(** C13 (HPVUnilateral part): the cohort likelihood is the concatenation of the HPV+ and
    HPV- sub-cohort factors; rows with missing status are not scored. *)
From LymphModel Require Import Base States Linalg Graph Transition Observation Dist Unilateral UniStatements Models Bilateral Midline Cohort LikelihoodProofs PriorProofs Hpv.

Theorem C13_hpv_likelihood_is_sum : C13_hpv_likelihood_is_sum_stmt.
Proof. exact hpv_likelihood_is_sum. Qed.
Print Assumptions C13_hpv_likelihood_is_sum.

Theorem C13_hpv_missing_status_dropped : C13_hpv_missing_status_dropped_stmt.
Proof. exact hpv_missing_status_dropped. Qed.
Print Assumptions C13_hpv_missing_status_dropped.

Theorem C13_hpv_scored_count : C13_hpv_scored_count_stmt.
Proof. exact hpv_scored_count. Qed.
Print Assumptions C13_hpv_scored_count.

(** Non-vacuity: the trinary model of C07 on both arms, three patients (HPV+, HPV-, unknown) *)
Local Open Scope string_scope.
Definition C13h_model : hpvmodel := {| h_hpv := C07_ex_uni; h_nohpv := C07_ex_uni |}.
Definition C13h_table : list hpatient :=
  [ {| hp_pat := {| p_tstage := "early"; p_find := [("CT", [("II", Some IInvolved); ("III", Some IHealthy)])] |}; hp_status := Some true |};
    {| hp_pat := {| p_tstage := "early"; p_find := [("path", [("III", Some IInvolved)])] |}; hp_status := Some false |};
    {| hp_pat := {| p_tstage := "early"; p_find := [("CT", [("II", Some IHealthy)])] |}; hp_status := None |} ].
Example C13h_two_factors :
  match hpv_cohort_factors C13h_model C13h_table (Some "early") with inr v => length v | inl _ => 0%nat end = 2%nat.
Proof. vm_compute. reflexivity. Qed.
