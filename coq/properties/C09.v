From LymphModel Require Import Base States Linalg Graph Transition Observation Dist Unilateral Machine.
From LymphModel Require Import MachineProofs.
Local Open Scope nat_scope.

Theorem C09_cache_coherent_init : C09_cache_coherent_init_stmt.
Proof. exact cache_coherent_init. Qed.
Print Assumptions C09_cache_coherent_init.

Theorem C09_cache_coherent_step : C09_cache_coherent_step_stmt.
Proof. exact cache_coherent_step. Qed.
Print Assumptions C09_cache_coherent_step.

Theorem C09_step_simulation : C09_step_simulation_stmt.
Proof. exact step_simulation. Qed.
Print Assumptions C09_step_simulation.

Theorem C09_history_independent : C09_history_independent_stmt.
Proof. exact history_independent. Qed.
Print Assumptions C09_history_independent.

Theorem C09_history_independent_from : C09_history_independent_from_stmt.
Proof. exact history_independent_from. Qed.
Print Assumptions C09_history_independent_from.

Theorem C09_output_depends_on_abs : C09_output_depends_on_abs_stmt.
Proof. exact output_depends_on_abs. Qed.
Print Assumptions C09_output_depends_on_abs.

Theorem C09_fresh_equiv : C09_fresh_equiv_stmt.
Proof. exact fresh_equiv. Qed.
Print Assumptions C09_fresh_equiv.

Theorem C09_queries_are_pure : C09_queries_are_pure_stmt.
Proof. exact queries_are_pure. Qed.
Print Assumptions C09_queries_are_pure.

Theorem C09_repeated_query : C09_repeated_query_stmt.
Proof. exact repeated_query. Qed.
Print Assumptions C09_repeated_query.

(** the theorems are not vacuous: with the version (resp. the modalities) left out of the
    cache key the machine is NOT history independent on a 5 (6) step history, while the
    real key passes the same history *)
Theorem C09_stale_version_refuted : C09_stale_version_refuted_stmt.
Proof. exact stale_version_refuted. Qed.
Print Assumptions C09_stale_version_refuted.

Theorem C09_stale_mods_refuted : C09_stale_mods_refuted_stmt.
Proof. exact stale_mods_refuted. Qed.
Print Assumptions C09_stale_mods_refuted.

(** the Unilateral instance computes with the functions of Observation.v / Unilateral.v *)
Theorem C09_observe_faithful : C09_observe_faithful_stmt.
Proof. exact observe_faithful. Qed.
Print Assumptions C09_observe_faithful.

Theorem C09_uni_matrices_faithful : C09_uni_matrices_faithful_stmt.
Proof. exact uni_matrices_faithful. Qed.
Print Assumptions C09_uni_matrices_faithful.

(** Non-vacuity: a 27-operation history over two live Unilateral models (3-node graph with
    an LNL arc, a frozen and a binomial distribution, cohorts with missing findings) sharing
    the module cache: the cached machine and the cache-free machine give the same outputs,
    which are specific non-trivial rationals; the stale-cache pattern of the changelog
    (load 3 rows, edit the modality in place, reload 1 row, query one T-stage) returns the
    1-row matrix of the NEW modality; the other instance is unaffected. *)
Example C09_ex_cached_equals_spec :
  uni_run_cached C09_ex_history = uni_run C09_ex_history /\ length C09_ex_history = 27.
Proof. split; vm_compute; reflexivity. Qed.

Example C09_ex_values :
  nth 12 (uni_run_cached C09_ex_history) PNone
    = PMat [[(1, 4); (1, 4); (7, 8); (7, 8)]; [(3, 16); (21, 32); (1, 32); (7, 64)]; [(1, 1); (1, 1); (1, 1); (1, 1)]]%Z /\
  nth 19 (uni_run_cached C09_ex_history) PNone = PMat [[(1, 2); (1, 2); (7, 8); (7, 8)]]%Z /\
  nth 20 (uni_run_cached C09_ex_history) PNone = PVec [(2555, 4096)]%Z /\
  nth 13 (uni_run_cached C09_ex_history) PNone = PVec [(955, 16384)]%Z /\
  nth 21 (uni_run_cached C09_ex_history) PNone = nth 13 (uni_run_cached C09_ex_history) PNone /\
  nth 25 (uni_run_cached C09_ex_history) PNone = POptQ (Some (1772225, 9063386)%Z).
Proof. vm_compute. repeat split; reflexivity. Qed.

(** the state reached by the history satisfies the hypotheses of every theorem above *)
Example C09_ex_coherent : cache_coherent uni_sig (snd (crun uni_sig (init uni_sig) C09_ex_history)).
Proof. apply (C09_history_independent_from uni_sig (init uni_sig) C09_ex_history (C09_cache_coherent_init uni_sig)). Qed.
