(** C17 / C12 for models.Midline: literal subsets of the parameter names as [named_params]
    (theories/NamedMidlineMore.v, on top of ParamsMidline.v / ParamsMidlineMore.v). *)
From LymphModel Require Import Base States Linalg Graph Transition Observation Dist Unilateral Models Params
  ParamsStatements ParamsLemmas ParamsProofs ParamsBilateral ParamsMidline ParamsMidlineMore
  Safe ParamsMidlineSafe Named NamedProofs NamedMidline NamedMidlineMore.

Theorem C17_midline_literal_subset_roundtrip : C17_midline_literal_subset_roundtrip_stmt.
Proof. exact midline_literal_subset_roundtrip. Qed.
Print Assumptions C17_midline_literal_subset_roundtrip.

Theorem C17_midline_literal_subset_hyps : C17_midline_literal_subset_hyps_stmt.
Proof. exact midline_literal_subset_hyps. Qed.
Print Assumptions C17_midline_literal_subset_hyps.

Theorem C17_midline_extra_keyword_raises : C17_midline_extra_keyword_raises_stmt.
Proof. exact midline_extra_keyword_raises. Qed.
Print Assumptions C17_midline_extra_keyword_raises.

(** acceptable proposals are accepted; with the round trip: the complete statement *)
Theorem C17_midline_literal_subset_accepted : C17_midline_literal_subset_accepted_stmt.
Proof. exact midline_literal_subset_accepted. Qed.
Print Assumptions C17_midline_literal_subset_accepted.

Theorem C17_midline_literal_subset_complete : C17_midline_literal_subset_complete_stmt.
Proof. exact midline_literal_subset_complete. Qed.
Print Assumptions C17_midline_literal_subset_complete.

(** observation: the hypothesis [mixing_kw_ok] is needed *)
Theorem C17_midline_mixing_keyword_refuted : C17_midline_mixing_keyword_refuted_stmt.
Proof. exact midline_mixing_keyword_refuted. Qed.
Print Assumptions C17_midline_mixing_keyword_refuted.

(** * Non-vacuity: the 23-parameter trinary Midline model of properties/C12.v (use_mixing,
    use_midext_evo, marginalize_unknown, LNL spread asymmetric; three LNLs listed II, III, I
    with the arc I -> II against the listing order; a frozen, a binomial and a linear
    distribution), started from an OUT-OF-SYNC state: a full valid assignment followed by a
    keyword call that fails half-way through ext.contra (contra_II_growth = 9/10 arrives in
    ext.contra only, then contra_IItoIII_micro = 17/16 raises) *)
Local Open Scope string_scope.
Local Open Scope list_scope.
Definition C17m_graph : graph :=
  force_graph (build_graph 3
     [ (("tumor", "T"), CList ["II"; "III"]);
       (("lnl", "II"), CList ["III"]);
       (("lnl", "III"), CList []);
       (("lnl", "I"), CList ["II"]) ]).
Definition C17m_uni : uni :=
  new_uni C17m_graph [("early", Frozen [qc 1 2; qc 1 4; qc 1 4]); ("late", Param 0 [("p", qc 1 3)]);
                      ("mid", Param 1 [("a", qc 1 2); ("b", qc 1 1)])] 2.
Definition C17m_fresh : midline := new_midline C17m_uni true false true true false.
Definition C17m_names : list path := match param_names (MMid C17m_fresh) with Some l => l | None => [] end.
Definition C17m_valid : list Qc :=
  [qc 1 10; qc 2 10; qc 3 10; qc 4 10; qc 5 10; qc 6 10; qc 7 10; qc 8 10; qc 9 10;
   qc 3 10; qc 4 10; qc 1 10; qc 2 10; qc 3 10; qc 4 10; qc 5 10; qc 6 10; qc 7 10;
   qc 1 4; qc 3 4; qc 5 2; qc 1 1; qc 0 1].
Definition C17m_bad : kwargs := [(["contra"; "II"; "growth"], V (qc 9 10)); (["contra"; "IItoIII"; "micro"], V (qc 17 16))].
Definition C17m_mid : midline :=
  fst (m_set_params (fst (m_set_params C17m_fresh [] (kw_of C17m_names C17m_valid))) [] C17m_bad).
(** the declaration: three of the 23 names, not in parameter order *)
Definition C17m_named : list path := [["contra"; "IItoIII"; "micro"]; ["mixing"]; ["mid"; "a"]].
Definition C17m_qs : list Qc := [qc 3 7; qc 1 2; qc 7 2].
Definition C17m_after : nstate := fst (set_named_params (mk_nstate (MMid C17m_mid) (Some C17m_named)) (vals C17m_qs) []).

Example C17m_hyps :
  m_names_ok C17m_mid = true /\ mid_set_ok C17m_mid = true /\ m_lnl_synced C17m_mid = false /\
  option_map (@length _) (param_items (MMid C17m_mid)) = Some 23%nat /\
  NoDup C17m_named /\ length C17m_qs = length C17m_named /\
  option_map (fun ns => forallb (fun n => memp n ns) C17m_named) (param_names (MMid C17m_mid)) = Some true /\
  mixing_kw_ok C17m_mid C17m_named.
Proof.
  split; [vm_compute; reflexivity|]. split; [vm_compute; reflexivity|]. split; [vm_compute; reflexivity|].
  split; [vm_compute; reflexivity|].
  split; [repeat constructor; cbn; intuition discriminate|]. split; [reflexivity|]. split; [vm_compute; reflexivity|].
  intros _ H. vm_compute in H. repeat (destruct H as [H|H]; [discriminate H|]). exact H.
Qed.
(** ... and the hypotheses of the acceptance theorems: the (out-of-sync) state is valid and the
    proposal acceptable (mid_a = 7/2 is accepted by the linear family of every sub-model) *)
Example C17m_acceptable : m_spread_valid C17m_mid /\ lit_accepts C17m_mid C17m_named C17m_qs
  /\ ~ lit_accepts C17m_mid C17m_named [qc 3 7; qc 3 2; qc 7 2].
Proof.
  split; [apply m_spread_validb_ok; vm_compute; reflexivity|]. split; [apply lit_acceptsb_ok; vm_compute; reflexivity|].
  intros [H _]. specialize (H ["mixing"] (qc 3 2)). cbn [C17m_named combine In] in H.
  assert (E : in_unit (qc 3 2) = true).
  { apply H; [right; left; reflexivity|]. intros Hin. vm_compute in Hin. repeat (destruct Hin as [Hin|Hin]; [discriminate Hin|]). exact Hin. }
  vm_compute in E. discriminate E.
Qed.
(** the call returns normally; get_named_params returns the vector under the declared names *)
Example C17m_returns :
  res_tag (snd (set_named_params (mk_nstate (MMid C17m_mid) (Some C17m_named)) (vals C17m_qs) [])) = 0%nat /\
  out_res_items (get_named_params C17m_after)
  = Some [(["contra"; "IItoIII"; "micro"], (3, 7)%Z); (["mixing"], (1, 2)%Z); (["mid"; "a"], (7, 2)%Z)].
Proof. split; vm_compute; reflexivity. Qed.
(** undeclared parameters keep their reported value (contra_II_growth = 9/10 is the
    out-of-sync ext.contra value; noext.contra still holds 1/10), mid_b next to the changed mid_a *)
Example C17m_untouched :
  option_map (fun l => map (fun k => option_map qout (kw_get k l))
                           [["contra"; "II"; "growth"]; ["ipsi"; "ItoII"; "micro"]; ["mid"; "b"]; ["contra"; "IItoIII"; "micro"]])
             (param_items (MMid C17m_mid))
  = Some [Some (9, 10)%Z; Some (9, 10)%Z; Some (1, 1)%Z; Some (3, 10)%Z] /\
  option_map (fun l => map (fun k => option_map qout (kw_get k l))
                           [["contra"; "II"; "growth"]; ["ipsi"; "ItoII"; "micro"]; ["mid"; "b"]; ["contra"; "IItoIII"; "micro"]])
             (param_items (ns_model C17m_after))
  = Some [Some (9, 10)%Z; Some (9, 10)%Z; Some (1, 1)%Z; Some (3, 7)%Z].
Proof. split; vm_compute; reflexivity. Qed.
(** the derived (unreported) ext.contra tumour spread follows the new mixing parameter:
    1/4 * 1/10 + 3/4 * 3/10 = 1/4 before, 1/2 * 1/10 + 1/2 * 3/10 = 1/5 afterwards *)
Example C17m_mixture :
  option_map qout (kw_get ["TtoII"; "spread"] (u_got (b_contra (ml_ext C17m_mid)))) = Some (1, 4)%Z /\
  match ns_model C17m_after with
  | MMid ml => option_map qout (kw_get ["TtoII"; "spread"] (u_got (b_contra (ml_ext ml)))) = Some (1, 5)%Z
  | _ => False
  end.
Proof. split; vm_compute; reflexivity. Qed.
(** C12: the same proposal through likelihood(given_params = dict) is scored (tag 0), an
    out-of-range value for a declared name gives -inf (tag 1) *)
Example C17m_given :
  out_lres (snd (likelihood_given _ (fun m => option_map out_items (param_items m)) (Some C17m_named) (MMid C17m_mid)
                   (Safe.GDict (combine C17m_named (vals C17m_qs))))) = 0%nat /\
  out_lres (snd (likelihood_given _ (fun m => option_map out_items (param_items m)) (Some C17m_named) (MMid C17m_mid)
                   (Safe.GList (vals [qc 3 7; qc 3 2; qc 7 2])))) = 1%nat.
Proof. split; vm_compute; reflexivity. Qed.
