From LymphModel Require Import Base States Linalg Graph Transition Observation Dist Unilateral UniStatements.
From LymphModel Require Import TransitionProofs ObservationProofs PriorProofs.
Local Open Scope nat_scope.
Open Scope Qc_scope.

Theorem C07_evo_length : C07_evo_length_stmt.
Proof. exact evo_length. Qed.
Print Assumptions C07_evo_length.

Theorem C07_evo_spec : C07_evo_spec_stmt.
Proof. exact (evo_spec_correct transition_entries). Qed.
Print Assumptions C07_evo_spec.

Theorem C07_evo_sum_one : C07_evo_sum_one_stmt.
Proof. exact (evo_sum_one row_sums). Qed.
Print Assumptions C07_evo_sum_one.

Theorem C07_evo_nonneg : C07_evo_nonneg_stmt.
Proof. exact (evo_nonneg entries_in_unit_interval). Qed.
Print Assumptions C07_evo_nonneg.

Theorem C07_evolve_additive : C07_evolve_additive_stmt.
Proof. exact evolve_additive. Qed.
Print Assumptions C07_evolve_additive.

Theorem C07_state_dist_spec : C07_state_dist_spec_stmt.
Proof. exact (state_dist_spec transition_entries). Qed.
Print Assumptions C07_state_dist_spec.

Theorem C07_state_dist_sum_one : C07_state_dist_sum_one_stmt.
Proof. exact (state_dist_sum_one row_sums). Qed.
Print Assumptions C07_state_dist_sum_one.

Theorem C07_bn_spec : C07_bn_spec_stmt.
Proof. exact bn_spec_correct. Qed.
Print Assumptions C07_bn_spec.

Theorem C07_bn_trinary_not_implemented : C07_bn_trinary_not_implemented_stmt.
Proof. exact bn_trinary_not_implemented. Qed.
Print Assumptions C07_bn_trinary_not_implemented.

Theorem C07_obs_dist_spec : C07_obs_dist_spec_stmt.
Proof. exact (obs_dist_spec observation_entries). Qed.
Print Assumptions C07_obs_dist_spec.

(** Non-vacuity: a trinary graph T -> II, T -> III, III -> II (the LNL arc runs against
    the listing order II, III) with growth arcs, two modalities (clinical + pathological),
    a frozen and a parametric (binomial) time distribution, max_time = 2; and the binary
    graph of the same topology for the Bayesian network. *)
Example C07_ex_hypotheses :
  wf_graphb C07_ex_graph = true /\ base_ok (u_base C07_ex_uni) = true /\
  wf_graphb C07_ex_bin_graph = true /\ g_base C07_ex_bin_graph = 2%nat /\
  map e_name (g_edges C07_ex_graph) = ["TtoII"; "TtoIII"; "II"; "III"; "IIItoII"]%string.
Proof. vm_compute. repeat split; reflexivity. Qed.

(** P(II microscopic, III macroscopic at t = 2), from the spec and from the matrix evolution *)
Example C07_ex_evo :
  evo_spec C07_ex_graph 2 [1; 2]%nat = qc 83 1200 /\
  nth 5 (nth 2 (state_dist_evo C07_ex_uni) []) 0 = qc 83 1200.
Proof. split; apply Qc_is_canon; vm_compute; reflexivity. Qed.

(** the binomial(p = 1/3) time prior and the marginalised prior of the same state *)
Example C07_ex_prior :
  match get_pmf C07_ex_uni "late" with inr pm => qouts pm | inl _ => [] end = [(4, 9); (4, 9); (1, 9)]%Z /\
  prior_spec C07_ex_uni [qc 4 9; qc 4 9; qc 1 9] [1; 2]%nat = qc 83 10800 /\
  sumQ [qc 4 9; qc 4 9; qc 1 9] = 1.
Proof. split; [vm_compute; reflexivity|]. split; apply Qc_is_canon; vm_compute; reflexivity. Qed.

(** Bayesian network, binary: P(II healthy, III involved) = (1/2 * 2/3) * 1/4 *)
Example C07_ex_bn :
  bn_spec C07_ex_bin_graph [0; 1]%nat = qc 1 12 /\
  match state_dist_bn C07_ex_bin_graph with inr sd => qouts sd | inl _ => [] end
    = [(3, 8); (1, 12); (3, 8); (1, 6)]%Z /\
  state_dist_bn C07_ex_graph = inl MNotImpl.
Proof. split; [apply Qc_is_canon; vm_compute; reflexivity|]. split; vm_compute; reflexivity. Qed.

(** observation distribution: P(CT = (0, 1), path = (0, 1)) under the "late" prior *)
Example C07_ex_obs :
  nth 5 (u_obs_list C07_ex_uni) [] = [0; 1; 0; 1]%nat /\
  match state_dist C07_ex_uni "late" true with
  | inr sd => nth 5 (obs_dist_of C07_ex_uni sd) 0
  | inl _ => 0
  end = qc 126839 6000000.
Proof. split; [vm_compute; reflexivity|]. apply Qc_is_canon; vm_compute; reflexivity. Qed.
