(** C20, distributions over different supports (defect D23, repaired by a fix: commit): [Distribution.__eq__] of two
    distributions whose max_time differs answers False (it used to raise), and their hash keys differ.  Statement and
    proof in theories/HashDist2.v. *)
From LymphModel Require Import Base States Linalg Graph Dist Hash HashDist2.
Local Open Scope nat_scope.
Open Scope Qc_scope.

Theorem C20_dist_mixed_support : C20_dist_mixed_support_stmt.
Proof. exact dist_mixed_support. Qed.
Print Assumptions C20_dist_mixed_support.

(** Non-vacuity: the binomial family with p = 1/2 on 0..1 and on 0..2, and two frozen distributions with the same
    leading weights: both pmfs are defined, the comparison is defined and false, the keys differ; on one support the
    comparison is the ordinary one. *)
Example C20_ex_mixed_support :
  option_map qouts (pmf 1 (Param 0 [("p"%string, qc 1 2)])) = Some [(1, 2); (1, 2)]%Z
  /\ option_map qouts (pmf 2 (Param 0 [("p"%string, qc 1 2)])) = Some [(1, 4); (1, 2); (1, 4)]%Z
  /\ dist_eq2 1 2 (Param 0 [("p"%string, qc 1 2)]) (Param 0 [("p"%string, qc 1 2)]) = Some false
  /\ dist_eq2 2 2 (Param 0 [("p"%string, qc 1 2)]) (Param 0 [("p"%string, qc 1 2)]) = Some true
  /\ dist_eq2 1 2 (Frozen [qc 1 2; qc 1 2]) (Frozen [qc 1 2; qc 1 2; 0]) = Some false
  /\ dist_key 1 (Param 0 [("p"%string, qc 1 2)]) <> dist_key 2 (Param 0 [("p"%string, qc 1 2)]).
Proof.
  repeat split; try (vm_compute; reflexivity).
  intros H. apply (f_equal (option_map (fun k => length (snd k)))) in H. vm_compute in H. discriminate.
Qed.
