(** C17: named parameters -- a declared subset is exactly what list-style access
    touches.  The executable model is theories/Named.v (on top of the parameter
    plumbing Params.v of C10), the proofs are in theories/NamedProofs.v.  This file
    closes the statements, prints their assumptions and exhibits non-trivial objects.

    Coverage: [does_contain_in_order_spec], [alias_map_spec], [reverse_alias_map_spec],
    [assigned_*], [num_dims_is_declared_count], [extra_keyword_raises],
    [value_error_is_minus_inf], [delete_restores_default] hold for EVERY model class
    (they do not depend on how [set_params] resolves keywords).  [set_named_spec],
    [set_named_positional], [global_name_addresses_all_matches], [get_named_after_set],
    [literal_subset_hyps], [literal_subset_roundtrip] are proved for Unilateral and Bilateral models in general ([covered m = true]: every
    graph, all four symmetry settings, every declared list, every argument vector); for
    Midline they are tied to the code by the correspondence check only, HPVUnilateral is
    the known finding [C17_hpv_named_refuted]. *)
From LymphModel Require Import Base States Linalg Graph Transition Observation Dist Unilateral Models Params
  ParamsStatements ParamsProofs Named NamedProofs.

Theorem C17_does_contain_in_order_spec : C17_does_contain_in_order_spec_stmt.
Proof. exact does_contain_in_order_spec. Qed.
Print Assumptions C17_does_contain_in_order_spec.

Theorem C17_alias_map_spec : C17_alias_map_spec_stmt.
Proof. exact alias_map_spec. Qed.
Print Assumptions C17_alias_map_spec.

Theorem C17_reverse_alias_map_spec : C17_reverse_alias_map_spec_stmt.
Proof. exact reverse_alias_map_spec. Qed.
Print Assumptions C17_reverse_alias_map_spec.

Theorem C17_assigned_positional : C17_assigned_positional_stmt.
Proof. exact assigned_positional. Qed.
Print Assumptions C17_assigned_positional.

Theorem C17_assigned_none : C17_assigned_none_stmt.
Proof. exact assigned_none. Qed.
Print Assumptions C17_assigned_none.

Theorem C17_set_named_spec : C17_set_named_spec_stmt.
Proof. exact set_named_spec. Qed.
Print Assumptions C17_set_named_spec.

Theorem C17_set_named_positional : C17_set_named_positional_stmt.
Proof. exact set_named_positional. Qed.
Print Assumptions C17_set_named_positional.

Theorem C17_global_name_addresses_all_matches : C17_global_name_addresses_all_matches_stmt.
Proof. exact global_name_addresses_all_matches. Qed.
Print Assumptions C17_global_name_addresses_all_matches.

Theorem C17_get_named_after_set : C17_get_named_after_set_stmt.
Proof. exact get_named_after_set. Qed.
Print Assumptions C17_get_named_after_set.

Theorem C17_literal_subset_hyps : C17_literal_subset_hyps_stmt.
Proof. exact literal_subset_hyps. Qed.
Print Assumptions C17_literal_subset_hyps.

Theorem C17_literal_subset_roundtrip : C17_literal_subset_roundtrip_stmt.
Proof. exact literal_subset_roundtrip. Qed.
Print Assumptions C17_literal_subset_roundtrip.

Theorem C17_num_dims_is_declared_count : C17_num_dims_is_declared_count_stmt.
Proof. exact num_dims_is_declared_count. Qed.
Print Assumptions C17_num_dims_is_declared_count.

Theorem C17_extra_keyword_raises : C17_extra_keyword_raises_stmt.
Proof. exact extra_keyword_raises. Qed.
Print Assumptions C17_extra_keyword_raises.

Theorem C17_value_error_is_minus_inf : C17_value_error_is_minus_inf_stmt.
Proof. exact value_error_is_minus_inf. Qed.
Print Assumptions C17_value_error_is_minus_inf.

Theorem C17_delete_restores_default : C17_delete_restores_default_stmt.
Proof. exact delete_restores_default. Qed.
Print Assumptions C17_delete_restores_default.

(** * Known findings and necessity of the hypotheses (the code does this) *)
Theorem C17_side_global_leak_refuted : C17_side_global_leak_refuted_stmt.
Proof. exact side_global_leak_refuted. Qed.
Print Assumptions C17_side_global_leak_refuted.

Theorem C17_hpv_named_refuted : C17_hpv_named_refuted_stmt.
Proof. exact hpv_named_refuted. Qed.
Print Assumptions C17_hpv_named_refuted.

Theorem C17_no_ties_needed_refuted : C17_no_ties_needed_refuted_stmt.
Proof. exact no_ties_needed_refuted. Qed.
Print Assumptions C17_no_ties_needed_refuted.

(** * Non-vacuity: a trinary bilateral model (three LNLs listed II, III, I, an arc against
    the listing order, growth arcs, a parametric distribution), tumour spread asymmetric,
    LNL spread symmetric; declared: a specific name BEFORE the global one it is shadowed
    by, a partially global name, a distribution keyword *)
Local Open Scope string_scope.
Definition C17_ex_graph : graph :=
  force_graph (build_graph 3
     [ (("tumor", "T"), CList ["II"; "III"]);
       (("lnl", "II"), CList ["III"]);
       (("lnl", "III"), CList []);
       (("lnl", "I"), CList ["II"]) ]).
Definition C17_ex_uni : uni := new_uni C17_ex_graph [("late", Param 0 [("p", qc 1 3)])] 2.
Definition C17_ex_model : model := MBi (new_bilateral C17_ex_uni false true).
Definition C17_ex_named : list path :=
  [["ipsi"; "TtoII"; "spread"]; ["spread"]; ["TtoIII"; "spread"]; ["p"]; ["I"; "growth"]].
Definition C17_ex_names : list path :=
  [["ipsi"; "TtoII"; "spread"]; ["ipsi"; "TtoIII"; "spread"]; ["contra"; "TtoII"; "spread"]; ["contra"; "TtoIII"; "spread"];
   ["II"; "growth"]; ["IItoIII"; "spread"]; ["IItoIII"; "micro"]; ["III"; "growth"]; ["I"; "growth"]; ["ItoII"; "spread"];
   ["ItoII"; "micro"]; ["late"; "p"]].

Example C17_ex_covered : covered C17_ex_model = true.
Proof. vm_compute. reflexivity. Qed.
Example C17_ex_param_names : param_names C17_ex_model = Some C17_ex_names.
Proof. vm_compute. reflexivity. Qed.
(** the hypotheses of the theorems hold for this declaration *)
Example C17_ex_hyps :
  (names_consistent C17_ex_model C17_ex_names C17_ex_named, no_ties C17_ex_names C17_ex_named,
   each_owns C17_ex_names C17_ex_named, each_matches C17_ex_names C17_ex_named) = (true, true, true, true).
Proof. vm_compute. reflexivity. Qed.
(** "spread" addresses 6 parameters, "TtoIII_spread" 2 of them, "ipsi_TtoII_spread" 1 *)
Example C17_ex_aliases :
  map (fun e => length (snd e)) (create_alias_map C17_ex_names C17_ex_named) = [1; 6; 2; 1; 1]%nat.
Proof. vm_compute. reflexivity. Qed.
(** set_named_params(1/8, 1/4, 1/2, 3/4, 1): specific names beat "spread", the untouched
    remainder (growth of II and III, both micro modifiers) keeps its value *)
Definition C17_ex_after : nstate :=
  fst (set_named_params (mk_nstate C17_ex_model (Some C17_ex_named)) (vals [qc 1 8; qc 1 4; qc 1 2; qc 3 4; 1%Qc]) []).
Example C17_ex_set_ok :
  snd (set_named_params (mk_nstate C17_ex_model (Some C17_ex_named)) (vals [qc 1 8; qc 1 4; qc 1 2; qc 3 4; 1%Qc]) []) = inr tt.
Proof. vm_compute. reflexivity. Qed.
Example C17_ex_params_after :
  option_map (fun l => map qout (map snd l)) (param_items (ns_model C17_ex_after))
  = Some [(1, 8); (1, 2); (1, 4); (1, 2); (0, 1); (1, 4); (1, 1); (0, 1); (1, 1); (1, 4); (1, 1); (3, 4)]%Z.
Proof. vm_compute. reflexivity. Qed.
Example C17_ex_get_named :
  out_res_items (get_named_params C17_ex_after)
  = Some [(["ipsi"; "TtoII"; "spread"], (1, 8)); (["spread"], (1, 4)); (["TtoIII"; "spread"], (1, 2)); (["p"], (3, 4));
          (["I"; "growth"], (1, 1))]%Z.
Proof. vm_compute. reflexivity. Qed.
Example C17_ex_num_dims : get_num_dims C17_ex_after = inr 5%nat.
Proof. vm_compute. reflexivity. Qed.
(** a keyword outside the declaration: ExtraParamsError, not -inf; a rejected value: -inf *)
Example C17_ex_extra :
  snd (likelihood_outcome C17_ex_after (GDict [(["IItoIII"; "spread"], V (qc 1 2))])) = Raised ExtraParamsError
  /\ snd (likelihood_outcome C17_ex_after (GList [V (qc 3 2)])) = MinusInf.
Proof. vm_compute. split; reflexivity. Qed.
(** deleting the declaration: all 12 parameters again *)
Example C17_ex_delete :
  match del_named C17_ex_after with inr s => get_num_dims s | inl e => inl e end = inr 12%nat.
Proof. vm_compute. reflexivity. Qed.
