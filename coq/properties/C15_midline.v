(** C15, Midline part: the Spec of the midline model (the contralateral chain with the
    extension flag, the joint over (extension, ipsi, contra), the per-patient likelihood
    for a known / unknown extension status) does not depend on names or on listing
    order.  Statements and proofs in theories/InvarianceMidline.v; they rest on the
    single-graph theorems of theories/InvarianceProofs.v (properties/C15.v). *)
From Coq Require Import Permutation.
From LymphModel Require Import Base States Linalg Graph Transition Observation Dist Unilateral
  UniStatements Models Bilateral Midline BiStatements TransitionProofs Invariance InvarianceProofs
  MidlineProofs InvarianceMidline.
Local Open Scope nat_scope.
Open Scope Qc_scope.

(** 1. generic transfer along a relabelling of the states *)
Theorem C15_midline_transfer : C15_midline_transfer_stmt.
Proof. exact midline_transfer. Qed.
Print Assumptions C15_midline_transfer.

Theorem C15_midline_wf_compatible : C15_midline_wf_compatible_stmt.
Proof. exact midline_wf_compatible. Qed.
Print Assumptions C15_midline_wf_compatible.

(** 3. ... and of the per-patient likelihood (known / unknown extension status) *)
Theorem C15_midline_transfer_lik : C15_midline_transfer_lik_stmt.
Proof. exact midline_transfer_lik. Qed.
Print Assumptions C15_midline_transfer_lik.

(** 2(a). arc order *)
Theorem C15_midline_arc_order : C15_midline_arc_order_stmt.
Proof. exact midline_arc_order. Qed.
Print Assumptions C15_midline_arc_order.

(** 2(b). listing order of nodes and arcs *)
Theorem C15_midline_listing_order : C15_midline_listing_order_stmt.
Proof. exact midline_listing_order. Qed.
Print Assumptions C15_midline_listing_order.

(** 2(c). renaming *)
Theorem C15_midline_renaming : C15_midline_renaming_stmt.
Proof. exact midline_renaming. Qed.
Print Assumptions C15_midline_renaming.

Theorem C15_midline_renaming_model : C15_midline_renaming_model_stmt.
Proof. exact midline_renaming_model. Qed.
Print Assumptions C15_midline_renaming_model.

(** * Non-vacuity: the trinary midline model of the C04 examples (LNLs II, III; arc
      III -> II against the listing order; three different tumour spreads; evolving
      extension) with every sub-model graph listed backwards / renamed *)
Local Open Scope string_scope.
Example C15m_ex_wf :
  wf_midline C15m_ex_ml = true /\ contra_compatible C15m_ex_ml /\ length (ml_unis C15m_ex_ml) = 6%nat /\
  lnls (ml_gi C15m_ex_ml) = ["II"; "III"] /\
  lnls (ml_gi (ml_map_graphs rev_graph C15m_ex_ml)) = ["III"; "II"] /\
  map e_name (g_edges (ml_gn C15m_ex_ml)) = ["TtoII"; "TtoIII"; "II"; "III"; "IIItoII"] /\
  map e_name (g_edges (ml_gn (ml_map_graphs rev_graph C15m_ex_ml))) = ["IIItoII"; "III"; "II"; "TtoIII"; "TtoII"] /\
  lnls (ml_gi (ml_map_graphs (rename_graph C15_ex_rl) C15m_ex_ml)) = ["xII"; "xIII"] /\
  relist (ml_gi C15m_ex_ml) (rev_graph (ml_gi C15m_ex_ml)) [1; 2]%nat = [2; 1]%nat.
Proof.
  split; [vm_compute; reflexivity|]. split; [apply C15_midline_wf_compatible; vm_compute; reflexivity|].
  vm_compute. repeat split; reflexivity.
Qed.

(** the hypotheses of [C15_midline_listing_order] hold for the reversed listing *)
Example C15m_ex_listing_hyps :
  (forall u, In u (ml_unis C15m_ex_ml) ->
     wf_graphb (u_graph u) = true /\ graph_relisted (u_graph u) (rev_graph (u_graph u))) /\
  same_listing (map u_graph (ml_unis C15m_ex_ml)) /\
  same_listing (map (fun u => rev_graph (u_graph u)) (ml_unis C15m_ex_ml)).
Proof.
  split; [|split].
  - intros u Hu. split; [|apply rev_graph_relisted].
    vm_compute in Hu. repeat (destruct Hu as [<-|Hu]; [vm_compute; reflexivity|]). destruct Hu.
  - apply (same_listing_intro ["II"; "III"] 3%nat). intros g Hg.
    vm_compute in Hg. repeat (destruct Hg as [<-|Hg]; [split; vm_compute; reflexivity|]). destruct Hg.
  - apply (same_listing_intro ["III"; "II"] 3%nat). intros g Hg.
    vm_compute in Hg. repeat (destruct Hg as [<-|Hg]; [split; vm_compute; reflexivity|]). destruct Hg.
Qed.

(** concrete values: the joint of the original at (xi, xc) = ([1;2], [2;0]) and of the
    re-listed model at the relabelled states ([2;1], [0;2]) agree — and differ from the
    re-listed model's value at the un-relabelled states *)
Example C15m_ex_values :
  qout (ml_joint_spec C15m_ex_ml C15m_ex_pm true [1; 2]%nat [2; 0]%nat) = (9047, 19200000)%Z /\
  qout (ml_joint_spec (ml_map_graphs rev_graph C15m_ex_ml) C15m_ex_pm true [2; 1]%nat [0; 2]%nat)
    = (9047, 19200000)%Z /\
  qout (ml_joint_spec (ml_map_graphs rev_graph C15m_ex_ml) C15m_ex_pm true [1; 2]%nat [2; 0]%nat)
    = (117, 1280000)%Z /\
  qout (ml_joint_spec C15m_ex_ml C15m_ex_pm false [1; 2]%nat [2; 0]%nat) = (23987, 72000000)%Z /\
  qout (ml_joint_spec (ml_map_graphs (rename_graph C15_ex_rl) C15m_ex_ml) C15m_ex_pm true [1; 2]%nat [2; 0]%nat)
    = (9047, 19200000)%Z /\
  qout (ml_joint_spec (ml_map_graphs rev_arcs C15m_ex_ml) C15m_ex_pm true [1; 2]%nat [2; 0]%nat)
    = (9047, 19200000)%Z /\
  qout (ml_contra_spec C15m_ex_ml 2 true [2; 0]%nat) = (109, 4000)%Z.
Proof. vm_compute. repeat split; reflexivity. Qed.
Example C15m_ex_joint_equal :
  ml_joint_spec (ml_map_graphs rev_graph C15m_ex_ml) C15m_ex_pm true [2; 1]%nat [0; 2]%nat
  = ml_joint_spec C15m_ex_ml C15m_ex_pm true [1; 2]%nat [2; 0]%nat.
Proof. apply Qc_is_canon; vm_compute; reflexivity. Qed.
(** the same equality from the theorem *)
Example C15m_ex_listing_by_theorem :
  let pi := relist (ml_gi C15m_ex_ml) (rev_graph (ml_gi C15m_ex_ml)) in
  ml_joint_spec (ml_map_graphs rev_graph C15m_ex_ml) C15m_ex_pm true (pi [1; 2]%nat) (pi [2; 0]%nat)
  = ml_joint_spec C15m_ex_ml C15m_ex_pm true [1; 2]%nat [2; 0]%nat.
Proof.
  destruct C15m_ex_listing_hyps as (H1 & H2 & H3).
  destruct (C15_midline_listing_order rev_graph C15m_ex_ml H1 H2 H3) as (_ & _ & Hj & _).
  apply Hj; vm_compute; tauto.
Qed.
Example C15m_ex_renaming_by_theorem :
  ml_joint_spec (ml_map_graphs (rename_graph C15_ex_rl) C15m_ex_ml) C15m_ex_pm true [1; 2]%nat [2; 0]%nat
  = ml_joint_spec C15m_ex_ml C15m_ex_pm true [1; 2]%nat [2; 0]%nat.
Proof. apply (C15_midline_renaming C15_ex_rl C15m_ex_ml C15_ex_rl_injective). Qed.
Example C15m_ex_arcs_by_theorem :
  ml_joint_spec (ml_map_graphs rev_arcs C15m_ex_ml) C15m_ex_pm true [1; 2]%nat [2; 0]%nat
  = ml_joint_spec C15m_ex_ml C15m_ex_pm true [1; 2]%nat [2; 0]%nat.
Proof. apply (C15_midline_arc_order rev_arcs C15m_ex_ml). intros u _. apply rev_arcs_reordered. Qed.

(** the likelihood of one patient: recorded extension, recorded no extension, unknown
    status (the sum of the two slices under the "unknown" sub-model) — the same
    patient record under the original and the re-listed model, the renamed record
    under the renamed model *)
Example C15m_ex_lik_values :
  option_map qout (ml_patient_lik_spec C15m_ex_ml C15m_ex_pm (Some true) C15m_ex_patient)
    = Some (15009573, 1600000000)%Z /\
  option_map qout (ml_patient_lik_spec (ml_map_graphs rev_graph C15m_ex_ml) C15m_ex_pm (Some true) C15m_ex_patient)
    = Some (15009573, 1600000000)%Z /\
  option_map qout (ml_patient_lik_spec C15m_ex_ml C15m_ex_pm (Some false) C15m_ex_patient)
    = Some (6879539, 400000000)%Z /\
  option_map qout (ml_patient_lik_spec (ml_map_graphs rev_graph C15m_ex_ml) C15m_ex_pm None C15m_ex_patient)
    = option_map qout (ml_patient_lik_spec C15m_ex_ml C15m_ex_pm None C15m_ex_patient) /\
  option_map qout (ml_patient_lik_spec (ml_map_unis (rename_uni C15_ex_rl C15_ex_rm) C15m_ex_ml) C15m_ex_pm
                     (Some true) (rename_bpatient C15_ex_rl C15_ex_rm C15m_ex_patient))
    = Some (15009573, 1600000000)%Z /\
  ml_patient_lik_spec C15m_ex_ml C15m_ex_pm None C15m_ex_patient <> None.
Proof. vm_compute. repeat split; try reflexivity. discriminate. Qed.
Example C15m_ex_lik_by_theorem :
  ml_patient_lik_spec (ml_map_graphs rev_graph C15m_ex_ml) C15m_ex_pm None C15m_ex_patient
  = ml_patient_lik_spec C15m_ex_ml C15m_ex_pm None C15m_ex_patient /\
  ml_patient_lik_spec (ml_map_unis (rename_uni C15_ex_rl C15_ex_rm) C15m_ex_ml) C15m_ex_pm None
                      (rename_bpatient C15_ex_rl C15_ex_rm C15m_ex_patient)
  = ml_patient_lik_spec C15m_ex_ml C15m_ex_pm None C15m_ex_patient.
Proof.
  split.
  - destruct C15m_ex_listing_hyps as (H1 & H2 & H3).
    destruct (C15_midline_listing_order rev_graph C15m_ex_ml H1 H2 H3) as (_ & _ & _ & Hl). apply Hl.
  - apply (C15_midline_renaming_model C15_ex_rl C15_ex_rm C15m_ex_ml C15_ex_rl_injective C15_ex_rm_injective).
Qed.
