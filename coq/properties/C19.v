(** C19: the graph object mirrors the graph dictionary and rejects malformed ones.
    Statements live in theories/GraphStatements.v, proofs in theories/GraphProofs.v;
    this file closes them, prints their assumptions, and exhibits a concrete valid
    dictionary (trinary, an arc against listing order, two tumours) and concrete
    malformed ones, so that the hypotheses are visibly satisfiable. *)
From LymphModel Require Import Base States Graph Transition GraphStatements GraphProofs.

Theorem C19_nodes_in_order : C19_nodes_in_order_stmt.
Proof. exact nodes_in_order. Qed.
Print Assumptions C19_nodes_in_order.

Theorem C19_edges_one_per_connection : C19_edges_one_per_connection_stmt.
Proof. exact edges_one_per_connection. Qed.
Print Assumptions C19_edges_one_per_connection.

Theorem C19_state_list_enumerates : C19_state_list_enumerates_stmt.
Proof. exact state_list_enumerates. Qed.
Print Assumptions C19_state_list_enumerates.

Theorem C19_to_dict_roundtrip : C19_to_dict_roundtrip_stmt.
Proof. exact to_dict_roundtrip. Qed.
Print Assumptions C19_to_dict_roundtrip.

Theorem C19_malformed_rejected : C19_malformed_rejected_stmt.
Proof. exact malformed_rejected. Qed.
Print Assumptions C19_malformed_rejected.

Theorem C19_accepted_only_if_valid : C19_accepted_only_if_valid_stmt.
Proof. exact accepted_only_if_valid. Qed.
Print Assumptions C19_accepted_only_if_valid.

Theorem C19_valid_iff_accepted : C19_valid_iff_accepted_stmt.
Proof. exact valid_iff_accepted. Qed.
Print Assumptions C19_valid_iff_accepted.

Theorem C19_build_graph_wf : C19_build_graph_wf_stmt.
Proof. exact build_graph_wf. Qed.
Print Assumptions C19_build_graph_wf.

(** * Non-vacuity *)
Local Open Scope string_scope.
Local Open Scope nat_scope.
(** LNLs listed II, III, I with the arc I -> II against the listing order; tumours T and U
    (U listed last); connection lists not in listing order. *)
Definition C19_ex_dict : gdict :=
  [ (("tumor", "T"), CList ["III"; "II"]);
    (("lnl", "II"), CList ["III"]);
    (("lnl", "III"), CList []);
    (("lnl", "I"), CList ["II"]);
    (("tumor", "U"), CList ["I"]) ].

Example C19_ex_valid3 : valid_dict 3 C19_ex_dict = true.
Proof. vm_compute. reflexivity. Qed.
Example C19_ex_valid2 : valid_dict 2 C19_ex_dict = true.
Proof. vm_compute. reflexivity. Qed.
Example C19_ex_base4_invalid : valid_dict 4 C19_ex_dict = false.
Proof. vm_compute. reflexivity. Qed.

Example C19_ex_view3 :
  match build_graph 3 C19_ex_dict with
  | inr g =>
      map (fun n => (n_tumor n, n_name n)) (g_nodes g)
        = [(true, "T"); (false, "II"); (false, "III"); (false, "I"); (true, "U")]
      /\ map (fun e => (e_name e, e_parent e, e_child e, kind_tag (e_kind e))) (g_edges g)
        = [("TtoIII", "T", "III", 0); ("TtoII", "T", "II", 0);
           ("II", "II", "II", 2); ("IItoIII", "II", "III", 1);
           ("III", "III", "III", 2);
           ("I", "I", "I", 2); ("ItoII", "I", "II", 1);
           ("UtoI", "U", "I", 0)]
      /\ to_dict g = [(("tumor", "T"), ["III"; "II"]); (("lnl", "II"), ["III"]); (("lnl", "III"), []);
                      (("lnl", "I"), ["II"]); (("tumor", "U"), ["I"])]
      /\ length (state_list g) = 27
      /\ nth 5 (state_list g) [] = [0; 1; 2]       (* 5 = 0*9 + 1*3 + 2: last LNL fastest *)
      /\ nth 19 (state_list g) [] = [2; 0; 1]
      /\ wf_graphb g = true
  | inl _ => False
  end.
Proof. vm_compute. repeat split; reflexivity. Qed.

Example C19_ex_view2 :
  match build_graph 2 C19_ex_dict with
  | inr g => map e_name (g_edges g) = ["TtoIII"; "TtoII"; "IItoIII"; "ItoII"; "UtoI"]
             /\ growth_edges g = [] /\ state_list g = [[0;0;0]; [0;0;1]; [0;1;0]; [0;1;1]; [1;0;0]; [1;0;1]; [1;1;0]; [1;1;1]]
  | inl _ => False
  end.
Proof. vm_compute. repeat split; reflexivity. Qed.

(** the theorems apply to the example *)
Example C19_ex_roundtrip g : build_graph 3 C19_ex_dict = inr g ->
  to_dict g = map (fun e => (fst e, ent_conns e)) C19_ex_dict.
Proof. apply C19_to_dict_roundtrip. exact C19_ex_valid3. Qed.

(** malformed dictionaries: one of each class, each with the documented error *)
Example C19_ex_set :
  build_graph 2 [(("tumor", "T"), CList ["A"]); (("lnl", "A"), CSet ["B"]); (("lnl", "B"), CList [])] = inl EConnSet.
Proof. vm_compute. reflexivity. Qed.
Example C19_ex_dupconn :
  build_graph 2 [(("tumor", "T"), CList ["A"; "B"; "A"]); (("lnl", "A"), CList ["B"]); (("lnl", "B"), CList [])] = inl EDupConn.
Proof. vm_compute. reflexivity. Qed.
Example C19_ex_selfconn :
  build_graph 3 [(("tumor", "T"), CList ["A"]); (("lnl", "A"), CList ["B"; "A"]); (("lnl", "B"), CList [])] = inl ESelfConn.
Proof. vm_compute. reflexivity. Qed.
Example C19_ex_dupname :
  build_graph 2 [(("tumor", "A"), CList ["B"]); (("lnl", "A"), CList ["B"]); (("lnl", "B"), CList [])] = inl EDupName.
Proof. vm_compute. reflexivity. Qed.
Example C19_ex_notumor :
  build_graph 2 [(("lnl", "A"), CList ["B"]); (("lnl", "B"), CList [])] = inl ENoTumor.
Proof. vm_compute. reflexivity. Qed.
Example C19_ex_nolnl :
  build_graph 2 [(("tumor", "T"), CList []); (("tumor", "U"), CList [])] = inl ENoLnl.
Proof. vm_compute. reflexivity. Qed.
(** the clauses of the rejection theorem are instantiable (here: the set clause with a non-empty prefix) *)
Example C19_ex_set_clause base d2 l :
  build_graph base ([(("tumor", "T"), CList ["A"])] ++ (("lnl", "A"), CSet l) :: d2)%list = inl EConnSet.
Proof. apply C19_malformed_rejected. vm_compute. reflexivity. Qed.
(** the precondition on arc names is not idle: an LNL called like an arc collides with that arc's
    name in a trinary model (growth arc "AtoB" vs arc A -> B), and is then not a valid dictionary *)
Example C19_ex_collision :
  valid_dict 3 [(("tumor", "T"), CList ["A"]); (("lnl", "A"), CList ["B"]); (("lnl", "B"), CList []);
                (("lnl", "AtoB"), CList [])] = false
  /\ valid_dict 2 [(("tumor", "T"), CList ["A"]); (("lnl", "A"), CList ["B"]); (("lnl", "B"), CList []);
                (("lnl", "AtoB"), CList [])] = true.
Proof. vm_compute. split; reflexivity. Qed.
