(** C18: diagnosis-time distributions stay normalised over 0..max_time and update
    safely.  Model: theories/Dist.v, DistModel.v; statements: DistStatements.v;
    proofs: DistProofs.v.  This file closes them, prints their assumptions, and
    exhibits a concrete history on a bilateral tree (one Distribution object set
    for both sides, then updated through one side) so that the hypotheses are
    visibly satisfiable and the values are non-trivial. *)
From LymphModel Require Import Base States Linalg Graph Dist DistModel DistStatements DistProofs.

Theorem C18_pmf_length : C18_pmf_length_stmt.
Proof. exact pmf_length. Qed.
Print Assumptions C18_pmf_length.

Theorem C18_pmf_nonneg : C18_pmf_nonneg_stmt.
Proof. exact pmf_nonneg. Qed.
Print Assumptions C18_pmf_nonneg.

Theorem C18_pmf_sum_one : C18_pmf_sum_one_stmt.
Proof. exact pmf_sum_one. Qed.
Print Assumptions C18_pmf_sum_one.

Theorem C18_history_normalised : C18_history_normalised_stmt.
Proof. exact history_normalised. Qed.
Print Assumptions C18_history_normalised.

Theorem C18_length_mismatch_rejected : C18_length_mismatch_rejected_stmt.
Proof. exact length_mismatch_rejected. Qed.
Print Assumptions C18_length_mismatch_rejected.

Theorem C18_set_params_semantics : C18_set_params_semantics_stmt.
Proof. exact set_params_semantics. Qed.
Print Assumptions C18_set_params_semantics.

Theorem C18_failed_update_restores : C18_failed_update_restores_stmt.
Proof. exact failed_update_restores. Qed.
Print Assumptions C18_failed_update_restores.

Theorem C18_max_time_reevaluates : C18_max_time_reevaluates_stmt.
Proof. exact max_time_reevaluates. Qed.
Print Assumptions C18_max_time_reevaluates.

Theorem C18_copies_are_independent : C18_copies_are_independent_stmt.
Proof. exact copies_are_independent. Qed.
Print Assumptions C18_copies_are_independent.

(** * Non-vacuity *)
Local Open Scope string_scope.
(** d = Distribution(fam1, max_time=2, a=1/4); model.set_distribution("early", d);
    model.set_distribution("late", [1, 2, 3]);
    model.ipsi.set_distribution_params(1, None, 7, early_b=2, zz=5)   -> surplus (7,);
    model.set_distribution_params(early_b=0)                           -> ValueError, restored;
    model.max_time = 3 *)
Definition C18_ex_history : list op :=
  [ ONew (AFam 1) (Some 2%nat) [("a", qc 1 4)];
    OSetDist [] "early" (AObj 0);
    OSetDist [] "late" (AList [1%Qc; qc 2 1; qc 3 1]);
    OSetDistParams ["ipsi"] [Some 1%Qc; None; Some (qc 7 1)] [("early_b", qc 2 1); ("zz", qc 5 1)];
    OSetDistParams [] [] [("early_b", 0%Qc)];
    OSetMaxTime [] 3%Z ].
Definition C18_ex_world (n : nat) : world :=
  run_history fam_weights fam_defaults (world0 (bi_tree 2)) (firstn n C18_ex_history).

Example C18_ex_ops_ok : forallb op_okb C18_ex_history = true.
Proof. vm_compute. reflexivity. Qed.
Example C18_ex_weights_ok : weights_okb [1%Qc; qc 2 1; qc 3 1] = true.
Proof. vm_compute. reflexivity. Qed.

(** one object for both sides gives three cells: the user's (0), ipsi (1), contra (2);
    "late" adds cells 3 and 4 *)
Example C18_ex_ids : show_tree (w_tree (C18_ex_world 3))
  = [(2%nat, [("early", 1%nat); ("late", 3%nat)]); (2%nat, [("early", 2%nat); ("late", 4%nat)])]
  /\ w_objs (C18_ex_world 3) = [Some 0%nat].
Proof. vm_compute. split; reflexivity. Qed.
(** a=1/4, b=1 on 0..2: weights 1, 5/4, 3/2 -> 4/15, 1/3, 2/5 *)
Example C18_ex_pmf_before :
  option_map (show_cell fam_weights) (nth_error (w_store (C18_ex_world 3)) 1)
  = Some (2%nat, true, [("a", (1%Z, 4%Z)); ("b", (1%Z, 1%Z))], inr [(4%Z, 15%Z); (1%Z, 3%Z); (2%Z, 5%Z)]).
Proof. vm_compute. reflexivity. Qed.
(** update through ipsi: a <- 1 (positional), b <- 2 (keyword beats the positional None), zz ignored,
    7 returned; weights 2, 3, 4 -> 2/9, 1/3, 4/9 *)
Example C18_ex_step4 :
  show_oval (snd (step fam_weights fam_defaults (C18_ex_world 3) (nth 3 C18_ex_history (OClear []))))
  = inr (1%nat, [Some (7%Z, 1%Z)]).
Proof. vm_compute. reflexivity. Qed.
Example C18_ex_pmf_ipsi :
  option_map (show_cell fam_weights) (nth_error (w_store (C18_ex_world 4)) 1)
  = Some (2%nat, true, [("a", (1%Z, 1%Z)); ("b", (2%Z, 1%Z))], inr [(2%Z, 9%Z); (1%Z, 3%Z); (4%Z, 9%Z)]).
Proof. vm_compute. reflexivity. Qed.
(** contra, the user's object and the frozen cells are unchanged *)
Example C18_ex_others_unchanged :
  forall i, In i [0; 2; 3; 4]%nat ->
  nth_error (w_store (C18_ex_world 4)) i = nth_error (w_store (C18_ex_world 3)) i.
Proof. intros i [<-|[<-|[<-|[<-|[]]]]]; vm_compute; reflexivity. Qed.
(** b = 0 is invalid: ValueError at the first leaf, nothing changes *)
Example C18_ex_failed :
  show_oval (snd (step fam_weights fam_defaults (C18_ex_world 4) (nth 4 C18_ex_history (OClear [])))) = inl DValue
  /\ w_store (C18_ex_world 5) = w_store (C18_ex_world 4).
Proof. vm_compute. split; reflexivity. Qed.
(** max_time = 3: the parametric cells are re-evaluated (contra: 1, 5/4, 3/2, 7/4 -> 2/11, 5/22, 3/11, 7/22),
    the frozen ones cannot be evaluated until they are set again *)
Example C18_ex_maxt :
  option_map (show_cell fam_weights) (nth_error (w_store (C18_ex_world 6)) 2)
  = Some (3%nat, true, [("a", (1%Z, 4%Z)); ("b", (1%Z, 1%Z))],
          inr [(2%Z, 11%Z); (5%Z, 22%Z); (3%Z, 11%Z); (7%Z, 22%Z)])
  /\ option_map (fun c => cell_pmf fam_weights c) (nth_error (w_store (C18_ex_world 6)) 3) = Some (inl DType).
Proof. vm_compute. split; reflexivity. Qed.
(** the hypotheses of the theorems hold here: the discipline, the family, the history *)
Example C18_ex_wf : wf_world (C18_ex_world 6).
Proof.
  assert (H : forall n, wf_world (C18_ex_world n)).
  { intros n. unfold C18_ex_world. generalize (firstn n C18_ex_history). intros h.
    assert (G : forall h w, wf_world w -> wf_world (run_history fam_weights fam_defaults w h)).
    { induction h0 as [|o h0 IH]; intros w Hw; [exact Hw|]. cbn [run_history]. apply IH.
      apply (proj1 C18_copies_are_independent fam_weights fam_defaults w o Hw). }
    apply G. split; [split; [vm_compute; repeat constructor|intros i []]|intros k i Hk; destruct k; discriminate]. }
  apply H.
Qed.
Example C18_ex_normalised : forall c p, In c (w_store (C18_ex_world 6)) -> cell_pmf fam_weights c = inr p ->
  is_pmf (c_maxt c) p.
Proof.
  apply (C18_history_normalised fam_weights fam_defaults (proj2 (proj2 C18_pmf_sum_one)) (bi_tree 2) (firstn 6 C18_ex_history)).
  vm_compute. reflexivity.
Qed.
