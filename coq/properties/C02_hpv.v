(** C02 for models.HPVUnilateral: the queries are those of the selected sub-model (theories/HpvQueries.v). *)
From LymphModel Require Import Base States Linalg Graph Transition Observation Dist Unilateral UniStatements Models LikelihoodProofs PosteriorProofs HpvQueries.

Theorem C02_hpv_delegation : C02_hpv_delegation_stmt.
Proof. exact hpv_delegation. Qed.
Print Assumptions C02_hpv_delegation.

Theorem C02_hpv_other_submodel_irrelevant : C02_hpv_other_submodel_irrelevant_stmt.
Proof. exact hpv_other_submodel_irrelevant. Qed.
Print Assumptions C02_hpv_other_submodel_irrelevant.

Theorem C02_hpv_risk_bayes : C02_hpv_risk_bayes_stmt.
Proof. exact hpv_risk_bayes. Qed.
Print Assumptions C02_hpv_risk_bayes.

(** non-vacuity: HPV+ sub-model = the trinary two-modality model [C01_ex_uni], HPV- sub-model = the same graph with
    other tumour spread; the risk of "II involved" given [C02_ex_diag] differs between the two and is the value of
    C02_ex_risk for the HPV+ side *)
Local Open Scope string_scope.
Local Open Scope list_scope.
Definition C02h_other : uni :=
  {| u_graph := set_edges C01_ex_graph [("TtoII", (qc 1 8, 1)); ("TtoIII", (qc 3 4, 1))];
     u_mods := u_mods C01_ex_uni; u_dists := u_dists C01_ex_uni; u_maxt := u_maxt C01_ex_uni |}.
Definition C02h_model : hpvmodel := {| h_hpv := C01_ex_uni; h_nohpv := C02h_other |}.
Definition C02h_out (r : res (option Qc)) : option (Z * Z) := match r with inr (Some v) => Some (qout v) | _ => None end.
Example C02h_hypotheses :
  wf_uni (hpv_sub C02h_model true) = true /\ wf_uni (hpv_sub C02h_model false) = true.
Proof. vm_compute. split; reflexivity. Qed.
Example C02h_risks :
  C02h_out (hpv_risk C02h_model (Some true) [("II", Some IInvolved)] (Some C02_ex_diag) "late" true) = Some (6908, 15033)%Z /\
  C02h_out (hpv_risk C02h_model (Some false) [("II", Some IInvolved)] (Some C02_ex_diag) "late" true)
    <> C02h_out (hpv_risk C02h_model (Some true) [("II", Some IInvolved)] (Some C02_ex_diag) "late" true) /\
  hpv_risk C02h_model None [("II", Some IInvolved)] (Some C02_ex_diag) "late" true = inl MValue.
Proof. vm_compute. repeat split; try reflexivity. intros H; discriminate H. Qed.
