From LymphModel Require Import Base States Linalg Graph Transition Observation Dist Unilateral UniStatements Models Bilateral Midline BiStatements Sampling.
From LymphModel Require Import MidlineProofs SamplingProofs.
From Coq Require Import Permutation.
Local Open Scope nat_scope.
Open Scope Qc_scope.

(** C16 is PARTIAL: that numpy's bit generator yields independent uniforms on [0,1) is
    TRUSTED, not modelled.  The theorems say: the samplers are deterministic functions of
    the stream of uniforms; every patient's outcome depends on that patient's own
    coordinates only; the preimage of an outcome is a product of intervals whose lengths
    are the model's probabilities. *)

Theorem C16_choice_interval : C16_choice_interval_stmt.
Proof. exact choice_interval. Qed.
Print Assumptions C16_choice_interval.

Theorem C16_stage_dist_renormalised : C16_stage_dist_renormalised_stmt.
Proof. exact stage_dist_renormalised. Qed.
Print Assumptions C16_stage_dist_renormalised.

Theorem C16_uni_stream : C16_uni_stream_stmt.
Proof. exact uni_stream. Qed.
Print Assumptions C16_uni_stream.

Theorem C16_bi_stream : C16_bi_stream_stmt.
Proof. exact bi_stream. Qed.
Print Assumptions C16_bi_stream.

Theorem C16_ml_stream : C16_ml_stream_stmt.
Proof. exact ml_stream. Qed.
Print Assumptions C16_ml_stream.

Theorem C16_chunks_partition : C16_chunks_partition_stmt.
Proof. exact chunks_partition. Qed.
Print Assumptions C16_chunks_partition.

Theorem C16_ml_coords_rearrange : C16_ml_coords_rearrange_stmt.
Proof. exact ml_coords_rearrange. Qed.
Print Assumptions C16_ml_coords_rearrange.

Theorem C16_ml_central_not_implemented : C16_ml_central_not_implemented_stmt.
Proof. exact ml_central_not_implemented. Qed.
Print Assumptions C16_ml_central_not_implemented.

Theorem C16_predictive_is_dist : C16_predictive_is_dist_stmt.
Proof. exact predictive_is_dist. Qed.
Print Assumptions C16_predictive_is_dist.

Theorem C16_uni_draw_is_predictive : C16_uni_draw_is_predictive_stmt.
Proof. exact uni_draw_is_predictive. Qed.
Print Assumptions C16_uni_draw_is_predictive.

Theorem C16_bi_draw_is_predictive : C16_bi_draw_is_predictive_stmt.
Proof. exact bi_draw_is_predictive. Qed.
Print Assumptions C16_bi_draw_is_predictive.

Theorem C16_ml_draw_is_predictive : C16_ml_draw_is_predictive_stmt.
Proof. exact ml_draw_is_predictive. Qed.
Print Assumptions C16_ml_draw_is_predictive.

Theorem C16_table_roundtrip : C16_table_roundtrip_stmt.
Proof. exact table_roundtrip. Qed.
Print Assumptions C16_table_roundtrip.

Theorem C16_rows_roundtrip : C16_rows_roundtrip_stmt.
Proof. exact rows_roundtrip. Qed.
Print Assumptions C16_rows_roundtrip.

Theorem C16_seed_determinism : C16_seed_determinism_stmt.
Proof. exact seed_determinism. Qed.
Print Assumptions C16_seed_determinism.

(** Non-vacuity: the midline model of C04 (trinary graph T -> II, T -> III, III -> II with the
    LNL arc against the listing order, growth arcs, a clinical and a pathological modality,
    a frozen and a binomial time distribution, max_time = 2, midext_prob = 1/3, both values
    of use_midext_evo), the unnormalised stage distribution (1/2, 3/2), 3 patients, 15
    uniforms.  All hypotheses of the theorems hold for it. *)
Example C16_ex_hypotheses :
  wf_ml_sampler (C04_ex_ml true) = true /\ wf_ml_sampler (C04_ex_ml false) = true /\
  ml_in_unit (C04_ex_ml true) /\ stages_ok (ml_ipsi (C04_ex_ml true)) C16_ex_sd /\
  Forall unit_u C16_ex_stream /\ (5 * 3 <= length C16_ex_stream)%nat /\
  wf_uni (ml_ipsi (C04_ex_ml true)) = true /\ uni_in_unit (ml_ipsi (C04_ex_ml true)).
Proof.
  split; [vm_compute; reflexivity|]. split; [vm_compute; reflexivity|].
  split; [apply ml_in_unitb_ok; vm_compute; reflexivity|].
  split; [apply stages_okb_ok; vm_compute; reflexivity|].
  split; [apply Forall_forall; intros u Hu; apply unit_ub_ok;
          revert u Hu; apply forallb_forall; vm_compute; reflexivity|].
  split; [vm_compute; lia|]. split; [vm_compute; reflexivity|apply uni_in_unitb_ok; vm_compute; reflexivity].
Qed.

(** searchsorted(side="right"): a uniform that hits a breakpoint goes to the cell on its right,
    zero-weight outcomes have an empty cell and are skipped; unnormalised weights are normalised *)
Example C16_ex_choice :
  choice [qc 1 4; qc 0 1; qc 3 4] (qc 1 4) = 2%nat /\ choice [qc 1 4; qc 0 1; qc 3 4] (qc 1 5) = 0%nat /\
  choice [qc 1 1; qc 0 1; qc 3 1] (qc 1 4) = 2%nat /\ cell_len [qc 1 1; qc 0 1; qc 3 1] 2%nat = qc 3 4 /\
  cell_len (renorm_stage_dist C16_ex_sd) 1%nat = qc 3 4.
Proof.
  repeat split; try (vm_compute; reflexivity); apply Qc_is_canon; vm_compute; reflexivity.
Qed.

(** the three drawn patients (stage index, time, extension, ipsi index, contra index): the second
    patient has midline extension at t = 2 and receives the findings uniforms at positions 9 and 10
    of the stream (1/3, 7/8), the two others 11,13 and 12,14 *)
Example C16_ex_draws :
  draw_patients_ml (C04_ex_ml true) 3 C16_ex_sd C16_ex_stream
  = inr [(0, 1, false, 2, 4); (1, 2, true, 2, 10); (1, 1, false, 0, 8)]%nat /\
  ml_obs_coords 3 [false; true; false] C16_ex_stream
  = [(qc 1 2, qc 2 3); (qc 1 3, qc 7 8); (qc 1 9, qc 4 5)] /\
  option_map (map tr_stage) (match table_ml (C04_ex_ml true) 3 C16_ex_sd C16_ex_stream with inr t => Some t | inl _ => None end)
  = Some ["early"; "late"; "late"]%string.
Proof.
  split; [vm_compute; reflexivity|]. split; [|vm_compute; reflexivity].
  unfold ml_obs_coords, C16_ex_stream. cbn. reflexivity.
Qed.

(** P(extension | t = 2) = 1 - (2/3)^2 = 5/9, and the predictive probability of the contralateral
    observation with index 10 of a patient with extension at t = 2 *)
Example C16_ex_probabilities :
  ext_prob (C04_ex_ml true) 2 true = qc 5 9 /\
  cell_len (ext_probs (C04_ex_ml true) 2) 1 = qc 5 9 /\
  nth 10 (ml_contra_probs (C04_ex_ml true) true 2) 0 = qc 35071557 500000000 /\
  nth 2 (ml_ipsi_probs (C04_ex_ml true) true 2) 0 = qc 796041 4000000.
Proof. repeat split; apply Qc_is_canon; vm_compute; reflexivity. Qed.
