(** C17 / C12 for models.Midline: GLOBAL and PARTIALLY GLOBAL declared names ("spread",
    "TtoIII_spread", "contra_growth", "ipsi_TtoII_spread", "p", "mixing", ...) as
    [named_params] (theories/NamedMidlineGlobal.v): the Midline analogue of what
    properties/C17.v proves for Bilateral models under [names_consistent].

    Hypotheses beyond those of the Bilateral theorems, all booleans computed on the object:
    [mid_names_consistent] (the alias map and [Midline.set_params] agree on what a declared
    name addresses; the analogue of [names_consistent], with [mid_cands] for [b_cands]),
    [mid_prio_ok] (among the declared keywords of one parameter, the priority of
    [set_params] follows the number of "_"; implied by [mid_names_consistent] when the
    model has the mixing parameter: [C17_midline_prio_ok_mixing]) and [mid_dist_kw_ok] (no
    distribution keyword is a routing word).  Each of them is needed: the [_refuted]
    theorems below.  The Bilateral finding [C17_side_global_leak_refuted] (a side-global name
    reaching a symmetric group) does NOT occur in a Midline model: symmetric LNL spread is
    set from the global part of the keywords only ([C17g_sym_side_global] below). *)
From LymphModel Require Import Base States Linalg Graph Transition Observation Dist Unilateral Models Params
  ParamsStatements ParamsLemmas ParamsProofs ParamsBilateral ParamsMidline ParamsMidlineMore
  Safe ParamsMidlineSafe Named NamedProofs NamedMidline NamedMidlineMore ParamsMidlineRest NamedMidlineGlobal.

Theorem C17_midline_set_named_spec : C17_midline_set_named_spec_stmt.
Proof. exact midline_set_named_spec. Qed.
Print Assumptions C17_midline_set_named_spec.

Theorem C17_midline_set_named_positional : C17_midline_set_named_positional_stmt.
Proof. exact midline_set_named_positional. Qed.
Print Assumptions C17_midline_set_named_positional.

Theorem C17_midline_global_name_addresses_all_matches : C17_midline_global_name_addresses_all_matches_stmt.
Proof. exact midline_global_name_addresses_all_matches. Qed.
Print Assumptions C17_midline_global_name_addresses_all_matches.

Theorem C17_midline_global_name_addresses_all : C17_midline_global_name_addresses_all_stmt.
Proof. exact midline_global_name_addresses_all. Qed.
Print Assumptions C17_midline_global_name_addresses_all.

Theorem C17_midline_get_named_after_set : C17_midline_get_named_after_set_stmt.
Proof. exact midline_get_named_after_set. Qed.
Print Assumptions C17_midline_get_named_after_set.

Theorem C17_midline_global_roundtrip : C17_midline_global_roundtrip_stmt.
Proof. exact midline_global_roundtrip. Qed.
Print Assumptions C17_midline_global_roundtrip.

Theorem C17_midline_prio_ok_mixing : C17_midline_prio_ok_mixing_stmt.
Proof. exact midline_prio_ok_mixing. Qed.
Print Assumptions C17_midline_prio_ok_mixing.

(** C12 *)


(** * The restrictions are needed (the code does this) *)
Theorem C17_midline_names_consistent_needed_refuted : C17_midline_names_consistent_needed_refuted_stmt.
Proof. exact midline_names_consistent_needed_refuted. Qed.
Print Assumptions C17_midline_names_consistent_needed_refuted.

Theorem C17_midline_prio_needed_refuted : C17_midline_prio_needed_refuted_stmt.
Proof. exact midline_prio_needed_refuted. Qed.
Print Assumptions C17_midline_prio_needed_refuted.

Theorem C17_midline_side_keyword_leak_refuted : C17_midline_side_keyword_leak_refuted_stmt.
Proof. exact midline_side_keyword_leak_refuted. Qed.
Print Assumptions C17_midline_side_keyword_leak_refuted.

Theorem C17_midline_dist_kw_ok_needed_refuted : C17_midline_dist_kw_ok_needed_refuted_stmt.
Proof. exact midline_dist_kw_ok_needed_refuted. Qed.
Print Assumptions C17_midline_dist_kw_ok_needed_refuted.

(** * Non-vacuity: the 23-parameter trinary Midline model of properties/C17_midline_more.v
    (use_mixing, use_midext_evo, marginalize_unknown, LNL spread asymmetric; three LNLs listed
    II, III, I with the arc I -> II against the listing order; a frozen, a binomial and a linear
    distribution) in its OUT-OF-SYNC state.  Declared: a full parameter name BEFORE the global
    name it is shadowed by, a partially global arc name, a side-global name, a distribution
    keyword, "mixing" *)
Local Open Scope string_scope.
Local Open Scope list_scope.
Definition C17g_graph : graph :=
  force_graph (build_graph 3
     [ (("tumor", "T"), CList ["II"; "III"]);
       (("lnl", "II"), CList ["III"]);
       (("lnl", "III"), CList []);
       (("lnl", "I"), CList ["II"]) ]).
Definition C17g_uni : uni :=
  new_uni C17g_graph [("early", Frozen [qc 1 2; qc 1 4; qc 1 4]); ("late", Param 0 [("p", qc 1 3)]);
                      ("mid", Param 1 [("a", qc 1 2); ("b", qc 1 1)])] 2.
Definition C17g_fresh : midline := new_midline C17g_uni true false true true false.
Definition C17g_names : list path := match param_names (MMid C17g_fresh) with Some l => l | None => [] end.
Definition C17g_valid : list Qc :=
  [qc 1 10; qc 2 10; qc 3 10; qc 4 10; qc 5 10; qc 6 10; qc 7 10; qc 8 10; qc 9 10;
   qc 3 10; qc 4 10; qc 1 10; qc 2 10; qc 3 10; qc 4 10; qc 5 10; qc 6 10; qc 7 10;
   qc 1 4; qc 3 4; qc 5 2; qc 1 1; qc 0 1].
Definition C17g_bad : kwargs := [(["contra"; "II"; "growth"], V (qc 9 10)); (["contra"; "IItoIII"; "micro"], V (qc 17 16))].
Definition C17g_mid : midline :=
  fst (m_set_params (fst (m_set_params C17g_fresh [] (kw_of C17g_names C17g_valid))) [] C17g_bad).
Definition C17g_named : list path :=
  [["ipsi"; "TtoII"; "spread"]; ["spread"]; ["TtoIII"; "spread"]; ["contra"; "growth"]; ["p"]; ["mixing"]].
Definition C17g_qs : list Qc := [qc 1 8; qc 1 4; qc 1 2; qc 3 4; qc 3 8; qc 5 8].
Definition C17g_after : nstate := fst (set_named_params (mk_nstate (MMid C17g_mid) (Some C17g_named)) (vals C17g_qs) []).

(** every hypothesis of the theorems holds (23 reported parameters, the LNL parameters of
    ext and noext out of sync) *)
Example C17g_hyps :
  (m_names_ok C17g_mid, mid_set_ok C17g_mid, mid_dist_kw_ok C17g_mid, m_lnl_synced C17g_mid) = (true, true, true, false) /\
  option_map (@length _) (param_items (MMid C17g_mid)) = Some 23%nat /\
  NoDup C17g_named /\ length C17g_qs = length C17g_named /\
  option_map (fun ns => (mid_names_consistent C17g_mid ns C17g_named, mid_prio_ok C17g_mid ns C17g_named,
                         no_ties ns C17g_named, each_owns ns C17g_named, each_matches ns C17g_named))
             (param_names (MMid C17g_mid)) = Some (true, true, true, true, true).
Proof.
  split; [vm_compute; reflexivity|]. split; [vm_compute; reflexivity|].
  split; [repeat constructor; cbn; intuition discriminate|]. split; [reflexivity|]. vm_compute. reflexivity.
Qed.
(** "spread" addresses 8 parameters, "TtoIII_spread" 2 of them, "ipsi_TtoII_spread" 1,
    "contra_growth" 3, "p" and "mixing" 1 each *)
Example C17g_aliases :
  map (fun e => length (snd e)) (create_alias_map C17g_names C17g_named) = [1; 8; 2; 3; 1; 1]%nat.
Proof. vm_compute. reflexivity. Qed.
(** set_named_params(1/8, 1/4, 1/2, 3/4, 3/8, 5/8) returns; specific names beat "spread";
    the 7 parameters matched by no declared name (ipsi growth, all micro modifiers, mid_a,
    mid_b, midext_prob, among them the out-of-sync contra_IItoIII_micro = 3/10) keep their value *)
Example C17g_set_ok :
  snd (set_named_params (mk_nstate (MMid C17g_mid) (Some C17g_named)) (vals C17g_qs) []) = inr tt.
Proof. vm_compute. reflexivity. Qed.
Example C17g_params_before :
  option_map (fun l => map qout (map snd l)) (param_items (MMid C17g_mid))
  = Some [(1, 10); (1, 5); (3, 10); (2, 5); (1, 2); (3, 5); (7, 10); (4, 5); (9, 10);
          (3, 10); (2, 5); (9, 10); (1, 5); (3, 10); (2, 5); (1, 2); (3, 5); (7, 10);
          (1, 4); (3, 4); (5, 2); (1, 1); (0, 1)]%Z.
Proof. vm_compute. reflexivity. Qed.
Example C17g_params_after :
  option_map (fun l => map qout (map snd l)) (param_items (ns_model C17g_after))
  = Some [(1, 8); (1, 2); (3, 10); (1, 4); (1, 2); (3, 5); (7, 10); (1, 4); (9, 10);
          (1, 4); (1, 2); (3, 4); (1, 4); (3, 10); (3, 4); (3, 4); (1, 4); (7, 10);
          (5, 8); (3, 8); (5, 2); (1, 1); (0, 1)]%Z.
Proof. vm_compute. reflexivity. Qed.
Example C17g_get_named :
  out_res_items (get_named_params C17g_after)
  = Some [(["ipsi"; "TtoII"; "spread"], (1, 8)); (["spread"], (1, 4)); (["TtoIII"; "spread"], (1, 2));
          (["contra"; "growth"], (3, 4)); (["p"], (3, 8)); (["mixing"], (5, 8))]%Z.
Proof. vm_compute. reflexivity. Qed.
Example C17g_num_dims : get_num_dims C17g_after = inr 6%nat.
Proof. vm_compute. reflexivity. Qed.
(** C12: the same proposal as a dict is scored (tag 0); an out-of-range value for the global
    name "spread" gives -inf (tag 1); a keyword outside the declaration raises (tag 2) *)
Example C17g_given :
  out_lres (snd (likelihood_given _ (fun m => option_map out_items (param_items m)) (Some C17g_named) (MMid C17g_mid)
                   (Safe.GDict (combine C17g_named (vals C17g_qs))))) = 0%nat /\
  out_lres (snd (likelihood_given _ (fun m => option_map out_items (param_items m)) (Some C17g_named) (MMid C17g_mid)
                   (Safe.GList (vals [qc 1 8; qc 5 4; qc 1 2; qc 3 4; qc 3 8; qc 5 8])))) = 1%nat /\
  out_lres (snd (likelihood_given _ (fun m => option_map out_items (param_items m)) (Some C17g_named) (MMid C17g_mid)
                   (Safe.GDict [(["growth"], V (qc 1 2))]))) = 2%nat.
Proof. repeat split; vm_compute; reflexivity. Qed.

(** WITHOUT the mixing parameter (use_central, LNL spread symmetric, 17 parameters): the
    hypotheses hold for a declaration with a two-word routing prefix next to global names;
    "ipsi_spread" reaches the two ipsilateral tumour arcs only, the symmetric LNL arcs
    "IItoIII_spread", "ItoII_spread" receive the value of "spread" (no side-global leak) *)
Definition C17g_nm : midline := new_midline C17g_uni false true false false true.
Definition C17g_nm_named : list path := [["ext"; "contra"; "spread"]; ["spread"]; ["ipsi"; "spread"]; ["micro"]].
Example C17g_nm_hyps :
  (m_names_ok C17g_nm, mid_set_ok C17g_nm, mid_dist_kw_ok C17g_nm) = (true, true, true) /\
  option_map (fun ns => (length ns, mid_names_consistent C17g_nm ns C17g_nm_named, mid_prio_ok C17g_nm ns C17g_nm_named,
                         no_ties ns C17g_nm_named, each_owns ns C17g_nm_named))
             (param_names (MMid C17g_nm)) = Some (17%nat, true, true, true, true).
Proof. split; vm_compute; reflexivity. Qed.
Example C17g_nm_roundtrip :
  let r := set_named_params (mk_nstate (MMid C17g_nm) (Some C17g_nm_named)) (vals [qc 1 8; qc 1 4; qc 1 2; qc 3 4]) [] in
  snd r = inr tt /\
  out_res_items (get_named_params (fst r))
  = Some [(["ext"; "contra"; "spread"], (1, 8)); (["spread"], (1, 4)); (["ipsi"; "spread"], (1, 2)); (["micro"], (3, 4))]%Z /\
  option_map (fun l => map qout (map snd l)) (param_items (ns_model (fst r)))
  = Some [(1, 2); (1, 2); (1, 4); (1, 4); (1, 8); (1, 8); (0, 1); (1, 4); (3, 4); (0, 1); (0, 1); (1, 4); (3, 4);
          (1, 3); (1, 2); (1, 1); (0, 1)]%Z.
Proof. cbv zeta. repeat split; vm_compute; reflexivity. Qed.
(** the declaration of the Bilateral finding, ["ipsi_spread"] alone, satisfies the hypotheses *)
Example C17g_sym_side_global :
  option_map (fun ns => (mid_names_consistent C17g_nm ns [["ipsi"; "spread"]], mid_prio_ok C17g_nm ns [["ipsi"; "spread"]],
                         no_ties ns [["ipsi"; "spread"]], each_owns ns [["ipsi"; "spread"]]))
             (param_names (MMid C17g_nm)) = Some (true, true, true, true).
Proof. vm_compute. reflexivity. Qed.
