(** C15: results do not depend on names or on listing order.  Statements live in
    theories/Invariance.v, proofs in theories/InvarianceProofs.v; this file closes
    them, prints their assumptions and exhibits concrete non-trivial instances. *)
From Coq Require Import Permutation.
From LymphModel Require Import Base States Linalg Graph Transition Observation Dist Unilateral
  UniStatements Models Bilateral TransitionProofs Invariance InvarianceProofs.
Local Open Scope nat_scope.
Open Scope Qc_scope.

(** generic transfer along a relabelling of the states *)
Theorem C15_transfer_evo : C15_transfer_evo_stmt.
Proof. exact transfer_evo. Qed.
Print Assumptions C15_transfer_evo.

Theorem C15_transfer_uni : C15_transfer_uni_stmt.
Proof. exact transfer_uni. Qed.
Print Assumptions C15_transfer_uni.

Theorem C15_transfer_bi : C15_transfer_bi_stmt.
Proof. exact transfer_bi. Qed.
Print Assumptions C15_transfer_bi.

(** 1. arc order *)
Theorem C15_arc_order : C15_arc_order_stmt.
Proof. exact arc_order. Qed.
Print Assumptions C15_arc_order.

Theorem C15_arc_order_model : C15_arc_order_model_stmt.
Proof. exact arc_order_model. Qed.
Print Assumptions C15_arc_order_model.

(** 2. modality order, column order *)
Theorem C15_modality_order : C15_modality_order_stmt.
Proof. exact modality_order. Qed.
Print Assumptions C15_modality_order.

Theorem C15_column_order : C15_column_order_stmt.
Proof. exact column_order. Qed.
Print Assumptions C15_column_order.

(** 3. node order, and nodes + arcs together *)
Theorem C15_node_order : C15_node_order_stmt.
Proof. exact node_order. Qed.
Print Assumptions C15_node_order.

Theorem C15_node_order_model : C15_node_order_model_stmt.
Proof. exact node_order_model. Qed.
Print Assumptions C15_node_order_model.

Theorem C15_listing_order : C15_listing_order_stmt.
Proof. exact listing_order. Qed.
Print Assumptions C15_listing_order.

Theorem C15_listing_order_model : C15_listing_order_model_stmt.
Proof. exact listing_order_model. Qed.
Print Assumptions C15_listing_order_model.

(** 4. renaming *)
Theorem C15_renaming : C15_renaming_stmt.
Proof. exact renaming. Qed.
Print Assumptions C15_renaming.

Theorem C15_renaming_model : C15_renaming_model_stmt.
Proof. exact renaming_model. Qed.
Print Assumptions C15_renaming_model.

(** 5. side swap *)
Theorem C15_side_swap : C15_side_swap_stmt.
Proof. exact side_swap. Qed.
Print Assumptions C15_side_swap.

(** the transformed objects are well-formed; [risk_spec] is C02's risk *)
Theorem C15_wf_preserved : C15_wf_preserved_stmt.
Proof. exact wf_preserved. Qed.
Print Assumptions C15_wf_preserved.

Theorem C15_risk_spec_is_C02 : C15_risk_spec_is_C02_stmt.
Proof. exact risk_spec_is_C02. Qed.
Print Assumptions C15_risk_spec_is_C02.

(** * Non-vacuity.  The trinary graph T -> II, III; II -> III; I -> II (LNLs listed
    II, III, I; the arc I -> II runs against the listing order) with growth arcs and
    non-trivial parameters, and the graph built from the SAME dictionary with its keys
    listed III, I, T, II and T's connection list reversed. *)
Local Open Scope string_scope.
Example C15_ex_listing :
  lnls C15_ex_graph = ["II"; "III"; "I"] /\ lnls C15_ex_graph' = ["III"; "I"; "II"] /\
  map e_name (g_edges C15_ex_graph) = ["TtoII"; "TtoIII"; "II"; "IItoIII"; "III"; "I"; "ItoII"] /\
  map e_name (g_edges C15_ex_graph') = ["III"; "I"; "ItoII"; "TtoIII"; "TtoII"; "II"; "IItoIII"] /\
  wf_graphb C15_ex_graph = true.
Proof. vm_compute. repeat split; reflexivity. Qed.

(** the hypothesis of the listing-order theorems holds for the pair *)
Example C15_ex_relisted : graph_relisted C15_ex_graph C15_ex_graph'.
Proof.
  split; [reflexivity|]. split.
  - replace (g_nodes C15_ex_graph')
      with (pick [2; 3; 0; 1]%nat (g_nodes C15_ex_graph) {| n_tumor := false; n_name := "" |})
      by (vm_compute; reflexivity).
    apply pick_perm. vm_compute. reflexivity.
  - replace (g_edges C15_ex_graph')
      with (pick [4; 5; 6; 1; 0; 2; 3]%nat (g_edges C15_ex_graph) (mk_growth {| n_tumor := false; n_name := "" |}))
      by (vm_compute; reflexivity).
    apply pick_perm. vm_compute. reflexivity.
Qed.

(** state (II, III, I) = (1, 2, 0) is (III, I, II) = (2, 0, 1) in the new listing;
    one step (0,0,1) -> (1,0,1) has probability 189/1000 in both listings *)
Example C15_ex_relist :
  relist C15_ex_graph C15_ex_graph' [1; 2; 0]%nat = [2; 0; 1]%nat /\
  trans_spec C15_ex_graph [0; 0; 1]%nat [1; 0; 1]%nat = qc 189 1000 /\
  trans_spec C15_ex_graph' [0; 1; 0]%nat [0; 1; 1]%nat = qc 189 1000.
Proof. split; [vm_compute; reflexivity|]. split; apply Qc_is_canon; vm_compute; reflexivity. Qed.
Example C15_ex_relist_by_theorem :
  trans_spec C15_ex_graph' (relist C15_ex_graph C15_ex_graph' [0; 0; 1]%nat)
                           (relist C15_ex_graph C15_ex_graph' [1; 0; 1]%nat) = qc 189 1000.
Proof.
  destruct (C15_listing_order C15_ex_graph C15_ex_graph') as (_ & Ht & _).
  - vm_compute. reflexivity.
  - exact C15_ex_relisted.
  - rewrite Ht. apply Qc_is_canon. vm_compute. reflexivity.
Qed.

(** a model with two modalities, max_time 2; a patient with recorded, missing and
    unrecorded findings; the same patient with the table's columns permuted.
    Likelihood 9317151/400000000 and risk 415233/1035239 for both listings. *)
Example C15_ex_model_values :
  wf_uni C15_ex_uni = true /\ wf_patient C15_ex_patient = true /\
  qout (patient_lik_spec C15_ex_uni C15_ex_pm C15_ex_patient) = (9317151, 400000000)%Z /\
  qout (patient_lik_spec (with_graph C15_ex_uni C15_ex_graph') C15_ex_pm C15_ex_patient')
    = (9317151, 400000000)%Z /\
  qout (risk_spec C15_ex_uni C15_ex_pm C15_ex_inv C15_ex_patient) = (415233, 1035239)%Z /\
  qout (risk_spec (with_graph C15_ex_uni C15_ex_graph') C15_ex_pm C15_ex_inv C15_ex_patient')
    = (415233, 1035239)%Z.
Proof. vm_compute. repeat split; reflexivity. Qed.

(** renaming: the graph built from the renamed dictionary IS [rename_graph] of the
    original one (arc names included); likelihood of the renamed model and patient *)
Example C15_ex_renamed_graph :
  set_edges (force_graph (build_graph 3 C15_ex_dict_renamed)) C15_ex_params_renamed
  = rename_graph C15_ex_rl C15_ex_graph.
Proof. vm_compute. reflexivity. Qed.
Example C15_ex_renamed_values :
  u_lnls (rename_uni C15_ex_rl C15_ex_rm C15_ex_uni) = ["xII"; "xIII"; "xI"] /\
  map fst (u_mods (rename_uni C15_ex_rl C15_ex_rm C15_ex_uni)) = ["mCT"; "mpath"] /\
  map fst (p_find (rename_patient C15_ex_rl C15_ex_rm C15_ex_patient)) = ["mCT"; "mpath"] /\
  qout (patient_lik_spec (rename_uni C15_ex_rl C15_ex_rm C15_ex_uni) C15_ex_pm
          (rename_patient C15_ex_rl C15_ex_rm C15_ex_patient)) = (9317151, 400000000)%Z.
Proof. vm_compute. repeat split; reflexivity. Qed.
Example C15_ex_renamed_by_theorem :
  risk_spec (rename_uni C15_ex_rl C15_ex_rm C15_ex_uni) C15_ex_pm (rename_pattern C15_ex_rl C15_ex_inv)
            (rename_patient C15_ex_rl C15_ex_rm C15_ex_patient)
  = risk_spec C15_ex_uni C15_ex_pm C15_ex_inv C15_ex_patient.
Proof. apply C15_renaming_model; [exact C15_ex_rl_injective|exact C15_ex_rm_injective]. Qed.

(** side swap: a bilateral model with different tumour spread on the two sides; the
    joint prior at (ipsi, contra) = ((1,1,0), (1,0,0)) is not symmetric *)
Example C15_ex_side_swap :
  qout (bi_joint_spec C15_ex_bi C15_ex_pm [1; 1; 0]%nat [1; 0; 0]%nat) = (22687821, 20480000000)%Z /\
  qout (bi_joint_spec C15_ex_bi C15_ex_pm [1; 0; 0]%nat [1; 1; 0]%nat) = (7797429, 20480000000)%Z /\
  qout (bi_joint_spec (swap_sides C15_ex_bi) C15_ex_pm [1; 0; 0]%nat [1; 1; 0]%nat) = (22687821, 20480000000)%Z.
Proof. vm_compute. repeat split; reflexivity. Qed.
Example C15_ex_side_swap_by_theorem :
  bi_patient_lik_spec (swap_sides C15_ex_bi) (bi_joint_spec (swap_sides C15_ex_bi) C15_ex_pm)
                      (swap_bpatient C15_ex_bpatient)
  = bi_patient_lik_spec C15_ex_bi (bi_joint_spec C15_ex_bi C15_ex_pm) C15_ex_bpatient.
Proof. destruct (C15_side_swap C15_ex_bi C15_ex_pm eq_refl) as (_ & _ & H & _). apply H. Qed.
