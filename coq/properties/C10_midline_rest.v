(** C10 (Midline, the rest of the family): unknown keyword names are ignored, surplus positional
    values are returned, set_params( **get_params()) changes no reported parameter, specific
    names beat global names.  Statements and proofs: theories/ParamsMidlineRest.v. *)
From LymphModel Require Import Base States Linalg Graph Transition Observation Dist Unilateral Models Params
  ParamsStatements ParamsMidline ParamsMidlineMore Safe NamedMidlineMore ParamsMidlineRest.
From LymphModel Require Sync SyncProofs.
Local Open Scope string_scope.
Local Open Scope list_scope.

(** * 1. unknown names *)
Theorem C10_mid_unknown_names_ignored : C10_mid_unknown_names_ignored_stmt.
Proof. exact mid_unknown_names_ignored. Qed.
Print Assumptions C10_mid_unknown_names_ignored.

Theorem C10_mid_unknown_names_dropped : C10_mid_unknown_names_dropped_stmt.
Proof. exact mid_unknown_names_dropped. Qed.
Print Assumptions C10_mid_unknown_names_dropped.

Theorem C10_mid_unknown_names_ignored_got : C10_mid_unknown_names_ignored_got_stmt.
Proof. exact mid_unknown_names_ignored_got. Qed.
Print Assumptions C10_mid_unknown_names_ignored_got.

(** * 2. set_params( **get_params()) *)
Theorem C10_mid_set_own_params_is_identity : C10_mid_set_own_params_is_identity_stmt.
Proof. exact mid_set_own_params_is_identity. Qed.
Print Assumptions C10_mid_set_own_params_is_identity.

Theorem C10_mid_set_own_params_same_config : C10_mid_set_own_params_same_config_stmt.
Proof. exact mid_set_own_params_same_config. Qed.
Print Assumptions C10_mid_set_own_params_same_config.

(** for an object in the synchronisation invariant of C11 the OBJECT is unchanged *)
Theorem C10_mid_set_own_params_model_identity : C10_mid_set_own_params_model_identity_stmt.
Proof. exact mid_set_own_params_model_identity. Qed.
Print Assumptions C10_mid_set_own_params_model_identity.

(** observations: the hypothesis on the distributions is needed; "the object is unchanged" is
    false for an out-of-sync object *)
Theorem C10_mid_set_own_params_needs_same_config_refuted : C10_mid_set_own_params_needs_same_config_refuted_stmt.
Proof. exact mid_set_own_params_needs_same_config_refuted. Qed.
Print Assumptions C10_mid_set_own_params_needs_same_config_refuted.

Theorem C10_mid_set_own_params_model_identity_refuted : C10_mid_set_own_params_model_identity_refuted_stmt.
Proof. exact mid_set_own_params_model_identity_refuted. Qed.
Print Assumptions C10_mid_set_own_params_model_identity_refuted.

(** * 3. surplus positional values *)
Theorem C10_mid_surplus : C10_mid_surplus_stmt.
Proof. exact mid_surplus. Qed.
Print Assumptions C10_mid_surplus.

Theorem C10_mid_surplus_general : C10_mid_surplus_general_stmt.
Proof. exact mid_surplus_general. Qed.
Print Assumptions C10_mid_surplus_general.

(** * 4. specific names over global names *)
Theorem C10_mid_specific_over_global : C10_mid_specific_over_global_stmt.
Proof. exact mid_specific_over_global. Qed.
Print Assumptions C10_mid_specific_over_global.

(** * Non-vacuity: the 23-parameter trinary Midline model of properties/C12.v (use_mixing,
    use_midext_evo, marginalize_unknown, LNL spread asymmetric; three LNLs listed II, III, I with
    the arc I -> II against the listing order; a frozen, a binomial and a linear distribution) in
    an OUT-OF-SYNC state (a full valid assignment, then a keyword call that fails half-way:
    contra_II_growth = 9/10 arrives in ext.contra only), and a 17-parameter model without mixing,
    with a central sub-model and symmetric LNL spread *)
Definition C10r_graph : graph :=
  force_graph (build_graph 3
     [ (("tumor", "T"), CList ["II"; "III"]);
       (("lnl", "II"), CList ["III"]);
       (("lnl", "III"), CList []);
       (("lnl", "I"), CList ["II"]) ]).
Definition C10r_uni : uni :=
  new_uni C10r_graph [("early", Frozen [qc 1 2; qc 1 4; qc 1 4]); ("late", Param 0 [("p", qc 1 3)]);
                      ("mid", Param 1 [("a", qc 1 2); ("b", qc 1 1)])] 2.
Definition C10r_fresh : midline := new_midline C10r_uni true false true true false.
Definition C10r_v : list Qc :=
  [qc 1 10; qc 2 10; qc 3 10; qc 4 10; qc 5 10; qc 6 10; qc 7 10; qc 8 10; qc 9 10;
   qc 3 10; qc 4 10; qc 1 10; qc 2 10; qc 3 10; qc 4 10; qc 5 10; qc 6 10; qc 7 10;
   qc 1 4; qc 3 4; qc 5 2; qc 1 1; qc 1 8].
Definition C10r_mid : midline :=
  fst (m_set_params (fst (m_set_params C10r_fresh (vals C10r_v) []))
         [] [(["contra"; "II"; "growth"], V (qc 9 10)); (["contra"; "IItoIII"; "micro"], V (qc 17 16))]).
Definition C10r_sym : midline := new_midline C10r_uni false true true true true.

Example C10r_hyps :
  m_names_ok C10r_mid = true /\ m_names_ok C10r_sym = true /\ m_lnl_synced C10r_mid = false /\
  length (mid_items C10r_mid) = 23%nat /\ length (mid_items C10r_sym) = 17%nat /\ length C10r_v = 23%nat.
Proof. repeat split; vm_compute; reflexivity. Qed.

(** ** unknown names: set_params( *v, spread=1/100, ipsi_ItoII_micro=13/20, **junk): the ten junk
    keywords (a misspelt kind, an arc that does not exist, a T-stage without keyword, halves of
    "midext_prob", the empty name, NaN values, ...) are unknown and the call equals the call
    without them *)
Definition C10r_kw : kwargs := [(["spread"], V (qc 1 100)); (["ipsi"; "ItoII"; "micro"], V (qc 13 20))].
Definition C10r_junk : kwargs :=
  [(["foo"], V (qc 9 10)); (["ipsi"; "foo"; "spread"], Bad); (["ext"; "early"], V (qc 3 1)); (["spreads"], V (qc 1 2));
   (["unknown"; "ipsi"; "late"; "q"], Bad); (["II"; "III"; "spread"], V (qc 1 3)); (["contra"; "mixin"], V (qc 1 3));
   (["midext"], Bad); (["prob"], Bad); ([], Bad)].
Example C10r_junk_unknown :
  mid_kw_unknown C10r_mid C10r_junk = true /\ mid_kw_unknown C10r_sym C10r_junk = true /\ NoDup (map fst (C10r_kw ++ C10r_junk)).
Proof. split; [vm_compute; reflexivity|]. split; [vm_compute; reflexivity|]. repeat constructor; cbn; intuition discriminate. Qed.
Example C10r_junk_dropped :
  m_set_params C10r_mid (vals C10r_v) (C10r_kw ++ C10r_junk) = m_set_params C10r_mid (vals C10r_v) C10r_kw /\
  m_set_params C10r_sym (vals (firstn 5 C10r_v)) C10r_junk = m_set_params C10r_sym (vals (firstn 5 C10r_v)) [].
Proof.
  split.
  - apply C10_mid_unknown_names_dropped; [vm_compute; reflexivity | apply C10r_junk_unknown | apply C10r_junk_unknown].
  - apply C10_mid_unknown_names_ignored; [vm_compute; reflexivity | | apply C10r_junk_unknown].
    repeat constructor; cbn; intuition discriminate.
Qed.
(** ... the call returns, the known keywords arrive (spread = 1/100 for every spread parameter; growth / micro parameters take their positional
    values: contra_II_growth = 1/5) *)
Example C10r_junk_values :
  out_res (snd (m_set_params C10r_mid (vals C10r_v) (C10r_kw ++ C10r_junk))) = Some [] /\
  option_map (fun l => map (fun k => option_map qout (kw_get k l))
                           [["ipsi"; "TtoII"; "spread"]; ["ipsi"; "ItoII"; "micro"]; ["contra"; "II"; "growth"]; ["mid"; "a"]])
             (m_got (fst (m_set_params C10r_mid (vals C10r_v) (C10r_kw ++ C10r_junk))))
  = Some [Some (1, 100)%Z; Some (13, 20)%Z; Some (1, 5)%Z; Some (5, 2)%Z].
Proof. split; vm_compute; reflexivity. Qed.
(** ... while names the plumbing resolves are not unknown: global kinds, routed globals, "mixing"
    (only with use_mixing), child-prefixed distribution keywords, and they do change the result *)
Example C10r_known_names :
  map (fun c => mid_kw_unknown C10r_mid [(c, Bad)])
      [["spread"]; ["ipsi"; "micro"]; ["mixing"]; ["ext"; "ipsi"; "late"; "p"]; ["contra"; "contra"; "p"]; ["midext"; "prob"]]
  = [false; false; false; false; false; false] /\
  mid_kw_unknown C10r_sym [(["mixing"], Bad)] = true /\
  snd (m_set_params C10r_mid (vals C10r_v) [(["ext"; "ipsi"; "late"; "p"], Bad)]) = None.
Proof. repeat split; vm_compute; reflexivity. Qed.

(** ** surplus: 23 values and two more (one of them NaN) *)
Definition C10r_extra : args := [V (qc 7 3); Bad].
Example C10r_surplus :
  m_set_params C10r_mid (vals C10r_v ++ C10r_extra) [] = (fst (m_set_params C10r_mid (vals C10r_v) []), Some C10r_extra) /\
  snd (m_set_params C10r_mid (vals C10r_v) []) = Some [] /\
  option_map (fun l => map (fun kv => qout (snd kv)) (firstn 4 l ++ skipn 19 l))
             (m_got (fst (m_set_params C10r_mid (vals C10r_v ++ C10r_extra) [])))
  = Some [(1, 10); (1, 5); (3, 5); (7, 10); (3, 4); (5, 2); (1, 1); (1, 8)]%Z.
Proof.
  destruct (C10_mid_surplus C10r_mid C10r_v C10r_extra) as [H1 H2]; [vm_compute; reflexivity | vm_compute; reflexivity|].
  assert (H3 : snd (m_set_params C10r_mid (vals C10r_v) []) = Some []) by (vm_compute; reflexivity).
  split; [rewrite H1, H3; reflexivity|]. split; [exact H3 | vm_compute; reflexivity].
Qed.
(** (the 17-parameter model: without mixing, with a central sub-model) *)
Example C10r_surplus_sym :
  out_res (snd (m_set_params C10r_sym (vals (firstn 17 C10r_v) ++ C10r_extra) [])) = Some [Some (7, 3)%Z; None].
Proof. vm_compute. reflexivity. Qed.

(** ** own parameters: the out-of-sync object satisfies the hypotheses; the call returns and
    get_params is unchanged (contra_II_growth stays 9/10, the out-of-sync value of ext.contra) *)
Example C10r_own :
  m_spread_valid C10r_mid /\ in_unit (ml_midext C10r_mid) = true /\ own_dists_accepted C10r_mid /\
  snd (m_set_params C10r_mid [] (own_kwargs (mid_items C10r_mid))) = Some [] /\
  m_got (fst (m_set_params C10r_mid [] (own_kwargs (mid_items C10r_mid)))) = m_got C10r_mid /\
  option_map (fun l => map (fun k => option_map qout (kw_get k l)) [["contra"; "II"; "growth"]; ["mixing"]; ["midext"; "prob"]])
             (m_got C10r_mid) = Some [Some (9, 10)%Z; Some (1, 2)%Z; Some (1, 8)%Z].
Proof.
  assert (H1 : m_spread_valid C10r_mid) by (apply m_spread_validb_ok; vm_compute; reflexivity).
  assert (H2 : in_unit (ml_midext C10r_mid) = true) by (vm_compute; reflexivity).
  assert (H3 : own_dists_accepted C10r_mid) by (apply own_dists_acceptedb_ok; vm_compute; reflexivity).
  assert (H0 : m_names_ok C10r_mid = true) by (vm_compute; reflexivity).
  pose proof (C10_mid_set_own_params_is_identity C10r_mid H0 H1 H2 H3) as H. cbv zeta in H. destruct H as [H4 H5].
  split; [exact H1|]. split; [exact H2|]. split; [exact H3|]. split; [exact H4|]. split; [exact H5|]. vm_compute. reflexivity.
Qed.

(** ... and a synchronised object (use_mixing, central and unknown sub-models, asymmetric LNL
    spread; 23 parameters; reached from the fresh object by a full positional assignment, hence
    in the invariant of C11 by [SyncProofs.midline_params_preserved]) is left exactly as it is;
    its ext.contra holds the mixture 1/2 * 1/10 + 1/2 * 3/10 = 1/5 *)
Definition C10r_cfresh : midline := new_midline C10r_uni true true false true false.
Definition C10r_cons : midline := fst (Sync.m_call SetParams C10r_cfresh (vals C10r_v) []).
Example C10r_cons_consistent : Sync.m_consistent C10r_cons.
Proof.
  destruct (SyncProofs.fresh_consistent C10r_uni) as (_ & Hm & _); [vm_compute; reflexivity|].
  destruct (Hm true true false true false) as [Hwf Hc].
  assert (Hret : snd (Sync.m_call SetParams C10r_cfresh (vals C10r_v) []) <> None) by (vm_compute; discriminate).
  assert (Hnd : ml_central C10r_cfresh <> None -> Sync.no_double_ipsi []) by (intros _ k []).
  destruct (SyncProofs.midline_params_preserved C10r_cfresh (vals C10r_v) [] Hwf Hc Hnd Hret) as (_ & Hsh & Hcfg).
  split; [exact Hsh|]. apply Hcfg. right. intros kwl k Hin _. vm_compute in Hin.
  repeat (destruct Hin as [<-|Hin]; [reflexivity|]). destruct Hin.
Qed.
Example C10r_cons_identity :
  m_set_params C10r_cons [] (own_kwargs (mid_items C10r_cons)) = (C10r_cons, Some []) /\
  length (mid_items C10r_cons) = 23%nat /\
  option_map qout (kw_get ["TtoII"; "spread"] (u_got (b_contra (ml_ext C10r_cons)))) = Some (1, 5)%Z /\
  option_map (fun c => option_map qout (kw_get ["TtoIII"; "spread"] (u_got (b_contra c)))) (ml_central C10r_cons) = Some (Some (1, 5)%Z).
Proof.
  split; [|repeat split; vm_compute; reflexivity].
  apply C10_mid_set_own_params_model_identity; [vm_compute; reflexivity | apply m_spread_validb_ok; vm_compute; reflexivity
    | vm_compute; reflexivity | apply C10r_cons_consistent | vm_compute; reflexivity].
Qed.

(** ** specific over global: set_params( *v, ipsi_TtoII_spread=11/20, IItoIII_spread=1/7,
    contra_spread=1/50, spread=1/100): each spread parameter takes the most specific keyword *)
Definition C10r_sg : kwargs :=
  [(["spread"], V (qc 1 100)); (["contra"; "spread"], V (qc 1 50)); (["IItoIII"; "spread"], V (qc 1 7));
   (["ipsi"; "TtoII"; "spread"], V (qc 11 20))].
Example C10r_specific_over_global :
  option_map (fun l => map (fun k => option_map qout (kw_get k l))
                           [["ipsi"; "TtoII"; "spread"]; ["ipsi"; "TtoIII"; "spread"]; ["ipsi"; "IItoIII"; "spread"];
                            ["contra"; "TtoII"; "spread"]; ["contra"; "IItoIII"; "spread"]; ["contra"; "ItoII"; "spread"];
                            ["ipsi"; "IItoIII"; "micro"]])
             (m_got (fst (m_set_params C10r_mid (vals C10r_v) C10r_sg)))
  = Some [Some (11, 20)%Z; Some (1, 100)%Z; Some (1, 7)%Z; Some (1, 50)%Z; Some (1, 7)%Z; Some (1, 50)%Z; Some (4, 5)%Z].
Proof. vm_compute. reflexivity. Qed.
(** ... as the theorem says, e.g. for "contra_ItoII_spread" (side-global "contra_spread" over
    the global "spread") and "ipsi_IItoIII_spread" (the arc name "IItoIII_spread") *)
Example C10r_by_theorem :
  option_map (kw_get ["contra"; "ItoII"; "spread"]) (m_got (fst (m_set_params C10r_mid (vals C10r_v) C10r_sg))) = Some (Some (qc 1 50)) /\
  option_map (kw_get ["ipsi"; "IItoIII"; "spread"]) (m_got (fst (m_set_params C10r_mid (vals C10r_v) C10r_sg))) = Some (Some (qc 1 7)).
Proof.
  assert (Hnd : NoDup (map fst C10r_sg)) by (repeat constructor; cbn; intuition discriminate).
  split.
  - apply (C10_mid_specific_over_global C10r_mid (vals C10r_v) C10r_sg ["contra"] "ItoII" "spread" (qc 1 50));
      [vm_compute; reflexivity | exact Hnd | vm_compute; tauto | reflexivity | vm_compute; discriminate].
  - apply (C10_mid_specific_over_global C10r_mid (vals C10r_v) C10r_sg ["ipsi"] "IItoIII" "spread" (qc 1 7));
      [vm_compute; reflexivity | exact Hnd | vm_compute; tauto | reflexivity | vm_compute; discriminate].
Qed.
