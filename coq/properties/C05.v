(** C05: the transition matrix.  Statements live in theories/Transition.v,
    proofs in theories/TransitionProofs.v; this file closes them and prints
    their assumptions, and exhibits a concrete well-formed graph so that the
    hypothesis [wf_graphb g = true] is visibly satisfiable. *)
From LymphModel Require Import Base States Linalg Graph Transition TransitionProofs.

Theorem C05_transition_entries : C05_transition_entries_stmt.
Proof. exact transition_entries. Qed.
Print Assumptions C05_transition_entries.

Theorem C05_row_sums : C05_row_sums_stmt.
Proof. exact row_sums. Qed.
Print Assumptions C05_row_sums.

Theorem C05_entries_in_unit_interval : C05_entries_in_unit_interval_stmt.
Proof. exact entries_in_unit_interval. Qed.
Print Assumptions C05_entries_in_unit_interval.

Theorem C05_never_regresses_never_skips : C05_never_regresses_never_skips_stmt.
Proof. exact never_regresses_never_skips. Qed.
Print Assumptions C05_never_regresses_never_skips.

Theorem C05_transition_prob_agrees : C05_transition_prob_agrees_stmt.
Proof. exact transition_prob_agrees. Qed.
Print Assumptions C05_transition_prob_agrees.

(** * Non-vacuity: a trinary graph with three LNLs, listed II, III, I, with the
    arc I -> II running against the listing order, growth arcs on every LNL and
    non-trivial spread / micro parameters. *)
Local Open Scope string_scope.
Definition C05_ex_graph : graph :=
  set_edges
    (force_graph (build_graph 3
       [ (("tumor", "T"), CList ["II"; "III"]);
         (("lnl", "II"), CList ["III"]);
         (("lnl", "III"), CList []);
         (("lnl", "I"), CList ["II"]) ]))
    [ ("TtoII", (qc 1 5, 1%Qc)); ("TtoIII", (qc 1 10, 1%Qc));
      ("IItoIII", (qc 3 10, qc 1 2)); ("ItoII", (qc 2 5, qc 1 4));
      ("II", (qc 1 2, 1%Qc)); ("III", (qc 1 3, 1%Qc)); ("I", (qc 1 4, 1%Qc)) ].

Example C05_ex_lnls : lnls C05_ex_graph = ["II"; "III"; "I"].
Proof. vm_compute. reflexivity. Qed.
Example C05_ex_edges :
  map (fun e => (e_parent e, e_child e, kind_tag (e_kind e))) (g_edges C05_ex_graph)
  = [("T", "II", 0%nat); ("T", "III", 0%nat); ("II", "II", 2%nat); ("II", "III", 1%nat);
     ("III", "III", 2%nat); ("I", "I", 2%nat); ("I", "II", 1%nat)].
Proof. vm_compute. reflexivity. Qed.
Example C05_ex_wf : wf_graphb C05_ex_graph = true.
Proof. vm_compute. reflexivity. Qed.

(** from state (II,III,I) = (0,0,1) to (1,0,1):
    (1 - (1 - 1/5)(1 - 2/5 * 1/4)) * (1 - 1/10) * (1 - 1/4) = 189/1000 *)
Example C05_ex_states :
  nth 1 (state_list C05_ex_graph) [] = [0; 0; 1]%nat /\ nth 10 (state_list C05_ex_graph) [] = [1; 0; 1]%nat.
Proof. vm_compute. split; reflexivity. Qed.
Example C05_ex_entry : qout (mget (generate_transition C05_ex_graph) 1 10) = (189%Z, 1000%Z).
Proof. vm_compute. reflexivity. Qed.
Example C05_ex_entry_spec : qout (trans_spec C05_ex_graph [0; 0; 1]%nat [1; 0; 1]%nat) = (189%Z, 1000%Z).
Proof. vm_compute. reflexivity. Qed.
(** the hypotheses of the other theorems hold for this graph as well *)
Example C05_ex_row_sum :
  sumQ (map (trans_spec C05_ex_graph [0; 0; 1]%nat) (state_list C05_ex_graph)) = 1%Qc.
Proof. apply C05_row_sums; [exact C05_ex_wf|]. vm_compute. tauto. Qed.
Example C05_ex_impl_eq_spec : generate_transition C05_ex_graph = trans_spec_matrix C05_ex_graph.
Proof. apply C05_transition_entries. exact C05_ex_wf. Qed.
