(** C13 (HPVUnilateral, Bayesian-network mode): theories/HpvBn.v *)
From LymphModel Require Import Base States Linalg Graph Transition Observation Dist Unilateral UniStatements Models Bilateral
  Midline Cohort LikelihoodProofs Hpv HpvBn Invariance InvarianceBn.

Theorem C13_hpv_bn_likelihood_is_sum : C13_hpv_bn_likelihood_is_sum_stmt.
Proof. exact hpv_bn_likelihood_is_sum. Qed.
Print Assumptions C13_hpv_bn_likelihood_is_sum.

Theorem C13_hpv_bn_restriction_reaches_both : C13_hpv_bn_restriction_reaches_both_stmt.
Proof. exact hpv_bn_restriction_reaches_both. Qed.
Print Assumptions C13_hpv_bn_restriction_reaches_both.

Theorem C13_hpv_bn_trinary_not_implemented : C13_hpv_bn_trinary_not_implemented_stmt.
Proof. exact hpv_bn_trinary_not_implemented. Qed.
Print Assumptions C13_hpv_bn_trinary_not_implemented.

(** Non-vacuity: the binary DAG of C15_bn on both arms (the HPV- arm with another T -> II spread), an "early" HPV+ patient,
    a "late" HPV- patient and an "early" HPV- patient: restricted to "early" the cohort has exactly two factors, the
    HPV+ one being the BN likelihood 162873/3500000 of properties/C15_bn.v, and the "late" HPV- patient is not scored *)
Local Open Scope string_scope.
Local Open Scope list_scope.
Definition C13hb_other : uni :=
  {| u_graph := set_edges C15bn_ex_graph [("TtoII", (qc 1 8, 1%Qc))]; u_mods := u_mods C15bn_ex_uni;
     u_dists := u_dists C15bn_ex_uni; u_maxt := u_maxt C15bn_ex_uni |}.
Definition C13hb_model : hpvmodel := {| h_hpv := C15bn_ex_uni; h_nohpv := C13hb_other |}.
Definition C13hb_table : list hpatient :=
  [ {| hp_pat := C15bn_ex_patient; hp_status := Some true |};
    {| hp_pat := {| p_tstage := "late"; p_find := p_find C15bn_ex_patient |}; hp_status := Some false |};
    {| hp_pat := C15bn_ex_patient; hp_status := Some false |} ].
Example C13hb_factors :
  match hpv_bn_cohort_factors C13hb_model C13hb_table (Some "early") with inr v => map qout v | inl _ => [] end
  = [(162873, 3500000)%Z; qout (match bn_likelihood_factors C13hb_other [C15bn_ex_patient] (Some "early") with inr [x] => x | _ => 0 end)]
  /\ match bn_likelihood_factors C13hb_other [C15bn_ex_patient] (Some "early") with inr [x] => x <> qc 162873 3500000 | _ => False end.
Proof. split; [vm_compute; reflexivity|]. vm_compute. intros H; discriminate H. Qed.
