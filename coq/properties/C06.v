(** C06: the observation matrix is the product of confusion-matrix entries; its rows
    are probability distributions; [diagnosis_prob] is the marginal over the
    finding columns compatible with the recorded diagnosis. *)
From LymphModel Require Import Base States Linalg Graph Transition Observation Dist Unilateral UniStatements ObservationProofs.
Local Open Scope nat_scope.
Open Scope Qc_scope.

Theorem C06_observation_entries : C06_observation_entries_stmt.
Proof. exact observation_entries. Qed.
Print Assumptions C06_observation_entries.

Theorem C06_row_sums : C06_row_sums_stmt.
Proof. exact obs_row_sums. Qed.
Print Assumptions C06_row_sums.

Theorem C06_entries_in_unit_interval : C06_entries_in_unit_interval_stmt.
Proof. exact obs_entries_in_unit_interval. Qed.
Print Assumptions C06_entries_in_unit_interval.

Theorem C06_micro_rules : C06_micro_rules_stmt.
Proof. exact micro_rules. Qed.
Print Assumptions C06_micro_rules.

Theorem C06_shape : C06_shape_stmt.
Proof. exact obs_shape. Qed.
Print Assumptions C06_shape.

Theorem C06_diagnosis_prob_is_marginal : C06_diagnosis_prob_is_marginal_stmt.
Proof. exact diagnosis_prob_is_marginal. Qed.
Print Assumptions C06_diagnosis_prob_is_marginal.

(** Non-vacuity: a trinary model with two LNLs and two modalities (one clinical,
    one pathological), the hidden state (II = micro, III = macro). *)
Definition ex_ct : modality := {| m_spec := qc 9 10; m_sens := qc 4 5; m_path := false |}.
Definition ex_pa : modality := {| m_spec := qc 19 20; m_sens := qc 7 10; m_path := true |}.
Definition ex_mods : list (string * modality) := [("CT"%string, ex_ct); ("path"%string, ex_pa)].
Definition ex_lnls : list string := ["II"%string; "III"%string].
Definition ex_x : state := [1; 2]%nat.
Definition ex_z : state := [0; 1; 1; 0]%nat.
Definition ex_diag : diagnosis :=
  [("path"%string, [("III"%string, Some IInvolved)]);
   ("CT"%string, [("II"%string, Some IHealthy); ("III"%string, None)])].

Example C06_nonvacuous_hyps :
  base_ok 3 = true /\ nodupb (map fst ex_mods) = true /\ nodupb ex_lnls = true
  /\ In ex_x (all_states 3 (length ex_lnls))
  /\ In ex_z (obs_list (length ex_mods) (length ex_lnls))
  /\ forallb (fun kv : string * pattern => binary_pattern (snd kv)) ex_diag = true
  /\ mods_in_unit (map snd ex_mods).
Proof.
  repeat split; try (vm_compute; reflexivity); try (vm_compute; tauto).
  all: destruct H as [<-|[<-|[]]]; vm_compute; discriminate.
Qed.

(** x = [1;2] is row 5, z = [0;1;1;0] is column 6:
    0.9 (CT: micro II read healthy) * 0.8 * 0.7 (path: micro II read involved) * 0.3 *)
Example C06_nonvacuous_entry :
  obs_spec (map snd ex_mods) 2 3 ex_x ex_z = qc 189 1250
  /\ mget (generate_observation (map snd ex_mods) 2 3) 5 6 = qc 189 1250
  /\ nth 5 (all_states 3 2) [] = ex_x /\ nth 6 (obs_list 2 2) [] = ex_z.
Proof. repeat split; try (apply Qc_eq_this); vm_compute; reflexivity. Qed.

Example C06_nonvacuous_shape :
  length (generate_observation (map snd ex_mods) 2 3) = 9%nat
  /\ map (@length Qc) (generate_observation (map snd ex_mods) 2 3) = repeat 16%nat 9.
Proof. split; vm_compute; reflexivity. Qed.

Example C06_nonvacuous_micro :
  conf 3 ex_ct 1 1 = qc 1 10 /\ conf 3 ex_ct 0 1 = qc 1 10
  /\ conf 3 ex_pa 1 1 = qc 7 10 /\ conf 3 ex_pa 2 1 = qc 7 10.
Proof. repeat split; apply Qc_eq_this; vm_compute; reflexivity. Qed.

(** P(path: III involved, CT: II healthy | x) = 0.7 * 0.9 *)
Example C06_nonvacuous_diagnosis :
  diagnosis_prob 3 ex_mods ex_lnls ex_x ex_diag = qc 63 100
  /\ sumQ (map (fun z => if compatible (map fst ex_mods) ex_lnls ex_diag z
                         then obs_spec (map snd ex_mods) (length ex_lnls) 3 ex_x z else 0)
               (obs_list (length ex_mods) (length ex_lnls))) = qc 63 100
  /\ length (filter (compatible (map fst ex_mods) ex_lnls ex_diag) (obs_list 2 2)) = 4%nat.
Proof. repeat split; try (apply Qc_eq_this); vm_compute; reflexivity. Qed.
