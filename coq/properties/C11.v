(** C11: composite models keep their parts consistent with the declared sharing.
    Statements: theories/Sync.v; proofs: theories/SyncProofs.v. *)
From LymphModel Require Import Base States Linalg Graph Transition Observation Dist Unilateral Models Params
  ParamsStatements Sync SyncProofs.
Local Open Scope string_scope.
Local Open Scope list_scope.

Theorem C11_fresh_consistent : C11_fresh_consistent_stmt.
Proof. exact fresh_consistent. Qed.
Print Assumptions C11_fresh_consistent.

Theorem C11_bilateral_preserved : C11_bilateral_preserved_stmt.
Proof. exact bilateral_preserved. Qed.
Print Assumptions C11_bilateral_preserved.

Theorem C11_bilateral_shared_from_any_state : C11_bilateral_shared_from_any_state_stmt.
Proof. exact bilateral_shared_from_any_state. Qed.
Print Assumptions C11_bilateral_shared_from_any_state.

Theorem C11_midline_tumor_preserved : C11_midline_tumor_preserved_stmt.
Proof. exact midline_tumor_preserved. Qed.
Print Assumptions C11_midline_tumor_preserved.

Theorem C11_midline_lnl_preserved : C11_midline_lnl_preserved_stmt.
Proof. exact midline_lnl_preserved. Qed.
Print Assumptions C11_midline_lnl_preserved.

Theorem C11_midline_spread_preserved : C11_midline_spread_preserved_stmt.
Proof. exact midline_spread_preserved. Qed.
Print Assumptions C11_midline_spread_preserved.

Theorem C11_midline_dist_preserved : C11_midline_dist_preserved_stmt.
Proof. exact midline_dist_preserved. Qed.
Print Assumptions C11_midline_dist_preserved.

Theorem C11_midline_params_preserved : C11_midline_params_preserved_stmt.
Proof. exact midline_params_preserved. Qed.
Print Assumptions C11_midline_params_preserved.

Theorem C11_midline_preserved : C11_midline_preserved_stmt.
Proof. exact midline_preserved. Qed.
Print Assumptions C11_midline_preserved.

Theorem C11_modalities_equal : C11_modalities_equal_stmt.
Proof. exact modalities_equal. Qed.
Print Assumptions C11_modalities_equal.

Theorem C11_distributions_equal : C11_distributions_equal_stmt.
Proof. exact distributions_equal. Qed.
Print Assumptions C11_distributions_equal.

Theorem C11_max_time_equal : C11_max_time_equal_stmt.
Proof. exact max_time_equal. Qed.
Print Assumptions C11_max_time_equal.

Theorem C11_cfg_all_or_first : C11_cfg_all_or_first_stmt.
Proof. exact cfg_all_or_first. Qed.
Print Assumptions C11_cfg_all_or_first.

Theorem C11_cfg_wf : C11_cfg_wf_stmt.
Proof. exact cfg_wf. Qed.
Print Assumptions C11_cfg_wf.

Theorem C11_bilateral_history : C11_bilateral_history_stmt.
Proof. exact bilateral_history. Qed.
Print Assumptions C11_bilateral_history.

Theorem C11_midline_history : C11_midline_history_stmt.
Proof. exact midline_history. Qed.
Print Assumptions C11_midline_history.

Theorem C11_reported_params_are_used : C11_reported_params_are_used_stmt.
Proof. exact reported_params_are_used. Qed.
Print Assumptions C11_reported_params_are_used.

Theorem C11_midline_reported_params_are_used : C11_midline_reported_params_are_used_stmt.
Proof. exact midline_reported_params_are_used. Qed.
Print Assumptions C11_midline_reported_params_are_used.

Theorem C11_full_assignment_restores : C11_bilateral_full_assignment_restores_stmt.
Proof. exact bilateral_full_assignment_restores. Qed.
Print Assumptions C11_full_assignment_restores.

(** findings and observations *)
Theorem C11_hpv_sharing_refuted : C11_hpv_sharing_refuted_stmt.
Proof. exact hpv_sharing_refuted. Qed.
Print Assumptions C11_hpv_sharing_refuted.

Theorem C11_child_dist_keyword_refuted : C11_child_dist_keyword_refuted_stmt.
Proof. exact child_dist_keyword_refuted. Qed.
Print Assumptions C11_child_dist_keyword_refuted.

Theorem C11_not_atomic : C11_not_atomic_stmt.
Proof. exact not_atomic. Qed.
Print Assumptions C11_not_atomic.

(** * Non-vacuity: a trinary midline model (mixing, central and unknown sub-models,
    asymmetric LNL spread) over three LNLs with an arc against the listing order, a
    frozen and a parametric distribution *)
Definition C11_ex_graph : graph :=
  force_graph (build_graph 3
     [ (("tumor", "T"), CList ["II"; "III"]);
       (("lnl", "II"), CList ["III"]);
       (("lnl", "III"), CList []);
       (("lnl", "I"), CList ["II"]) ]).
Definition C11_ex_uni : uni :=
  new_uni C11_ex_graph [("early", Frozen [qc 1 2; qc 1 4; qc 1 4]); ("late", Param 0 [("p", qc 1 3)])] 2.
Definition C11_ex_mid : midline := new_midline C11_ex_uni true true false true false.
Example C11_ex_wf : m_wf C11_ex_mid = true.
Proof. vm_compute. reflexivity. Qed.
Example C11_ex_consistent : m_consistent C11_ex_mid.
Proof. apply (fresh_consistent C11_ex_uni). vm_compute. reflexivity. Qed.
(** set_params(ipsi_TtoII_spread=1/2, ipsi_TtoIII_spread=1/4, contra_TtoII_spread=1/5, contra_TtoIII_spread=0,
    mixing=1/4, ipsi_IItoIII_spread=1/3, contra_IItoIII_spread=2/3, late_p=3/4, midext_prob=1/8) *)
Definition C11_ex_call :=
  m_set_params C11_ex_mid []
    [ (["ipsi"; "TtoII"; "spread"], V (qc 1 2)); (["ipsi"; "TtoIII"; "spread"], V (qc 1 4));
      (["contra"; "TtoII"; "spread"], V (qc 1 5)); (["contra"; "TtoIII"; "spread"], V 0%Qc);
      (["mixing"], V (qc 1 4)); (["ipsi"; "IItoIII"; "spread"], V (qc 1 3)); (["contra"; "IItoIII"; "spread"], V (qc 2 3));
      (["late"; "p"], V (qc 3 4)); (["midext"; "prob"], V (qc 1 8)) ].
Example C11_ex_returns : snd C11_ex_call = Some [].
Proof. vm_compute. reflexivity. Qed.
(** ext.contra holds mixing * ipsi + (1 - mixing) * contra_noext: 1/4*1/2 + 3/4*1/5 = 11/40 and 1/4*1/4 + 0 = 1/16 *)
Example C11_ex_mixture : items_out (u_T (ext_c (fst C11_ex_call))) = [(11, 40); (1, 16)]%Z.
Proof. vm_compute. reflexivity. Qed.
(** the central model is symmetric and has the ipsilateral tumour spread *)
Example C11_ex_central :
  option_map (fun c => (items_out (u_T (b_ipsi c)), items_out (u_T (b_contra c)))) (ml_central (fst C11_ex_call))
  = Some ([(1, 2); (1, 4)], [(1, 2); (1, 4)])%Z.
Proof. vm_compute. reflexivity. Qed.
(** the contralateral IItoIII spread 2/3 is in ext.contra, noext.contra and central.contra; growth and micro stay *)
Example C11_ex_lnl :
  map (fun u => items_out (u_L u)) (contra_leaves (fst C11_ex_call))
  = [ [(0, 1); (2, 3); (1, 1); (0, 1); (0, 1); (0, 1); (1, 1)]; [(0, 1); (2, 3); (1, 1); (0, 1); (0, 1); (0, 1); (1, 1)];
      [(0, 1); (2, 3); (1, 1); (0, 1); (0, 1); (0, 1); (1, 1)] ]%Z.
Proof. vm_compute. reflexivity. Qed.
(** set_modality + set_distribution + max_time reach all eight leaves *)
Definition C11_ex_cfg :=
  fst (m_cfg (leaf_cfg (CSetDistribution "early" (DWeights [qc 1 1; qc 2 1; qc 1 1; qc 4 1])))
        (fst (m_cfg (leaf_cfg (CSetMaxTime 3))
           (fst (m_cfg (leaf_cfg (CSetModality "CT" (V (qc 7 8)) (V (qc 3 4)) false)) (fst C11_ex_call)))))).
Example C11_ex_cfg_leaves :
  map (fun u => (map fst (u_mods u), u_maxt u, map fst (u_dists u))) (all_leaves C11_ex_cfg)
  = repeat (["CT"], 3%nat, ["early"; "late"]) 8.
Proof. vm_compute. reflexivity. Qed.
