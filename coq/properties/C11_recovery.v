(** C11 (recovery, Midline): a complete acceptable KEYWORD assignment restores the sharing
    invariant from any state of a configuration, in particular after half-way failures.
    Statements and proofs: theories/SyncMidlineRecovery.v (on top of Sync.v / SyncProofs.v for
    the invariant and its preservation, Safe.v / SafeMidline.v for "a full assignment is
    absorbing").  The POSITIONAL form [Sync.C11_midline_full_assignment_restores_stmt] is not
    closed here; see the comment at the end. *)
From LymphModel Require Import Base States Linalg Graph Transition Observation Dist Unilateral Models Params
  ParamsStatements Safe Sync SyncProofs SyncMidlineRecovery.
Local Open Scope string_scope.
Local Open Scope list_scope.

(** the object after the assignment is the one the same assignment leaves on ANY consistent
    object [m0] of that configuration; it is well-formed and consistent *)
Theorem C11_midline_full_assignment_restores_kw : C11_midline_full_assignment_restores_kw_stmt.
Proof. exact midline_full_assignment_restores_kw. Qed.
Print Assumptions C11_midline_full_assignment_restores_kw.

(** ... with [m0] a freshly constructed model and the state reached by ANY list of setter calls
    (all five setters, any arguments, raising or not) *)
Theorem C11_midline_recovery_after_history : C11_midline_recovery_after_history_stmt.
Proof. exact midline_recovery_after_history. Qed.
Print Assumptions C11_midline_recovery_after_history.

(** ... from hypotheses on the state alone (well-formed; leaves differ at most in parameter
    values, [Sync.m_config_sim] as in the positional statement of Sync.v) *)
Theorem C11_midline_full_assignment_restores_kw_sim : C11_midline_full_assignment_restores_kw_sim_stmt.
Proof. exact midline_full_assignment_restores_kw_sim. Qed.
Print Assumptions C11_midline_full_assignment_restores_kw_sim.

(** * Non-vacuity: a trinary Midline model (use_mixing, central and unknown sub-models, LNL
    spread asymmetric) over three LNLs listed II, III, I with an arc against the listing
    order, a frozen and two parametric distributions: 23 parameters *)
Definition C11r_graph : graph :=
  force_graph (build_graph 3
     [ (("tumor", "T"), CList ["II"; "III"]);
       (("lnl", "II"), CList ["III"]);
       (("lnl", "III"), CList []);
       (("lnl", "I"), CList ["II"]) ]).
Definition C11r_uni : uni :=
  new_uni C11r_graph [("early", Frozen [qc 1 2; qc 1 4; qc 1 4]); ("late", Param 0 [("p", qc 1 3)]);
                      ("mid", Param 1 [("a", qc 1 2); ("b", qc 1 1)])] 2.
Definition C11r_mid : midline := new_midline C11r_uni true true false true false.
Example C11r_uni_ok : u_names_ok C11r_uni = true.
Proof. vm_compute. reflexivity. Qed.
(** ipsi (2 tumor + 7 LNL), contra (2 + 7), mixing, late_p, mid_a, mid_b, midext_prob *)
Definition C11r_valid : list Qc :=
  [qc 1 10; qc 2 10; qc 3 10; qc 4 10; qc 5 10; qc 6 10; qc 7 10; qc 8 10; qc 9 10;
   qc 3 10; qc 4 10; qc 1 10; qc 2 10; qc 3 10; qc 4 10; qc 5 10; qc 6 10; qc 7 10;
   qc 1 4; qc 3 4; qc 5 2; qc 1 1; qc 1 8].
(** three calls that raise half-way:
    - set_params( *v) with the 14th value 17/16 (raises inside the contralateral LNL block);
    - set_params(ext_late_p=0.9, noext_mid_b=0): the ext model takes late_p, the linear family
      of the noext model rejects b = 0;
    - set_tumor_spread_params(0.9, 1.5): the central model keeps 0.9 *)
Definition C11r_bad1 : args := map V (firstn 13 C11r_valid) ++ [V (qc 17 16)] ++ map V (skipn 14 C11r_valid).
Definition C11r_history : list (setter * args * kwargs) :=
  [ (SetParams, C11r_bad1, []);
    (SetParams, [], [(["ext"; "late"; "p"], V (qc 9 10)); (["noext"; "mid"; "b"], V 0%Qc)]);
    (SetTumorSpread, [V (qc 9 10); V (qc 3 2)], []) ].
Definition C11r_bad : midline := m_after C11r_mid C11r_history.
Example C11r_all_raise :
  map (fun k => let '(s, a, kw) := nth k C11r_history (SetParams, [], []) in
                out_res (snd (m_call s (m_after C11r_mid (firstn k C11r_history)) a kw))) [0; 1; 2]%nat
  = [None; None; None].
Proof. vm_compute. reflexivity. Qed.
(** the state is out of sync in all three respects: central.ipsi has TtoII = 9/10 (ext.ipsi 1/10);
    the first contralateral LNL parameter is 0, 0, 1/5 in ext / noext / central; ext has
    late_p = 9/10 (the other sub-models 1/3) *)
Example C11r_out_of_sync :
  option_map (fun c => items_out (u_T (b_ipsi c))) (ml_central C11r_bad) = Some [(9, 10); (1, 5)]%Z
  /\ items_out (u_T (ext_i C11r_bad)) = [(1, 10); (1, 5)]%Z
  /\ map (fun u => hd (0, 0)%Z (items_out (u_L u))) (contra_leaves C11r_bad) = [(0, 1); (0, 1); (1, 5)]%Z
  /\ map (fun u => hd ("", []) (out_dists u)) [ext_i C11r_bad; noext_i C11r_bad]
     = [("late", [("p", (9, 10)%Z)]); ("late", [("p", (1, 3)%Z)])].
Proof. repeat split; vm_compute; reflexivity. Qed.
Example C11r_not_consistent : ~ m_consistent C11r_bad.
Proof.
  intros [_ Hcf]. destruct (Hcf (noext_i C11r_bad)) as (_ & Hd & _); [right; right; left; reflexivity|].
  assert (E : out_dists (noext_i C11r_bad) = out_dists (ext_i C11r_bad)) by (unfold out_dists; rewrite Hd; reflexivity).
  vm_compute in E. discriminate E.
Qed.
(** ... but it is a state of the fresh model's configuration, well-formed, its leaves differ in
    parameter values only, and the proposal is acceptable *)
Example C11r_hypotheses :
  Safe.same_config (MMid C11r_bad) (MMid C11r_mid) /\ m_names_ok C11r_bad = true
  /\ length C11r_valid = length (m_items C11r_bad) /\ m_accepts C11r_bad (vals C11r_valid) = true.
Proof. repeat split; vm_compute; reflexivity. Qed.
Example C11r_config_sim : m_config_sim C11r_bad.
Proof.
  intros u Hu. vm_compute in Hu.
  repeat (destruct Hu as [<-|Hu]; [vm_compute; repeat split; repeat constructor|]). destruct Hu.
Qed.
(** the full keyword assignment restores the invariant and leaves the object it leaves on the
    fresh model *)
Definition C11r_fixed : midline := fst (m_set_params C11r_bad [] (kw_of (m_names C11r_bad) C11r_valid)).
Example C11r_restored :
  snd (m_set_params C11r_bad [] (kw_of (m_names C11r_bad) C11r_valid)) = Some []
  /\ C11r_fixed = fst (m_set_params C11r_mid [] (kw_of (m_names C11r_mid) C11r_valid))
  /\ m_wf C11r_fixed = true /\ m_consistent C11r_fixed.
Proof.
  apply (C11_midline_recovery_after_history C11r_uni true true false true false C11r_history C11r_valid);
    vm_compute; reflexivity.
Qed.
Example C11r_restored_sim : m_consistent C11r_fixed.
Proof.
  apply (C11_midline_full_assignment_restores_kw_sim C11r_bad C11r_valid);
    [vm_compute; reflexivity | exact C11r_config_sim | vm_compute; reflexivity | vm_compute; reflexivity].
Qed.
(** ext.contra is the recomputed mixture 1/4 * ipsi + 3/4 * noext.contra = (1/40 + 9/40, 2/40 + 12/40);
    all six ipsilateral-type leaves have the ipsilateral tumour spread; the three contralateral leaves
    share the LNL spread; every one of the eight leaves has late_p = 3/4 *)
Example C11r_values :
  items_out (u_T (ext_c C11r_fixed)) = [(1, 4); (7, 20)]%Z
  /\ map (fun u => items_out (u_T u)) (ipsi_leaves C11r_fixed ++ opt_leaves (ml_central C11r_fixed) b_contra)
     = repeat [(1, 10); (1, 5)]%Z 4
  /\ map (fun u => items_out (u_L u)) (contra_leaves C11r_fixed)
     = repeat [(1, 10); (1, 5); (3, 10); (2, 5); (1, 2); (3, 5); (7, 10)]%Z 3
  /\ map (fun u => hd ("", []) (out_dists u)) (all_leaves C11r_fixed) = repeat ("late", [("p", (3, 4)%Z)]) 8
  /\ option_map qout (ml_mixing C11r_fixed) = Some (1, 4)%Z /\ qout (ml_midext C11r_fixed) = (1, 8)%Z.
Proof. repeat split; vm_compute; reflexivity. Qed.

(** The positional statement [Sync.C11_midline_full_assignment_restores_stmt] (hypotheses [m_wf],
    [m_shapes_agree], [m_config_sim]; call [set_params( *v, *rest)]) is NOT closed by the theorems
    above: C12's "absorbing" theorem, on which they rest, describes keyword calls only (every
    leaf looks its value up by name), whereas a positional call hands every leaf the running
    remainder of the argument list.  On the example the positional call behaves the same way: *)
Example C11r_positional_instance :
  fst (m_set_params C11r_bad (vals C11r_valid) []) = fst (m_set_params C11r_mid (vals C11r_valid) [])
  /\ snd (m_set_params C11r_bad (vals C11r_valid) []) = Some [].
Proof. split; vm_compute; reflexivity. Qed.
