From LymphModel Require Import Base States Linalg Graph Transition Observation Dist Unilateral UniStatements.
From LymphModel Require Import TransitionProofs PriorProofs BnProofs.
Local Open Scope nat_scope.
Open Scope Qc_scope.

Theorem C07_bn_nonneg : C07_bn_nonneg_stmt.
Proof. exact bn_nonneg. Qed.
Print Assumptions C07_bn_nonneg.

Theorem C07_bn_sum_one : C07_bn_sum_one_stmt.
Proof. exact bn_sum_one. Qed.
Print Assumptions C07_bn_sum_one.

Theorem C07_bn_sum_one_ord : C07_bn_sum_one_ord_stmt.
Proof. exact bn_sum_one_ord. Qed.
Print Assumptions C07_bn_sum_one_ord.

Theorem C07_bn_acyclicb_complete : C07_bn_acyclicb_complete_stmt.
Proof. exact acyclicb_complete. Qed.
Print Assumptions C07_bn_acyclicb_complete.

(** Non-vacuity: a binary graph T -> II, III, IV with LNL arcs II -> III, IV -> II, IV -> III
    (LNLs listed II, III, IV, so both arcs out of IV run against the listing order).  It is
    well-formed, binary, acyclic; the computed order is IV, II, III, and the listing order
    itself is NOT a topological order. *)
Example C07_bn_ex_hypotheses :
  wf_graphb C07_bn_ex_dag = true /\ g_base C07_bn_ex_dag = 2%nat /\ acyclicb C07_bn_ex_dag = true /\
  lnls C07_bn_ex_dag = ["II"; "III"; "IV"]%string /\
  map e_name (g_edges C07_bn_ex_dag) = ["TtoII"; "TtoIII"; "TtoIV"; "IItoIII"; "IVtoII"; "IVtoIII"]%string /\
  topo_sort C07_bn_ex_dag = ["IV"; "II"; "III"]%string /\
  topo_orderb C07_bn_ex_dag ["II"; "III"; "IV"]%string = false.
Proof. vm_compute. repeat split; reflexivity. Qed.

Example C07_bn_ex_params_in_unit : params_in_unit C07_bn_ex_dag.
Proof.
  intros e He. vm_compute in He.
  repeat (destruct He as [<-|He]; [vm_compute; repeat split; discriminate|]). destruct He.
Qed.

(** P(II healthy, III involved, IV involved) = 1/5 * (1/2 * 3/5) * (1 - 3/4 * 6/7) = 3/140;
    the whole distribution, and its sum as a cross-check of the theorem by computation *)
Example C07_bn_ex_values :
  bn_spec C07_bn_ex_dag [0; 1; 1]%nat = qc 3 140 /\
  qouts (map (bn_spec C07_bn_ex_dag) (state_list C07_bn_ex_dag))
    = [(3, 10); (27, 700); (1, 10); (3, 140); (1, 5); (3, 50); (1, 5); (2, 25)]%Z /\
  sumQ (map (bn_spec C07_bn_ex_dag) (state_list C07_bn_ex_dag)) = 1.
Proof.
  split; [apply Qc_is_canon; vm_compute; reflexivity|].
  split; [vm_compute; reflexivity|]. apply Qc_is_canon; vm_compute; reflexivity.
Qed.

(** the theorems applied to the example *)
Example C07_bn_ex_applied :
  sumQ (map (bn_spec C07_bn_ex_dag) (state_list C07_bn_ex_dag)) = 1 /\
  0 <= bn_spec C07_bn_ex_dag [0; 1; 1]%nat.
Proof.
  split.
  - apply C07_bn_sum_one; vm_compute; reflexivity.
  - apply C07_bn_nonneg; [vm_compute; reflexivity|vm_compute; reflexivity|exact C07_bn_ex_params_in_unit|].
    vm_compute. tauto.
Qed.

(** The acyclicity hypothesis is needed: the graph with the cycle II -> III -> II is accepted by
    [build_graph] and well-formed, [acyclicb] rejects it, and its "distribution" sums to 21/20. *)
Example C07_bn_ex_cycle :
  wf_graphb C07_bn_ex_cyclic = true /\ g_base C07_bn_ex_cyclic = 2%nat /\ acyclicb C07_bn_ex_cyclic = false /\
  sumQ (map (bn_spec C07_bn_ex_cyclic) (state_list C07_bn_ex_cyclic)) = qc 21 20.
Proof.
  split; [vm_compute; reflexivity|]. split; [vm_compute; reflexivity|]. split; [vm_compute; reflexivity|].
  apply Qc_is_canon; vm_compute; reflexivity.
Qed.
