(** C17, Midline part: the class-independent theorems instantiated for models.Midline in
    general (statements and proofs in theories/NamedMidline.v; they rest on the C10 name
    list [mid_names_nodup] of theories/ParamsMidline.v).  The keyword-resolution theorems for
    Midline are in C17_midline_more.v (literal subsets) and C17_midline_global.v (global names,
    when present); beyond them its set_params is tied to the code by the correspondence check. *)
From LymphModel Require Import Base States Linalg Graph Transition Observation Dist Unilateral Models Params
  ParamsStatements ParamsMidline Named NamedProofs NamedMidline.

Theorem C17_midline_delete_restores_default : C17_midline_delete_restores_default_stmt.
Proof. exact midline_delete_restores_default. Qed.
Print Assumptions C17_midline_delete_restores_default.

Theorem C17_midline_num_dims : C17_midline_num_dims_stmt.
Proof. exact midline_num_dims. Qed.
Print Assumptions C17_midline_num_dims.

(** non-vacuity: a midline model without mixing, central model, asymmetric LNL spread *)
Local Open Scope string_scope.
Definition C17_ex_mid : midline :=
  new_midline (new_uni (force_graph (build_graph 2
     [ (("tumor", "T"), CList ["II"; "III"]); (("lnl", "II"), CList ["III"]); (("lnl", "III"), CList []) ]))
     [("late", Param 0 [("p", qc 1 3)])] 2) false true false false false.
Example C17_ex_mid_ok : mid_names_ok C17_ex_mid = true.
Proof. vm_compute. reflexivity. Qed.
Example C17_ex_mid_dims : get_num_dims (mk_nstate (MMid C17_ex_mid) None) = inr 10%nat.
Proof. vm_compute. reflexivity. Qed.
Example C17_ex_mid_named :
  out_res_items (get_named_params (fst (set_named_params
     (mk_nstate (MMid C17_ex_mid) (Some [["ext"; "contra"; "TtoII"; "spread"]; ["spread"]; ["midext"; "prob"]]))
     (vals [qc 1 8; qc 1 4; qc 1 2]) [])))
  = Some [(["ext"; "contra"; "TtoII"; "spread"], (1, 8)); (["spread"], (1, 4)); (["midext"; "prob"], (1, 2))]%Z.
Proof. vm_compute. reflexivity. Qed.
