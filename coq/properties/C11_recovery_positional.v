(** C11 (recovery, Midline, POSITIONAL): [Sync.C11_midline_full_assignment_restores_stmt], the
    statement Sync.v left open: from ANY well-formed state whose leaves differ at most in
    parameter values (in particular out of sync after half-way failures or after calls on the
    sub-models), a complete positional assignment [set_params( *v, *rest)] that returns normally
    leaves a consistent object.  Proofs: theories/SyncMidlinePositional.v.  The statement is
    TRUE as written; no hypothesis had to be added. *)
From LymphModel Require Import Base States Linalg Graph Transition Observation Dist Unilateral Models Params
  ParamsStatements Safe Sync SyncProofs SyncMidlineRecovery SyncMidlinePositional.
Local Open Scope string_scope.
Local Open Scope list_scope.

Theorem C11_midline_full_assignment_restores : C11_midline_full_assignment_restores_stmt.
Proof. exact midline_full_assignment_restores. Qed.
Print Assumptions C11_midline_full_assignment_restores.

(** ... and the result is again well-formed, so that the preservation theorems (C11.v) apply to
    every later call *)
Theorem C11_midline_full_assignment_restores_wf : C11_midline_full_assignment_restores_wf_stmt.
Proof. exact midline_full_assignment_restores_wf. Qed.
Print Assumptions C11_midline_full_assignment_restores_wf.

(** ... for objects well-formed in the sense of Safe.v (every constructed object and every state
    reached from it): no shape hypothesis; afterwards every reported parameter is the value of
    every leaf the sharing declares, and with symmetric LNL spread (positional order = reported
    order) get_params reports exactly the assigned vector *)
Theorem C11_midline_full_assignment_restores_pos_sim : C11_midline_full_assignment_restores_pos_sim_stmt.
Proof. exact midline_full_assignment_restores_pos_sim. Qed.
Print Assumptions C11_midline_full_assignment_restores_pos_sim.

(** * Non-vacuity: a trinary Midline model (use_mixing, central and unknown sub-models, LNL
    spread ASYMMETRIC) over three LNLs listed II, III, I with an arc against the listing order,
    a frozen and two parametric distributions: 23 parameters *)
Definition C11p_graph : graph :=
  force_graph (build_graph 3
     [ (("tumor", "T"), CList ["II"; "III"]);
       (("lnl", "II"), CList ["III"]);
       (("lnl", "III"), CList []);
       (("lnl", "I"), CList ["II"]) ]).
Definition C11p_uni : uni :=
  new_uni C11p_graph [("early", Frozen [qc 1 2; qc 1 4; qc 1 4]); ("late", Param 0 [("p", qc 1 3)]);
                      ("mid", Param 1 [("a", qc 1 2); ("b", qc 1 1)])] 2.
Definition C11p_mid : midline := new_midline C11p_uni true true false true false.
Example C11p_uni_ok : u_names_ok C11p_uni = true.
Proof. vm_compute. reflexivity. Qed.
(** three Midline calls that raise half-way:
    - set_lnl_spread_params(0.2, 0.4, 17/16): central.ipsi keeps 1/5, 2/5;
    - set_params(ext_late_p=0.9, noext_mid_b=0): the ext model takes late_p, the linear family
      of the noext model rejects b = 0;
    - set_tumor_spread_params(0.9, 1.5): the central model keeps 0.9;
    and one call on a sub-model: noext.ipsi.set_lnl_spread_params(0.3, 0.7) *)
Definition C11p_history : list (setter * args * kwargs) :=
  [ (SetLnlSpread, [V (qc 1 5); V (qc 2 5); V (qc 17 16)], []);
    (SetParams, [], [(["ext"; "late"; "p"], V (qc 9 10)); (["noext"; "mid"; "b"], V 0%Qc)]);
    (SetTumorSpread, [V (qc 9 10); V (qc 3 2)], []) ].
Definition C11p_bad0 : midline := m_after C11p_mid C11p_history.
Definition C11p_bad : midline :=
  ml_with_noext C11p_bad0
    (b_with_ipsi (ml_noext C11p_bad0) (fst (u_set_lnl_spread_params (noext_i C11p_bad0) [V (qc 3 10); V (qc 7 10)] []))).
Example C11p_all_raise :
  map (fun k => let '(s, a, kw) := nth k C11p_history (SetParams, [], []) in
                out_res (snd (m_call s (m_after C11p_mid (firstn k C11p_history)) a kw))) [0; 1; 2]%nat
  = [None; None; None].
Proof. vm_compute. reflexivity. Qed.
(** the state is out of sync in every respect: the LNL parameters of ext and noext differ
    ([m_lnl_synced] = the comparison inside get_lnl_spread_params fails); central.ipsi has
    TtoII = 9/10 (ext.ipsi 0); the first two ipsilateral LNL parameters are 0,0 / 3/10,7/10 /
    1/5,2/5 in ext / noext / central; ext has late_p = 9/10 (the other sub-models 1/3) *)
Example C11p_out_of_sync :
  m_lnl_synced C11p_bad = false
  /\ option_map (fun c => items_out (u_T (b_ipsi c))) (ml_central C11p_bad) = Some [(9, 10); (0, 1)]%Z
  /\ items_out (u_T (ext_i C11p_bad)) = [(0, 1); (0, 1)]%Z
  /\ map (fun u => firstn 2 (items_out (u_L u))) (ipsi_leaves C11p_bad)
     = [[(0, 1); (0, 1)]; [(3, 10); (7, 10)]; [(1, 5); (2, 5)]]%Z
  /\ map (fun u => hd ("", []) (out_dists u)) [ext_i C11p_bad; noext_i C11p_bad]
     = [("late", [("p", (9, 10)%Z)]); ("late", [("p", (1, 3)%Z)])].
Proof. repeat split; vm_compute; reflexivity. Qed.
Example C11p_not_consistent : ~ m_consistent C11p_bad.
Proof.
  intros [(_ & _ & _ & HL & _) _]. specialize (HL (noext_i C11p_bad)).
  assert (E : items_out (u_L (noext_i C11p_bad)) = items_out (u_L (ext_i C11p_bad))).
  { rewrite HL; [reflexivity|]. right. left. reflexivity. }
  vm_compute in E. discriminate E.
Qed.
(** ... but it is well-formed, its leaves have the same arcs and differ in parameter values
    only, and [v] has [m_param_count] = 23 values *)
Definition C11p_valid : list Qc :=
  [qc 1 10; qc 2 10;                                                   (* ipsilateral tumour spread *)
   qc 3 10; qc 4 10; qc 1 4;                                           (* noext.contra tumour spread, mixing *)
   qc 1 10; qc 2 10; qc 3 10; qc 4 10; qc 5 10; qc 6 10; qc 7 10;      (* ipsilateral LNL spread *)
   qc 2 10; qc 3 10; qc 4 10; qc 5 10; qc 6 10; qc 7 10; qc 8 10;      (* contralateral LNL spread *)
   qc 3 4; qc 5 2; qc 1 1;                                             (* late_p, mid_a, mid_b *)
   qc 1 8].                                                            (* midext_prob *)
Definition C11p_rest : args := [V (qc 9 10); Bad].
Example C11p_hypotheses :
  m_wf C11p_bad = true /\ m_names_ok C11p_bad = true
  /\ length C11p_valid = m_param_count C11p_bad /\ m_param_count C11p_bad = 23%nat
  /\ out_res (snd (m_set_params C11p_bad (vals C11p_valid ++ C11p_rest) [])) = Some [Some (9, 10)%Z; None].
Proof. repeat split; vm_compute; reflexivity. Qed.
Example C11p_shapes_agree : m_shapes_agree C11p_bad.
Proof. apply names_ok_shapes_agree. vm_compute. reflexivity. Qed.
Example C11p_config_sim : m_config_sim C11p_bad.
Proof.
  intros u Hu. vm_compute in Hu.
  repeat (destruct Hu as [<-|Hu]; [vm_compute; repeat split; repeat constructor|]). destruct Hu.
Qed.
(** the full positional assignment restores the invariant *)
Definition C11p_fixed : midline := fst (m_set_params C11p_bad (vals C11p_valid ++ C11p_rest) []).
Example C11p_restored : m_wf C11p_fixed = true /\ m_consistent C11p_fixed.
Proof.
  apply (C11_midline_full_assignment_restores_wf C11p_bad C11p_valid C11p_rest);
    [vm_compute; reflexivity | exact C11p_shapes_agree | exact C11p_config_sim | vm_compute; reflexivity
     | vm_compute; discriminate].
Qed.
Example C11p_restored_stmt : m_consistent C11p_fixed.
Proof.
  apply (C11_midline_full_assignment_restores C11p_bad C11p_valid C11p_rest);
    [vm_compute; reflexivity | exact C11p_shapes_agree | exact C11p_config_sim | vm_compute; reflexivity
     | vm_compute; discriminate].
Qed.
(** ext.contra is the recomputed mixture 1/4 * ipsi + 3/4 * noext.contra = (1/40 + 9/40, 2/40 + 12/40);
    the three ipsilateral leaves and central.contra have the ipsilateral tumour spread; the LNL spread
    is shared per side; every one of the eight leaves has late_p = 3/4, mid_a = 5/2; the comparison
    inside get_lnl_spread_params succeeds again *)
Example C11p_values :
  items_out (u_T (ext_c C11p_fixed)) = [(1, 4); (7, 20)]%Z
  /\ map (fun u => items_out (u_T u)) (ipsi_leaves C11p_fixed ++ opt_leaves (ml_central C11p_fixed) b_contra)
     = repeat [(1, 10); (1, 5)]%Z 4
  /\ map (fun u => items_out (u_L u)) (ipsi_leaves C11p_fixed)
     = repeat [(1, 10); (1, 5); (3, 10); (2, 5); (1, 2); (3, 5); (7, 10)]%Z 3
  /\ map (fun u => items_out (u_L u)) (contra_leaves C11p_fixed)
     = repeat [(1, 5); (3, 10); (2, 5); (1, 2); (3, 5); (7, 10); (4, 5)]%Z 3
  /\ map out_dists (all_leaves C11p_fixed) = repeat [("late", [("p", (3, 4)%Z)]); ("mid", [("a", (5, 2)%Z); ("b", (1, 1)%Z)])] 8
  /\ option_map qout (ml_mixing C11p_fixed) = Some (1, 4)%Z /\ qout (ml_midext C11p_fixed) = (1, 8)%Z
  /\ m_lnl_synced C11p_fixed = true.
Proof. repeat split; vm_compute; reflexivity. Qed.
(** every reported parameter is held by the leaves the sharing declares (all four settings) *)
Example C11p_reported :
  exists L, m_got C11p_fixed = Some L /\ map fst L = m_names C11p_bad /\ forall k q, In (k, q) L -> m_reported_ok C11p_fixed k q.
Proof.
  apply (C11_midline_full_assignment_restores_pos_sim C11p_bad C11p_valid C11p_rest);
    [vm_compute; reflexivity | exact C11p_config_sim | vm_compute; reflexivity | vm_compute; discriminate].
Qed.

(** * The same with SYMMETRIC LNL spread (positional order = reported order, 16 parameters):
    get_params reports exactly the assigned vector *)
Definition C11ps_mid : midline := new_midline C11p_uni true true false true true.
Definition C11ps_bad0 : midline := m_after C11ps_mid C11p_history.
Definition C11ps_bad : midline :=
  ml_with_noext C11ps_bad0
    (b_with_ipsi (ml_noext C11ps_bad0) (fst (u_set_lnl_spread_params (noext_i C11ps_bad0) [V (qc 3 10); V (qc 7 10)] []))).
Definition C11ps_valid : list Qc :=
  [qc 1 10; qc 2 10; qc 3 10; qc 4 10; qc 1 4; qc 1 10; qc 2 10; qc 3 10; qc 4 10; qc 5 10; qc 6 10; qc 7 10;
   qc 3 4; qc 5 2; qc 1 1; qc 1 8].
Example C11ps_out_of_sync : m_lnl_synced C11ps_bad = false /\ ~ m_consistent C11ps_bad.
Proof.
  split; [vm_compute; reflexivity|].
  intros [(_ & _ & _ & HL & _) _]. specialize (HL (noext_i C11ps_bad)).
  assert (E : items_out (u_L (noext_i C11ps_bad)) = items_out (u_L (ext_i C11ps_bad))).
  { rewrite HL; [reflexivity|]. right. left. reflexivity. }
  vm_compute in E. discriminate E.
Qed.
Example C11ps_config_sim : m_config_sim C11ps_bad.
Proof.
  intros u Hu. vm_compute in Hu.
  repeat (destruct Hu as [<-|Hu]; [vm_compute; repeat split; repeat constructor|]). destruct Hu.
Qed.
Definition C11ps_fixed : midline := fst (m_set_params C11ps_bad (vals C11ps_valid ++ C11p_rest) []).
Example C11ps_restored :
  m_consistent C11ps_fixed /\ param_items (MMid C11ps_fixed) = Some (combine (m_names C11ps_bad) C11ps_valid).
Proof.
  destruct (C11_midline_full_assignment_restores_pos_sim C11ps_bad C11ps_valid C11p_rest) as (_ & _ & Hc & _ & Hp);
    [vm_compute; reflexivity | exact C11ps_config_sim | vm_compute; reflexivity | vm_compute; discriminate |].
  split; [exact Hc | apply Hp; reflexivity].
Qed.
Example C11ps_values :
  option_map out_items (param_items (MMid C11ps_fixed))
  = Some [(["ipsi"; "TtoII"; "spread"], (1, 10)); (["ipsi"; "TtoIII"; "spread"], (1, 5));
          (["contra"; "TtoII"; "spread"], (3, 10)); (["contra"; "TtoIII"; "spread"], (2, 5)); (["mixing"], (1, 4));
          (["II"; "growth"], (1, 10)); (["IItoIII"; "spread"], (1, 5)); (["IItoIII"; "micro"], (3, 10));
          (["III"; "growth"], (2, 5)); (["I"; "growth"], (1, 2)); (["ItoII"; "spread"], (3, 5)); (["ItoII"; "micro"], (7, 10));
          (["late"; "p"], (3, 4)); (["mid"; "a"], (5, 2)); (["mid"; "b"], (1, 1)); (["midext"; "prob"], (1, 8))]%Z
  /\ items_out (u_T (ext_c C11ps_fixed)) = [(1, 4); (7, 20)]%Z.
Proof. split; vm_compute; reflexivity. Qed.
