(** C12: likelihood(given_params) scores exactly those values; rejected ones do no harm.
    Model: theories/Safe.v (on top of theories/Params.v); proofs: theories/SafeProofs.v
    (Unilateral, Bilateral, HPVUnilateral, configuration preservation, distributions) and
    theories/SafeMidline.v (Midline).  The two C10 facts about Midline.get_params the Midline
    theorems rest on are closed with theories/ParamsMidlineSafe.v. *)
From LymphModel Require Import Base States Linalg Graph Transition Observation Dist Unilateral Models Params
  ParamsStatements ParamsLemmas ParamsProofs ParamsBilateral ParamsMidline Safe ParamsMidlineSafe SafeProofs SafeMidline.

(** * given_params_scored *)
Theorem C12_uni_given_params_scored : C12_uni_given_params_scored_stmt.
Proof. exact uni_given_params_scored. Qed.
Print Assumptions C12_uni_given_params_scored.

Theorem C12_bi_given_params_scored : C12_bi_given_params_scored_stmt.
Proof. exact bi_given_params_scored. Qed.
Print Assumptions C12_bi_given_params_scored.

Theorem C12_mid_given_params_scored : C12_mid_given_params_scored_stmt.
Proof. exact (mid_given_params_scored safe_mid_names_nodup safe_mid_set_get_keyword). Qed.
Print Assumptions C12_mid_given_params_scored.

Theorem C12_uni_named_subset_scored : C12_uni_named_subset_scored_stmt.
Proof. exact uni_named_subset_scored. Qed.
Print Assumptions C12_uni_named_subset_scored.

Theorem C12_bi_named_subset_scored : C12_bi_named_subset_scored_stmt.
Proof. exact bi_named_subset_scored. Qed.
Print Assumptions C12_bi_named_subset_scored.

(** * invalid_gives_minus_inf *)
Theorem C12_uni_invalid_gives_minus_inf : C12_uni_invalid_gives_minus_inf_stmt.
Proof. exact uni_invalid_gives_minus_inf. Qed.
Print Assumptions C12_uni_invalid_gives_minus_inf.

Theorem C12_uni_invalid_position : C12_uni_invalid_position_stmt.
Proof. exact uni_invalid_position. Qed.
Print Assumptions C12_uni_invalid_position.

Theorem C12_bi_invalid_gives_minus_inf : C12_bi_invalid_gives_minus_inf_stmt.
Proof. exact bi_invalid_gives_minus_inf. Qed.
Print Assumptions C12_bi_invalid_gives_minus_inf.

Theorem C12_bi_invalid_position : C12_bi_invalid_position_stmt.
Proof. exact bi_invalid_position. Qed.
Print Assumptions C12_bi_invalid_position.

Theorem C12_mid_invalid_gives_minus_inf : C12_mid_invalid_gives_minus_inf_stmt.
Proof. exact (mid_invalid_gives_minus_inf safe_mid_names_nodup). Qed.
Print Assumptions C12_mid_invalid_gives_minus_inf.

Theorem C12_mid_invalid_position : C12_mid_invalid_position_stmt.
Proof. exact mid_invalid_position. Qed.
Print Assumptions C12_mid_invalid_position.

(** * rejected_then_valid *)
Theorem C12_config_preserved : C12_config_preserved_stmt.
Proof. exact config_preserved. Qed.
Print Assumptions C12_config_preserved.

Theorem C12_uni_full_assignment_absorbing : C12_uni_full_assignment_absorbing_stmt.
Proof. exact uni_full_assignment_absorbing. Qed.
Print Assumptions C12_uni_full_assignment_absorbing.

Theorem C12_bi_full_assignment_absorbing : C12_bi_full_assignment_absorbing_stmt.
Proof. exact bi_full_assignment_absorbing. Qed.
Print Assumptions C12_bi_full_assignment_absorbing.

Theorem C12_mid_full_assignment_absorbing : C12_mid_full_assignment_absorbing_stmt.
Proof. exact (mid_full_assignment_absorbing safe_mid_names_nodup). Qed.
Print Assumptions C12_mid_full_assignment_absorbing.

Theorem C12_uni_rejected_then_valid : C12_uni_rejected_then_valid_stmt.
Proof. exact uni_rejected_then_valid. Qed.
Print Assumptions C12_uni_rejected_then_valid.

Theorem C12_bi_rejected_then_valid : C12_bi_rejected_then_valid_stmt.
Proof. exact bi_rejected_then_valid. Qed.
Print Assumptions C12_bi_rejected_then_valid.

Theorem C12_mid_rejected_then_valid : C12_mid_rejected_then_valid_stmt.
Proof. exact (mid_rejected_then_valid safe_mid_names_nodup). Qed.
Print Assumptions C12_mid_rejected_then_valid.

(** * failed_dist_update_restores *)
Theorem C12_failed_dist_update_restores : C12_failed_dist_update_restores_stmt.
Proof. exact failed_dist_update_restores. Qed.
Print Assumptions C12_failed_dist_update_restores.

Theorem C12_leaf_dists_stay_valid : C12_leaf_dists_stay_valid_stmt.
Proof. exact leaf_dists_stay_valid. Qed.
Print Assumptions C12_leaf_dists_stay_valid.

(** * HPVUnilateral: known finding D8 (the code does this; see known_findings.json) *)
Theorem C12_hpv_not_at_v_refuted : C12_hpv_not_at_v_refuted_stmt.
Proof. exact hpv_not_at_v_refuted. Qed.
Print Assumptions C12_hpv_not_at_v_refuted.

Theorem C12_hpv_invalid_not_rejected_refuted : C12_hpv_invalid_not_rejected_refuted_stmt.
Proof. exact hpv_invalid_not_rejected_refuted. Qed.
Print Assumptions C12_hpv_invalid_not_rejected_refuted.

(** * Non-vacuity: a trinary Midline model (use_mixing, use_midext_evo, marginalize_unknown, LNL
    spread asymmetric) over three LNLs listed II, III, I with an arc against the listing order,
    a frozen and two parametric distributions; the "likelihood" counts nothing but is a
    function of the whole object *)
Local Open Scope string_scope.
Local Open Scope list_scope.
Definition C12_ex_graph : graph :=
  force_graph (build_graph 3
     [ (("tumor", "T"), CList ["II"; "III"]);
       (("lnl", "II"), CList ["III"]);
       (("lnl", "III"), CList []);
       (("lnl", "I"), CList ["II"]) ]).
Definition C12_ex_uni : uni :=
  new_uni C12_ex_graph [("early", Frozen [qc 1 2; qc 1 4; qc 1 4]); ("late", Param 0 [("p", qc 1 3)]);
                        ("mid", Param 1 [("a", qc 1 2); ("b", qc 1 1)])] 2.
Definition C12_ex_mid : midline := new_midline C12_ex_uni true false true true false.
Definition C12_ex_lik (m : model) : option (list (path * (Z * Z))) := option_map out_items (param_items m).

Example C12_ex_wf : m_names_ok C12_ex_mid = true.
Proof. vm_compute. reflexivity. Qed.
Example C12_ex_dim : length (m_items C12_ex_mid) = 23%nat.
Proof. vm_compute. reflexivity. Qed.
(** 23 parameters: ipsi (2 tumor + 7 LNL), contra (2 + 7), mixing, late_p, mid_a, mid_b, midext_prob *)
Definition C12_ex_valid : list Qc :=
  [qc 1 10; qc 2 10; qc 3 10; qc 4 10; qc 5 10; qc 6 10; qc 7 10; qc 8 10; qc 9 10;
   qc 3 10; qc 4 10; qc 1 10; qc 2 10; qc 3 10; qc 4 10; qc 5 10; qc 6 10; qc 7 10;
   qc 1 4; qc 3 4; qc 5 2; qc 1 1; qc 0 1].
Example C12_ex_accepts : length C12_ex_valid = 23%nat /\ m_accepts C12_ex_mid (vals C12_ex_valid) = true.
Proof. split; vm_compute; reflexivity. Qed.
(** an interleaving as a sampler produces it: the first contralateral LNL value valid and a later
    one out of range (leaves ext / noext out of sync), a NaN, a distribution parameter the linear
    family rejects (b = 0), an unknown key, then the valid proposal *)
Definition C12_ex_bad1 : args := map V (firstn 13 C12_ex_valid) ++ [V (qc 17 16)] ++ map V (skipn 14 C12_ex_valid).
Definition C12_ex_bad2 : args := map V (firstn 3 C12_ex_valid) ++ [Bad] ++ map V (skipn 4 C12_ex_valid).
Definition C12_ex_bad3 : kwargs := [(["mid"; "b"], V 0%Qc); (["ipsi"; "TtoII"; "spread"], V (qc 9 10))].
Definition C12_ex_history : list given :=
  [GList C12_ex_bad1; GList C12_ex_bad2; GDict C12_ex_bad3; GDict [(["nothing"], V 0%Qc)]].
Example C12_ex_rejected :
  map (@out_lres _) (snd (run_given _ C12_ex_lik None (MMid C12_ex_mid) C12_ex_history)) = [1; 1; 1; 2]%nat.
Proof. vm_compute. reflexivity. Qed.
Example C12_ex_out_of_sync :
  match after_given _ C12_ex_lik None (MMid C12_ex_mid) C12_ex_history with
  | MMid ml => m_lnl_synced ml = false
  | _ => False
  end.
Proof. vm_compute. reflexivity. Qed.
Example C12_ex_then_valid :
  snd (likelihood_given _ C12_ex_lik None (after_given _ C12_ex_lik None (MMid C12_ex_mid) C12_ex_history) (GList (vals C12_ex_valid)))
  = snd (likelihood_given _ C12_ex_lik None (MMid C12_ex_mid) (GList (vals C12_ex_valid)))
  /\ option_map (map qout) (param_values (fst (likelihood_given _ C12_ex_lik None
        (after_given _ C12_ex_lik None (MMid C12_ex_mid) C12_ex_history) (GList (vals C12_ex_valid)))))
     = Some (map qout C12_ex_valid).
Proof. split; vm_compute; reflexivity. Qed.
(** the recomputed mixture ext.contra = mixing * ipsi + (1 - mixing) * noext.contra = 1/4 * 1/10 + 3/4 * 3/10 *)
Example C12_ex_mixture :
  match fst (likelihood_given _ C12_ex_lik None (after_given _ C12_ex_lik None (MMid C12_ex_mid) C12_ex_history) (GList (vals C12_ex_valid))) with
  | MMid ml => option_map qout (kw_get ["TtoII"; "spread"] (u_got (b_contra (ml_ext ml)))) = Some (1, 4)%Z
  | _ => False
  end.
Proof. vm_compute. reflexivity. Qed.
