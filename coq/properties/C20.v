(** C20: equality and hashes of modalities, distributions, graphs and the models'
    collections track their content.  Statements live in theories/Hash.v (the KEY each
    [__hash__] hands to Python's [hash], and each [__eq__]), proofs in
    theories/HashProofs.v.  Python's [hash] function and its collisions are outside
    the model. *)
From LymphModel Require Import Base States Linalg Graph Transition Observation Dist Hash HashProofs.
Local Open Scope nat_scope.
Open Scope Qc_scope.

(** hashing is defined for every object that exists *)
Theorem C20_frozen_key_defined : C20_frozen_key_defined_stmt.
Proof. exact frozen_key_defined. Qed.
Print Assumptions C20_frozen_key_defined.

Theorem C20_param_key_defined : C20_param_key_defined_stmt.
Proof. exact param_key_defined. Qed.
Print Assumptions C20_param_key_defined.

(** equal objects have equal keys *)
Theorem C20_mod_eq_iff_key_eq : C20_mod_eq_iff_key_eq_stmt.
Proof. exact mod_eq_iff_key_eq. Qed.
Print Assumptions C20_mod_eq_iff_key_eq.

Theorem C20_mod_mixed_arity : C20_mod_mixed_arity_stmt.
Proof. exact mod_mixed_arity. Qed.
Print Assumptions C20_mod_mixed_arity.

Theorem C20_dist_eq_implies_key_eq : C20_dist_eq_implies_key_eq_stmt.
Proof. exact dist_eq_implies_key_eq. Qed.
Print Assumptions C20_dist_eq_implies_key_eq.

Theorem C20_dist_key_eq_implies_eq : C20_dist_key_eq_implies_eq_stmt.
Proof. exact dist_key_eq_implies_eq. Qed.
Print Assumptions C20_dist_key_eq_implies_eq.

Theorem C20_dist_eq_permuted_keywords : C20_dist_eq_permuted_keywords_stmt.
Proof. exact dist_eq_permuted_keywords. Qed.
Print Assumptions C20_dist_eq_permuted_keywords.

(** equal keys iff same computation *)
Theorem C20_mod_key_iff_same_observation : C20_mod_key_iff_same_observation_stmt.
Proof. exact mod_key_iff_same_observation. Qed.
Print Assumptions C20_mod_key_iff_same_observation.

Theorem C20_mod_keys_same_observation : C20_mod_keys_same_observation_stmt.
Proof. exact mod_keys_same_observation. Qed.
Print Assumptions C20_mod_keys_same_observation.

Theorem C20_dist_key_eq_same_pmf : C20_dist_key_eq_same_pmf_stmt.
Proof. exact dist_key_eq_same_pmf. Qed.
Print Assumptions C20_dist_key_eq_same_pmf.

Theorem C20_graph_key_iff_tensors : C20_graph_key_iff_tensors_stmt.
Proof. exact graph_key_iff_tensors. Qed.
Print Assumptions C20_graph_key_iff_tensors.

Theorem C20_graph_key_same_transition : C20_graph_key_same_transition_stmt.
Proof. exact graph_key_same_transition. Qed.
Print Assumptions C20_graph_key_same_transition.

Theorem C20_set_edges_same_skeleton : C20_set_edges_same_skeleton_stmt.
Proof. exact set_edges_same_skeleton. Qed.
Print Assumptions C20_set_edges_same_skeleton.

(** which edits change the key *)
Theorem C20_mod_key_characterisation : C20_mod_key_characterisation_stmt.
Proof. exact mod_key_characterisation. Qed.
Print Assumptions C20_mod_key_characterisation.

Theorem C20_spec_edit_changes_key : C20_spec_edit_changes_key_stmt.
Proof. exact spec_edit_changes_key. Qed.
Print Assumptions C20_spec_edit_changes_key.

Theorem C20_sens_edit_changes_key : C20_sens_edit_changes_key_stmt.
Proof. exact sens_edit_changes_key. Qed.
Print Assumptions C20_sens_edit_changes_key.

Theorem C20_kind_switch_trinary : C20_kind_switch_trinary_stmt.
Proof. exact kind_switch_trinary. Qed.
Print Assumptions C20_kind_switch_trinary.

Theorem C20_kind_switch_trinary_computation : C20_kind_switch_trinary_computation_stmt.
Proof. exact kind_switch_trinary_computation. Qed.
Print Assumptions C20_kind_switch_trinary_computation.

Theorem C20_kind_irrelevant_binary : C20_kind_irrelevant_binary_stmt.
Proof. exact kind_irrelevant_binary. Qed.
Print Assumptions C20_kind_irrelevant_binary.

Theorem C20_keyword_edit_changes_key : C20_keyword_edit_changes_key_stmt.
Proof. exact keyword_edit_changes_key. Qed.
Print Assumptions C20_keyword_edit_changes_key.

Theorem C20_frozen_vs_param_key_differs : C20_frozen_vs_param_key_differs_stmt.
Proof. exact frozen_vs_param_key_differs. Qed.
Print Assumptions C20_frozen_vs_param_key_differs.

Theorem C20_frozen_key_iff_normalised_weights : C20_frozen_key_iff_normalised_weights_stmt.
Proof. exact frozen_key_iff_normalised_weights. Qed.
Print Assumptions C20_frozen_key_iff_normalised_weights.

Theorem C20_normalize_eq_iff_proportional : C20_normalize_eq_iff_proportional_stmt.
Proof. exact normalize_eq_iff_proportional. Qed.
Print Assumptions C20_normalize_eq_iff_proportional.

Theorem C20_edge_key_characterisation : C20_edge_key_characterisation_stmt.
Proof. exact edge_key_characterisation. Qed.
Print Assumptions C20_edge_key_characterisation.

Theorem C20_spread_edit_changes_edge_key : C20_spread_edit_changes_edge_key_stmt.
Proof. exact spread_edit_changes_edge_key. Qed.
Print Assumptions C20_spread_edit_changes_edge_key.

Theorem C20_micro_edit : C20_micro_edit_stmt.
Proof. exact micro_edit. Qed.
Print Assumptions C20_micro_edit.

Theorem C20_edge_rename_changes_key : C20_edge_rename_changes_key_stmt.
Proof. exact edge_rename_changes_key. Qed.
Print Assumptions C20_edge_rename_changes_key.

Theorem C20_set_edges_key : C20_set_edges_key_stmt.
Proof. exact set_edges_key. Qed.
Print Assumptions C20_set_edges_key.

Theorem C20_node_key : C20_node_key_stmt.
Proof. exact node_key_inj. Qed.
Print Assumptions C20_node_key.

Theorem C20_leaf_key_iff : C20_leaf_key_iff_stmt.
Proof. exact leaf_key_iff. Qed.
Print Assumptions C20_leaf_key_iff.

Theorem C20_add_entry_changes_key : C20_add_entry_changes_key_stmt.
Proof. exact add_entry_changes_key. Qed.
Print Assumptions C20_add_entry_changes_key.

Theorem C20_del_entry_changes_key : C20_del_entry_changes_key_stmt.
Proof. exact del_entry_changes_key. Qed.
Print Assumptions C20_del_entry_changes_key.

Theorem C20_rename_entry_changes_key : C20_rename_entry_changes_key_stmt.
Proof. exact rename_entry_changes_key. Qed.
Print Assumptions C20_rename_entry_changes_key.

Theorem C20_replace_entry : C20_replace_entry_stmt.
Proof. exact replace_entry. Qed.
Print Assumptions C20_replace_entry.

Theorem C20_composite_edit : C20_composite_edit_stmt.
Proof. exact composite_edit. Qed.
Print Assumptions C20_composite_edit.

(** * Non-vacuity *)
Local Open Scope string_scope.

(** a trinary clinical modality with sp = 3/4 = 1 - sn (sn = 1/4): switching the kind
    leaves the key unchanged; with sn = 1/2 it changes the key, and changing sens
    changes it too *)
Definition C20_ex_m1 : modality := mk_mod (qc 3 4) (qc 1 4) false.
Definition C20_ex_m2 : modality := mk_mod (qc 3 4) (qc 1 2) false.
Example C20_ex_mod_key : qoutm (mod_key 3 C20_ex_m2) = [[(3, 4); (1, 4)]; [(3, 4); (1, 4)]; [(1, 2); (1, 2)]]%Z.
Proof. vm_compute. reflexivity. Qed.
Example C20_ex_kind_switch_same :
  mod_key 3 (mk_mod (qc 3 4) (qc 1 4) true) = mod_key 3 C20_ex_m1
  /\ mod_eq 3 (mk_mod (qc 3 4) (qc 1 4) true) C20_ex_m1 = true.
Proof. split; [apply C20_kind_switch_trinary; apply Qc_eq_this; vm_compute; reflexivity | vm_compute; reflexivity]. Qed.
Example C20_ex_kind_switch_differs :
  mod_key 3 (mk_mod (qc 3 4) (qc 1 2) true) <> mod_key 3 C20_ex_m2
  /\ mod_eq 3 (mk_mod (qc 3 4) (qc 1 2) true) C20_ex_m2 = false.
Proof.
  split; [|vm_compute; reflexivity]. intros H. apply C20_kind_switch_trinary in H.
  apply (f_equal qout) in H. vm_compute in H. discriminate.
Qed.
Example C20_ex_sens_edit : mod_key 3 C20_ex_m1 <> mod_key 3 C20_ex_m2.
Proof. apply C20_sens_edit_changes_key. intros H. apply (f_equal qout) in H. vm_compute in H. discriminate. Qed.
(** the one-LNL observation matrix of a modality is its key (hypothesis base23 3 = true) *)
Example C20_ex_observation : base23 3 = true /\ qoutm (generate_observation [C20_ex_m2] 1 3) = qoutm (mod_key 3 C20_ex_m2).
Proof. split; vm_compute; reflexivity. Qed.

(** distributions at max_time 2: proportional frozen weights have one key, the binomial
    family with p = 1/4 has key (true, [p = 1/4], [9/16, 6/16, 1/16]), and a parametric
    distribution never has the key of a frozen one *)
Example C20_ex_frozen :
  mk_frozen 2 [1; qc 2 1; 1] = Some (Frozen (normalize [1; qc 2 1; 1]))
  /\ dist_key_out 2 (Frozen (normalize [1; qc 2 1; 1])) = Some (false, [], [(1, 4); (1, 2); (1, 4)])%Z
  /\ dist_key 2 (Frozen (normalize [1; qc 2 1; 1])) = dist_key 2 (Frozen (normalize [qc 3 1; qc 6 1; qc 3 1]))
  /\ dist_eq 2 (Frozen (normalize [1; qc 2 1; 1])) (Frozen (normalize [qc 3 1; qc 6 1; qc 3 1])) = Some true
  /\ dist_eq 2 (Frozen (normalize [1; qc 2 1; 1])) (Frozen (normalize [1; qc 2 1; qc 2 1])) = Some false.
Proof.
  repeat split; try (vm_compute; reflexivity).
  apply (C20_frozen_key_iff_normalised_weights 2 [1; qc 2 1; 1] [qc 3 1; qc 6 1; qc 3 1]); try reflexivity.
  apply C20_normalize_eq_iff_proportional; try (intros H; apply (f_equal qout) in H; vm_compute in H; discriminate).
  vm_compute. reflexivity.
Qed.
Example C20_ex_param :
  dist_key_out 2 (Param 0 [("p", qc 1 4)]) = Some (true, [("p", (1, 4))], [(9, 16); (3, 8); (1, 16)])%Z
  /\ kw_nodup (Param 0 [("p", qc 1 4)]) = true
  /\ dist_eq 2 (Param 0 [("p", qc 1 4)]) (Param 0 [("p", qc 1 4)]) = Some true
  /\ dist_eq 2 (Param 0 [("p", qc 1 4)]) (Param 0 [("p", qc 1 2)]) = Some false
  /\ dist_eq 2 (Param 0 [("p", qc 1 2)]) (Frozen (normalize [1; qc 2 1; 1])) = Some false
  /\ option_map qouts (pmf 2 (Param 0 [("p", qc 1 2)])) = option_map qouts (pmf 2 (Frozen (normalize [1; qc 2 1; 1]))).
Proof. repeat split; vm_compute; reflexivity. Qed.

(** a trinary graph, listed II, III, I with the arc I -> II against the listing order *)
Definition C20_ex_graph0 : graph :=
  force_graph (build_graph 3
     [ (("tumor", "T"), CList ["II"; "III"]);
       (("lnl", "II"), CList ["III"]);
       (("lnl", "III"), CList []);
       (("lnl", "I"), CList ["II"]) ]).
Definition C20_ex_params : list (string * (Qc * Qc)) :=
  [ ("TtoII", (qc 1 5, 1%Qc)); ("TtoIII", (qc 1 10, 1%Qc));
    ("IItoIII", (qc 3 10, qc 1 2)); ("ItoII", (0%Qc, qc 1 4));
    ("II", (qc 1 2, 1%Qc)); ("III", (qc 1 3, 1%Qc)); ("I", (qc 1 4, 1%Qc)) ].
Definition C20_ex_graph : graph := set_edges C20_ex_graph0 C20_ex_params.
Example C20_ex_graph_names :
  map fst (graph_key C20_ex_graph) = ["TtoII"; "TtoIII"; "II"; "IItoIII"; "III"; "I"; "ItoII"].
Proof. vm_compute. reflexivity. Qed.
(** the key of the arc II -> III: name and the 3x3x3 tensor with 1 - 3/20, 3/20 and 7/10, 3/10 *)
Example C20_ex_edge_key :
  nth 3 (graph_key_out C20_ex_graph) ("", []) =
  ("IItoIII", [ [[(1, 1); (0, 1); (0, 1)]; [(0, 1); (1, 1); (0, 1)]; [(0, 1); (0, 1); (1, 1)]];
                [[(17, 20); (3, 20); (0, 1)]; [(0, 1); (1, 1); (0, 1)]; [(0, 1); (0, 1); (1, 1)]];
                [[(7, 10); (3, 10); (0, 1)]; [(0, 1); (1, 1); (0, 1)]; [(0, 1); (0, 1); (1, 1)]] ])%Z.
Proof. vm_compute. reflexivity. Qed.
(** changing micro of I -> II (spread 0) changes neither key nor transition matrix;
    changing micro of II -> III (spread 3/10) changes the key *)
Definition C20_ex_graph_micro0 : graph := set_edges C20_ex_graph [("ItoII", (0%Qc, qc 3 4))].
Definition C20_ex_graph_micro1 : graph := set_edges C20_ex_graph [("IItoIII", (qc 3 10, qc 3 4))].
Example C20_ex_micro_spread0 :
  same_skeleton C20_ex_graph C20_ex_graph_micro0
  /\ graph_key C20_ex_graph_micro0 = graph_key C20_ex_graph
  /\ generate_transition C20_ex_graph = generate_transition C20_ex_graph_micro0.
Proof.
  assert (Hs : same_skeleton C20_ex_graph C20_ex_graph_micro0) by apply C20_set_edges_same_skeleton.
  assert (Hk : graph_key C20_ex_graph_micro0 = graph_key C20_ex_graph) by (vm_compute; reflexivity).
  split; [exact Hs|]. split; [exact Hk|].
  apply C20_graph_key_same_transition; [exact Hs|symmetry; exact Hk].
Qed.
Example C20_ex_micro_spread_pos : graph_key_out C20_ex_graph_micro1 <> graph_key_out C20_ex_graph.
Proof. vm_compute. intros H. discriminate. Qed.

(** collections: a bilateral model with two modalities; deleting "CT" or renaming it
    changes the key, re-setting it with the same values does not *)
Definition C20_ex_items : list (string * modality) := [("CT", C20_ex_m2); ("path", mk_mod 1 (qc 7 8) true)].
Definition C20_ex_tree : ctree modality := bi_tree C20_ex_items.
Example C20_ex_coll_key :
  coll_key (mod_key_out 3) (uni_tree C20_ex_items)
  = KLeaf [("CT", [[(3, 4); (1, 4)]; [(3, 4); (1, 4)]; [(1, 2); (1, 2)]]);
           ("path", [[(1, 1); (0, 1)]; [(1, 8); (7, 8)]; [(1, 8); (7, 8)]])]%Z.
Proof. vm_compute. reflexivity. Qed.
Example C20_ex_coll_edits :
  coll_key (mod_key_out 3) (apply_cop C20_ex_tree (OpSet "CT" C20_ex_m2)) = coll_key (mod_key_out 3) C20_ex_tree
  /\ coll_key (mod_key_out 3) (apply_cop C20_ex_tree (OpSet "CT" C20_ex_m1)) <> coll_key (mod_key_out 3) C20_ex_tree
  /\ coll_key (mod_key_out 3) (apply_cop C20_ex_tree (OpDel "CT")) <> coll_key (mod_key_out 3) C20_ex_tree
  /\ coll_key (mod_key_out 3) (apply_cops C20_ex_tree [OpDel "CT"; OpSet "MRI" C20_ex_m2]) <> coll_key (mod_key_out 3) C20_ex_tree.
Proof. repeat split; vm_compute; try reflexivity; intros H; discriminate. Qed.
Example C20_ex_leaves : leaves C20_ex_tree = [C20_ex_items; C20_ex_items].
Proof. reflexivity. Qed.
