From LymphModel Require Import Base States Linalg Graph Transition Observation Dist Unilateral UniStatements.
From LymphModel Require Import Models Bilateral Midline BiStatements.
From LymphModel Require Import TransitionProofs ObservationProofs PriorProofs LikelihoodProofs PosteriorProofs BilateralProofs.
Local Open Scope nat_scope.
Open Scope Qc_scope.

Theorem C03_joint_spec : C03_joint_spec_stmt.
Proof. exact bi_joint_spec_correct. Qed.
Print Assumptions C03_joint_spec.

Theorem C03_joint_sums_to_one : C03_joint_sums_to_one_stmt.
Proof. exact bi_joint_sums_to_one. Qed.
Print Assumptions C03_joint_sums_to_one.

Theorem C03_patient_likelihoods : C03_patient_likelihoods_stmt.
Proof. exact bi_patient_likelihoods. Qed.
Print Assumptions C03_patient_likelihoods.

Theorem C03_contra_unknown_reduces : C03_contra_unknown_reduces_stmt.
Proof. exact contra_unknown_reduces. Qed.
Print Assumptions C03_contra_unknown_reduces.

Theorem C03_single_time_factorises : C03_single_time_factorises_stmt.
Proof. exact single_time_factorises. Qed.
Print Assumptions C03_single_time_factorises.

Theorem C03_bn_is_outer_product : C03_bn_is_outer_product_stmt.
Proof. exact bn_is_outer_product. Qed.
Print Assumptions C03_bn_is_outer_product.

Theorem C03_obs_dist_spec : C03_obs_dist_spec_stmt.
Proof. exact bi_obs_dist_spec. Qed.
Print Assumptions C03_obs_dist_spec.

(** Non-vacuity: a bilateral model of two trinary graphs T -> II, T -> III, III -> II (the
    LNL arc runs against the listing order II, III; growth arcs) with different tumor
    spread per side, two modalities (clinical + pathological), the binomial "late" time
    prior, max_time = 2; three patients, one of them with nothing recorded contralaterally. *)
Example C03_ex_hypotheses :
  wf_bilateral C03_ex_bi = true /\ forallb wf_bpatient C03_ex_data = true /\
  get_pmf (b_ipsi C03_ex_bi) "late" = inr C03_ex_pm /\
  length C03_ex_pm = S (u_maxt (b_ipsi C03_ex_bi)) /\
  map e_name (g_edges C03_ex_contra_graph) = ["TtoII"; "TtoIII"; "II"; "III"; "IIItoII"]%string /\
  bi_state_dist C03_ex_bi "late" true = inr C03_ex_joint.
Proof. vm_compute. repeat split; reflexivity. Qed.
Example C03_ex_pm_sum : sumQ C03_ex_pm = 1.
Proof. apply Qc_is_canon. vm_compute. reflexivity. Qed.

(** joint prior of (ipsi: II microscopic, III macroscopic; contra: II healthy, III microscopic),
    from the spec and from the matrix product; the joint sums to one *)
Example C03_ex_joint_value :
  bi_joint_spec C03_ex_bi C03_ex_pm [1; 2]%nat [0; 1]%nat = qc 7221 16000000 /\
  mget C03_ex_joint 5 1 = qc 7221 16000000 /\
  msum C03_ex_joint = 1.
Proof. repeat split; apply Qc_is_canon; vm_compute; reflexivity. Qed.

(** per-patient likelihoods of the "late" patients (table order), from the code path and
    from the spec; the patient without contralateral findings scores the ipsilateral
    unilateral likelihood *)
Example C03_ex_likelihoods :
  match bi_llhs_of_joint C03_ex_bi C03_ex_data (Some "late"%string) C03_ex_joint with
  | inr v => qouts v
  | inl _ => []
  end = [(91920217, 3600000000); (1429, 1800)]%Z /\
  bi_patient_lik_spec C03_ex_bi (bi_joint_spec C03_ex_bi C03_ex_pm) C03_ex_p1 = qc 91920217 3600000000 /\
  bi_patient_lik_spec C03_ex_bi (bi_joint_spec C03_ex_bi C03_ex_pm) C03_ex_p2 = qc 1429 1800 /\
  patient_lik_spec (b_ipsi C03_ex_bi) C03_ex_pm (ipsi_patient C03_ex_p2) = qc 1429 1800.
Proof. split; [vm_compute; reflexivity|]. repeat split; apply Qc_is_canon; vm_compute; reflexivity. Qed.

(** all mass on t = 1: the joint is the product of the two one-step evolutions *)
Example C03_ex_single_time :
  bi_joint_spec C03_ex_bi [0; 1; 0] [1; 0]%nat [0; 1]%nat = qc 27 1600 /\
  evo_spec (u_graph (b_ipsi C03_ex_bi)) 1 [1; 0]%nat = qc 3 8 /\
  evo_spec (u_graph (b_contra C03_ex_bi)) 1 [0; 1]%nat = qc 9 200.
Proof. repeat split; apply Qc_is_canon; vm_compute; reflexivity. Qed.

(** joint observation distribution: P(ipsi obs no. 5, contra obs no. 3) under the "late" prior *)
Example C03_ex_obs :
  nth 5 (u_obs_list (b_ipsi C03_ex_bi)) [] = [0; 1; 0; 1]%nat /\
  nth 3 (u_obs_list (b_contra C03_ex_bi)) [] = [0; 0; 1; 1]%nat /\
  mget (bi_obs_dist_of C03_ex_bi C03_ex_joint) 5 3 = qc 160577301931 600000000000000.
Proof. split; [vm_compute; reflexivity|]. split; [vm_compute; reflexivity|]. apply Qc_is_canon; vm_compute; reflexivity. Qed.

(** Bayesian network (binary): the joint is the outer product of the two marginals,
    P(ipsi: II healthy, III involved; contra: II, III involved) = 1/12 * 1/6 *)
Example C03_ex_bn :
  wf_bilateral C03_ex_bin_bi = true /\
  match state_dist_bn (u_graph (b_ipsi C03_ex_bin_bi)) with inr sd => qouts sd | inl _ => [] end
    = [(3, 8); (1, 12); (3, 8); (1, 6)]%Z /\
  match bi_state_dist C03_ex_bin_bi "" false with inr J => qout (mget J 1 3) | inl _ => (0, 1)%Z end = (1, 72)%Z.
Proof. vm_compute. repeat split; reflexivity. Qed.
