From LymphModel Require Import Base States Linalg Graph Transition Observation Dist Unilateral UniStatements Models Bilateral Midline BiStatements.
From LymphModel Require Import TransitionProofs PriorProofs MidlineProofs.
Local Open Scope nat_scope.
Open Scope Qc_scope.

Theorem C04_contra_evo_is_chain : C04_contra_evo_is_chain_stmt.
Proof. exact contra_evo_is_chain. Qed.
Print Assumptions C04_contra_evo_is_chain.

Theorem C04_midext_marginal : C04_midext_marginal_stmt.
Proof. exact midext_marginal. Qed.
Print Assumptions C04_midext_marginal.

Theorem C04_static_marginal : C04_static_marginal_stmt.
Proof. exact static_marginal. Qed.
Print Assumptions C04_static_marginal.

Theorem C04_state_dist_spec : C04_state_dist_spec_stmt.
Proof. exact ml_state_dist_spec. Qed.
Print Assumptions C04_state_dist_spec.

Theorem C04_prior_sums_to_one : C04_prior_sums_to_one_stmt.
Proof. exact ml_prior_sums_to_one. Qed.
Print Assumptions C04_prior_sums_to_one.

Theorem C04_mixing_formula : C04_mixing_formula_stmt.
Proof. exact mixing_formula. Qed.
Print Assumptions C04_mixing_formula.

Theorem C04_unknown_is_sum_of_slices : C04_unknown_is_sum_of_slices_stmt.
Proof. exact unknown_is_sum_of_slices. Qed.
Print Assumptions C04_unknown_is_sum_of_slices.

Theorem C04_prior_slice_spec : C04_prior_slice_spec_stmt.
Proof. exact prior_slice_spec. Qed.
Print Assumptions C04_prior_slice_spec.

Theorem C04_prior_slice_none : C04_prior_slice_none_stmt.
Proof. exact prior_slice_none. Qed.
Print Assumptions C04_prior_slice_none.

(** Non-vacuity: a midline model over the trinary graph T -> II, T -> III, III -> II (the
    LNL arc runs against the listing order II, III) with growth arcs, two modalities,
    a frozen and a binomial time distribution, max_time = 2, midext_prob = 1/3; the
    contralateral tumour spread of the no-extension model is the mixture (alpha = 1/2) of
    the ipsilateral spread and (1/10, 1/20); both values of use_midext_evo. *)
Example C04_ex_hypotheses :
  wf_midline (C04_ex_ml true) = true /\ wf_midline (C04_ex_ml false) = true /\
  map e_name (g_edges (u_graph (b_contra (ml_noext (C04_ex_ml true)))))
    = ["TtoII"; "TtoIII"; "II"; "III"; "IIItoII"]%string /\
  mixed_spread (qc 1 2) (qc 1 2) (qc 1 10) = qc 3 10.
Proof. split; [vm_compute; reflexivity|]. split; [vm_compute; reflexivity|]. split; [vm_compute; reflexivity|].
  apply Qc_is_canon; vm_compute; reflexivity. Qed.

(** P(extension flag, II microscopic, III macroscopic at t = 2) from the chain and from the recursion *)
Example C04_ex_chain :
  chain_contra (C04_ex_ml true) 2 true [1; 2]%nat = qc 317 10000 /\
  chain_contra (C04_ex_ml true) 2 false [1; 2]%nat = qc 319 22500 /\
  nth 5 (nth 2 (snd (contra_state_dist_evo (C04_ex_ml true))) []) 0 = qc 317 10000 /\
  nth 5 (nth 2 (fst (contra_state_dist_evo (C04_ex_ml true))) []) 0 = qc 319 22500 /\
  sumQ (map (chain_contra (C04_ex_ml true) 2 true) (u_states (b_contra (ml_ext (C04_ex_ml true))))) = qc 5 9.
Proof. repeat split; apply Qc_is_canon; vm_compute; reflexivity. Qed.

(** the static coin (use_midext_evo = False) *)
Example C04_ex_static :
  static_contra (C04_ex_ml false) 2 true [1; 2]%nat = qc 83 3600 /\
  nth 5 (nth 2 (snd (contra_state_dist_evo (C04_ex_ml false))) []) 0 = qc 83 3600.
Proof. split; apply Qc_is_canon; vm_compute; reflexivity. Qed.

(** joint prior slices under the binomial(1/3) time prior: entry (ipsi (0,1), contra (1,2)) and the masses *)
Example C04_ex_joint :
  match get_pmf (b_ipsi (ml_ext (C04_ex_ml true))) "late" with inr pm => qouts pm | inl _ => [] end
    = [(4, 9); (4, 9); (1, 9)]%Z /\
  ml_joint_spec (C04_ex_ml true) [qc 4 9; qc 4 9; qc 1 9] true [0; 1]%nat [1; 2]%nat = qc 317 1152000 /\
  ml_joint_spec (C04_ex_ml true) [qc 4 9; qc 4 9; qc 1 9] false [0; 1]%nat [1; 2]%nat = qc 319 2592000 /\
  match ml_state_dist (C04_ex_ml true) "late" with
  | inr (n, e) => (qout (mget n 1 5), qout (mget e 1 5), qout (msum n), qout (msum e))
  | inl _ => ((0, 0), (0, 0), (0, 0), (0, 0))%Z
  end = ((319, 2592000), (317, 1152000), (64, 81), (17, 81))%Z /\
  match ml_state_dist (C04_ex_ml false) "late" with
  | inr (n, e) => (qout (mget n 1 5), qout (mget e 1 5), qout (msum n), qout (msum e))
  | inl _ => ((0, 0), (0, 0), (0, 0), (0, 0))%Z
  end = ((319, 1728000), (83, 414720), (2, 3), (1, 3))%Z.
Proof.
  split; [vm_compute; reflexivity|]. split; [apply Qc_is_canon; vm_compute; reflexivity|].
  split; [apply Qc_is_canon; vm_compute; reflexivity|]. split; vm_compute; reflexivity.
Qed.
