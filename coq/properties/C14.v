(** C14: progression is irreversible and monotone in time and in every spread
    parameter.  Statements live in theories/Monotone.v, proofs in
    theories/MonotoneProofs.v; this file closes them, prints their assumptions and
    exhibits concrete objects satisfying the hypotheses. *)
From LymphModel Require Import Base States Linalg Graph Transition Observation Dist Unilateral.
From LymphModel Require Import Monotone MonotoneProofs.
Local Open Scope nat_scope.
Open Scope Qc_scope.

Theorem C14_time_monotone : C14_time_monotone_stmt.
Proof. exact time_monotone. Qed.
Print Assumptions C14_time_monotone.

Theorem C14_param_monotone : C14_param_monotone_stmt.
Proof. exact param_monotone. Qed.
Print Assumptions C14_param_monotone.

Theorem C14_single_coordinate : C14_single_coordinate_stmt.
Proof. exact single_coordinate. Qed.
Print Assumptions C14_single_coordinate.

Theorem C14_prior_marg : C14_prior_marg_stmt.
Proof. exact prior_marg_time. Qed.
Print Assumptions C14_prior_marg.

Theorem C14_later_diagnosis_monotone : C14_later_diagnosis_monotone_stmt.
Proof. exact later_diagnosis_monotone. Qed.
Print Assumptions C14_later_diagnosis_monotone.

Theorem C14_unreachable_support : C14_unreachable_support_stmt.
Proof. exact unreachable_support. Qed.
Print Assumptions C14_unreachable_support.

Theorem C14_unreachable_stays_healthy : C14_unreachable_stays_healthy_stmt.
Proof. exact unreachable_stays_healthy. Qed.
Print Assumptions C14_unreachable_stays_healthy.

Theorem C14_unreachable_cert : C14_unreachable_cert_stmt.
Proof. exact unreachable_cert_sound. Qed.
Print Assumptions C14_unreachable_cert.

Theorem C14_marg_fast : C14_marg_fast_stmt.
Proof. exact marg_fast_correct. Qed.
Print Assumptions C14_marg_fast.

(** Non-vacuity: a trinary graph, LNLs listed II, III, IV, with T -> II (1/2),
    T -> III (1/4), T -> IV (spread 0), III -> II (1/3, micro 1/2; against the listing
    order), IV -> III (1/2, micro 1/2) and growth arcs; IV is unreachable.  The
    second graph raises the micro modifier of III -> II to 3/4. *)
Example C14_ex_hypotheses :
  wf_graphb C14_ex_graph = true /\ params_in_unit C14_ex_graph /\ params_in_unit C14_ex_graph' /\
  same_skeleton C14_ex_graph C14_ex_graph' /\
  lnls C14_ex_graph = ["II"; "III"; "IV"]%string /\
  map e_name (g_edges C14_ex_graph)
    = ["TtoII"; "TtoIII"; "TtoIV"; "II"; "III"; "IIItoII"; "IV"; "IVtoIII"]%string.
Proof.
  split; [vm_compute; reflexivity|]. split; [apply params_in_unitb_ok; vm_compute; reflexivity|].
  split; [apply params_in_unitb_ok; vm_compute; reflexivity|].
  split; [apply same_skeleton_set_edges|]. split; vm_compute; reflexivity.
Qed.

(** the hypothesis of the one-coordinate theorem for this pair *)
Example C14_ex_single_hyp :
  forall e, In e (g_edges C14_ex_graph) -> e_name e = "IIItoII"%string ->
    e_spread e <= qc 1 3 /\ e_micro e <= qc 3 4.
Proof.
  intros e He Hn. vm_compute in He.
  repeat (destruct He as [<-|He]; [try discriminate Hn|]); [|destruct He].
  split; vm_compute; discriminate.
Qed.

(** P_2(II involved) = 73/96 < 49/64 after the increase; P_2(II macroscopic) = 1/10;
    P_1(II involved) = 1/2 <= P_2; the executable form agrees *)
Example C14_ex_values :
  marg C14_ex_graph 2 0 1 = qc 73 96 /\ marg C14_ex_graph' 2 0 1 = qc 49 64 /\
  marg C14_ex_graph 2 0 2 = qc 1 10 /\ marg C14_ex_graph 1 0 1 = qc 1 2 /\
  marg_fast C14_ex_graph 2 0 1 = qc 73 96 /\ marg C14_ex_graph 2 1 1 = qc 7 16.
Proof.
  rewrite <- !(proj1 marg_fast_correct). repeat split; apply Qc_is_canon; vm_compute; reflexivity.
Qed.

(** IV is certified unreachable, III is not; P_t(IV involved) = 0 *)
Example C14_ex_unreachable :
  unreachable_cert C14_ex_graph ["IV"]%string = true /\
  unreachable_cert C14_ex_graph ["III"]%string = false /\
  index_of "IV" (lnls C14_ex_graph) = 2 /\ marg C14_ex_graph 2 2 1 = 0.
Proof.
  split; [vm_compute; reflexivity|]. split; [vm_compute; reflexivity|]. split; [vm_compute; reflexivity|].
  rewrite <- (proj1 marg_fast_correct). apply Qc_is_canon; vm_compute; reflexivity.
Qed.

(** two diagnosis-time pmfs over t = 0,1,2; the second is stochastically later *)
Example C14_ex_later :
  st_le [qc 1 2; qc 1 4; qc 1 4] [qc 1 4; qc 1 4; qc 1 2] /\
  prior_marg C14_ex_uni [qc 1 2; qc 1 4; qc 1 4] 0 1 = qc 121 384 /\
  prior_marg C14_ex_uni [qc 1 4; qc 1 4; qc 1 2] 0 1 = qc 97 192.
Proof.
  split.
  - split; [reflexivity|]. split; [apply Qc_is_canon; vm_compute; reflexivity|].
    intros [|[|[|[|k]]]]; vm_compute; discriminate.
  - rewrite !(prior_marg_time C14_ex_uni) by reflexivity.
    rewrite <- !(proj1 (proj2 marg_fast_correct)).
    split; apply Qc_is_canon; vm_compute; reflexivity.
Qed.
