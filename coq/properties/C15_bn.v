(** C15, Bayesian-network mode: the BN state distribution ([state_dist_bn] / [bn_spec]),
    the BN joint of a bilateral model, the BN likelihood and the BN risk do not depend
    on names or on listing order.  Statements and proofs in theories/InvarianceBn.v;
    they reuse the transformations of theories/Invariance.v and the lemmas of
    theories/InvarianceProofs.v (properties/C15.v).  The BN mode is binary only. *)
From Coq Require Import Permutation.
From LymphModel Require Import Base States Linalg Graph Transition Observation Dist Unilateral
  UniStatements Models Bilateral Midline BiStatements TransitionProofs ObservationProofs PriorProofs
  LikelihoodProofs PosteriorProofs BilateralProofs BnProofs Invariance InvarianceProofs InvarianceBn.
Local Open Scope nat_scope.
Open Scope Qc_scope.

(** likelihood / risk for an arbitrary prior; the HMM quantities of C15 are instances *)
Theorem C15_bn_prior_parametric : C15_bn_prior_parametric_stmt.
Proof. exact bn_prior_parametric. Qed.
Print Assumptions C15_bn_prior_parametric.

Theorem C15_bn_transfer_prior : C15_bn_transfer_prior_stmt.
Proof. exact transfer_prior. Qed.
Print Assumptions C15_bn_transfer_prior.

(** Impl = Spec for the BN likelihood and the BN risk *)
Theorem C15_bn_likelihood_impl : C15_bn_likelihood_impl_stmt.
Proof. exact bn_likelihood_impl. Qed.
Print Assumptions C15_bn_likelihood_impl.

Theorem C15_bn_risk_impl : C15_bn_risk_impl_stmt.
Proof. exact bn_risk_impl. Qed.
Print Assumptions C15_bn_risk_impl.

(** 1. arc order *)
Theorem C15_bn_arc_order : C15_bn_arc_order_stmt.
Proof. exact bn_arc_order. Qed.
Print Assumptions C15_bn_arc_order.

Theorem C15_bn_arc_order_model : C15_bn_arc_order_model_stmt.
Proof. exact bn_arc_order_model. Qed.
Print Assumptions C15_bn_arc_order_model.

(** 2. modality order, column order *)
Theorem C15_bn_modality_order : C15_bn_modality_order_stmt.
Proof. exact bn_modality_order. Qed.
Print Assumptions C15_bn_modality_order.

Theorem C15_bn_column_order : C15_bn_column_order_stmt.
Proof. exact bn_column_order. Qed.
Print Assumptions C15_bn_column_order.

(** 3. node order, and nodes + arcs together *)
Theorem C15_bn_node_order : C15_bn_node_order_stmt.
Proof. exact bn_node_order. Qed.
Print Assumptions C15_bn_node_order.

Theorem C15_bn_listing_order : C15_bn_listing_order_stmt.
Proof. exact bn_listing_order. Qed.
Print Assumptions C15_bn_listing_order.

Theorem C15_bn_listing_order_model : C15_bn_listing_order_model_stmt.
Proof. exact bn_listing_order_model. Qed.
Print Assumptions C15_bn_listing_order_model.

(** 4. renaming *)
Theorem C15_bn_renaming : C15_bn_renaming_stmt.
Proof. exact bn_renaming. Qed.
Print Assumptions C15_bn_renaming.

Theorem C15_bn_renaming_model : C15_bn_renaming_model_stmt.
Proof. exact bn_renaming_model. Qed.
Print Assumptions C15_bn_renaming_model.

(** 5. bilateral models: side swap, Impl = Spec, re-listing and renaming of both sides *)
Theorem C15_bn_bilateral_side_swap : C15_bn_bilateral_side_swap_stmt.
Proof. exact bn_bilateral_side_swap. Qed.
Print Assumptions C15_bn_bilateral_side_swap.

Theorem C15_bn_bilateral_likelihood_impl : C15_bn_bilateral_likelihood_impl_stmt.
Proof. exact bn_bilateral_likelihood_impl. Qed.
Print Assumptions C15_bn_bilateral_likelihood_impl.

Theorem C15_bn_bilateral_listing_order : C15_bn_bilateral_listing_order_stmt.
Proof. exact bn_bilateral_listing_order. Qed.
Print Assumptions C15_bn_bilateral_listing_order.

Theorem C15_bn_bilateral_renaming : C15_bn_bilateral_renaming_stmt.
Proof. exact bn_bilateral_renaming. Qed.
Print Assumptions C15_bn_bilateral_renaming.

(** the hypothesis of C07_bn_sum_one does not depend on listing order or names *)
Theorem C15_bn_acyclic_preserved : C15_bn_acyclic_preserved_stmt.
Proof. exact bn_acyclic_preserved. Qed.
Print Assumptions C15_bn_acyclic_preserved.

(** * Non-vacuity.  The binary DAG T -> II, III, IV; II -> III; IV -> II; IV -> III (LNLs
    listed II, III, IV: both arcs out of IV run against the listing order) and the graph
    built from the SAME dictionary with its keys listed III, IV, T, II and the connection
    lists of T and IV reversed. *)
Local Open Scope string_scope.
Example C15bn_ex_listing :
  lnls C15bn_ex_graph = ["II"; "III"; "IV"] /\ lnls C15bn_ex_graph' = ["III"; "IV"; "II"] /\
  map e_name (g_edges C15bn_ex_graph) = ["TtoII"; "TtoIII"; "TtoIV"; "IItoIII"; "IVtoII"; "IVtoIII"] /\
  map e_name (g_edges C15bn_ex_graph') = ["IVtoIII"; "IVtoII"; "TtoIV"; "TtoIII"; "TtoII"; "IItoIII"] /\
  wf_graphb C15bn_ex_graph = true /\ g_base C15bn_ex_graph = 2%nat /\
  acyclicb C15bn_ex_graph = true /\ topo_orderb C15bn_ex_graph (lnls C15bn_ex_graph) = false.
Proof. vm_compute. repeat split; reflexivity. Qed.

(** the hypothesis of the listing-order theorems holds for the pair *)
Example C15bn_ex_relisted : graph_relisted C15bn_ex_graph C15bn_ex_graph'.
Proof.
  split; [reflexivity|]. split.
  - replace (g_nodes C15bn_ex_graph')
      with (pick [2; 3; 0; 1]%nat (g_nodes C15bn_ex_graph) {| n_tumor := false; n_name := "" |})
      by (vm_compute; reflexivity).
    apply pick_perm. vm_compute. reflexivity.
  - replace (g_edges C15bn_ex_graph')
      with (pick [5; 4; 2; 1; 0; 3]%nat (g_edges C15bn_ex_graph) (mk_growth {| n_tumor := false; n_name := "" |}))
      by (vm_compute; reflexivity).
    apply pick_perm. vm_compute. reflexivity.
Qed.

(** state (II, III, IV) = (0, 1, 1) is (III, IV, II) = (1, 1, 0) in the new listing; its BN
    probability 1/5 * (1/2 * 3/5) * (1 - 3/4 * 6/7) = 3/140 is the same in both listings,
    whereas the state with the same DIGITS (0, 1, 1) has probability 3/50 in the new one;
    the Impl vectors are permutations of each other *)
Example C15bn_ex_relist :
  relist C15bn_ex_graph C15bn_ex_graph' [0; 1; 1]%nat = [1; 1; 0]%nat /\
  bn_spec C15bn_ex_graph [0; 1; 1]%nat = qc 3 140 /\
  bn_spec C15bn_ex_graph' [1; 1; 0]%nat = qc 3 140 /\
  bn_spec C15bn_ex_graph' [0; 1; 1]%nat = qc 3 50 /\
  option_map qouts (match state_dist_bn C15bn_ex_graph with inr v => Some v | inl _ => None end)
    = Some [(3, 10); (27, 700); (1, 10); (3, 140); (1, 5); (3, 50); (1, 5); (2, 25)]%Z /\
  option_map qouts (match state_dist_bn C15bn_ex_graph' with inr v => Some v | inl _ => None end)
    = Some [(3, 10); (1, 5); (27, 700); (3, 50); (1, 10); (1, 5); (3, 140); (2, 25)]%Z.
Proof.
  split; [vm_compute; reflexivity|].
  split; [apply Qc_is_canon; vm_compute; reflexivity|].
  split; [apply Qc_is_canon; vm_compute; reflexivity|].
  split; [apply Qc_is_canon; vm_compute; reflexivity|].
  split; vm_compute; reflexivity.
Qed.
Example C15bn_ex_relist_by_theorem :
  bn_spec C15bn_ex_graph' (relist C15bn_ex_graph C15bn_ex_graph' [0; 1; 1]%nat) = qc 3 140 /\
  state_dist_bn C15bn_ex_graph'
  = inr (map (fun x' => bn_spec C15bn_ex_graph (relist C15bn_ex_graph' C15bn_ex_graph x'))
             (state_list C15bn_ex_graph')) /\
  sumQ (map (bn_spec C15bn_ex_graph') (state_list C15bn_ex_graph')) = 1.
Proof.
  destruct (C15_bn_listing_order C15bn_ex_graph C15bn_ex_graph') as (Hwf' & Hs & _ & Hv & Hm).
  - vm_compute. reflexivity.
  - exact C15bn_ex_relisted.
  - split; [rewrite Hs; apply Qc_is_canon; vm_compute; reflexivity|].
    split; [apply (Hv eq_refl)|].
    rewrite Hm. apply bn_sum_one; vm_compute; reflexivity.
Qed.
(** acyclicity of the re-listed graph by the theorem (its own [topo_sort] also finds IV, II, III) *)
Example C15bn_ex_acyclic_by_theorem :
  acyclic C15bn_ex_graph' /\ topo_sort C15bn_ex_graph' = ["IV"; "II"; "III"].
Proof.
  split; [|vm_compute; reflexivity].
  apply (proj1 C15_bn_acyclic_preserved C15bn_ex_graph C15bn_ex_graph' C15bn_ex_relisted).
  vm_compute. reflexivity.
Qed.

(** a model with two modalities; a patient with recorded, missing and unrecorded findings;
    the same patient with the table's columns permuted.  BN likelihood 162873/3500000 and BN
    risk 20825/36194 for both listings, Spec and Impl (the code's [bn_likelihood_factors]
    and [risk ... false]). *)
Example C15bn_ex_model_values :
  wf_uni C15bn_ex_uni = true /\ wf_patient C15bn_ex_patient = true /\ u_base C15bn_ex_uni = 2%nat /\
  qout (bn_lik_spec C15bn_ex_uni C15bn_ex_patient) = (162873, 3500000)%Z /\
  qout (bn_lik_spec (with_graph C15bn_ex_uni C15bn_ex_graph') C15bn_ex_patient') = (162873, 3500000)%Z /\
  qout (bn_risk_spec C15bn_ex_uni C15bn_ex_inv C15bn_ex_patient) = (20825, 36194)%Z /\
  qout (bn_risk_spec (with_graph C15bn_ex_uni C15bn_ex_graph') C15bn_ex_inv C15bn_ex_patient')
    = (20825, 36194)%Z /\
  match bn_likelihood_factors (with_graph C15bn_ex_uni C15bn_ex_graph') [C15bn_ex_patient'] None with
  | inr v => qouts v | inl _ => [] end = [(162873, 3500000)]%Z /\
  match risk (with_graph C15bn_ex_uni C15bn_ex_graph') C15bn_ex_inv (Some (p_find C15bn_ex_patient')) "" false with
  | inr (Some r) => Some (qout r) | _ => None end = Some (20825, 36194)%Z.
Proof. vm_compute. repeat split; reflexivity. Qed.
Example C15bn_ex_model_by_theorem :
  bn_risk_spec (with_graph C15bn_ex_uni C15bn_ex_graph') C15bn_ex_inv C15bn_ex_patient'
  = bn_risk_spec C15bn_ex_uni C15bn_ex_inv C15bn_ex_patient /\
  bn_likelihood_factors C15bn_ex_uni [C15bn_ex_patient] None
  = inr [bn_lik_spec C15bn_ex_uni C15bn_ex_patient].
Proof.
  split.
  - destruct (C15_bn_listing_order_model C15bn_ex_uni C15bn_ex_graph' C15bn_ex_patient C15bn_ex_inv)
      as (_ & _ & Hr); [vm_compute; reflexivity|exact C15bn_ex_relisted|].
    rewrite <- Hr.
    apply (C15_bn_column_order (with_graph C15bn_ex_uni C15bn_ex_graph') C15bn_ex_patient C15bn_ex_patient'
             C15bn_ex_inv C15bn_ex_inv).
    + intros m. unfold C15bn_ex_patient, C15bn_ex_patient'. cbn [p_find diag_get].
      destruct (str_eqb m "CT") eqn:E1, (str_eqb m "path") eqn:E2; try exact I.
      * apply streqb_eq in E1, E2. subst m. discriminate E2.
      * intros l. cbn [pat_get].
        destruct (str_eqb l "II") eqn:A, (str_eqb l "III") eqn:B, (str_eqb l "IV") eqn:C; try reflexivity;
          repeat match goal with H : str_eqb _ _ = true |- _ => apply streqb_eq in H end; subst; discriminate.
      * intros l. cbn [pat_get].
        destruct (str_eqb l "II") eqn:A, (str_eqb l "III") eqn:B, (str_eqb l "IV") eqn:C; try reflexivity;
          repeat match goal with H : str_eqb _ _ = true |- _ => apply streqb_eq in H end; subst; discriminate.
    + intros l. reflexivity.
  - apply (C15_bn_likelihood_impl C15bn_ex_uni [C15bn_ex_patient] None); vm_compute; reflexivity.
Qed.

(** renaming: the graph built from the renamed dictionary IS [rename_graph] of the original
    one; BN distribution, likelihood and risk of the renamed model and patient *)
Example C15bn_ex_renamed_graph :
  set_edges (force_graph (build_graph 2 C15bn_ex_dict_renamed)) C15bn_ex_params_renamed
  = rename_graph C15_ex_rl C15bn_ex_graph.
Proof. vm_compute. reflexivity. Qed.
Example C15bn_ex_renamed_values :
  u_lnls (rename_uni C15_ex_rl C15_ex_rm C15bn_ex_uni) = ["xII"; "xIII"; "xIV"] /\
  qout (bn_spec (rename_graph C15_ex_rl C15bn_ex_graph) [0; 1; 1]%nat) = (3, 140)%Z /\
  qout (bn_lik_spec (rename_uni C15_ex_rl C15_ex_rm C15bn_ex_uni)
          (rename_patient C15_ex_rl C15_ex_rm C15bn_ex_patient)) = (162873, 3500000)%Z.
Proof. vm_compute. repeat split; reflexivity. Qed.
Example C15bn_ex_renamed_by_theorem :
  state_dist_bn (rename_graph C15_ex_rl C15bn_ex_graph) = state_dist_bn C15bn_ex_graph /\
  bn_risk_spec (rename_uni C15_ex_rl C15_ex_rm C15bn_ex_uni) (rename_pattern C15_ex_rl C15bn_ex_inv)
               (rename_patient C15_ex_rl C15_ex_rm C15bn_ex_patient)
  = bn_risk_spec C15bn_ex_uni C15bn_ex_inv C15bn_ex_patient.
Proof.
  split.
  - apply (C15_bn_renaming C15_ex_rl C15bn_ex_graph C15_ex_rl_injective).
  - apply C15_bn_renaming_model; [exact C15_ex_rl_injective|exact C15_ex_rm_injective].
Qed.

(** side swap: a bilateral model with different tumour spread on the two sides; the BN joint
    at (ipsi, contra) = ((1,1,0), (1,0,0)) is not symmetric; Impl likelihood of both *)
Example C15bn_ex_side_swap :
  wf_bilateral C15bn_ex_bi = true /\ wf_bpatient C15bn_ex_bpatient = true /\
  qout (bi_bn_joint_spec C15bn_ex_bi [1; 1; 0]%nat [1; 0; 0]%nat) = (637, 100000)%Z /\
  qout (bi_bn_joint_spec C15bn_ex_bi [1; 0; 0]%nat [1; 1; 0]%nat) = (343, 100000)%Z /\
  qout (bi_bn_joint_spec (swap_sides C15bn_ex_bi) [1; 0; 0]%nat [1; 1; 0]%nat) = (637, 100000)%Z /\
  qout (bi_patient_lik_spec C15bn_ex_bi (bi_bn_joint_spec C15bn_ex_bi) C15bn_ex_bpatient)
    = (55865439, 1562500000)%Z /\
  match bi_bn_likelihood_factors (swap_sides C15bn_ex_bi) [swap_bpatient C15bn_ex_bpatient] None with
  | inr v => qouts v | inl _ => [] end = [(55865439, 1562500000)]%Z.
Proof. vm_compute. repeat split; reflexivity. Qed.
Example C15bn_ex_side_swap_by_theorem :
  bi_patient_lik_spec (swap_sides C15bn_ex_bi) (bi_bn_joint_spec (swap_sides C15bn_ex_bi))
                      (swap_bpatient C15bn_ex_bpatient)
  = bi_patient_lik_spec C15bn_ex_bi (bi_bn_joint_spec C15bn_ex_bi) C15bn_ex_bpatient /\
  bi_bn_likelihood_factors C15bn_ex_bi [C15bn_ex_bpatient] None
  = inr [bi_patient_lik_spec C15bn_ex_bi (bi_bn_joint_spec C15bn_ex_bi) C15bn_ex_bpatient].
Proof.
  split.
  - destruct (C15_bn_bilateral_side_swap C15bn_ex_bi) as (_ & H & _). apply H.
  - apply (C15_bn_bilateral_likelihood_impl C15bn_ex_bi [C15bn_ex_bpatient] None); vm_compute; reflexivity.
Qed.

(** the BN mode is binary only: for the trinary graph of properties/C15.v both listings
    answer NotImplemented, and the arc-order / renaming theorems still apply (equal answers) *)
Example C15bn_ex_trinary :
  state_dist_bn C15_ex_graph = inl MNotImpl /\ state_dist_bn C15_ex_graph' = inl MNotImpl /\
  state_dist_bn (rename_graph C15_ex_rl C15_ex_graph) = state_dist_bn C15_ex_graph.
Proof.
  split; [vm_compute; reflexivity|]. split; [vm_compute; reflexivity|].
  apply (C15_bn_renaming C15_ex_rl C15_ex_graph C15_ex_rl_injective).
Qed.
