From LymphModel Require Import Base States Linalg Graph Transition Observation Dist Unilateral UniStatements.
From LymphModel Require Import TransitionProofs ObservationProofs PriorProofs LikelihoodProofs.
Local Open Scope nat_scope.
Open Scope Qc_scope.

Theorem C01_diagnosis_matrix_entry : C01_diagnosis_matrix_entry_stmt.
Proof. exact (diagnosis_matrix_entry observation_entries). Qed.
Print Assumptions C01_diagnosis_matrix_entry.

Theorem C01_patient_likelihoods : C01_patient_likelihoods_stmt.
Proof. exact (patient_likelihoods observation_entries (state_dist_spec transition_entries)). Qed.
Print Assumptions C01_patient_likelihoods.

Theorem C01_all_stages_is_concat : C01_all_stages_is_concat_stmt.
Proof. exact all_stages_is_concat. Qed.
Print Assumptions C01_all_stages_is_concat.

Theorem C01_unscored_t_stage : C01_unscored_t_stage_stmt.
Proof. exact unscored_t_stage. Qed.
Print Assumptions C01_unscored_t_stage.

Theorem C01_t_stage_restriction : C01_t_stage_restriction_stmt.
Proof. exact t_stage_restriction. Qed.
Print Assumptions C01_t_stage_restriction.

Theorem C01_unrecorded_is_factor_one : C01_unrecorded_is_factor_one_stmt.
Proof. exact unrecorded_is_factor_one. Qed.
Print Assumptions C01_unrecorded_is_factor_one.

(** Non-vacuity: the trinary graph T -> II, T -> III, III -> II (LNL arc against the
    listing order) with growth arcs, a clinical and a pathological modality, a frozen
    ("early") and a binomial ("late") time distribution, max_time = 2; four patients, one
    of them with a T-stage that has no distribution. *)
Example C01_ex_hypotheses :
  wf_uni C01_ex_uni = true /\ forallb wf_patient C01_ex_data = true /\
  valid_t_stages C01_ex_uni C01_ex_data = ["early"; "late"]%string /\
  dict_get "unstaged" (u_dists C01_ex_uni) = None /\
  map e_name (g_edges C01_ex_graph) = ["TtoII"; "TtoIII"; "II"; "III"; "IIItoII"]%string.
Proof. vm_compute. repeat split; reflexivity. Qed.

(** P(CT: II involved, III healthy; pathology: III involved, II unrecorded | II microscopic,
    III macroscopic) = (1 - 4/5) * (1 - 3/4) * 7/10, from the Spec and from the matrix product *)
Example C01_ex_entry :
  findings_prob C01_ex_uni C01_ex_p1 [1; 2]%nat = qc 7 200 /\
  match diagnosis_matrix C01_ex_uni C01_ex_data (Some "early"%string) with
  | inr M => nth 5 (nth 0 M []) 0
  | inl _ => 0
  end = qc 7 200 /\
  patient_encoding (u_lnls C01_ex_uni) (u_mod_names C01_ex_uni) C01_ex_p1
  = inr [false; false; false; false; false; false; false; false; false; true; false; true;
         false; false; false; false].
Proof. split; [apply Qc_is_canon; vm_compute; reflexivity|]. split; [apply Qc_is_canon|]; vm_compute; reflexivity. Qed.

(** per-patient likelihoods: Spec and Impl; the patient without findings has likelihood 1,
    the patient without distribution is not scored (3 factors for 4 patients) *)
Example C01_ex_likelihood :
  get_pmf C01_ex_uni "early" = inr [qc 1 2; qc 1 4; qc 1 4] /\
  patient_lik_spec C01_ex_uni [qc 1 2; qc 1 4; qc 1 4] C01_ex_p1 = qc 54453 1600000 /\
  patient_lik_spec C01_ex_uni [qc 4 9; qc 4 9; qc 1 9] C01_ex_p2 = qc 1429 1800 /\
  match hmm_patient_llhs C01_ex_uni C01_ex_data "early" with inr v => qouts v | inl _ => [] end
    = [(54453, 1600000); (1, 1)]%Z /\
  match hmm_likelihood_factors C01_ex_uni C01_ex_data None with inr v => qouts v | inl _ => [] end
    = [(54453, 1600000); (1, 1); (1429, 1800)]%Z.
Proof.
  split; [vm_compute; reflexivity|]. split; [apply Qc_is_canon; vm_compute; reflexivity|].
  split; [apply Qc_is_canon; vm_compute; reflexivity|]. split; vm_compute; reflexivity.
Qed.
