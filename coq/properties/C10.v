(** C10: parameters round-trip.  The executable model of the parameter plumbing is
    theories/Params.v, the statements are in theories/ParamsStatements.v, the proofs
    in theories/ParamsProofs.v (library theories/ParamsLemmas.v).  This file closes
    the statements, prints their assumptions and exhibits non-trivial objects. *)
From LymphModel Require Import Base States Linalg Graph Transition Observation Dist Unilateral Models Params
  ParamsStatements ParamsProofs ParamsBilateral ParamsMidline.

(** * Unilateral: every graph, every set of distributions, every call *)
Theorem C10_uni_names_nodup : C10_uni_names_nodup_stmt.
Proof. exact uni_names_nodup. Qed.
Print Assumptions C10_uni_names_nodup.

Theorem C10_uni_set_spec : C10_uni_set_spec_stmt.
Proof. exact uni_set_spec. Qed.
Print Assumptions C10_uni_set_spec.

Theorem C10_uni_set_get_positional : C10_uni_set_get_positional_stmt.
Proof. exact uni_set_get_positional. Qed.
Print Assumptions C10_uni_set_get_positional.

Theorem C10_uni_unit_vectors_accepted : C10_uni_unit_vectors_accepted_stmt.
Proof. exact uni_unit_vectors_accepted. Qed.
Print Assumptions C10_uni_unit_vectors_accepted.

Theorem C10_uni_set_get_keyword : C10_uni_set_get_keyword_stmt.
Proof. exact uni_set_get_keyword. Qed.
Print Assumptions C10_uni_set_get_keyword.

Theorem C10_uni_set_own_params_is_identity : C10_uni_set_own_params_is_identity_stmt.
Proof. exact uni_set_own_params_is_identity. Qed.
Print Assumptions C10_uni_set_own_params_is_identity.

Theorem C10_uni_keyword_over_positional : C10_uni_keyword_over_positional_stmt.
Proof. exact uni_keyword_over_positional. Qed.
Print Assumptions C10_uni_keyword_over_positional.

Theorem C10_uni_specific_over_global : C10_uni_specific_over_global_stmt.
Proof. exact uni_specific_over_global. Qed.
Print Assumptions C10_uni_specific_over_global.

Theorem C10_uni_unknown_names_ignored : C10_uni_unknown_names_ignored_stmt.
Proof. exact uni_unknown_names_ignored. Qed.
Print Assumptions C10_uni_unknown_names_ignored.

Theorem C10_uni_nested_flattens_to_flat : C10_uni_nested_flattens_to_flat_stmt.
Proof. exact uni_nested_flattens_to_flat. Qed.
Print Assumptions C10_uni_nested_flattens_to_flat.

(** * Bilateral: every graph, all four symmetry settings *)
Theorem C10_bi_names_nodup : C10_bi_names_nodup_stmt.
Proof. exact bi_names_nodup. Qed.
Print Assumptions C10_bi_names_nodup.

Theorem C10_bi_nested_flattens_to_flat : C10_bi_nested_flattens_to_flat_stmt.
Proof. exact bi_nested_flattens_to_flat. Qed.
Print Assumptions C10_bi_nested_flattens_to_flat.

Theorem C10_bi_set_spec : C10_bi_set_spec_stmt.
Proof. exact bi_set_spec. Qed.
Print Assumptions C10_bi_set_spec.

Theorem C10_bi_set_get_positional : C10_bi_set_get_positional_stmt.
Proof. exact bi_set_get_positional. Qed.
Print Assumptions C10_bi_set_get_positional.

Theorem C10_bi_set_get_keyword : C10_bi_set_get_keyword_stmt.
Proof. exact bi_set_get_keyword. Qed.
Print Assumptions C10_bi_set_get_keyword.

Theorem C10_bi_keyword_over_positional : C10_bi_keyword_over_positional_stmt.
Proof. exact bi_keyword_over_positional. Qed.
Print Assumptions C10_bi_keyword_over_positional.

Theorem C10_bi_unknown_names_ignored : C10_bi_unknown_names_ignored_stmt.
Proof. exact bi_unknown_names_ignored. Qed.
Print Assumptions C10_bi_unknown_names_ignored.

Theorem C10_bi_set_own_params_is_identity : C10_bi_set_own_params_is_identity_stmt.
Proof. exact bi_set_own_params_is_identity. Qed.
Print Assumptions C10_bi_set_own_params_is_identity.

(** * Midline: every graph, use_mixing x LNL symmetry, with or without central / unknown *)
Theorem C10_mid_names_nodup : C10_mid_names_nodup_stmt.
Proof. exact mid_names_nodup. Qed.
Print Assumptions C10_mid_names_nodup.

Theorem C10_mid_nested_flattens_to_flat : C10_mid_nested_flattens_to_flat_stmt.
Proof. exact mid_nested_flattens_to_flat. Qed.
Print Assumptions C10_mid_nested_flattens_to_flat.

Theorem C10_mid_set_get_positional : C10_mid_set_get_positional_stmt.
Proof. exact mid_set_get_positional. Qed.
Print Assumptions C10_mid_set_get_positional.

Theorem C10_mid_set_get_keyword : C10_mid_set_get_keyword_stmt.
Proof. exact mid_set_get_keyword. Qed.
Print Assumptions C10_mid_set_get_keyword.

(** * Known findings (the code does this; see known_findings.json) *)
Theorem C10_positional_order_refuted : C10_positional_order_refuted_stmt.
Proof. exact positional_order_refuted. Qed.
Print Assumptions C10_positional_order_refuted.

Theorem C10_midline_positional_order_refuted : C10_midline_positional_order_refuted_stmt.
Proof. exact midline_positional_order_refuted. Qed.
Print Assumptions C10_midline_positional_order_refuted.

Theorem C10_hpv_roundtrip_refuted : C10_hpv_roundtrip_refuted_stmt.
Proof. exact hpv_roundtrip_refuted. Qed.
Print Assumptions C10_hpv_roundtrip_refuted.

(** * Non-vacuity: a trinary model with three LNLs listed II, III, I, an arc against
    the listing order, growth arcs, a frozen and a parametric distribution *)
Local Open Scope string_scope.
Definition C10_ex_graph : graph :=
  force_graph (build_graph 3
     [ (("tumor", "T"), CList ["II"; "III"]);
       (("lnl", "II"), CList ["III"]);
       (("lnl", "III"), CList []);
       (("lnl", "I"), CList ["II"]) ]).
Definition C10_ex_uni : uni :=
  new_uni C10_ex_graph [("early", Frozen [qc 1 2; qc 1 4; qc 1 4]); ("late", Param 0 [("p", qc 1 3)])] 2.

Example C10_ex_wf : u_wf C10_ex_uni = true.
Proof. vm_compute. reflexivity. Qed.
Example C10_ex_names :
  u_names C10_ex_uni
  = [["TtoII"; "spread"]; ["TtoIII"; "spread"]; ["II"; "growth"]; ["IItoIII"; "spread"]; ["IItoIII"; "micro"];
     ["III"; "growth"]; ["I"; "growth"]; ["ItoII"; "spread"]; ["ItoII"; "micro"]; ["late"; "p"]].
Proof. vm_compute. reflexivity. Qed.
(** set_params(0, 1, 1/2, ..., II_growth=1/8, spread=1/16, ItoII_spread=1/4): positional 0 and 1
    arrive, the global "spread" beats the positional values of every spread parameter, the
    specific ItoII_spread beats the global one, the surplus 9/10 is returned *)
Definition C10_ex_call :=
  u_set_params C10_ex_uni
    (vals [0%Qc; 1%Qc; qc 1 2; qc 1 3; qc 1 5; qc 1 6; qc 1 7; qc 1 9; qc 2 3; qc 3 4; qc 9 10])
    [ (["II"; "growth"], V (qc 1 8)); (["spread"], V (qc 1 16)); (["ItoII"; "spread"], V (qc 1 4)); (["foo"; "bar"], V (qc 5 1)) ].
Example C10_ex_surplus : out_res (snd C10_ex_call) = Some [Some (9, 10)%Z].
Proof. vm_compute. reflexivity. Qed.
Example C10_ex_values :
  map qout (map snd (u_got (fst C10_ex_call)))
  = [(1, 16); (1, 16); (1, 8); (1, 16); (1, 5); (1, 6); (1, 7); (1, 4); (2, 3); (3, 4)]%Z.
Proof. vm_compute. reflexivity. Qed.
(** a value outside [0,1] raises and leaves the partial update behind *)
Example C10_ex_raises :
  let r := u_set_params C10_ex_uni (vals [qc 1 2; qc 3 2]) [] in
  snd r = None /\ map qout (map snd (u_got (fst r))) = [(1, 2); (0, 1); (0, 1); (0, 1); (1, 1); (0, 1); (0, 1); (0, 1); (1, 1); (1, 3)]%Z.
Proof. vm_compute. split; reflexivity. Qed.

(** the same graph as a bilateral model with asymmetric tumour spread and symmetric LNL spread *)
Definition C10_ex_bi : bilateral := new_bilateral C10_ex_uni false true.
Example C10_ex_bi_wf : b_wf C10_ex_bi = true.
Proof. vm_compute. reflexivity. Qed.
Example C10_ex_bi_names :
  map fst (b_got C10_ex_bi)
  = [["ipsi"; "TtoII"; "spread"]; ["ipsi"; "TtoIII"; "spread"]; ["contra"; "TtoII"; "spread"]; ["contra"; "TtoIII"; "spread"];
     ["II"; "growth"]; ["IItoIII"; "spread"]; ["IItoIII"; "micro"]; ["III"; "growth"]; ["I"; "growth"]; ["ItoII"; "spread"];
     ["ItoII"; "micro"]; ["late"; "p"]].
Proof. vm_compute. reflexivity. Qed.
(** "ipsi_spread" reaches the ipsilateral tumour arcs only, "TtoII_spread" both sides, and beats "ipsi_spread" *)
Example C10_ex_bi_call :
  let r := b_set_params C10_ex_bi (vals [qc 1 2]) [(["ipsi"; "spread"], V (qc 1 4)); (["TtoII"; "spread"], V (qc 1 8))] in
  snd r = Some [] /\ map qout (firstn 5 (map snd (b_got (fst r)))) = [(1, 8); (1, 4); (1, 8); (0, 1); (0, 1)]%Z.
Proof. vm_compute. split; reflexivity. Qed.

(** a midline model with mixing, a central model and an unknown model: positional values
    0 and 1 arrive, midext_prob is taken from the last position *)
Definition C10_ex_mid : midline := new_midline C10_ex_uni true true false true true.
Example C10_ex_mid_ok : mid_set_ok C10_ex_mid = true.
Proof. vm_compute. reflexivity. Qed.
Example C10_ex_mid_names :
  option_map (map fst) (m_got C10_ex_mid)
  = Some [["ipsi"; "TtoII"; "spread"]; ["ipsi"; "TtoIII"; "spread"]; ["contra"; "TtoII"; "spread"]; ["contra"; "TtoIII"; "spread"];
          ["mixing"]; ["II"; "growth"]; ["IItoIII"; "spread"]; ["IItoIII"; "micro"]; ["III"; "growth"]; ["I"; "growth"];
          ["ItoII"; "spread"]; ["ItoII"; "micro"]; ["late"; "p"]; ["midext"; "prob"]].
Proof. vm_compute. reflexivity. Qed.
Example C10_ex_mid_call :
  let v := [0%Qc; 1%Qc; qc 1 2; qc 1 3; qc 1 4; qc 1 5; qc 1 6; qc 1 7; qc 1 8; qc 1 9; qc 1 10; qc 1 11; qc 1 12; 1%Qc] in
  let r := m_set_params C10_ex_mid ((vals v ++ [V (qc 7 8)])%list) [] in
  out_res (snd r) = Some [Some (7, 8)%Z] /\ option_map (map snd) (m_got (fst r)) = Some v
  /\ (* ext.contra = mixing * ipsi + (1 - mixing) * noext.contra = 1/4 * (0, 1) + 3/4 * (1/2, 1/3) *)
     map qout (map snd (u_tumor_items (ml_ec (fst r)))) = [(3, 8); (1, 2)]%Z.
Proof. vm_compute. repeat split; reflexivity. Qed.
