(** HashDist2: [Distribution.__eq__] for two distributions living on DIFFERENT supports (max_time t1 vs t2), the
    companion of [Hash.dist_eq] (defect D23: the comparison used to raise instead of answering False).
    [np.array_equal] of two arrays of different length is False; of equal length it is element-wise equality. *)
From LymphModel Require Import Base States Linalg Graph Dist Hash DistStatements DistProofs.
Local Open Scope nat_scope.

Definition pmf_eq2 (o1 o2 : option vec) : option bool := pmf_eq o1 o2.   (* vec_eqb is already shape-aware *)
Definition dist_eq2 (t1 t2 : nat) (d1 d2 : dist) : option bool :=
  if negb (dist_updateable d1) && negb (dist_updateable d2) then pmf_eq2 (pmf t1 d1) (pmf t2 d2)
  else if negb (Bool.eqb (dist_updateable d1) (dist_updateable d2)) then Some false
  else if negb (kw_eqb (dist_keywords d1) (dist_keywords d2)) then Some false
  else pmf_eq2 (pmf t1 d1) (pmf t2 d2).

Lemma vec_eqb_length u : forall v, vec_eqb u v = true -> length u = length v.
Proof.
  induction u as [|a u IH]; intros [|b v] H; cbn [vec_eqb] in H; try discriminate; [reflexivity|].
  apply andb_true_iff in H. destruct H as [_ H]. cbn [length]. f_equal. apply IH. exact H.
Qed.

(** on one support it is [dist_eq]; on different supports two distributions whose pmfs have the lengths of their
    supports are never equal and never have the same key; the comparison is defined (does not raise) whenever both
    pmfs are *)
Definition C20_dist_mixed_support_stmt : Prop :=
  (forall t d1 d2, dist_eq2 t t d1 d2 = dist_eq t d1 d2)
  /\ (forall t1 t2 d1 d2 p1 p2, t1 <> t2 -> pmf t1 d1 = Some p1 -> pmf t2 d2 = Some p2 ->
        length p1 = S t1 -> length p2 = S t2 ->
        dist_eq2 t1 t2 d1 d2 = Some false /\ dist_key t1 d1 <> dist_key t2 d2)
  /\ (forall t1 t2 f1 kw1 f2 kw2 p1 p2, t1 <> t2 ->
        pmf t1 (Param f1 kw1) = Some p1 -> pmf t2 (Param f2 kw2) = Some p2 ->
        dist_eq2 t1 t2 (Param f1 kw1) (Param f2 kw2) = Some false).

Lemma dist_mixed_support : C20_dist_mixed_support_stmt.
Proof.
  split; [|split].
  - intros t d1 d2. reflexivity.
  - intros t1 t2 d1 d2 p1 p2 Hne H1 H2 L1 L2.
    assert (Hv : vec_eqb p1 p2 = false).
    { destruct (vec_eqb p1 p2) eqn:E; [|reflexivity]. apply vec_eqb_length in E. rewrite L1, L2 in E. congruence. }
    split.
    + unfold dist_eq2, pmf_eq2, pmf_eq. rewrite H1, H2, Hv.
      destruct (negb (dist_updateable d1) && negb (dist_updateable d2)); [reflexivity|].
      destruct (negb (Bool.eqb (dist_updateable d1) (dist_updateable d2))); [reflexivity|].
      destruct (negb (kw_eqb (dist_keywords d1) (dist_keywords d2))); reflexivity.
    + unfold dist_key. rewrite H1, H2. cbn [option_map]. intros E. inversion E as [[Eu Ek Ep]].
      rewrite Ep in L1. rewrite L1 in L2. congruence.
  - intros t1 t2 f1 kw1 f2 kw2 p1 p2 Hne H1 H2.
    pose proof pmf_length as [_ [HW [HWl Hpw]]].
    assert (L1 : length p1 = S t1) by (apply (HW fam_weights HWl t1 f1 kw1); rewrite <- Hpw; exact H1).
    assert (L2 : length p2 = S t2) by (apply (HW fam_weights HWl t2 f2 kw2); rewrite <- Hpw; exact H2).
    assert (Hv : vec_eqb p1 p2 = false).
    { destruct (vec_eqb p1 p2) eqn:E; [|reflexivity]. apply vec_eqb_length in E. rewrite L1, L2 in E. congruence. }
    unfold dist_eq2, pmf_eq2, pmf_eq. rewrite H1, H2, Hv. cbn [dist_updateable negb andb Bool.eqb].
    destruct (negb (kw_eqb (dist_keywords (Param f1 kw1)) (dist_keywords (Param f2 kw2)))); reflexivity.
Qed.
