(** PosteriorProofs: proofs of the C02 (unilateral) statements of UniStatements.v:
    [compute_encoding] marks exactly the states matching a pattern, the posterior is
    Bayes' rule with the recorded findings' probability as likelihood, it sums to
    one, and the risk is the posterior mass of the matching states. *)
From LymphModel Require Import Base States Linalg Graph Transition Observation Dist Unilateral UniStatements
  LikelihoodProofs.
Local Open Scope nat_scope.
Open Scope Qc_scope.

(** * Encodings *)
Lemma encoding_spec : C02_encoding_spec_stmt.
Proof.
  intros lnls p b enc Hb _ H. rewrite (compute_encoding_gen lnls p b Hb) in H.
  destruct (forallb (enc_okb b p) lnls); [|discriminate]. inversion H. reflexivity.
Qed.

Lemma compute_encoding_nil lnls b : compute_encoding lnls [] b = Some (repeat true (b ^ length lnls)).
Proof.
  rewrite compute_encoding_unfold.
  generalize (repeat true (b ^ length lnls)) as e.
  generalize (combine (seq 0 (length lnls)) lnls) as js.
  induction js as [|[j l] js IH]; intros e; cbn [fold_left]; [reflexivity|]. exact (IH e).
Qed.

(** * List algebra *)
Lemma map2_map_combine {A B C X} (f : A -> B -> C) (g : X -> B) : forall (S : list X) (l : list A),
  map2 f l (map g S) = map (fun '(x, a) => f a (g x)) (combine S l).
Proof.
  induction S as [|x S IH]; intros [|a l]; cbn [map map2 combine]; try reflexivity.
  rewrite IH. reflexivity.
Qed.
Lemma dot_map_combine {X Y} (f : X -> Qc) (h : Y -> Qc) : forall (S : list X) (js : list Y),
  dot (map f S) (map h js) = sumQ (map (fun '(x, j) => f x * h j) (combine S js)).
Proof.
  induction S as [|x S IH]; intros [|j js]; cbn [map dot combine sumQ]; try reflexivity.
  rewrite IH. reflexivity.
Qed.
Lemma dot_map_combine' {X} (f : X -> Qc) : forall (S : list X) (l : list Qc),
  dot (map f S) l = sumQ (map (fun xa => f (fst xa) * snd xa) (combine S l)).
Proof.
  induction S as [|x S IH]; intros [|a l]; cbn [map dot combine sumQ fst snd]; try reflexivity.
  rewrite IH. reflexivity.
Qed.
Lemma map_snd_combine {X Y} : forall (S : list X) (l : list Y), length l = length S -> map snd (combine S l) = l.
Proof.
  induction S as [|x S IH]; intros [|a l] H; try discriminate; cbn [combine map snd]; [reflexivity|].
  rewrite IH by (cbn [length] in H; lia). reflexivity.
Qed.
Lemma Qc_eqb_false x y : Qc_eqb x y = false -> x <> y.
Proof. unfold Qc_eqb. destruct (Qc_eq_dec x y); [discriminate|auto]. Qed.

Lemma dot_b2q_bounds : forall enc post, (forall a, In a post -> 0 <= a) ->
  0 <= dot (map b2q enc) post <= sumQ post.
Proof.
  induction enc as [|e enc IH]; intros [|a post] H; cbn [map dot sumQ].
  - split; apply Qcle_refl.
  - split; [apply Qcle_refl|]. apply (sumQ_nonneg (a :: post)). exact H.
  - split; apply Qcle_refl.
  - destruct (IH post (fun a' Ha' => H a' (or_intror Ha'))) as [L U].
    assert (Ha : 0 <= a) by (apply H; left; reflexivity).
    revert L U Ha. generalize (dot (map b2q enc) post) (sumQ post). intros D T.
    destruct e; cbn [b2q]; qc2q; generalize (this a) (this D) (this T); intros; split; lra.
Qed.

Lemma dot_ones : forall k post, length post = k -> dot (map b2q (repeat true k)) post = sumQ post.
Proof.
  induction k as [|k IH]; intros [|a post] H; try discriminate; cbn [repeat map dot sumQ b2q]; [reflexivity|].
  rewrite IH by (cbn [length] in H; lia). ring.
Qed.

Lemma sum_indicator_zero {A} (f : A -> bool) l :
  length (filter f l) = 0%nat -> sumQ (map (fun i => b2q (f i)) l) = 0.
Proof.
  induction l as [|a l IH]; cbn [filter map sumQ]; [reflexivity|].
  destruct (f a); cbn [length b2q]; [discriminate|]. intros H. rewrite IH by exact H. ring.
Qed.
Lemma sum_indicator_one {A} (f : A -> bool) l :
  length (filter f l) = 1%nat -> sumQ (map (fun i => b2q (f i)) l) = 1.
Proof.
  induction l as [|a l IH]; cbn [filter map sumQ]; [discriminate|].
  destruct (f a); cbn [length b2q]; intros H.
  - rewrite sum_indicator_zero by lia. ring.
  - rewrite IH by exact H. ring.
Qed.

(** * Posterior *)
Lemma posterior_of_spec : C06_observation_entries_stmt -> forall u prior d,
  wf_uni u = true -> wf_patient {| p_tstage := ""%string; p_find := d |} = true ->
  posterior_of u prior (Some d)
  = if Qc_eqb (sumQ (joint_spec u prior d)) 0 then inr None
    else inr (Some (map (fun a => a / sumQ (joint_spec u prior d)) (joint_spec u prior d))).
Proof.
  intros HO u prior d Hwf Hd. unfold posterior_of.
  rewrite (diagnosis_encoding_spec u d Hd). cbn [bind]. cbv zeta.
  pose proof (matvec_compatible u {| p_tstage := ""%string; p_find := d |} HO Hwf Hd) as E.
  cbn [p_find] in E. rewrite E. unfold vmul. rewrite map2_map_combine. reflexivity.
Qed.

Lemma posterior_bayes : C06_observation_entries_stmt -> C02_posterior_bayes_stmt.
Proof.
  intros HO u prior d post Hwf Hd _ H. rewrite (posterior_of_spec HO u prior d Hwf Hd) in H.
  destruct (Qc_eqb (sumQ (joint_spec u prior d)) 0) eqn:E; [discriminate|].
  inversion H. split; [exact (Qc_eqb_false _ _ E)|reflexivity].
Qed.

Lemma posterior_sum_one : C02_posterior_sum_one_stmt.
Proof.
  intros u prior d post H. unfold posterior_of in H.
  destruct (diagnosis_encoding u d) as [e|enc]; cbn [bind] in H; [discriminate|].
  cbv zeta in H.
  set (joint := vmul prior (matvec (observation_matrix u) (map b2q enc))) in H.
  destruct (Qc_eqb (sumQ joint) 0) eqn:E; [discriminate|].
  inversion H. apply Qc_eqb_false in E.
  unfold Qcdiv. rewrite sumQ_map_scale_r, map_id. apply Qcmult_inv_r. exact E.
Qed.

(** * Risk *)
Lemma risk_bayes : C06_observation_entries_stmt -> C02_risk_bayes_stmt.
Proof.
  intros HO u prior d inv post r Hwf Hd Hlen Hpost Hr.
  destruct (posterior_bayes HO u prior d post Hwf Hd Hlen Hpost) as [Hz Epost].
  unfold marginalize_of in Hr.
  destruct (compute_encoding (u_lnls u) inv (u_base u)) as [enc|] eqn:Ee; [|discriminate].
  inversion Hr.
  rewrite (encoding_spec _ _ _ _ (wf_uni_base u Hwf) (wf_uni_lnls u Hwf) Ee).
  change (all_states (u_base u) (length (u_lnls u))) with (u_states u).
  rewrite Epost, map_map, dot_map_combine. unfold Qcdiv. rewrite <- sumQ_map_scale_r.
  apply sumQ_map_ext. intros [x j] _.
  destruct (matches_pattern (u_lnls u) inv (u_base u) x); cbn [b2q]; ring.
Qed.

Lemma risk_in_unit_interval : C02_risk_in_unit_interval_stmt.
Proof.
  intros u inv post r Hnn Hsum Hr. unfold marginalize_of in Hr.
  destruct (compute_encoding (u_lnls u) inv (u_base u)) as [enc|]; [|discriminate].
  inversion Hr. destruct (dot_b2q_bounds enc post Hnn) as [L U]. rewrite Hsum in U.
  split; assumption.
Qed.

Lemma risk_empty_pattern : C02_risk_empty_pattern_stmt.
Proof.
  intros u post _ Hlen. unfold marginalize_of. rewrite compute_encoding_nil. f_equal.
  apply dot_ones. rewrite Hlen. unfold u_states, state_list. apply all_states_length.
Qed.

Lemma risk_partition : C02_risk_partition_stmt.
Proof.
  intros u invs post Hwf Hlen Hpart Henc.
  exists (map (fun inv => dot (map b2q (map (matches_pattern (u_lnls u) inv (u_base u)) (u_states u))) post) invs).
  split.
  - apply sequence_map_inr. intros inv Hin. destruct (Henc inv Hin) as [enc Ee].
    unfold marginalize_of. rewrite Ee.
    rewrite (encoding_spec _ _ _ _ (wf_uni_base u Hwf) (wf_uni_lnls u Hwf) Ee). reflexivity.
  -
    rewrite (sumQ_map_ext _
      (fun inv => sumQ (map (fun xa => b2q (matches_pattern (u_lnls u) inv (u_base u) (fst xa)) * snd xa)
                            (combine (u_states u) post)))).
    2:{ intros inv _. rewrite map_map.
        exact (dot_map_combine' (fun x => b2q (matches_pattern (u_lnls u) inv (u_base u) x)) (u_states u) post). }
    rewrite sumQ_swap.
    rewrite (sumQ_map_ext _ (fun xa : state * Qc => snd xa)).
    2:{ intros [x a] Hin. cbn [fst snd]. apply in_combine_l in Hin.
        rewrite sumQ_map_scale_r.
        rewrite (sum_indicator_one (fun inv => matches_pattern (u_lnls u) inv (u_base u) x) invs (Hpart x Hin)).
        ring. }
    rewrite <- (map_map snd (fun a : Qc => a)), map_id, map_snd_combine by exact Hlen. reflexivity.
Qed.

(** * Example objects for the non-vacuity checks of properties/C02.v
    (model [C01_ex_uni] of LikelihoodProofs.v) *)
Definition C02_ex_diag : diagnosis :=
  [("CT", [("II", Some IInvolved); ("III", Some IHealthy)]); ("path", [("II", None); ("III", Some IInvolved)])]%string.
Definition C02_ex_prior : vec :=
  match state_dist C01_ex_uni "late" true with inr sd => sd | inl _ => [] end.
Definition C02_ex_post : vec :=
  match posterior_of C01_ex_uni C02_ex_prior (Some C02_ex_diag) with inr (Some p) => p | _ => [] end.
(** LNL II healthy / microscopic / macroscopic: a partition of the states *)
Definition C02_ex_invs : list pattern :=
  [[("II", Some IHealthy)]; [("II", Some IMicro)]; [("II", Some IMacro)]]%string.
