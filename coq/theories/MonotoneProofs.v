(** MonotoneProofs: proofs of the C14 statements of Monotone.v.

    Architecture.
    1. Abstract core: expectation [E] of a test function under a product of
       per-position weight functions, stochastic dominance [dom3] on {0,1,2},
       [E_dominance] (dominated factors, monotone test function => ordered
       expectations) and its t-step lift [Ex_param_monotone].
    2. The kernel [Kc g x] of the lymph model: one weight function per LNL,
       [lnl_factor g x lnl (min 2 (digit i x))]; it is a family of distributions,
       monotone in [x], and monotone in the parameters.
    3. Link: [Ex (Kc g) healthy t f] = sum over the graph's own state list of
       [evo_spec g t y * f y] (binary graphs: the weight at digit 2 vanishes).
    4. The C14 theorems. *)
From LymphModel Require Import Base States Linalg Graph Transition Observation Dist Unilateral.
From LymphModel Require Import GraphStatements GraphProofs TransitionProofs PriorProofs Monotone.
Local Open Scope nat_scope.
Open Scope Qc_scope.

(** * 1. Abstract core *)
(** expectation of g under the product of the per-position weight functions fs *)
Definition E (b : nat) (fs : list (nat -> Qc)) (g : state -> Qc) : Qc :=
  sumQ (map (fun y => prod_over fs y * g y) (all_states b (length fs))).

Lemma E_nil b g : E b [] g = g [].
Proof. unfold E. cbn. ring. Qed.

Lemma E_cons b f fs g :
  E b (f :: fs) g = sumQ (map (fun d => f d * E b fs (fun y => g (d :: y))) (seq 0 b)).
Proof.
  unfold E. cbn [length all_states].
  rewrite flat_map_concat_map, concat_map, map_map, <- flat_map_concat_map, sumQ_flat_map.
  apply sumQ_map_ext. intros d _. rewrite map_map. cbn [prod_over].
  rewrite <- sumQ_map_scale. apply sumQ_map_ext. intros y _. ring.
Qed.

Definition nonneg (f : nat -> Qc) := forall d, 0 <= f d.

Lemma E_pointwise b fs g1 g2 :
  Forall nonneg fs -> (forall y, g1 y <= g2 y) -> E b fs g1 <= E b fs g2.
Proof.
  revert g1 g2. induction fs as [|f fs IH]; intros g1 g2 Hnn Hle.
  - rewrite !E_nil. apply Hle.
  - rewrite !E_cons. inversion Hnn as [|? ? Hf Hfs]; subst.
    apply sumQ_map_le. intros d _.
    assert (H := IH (fun y => g1 (d :: y)) (fun y => g2 (d :: y)) Hfs (fun y => Hle (d :: y))).
    specialize (Hf d). revert Hf H.
    generalize (E b fs (fun y => g1 (d :: y))) (E b fs (fun y => g2 (d :: y))) (f d).
    intros u v w. qc2q. generalize (this u) (this v) (this w). intros; nra.
Qed.

(** one-dimensional stochastic dominance on {0,1,2} (binary: mass 0 at 2) *)
Definition dist3 (f : nat -> Qc) := nonneg f /\ f 0%nat + f 1%nat + f 2%nat = 1.
Definition dom3 (f f' : nat -> Qc) :=
  f 1%nat + f 2%nat <= f' 1%nat + f' 2%nat /\ f 2%nat <= f' 2%nat.

Lemma sum3 (h : nat -> Qc) : sumQ (map h (seq 0 3)) = h 0%nat + h 1%nat + h 2%nat.
Proof. cbn. ring. Qed.

Lemma dom3_expect f f' h : dist3 f -> dist3 f' -> dom3 f f' ->
  h 0%nat <= h 1%nat -> h 1%nat <= h 2%nat ->
  sumQ (map (fun d => f d * h d) (seq 0 3)) <= sumQ (map (fun d => f' d * h d) (seq 0 3)).
Proof.
  intros [_ S1] [_ S2] [D1 D2] H01 H12. rewrite !sum3.
  revert S1 S2 D1 D2 H01 H12.
  generalize (f 0%nat) (f 1%nat) (f 2%nat) (f' 0%nat) (f' 1%nat) (f' 2%nat) (h 0%nat) (h 1%nat) (h 2%nat).
  intros a0 a1 a2 b0 b1 b2 h0 h1 h2 S1 S2.
  assert (E1 : a0 = 1 - a1 - a2) by (rewrite <- S1; ring).
  assert (E2 : b0 = 1 - b1 - b2) by (rewrite <- S2; ring).
  subst a0 b0. clear S1 S2. qc2q.
  generalize (this a1) (this a2) (this b1) (this b2) (this h0) (this h1) (this h2). intros. nra.
Qed.

(** componentwise order and monotone test functions *)
Definition le_state (x y : state) := Forall2 le x y.
Definition mono (g : state -> Qc) := forall x y, le_state x y -> g x <= g y.

Lemma le_state_refl x : le_state x x.
Proof. induction x; constructor; auto. Qed.

Lemma dist3_nonneg l : Forall dist3 l -> Forall nonneg l.
Proof. induction 1 as [|k l [Hk _] _ IH]; constructor; auto. Qed.

Theorem E_dominance fs fs' g :
  Forall2 dom3 fs fs' -> Forall dist3 fs -> Forall dist3 fs' -> mono g ->
  E 3 fs g <= E 3 fs' g.
Proof.
  intros HD. revert g. induction HD as [|f f' fs fs' Hd HD IH]; intros g Hfs Hfs' Hg.
  - rewrite !E_nil. apply Qcle_refl.
  - inversion Hfs as [|? ? Hf Hfs0]; inversion Hfs' as [|? ? Hf' Hfs0']; subst.
    rewrite !E_cons.
    apply Qcle_trans with (sumQ (map (fun d => f d * E 3 fs' (fun y => g (d :: y))) (seq 0 3))).
    + apply sumQ_map_le. intros d _.
      assert (H := IH (fun y => g (d :: y)) Hfs0 Hfs0').
      assert (Hm : mono (fun y => g (d :: y))).
      { intros x y Hxy. apply Hg. constructor; [lia | exact Hxy]. }
      specialize (H Hm). destruct Hf as [Hnn _]. specialize (Hnn d).
      revert Hnn H. generalize (E 3 fs (fun y => g (d :: y))) (E 3 fs' (fun y => g (d :: y))) (f d).
      intros u v w. qc2q. generalize (this u) (this v) (this w). intros; nra.
    + apply (dom3_expect f f' (fun d => E 3 fs' (fun y => g (d :: y)))); auto.
      * apply E_pointwise; [apply dist3_nonneg, Hfs0'|].
        intros y. apply Hg. constructor; [lia | apply le_state_refl].
      * apply E_pointwise; [apply dist3_nonneg, Hfs0'|].
        intros y. apply Hg. constructor; [lia | apply le_state_refl].
Qed.

(** a kernel gives, for the current state, one weight function per position *)
Definition kernel := state -> list (nat -> Qc).
Definition wf_kernel (K : kernel) := forall x, Forall dist3 (K x).
Definition kernel_mono (K : kernel) := forall x x', le_state x x' -> Forall2 dom3 (K x) (K x').
Definition kernel_le (K K' : kernel) := forall x, Forall2 dom3 (K x) (K' x).

(** expectation of g after t steps from state x0: P_{t+1}(g) = P_t(K g) *)
Fixpoint Ex (K : kernel) (x0 : state) (t : nat) (g : state -> Qc) : Qc :=
  match t with
  | O => g x0
  | S t' => Ex K x0 t' (fun x => E 3 (K x) g)
  end.

Lemma Ex_pointwise K x0 t : wf_kernel K -> forall g1 g2,
  (forall y, g1 y <= g2 y) -> Ex K x0 t g1 <= Ex K x0 t g2.
Proof.
  intros HK. induction t as [|t IH]; intros g1 g2 Hle; cbn [Ex]; [apply Hle|].
  apply IH. intros x. apply E_pointwise; [apply dist3_nonneg, HK | exact Hle].
Qed.

Theorem Ex_param_monotone K K' x0 t g :
  wf_kernel K -> wf_kernel K' -> kernel_mono K' -> kernel_le K K' -> mono g ->
  Ex K x0 t g <= Ex K' x0 t g.
Proof.
  intros HK HK' Hm Hle. revert g. induction t as [|t IH]; intros g Hg; cbn [Ex]; [apply Qcle_refl|].
  apply Qcle_trans with (Ex K x0 t (fun x => E 3 (K' x) g)).
  - apply Ex_pointwise; [exact HK|]. intros x. apply E_dominance; auto.
  - apply IH. intros x x' Hxx'. apply E_dominance; auto.
Qed.

(** binary graphs: when no factor puts weight on digit 2, the sum over the trinary
    state space equals the sum over the binary one *)
Lemma E_3_2 fs g : Forall (fun f : nat -> Qc => f 2%nat = 0) fs -> E 3 fs g = E 2 fs g.
Proof.
  revert g. induction fs as [|f fs IH]; intros g H.
  - rewrite !E_nil. reflexivity.
  - inversion H as [|? ? Hf Hfs]; subst. rewrite !E_cons.
    cbn [seq map sumQ]. rewrite Hf, !(IH _ Hfs). ring.
Qed.

(** * Small list facts *)
Lemma Forall2_map_same {A B} (R : B -> B -> Prop) (f f' : A -> B) l :
  (forall a, In a l -> R (f a) (f' a)) -> Forall2 R (map f l) (map f' l).
Proof.
  induction l as [|a l IH]; intros H; cbn [map]; constructor.
  - apply H. left. reflexivity.
  - apply IH. intros a' Ha'. apply H. right. exact Ha'.
Qed.

Lemma Forall_map_in {A B} (P : B -> Prop) (f : A -> B) l :
  (forall a, In a l -> P (f a)) -> Forall P (map f l).
Proof.
  induction l as [|a l IH]; intros H; cbn [map]; constructor.
  - apply H. left. reflexivity.
  - apply IH. intros a' Ha'. apply H. right. exact Ha'.
Qed.

Lemma Forall2_filter {A B} (P : A -> B -> Prop) (p : A -> bool) (p' : B -> bool) l l' :
  Forall2 P l l' -> (forall a b, P a b -> p a = p' b) -> Forall2 P (filter p l) (filter p' l').
Proof.
  intros H Hp. induction H as [|a b l l' Hab H IH]; cbn [filter]; [constructor|].
  rewrite <- (Hp a b Hab). destruct (p a); [constructor|]; assumption.
Qed.

Lemma Forall2_diag {A} (l : list A) : Forall2 (fun a b => a = b /\ In a l) l l.
Proof.
  assert (H : forall l0, (forall a, In a l0 -> In a l) -> Forall2 (fun a b => a = b /\ In a l) l0 l0).
  { induction l0 as [|a l0 IH]; intros Hin; constructor.
    - split; [reflexivity|]. apply Hin. left. reflexivity.
    - apply IH. intros a' Ha'. apply Hin. right. exact Ha'. }
  apply H. auto.
Qed.

Lemma Forall2_combine4 {A B} (P Q : A -> B -> Prop) (U : A -> Prop) (V : B -> Prop) l l' :
  Forall2 P l l' -> Forall2 Q l l' -> Forall U l -> Forall V l' ->
  Forall2 (fun a b => P a b /\ Q a b /\ U a /\ V b) l l'.
Proof.
  intros HP. induction HP as [|a b l l' Hab HP IH]; intros HQ HU HV; [constructor|].
  inversion HQ; inversion HU; inversion HV; subst. constructor; auto.
Qed.

(** products of factors in [0,1] are monotone in every factor *)
Lemma prodQ_map2_le {A B} (P : A -> B -> Prop) (f : A -> Qc) (f' : B -> Qc) l l' :
  Forall2 P l l' -> (forall a b, P a b -> 0 <= f a /\ f a <= f' b) ->
  0 <= prodQ (map f l) /\ prodQ (map f l) <= prodQ (map f' l').
Proof.
  intros H Hf. induction H as [|a b l l' Hab H IH]; cbn [map prodQ].
  - split; [discriminate|apply Qcle_refl].
  - destruct (Hf a b Hab) as [H1 H2]. destruct IH as [H3 H4].
    revert H1 H2 H3 H4. generalize (f a) (f' b) (prodQ (map f l)) (prodQ (map f' l')).
    intros u v p p'. qc2q. generalize (this u) (this v) (this p) (this p'). intros; split; nra.
Qed.

Lemma Forall2_swap {A B} (P : A -> B -> Prop) l l' :
  Forall2 P l l' -> Forall2 (fun b a => P a b) l' l.
Proof. induction 1; constructor; assumption. Qed.

(** * 2. The kernel of the lymph model *)
(** One weight function per LNL.  The LNL's own digit is clamped to {0,1,2}, which
    changes nothing on the state space and makes the kernel a family of
    distributions for every list of digits. *)
Definition Kc (g : graph) : kernel := fun x =>
  map (fun '(i, lnl) => fun c => lnl_factor g x lnl (Nat.min 2 (digit i x)) c)
      (combine (seq 0 (nlnls g)) (lnls g)).

(** [lnl_factor] as a function of the two numbers it depends on *)
Definition fac (sh gp : Qc) (a c : nat) : Qc :=
  match a, c with
  | O, O => sh
  | O, S O => 1 - sh
  | S O, S O => 1 - gp
  | S O, S (S O) => gp
  | S (S O), S (S O) => 1
  | _, _ => 0
  end.
Lemma lnl_factor_fac g x lnl a c :
  lnl_factor g x lnl a c = fac (stay_healthy g lnl x) (growth_prob g lnl) a c.
Proof. reflexivity. Qed.

Lemma fac_dist3 sh gp a : 0 <= sh <= 1 -> 0 <= gp <= 1 -> (a <= 2)%nat -> dist3 (fac sh gp a).
Proof.
  intros Hs Hg Ha. split.
  - intros c. pose proof (Qc_unit_compl _ Hs) as Hs'. pose proof (Qc_unit_compl _ Hg) as Hg'.
    destruct a as [|[|[|a]]], c as [|[|[|c]]]; cbn [fac]; try discriminate; tauto.
  - destruct a as [|[|[|a]]]; try lia; cbn [fac]; ring.
Qed.

Lemma fac_dom sh sh' gp gp' a a' :
  (a <= a')%nat -> (a' <= 2)%nat ->
  0 <= sh' -> sh' <= sh -> sh <= 1 -> 0 <= gp -> gp <= gp' -> gp' <= 1 ->
  dom3 (fac sh gp a) (fac sh' gp' a').
Proof.
  intros H1 H2 A1 A2 A3 B1 B2 B3. unfold dom3.
  destruct a as [|[|[|a]]], a' as [|[|[|a']]]; try lia; cbn [fac];
    revert A1 A2 A3 B1 B2 B3; qc2q;
    generalize (this sh) (this sh') (this gp) (this gp'); intros; split; lra.
Qed.

Definition unit_arc (e : edge) : Prop := 0 <= e_spread e <= 1 /\ 0 <= e_micro e <= 1.

Lemma stay_healthy_unit g lnl x : params_in_unit g -> 0 <= stay_healthy g lnl x <= 1.
Proof.
  intros Hp. unfold stay_healthy. apply prodQ_map_unit. intros e He.
  apply inc_edges_In in He. destruct He as [He _].
  apply Qc_unit_compl, arc_prob_unit; apply (Hp e He).
Qed.
Lemma growth_prob_unit g lnl : params_in_unit g -> 0 <= growth_prob g lnl <= 1.
Proof.
  intros Hp. unfold growth_prob. apply Qc_unit_compl. apply prodQ_map_unit. intros e He.
  apply filter_In in He. destruct He as [He _]. apply inc_edges_In in He. destruct He as [He _].
  apply Qc_unit_compl. apply (Hp e He).
Qed.

Lemma Kc_wf g : params_in_unit g -> wf_kernel (Kc g).
Proof.
  intros Hp x. unfold Kc. apply Forall_map_in. intros [i lnl] _.
  assert (H : dist3 (fac (stay_healthy g lnl x) (growth_prob g lnl) (Nat.min 2 (digit i x)))).
  { apply fac_dist3; [apply stay_healthy_unit, Hp | apply growth_prob_unit, Hp | apply Nat.le_min_l]. }
  exact H.
Qed.

Lemma Kc_length g x : length (Kc g x) = nlnls g.
Proof. unfold Kc, nlnls. rewrite map_length, combine_length, seq_length. apply Nat.min_id. Qed.

(** ** monotone in the state *)
Lemma le_state_digit x x' : le_state x x' -> forall k, (digit k x <= digit k x')%nat.
Proof.
  unfold digit. induction 1 as [|a b x x' Hab H IH]; intros k; destruct k; cbn [nth]; auto.
Qed.

(** the general comparison of two arcs: same shape, more spread / micro, parent at
    least as advanced *)
Lemma arc_prob_le g g' e e' x x' :
  g_base g = g_base g' -> e_kind e = e_kind e' ->
  unit_arc e -> unit_arc e' -> arc_le e e' ->
  (parent_digit g e x <= parent_digit g' e' x')%nat ->
  arc_prob g e x <= arc_prob g' e' x'.
Proof.
  intros Hb Hk [[S1 S2] [M1 M2]] [[S1' S2'] [M1' M2']] [Hs Hm] Hd.
  unfold arc_prob. rewrite <- Hb, <- Hk.
  destruct (e_kind e); [exact Hs| |apply Qcle_refl].
  revert Hd. generalize (parent_digit g e x) (parent_digit g' e' x'). intros p p' Hd.
  destruct p as [|[|p]], p' as [|[|p']]; try lia; destruct (Nat.eqb (g_base g) 3);
    revert S1 S2 M1 M2 S1' S2' M1' M2' Hs Hm; qc2q;
    generalize (this (e_spread e)) (this (e_micro e)) (this (e_spread e')) (this (e_micro e'));
    intros; nra.
Qed.

Lemma arc_le_refl e : arc_le e e.
Proof. split; apply Qcle_refl. Qed.

Lemma stay_healthy_anti g lnl x x' : params_in_unit g -> le_state x x' ->
  stay_healthy g lnl x' <= stay_healthy g lnl x.
Proof.
  intros Hp Hxx'. unfold stay_healthy.
  apply (prodQ_map2_le (fun a b => a = b /\ In a (inc_edges g lnl))); [apply Forall2_diag|].
  intros e e0 [<- He]. apply inc_edges_In in He. destruct He as [He _].
  assert (Hu : unit_arc e) by (apply Hp, He).
  destruct (arc_prob_unit g e x' (proj1 Hu) (proj2 Hu)) as [_ H2].
  assert (H3 : arc_prob g e x <= arc_prob g e x').
  { apply arc_prob_le; auto using arc_le_refl. apply le_state_digit, Hxx'. }
  revert H2 H3. generalize (arc_prob g e x) (arc_prob g e x'). intros u v. qc2q.
  generalize (this u) (this v). intros; split; lra.
Qed.

Lemma Kc_mono g : params_in_unit g -> kernel_mono (Kc g).
Proof.
  intros Hp x x' Hxx'. unfold Kc. apply Forall2_map_same. intros [i lnl] _.
  assert (H : dom3 (fac (stay_healthy g lnl x) (growth_prob g lnl) (Nat.min 2 (digit i x)))
                   (fac (stay_healthy g lnl x') (growth_prob g lnl) (Nat.min 2 (digit i x')))).
  { destruct (stay_healthy_unit g lnl x Hp) as [_ A3]. destruct (stay_healthy_unit g lnl x' Hp) as [A1 _].
    destruct (growth_prob_unit g lnl Hp) as [B1 B3].
    apply fac_dom; auto using Qcle_refl, Nat.le_min_l, stay_healthy_anti.
    apply Nat.min_le_compat_l. apply le_state_digit, Hxx'. }
  exact H.
Qed.

(** ** monotone in the parameters *)
Definition erel (e e' : edge) : Prop := arc_same e e' /\ arc_le e e' /\ unit_arc e /\ unit_arc e'.

Lemma edges_erel g g' : same_skeleton g g' -> params_in_unit g -> params_in_unit g' -> params_le g g' ->
  Forall2 erel (g_edges g) (g_edges g').
Proof.
  intros [_ [_ Hs]] Hp Hp' Hle. apply Forall2_combine4; auto; apply Forall_forall; assumption.
Qed.

Lemma skeleton_lnls g g' : same_skeleton g g' -> lnls g = lnls g'.
Proof. intros [_ [Hn _]]. unfold lnls. rewrite Hn. reflexivity. Qed.

Lemma inc_edges_erel g g' lnl : Forall2 erel (g_edges g) (g_edges g') ->
  Forall2 erel (inc_edges g lnl) (inc_edges g' lnl).
Proof.
  intros H. unfold inc_edges. apply Forall2_filter; [exact H|].
  intros e e' [[_ [_ [Hc _]]] _]. rewrite Hc. reflexivity.
Qed.

Lemma stay_healthy_params g g' lnl x : same_skeleton g g' -> Forall2 erel (g_edges g) (g_edges g') ->
  stay_healthy g' lnl x <= stay_healthy g lnl x.
Proof.
  intros Hsk H. unfold stay_healthy.
  apply (prodQ_map2_le (fun b a => erel a b)); [apply Forall2_swap, inc_edges_erel, H|].
  intros e' e [[_ [Hpar [_ Hk]]] [Hle [Hu Hu']]].
  destruct (arc_prob_unit g' e' x (proj1 Hu') (proj2 Hu')) as [_ H2].
  assert (H3 : arc_prob g e x <= arc_prob g' e' x).
  { apply arc_prob_le; auto; [apply Hsk|]. unfold parent_digit.
    rewrite (skeleton_lnls g g' Hsk), Hpar. apply Nat.le_refl. }
  revert H2 H3. generalize (arc_prob g e x) (arc_prob g' e' x). intros u v. qc2q.
  generalize (this u) (this v). intros; split; lra.
Qed.

Lemma growth_prob_params g g' lnl : Forall2 erel (g_edges g) (g_edges g') ->
  growth_prob g lnl <= growth_prob g' lnl.
Proof.
  intros H. unfold growth_prob.
  assert (HF : Forall2 (fun b a => erel a b) (filter is_growth (inc_edges g' lnl)) (filter is_growth (inc_edges g lnl))).
  { apply Forall2_swap. apply Forall2_filter; [apply inc_edges_erel, H|].
    intros e e' [[_ [_ [_ Hk]]] _]. unfold is_growth. rewrite Hk. reflexivity. }
  destruct (prodQ_map2_le _ (fun e => 1 - e_spread e) (fun e => 1 - e_spread e) _ _ HF) as [_ HP].
  - intros e' e [_ [[Hs _] [_ [[_ S2] _]]]].
    revert Hs S2. generalize (e_spread e) (e_spread e'). intros u v. qc2q.
    generalize (this u) (this v). intros; split; lra.
  - revert HP. generalize (prodQ (map (fun e => 1 - e_spread e) (filter is_growth (inc_edges g' lnl))))
                          (prodQ (map (fun e => 1 - e_spread e) (filter is_growth (inc_edges g lnl)))).
    intros u v. qc2q. generalize (this u) (this v). intros; lra.
Qed.

Lemma Kc_le g g' : same_skeleton g g' -> params_in_unit g -> params_in_unit g' -> params_le g g' ->
  kernel_le (Kc g) (Kc g').
Proof.
  intros Hsk Hp Hp' Hle x. pose proof (edges_erel g g' Hsk Hp Hp' Hle) as HE.
  unfold Kc, nlnls. rewrite <- (skeleton_lnls g g' Hsk).
  apply Forall2_map_same. intros [i lnl] _.
  assert (H : dom3 (fac (stay_healthy g lnl x) (growth_prob g lnl) (Nat.min 2 (digit i x)))
                   (fac (stay_healthy g' lnl x) (growth_prob g' lnl) (Nat.min 2 (digit i x)))).
  { destruct (stay_healthy_unit g lnl x Hp) as [_ A3]. destruct (stay_healthy_unit g' lnl x Hp') as [A1 _].
    destruct (growth_prob_unit g lnl Hp) as [B1 _]. destruct (growth_prob_unit g' lnl Hp') as [_ B3].
    apply fac_dom; auto using Nat.le_min_l, stay_healthy_params, growth_prob_params. }
  exact H.
Qed.

(** * 3. Link between the kernel and [evo_spec] *)
Definition indf (i a : nat) (y : state) : Qc := if (a <=? digit i y)%nat then 1 else 0.

Lemma indf_mono i a : mono (indf i a).
Proof.
  intros x y Hxy. unfold indf. pose proof (le_state_digit x y Hxy i) as Hd.
  destruct (a <=? digit i x)%nat eqn:E1; destruct (a <=? digit i y)%nat eqn:E2; try discriminate.
  apply Nat.leb_le in E1. apply Nat.leb_gt in E2. lia.
Qed.

Lemma Kc_on_states g x : wf_graphb g = true -> In x (state_list g) ->
  Kc g x = map (fun '(i, s) => lnl_factor g x s (digit i x)) (combine (seq 0 (nlnls g)) (lnls g)).
Proof.
  intros Hwf Hx. unfold Kc. apply map_ext_in. intros [i s] _.
  pose proof (state_digit_lt g x i Hwf Hx) as Hd.
  replace (Nat.min 2 (digit i x)) with (digit i x); [reflexivity|].
  destruct (wf_base g Hwf) as [Hb|Hb]; rewrite Hb in Hd; lia.
Qed.

Lemma Kc_binary_no_macro g x : wf_graphb g = true -> g_base g = 2%nat -> In x (state_list g) ->
  Forall (fun f : nat -> Qc => f 2%nat = 0) (Kc g x).
Proof.
  intros Hwf Hb Hx. unfold Kc. apply Forall_map_in. intros [i s] _.
  pose proof (state_digit_lt g x i Hwf Hx) as Hd. rewrite Hb in Hd.
  destruct (digit i x) as [|[|d]]; try lia; cbn [Nat.min lnl_factor]; [reflexivity|].
  apply growth_prob_binary; assumption.
Qed.

Lemma E_Kc_states g x f : wf_graphb g = true -> In x (state_list g) ->
  E 3 (Kc g x) f = sumQ (map (fun y => trans_spec g x y * f y) (state_list g)).
Proof.
  intros Hwf Hx.
  assert (H : E (g_base g) (Kc g x) f = sumQ (map (fun y => trans_spec g x y * f y) (state_list g))).
  { unfold E, state_list. rewrite Kc_length. apply sumQ_map_ext. intros y Hy.
    apply all_states_In in Hy. destruct Hy as [Hl _].
    rewrite (trans_spec_prod_over g x y Hl), <- (Kc_on_states g x Hwf Hx). reflexivity. }
  rewrite <- H. destruct (wf_base g Hwf) as [Hb|Hb]; rewrite Hb; [|reflexivity].
  apply E_3_2. apply Kc_binary_no_macro; assumption.
Qed.

Lemma sum_indicator (f : state -> Qc) (x0 : state) (l : list state) : NoDup l -> In x0 l ->
  sumQ (map (fun y => (if list_eq_dec Nat.eq_dec y x0 then 1 else 0) * f y) l) = f x0.
Proof.
  induction l as [|a l IH]; intros Hnd Hin; [destruct Hin|].
  inversion Hnd as [|? ? Hna Hnd']; subst. cbn [map sumQ].
  destruct (list_eq_dec Nat.eq_dec a x0) as [->|Hne].
  - rewrite (sumQ_map_ext _ (fun _ => 0)); [rewrite sumQ_map_zero; ring|].
    intros y Hy. destruct (list_eq_dec Nat.eq_dec y x0) as [->|_]; [contradiction|ring].
  - destruct Hin as [Hin|Hin]; [contradiction|]. rewrite (IH Hnd' Hin). ring.
Qed.

Lemma healthy_in_states g : wf_graphb g = true -> In (healthy (nlnls g)) (state_list g).
Proof.
  intros Hwf. apply all_states_In. unfold healthy. split; [apply repeat_length|].
  apply Forall_forall. intros d Hd. apply repeat_spec in Hd. subst.
  destruct (wf_base g Hwf) as [Hb|Hb]; rewrite Hb; lia.
Qed.

Lemma Ex_evo g t : wf_graphb g = true -> forall f,
  Ex (Kc g) (healthy (nlnls g)) t f = sumQ (map (fun y => evo_spec g t y * f y) (state_list g)).
Proof.
  intros Hwf. induction t as [|t IH]; intros f.
  - cbn [Ex evo_spec]. symmetry. apply sum_indicator; [apply all_states_NoDup|].
    apply healthy_in_states, Hwf.
  - cbn [Ex]. rewrite IH.
    rewrite (sumQ_map_ext _ (fun x => sumQ (map (fun y => evo_spec g t x * trans_spec g x y * f y) (state_list g)))).
    2:{ intros x Hx. rewrite (E_Kc_states g x f Hwf Hx), <- sumQ_map_scale.
        apply sumQ_map_ext. intros y _. ring. }
    rewrite (sumQ_swap (fun x y => evo_spec g t x * trans_spec g x y * f y)).
    apply sumQ_map_ext. intros y _. cbn [evo_spec]. rewrite <- sumQ_map_scale_r. reflexivity.
Qed.

Lemma marg_Ex g t i a : wf_graphb g = true ->
  marg g t i a = Ex (Kc g) (healthy (nlnls g)) t (indf i a).
Proof.
  intros Hwf. rewrite (Ex_evo g t Hwf). unfold marg. apply sumQ_map_ext. intros x _.
  unfold indf. destruct (a <=? digit i x)%nat; ring.
Qed.

(** * 4. The theorems *)
(** ** parameters *)
Lemma forallb_Forall2 {A B} (P : A -> B -> Prop) (p : A -> bool) (p' : B -> bool) l l' :
  Forall2 P l l' -> (forall a b, P a b -> p a = p' b) -> forallb p l = forallb p' l'.
Proof.
  intros H Hp. induction H as [|a b l l' Hab H IH]; cbn [forallb]; [reflexivity|].
  rewrite (Hp a b Hab), IH. reflexivity.
Qed.

Lemma skeleton_wf g g' : same_skeleton g g' -> wf_graphb g = true -> wf_graphb g' = true.
Proof.
  intros Hsk Hwf. pose proof (skeleton_lnls g g' Hsk) as Hl.
  destruct Hsk as [Hb [Hn He]]. unfold wf_graphb in *. rewrite <- Hb, <- Hl.
  rewrite <- (forallb_Forall2 arc_same (wf_edge g) (wf_edge g') _ _ He); [exact Hwf|].
  intros e e' [_ [Hp [Hc Hk]]]. unfold wf_edge, tumors. rewrite <- Hl, <- Hn, <- Hb, <- Hp, <- Hc, <- Hk.
  reflexivity.
Qed.

Theorem param_monotone : C14_param_monotone_stmt.
Proof.
  intros g g' t i a Hwf Hsk Hp Hp' Hle.
  pose proof (skeleton_wf g g' Hsk Hwf) as Hwf'.
  rewrite (marg_Ex g t i a Hwf), (marg_Ex g' t i a Hwf').
  unfold nlnls. rewrite <- (skeleton_lnls g g' Hsk).
  apply Ex_param_monotone; auto using Kc_wf, Kc_mono, Kc_le, indf_mono.
Qed.

(** ** one coordinate *)
Lemma Forall2_map_r {A B} (R : A -> B -> Prop) (f : A -> B) l :
  (forall a, In a l -> R a (f a)) -> Forall2 R l (map f l).
Proof.
  induction l as [|a l IH]; intros H; cbn [map]; constructor.
  - apply H. left. reflexivity.
  - apply IH. intros a' Ha'. apply H. right. exact Ha'.
Qed.

Lemma set_edge_arc_same ps e : arc_same e (set_edge ps e).
Proof. unfold set_edge. destruct (dict_get (e_name e) ps) as [[sp mi]|]; repeat split. Qed.

(** graphs obtained from one another with [set_edges] have the same skeleton *)
Lemma same_skeleton_set_edges g ps : same_skeleton g (set_edges g ps).
Proof.
  unfold same_skeleton, set_edges. cbn [g_base g_nodes g_edges]. repeat split.
  apply Forall2_map_r. intros e _. apply set_edge_arc_same.
Qed.

Theorem single_coordinate : C14_single_coordinate_stmt.
Proof.
  intros g name sp mi t i a Hwf Hp Hsp Hmi Hle.
  apply param_monotone; auto using same_skeleton_set_edges.
  - intros e' He'. cbn [set_edges g_edges] in He'. apply in_map_iff in He'.
    destruct He' as [e [<- He]]. unfold set_edge. cbn [dict_get].
    destruct (str_eqb (e_name e) name); cbn [e_spread e_micro]; [split; assumption | apply Hp, He].
  - unfold params_le. cbn [set_edges g_edges]. apply Forall2_map_r. intros e He.
    unfold set_edge. cbn [dict_get]. destruct (str_eqb (e_name e) name) eqn:En.
    + unfold arc_le. cbn [e_spread e_micro]. apply Hle; [exact He|].
      unfold str_eqb in En. apply String.eqb_eq in En. exact En.
    + apply arc_le_refl.
Qed.

(** ** time: the kernel is supported on y >= x *)
Lemma marg_sum g t i a :
  marg g t i a = sumQ (map (fun x => evo_spec g t x * indf i a x) (state_list g)).
Proof.
  unfold marg. apply sumQ_map_ext. intros x _. unfold indf. destruct (a <=? digit i x)%nat; ring.
Qed.

Lemma evo_step_expect g t f :
  sumQ (map (fun y => evo_spec g (S t) y * f y) (state_list g))
  = sumQ (map (fun x => evo_spec g t x * sumQ (map (fun y => trans_spec g x y * f y) (state_list g))) (state_list g)).
Proof.
  rewrite (sumQ_map_ext _ (fun y => sumQ (map (fun x => evo_spec g t x * trans_spec g x y * f y) (state_list g)))).
  2:{ intros y _. cbn [evo_spec]. rewrite <- sumQ_map_scale_r. reflexivity. }
  rewrite (sumQ_swap (fun y x => evo_spec g t x * trans_spec g x y * f y)).
  apply sumQ_map_ext. intros x _. rewrite <- sumQ_map_scale. apply sumQ_map_ext. intros y _. ring.
Qed.

(** irreversibility: one step never decreases the expectation of a function that is
    monotone on the state space *)
Lemma step_up g x f : wf_graphb g = true -> params_in_unit g -> In x (state_list g) ->
  (forall y, In y (state_list g) -> (forall i, (i < nlnls g)%nat -> (digit i x <= digit i y)%nat) -> f x <= f y) ->
  f x <= sumQ (map (fun y => trans_spec g x y * f y) (state_list g)).
Proof.
  intros Hwf Hp Hx Hf.
  assert (H1 : f x = sumQ (map (fun y => trans_spec g x y * f x) (state_list g))).
  { rewrite sumQ_map_scale_r, (row_sums g x Hwf Hx). ring. }
  rewrite H1 at 1. apply sumQ_map_le. intros y Hy.
  destruct (Qc_eq_dec (trans_spec g x y) 0) as [E0|Hne].
  - rewrite E0, !Qcmult_0_l. apply Qcle_refl.
  - assert (Hxy : f x <= f y).
    { apply Hf; [exact Hy|]. intros i Hi.
      apply (never_regresses_never_skips g x y Hwf Hx Hy Hne i Hi). }
    destruct (entries_in_unit_interval g x y Hwf Hp Hx Hy) as [H0 _].
    revert Hxy H0. generalize (f x) (f y) (trans_spec g x y). intros u v w. qc2q.
    generalize (this u) (this v) (this w). intros; nra.
Qed.

Theorem time_monotone : C14_time_monotone_stmt.
Proof.
  intros g t i a Hwf Hp. rewrite !marg_sum, evo_step_expect.
  apply sumQ_map_le. intros x Hx.
  assert (H : indf i a x <= sumQ (map (fun y => trans_spec g x y * indf i a y) (state_list g))).
  { apply step_up; auto. intros y Hy Hd. unfold indf.
    assert (Hdi : (digit i x <= digit i y)%nat).
    { destruct (Nat.lt_ge_cases i (nlnls g)) as [Hi|Hi]; [apply Hd, Hi|].
      apply all_states_In in Hx. apply all_states_In in Hy. unfold digit.
      rewrite !nth_overflow; lia. }
    destruct (a <=? digit i x)%nat eqn:E1; destruct (a <=? digit i y)%nat eqn:E2; try discriminate.
    apply Nat.leb_le in E1. apply Nat.leb_gt in E2. lia. }
  pose proof (evo_nonneg entries_in_unit_interval g t x Hwf Hp Hx) as H0.
  revert H H0. generalize (indf i a x) (sumQ (map (fun y => trans_spec g x y * indf i a y) (state_list g))) (evo_spec g t x).
  intros u v w. qc2q. generalize (this u) (this v) (this w). intros; nra.
Qed.

(** ** stochastically later diagnosis times (Abel summation) *)
Lemma abel (m : nat -> Qc) : (forall t, m t <= m (S t)) ->
  forall p p' k, length p = length p' -> (forall j, tail_sum j p <= tail_sum j p') ->
  m k * (sumQ p' - sumQ p)
  <= sumQ (map (fun '(t, w) => w * m t) (combine (seq k (length p')) p'))
     - sumQ (map (fun '(t, w) => w * m t) (combine (seq k (length p)) p)).
Proof.
  intros Hm. induction p as [|a r IH]; intros [|a' r'] k Hlen Ht; try discriminate.
  - cbn [length seq combine map sumQ]. replace (m k * (0 - 0)) with (0 - 0) by ring. apply Qcle_refl.
  - cbn [length seq combine map sumQ].
    assert (Ht' : forall j, tail_sum j r <= tail_sum j r') by (intros j; apply (Ht (S j))).
    pose proof (IH r' (S k) (eq_add_S _ _ Hlen) Ht') as H1.
    pose proof (Ht' 0%nat) as H2. unfold tail_sum in H2. cbn [skipn] in H2.
    pose proof (Hm k) as H3.
    revert H1 H2 H3.
    generalize (sumQ (map (fun '(t, w) => w * m t) (combine (seq (S k) (length r')) r')))
               (sumQ (map (fun '(t, w) => w * m t) (combine (seq (S k) (length r)) r)))
               (sumQ r) (sumQ r') (m k) (m (S k)).
    intros X' X R R' M M1. qc2q.
    generalize (this X') (this X) (this R) (this R') (this M) (this M1) (this a) (this a').
    intros. nra.
Qed.

Lemma time_marg_monotone g pm pm' i a : wf_graphb g = true -> params_in_unit g -> st_le pm pm' ->
  time_marg g pm i a <= time_marg g pm' i a.
Proof.
  intros Hwf Hp [Hlen [Hsum Ht]]. unfold time_marg.
  pose proof (abel (fun t => marg g t i a) (fun t => time_monotone g t i a Hwf Hp) pm pm' 0%nat Hlen Ht) as H.
  cbv beta in H. rewrite Hsum in H. revert H.
  generalize (sumQ (map (fun '(t, w) => w * marg g t i a) (combine (seq 0 (length pm')) pm')))
             (sumQ (map (fun '(t, w) => w * marg g t i a) (combine (seq 0 (length pm)) pm)))
             (marg g 0 i a) (sumQ pm').
  intros X' X M S'. qc2q. generalize (this X') (this X) (this M) (this S'). intros; nra.
Qed.

Theorem prior_marg_time : C14_prior_marg_stmt.
Proof.
  intros u pm i a Hlen. unfold prior_marg, time_marg, u_states. rewrite Hlen.
  set (L := combine (seq 0 (S (u_maxt u))) pm). set (g := u_graph u).
  rewrite (sumQ_map_ext _ (fun x => sumQ (map (fun tw : nat * Qc =>
             if (a <=? digit i x)%nat then snd tw * evo_spec g (fst tw) x else 0) L))).
  2:{ intros x _. destruct (a <=? digit i x)%nat.
      - unfold prior_spec. apply sumQ_map_ext. intros [t w] _. reflexivity.
      - rewrite sumQ_map_zero. reflexivity. }
  rewrite (sumQ_swap (fun x (tw : nat * Qc) => if (a <=? digit i x)%nat then snd tw * evo_spec g (fst tw) x else 0)).
  apply sumQ_map_ext. intros [t w] _. cbn [fst snd]. unfold marg. rewrite <- sumQ_map_scale.
  apply sumQ_map_ext. intros x _. destruct (a <=? digit i x)%nat; ring.
Qed.

Theorem later_diagnosis_monotone : C14_later_diagnosis_monotone_stmt.
Proof.
  intros u pm pm' i a Hwf Hp Hlen Hst.
  assert (Hlen' : length pm' = S (u_maxt u)) by (destruct Hst as [H _]; rewrite <- H; exact Hlen).
  rewrite (prior_marg_time u pm i a Hlen), (prior_marg_time u pm' i a Hlen').
  apply time_marg_monotone; assumption.
Qed.

(** ** unreachable LNLs *)
Lemma sumQ_nonzero_ex {A} (f : A -> Qc) l : sumQ (map f l) <> 0 -> exists a, In a l /\ f a <> 0.
Proof.
  induction l as [|a l IH]; cbn [map sumQ]; intros H; [congruence|].
  destruct (Qc_eq_dec (f a) 0) as [E0|Hne].
  - rewrite E0, Qcplus_0_l in H. destruct (IH H) as [b [Hb Hfb]]. exists b. split; [right|]; assumption.
  - exists a. split; [left; reflexivity|exact Hne].
Qed.

Lemma nth_index_of s l d : In s l -> nth (index_of s l) l d = s.
Proof.
  induction l as [|a l IH]; cbn [In index_of]; [tauto|]. intros H.
  destruct (str_eqb s a) eqn:E.
  - unfold str_eqb in E. apply String.eqb_eq in E. subst. reflexivity.
  - cbn [nth]. apply IH. destruct H as [H|H]; [|exact H]. subst.
    unfold str_eqb in E. rewrite String.eqb_refl in E. discriminate.
Qed.

Lemma digit_healthy k n : digit k (healthy n) = 0%nat.
Proof.
  unfold digit, healthy. revert k. induction n as [|n IH]; intros [|k]; cbn [repeat nth]; auto.
Qed.

(** with every parent that could infect it healthy or silent, the LNL stays healthy *)
Lemma stay_healthy_one g l x : wf_graphb g = true -> ~ reachable g l ->
  (forall p, In p (lnls g) -> ~ reachable g p -> digit (index_of p (lnls g)) x = 0%nat) ->
  stay_healthy g l x = 1.
Proof.
  intros Hwf Hnr Hpar. unfold stay_healthy.
  rewrite (prodQ_map_ext _ (fun _ => 1)); [apply prodQ_map_one|].
  intros e He. apply inc_edges_In in He. destruct He as [He Hc].
  assert (H0 : arc_prob g e x = 0); [|rewrite H0; ring].
  pose proof (wf_edges g e Hwf He) as Hwe. unfold wf_edge in Hwe.
  apply andb_true_iff in Hwe. destruct Hwe as [_ Hk].
  unfold arc_prob. destruct (e_kind e) eqn:Ek; [| |reflexivity].
  - destruct (Qc_eq_dec (e_spread e) 0) as [E0|Hne]; [exact E0|].
    exfalso. apply Hnr. rewrite <- Hc. apply reach_tumor; assumption.
  - destruct (Qc_eq_dec (e_spread e) 0) as [E0|Hne].
    + rewrite E0. destruct (parent_digit g e x) as [|[|p]]; try reflexivity.
      destruct (Nat.eqb (g_base g) 3); ring.
    + apply andb_true_iff in Hk. destruct Hk as [Hk _]. apply mem_In in Hk.
      assert (Hnp : ~ reachable g (e_parent e)).
      { intros Hr. apply Hnr. rewrite <- Hc. apply reach_lnl; assumption. }
      unfold parent_digit. rewrite (Hpar _ Hk Hnp). reflexivity.
Qed.

Theorem unreachable_support : C14_unreachable_support_stmt.
Proof.
  intros g l t x Hwf Hl Hnr Hx Hne. revert x Hx Hne l Hl Hnr.
  induction t as [|t IH]; intros y Hy Hne l Hl Hnr.
  - cbn [evo_spec] in Hne. destruct (list_eq_dec Nat.eq_dec y (healthy (nlnls g))) as [->|_]; [|congruence].
    apply digit_healthy.
  - cbn [evo_spec] in Hne. apply sumQ_nonzero_ex in Hne. destruct Hne as [x [Hx Hne]].
    assert (He : evo_spec g t x <> 0) by (intros E0; apply Hne; rewrite E0; ring).
    assert (Ht : trans_spec g x y <> 0) by (intros E0; apply Hne; rewrite E0; ring).
    pose proof (IH x Hx He) as Hinv.
    set (i := index_of l (lnls g)).
    assert (Hi : (i < length (lnls g))%nat) by (apply index_of_lt, Hl).
    assert (Hf : lnl_factor g x l (digit i x) (digit i y) <> 0).
    { intros E0. apply Ht. unfold trans_spec. apply prodQ_zero_in. apply in_map_iff.
      exists (i, l). split; [exact E0|].
      pose proof (combine_seq_nth (lnls g) EmptyString 0 i Hi) as Hin.
      unfold i in Hin at 2. rewrite (nth_index_of l (lnls g) EmptyString Hl) in Hin. exact Hin. }
    unfold i in Hf at 1. rewrite (Hinv l Hl Hnr) in Hf. fold i in Hf.
    fold i. destruct (digit i y) as [|[|d]]; [reflexivity| |]; cbn [lnl_factor] in Hf.
    + exfalso. apply Hf. rewrite (stay_healthy_one g l x Hwf Hnr Hinv). ring.
    + exfalso. apply Hf. reflexivity.
Qed.

Theorem unreachable_stays_healthy : C14_unreachable_stays_healthy_stmt.
Proof.
  intros g l t Hwf Hl Hnr. unfold marg.
  rewrite (sumQ_map_ext _ (fun _ => 0)); [apply sumQ_map_zero|].
  intros x Hx. destruct (1 <=? digit (index_of l (lnls g)) x)%nat eqn:E1; [|reflexivity].
  destruct (Qc_eq_dec (evo_spec g t x) 0) as [E0|Hne]; [exact E0|].
  pose proof (unreachable_support g l t x Hwf Hl Hnr Hx Hne) as H0.
  rewrite H0 in E1. discriminate.
Qed.

Theorem unreachable_cert_sound : C14_unreachable_cert_stmt.
Proof.
  intros g U l Hc Hl Hr. revert Hl. unfold unreachable_cert in Hc. rewrite forallb_forall in Hc.
  induction Hr as [e He Hk Hs | e He Hk Hs Hr IH]; intros Hl; specialize (Hc e He);
    apply mem_In in Hl; rewrite Hl in Hc; unfold is_growth, is_tumor_spread, Qc_eqb in Hc; rewrite Hk in Hc;
    destruct (Qc_eq_dec (e_spread e) 0) as [E0|_]; try contradiction; cbn [negb orb andb] in Hc.
  - discriminate.
  - apply IH. apply mem_In. exact Hc.
Qed.

(** ** executable forms *)
Lemma evo_vec_spec g t : evo_vec g t = map (evo_spec g t) (state_list g).
Proof.
  induction t as [|t IH]; cbn [evo_vec]; [reflexivity|].
  rewrite IH. unfold step_vec. apply map_ext. intros y. rewrite combine_map_r, map_map.
  cbn [evo_spec]. reflexivity.
Qed.

Lemma marg_of_spec g t i a : marg_of g (evo_vec g t) i a = marg g t i a.
Proof. unfold marg_of, marg. rewrite evo_vec_spec, combine_map_r, map_map. reflexivity. Qed.

Theorem marg_fast_correct : C14_marg_fast_stmt.
Proof.
  split; [|split].
  - intros g t i a. apply marg_of_spec.
  - intros g pm i a. unfold time_marg_fast, time_marg. apply sumQ_map_ext. intros [t w] _.
    unfold marg_fast. rewrite marg_of_spec. reflexivity.
  - intros g T. unfold marg_table. apply map_ext. intros t. cbv zeta. apply map_ext. intros i.
    rewrite !marg_of_spec. reflexivity.
Qed.

Lemma params_in_unitb_ok g : params_in_unitb g = true -> params_in_unit g.
Proof.
  unfold params_in_unitb, params_in_unit. rewrite forallb_forall. intros H e He.
  specialize (H e He). unfold unit_arcb in H. rewrite !andb_true_iff, !Qc_leb_spec in H. tauto.
Qed.

(** * Concrete objects for the non-vacuity examples of properties/C14.v *)
(** trinary graph, LNLs listed II, III, IV; the arc III -> II runs against the listing
    order; IV is unreachable (its only incoming arc T -> IV has spread 0) although it
    has an outgoing arc IV -> III with positive spread *)
Definition C14_ex_graph : graph :=
  set_edges (force_graph (build_graph 3
      [(("tumor", "T"), CList ["II"; "III"; "IV"]); (("lnl", "II"), CList []);
       (("lnl", "III"), CList ["II"]); (("lnl", "IV"), CList ["III"])]%string))
    [("TtoII", (qc 1 2, 1)); ("TtoIII", (qc 1 4, 1)); ("TtoIV", (0, 1));
     ("IIItoII", (qc 1 3, qc 1 2)); ("IVtoIII", (qc 1 2, qc 1 2));
     ("II", (qc 1 5, 1)); ("III", (qc 2 5, 1)); ("IV", (qc 1 2, 1))]%string.
(** the micro modifier of III -> II raised from 1/2 to 3/4, everything else fixed *)
Definition C14_ex_graph' : graph := set_edges C14_ex_graph [("IIItoII", (qc 1 3, qc 3 4))]%string.
Definition C14_ex_uni : uni :=
  {| u_graph := C14_ex_graph; u_mods := []; u_dists := []; u_maxt := 2 |}.
