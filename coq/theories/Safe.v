(** Safe: [likelihood(given_params=...)] of every model class (C12).

    Mirrors
    - lymph/utils.py            [safe_set_params]
    - lymph/types.py            [Model.named_params] (getter), [Model.set_named_params]
    - lymph/models/*.py         the head of [likelihood]:
          try: utils.safe_set_params(self, given_params)
          except ValueError: return -inf (log) / 0.0 (log=False)
    on top of the parameter plumbing of Params.v ([set_params] returns the partially
    updated object together with [None] when a setter raised ValueError).

    The numeric likelihood itself is a [Section] variable [lik : model -> R] for an
    arbitrary result type [R]: C12 does not depend on the numerical core.
    Executable definitions and the theorem statements only; proofs in SafeProofs.v. *)
From LymphModel Require Import Base States Linalg Graph Transition Observation Dist Unilateral Models Params ParamsStatements.
Local Open Scope nat_scope.
Local Open Scope string_scope.
Local Open Scope list_scope.

(** * The model *)
(** exceptions that [likelihood] does NOT catch *)
Inductive err := ExtraParamsError | KeyError.
(** outcome of [safe_set_params] *)
Inductive set_result := SetOk | SetValueError | SetRaise (e : err).

Definition path_mem (k : path) (l : list path) : bool := existsb (path_eqb k) l.

(** Model.named_params (getter):
      getattr(self, "_named_params", self.get_params(as_dict=True).keys())
    the default is evaluated eagerly, so [get_params] runs (and may raise) even when
    names were declared.  [np = None]: nothing declared. *)
Definition named_params (np : option (list path)) (m : model) : option (list path) :=
  match param_names m with
  | None => None
  | Some dflt => Some (match np with Some l => l | None => dflt end)
  end.

(** what a raising [get_params] raises: HPVUnilateral KeyError (no arc to "II"); Midline
    ValueError (cannot happen since 0d1d468, kept for type stability) *)
Definition get_params_error (m : model) : set_result :=
  match m with MMid _ => SetValueError | _ => SetRaise KeyError end.

(** Model.set_named_params( *args, **kwargs):
      if not set(named_params).issuperset(kwargs.keys()): raise ExtraParamsError
      new_params = dict(zip(named_params, args, strict=False)); new_params.update(kwargs)
      self.set_params( **new_params) *)
Definition set_named_params (np : option (list path)) (m : model) (a : args) (kw : kwargs) : model * set_result :=
  match named_params np m with
  | None => (m, get_params_error m)
  | Some names =>
      if forallb (fun k => path_mem k names) (map fst kw) then
        let new_params := kw_update kw (dict_of (combine names a)) in
        match set_params m [] new_params with
        | (m', Some _) => (m', SetOk)
        | (m', None) => (m', SetValueError)
        end
      else (m, SetRaise ExtraParamsError)
  end.

(** given_params: None, a list / array, or a dict *)
Inductive given := GNone | GList (a : args) | GDict (kw : kwargs).

(** utils.safe_set_params(model, params) *)
Definition safe_set_params (np : option (list path)) (m : model) (g : given) : model * set_result :=
  match g with
  | GNone => (m, SetOk)
  | GList a => set_named_params np m a []
  | GDict kw => set_named_params np m [] kw
  end.

Section Likelihood.
  Variable R : Type.
  (** the likelihood of the stored data under the model's current parameters
      ([_hmm_likelihood] / [_bn_likelihood], any [log], [t_stage], [mode]) *)
  Variable lik : model -> R.

  (** [LMinusInf]: -inf for log=True, 0.0 for log=False *)
  Inductive lres := LVal (r : R) | LMinusInf | LRaise (e : err).

  (** Model.likelihood(given_params=g): the object afterwards and the returned value *)
  Definition likelihood_given (np : option (list path)) (m : model) (g : given) : model * lres :=
    let '(m', r) := safe_set_params np m g in
    (m', match r with
         | SetOk => LVal (lik m')
         | SetValueError => LMinusInf
         | SetRaise e => LRaise e
         end).

  (** a sequence of evaluations on the same object (what a sampler does) *)
  Fixpoint run_given (np : option (list path)) (m : model) (gs : list given) : model * list lres :=
    match gs with
    | [] => (m, [])
    | g :: r => let '(m1, x) := likelihood_given np m g in
                let '(m2, xs) := run_given np m1 r in (m2, x :: xs)
    end.
  Definition after_given (np : option (list path)) (m : model) (gs : list given) : model := fst (run_given np m gs).
End Likelihood.
Arguments LVal {R} r.
Arguments LMinusInf {R}.
Arguments LRaise {R} e.

(** * What the correspondence check prints *)
(** 0 = scored, 1 = -inf, 2 = ExtraParamsError, 3 = KeyError *)
Definition out_lres {R} (x : lres R) : nat :=
  match x with LVal _ => 0 | LMinusInf => 1 | LRaise ExtraParamsError => 2 | LRaise KeyError => 3 end.
Definition out_dists (u : uni) : list (string * list (string * (Z * Z))) :=
  flat_map (fun td => match snd td with
                      | Frozen _ => []
                      | Param _ kws => [(fst td, map (fun kv => (fst kv, qout (snd kv))) kws)]
                      end) (u_dists u).
(** per evaluation: result tag, the configuration afterwards (as Params.out_model) and
    the keywords of every parametric distribution of every leaf *)
Fixpoint out_run (np : option (list path)) (m : model) (gs : list given) :=
  match gs with
  | [] => []
  | g :: r => let '(m1, x) := likelihood_given unit (fun _ => tt) np m g in
              (out_lres x, out_model m1, map (fun pu => (fst pu, out_dists (snd pu))) (model_leaves m1)) :: out_run np m1 r
  end.

(** * Configuration (skeleton) of a model: everything but the settable parameter values *)
(** The settable numbers are: spread / growth probability of every arc, micro modifier of
    trinary LNL arcs, keywords of parametric distributions, mixing parameter, midext_prob.
    The arcs of a Midline model's [unknown] sub-model are never set by [set_params] (only its
    distributions are), so they belong to the configuration. *)
Definition sk_edge (tri : bool) (e : edge) : edge :=
  if has_micro tri e then with_micro (with_spread e 0%Qc) 0%Qc else with_spread e 0%Qc.
Definition sk_dist (d : dist) : dist :=
  match d with Frozen w => Frozen w | Param f kws => Param f (map (fun kv => (fst kv, 0%Qc)) kws) end.
Definition sk_dists (ds : list (string * dist)) : list (string * dist) := map (fun td => (fst td, sk_dist (snd td))) ds.
Definition sk_uni_dists (u : uni) : uni := u_with_dists u (sk_dists (u_dists u)).
Definition sk_uni (u : uni) : uni :=
  sk_uni_dists (u_with_graph u (with_edges (u_graph u) (map (sk_edge (u_tri u)) (u_edges u)))).
Definition sk_bi (b : bilateral) : bilateral := b_with b (sk_uni (b_ipsi b)) (sk_uni (b_contra b)).
Definition sk_bi_dists (b : bilateral) : bilateral := b_with b (sk_uni_dists (b_ipsi b)) (sk_uni_dists (b_contra b)).
Definition sk_mid (m : midline) : midline :=
  {| ml_ext := sk_bi (ml_ext m); ml_noext := sk_bi (ml_noext m); ml_central := option_map sk_bi (ml_central m);
     ml_unknown := option_map sk_bi_dists (ml_unknown m);
     ml_mixing := option_map (fun _ => 0%Qc) (ml_mixing m); ml_midext := 0%Qc; ml_evo := ml_evo m; ml_symL := ml_symL m |}.
Definition sk_hpv (h : hpvmodel) : hpvmodel := h_with h (sk_uni (h_hpv h)) (sk_uni (h_nohpv h)).
Definition sk_model (m : model) : model :=
  match m with
  | MUni u => MUni (sk_uni u) | MBi b => MBi (sk_bi b) | MMid ml => MMid (sk_mid ml) | MHpv h => MHpv (sk_hpv h)
  end.
(** two objects of the same class, graph, modalities, frozen distributions, families,
    max_time and flags; their parameter values may differ arbitrarily *)
Definition same_config (m1 m2 : model) : Prop := sk_model m1 = sk_model m2.

(** the two forms of a full proposal: a list in get_params order, or a dict *)
Definition both_forms (names : list path) (v : list val) (g : given) : Prop := g = GList v \/ g = GDict (combine names v).

(** * Midline: documented names, well-formedness, validity of a full proposal *)
Definition opt_list {A} (o : option A) : list A := match o with Some x => [x] | None => [] end.
Definition m_bis (m : midline) : list bilateral := [ml_ext m; ml_noext m] ++ opt_list (ml_central m) ++ opt_list (ml_unknown m).
Definition m_unis (m : midline) : list uni := flat_map (fun b => [b_ipsi b; b_contra b]) (m_bis m).
Definition m_ei (m : midline) : uni := b_ipsi (ml_ext m).
(** all sub-models come from the same graph dictionary / distributions; tumor spread is
    asymmetric in ext / noext and symmetric in central; the LNL symmetry is shared *)
Definition m_names_ok (m : midline) : bool :=
  forallb b_names_ok (m_bis m)
  && forallb (fun b => same_shape (m_ei m) (b_ipsi b) && same_dist_keys (m_ei m) (b_ipsi b)) (m_bis m)
  && negb (b_symT (ml_ext m)) && negb (b_symT (ml_noext m))
  && match ml_central m with Some c => b_symT c | None => true end
  && forallb (fun b => Bool.eqb (b_symL b) (ml_symL m)) (m_bis m).
(** spread parameters as get_params reports them (per use_mixing x lnl symmetry) *)
Definition m_spread_items (m : midline) : list (path * Qc) :=
  let ei := b_ipsi (ml_ext m) in let ec := b_contra (ml_ext m) in let nc := b_contra (ml_noext m) in
  match ml_mixing m, ml_symL m with
  | Some mix, true => pre ["ipsi"] (u_tumor_items ei) ++ pre ["contra"] (u_tumor_items nc) ++ [(["mixing"], mix)] ++ u_lnl_items ei
  | Some mix, false => pre ["ipsi"] (u_tumor_items ei ++ u_lnl_items ei) ++ pre ["contra"] (u_tumor_items nc ++ u_lnl_items ec)
                       ++ [(["mixing"], mix)]
  | None, true => pre ["ipsi"] (u_tumor_items ei) ++ pre ["noext"; "contra"] (u_tumor_items nc)
                  ++ pre ["ext"; "contra"] (u_tumor_items ec) ++ u_lnl_items ei
  | None, false => pre ["ipsi"] (u_tumor_items ei ++ u_lnl_items ei) ++ pre ["noext"; "contra"] (u_tumor_items nc)
                   ++ pre ["ext"; "contra"] (u_tumor_items ec) ++ pre ["contra"] (u_lnl_items ec)
  end.
Definition m_items (m : midline) : list (path * Qc) :=
  m_spread_items m ++ u_dist_items (m_ei m) ++ [(["midext"; "prob"], ml_midext m)].
Definition m_names (m : midline) : list path := map fst (m_items m).
(** a full proposal [v] (in the order of [m_names]) is acceptable: every spread value, the
    mixing parameter and midext_prob lie in [0,1]; every sub-model's distributions accept *)
Definition m_accepts (m : midline) (v : list val) : bool :=
  let ns := length (m_spread_items m) in let nd := length (u_dist_items (m_ei m)) in
  is_some (all_unit (firstn ns v))
  && is_some (all_unit (skipn (ns + nd) v))
  && forallb (fun u => is_some (dists_put (u_maxt u) (u_dists u) (firstn nd (skipn ns v)))) (m_unis m).

(** get_params reports exactly [m_items], each name once (a C10-type fact about
    [m_get_params]; the Midline theorems below take it as an explicit premise) *)
Definition mid_names_nodup_stmt : Prop :=
  forall m, m_names_ok m = true -> m_got m = Some (m_items m) /\ NoDup (m_names m).

(** after a keyword call with all names that did not raise, get_params reports exactly the
    given values (the C10 keyword round trip for Midline; premise of the "model afterwards has
    exactly v" half of [C12_mid_given_params_scored_stmt]) *)
Definition mid_set_get_keyword_stmt : Prop :=
  forall m v, m_names_ok m = true -> length v = length (m_items m) ->
    let r := m_set_params m [] (kw_of (m_names m) v) in
    snd r <> None ->
    option_map (map snd) (m_got (fst r)) = Some v /\ option_map (map fst) (m_got (fst r)) = Some (m_names m).

(** * Theorem statements *)
(** ** given_params_scored: all values valid => the result is the likelihood of the model
       after the set, and that model has exactly v (names and order of get_params) *)
Definition C12_uni_given_params_scored_stmt : Prop :=
  forall R (lik : model -> R) u v g, u_names_ok u = true -> length v = length (u_items u) ->
    u_accepts u (vals v) = true -> both_forms (u_names u) (vals v) g ->
    let m' := MUni (fst (u_set_params u [] (kw_of (u_names u) v))) in
    likelihood_given R lik None (MUni u) g = (m', LVal (lik m'))
    /\ param_names m' = Some (u_names u) /\ param_values m' = Some v.
Definition C12_bi_given_params_scored_stmt : Prop :=
  forall R (lik : model -> R) b v g, b_names_ok b = true -> length v = length (b_items b) ->
    b_accepts b [] (kw_of (map fst (b_items b)) v) = true -> both_forms (map fst (b_items b)) (vals v) g ->
    let m' := MBi (fst (b_set_params b [] (kw_of (map fst (b_items b)) v))) in
    likelihood_given R lik None (MBi b) g = (m', LVal (lik m'))
    /\ param_names m' = Some (map fst (b_items b)) /\ param_values m' = Some v.
Definition C12_mid_given_params_scored_stmt : Prop :=
  forall R (lik : model -> R) m v g, m_names_ok m = true -> length v = length (m_items m) ->
    m_accepts m (vals v) = true -> both_forms (m_names m) (vals v) g ->
    let m' := MMid (fst (m_set_params m [] (kw_of (m_names m) v))) in
    likelihood_given R lik None (MMid m) g = (m', LVal (lik m'))
    /\ param_names m' = Some (m_names m) /\ param_values m' = Some v.
(** declared named_params that are a literal subset of the parameter names: never a raise;
    if scored, then at a model holding exactly the proposed values under those names *)
Definition C12_uni_named_subset_scored_stmt : Prop :=
  forall R (lik : model -> R) u names v g, u_names_ok u = true -> NoDup names -> incl names (u_names u) ->
    length v = length names -> both_forms names (vals v) g ->
    let r := likelihood_given R lik (Some names) (MUni u) g in
    snd r = LMinusInf \/
    (snd r = LVal (lik (fst r)) /\
     forall k q, In (k, q) (combine names v) -> option_map (kw_get k) (param_items (fst r)) = Some (Some q)).
Definition C12_bi_named_subset_scored_stmt : Prop :=
  forall R (lik : model -> R) b names v g, b_names_ok b = true -> NoDup names -> incl names (map fst (b_items b)) ->
    length v = length names -> both_forms names (vals v) g ->
    let r := likelihood_given R lik (Some names) (MBi b) g in
    snd r = LMinusInf \/
    (snd r = LVal (lik (fst r)) /\
     forall k q, In (k, q) (combine names v) -> option_map (kw_get k) (param_items (fst r)) = Some (Some q)).

(** ** invalid_gives_minus_inf: a full proposal (list or dict) that is not acceptable is
       answered with -inf: never a value, never an exception; and ONE invalid value at ANY
       position makes an otherwise arbitrary proposal unacceptable *)
Definition C12_uni_invalid_gives_minus_inf_stmt : Prop :=
  forall R (lik : model -> R) u (v : list val) g, u_names_ok u = true -> length v = length (u_items u) ->
    u_accepts u v = false -> both_forms (u_names u) v g ->
    snd (likelihood_given R lik None (MUni u) g) = LMinusInf.
Definition C12_uni_invalid_position_stmt : Prop :=
  forall u (v : list val) i x, length v = length (u_items u) -> nth_error v i = Some x ->
    (x = Bad \/ (i < u_num_spread u /\ check_unit x = None)) -> u_accepts u v = false.
Definition C12_bi_invalid_gives_minus_inf_stmt : Prop :=
  forall R (lik : model -> R) b (v : list val) g, b_names_ok b = true -> length v = length (b_items b) ->
    b_accepts b [] (combine (map fst (b_items b)) v) = false -> both_forms (map fst (b_items b)) v g ->
    snd (likelihood_given R lik None (MBi b) g) = LMinusInf.
Definition C12_bi_invalid_position_stmt : Prop :=
  forall b (v : list val) i x, b_names_ok b = true -> length v = length (b_items b) -> nth_error v i = Some x ->
    (x = Bad \/ (i < b_num_spread b /\ check_unit x = None)) ->
    b_accepts b [] (combine (map fst (b_items b)) v) = false.
Definition C12_mid_invalid_gives_minus_inf_stmt : Prop :=
  forall R (lik : model -> R) m (v : list val) g, m_names_ok m = true -> length v = length (m_items m) ->
    m_accepts m v = false -> both_forms (m_names m) v g ->
    snd (likelihood_given R lik None (MMid m) g) = LMinusInf.
Definition C12_mid_invalid_position_stmt : Prop :=
  forall m (v : list val) i x, length v = length (m_items m) -> nth_error v i = Some x ->
    (x = Bad \/ ((i < length (m_spread_items m) \/ i = length (m_items m) - 1) /\ check_unit x = None)) ->
    m_accepts m v = false.

(** ** rejected_then_valid: after ANY sequence of evaluations (rejected or not, list or dict,
       any length, any keys) from ANY parameter state of a configuration, an acceptable full
       proposal returns what it returns on any other object of that configuration (e.g. a
       fresh one), and leaves the very same object behind *)
Definition C12_uni_rejected_then_valid_stmt : Prop :=
  forall R (lik : model -> R) u u0 gs v g, u_names_ok u = true -> same_config (MUni u) (MUni u0) ->
    length v = length (u_items u) -> u_accepts u (vals v) = true -> both_forms (u_names u) (vals v) g ->
    likelihood_given R lik None (after_given R lik None (MUni u) gs) g = likelihood_given R lik None (MUni u0) g.
Definition C12_bi_rejected_then_valid_stmt : Prop :=
  forall R (lik : model -> R) b b0 gs v g, b_names_ok b = true -> same_config (MBi b) (MBi b0) ->
    length v = length (b_items b) -> b_accepts b [] (kw_of (map fst (b_items b)) v) = true ->
    both_forms (map fst (b_items b)) (vals v) g ->
    likelihood_given R lik None (after_given R lik None (MBi b) gs) g = likelihood_given R lik None (MBi b0) g.
Definition C12_mid_rejected_then_valid_stmt : Prop :=
  forall R (lik : model -> R) m m0 gs v g, m_names_ok m = true -> same_config (MMid m) (MMid m0) ->
    length v = length (m_items m) -> m_accepts m (vals v) = true -> both_forms (m_names m) (vals v) g ->
    likelihood_given R lik None (after_given R lik None (MMid m) gs) g = likelihood_given R lik None (MMid m0) g.
(** the configuration never changes, whatever is evaluated (all four classes) *)
Definition C12_config_preserved_stmt : Prop :=
  forall R (lik : model -> R) np m gs, same_config (after_given R lik np m gs) m.
(** "a full assignment is absorbing": the object after an acceptable full keyword
    assignment depends on the configuration and the assignment only *)
Definition C12_uni_full_assignment_absorbing_stmt : Prop :=
  forall u1 u2 v, u_names_ok u1 = true -> sk_uni u1 = sk_uni u2 -> length v = length (u_items u1) ->
    u_accepts u1 (vals v) = true ->
    u_set_params u1 [] (kw_of (u_names u1) v) = u_set_params u2 [] (kw_of (u_names u1) v)
    /\ snd (u_set_params u1 [] (kw_of (u_names u1) v)) = Some [].
Definition C12_bi_full_assignment_absorbing_stmt : Prop :=
  forall b1 b2 v, b_names_ok b1 = true -> sk_bi b1 = sk_bi b2 -> length v = length (b_items b1) ->
    b_accepts b1 [] (kw_of (map fst (b_items b1)) v) = true ->
    b_set_params b1 [] (kw_of (map fst (b_items b1)) v) = b_set_params b2 [] (kw_of (map fst (b_items b1)) v)
    /\ snd (b_set_params b1 [] (kw_of (map fst (b_items b1)) v)) = Some [].
(** Midline: also from an out-of-sync state (nothing is assumed about the values held by
    m1, m2), including the recomputed ext.contra mixture *)
Definition C12_mid_full_assignment_absorbing_stmt : Prop :=
  forall m1 m2 v, m_names_ok m1 = true -> sk_mid m1 = sk_mid m2 -> length v = length (m_items m1) ->
    m_accepts m1 (vals v) = true ->
    m_set_params m1 [] (kw_of (m_names m1) v) = m_set_params m2 [] (kw_of (m_names m1) v)
    /\ snd (m_set_params m1 [] (kw_of (m_names m1) v)) = Some [].

(** ** failed_dist_update_restores *)
Definition C12_failed_dist_update_restores_stmt : Prop :=
  forall maxt d a kw, snd (dist_set_params maxt d a kw) = None -> fst (dist_set_params maxt d a kw) = d.
(** ... hence no call of a leaf's [set_params] / [set_distribution_params] (the only place where
    any model class touches distributions), accepted or rejected, ever leaves a distribution
    whose pmf raises *)
Definition u_dists_valid (u : uni) : bool := forallb (fun td => dist_valid (u_maxt u) (snd td)) (u_dists u).
Definition C12_leaf_dists_stay_valid_stmt : Prop :=
  forall u a kw, u_dists_valid u = true ->
    u_dists_valid (fst (u_set_distribution_params u a kw)) = true /\ u_dists_valid (fst (u_set_params u a kw)) = true.

(** ** HPVUnilateral (known finding D8): valid proposals are "scored" but not at v, and an
       out-of-range value under an hpv_* name is not rejected *)
Definition C12_hpv_not_at_v_refuted_stmt : Prop :=
  exists (h : hpvmodel) (names : list path) (v : list Qc),
    param_names (MHpv h) = Some names /\ length v = length names /\ forallb in_unit v = true /\
    (forall R (lik : model -> R) g, both_forms names (vals v) g ->
       let r := likelihood_given R lik None (MHpv h) g in
       snd r = LVal (lik (fst r)) /\ param_values (fst r) <> Some v).
Definition C12_hpv_invalid_not_rejected_refuted_stmt : Prop :=
  exists (h : hpvmodel) (names : list path) (v : list val),
    param_names (MHpv h) = Some names /\ length v = length names /\ In Bad v /\ In (V (qc 2 1)) v /\
    (forall R (lik : model -> R) g, both_forms names v g ->
       exists r, snd (likelihood_given R lik None (MHpv h) g) = LVal r).
