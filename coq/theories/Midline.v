(** Midline: numerical core of [models.Midline] — midext_evo,
    contra_state_dist_evo (both branches of use_midext_evo), the joint over
    (extension, ipsi, contra), the cohort likelihood (ext / noext / unknown = sum /
    central), posterior / risk slices, and the mixing of tumour spread; plus the
    generative-chain Spec.  Executable definitions only. *)
From LymphModel Require Import Base States Linalg Graph Transition Observation Dist Unilateral Models Bilateral.
Local Open Scope nat_scope.
Open Scope Qc_scope.

Definition ml_maxt (ml : midline) : nat := u_maxt (b_ipsi (ml_ext ml)).

(** Midline.midext_evo: rows ((1-p)^t, 1 - (1-p)^t) *)
Definition midext_evo (ml : midline) : list (Qc * Qc) :=
  map (fun t => let a := qpow (1 - ml_midext ml) t in (a, 1 - a)) (seq 0 (S (ml_maxt ml))).

(** the recursion of contra_state_dist_evo for use_midext_evo = True:
    ext[t+1] = (p * noext'[t] + ext[t]) @ T_ext *)
Fixpoint ext_rows (p : Qc) (Text : mat) (w : nat) (noext' : list vec) (cur : vec) : list vec :=
  match noext' with
  | [] => []
  | r :: rest =>
      match rest with
      | [] => [cur]
      | _ => cur :: ext_rows p Text w rest (vecmat_w w (vadd (vscale p r) cur) Text)
      end
  end.

(** Midline.contra_state_dist_evo -> (noext_evo, ext_evo) *)
Definition contra_state_dist_evo (ml : midline) : list vec * list vec :=
  let noext := state_dist_evo (b_contra (ml_noext ml)) in
  let p := ml_midext ml in
  if ml_evo ml then
    let noext' := map2 (fun '(a, _) r => vscale a r) (midext_evo ml) noext in
    let w := nstates (b_contra (ml_ext ml)) in
    (noext', ext_rows p (transition_matrix (b_contra (ml_ext ml))) w noext' (zeros w))
  else
    (map (vscale (1 - p)) noext, map (vscale p) (state_dist_evo (b_contra (ml_ext ml)))).

(** Midline.state_dist(t_stage) (central = False): (joint for noext, joint for ext) *)
Definition ml_state_dist (ml : midline) (t : string) : res (mat * mat) :=
  bind (get_pmf (b_ipsi (ml_ext ml)) t) (fun pm =>
    let ie := state_dist_evo (b_ipsi (ml_ext ml)) in
    let '(ne, ee) := contra_state_dist_evo ml in
    let ni := nstates (b_ipsi (ml_ext ml)) in
    inr (joint_of_evos ni ie pm ne, joint_of_evos ni ie pm ee)).
Definition ml_state_dist_central (ml : midline) (t : string) (hmm : bool) : res mat :=
  match ml_central ml with None => inl MAttr | Some c => bi_state_dist c t hmm end.

(** sub-cohorts held by the sub-models; [None] = nothing loaded into that sub-model *)
Record ml_data := { d_ext : list bpatient; d_noext : list bpatient;
                    d_central : option (list bpatient); d_unknown : option (list bpatient) }.

(** Midline._hmm_likelihood: factors of the cohort likelihood *)
Definition ml_stage_factors (ml : midline) (data : ml_data) (ie : list vec) (ne ee : list vec) (stage : string) : res vec :=
  bind (get_pmf (b_ipsi (ml_ext ml)) stage) (fun pm =>
    let ni := nstates (b_ipsi (ml_ext ml)) in
    let je := joint_of_evos ni ie pm ee in
    let jn := joint_of_evos ni ie pm ne in
    bind (bi_llhs_of_joint (ml_ext ml) (d_ext data) (Some stage) je) (fun le =>
    bind (bi_llhs_of_joint (ml_noext ml) (d_noext data) (Some stage) jn) (fun ln =>
      match ml_unknown ml, d_unknown data with
      | Some um, Some du =>
          bind (bi_llhs_of_joint um du (Some stage) (madd je jn)) (fun lu => inr (le ++ ln ++ lu))
      | _, _ => inr (le ++ ln)
      end))).
Definition ml_t_stages (ml : midline) : list string := bi_t_stages (ml_ext ml).
Definition ml_hmm_likelihood_factors (ml : midline) (data : ml_data) (t : option string) : res vec :=
  let ie := state_dist_evo (b_ipsi (ml_ext ml)) in
  let '(ne, ee) := contra_state_dist_evo ml in
  let stages := match t with None => ml_t_stages ml | Some ts => [ts] end in
  bind (sequence (map (ml_stage_factors ml data ie ne ee) stages)) (fun ls =>
    match ml_central ml with
    | None => inr (concat ls)
    | Some c =>
        match d_central data with
        | None => inl MAttr
        | Some dc => bind (bi_hmm_likelihood_factors c dc t) (fun lc => inr (concat ls ++ lc))
        end
    end).

(** posterior_state_dist / marginalize slices: midext = None (sum), Some b (slice;
    the posterior normalises the slice, marginalize does not) *)
Definition msum (M : mat) : Qc := sumQ (map sumQ M).
Definition ml_prior_slice (sd : mat * mat) (midext : option bool) (normalise : bool) : option mat :=
  match midext with
  | None => Some (madd (fst sd) (snd sd))
  | Some e => let M := if e then snd sd else fst sd in
              if normalise then (if Qc_eqb (msum M) 0 then None else Some (map (map (fun a => a / msum M)) M))
              else Some M
  end.
Definition ml_risk (ml : midline) (ii ic : pattern) (di dc : diagnosis) (t : string) (midext : option bool)
  : res (option Qc) :=
  bind (ml_state_dist ml t) (fun sd =>
    match ml_prior_slice sd midext true with
    | None => inr None
    | Some prior =>
        bind (bi_posterior_of (ml_ext ml) prior di dc) (fun po =>
          match po with
          | None => inr None
          | Some post => bind (bi_marginalize_of (ml_ext ml) ii ic post) (fun r => inr (Some r))
          end)
    end).
Definition ml_risk_central (ml : midline) (ii ic : pattern) (di dc : diagnosis) (t : string) : res (option Qc) :=
  bind (ml_state_dist_central ml t true) (fun prior =>
    bind (bi_posterior_of (ml_ext ml) prior di dc) (fun po =>
      match po with
      | None => inr None
      | Some post => bind (bi_marginalize_of (ml_ext ml) ii ic post) (fun r => inr (Some r))
      end)).

(** the mixing of the tumour spread (set_tumor_spread_params, use_mixing) *)
Definition mixed_spread (alpha ipsi noext_contra : Qc) : Qc := alpha * ipsi + (1 - alpha) * noext_contra.

(** * Spec: the generative chain on (extension e, ipsi state, contra state) *)
(** contralateral joint with the extension flag: P(e_t = e, X^c_t = x) *)
Fixpoint chain_contra (ml : midline) (t : nat) (e : bool) (x : state) : Qc :=
  let gn := u_graph (b_contra (ml_noext ml)) in
  let ge := u_graph (b_contra (ml_ext ml)) in
  let p := ml_midext ml in
  match t with
  | O => if e then 0 else (if list_eq_dec Nat.eq_dec x (healthy (nlnls gn)) then 1 else 0)
  | S t' =>
      if e then
        (* extended now: was extended and moved with T_ext, or extends in this step
           and moves with T_ext *)
        sumQ (map (fun y => (chain_contra ml t' true y + p * chain_contra ml t' false y) * trans_spec ge y x)
                  (state_list ge))
      else
        sumQ (map (fun y => (1 - p) * chain_contra ml t' false y * trans_spec gn y x) (state_list gn))
  end.
(** static-coin variant (use_midext_evo = False) *)
Definition static_contra (ml : midline) (t : nat) (e : bool) (x : state) : Qc :=
  if e then ml_midext ml * evo_spec (u_graph (b_contra (ml_ext ml))) t x
  else (1 - ml_midext ml) * evo_spec (u_graph (b_contra (ml_noext ml))) t x.
Definition ml_contra_spec (ml : midline) := if ml_evo ml then chain_contra ml else static_contra ml.
Definition ml_joint_spec (ml : midline) (pm : vec) (e : bool) (xi xc : state) : Qc :=
  sumQ (map (fun '(t, w) => w * evo_spec (u_graph (b_ipsi (ml_ext ml))) t xi * ml_contra_spec ml t e xc)
            (combine (seq 0 (S (ml_maxt ml))) pm)).
