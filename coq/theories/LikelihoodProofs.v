(** LikelihoodProofs: proofs of the C01 statements of UniStatements.v.
    The heart is [encoding_matvec]: for a diagnosis with only binary findings the
    Kronecker-product encoding that the code builds, multiplied with the
    observation matrix, is the per-state probability of the recorded findings
    ([findings_prob]); unrecorded findings are summed out and contribute 1. *)
From LymphModel Require Import Base States Linalg Graph Transition Observation Dist Unilateral UniStatements.
Local Open Scope nat_scope.
Open Scope Qc_scope.

(** * List helpers *)
Lemma forallb_ext_in {A} (f g : A -> bool) l :
  (forall a, In a l -> f a = g a) -> forallb f l = forallb g l.
Proof.
  induction l as [|a l IH]; intros H; cbn [forallb]; [reflexivity|].
  rewrite H by (left; reflexivity). rewrite IH; [reflexivity|].
  intros a' Ha'. apply H. right. exact Ha'.
Qed.
Lemma flat_map_ext_in {A B} (f g : A -> list B) l :
  (forall a, In a l -> f a = g a) -> flat_map f l = flat_map g l.
Proof.
  induction l as [|a l IH]; intros H; cbn [flat_map]; [reflexivity|].
  rewrite H by (left; reflexivity). rewrite IH; [reflexivity|].
  intros a' Ha'. apply H. right. exact Ha'.
Qed.
Lemma flat_map_map {A B C} (h : B -> list C) (f : A -> B) l :
  flat_map h (map f l) = flat_map (fun x => h (f x)) l.
Proof. induction l as [|a l IH]; cbn [map flat_map]; [reflexivity|]. rewrite IH. reflexivity. Qed.
Lemma map_repeat' {A B} (g : A -> B) a k : map g (repeat a k) = repeat (g a) k.
Proof. induction k as [|k IH]; cbn [repeat map]; [reflexivity|]. rewrite IH. reflexivity. Qed.
Lemma map_tile {A B} (g : A -> B) k l : map g (tile k l) = tile k (map g l).
Proof. induction k as [|k IH]; cbn [tile]; [reflexivity|]. rewrite map_app, IH. reflexivity. Qed.
Lemma map_repeat_each {A B} (g : A -> B) k l : map g (repeat_each k l) = repeat_each k (map g l).
Proof.
  unfold repeat_each. rewrite map_flat_map, flat_map_map. apply flat_map_ext.
  intros a. apply map_repeat'.
Qed.
Lemma map_nth_seq {A} (el : list A) d : map (fun i => nth i el d) (seq 0 (length el)) = el.
Proof.
  induction el as [|a el IH]; cbn [length seq map nth]; [reflexivity|].
  f_equal. rewrite <- seq_shift, map_map. exact IH.
Qed.
Lemma skipn_skipn' {A} a n (l : list A) : skipn (a + n) l = skipn n (skipn a l).
Proof.
  revert l. induction a as [|a IH]; intros l; cbn [Nat.add skipn]; [reflexivity|].
  destruct l as [|x l]; [destruct n; reflexivity|]. apply IH.
Qed.

(** [sequence] of a pointwise successful map *)
Lemma sequence_map_inr {A B} (f : A -> res B) (g : A -> B) l :
  (forall a, In a l -> f a = inr (g a)) -> sequence (map f l) = inr (map g l).
Proof.
  induction l as [|a l IH]; intros H; cbn [map sequence]; [reflexivity|].
  rewrite H by (left; reflexivity). cbn [bind]. rewrite IH; [reflexivity|].
  intros a' Ha'. apply H. right. exact Ha'.
Qed.
Lemma sequence_length {A} (l : list (res A)) r : sequence l = inr r -> length r = length l.
Proof.
  revert r. induction l as [|a l IH]; intros r; cbn [sequence].
  - intros H. inversion H. reflexivity.
  - destruct a as [e|a]; cbn [bind]; [discriminate|].
    destruct (sequence l) as [e|t]; cbn [bind]; [discriminate|].
    intros H. inversion H. cbn [length]. f_equal. apply IH. reflexivity.
Qed.

(** * [compute_encoding] column by column *)
Lemma tile_row_spec {A} (el : list A) d (b n j : nat) : (j < n)%nat -> length el = b ->
  tile_and_repeat_row el (b ^ j) (b ^ (n - j - 1))
  = map (fun x => nth (digit j x) el d) (all_states b n).
Proof.
  intros Hj Hl. subst b.
  rewrite <- (map_map (digit j) (fun i => nth i el d)).
  rewrite digits_of_all_states by exact Hj.
  unfold state_idx_col, tile_and_repeat_row.
  rewrite map_repeat_each, map_tile, map_nth_seq. reflexivity.
Qed.

Definition enc_step (b n : nat) (p : pattern) :=
  fun (acc : option bvec) '((j, l) : nat * string) =>
      match acc with None => None | Some enc =>
        match pat_get l p with
        | None => Some enc
        | Some ind =>
            match element b ind with
            | None => None
            | Some el => Some (map2 andb enc (tile_and_repeat_row el (Nat.pow b j) (Nat.pow b (n - j - 1))))
            end
        end
      end.
Lemma compute_encoding_unfold lnls p b :
  compute_encoding lnls p b
  = fold_left (enc_step b (length lnls) p) (combine (seq 0 (length lnls)) lnls)
              (Some (repeat true (b ^ length lnls))).
Proof. reflexivity. Qed.

(** does LNL [l] match digit [d] / is its indicator encodable in base [b] *)
Definition mpos (b : nat) (p : pattern) (l : string) (d : nat) : bool :=
  match pat_get l p with None => true | Some i => matches_ind b i d end.
Definition enc_okb (b : nat) (p : pattern) (l : string) : bool :=
  match pat_get l p with
  | None => true
  | Some i => match element b i with Some _ => true | None => false end
  end.

Lemma matches_pattern_mpos lnls p b x :
  matches_pattern lnls p b x = forallb (fun '(l, d) => mpos b p l d) (combine lnls x).
Proof. reflexivity. Qed.

Lemma element_length b i el : base_ok b = true -> element b i = Some el -> length el = b.
Proof.
  unfold base_ok, element. intros Hb. destruct (Nat.eqb b 2) eqn:E2.
  - apply Nat.eqb_eq in E2. subst b. destruct i; intros H; inversion H; reflexivity.
  - cbn [orb] in Hb. apply Nat.eqb_eq in Hb. subst b. destruct i; intros H; inversion H; reflexivity.
Qed.

Lemma enc_fold_none b n p js : fold_left (enc_step b n p) js None = None.
Proof. induction js as [|[j l] js IH]; cbn [fold_left]; [reflexivity|]. exact IH. Qed.

Lemma enc_fold b n p : base_ok b = true -> forall js f,
  (forall j l, In (j, l) js -> (j < n)%nat) ->
  fold_left (enc_step b n p) js (Some (map f (all_states b n)))
  = if forallb (fun jl => enc_okb b p (snd jl)) js
    then Some (map (fun x => f x && forallb (fun jl => mpos b p (snd jl) (digit (fst jl) x)) js)
                   (all_states b n))
    else None.
Proof.
  intros Hb. induction js as [|[j l] js IH]; intros f Hjs; cbn [fold_left forallb snd fst].
  - f_equal. apply map_ext. intros x. rewrite andb_true_r. reflexivity.
  - assert (Hjs' : forall j' l', In (j', l') js -> (j' < n)%nat).
    { intros j' l' H. apply (Hjs j' l'). right. exact H. }
    assert (Hj : (j < n)%nat) by (apply (Hjs j l); left; reflexivity).
    change (enc_step b n p (Some (map f (all_states b n))) (j, l))
      with (match pat_get l p with
            | None => Some (map f (all_states b n))
            | Some ind =>
                match element b ind with
                | None => None
                | Some el => Some (map2 andb (map f (all_states b n))
                                     (tile_and_repeat_row el (Nat.pow b j) (Nat.pow b (n - j - 1))))
                end
            end).
    unfold enc_okb at 1.
    destruct (pat_get l p) as [ind|] eqn:Ep.
    + destruct (element b ind) as [el|] eqn:Ee.
      * rewrite (tile_row_spec el false b n j Hj (element_length b ind el Hb Ee)).
        rewrite map2_map_map. rewrite IH by exact Hjs'. cbn [andb].
        destruct (forallb (fun jl => enc_okb b p (snd jl)) js); [|reflexivity].
        f_equal. apply map_ext. intros x. unfold mpos at 2. rewrite Ep.
        unfold matches_ind. rewrite Ee. rewrite andb_assoc. reflexivity.
      * cbn [andb]. apply enc_fold_none.
    + rewrite IH by exact Hjs'. cbn [andb].
      destruct (forallb (fun jl => enc_okb b p (snd jl)) js); [|reflexivity].
      f_equal. apply map_ext. intros x. unfold mpos at 2. rewrite Ep. reflexivity.
Qed.

Lemma forallb_combine_seq_snd (h : string -> bool) l : forall k,
  forallb (fun jl : nat * string => h (snd jl)) (combine (seq k (length l)) l) = forallb h l.
Proof.
  induction l as [|a l IH]; intros k; cbn [length seq combine forallb snd]; [reflexivity|].
  rewrite IH. reflexivity.
Qed.

Lemma forallb_digit_combine (g : string -> nat -> bool) names : forall (x : state) k,
  length x = length names ->
  forallb (fun jl : nat * string => g (snd jl) (nth (fst jl - k) x 0%nat)) (combine (seq k (length names)) names)
  = forallb (fun '(l, d) => g l d) (combine names x).
Proof.
  induction names as [|a names IH]; intros [|d x] k Hl; try discriminate; cbn [length seq combine forallb fst snd];
    [reflexivity|].
  rewrite Nat.sub_diag. cbn [nth]. f_equal.
  rewrite <- (IH x (S k)) by (cbn [length] in Hl; lia).
  apply forallb_ext_in. intros [j l] Hin. cbn [fst snd].
  apply in_combine_l in Hin. apply in_seq in Hin.
  replace (j - k)%nat with (S (j - S k)) by lia. reflexivity.
Qed.

(** [compute_encoding] never silently differs from the Spec: it fails exactly when an
    indicator of a graph LNL is not encodable in this base, and otherwise marks the
    states matching the pattern *)
Lemma compute_encoding_gen lnls p b : base_ok b = true ->
  compute_encoding lnls p b
  = if forallb (enc_okb b p) lnls
    then Some (map (matches_pattern lnls p b) (all_states b (length lnls)))
    else None.
Proof.
  intros Hb. rewrite compute_encoding_unfold.
  replace (repeat true (b ^ length lnls))
    with (map (fun _ : state => true) (all_states b (length lnls)))
    by (rewrite map_const_repeat, all_states_length; reflexivity).
  rewrite (enc_fold b (length lnls) p Hb).
  2:{ intros j l Hin. apply in_combine_l in Hin. apply in_seq in Hin. lia. }
  rewrite forallb_combine_seq_snd.
  destruct (forallb (enc_okb b p) lnls); [|reflexivity].
  f_equal. apply map_ext_in. intros x Hx. apply all_states_In in Hx. destruct Hx as [Hl _].
  cbn [andb]. rewrite matches_pattern_mpos.
  rewrite <- (forallb_digit_combine (mpos b p) lnls x 0 Hl).
  apply forallb_ext_in. intros [j l] _. cbn [fst snd]. rewrite Nat.sub_0_r. reflexivity.
Qed.

Lemma binary_pat_get l p : binary_pattern p = true -> binary_ind (pat_get l p) = true.
Proof.
  unfold binary_pattern. induction p as [|[k v] p IH]; cbn [forallb pat_get snd]; [reflexivity|].
  intros H. apply andb_true_iff in H. destruct H as [Hv Hp].
  destruct (str_eqb l k); [exact Hv|exact (IH Hp)].
Qed.
Lemma binary_enc_ok lnls p : binary_pattern p = true -> forallb (enc_okb 2 p) lnls = true.
Proof.
  intros H. apply forallb_forall. intros l _. unfold enc_okb.
  pose proof (binary_pat_get l p H) as Hl.
  destruct (pat_get l p) as [[]|]; try discriminate Hl; reflexivity.
Qed.
Lemma compute_encoding_binary lnls p : binary_pattern p = true ->
  compute_encoding lnls p 2 = Some (map (matches_pattern lnls p 2) (all_states 2 (length lnls))).
Proof.
  intros H. rewrite compute_encoding_gen by reflexivity. rewrite binary_enc_ok by exact H. reflexivity.
Qed.
Lemma matches_pattern_nil lnls b x : matches_pattern lnls [] b x = true.
Proof. unfold matches_pattern. apply forallb_forall. intros [l d] _. reflexivity. Qed.

(** * States of a concatenation, Kronecker product of encodings *)
Lemma flat_map_flat_map {A B C} (g : B -> list C) (f : A -> list B) l :
  flat_map g (flat_map f l) = flat_map (fun a => flat_map g (f a)) l.
Proof. induction l as [|a l IH]; cbn [flat_map]; [reflexivity|]. rewrite flat_map_app, IH. reflexivity. Qed.

Lemma all_states_app b m n :
  all_states b (m + n) = flat_map (fun x => map (fun y => x ++ y) (all_states b n)) (all_states b m).
Proof.
  induction m as [|m IH]; cbn [Nat.add all_states flat_map].
  - rewrite app_nil_r. cbn [app]. rewrite map_id. reflexivity.
  - rewrite IH, flat_map_flat_map. apply flat_map_ext. intros d.
    rewrite map_flat_map, flat_map_map. apply flat_map_ext. intros x.
    rewrite map_map. reflexivity.
Qed.

Lemma firstn_app_len {A} (x y : list A) : firstn (length x) (x ++ y) = x.
Proof. induction x as [|a x IH]; cbn [length firstn app]; [reflexivity|]. rewrite IH. reflexivity. Qed.
Lemma skipn_app_len {A} (x y : list A) : skipn (length x) (x ++ y) = y.
Proof. induction x as [|a x IH]; cbn [length skipn app]; [reflexivity|]. exact IH. Qed.

Lemma kron_bvec_states (f g : state -> bool) b m n :
  kron_bvec (map f (all_states b m)) (map g (all_states b n))
  = map (fun z => f (firstn m z) && g (skipn m z)) (all_states b (m + n)).
Proof.
  unfold kron_bvec. rewrite all_states_app, map_flat_map, flat_map_map.
  apply flat_map_ext_in. intros x Hx. apply all_states_In in Hx. destruct Hx as [Hl _].
  rewrite !map_map. apply map_ext. intros y. subst m.
  rewrite firstn_app_len, skipn_app_len. reflexivity.
Qed.

Definition chunks_ok (g : string -> state -> bool) (n : nat) (names : list string) (z : state) : bool :=
  forallb (fun '(nm, zm) => g nm zm) (combine names (chunk n (length names) z)).

Lemma fold_kron (step : res bvec -> string -> res bvec) (g : string -> state -> bool) n names :
  (forall m enc, In m names -> step (inr enc) m = inr (kron_bvec enc (map (g m) (all_states 2 n)))) ->
  forall a F,
  fold_left step names (inr (map F (all_states 2 a)))
  = inr (map (fun z => F (firstn a z) && chunks_ok g n names (skipn a z))
             (all_states 2 (a + length names * n))).
Proof.
  induction names as [|m names IH]; intros Hstep a F; cbn [fold_left length Nat.mul].
  - rewrite Nat.add_0_r. f_equal. apply map_ext_in. intros z Hz.
    apply all_states_In in Hz. destruct Hz as [Hl _].
    rewrite firstn_all2 by lia. unfold chunks_ok. cbn [combine forallb]. rewrite andb_true_r. reflexivity.
  - rewrite Hstep by (left; reflexivity). rewrite kron_bvec_states.
    rewrite IH by (intros m' enc' H'; apply Hstep; right; exact H').
    rewrite (Nat.add_assoc a n). f_equal. apply map_ext. intros z. cbv beta.
    rewrite firstn_firstn, Nat.min_l by lia.
    rewrite skipn_firstn_comm. replace (a + n - a)%nat with n by lia.
    rewrite skipn_skipn'. unfold chunks_ok. cbn [length chunk combine forallb].
    rewrite andb_assoc. reflexivity.
Qed.

Lemma diag_get_binary (d : diagnosis) m pat :
  forallb (fun kv => binary_pattern (snd kv)) d = true -> diag_get m d = Some pat -> binary_pattern pat = true.
Proof.
  induction d as [|[k v] d IH]; cbn [forallb diag_get snd]; [discriminate|].
  intros H. apply andb_true_iff in H. destruct H as [Hv Hd].
  destruct (str_eqb m k); [intros E; inversion E; subst; exact Hv|exact (IH Hd)].
Qed.

Lemma compatible_chunks names lnls d z :
  compatible names lnls d z
  = chunks_ok (fun nm zm => matches_pattern lnls (match diag_get nm d with Some q => q | None => [] end) 2 zm)
              (length lnls) names z.
Proof. reflexivity. Qed.

(** [generate_data_encoding], one row *)
Lemma patient_encoding_spec lnls names p : wf_patient p = true ->
  patient_encoding lnls names p
  = inr (map (compatible names lnls (p_find p)) (all_states 2 (length names * length lnls))).
Proof.
  intros Hwf. unfold patient_encoding.
  match goal with |- fold_left ?s _ _ = _ => set (step := s) end.
  refine (eq_trans (fold_kron step
            (fun nm zm => matches_pattern lnls (match diag_get nm (p_find p) with Some q => q | None => [] end) 2 zm)
            (length lnls) names _ 0%nat (fun _ => true)) _).
  2:{ cbv beta. cbn [Nat.add andb skipn]. reflexivity. }
  - intros m enc _. unfold step. cbn [bind].
    destruct (diag_get m (p_find p)) as [pat|] eqn:Ed.
    + rewrite compute_encoding_binary by (exact (diag_get_binary _ _ _ Hwf Ed)). reflexivity.
    + f_equal. f_equal.
      rewrite <- (all_states_length 2 (length lnls)), <- (map_const_repeat true (all_states 2 (length lnls))).
      apply map_ext. intros x. symmetry. apply matches_pattern_nil.
Qed.

(** [Unilateral.compute_encoding(given_diagnosis)] *)
Lemma diagnosis_encoding_spec u d : forallb (fun kv => binary_pattern (snd kv)) d = true ->
  diagnosis_encoding u d
  = inr (map (compatible (u_mod_names u) (u_lnls u) d)
             (all_states 2 (length (u_mod_names u) * length (u_lnls u)))).
Proof.
  intros Hwf. unfold diagnosis_encoding.
  match goal with |- fold_left ?s _ _ = _ => set (step := s) end.
  refine (eq_trans (fold_kron step
            (fun nm zm => matches_pattern (u_lnls u) (match diag_get nm d with Some q => q | None => [] end) 2 zm)
            (length (u_lnls u)) (u_mod_names u) _ 0%nat (fun _ => true)) _).
  2:{ cbv beta. cbn [Nat.add andb skipn]. reflexivity. }
  - intros m enc _. unfold step. cbn [bind].
    destruct (diag_get m d) as [pat|] eqn:Ed.
    + rewrite compute_encoding_binary by (exact (diag_get_binary _ _ _ Hwf Ed)). reflexivity.
    + rewrite compute_encoding_binary by reflexivity. reflexivity.
Qed.

(** * Summing the unrecorded findings out *)
Lemma b2q_andb a c : b2q (a && c) = b2q a * b2q c.
Proof. destruct a, c; cbn [andb b2q]; ring. Qed.

Lemma sum_split (A B : state -> Qc) b n r :
  sumQ (map (fun z => A (firstn n z) * B (skipn n z)) (all_states b (n + r)))
  = sumQ (map A (all_states b n)) * sumQ (map B (all_states b r)).
Proof.
  rewrite all_states_app, map_flat_map, sumQ_flat_map.
  rewrite <- sumQ_map_scale_r. apply sumQ_map_ext. intros x Hx.
  apply all_states_In in Hx. destruct Hx as [Hl _]. subst n.
  rewrite map_map, <- sumQ_map_scale. apply sumQ_map_ext. intros y _.
  rewrite firstn_app_len, skipn_app_len. reflexivity.
Qed.

Lemma conf_row_sum b m s : base_ok b = true -> (s < b)%nat -> conf b m s 0 + conf b m s 1 = 1.
Proof.
  intros Hb Hs. unfold base_ok in Hb. apply orb_true_iff in Hb.
  destruct Hb as [Hb|Hb]; apply Nat.eqb_eq in Hb; subst b; unfold conf, mget, confusion_matrix; cbn [Nat.eqb].
  - destruct s as [|[|s]]; [| |lia]; cbn [nth]; ring.
  - destruct (m_path m); (destruct s as [|[|[|s]]]; [| | |lia]); cbn [nth]; ring.
Qed.

Lemma mi_H0 : matches_ind 2 IHealthy 0 = true. Proof. reflexivity. Qed.
Lemma mi_H1 : matches_ind 2 IHealthy 1 = false. Proof. reflexivity. Qed.
Lemma mi_I0 : matches_ind 2 IInvolved 0 = false. Proof. reflexivity. Qed.
Lemma mi_I1 : matches_ind 2 IInvolved 1 = true. Proof. reflexivity. Qed.

Definition pos_factor (b : nat) (m : modality) (p : pattern) (l : string) (s : nat) : nat -> Qc :=
  fun o => conf b m s o * b2q (mpos 2 p l o).

Lemma prod_over_triple b m p : forall lnls (x zm : state),
  length x = length lnls -> length zm = length lnls ->
  prod_over (map (fun '(l, s) => pos_factor b m p l s) (combine lnls x)) zm
  = prodQ (map (fun '(s, o) => conf b m s o) (combine x zm)) * b2q (matches_pattern lnls p 2 zm).
Proof.
  induction lnls as [|l lnls IH]; intros [|s x] [|o zm] Hx Hz; try discriminate;
    cbn [combine map prod_over prodQ].
  - change (matches_pattern [] p 2 []) with true. cbn [b2q]. ring.
  - rewrite IH by (cbn [length] in *; lia). rewrite !matches_pattern_mpos.
    cbn [combine forallb]. unfold pos_factor. rewrite b2q_andb. ring.
Qed.

Lemma pos_factor_sum b m p l s : base_ok b = true -> binary_pattern p = true -> (s < b)%nat ->
  sumQ (map (pos_factor b m p l s) (seq 0 2)) = finding_factor b m s (pat_get l p).
Proof.
  intros Hb Hp Hs. cbn [seq map sumQ]. unfold pos_factor, mpos, finding_factor.
  pose proof (binary_pat_get l p Hp) as Hl.
  destruct (pat_get l p) as [[]|]; try discriminate Hl.
  - rewrite mi_H0, mi_H1. cbn [b2q obs_of_indicator]. ring.
  - rewrite mi_I0, mi_I1. cbn [b2q obs_of_indicator]. ring.
  - cbn [b2q]. transitivity (conf b m s 0 + conf b m s 1); [ring|exact (conf_row_sum b m s Hb Hs)].
Qed.

(** one modality: the findings of the pattern are kept, the others summed to 1 *)
Lemma sum_modality b m p lnls x : base_ok b = true -> binary_pattern p = true ->
  In x (all_states b (length lnls)) ->
  sumQ (map (fun zm => prodQ (map (fun '(s, o) => conf b m s o) (combine x zm))
                       * b2q (matches_pattern lnls p 2 zm))
            (all_states 2 (length lnls)))
  = prodQ (map (fun '(l, s) => finding_factor b m s (pat_get l p)) (combine lnls x)).
Proof.
  intros Hb Hp Hx. apply all_states_In in Hx. destruct Hx as [Hl Hf].
  set (fs := map (fun '(l, s) => pos_factor b m p l s) (combine lnls x)).
  assert (Hlen : length fs = length lnls).
  { unfold fs. rewrite map_length, combine_length, Hl. apply Nat.min_id. }
  rewrite (sumQ_map_ext _ (prod_over fs)).
  2:{ intros zm Hz. apply all_states_In in Hz. destruct Hz as [Hz _].
      symmetry. apply prod_over_triple; assumption. }
  assert (E : all_states 2 (length lnls) = all_states 2 (length fs)) by (rewrite Hlen; reflexivity).
  rewrite E, sum_prod_states. unfold fs. rewrite map_map.
  apply prodQ_map_ext. intros [l s] Hin. apply in_combine_r in Hin.
  rewrite Forall_forall in Hf. apply pos_factor_sum; [exact Hb|exact Hp|apply Hf; exact Hin].
Qed.

Section Modalities.
  Variables (b : nat) (lnls : list string) (d : diagnosis) (x : state).
  Let n := length lnls.
  Definition mod_term (nm : string) (m : modality) (zm : state) : Qc :=
    prodQ (map (fun '(s, o) => conf b m s o) (combine x zm))
    * b2q (matches_pattern lnls (match diag_get nm d with Some q => q | None => [] end) 2 zm).
  Fixpoint mods_term (mods : list (string * modality)) (z : state) {struct mods} : Qc :=
    match mods with
    | [] => 1
    | (nm, m) :: r => mod_term nm m (firstn n z) * mods_term r (skipn n z)
    end.

  Lemma obs_spec_cons m ms z :
    obs_spec (m :: ms) n b x z
    = prodQ (map (fun '(s, o) => conf b m s o) (combine x (firstn n z))) * obs_spec ms n b x (skipn n z).
  Proof. reflexivity. Qed.
  Lemma compatible_cons nm names z :
    compatible (nm :: names) lnls d z
    = matches_pattern lnls (match diag_get nm d with Some q => q | None => [] end) 2 (firstn n z)
      && compatible names lnls d (skipn n z).
  Proof. reflexivity. Qed.

  Lemma obs_compat_mods_term : forall mods z,
    obs_spec (map snd mods) n b x z * b2q (compatible (map fst mods) lnls d z) = mods_term mods z.
  Proof.
    induction mods as [|[nm m] mods IH]; intros z; cbn [map fst snd mods_term].
    - unfold obs_spec, compatible. cbn [length chunk combine map prodQ forallb b2q]. ring.
    - rewrite obs_spec_cons, compatible_cons, b2q_andb, <- IH. unfold mod_term. ring.
  Qed.

  Lemma sum_mods_term : forall mods,
    sumQ (map (mods_term mods) (all_states 2 (length mods * n)))
    = prodQ (map (fun '(nm, m) => sumQ (map (mod_term nm m) (all_states 2 n))) mods).
  Proof.
    induction mods as [|[nm m] mods IH]; cbn [length Nat.mul map prodQ].
    - cbn [all_states map mods_term sumQ]. ring.
    - change (map (mods_term ((nm, m) :: mods)))
        with (map (fun z => mod_term nm m (firstn n z) * mods_term mods (skipn n z))).
      rewrite sum_split, IH. reflexivity.
  Qed.
End Modalities.

(** the recorded findings' probability is the sum of the observation-matrix row over
    the compatible complete observations *)
Lemma findings_sum u p x : base_ok (u_base u) = true -> wf_patient p = true -> In x (u_states u) ->
  sumQ (map (fun z => obs_spec (map snd (u_mods u)) (length (u_lnls u)) (u_base u) x z
                      * b2q (compatible (map fst (u_mods u)) (u_lnls u) (p_find p) z))
            (all_states 2 (length (u_mods u) * length (u_lnls u))))
  = findings_prob u p x.
Proof.
  intros Hb Hp Hx.
  rewrite (sumQ_map_ext _ (mods_term (u_base u) (u_lnls u) (p_find p) x (u_mods u)))
    by (intros z _; apply obs_compat_mods_term).
  rewrite sum_mods_term. unfold findings_prob. apply prodQ_map_ext. intros [nm m] _.
  unfold mod_term. destruct (diag_get nm (p_find p)) as [pat|] eqn:Ed.
  - apply sum_modality; [exact Hb|exact (diag_get_binary _ _ _ Hp Ed)|exact Hx].
  - rewrite sum_modality; [|exact Hb|reflexivity|exact Hx].
    rewrite (prodQ_map_ext _ (fun _ => 1)) by (intros [l s] _; reflexivity).
    apply prodQ_map_one.
Qed.

(** * The encoded diagnosis times the observation matrix *)
Lemma wf_uni_graph u : wf_uni u = true -> wf_graphb (u_graph u) = true.
Proof. unfold wf_uni. intros H. apply andb_true_iff in H. exact (proj1 H). Qed.
Lemma wf_uni_base u : wf_uni u = true -> base_ok (u_base u) = true.
Proof.
  intros H. apply wf_uni_graph in H. unfold wf_graphb in H.
  apply andb_true_iff in H. destruct H as [H _]. apply andb_true_iff in H. exact (proj1 H).
Qed.
Lemma wf_uni_lnls u : wf_uni u = true -> nodupb (u_lnls u) = true.
Proof.
  intros H. apply wf_uni_graph in H. unfold wf_graphb in H.
  apply andb_true_iff in H. destruct H as [H _]. apply andb_true_iff in H. exact (proj2 H).
Qed.

Lemma matvec_compatible u p : C06_observation_entries_stmt ->
  wf_uni u = true -> wf_patient p = true ->
  matvec (observation_matrix u)
         (map b2q (map (compatible (u_mod_names u) (u_lnls u) (p_find p))
                       (all_states 2 (length (u_mod_names u) * length (u_lnls u)))))
  = map (findings_prob u p) (u_states u).
Proof.
  intros HO Hwf Hp. pose proof (wf_uni_base u Hwf) as Hb.
  unfold observation_matrix. rewrite (HO _ _ _ Hb).
  unfold obs_spec_matrix, matvec. rewrite map_map.
  change (all_states (u_base u) (u_n u)) with (u_states u).
  apply map_ext_in. intros x Hx.
  unfold obs_list, u_mod_names. rewrite !map_length.
  change (u_n u) with (length (u_lnls u)).
  rewrite (map_map _ b2q), dot_map_l.
  apply findings_sum; assumption.
Qed.

Lemma select_In data t p : In p (select data t) -> In p data.
Proof. destruct t as [ts|]; cbn [select]; [|tauto]. intros H. apply filter_In in H. exact (proj1 H). Qed.

(** * C01 *)
Lemma diagnosis_matrix_entry : C06_observation_entries_stmt -> C01_diagnosis_matrix_entry_stmt.
Proof.
  intros HO u data t Hwf Hdata. unfold diagnosis_matrix, data_matrix.
  rewrite (sequence_map_inr _
             (fun p => map (compatible (u_mod_names u) (u_lnls u) (p_find p))
                           (all_states 2 (length (u_mod_names u) * length (u_lnls u))))).
  2:{ intros p Hp. apply patient_encoding_spec.
      rewrite forallb_forall in Hdata. apply Hdata. exact (select_In _ _ _ Hp). }
  cbn [bind]. rewrite map_map. f_equal. apply map_ext_in. intros p Hp.
  apply matvec_compatible; [exact HO|exact Hwf|].
  rewrite forallb_forall in Hdata. apply Hdata. exact (select_In _ _ _ Hp).
Qed.

Lemma patient_likelihoods :
  C06_observation_entries_stmt -> C07_state_dist_spec_stmt -> C01_patient_likelihoods_stmt.
Proof.
  intros HO HS u data t pm Hwf Hdata Hpm Hlen. unfold hmm_patient_llhs.
  pose proof (HS u t pm (wf_uni_graph u Hwf) Hpm Hlen) as Hsd.
  unfold state_dist in Hsd. rewrite Hpm in Hsd. cbn [bind] in Hsd. inversion Hsd as [Hprior].
  rewrite Hpm. cbn [bind].
  rewrite (diagnosis_matrix_entry HO u data (Some t) Hwf Hdata). cbn [bind].
  rewrite Hprior, map_map. f_equal. apply map_ext. intros p.
  rewrite dot_map_l. reflexivity.
Qed.

Lemma all_stages_is_concat : C01_all_stages_is_concat_stmt.
Proof. intros u data. reflexivity. Qed.

Lemma dict_get_in {V} t (d : list (string * V)) : In t (map fst d) -> dict_get t d <> None.
Proof.
  induction d as [|[k v] d IH]; cbn [map fst In dict_get]; [tauto|].
  intros H. destruct (str_eqb t k) eqn:E; [discriminate|].
  destruct H as [H|H]; [|exact (IH H)].
  subst k. unfold str_eqb in E. rewrite String.eqb_refl in E. discriminate.
Qed.

Lemma unscored_t_stage : C01_unscored_t_stage_stmt.
Proof.
  intros u data t Hnone Hin. unfold valid_t_stages in Hin. apply filter_In in Hin.
  destruct Hin as [Hin _]. exact (dict_get_in t _ Hin Hnone).
Qed.

Lemma t_stage_restriction : C01_t_stage_restriction_stmt.
Proof.
  intros u data t v. unfold hmm_likelihood_factors. cbn [map sequence bind].
  unfold hmm_patient_llhs, diagnosis_matrix, data_matrix.
  destruct (get_pmf u t) as [e|pm]; cbn [bind]; [discriminate|].
  destruct (sequence (map (patient_encoding (u_lnls u) (u_mod_names u)) (select data (Some t))))
    as [e|D] eqn:ED; cbn [bind]; [discriminate|].
  intros H. inversion H. cbn [concat]. rewrite app_nil_r, !map_length.
  apply sequence_length in ED. rewrite map_length in ED. exact ED.
Qed.

Lemma unrecorded_is_factor_one : C01_unrecorded_is_factor_one_stmt.
Proof. intros b m s. reflexivity. Qed.

(** * Example objects for the non-vacuity checks of properties/C01.v and C02.v *)
(** trinary graph T -> II, T -> III, III -> II (the LNL arc runs against the listing
    order II, III) with growth arcs; a clinical and a pathological modality; a frozen
    and a binomial time distribution; max_time = 2 *)
Definition C01_ex_graph : graph :=
  set_edges (force_graph (build_graph 3
      [(("tumor", "T"), CList ["II"; "III"]); (("lnl", "II"), CList []); (("lnl", "III"), CList ["II"])]%string))
    [("TtoII", (qc 1 2, 1)); ("TtoIII", (qc 1 4, 1)); ("IIItoII", (qc 1 3, qc 1 2));
     ("II", (qc 1 5, 1)); ("III", (qc 2 5, 1))]%string.
Definition C01_ex_uni : uni :=
  {| u_graph := C01_ex_graph;
     u_mods := [("CT", {| m_spec := qc 4 5; m_sens := qc 3 4; m_path := false |});
                ("path", {| m_spec := qc 9 10; m_sens := qc 7 10; m_path := true |})]%string;
     u_dists := [("early", Frozen [qc 1 2; qc 1 4; qc 1 4]); ("late", Param 0 [("p", qc 1 3)])]%string;
     u_maxt := 2 |}.
(** four patients: complete CT + partial pathology (early); one CT finding only, no
    pathology column (late); no findings at all (early); a T-stage without distribution *)
Definition C01_ex_p1 : patient :=
  {| p_tstage := "early";
     p_find := [("CT", [("II", Some IInvolved); ("III", Some IHealthy)]);
                ("path", [("II", None); ("III", Some IInvolved)])] |}%string.
Definition C01_ex_p2 : patient :=
  {| p_tstage := "late"; p_find := [("CT", [("II", Some IHealthy)])] |}%string.
Definition C01_ex_data : list patient :=
  [ C01_ex_p1; C01_ex_p2;
    {| p_tstage := "early"; p_find := [] |};
    {| p_tstage := "unstaged"; p_find := [("path", [("III", Some IHealthy)])] |} ]%string.
