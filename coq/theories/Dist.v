(** Dist: diagnosis-time distributions ([diagnosis_times.Distribution]): frozen
    (normalised on construction) or parametric (a family evaluated on the support
    0..max_time and normalised).  The two parametric families are the ones the
    harness passes to the implementation (harness/impl.py fam0, fam1); theorems are
    stated for arbitrary weight functions.  Executable definitions only. *)
From LymphModel Require Import Base States Linalg Graph.
Local Open Scope nat_scope.
Open Scope Qc_scope.

Inductive dist :=
| Frozen (pmf : vec)                               (* already normalised *)
| Param (fam : nat) (kw : list (string * Qc)).     (* keywords in signature order *)

(** Distribution.normalize *)
Definition normalize (w : vec) : vec := let s := sumQ w in map (fun a => a / s) w.

Definition qnat (n : nat) : Qc := Q2Qc (inject_Z (Z.of_nat n)).
Fixpoint binom (n k : nat) : nat :=
  match n, k with
  | _, O => 1
  | O, S _ => 0
  | S n', S k' => binom n' k' + binom n' k
  end.
Fixpoint qpow (q : Qc) (n : nat) : Qc := match n with O => 1 | S n' => q * qpow q n' end.

Definition kw_get (k : string) (kw : list (string * Qc)) (dflt : Qc) : Qc :=
  match dict_get k kw with Some v => v | None => dflt end.

(** family 0: binomial(p); family 1: linear weights a*k + b with 0 <= a <= 100,
    0 < b <= 100.  [None] = ValueError *)
Definition fam_weights (fam maxt : nat) (kw : list (string * Qc)) : option vec :=
  match fam with
  | O => let p := kw_get "p" kw (qc 1 2) in
         if Qc_leb 0 p && Qc_leb p 1
         then Some (map (fun k => qnat (binom maxt k) * qpow p k * qpow (1 - p) (maxt - k)) (seq 0 (S maxt)))
         else None
  | _ => let a := kw_get "a" kw (qc 1 2) in let b := kw_get "b" kw 1 in
         if Qc_leb 0 a && Qc_leb a (qc 100 1) && negb (Qc_leb b 0) && Qc_leb b (qc 100 1)
         then Some (map (fun k => a * qnat k + b) (seq 0 (S maxt)))
         else None
  end.

(** Distribution.pmf; [None] = the parametric function raised ValueError *)
Definition pmf (maxt : nat) (d : dist) : option vec :=
  match d with
  | Frozen p => Some p
  | Param f kw => option_map normalize (fam_weights f maxt kw)
  end.

(** Distribution(list, max_time): length must be max_time+1; normalised *)
Definition mk_frozen (maxt : nat) (w : vec) : option dist :=
  if Nat.eqb (length w) (S maxt) then Some (Frozen (normalize w)) else None.
