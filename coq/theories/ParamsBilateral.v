(** ParamsBilateral: proofs of the C10 statements for models.Bilateral. *)
From LymphModel Require Import Base States Linalg Graph Transition Observation Dist Unilateral Models Params
  ParamsStatements ParamsLemmas ParamsProofs.
Local Open Scope nat_scope.
Local Open Scope string_scope.
Local Open Scope list_scope.

(** * Leaves: nested and flat forms *)
Definition Tn (u : uni) : pdict := edges_nested (u_tri u) (tumor_edges (u_graph u)).
Definition Ln (u : uni) : pdict := edges_nested (u_tri u) (lnl_edges (u_graph u)).
Definition Dn (u : uni) : pdict := dists_nested (u_dists u).
Definition EN (u : uni) (s : string) : Prop := In s (u_edge_names u).
Definition TS (u : uni) (s : string) : Prop := In s (u_tstages u).
Definition SIDE (s : string) : Prop := s = "ipsi" \/ s = "contra".

Lemma u_tumor_nested u : u_names_ok u = true -> u_get_tumor_spread_params u false = Tn u.
Proof. intros H. apply edges_get_params_nested, filter_names_NoDup, names_ok_edges_NoDup, H. Qed.
Lemma u_lnl_nested u : u_names_ok u = true -> u_get_lnl_spread_params u false = Ln u.
Proof. intros H. apply edges_get_params_nested, filter_names_NoDup, names_ok_edges_NoDup, H. Qed.
Lemma u_dist_nested u : u_names_ok u = true -> u_get_distribution_params u false = Dn u.
Proof. intros H. apply dists_get_params_nested, names_ok_tstages_NoDup, H. Qed.

Lemma flat_Tn u : flat_items_dict (Tn u) = u_tumor_items u.
Proof. unfold Tn, u_tumor_items, tumor_edges. rewrite flat_items_edges_nested, sel_params_filter. reflexivity. Qed.
Lemma flat_Ln u : flat_items_dict (Ln u) = u_lnl_items u.
Proof. unfold Ln, u_lnl_items, lnl_edges. rewrite flat_items_edges_nested, sel_params_filter. reflexivity. Qed.
Lemma flat_Dn u : flat_items_dict (Dn u) = u_dist_items u.
Proof. apply flat_items_dists_nested. Qed.

Lemma EN_filter u sel s : In s (map e_name (filter sel (u_edges u))) -> EN u s.
Proof. apply in_filter_names. Qed.
Lemma heads_Tn u : heads_in (EN u) (map fst (Tn u)).
Proof. eapply heads_in_weaken; [|apply edges_nested_heads_in]. intros s. apply EN_filter. Qed.
Lemma heads_Ln u : heads_in (EN u) (map fst (Ln u)).
Proof. eapply heads_in_weaken; [|apply edges_nested_heads_in]. intros s. apply EN_filter. Qed.
Lemma heads_Dn u : heads_in (TS u) (map fst (Dn u)).
Proof. apply dists_nested_heads_in. Qed.
Lemma heads_Ti u : heads_in (EN u) (map fst (u_tumor_items u)).
Proof. eapply heads_in_weaken; [|apply sel_params_heads_in]. intros s. apply EN_filter. Qed.
Lemma heads_Li u : heads_in (EN u) (map fst (u_lnl_items u)).
Proof. eapply heads_in_weaken; [|apply sel_params_heads_in]. intros s. apply EN_filter. Qed.
Lemma heads_Di u : heads_in (TS u) (map fst (u_dist_items u)).
Proof. apply dists_items_heads_in. Qed.
Lemma heads_pre (P : string -> Prop) h (X : list (path * Qc)) : P h -> heads_in P (map fst (pre [h] X)).
Proof. intros H. rewrite pre_keys. apply (heads_in_cons_path P h []). exact H. Qed.

Lemma NoDup_Tn u : u_names_ok u = true -> NoDup (map fst (Tn u)).
Proof. intros H. apply edges_nested_keys_NoDup, filter_names_NoDup, names_ok_edges_NoDup, H. Qed.
Lemma NoDup_Ln u : u_names_ok u = true -> NoDup (map fst (Ln u)).
Proof. intros H. apply edges_nested_keys_NoDup, filter_names_NoDup, names_ok_edges_NoDup, H. Qed.
Lemma NoDup_Dn u : u_names_ok u = true -> NoDup (map fst (Dn u)).
Proof. intros H. apply dists_nested_keys_NoDup, names_ok_tstages_NoDup, H. Qed.
Lemma Tn_Ln_fresh u : u_names_ok u = true -> forall k, In k (map fst (Ln u)) -> ~ In k (map fst (Tn u)).
Proof.
  intros H k HL HT. unfold Tn, Ln in *. rewrite edges_nested_keys in *.
  apply in_map_iff in HL. destruct HL as (n & <- & Hn). apply in_map_iff in HT. destruct HT as (n' & [= ->] & Hn').
  pose proof (NoDup_map_filter_split e_name is_tumor_spread (u_edges u) (names_ok_edges_NoDup u H)) as Hs.
  exact (NoDup_app_disj _ _ n Hs Hn' Hn).
Qed.

Lemma EN_TS_disj u : u_names_ok u = true -> forall s, EN u s -> TS u s -> False.
Proof. intros H s. apply names_ok_edge_not_tstage, H. Qed.
Lemma EN_SIDE_disj u : u_names_ok u = true -> forall s, EN u s -> SIDE s -> False.
Proof. intros H s He [->| ->]; apply (in_reserved_not_edge u _ H) in He; try exact He; cbn; tauto. Qed.
Lemma TS_SIDE_disj u : u_names_ok u = true -> forall s, TS u s -> SIDE s -> False.
Proof. intros H s He [->| ->]; apply (in_reserved_not_tstage u _ H) in He; try exact He; cbn; tauto. Qed.

(** * What both sides share *)
Lemma b_names_ok_parts b : b_names_ok b = true ->
  u_names_ok (b_ipsi b) = true /\ u_names_ok (b_contra b) = true /\
  shape (u_edges (b_ipsi b)) = shape (u_edges (b_contra b)) /\ u_tri (b_contra b) = u_tri (b_ipsi b).
Proof.
  unfold b_names_ok, same_shape. rewrite !andb_true_iff. intros [[[Hi Hc] [Hb Hs]] _]. repeat split; try assumption.
  - apply shape_eqb_shape, Hs.
  - apply Nat.eqb_eq in Hb. unfold u_tri, g_tri. rewrite Hb. reflexivity.
Qed.
Lemma contra_edge_names b : b_names_ok b = true -> forall s, EN (b_contra b) s <-> EN (b_ipsi b) s.
Proof.
  intros H s. destruct (b_names_ok_parts b H) as (_ & _ & Hs & _). unfold EN, u_edge_names. rewrite (shape_names _ _ Hs). tauto.
Qed.
Lemma contra_T_keys b : b_names_ok b = true -> map fst (u_tumor_items (b_contra b)) = map fst (u_tumor_items (b_ipsi b)).
Proof.
  intros H. destruct (b_names_ok_parts b H) as (_ & _ & Hs & Ht). unfold u_tumor_items. rewrite Ht.
  symmetry. apply shape_sel_keys; [apply kind_sel_tumor | exact Hs].
Qed.
Lemma contra_L_keys b : b_names_ok b = true -> map fst (u_lnl_items (b_contra b)) = map fst (u_lnl_items (b_ipsi b)).
Proof.
  intros H. destruct (b_names_ok_parts b H) as (_ & _ & Hs & Ht). unfold u_lnl_items. rewrite Ht.
  symmetry. apply shape_sel_keys; [apply kind_sel_lnl | exact Hs].
Qed.

(** finer classification of edge names: tumour arcs / LNL arcs *)
Definition TNp (u : uni) (s : string) : Prop := In s (map e_name (tumor_edges (u_graph u))).
Definition LNp (u : uni) (s : string) : Prop := In s (map e_name (lnl_edges (u_graph u))).
Lemma TNp_EN u s : TNp u s -> EN u s. Proof. apply in_filter_names. Qed.
Lemma LNp_EN u s : LNp u s -> EN u s. Proof. apply in_filter_names. Qed.
Lemma TNp_LNp_disj u : u_names_ok u = true -> forall s, TNp u s -> LNp u s -> False.
Proof.
  intros H s HT HL. pose proof (NoDup_map_filter_split e_name is_tumor_spread (u_edges u) (names_ok_edges_NoDup u H)) as Hs.
  exact (NoDup_app_disj _ _ s Hs HT HL).
Qed.
Lemma hT_Tn u : heads_in (TNp u) (map fst (Tn u)). Proof. apply edges_nested_heads_in. Qed.
Lemma hL_Ln u : heads_in (LNp u) (map fst (Ln u)). Proof. apply edges_nested_heads_in. Qed.
Lemma hT_Ti u : heads_in (TNp u) (map fst (u_tumor_items u)). Proof. apply sel_params_heads_in. Qed.
Lemma hL_Li u : heads_in (LNp u) (map fst (u_lnl_items u)). Proof. apply sel_params_heads_in. Qed.
Lemma contra_TNp b : b_names_ok b = true -> forall s, TNp (b_contra b) s <-> TNp (b_ipsi b) s.
Proof.
  intros H s. destruct (b_names_ok_parts b H) as (_ & _ & Hs & _). unfold TNp, tumor_edges. unfold u_edges in Hs.
  rewrite (shape_filter_names is_tumor_spread _ kind_sel_tumor _ Hs). tauto.
Qed.
Lemma contra_LNp b : b_names_ok b = true -> forall s, LNp (b_contra b) s <-> LNp (b_ipsi b) s.
Proof.
  intros H s. destruct (b_names_ok_parts b H) as (_ & _ & Hs & _). unfold LNp, lnl_edges. unfold u_edges in Hs.
  change (fun e : edge => negb (is_tumor_spread e)) with sel_lnl.
  rewrite (shape_filter_names sel_lnl _ kind_sel_lnl _ Hs). tauto.
Qed.
Definition isIpsi (s : string) : Prop := s = "ipsi".
Definition isContra (s : string) : Prop := s = "contra".

(** update of disjoint dictionaries is concatenation *)
Lemma kw_update_heads {A} (P Q : string -> Prop) (src dst : list (path * A)) :
  NoDup (map fst src) -> heads_in P (map fst src) -> heads_in Q (map fst dst) -> (forall s, P s -> Q s -> False) ->
  kw_update src dst = dst ++ src.
Proof. intros N H1 H2 Hd. apply kw_update_fresh; [exact N | apply (fresh_by_heads P Q); assumption]. Qed.

Lemma flat_items_dict_one k cs : flat_items_dict [(k, Node cs)] = pre k (flat_items_dict cs).
Proof. rewrite flat_items_dict_cons, flat_items_key_node. change (flat_items_dict []) with (@nil (path * Qc)). apply app_nil_r. Qed.
Lemma flat_items_dict_cons_node k cs d : flat_items_dict ((k, Node cs) :: d) = pre k (flat_items_dict cs) ++ flat_items_dict d.
Proof. rewrite flat_items_dict_cons, flat_items_key_node. reflexivity. Qed.
Lemma flat_items_dict_cons_leaf k v d : flat_items_dict ((k, Leaf v) :: d) = (k, v) :: flat_items_dict d.
Proof. rewrite flat_items_dict_cons. reflexivity. Qed.
Lemma flat_two_sides X Y :
  flat_items_dict [(["ipsi"], Node X); (["contra"], Node Y)] = pre ["ipsi"] (flat_items_dict X) ++ pre ["contra"] (flat_items_dict Y).
Proof. rewrite flat_items_dict_cons_node, flat_items_dict_one. reflexivity. Qed.

(** * Bilateral: intermediate dictionaries *)
Section BiGet.
  Variable b : bilateral.
  Hypothesis Hok : b_names_ok b = true.
  Let i := b_ipsi b.
  Let c := b_contra b.
  Let Hi : u_names_ok i = true := proj1 (b_names_ok_parts b Hok).
  Let Hc : u_names_ok c = true := proj1 (proj2 (b_names_ok_parts b Hok)).

  Lemma b_tumor_nested :
    b_get_tumor_spread_params b false = if b_symT b then Tn i else [(["ipsi"], Node (Tn i)); (["contra"], Node (Tn c))].
  Proof.
    unfold b_get_tumor_spread_params, maybe_flatten. fold i c. rewrite (u_tumor_nested i Hi), (u_tumor_nested c Hc).
    destruct (b_symT b); [apply pd_sub_here | reflexivity].
  Qed.
  Lemma b_lnl_nested :
    b_get_lnl_spread_params b false = if b_symL b then Ln i else [(["ipsi"], Node (Ln i)); (["contra"], Node (Ln c))].
  Proof.
    unfold b_get_lnl_spread_params, maybe_flatten. fold i c. rewrite (u_lnl_nested i Hi), (u_lnl_nested c Hc).
    destruct (b_symL b); [apply pd_sub_here | reflexivity].
  Qed.
  Lemma NoDup_sides (X Y : list (path * Qc)) : NoDup (map fst X) -> NoDup (map fst Y) ->
    NoDup (map fst (pre ["ipsi"] X ++ pre ["contra"] Y)).
  Proof.
    intros HX HY. rewrite map_app. apply (NoDup_app_heads isIpsi isContra).
    - apply pre_keys_NoDup, HX.
    - apply pre_keys_NoDup, HY.
    - apply heads_pre. reflexivity.
    - apply heads_pre. reflexivity.
    - unfold isIpsi, isContra. intros s -> [=].
  Qed.
  Lemma b_lnl_flat :
    b_get_lnl_spread_params b true
    = leaves (if b_symL b then u_lnl_items i else pre ["ipsi"] (u_lnl_items i) ++ pre ["contra"] (u_lnl_items c)).
  Proof.
    unfold b_get_lnl_spread_params, maybe_flatten. fold i c. rewrite (u_lnl_flat i Hi), (u_lnl_flat c Hc).
    destruct (b_symL b).
    - rewrite pd_sub_here. apply flatten_leaves, u_lnl_keys_NoDup, Hi.
    - rewrite flatten_spec; rewrite flat_two_sides, !flat_items_dict_leaves.
      + reflexivity.
      + apply NoDup_sides; apply u_lnl_keys_NoDup; assumption.
  Qed.
End BiGet.

Definition b_spread_items (b : bilateral) : list (path * Qc) :=
  let i := b_ipsi b in let c := b_contra b in
  match b_symT b, b_symL b with
  | true, true => u_tumor_items i ++ u_lnl_items i
  | true, false => u_tumor_items i ++ pre ["ipsi"] (u_lnl_items i) ++ pre ["contra"] (u_lnl_items c)
  | false, true => pre ["ipsi"] (u_tumor_items i) ++ pre ["contra"] (u_tumor_items c) ++ u_lnl_items i
  | false, false => pre ["ipsi"] (u_tumor_items i ++ u_lnl_items i) ++ pre ["contra"] (u_tumor_items c ++ u_lnl_items c)
  end.
Lemma b_items_split b : b_items b = b_spread_items b ++ u_dist_items (b_ipsi b).
Proof. unfold b_items, b_spread_items. destruct (b_symT b), (b_symL b); rewrite <- ?app_assoc; reflexivity. Qed.

Lemma SIDE_ipsi : SIDE "ipsi". Proof. left. reflexivity. Qed.
Lemma SIDE_contra : SIDE "contra". Proof. right. reflexivity. Qed.
Lemma heads_sides (X Y : list (path * Qc)) : heads_in SIDE (map fst (pre ["ipsi"] X ++ pre ["contra"] Y)).
Proof. rewrite map_app. apply heads_in_app; apply heads_pre; [apply SIDE_ipsi | apply SIDE_contra]. Qed.

Section BiGet2.
  Variable b : bilateral.
  Hypothesis Hok : b_names_ok b = true.
  Let i := b_ipsi b.
  Let c := b_contra b.
  Let Hi : u_names_ok i = true := proj1 (b_names_ok_parts b Hok).
  Let Hc : u_names_ok c = true := proj1 (proj2 (b_names_ok_parts b Hok)).

  Lemma b_spread_heads : heads_in (fun s => EN i s \/ SIDE s) (map fst (b_spread_items b)).
  Proof.
    unfold b_spread_items. fold i c. destruct (b_symT b), (b_symL b); rewrite ?map_app;
      repeat apply heads_in_app;
      try (eapply heads_in_weaken; [|apply hT_Ti]; intros s Hs; left; apply TNp_EN, Hs);
      try (eapply heads_in_weaken; [|apply hL_Li]; intros s Hs; left; apply LNp_EN, Hs);
      try (apply heads_pre; right; apply SIDE_ipsi); try (apply heads_pre; right; apply SIDE_contra).
  Qed.
  Lemma b_spread_NoDup : NoDup (map fst (b_spread_items b)).
  Proof.
    unfold b_spread_items. fold i c. destruct (b_symT b), (b_symL b).
    - apply u_spread_keys_NoDup, Hi.
    - rewrite map_app. apply (NoDup_app_heads (TNp i) SIDE).
      + apply u_tumor_keys_NoDup, Hi.
      + apply NoDup_sides; [apply u_lnl_keys_NoDup, Hi | apply u_lnl_keys_NoDup, Hc].
      + apply hT_Ti.
      + apply heads_sides.
      + intros s Hs. apply (EN_SIDE_disj i Hi), TNp_EN, Hs.
    - rewrite app_assoc, map_app. apply (NoDup_app_heads SIDE (LNp i)).
      + apply NoDup_sides; [apply u_tumor_keys_NoDup, Hi | apply u_tumor_keys_NoDup, Hc].
      + apply u_lnl_keys_NoDup, Hi.
      + apply heads_sides.
      + apply hL_Li.
      + intros s Hs HL. apply (EN_SIDE_disj i Hi s); [apply LNp_EN, HL | exact Hs].
    - apply NoDup_sides; [apply u_spread_keys_NoDup, Hi | apply u_spread_keys_NoDup, Hc].
  Qed.
  Lemma b_items_NoDup : NoDup (map fst (b_items b)).
  Proof.
    rewrite b_items_split, map_app. apply (NoDup_app_heads (fun s => EN i s \/ SIDE s) (TS i)).
    - apply b_spread_NoDup.
    - apply u_dist_keys_NoDup, Hi.
    - apply b_spread_heads.
    - apply heads_Di.
    - intros s [He|Hs] Ht; [exact (EN_TS_disj i Hi s He Ht) | exact (TS_SIDE_disj i Hi s Ht Hs)].
  Qed.

  Lemma b_spread_flat : b_get_spread_params b true = leaves (b_spread_items b).
  Proof.
    pose proof b_spread_NoDup as Hnd. unfold b_spread_items in Hnd.
    unfold b_get_spread_params, b_spread_items, maybe_flatten. rewrite (b_tumor_nested b Hok), (b_lnl_flat b Hok), (b_lnl_nested b Hok).
    fold i c in Hnd |- *. destruct (b_symT b), (b_symL b); cbn [negb andb].
    - rewrite (kw_update_heads (LNp i) (TNp i)).
      + rewrite flatten_spec; rewrite flat_items_dict_app, flat_Tn, flat_items_dict_leaves; [reflexivity | exact Hnd].
      + rewrite leaves_keys. apply u_lnl_keys_NoDup, Hi.
      + rewrite leaves_keys. apply hL_Li.
      + apply hT_Tn.
      + intros s HL HT. exact (TNp_LNp_disj i Hi s HT HL).
    - rewrite (kw_update_heads SIDE (TNp i)).
      + rewrite flatten_spec; rewrite flat_items_dict_app, flat_Tn, flat_items_dict_leaves; [reflexivity | exact Hnd].
      + rewrite leaves_keys. apply NoDup_sides; [apply u_lnl_keys_NoDup, Hi | apply u_lnl_keys_NoDup, Hc].
      + rewrite leaves_keys. apply heads_sides.
      + apply hT_Tn.
      + intros s Hs HT. apply (EN_SIDE_disj i Hi s); [apply TNp_EN, HT | exact Hs].
    - rewrite (kw_update_heads (LNp i) SIDE).
      + rewrite flatten_spec; rewrite flat_items_dict_app, flat_two_sides, !flat_Tn, flat_items_dict_leaves, <- app_assoc; [reflexivity | exact Hnd].
      + rewrite leaves_keys. apply u_lnl_keys_NoDup, Hi.
      + rewrite leaves_keys. apply hL_Li.
      + intros k [<-|[<-|[]]]; [apply SIDE_ipsi | apply SIDE_contra].
      + intros s HL Hs. apply (EN_SIDE_disj i Hi s); [apply LNp_EN, HL | exact Hs].
    - rewrite pd_sub_here, pd_update_at_here.
      rewrite pd_sub_skip by discriminate. rewrite pd_sub_here.
      rewrite pd_update_at_skip by discriminate. rewrite pd_update_at_here.
      rewrite (kw_update_heads (LNp i) (TNp i) (Ln i) (Tn i));
        [| apply NoDup_Ln, Hi | apply hL_Ln | apply hT_Tn | intros s HL HT; exact (TNp_LNp_disj i Hi s HT HL)].
      rewrite (kw_update_heads (LNp c) (TNp c) (Ln c) (Tn c));
        [| apply NoDup_Ln, Hc | apply hL_Ln | apply hT_Tn | intros s HL HT; exact (TNp_LNp_disj c Hc s HT HL)].
      rewrite flatten_spec; rewrite flat_two_sides, !flat_items_dict_app, !flat_Tn, !flat_Ln; [reflexivity | exact Hnd].
  Qed.

  Theorem b_got_spec : b_got b = b_items b.
  Proof.
    unfold b_got, b_get_params, b_get_distribution_params, maybe_flatten. fold i. rewrite b_spread_flat, (u_dist_flat i Hi).
    rewrite (flatten_leaves (u_dist_items i)) by (apply u_dist_keys_NoDup, Hi).
    rewrite kw_update_leaves. pose proof b_items_NoDup as Hnd. rewrite b_items_split in *. fold i in Hnd. rewrite map_app in Hnd.
    rewrite kw_update_fresh; [| apply u_dist_keys_NoDup, Hi | intros k Hk Hk'; exact (NoDup_app_disj _ _ k Hnd Hk' Hk)].
    rewrite flatten_leaves by (rewrite map_app; exact Hnd). apply items_leaves.
  Qed.
End BiGet2.

Section BiNested.
  Variable b : bilateral.
  Hypothesis Hok : b_names_ok b = true.
  Let i := b_ipsi b.
  Let c := b_contra b.
  Let Hi : u_names_ok i = true := proj1 (b_names_ok_parts b Hok).
  Let Hc : u_names_ok c = true := proj1 (proj2 (b_names_ok_parts b Hok)).

  Lemma NoDup_two_sides X Y : NoDup (map fst [(["ipsi"], Node X); (["contra"], Node Y)]).
  Proof. repeat constructor; cbn; intuition discriminate. Qed.
  Lemma heads_two_sides X Y : heads_in SIDE (map fst [(["ipsi"], Node X); (["contra"], Node Y)]).
  Proof. intros k [<-|[<-|[]]]; [apply SIDE_ipsi | apply SIDE_contra]. Qed.

  Definition b_spread_nested_form : pdict :=
    match b_symT b, b_symL b with
    | true, true => Tn i ++ Ln i
    | true, false => Tn i ++ [(["ipsi"], Node (Ln i)); (["contra"], Node (Ln c))]
    | false, true => [(["ipsi"], Node (Tn i)); (["contra"], Node (Tn c))] ++ Ln i
    | false, false => [(["ipsi"], Node (Tn i ++ Ln i)); (["contra"], Node (Tn c ++ Ln c))]
    end.
  Lemma b_spread_nested : b_get_spread_params b false = b_spread_nested_form.
  Proof.
    unfold b_get_spread_params, b_spread_nested_form, maybe_flatten. rewrite (b_tumor_nested b Hok), (b_lnl_nested b Hok).
    fold i c. destruct (b_symT b), (b_symL b); cbn [negb andb].
    - apply (kw_update_heads (LNp i) (TNp i)); [apply NoDup_Ln, Hi | apply hL_Ln | apply hT_Tn | intros s HL HT; exact (TNp_LNp_disj i Hi s HT HL)].
    - apply (kw_update_heads SIDE (TNp i)); [apply NoDup_two_sides | apply heads_two_sides | apply hT_Tn |].
      intros s Hs HT. apply (EN_SIDE_disj i Hi s); [apply TNp_EN, HT | exact Hs].
    - apply (kw_update_heads (LNp i) SIDE); [apply NoDup_Ln, Hi | apply hL_Ln | apply heads_two_sides |].
      intros s HL Hs. apply (EN_SIDE_disj i Hi s); [apply LNp_EN, HL | exact Hs].
    - rewrite pd_sub_here, pd_update_at_here.
      rewrite pd_sub_skip by discriminate. rewrite pd_sub_here.
      rewrite pd_update_at_skip by discriminate. rewrite pd_update_at_here.
      rewrite (kw_update_heads (LNp i) (TNp i) (Ln i) (Tn i));
        [| apply NoDup_Ln, Hi | apply hL_Ln | apply hT_Tn | intros s HL HT; exact (TNp_LNp_disj i Hi s HT HL)].
      rewrite (kw_update_heads (LNp c) (TNp c) (Ln c) (Tn c));
        [| apply NoDup_Ln, Hc | apply hL_Ln | apply hT_Tn | intros s HL HT; exact (TNp_LNp_disj c Hc s HT HL)].
      reflexivity.
  Qed.
  Lemma b_spread_nested_heads : heads_in (fun s => EN i s \/ SIDE s) (map fst b_spread_nested_form).
  Proof.
    unfold b_spread_nested_form. destruct (b_symT b), (b_symL b); rewrite ?map_app; repeat apply heads_in_app;
      try (eapply heads_in_weaken; [|apply hT_Tn]; intros s Hs; left; apply TNp_EN, Hs);
      try (eapply heads_in_weaken; [|apply hL_Ln]; intros s Hs; left; apply LNp_EN, Hs);
      try (eapply heads_in_weaken; [|apply heads_two_sides]; intros s Hs; right; exact Hs).
  Qed.
  Lemma b_spread_nested_flat : flat_items_dict b_spread_nested_form = b_spread_items b.
  Proof.
    unfold b_spread_nested_form, b_spread_items. fold i c.
    destruct (b_symT b), (b_symL b); rewrite ?flat_items_dict_app, ?flat_two_sides, ?flat_items_dict_app, ?flat_Tn, ?flat_Ln, <- ?app_assoc; reflexivity.
  Qed.

  Theorem b_nested_flattens_to_flat : flat_items_dict (b_get_params b false) = b_got b.
  Proof.
    rewrite (b_got_spec b Hok), b_items_split. unfold b_get_params, b_get_distribution_params, maybe_flatten. fold i.
    rewrite b_spread_nested, (u_dist_nested i Hi).
    rewrite (kw_update_heads (TS i) (fun s => EN i s \/ SIDE s)).
    - rewrite flat_items_dict_app, b_spread_nested_flat, flat_Dn. reflexivity.
    - apply NoDup_Dn, Hi.
    - apply heads_Dn.
    - apply b_spread_nested_heads.
    - intros s Ht [He|Hs]; [exact (EN_TS_disj i Hi s He Ht) | exact (TS_SIDE_disj i Hi s Ht Hs)].
  Qed.
End BiNested.

(** * Setting: one unilateral model, one group of edges *)
Definition u_put_sel (sel : edge -> bool) (u : uni) (qs : list Qc) : uni :=
  u_with_graph u (with_edges (u_graph u) (edges_put (u_tri u) sel (u_edges u) qs)).
Definition u_sel_items (sel : edge -> bool) (u : uni) : list (path * Qc) := sel_params (u_tri u) sel (u_edges u).

Lemma leaf_step_ok sel u a kwL qs : u_names_ok u = true ->
  all_unit (plan (u_lk kwL) (u_sel_items sel u) a) = Some qs ->
  lift_graph u (graph_set_params_sel sel (u_graph u) a kwL) = (u_put_sel sel u qs, Some (skipn (length (u_sel_items sel u)) a)).
Proof.
  intros H Hp. unfold lift_graph.
  rewrite (graph_set_sel_ok sel (u_graph u) kwL (fun s => reserved_not_filter u sel s H) a qs Hp). reflexivity.
Qed.
Lemma leaf_step_fail sel u a kwL : u_names_ok u = true ->
  all_unit (plan (u_lk kwL) (u_sel_items sel u) a) = None ->
  snd (lift_graph u (graph_set_params_sel sel (u_graph u) a kwL)) = None.
Proof.
  intros H Hp. unfold lift_graph. cbn [snd].
  apply (graph_set_sel_fail sel (u_graph u) kwL (fun s => reserved_not_filter u sel s H) a Hp).
Qed.

Lemma not_empty_in_sides : ~ In "" sides.
Proof. cbn. intuition discriminate. Qed.
Lemma side_kwargs_lk kw ikw ckw : side_kwargs kw = (ikw, ckw) ->
  (forall k, u_lk ikw k = side_lk "ipsi" kw k) /\ (forall k, u_lk ckw k = side_lk "contra" kw k).
Proof.
  unfold side_kwargs. destruct (unflatten_and_split kw ["ipsi"; "contra"]) as [split glob] eqn:Hu. intros [= <- <-].
  assert (H : forall side, In side sides -> forall k, u_lk (obj_kwargs side split glob) k = side_lk side kw k).
  { intros side Hs k. destruct k as [|n t]; [reflexivity|]. unfold u_lk, side_lk.
    rewrite !kw_last_NoDup by (apply (obj_kwargs_NoDup kw ["ipsi"; "contra"]); exact Hu).
    rewrite !(obj_kwargs_lookup kw sides side _ split glob not_empty_in_sides Hu Hs). reflexivity. }
  split; apply H; cbn; tauto.
Qed.

(** * One step of Bilateral.set_params: tumour arcs or LNL arcs of both sides *)
Section SideStep.
  Variables (sel : edge -> bool) (sym : bool) (b : bilateral) (a : args) (kw : kwargs).
  Hypothesis Hsel : kind_sel sel.
  Hypothesis Hok : b_names_ok b = true.
  Let i := b_ipsi b.
  Let c := b_contra b.
  Let Pi := u_sel_items sel i.
  Let Pc := u_sel_items sel c.

  Definition side_plan : list val :=
    plan (side_lk "ipsi" kw) Pi a ++ (if sym then [] else plan (side_lk "contra" kw) Pc (skipn (length Pi) a)).
  Definition side_len : nat := length Pi + (if sym then 0 else length Pc).
  Definition side_result (qs : list Qc) : bilateral :=
    b_with b (u_put_sel sel i (firstn (length Pi) qs))
             (u_put_sel sel c (if sym then firstn (length Pi) qs else skipn (length Pi) qs)).

  Lemma b_side_spec :
    match all_unit side_plan with
    | Some qs => b_set_side_params sel sym b a kw = (side_result qs, Some (skipn side_len a))
    | None => snd (b_set_side_params sel sym b a kw) = None
    end.
  Proof.
    destruct (b_names_ok_parts b Hok) as (Hi & Hc & Hshape & Htri). fold i c in Hi, Hc, Hshape, Htri.
    unfold side_plan, side_len, side_result, b_set_side_params. destruct (side_kwargs kw) as [ikw ckw] eqn:Hsk.
    destruct (side_kwargs_lk kw ikw ckw Hsk) as [Hlki Hlkc]. fold i c.
    rewrite all_unit_app.
    assert (Hpi : plan (u_lk ikw) (u_sel_items sel i) a = plan (side_lk "ipsi" kw) Pi a) by (apply plan_ext; intros; apply Hlki).
    destruct (all_unit (plan (side_lk "ipsi" kw) Pi a)) as [qI|] eqn:EI.
    - rewrite (leaf_step_ok sel i a ikw qI Hi) by (rewrite Hpi; exact EI). fold Pi.
      pose proof (all_unit_length _ _ EI) as HlI. rewrite plan_length in HlI.
      destruct sym.
      + (* symmetric: the contralateral side is synchronised *)
        cbn [all_unit]. rewrite app_nil_r, <- HlI, firstn_all, Nat.add_0_r.
        unfold u_sync. rewrite Htri.
        assert (Hedges : u_edges (u_put_sel sel i qI) = edges_put (u_tri i) sel (u_edges i) qI) by reflexivity.
        assert (Htri' : u_tri (u_put_sel sel i qI) = u_tri i) by reflexivity.
        fold (u_edges (u_put_sel sel i qI)) (u_edges c). rewrite Htri'.
        assert (Hvals : map snd (sel_params (u_tri i) sel (u_edges (u_put_sel sel i qI))) = qI).
        { rewrite Hedges, sel_params_put by (try exact Hsel; exact HlI). apply map_snd_combine. rewrite map_length. symmetry. exact HlI. }
        assert (Hnd : NoDup (map e_name (u_edges (u_put_sel sel i qI))))
          by (rewrite Hedges, edges_put_names; apply names_ok_edges_NoDup, Hi).
        rewrite (sync_edges_aligned (u_tri i) sel (u_edges (u_put_sel sel i qI)) Hnd Hsel (u_edges c) (u_edges (u_put_sel sel i qI))).
        * rewrite Hvals. unfold u_put_sel. rewrite Htri. reflexivity.
        * rewrite Hedges, edges_put_shape. symmetry. exact Hshape.
        * intros e He. exact He.
        * rewrite Hvals. destruct (all_unit_Some_vals _ _ EI) as [_ Hu]. exact Hu.
      + (* asymmetric: the contralateral side consumes the next values *)
        assert (Hpc : plan (u_lk ckw) (u_sel_items sel c) (skipn (length Pi) a) = plan (side_lk "contra" kw) Pc (skipn (length Pi) a))
          by (apply plan_ext; intros; apply Hlkc).
        destruct (all_unit (plan (side_lk "contra" kw) Pc (skipn (length Pi) a))) as [qC|] eqn:EC.
        * rewrite (leaf_step_ok sel c _ ckw qC Hc) by (rewrite Hpc; exact EC). fold Pc.
          rewrite firstn_app_len, skipn_app_len by exact HlI. rewrite skipn_skipn. reflexivity.
        * pose proof (leaf_step_fail sel c (skipn (length Pi) a) ckw Hc) as Hf. rewrite Hpc in Hf. specialize (Hf EC).
          destruct (lift_graph c _) as [c' o]. cbn [snd] in *. subst o. reflexivity.
    - pose proof (leaf_step_fail sel i a ikw Hi) as Hf. rewrite Hpi in Hf. specialize (Hf EI).
      destruct (lift_graph i _) as [i' o]. cbn [snd] in Hf. subst o. reflexivity.
  Qed.
End SideStep.

(** * The consumption order and the plan of Bilateral.set_params *)
Definition side_order (sel : edge -> bool) (sym : bool) (b : bilateral) : list (path * Qc) :=
  if sym then u_sel_items sel (b_ipsi b)
  else pre ["ipsi"] (u_sel_items sel (b_ipsi b)) ++ pre ["contra"] (u_sel_items sel (b_contra b)).
Lemma b_set_order_split b :
  b_set_order b = side_order is_tumor_spread (b_symT b) b ++ side_order sel_lnl (b_symL b) b ++ u_dist_items (b_ipsi b).
Proof.
  unfold b_set_order, b_items, side_order, u_sel_items, u_tumor_items, u_lnl_items.
  destruct (b_symT b), (b_symL b); rewrite <- ?app_assoc; reflexivity.
Qed.
Lemma keys_eqb_eq k1 k2 : keys_eqb k1 k2 = true -> k1 = k2.
Proof.
  revert k2. induction k1 as [|a r IH]; intros [|b' r2] H; cbn in H; try discriminate; [reflexivity|].
  apply andb_true_iff in H. destruct H as [H1 H2]. apply path_eqb_eq in H1. rewrite H1, (IH _ H2). reflexivity.
Qed.
Lemma b_dist_keys b : b_names_ok b = true -> map fst (u_dist_items (b_contra b)) = map fst (u_dist_items (b_ipsi b)).
Proof. unfold b_names_ok. rewrite !andb_true_iff. intros [_ H]. symmetry. apply keys_eqb_eq, H. Qed.

Lemma b_lk_plain kw n t : n <> "ipsi" -> n <> "contra" -> b_lk kw (n :: t) = side_lk "ipsi" kw (n :: t).
Proof. intros H1 H2. unfold b_lk. apply String.eqb_neq in H1, H2. rewrite H1, H2. reflexivity. Qed.
Lemma plan_b_lk_edges kw u a (P : list (path * Qc)) : u_names_ok u = true -> heads_in (EN u) (map fst P) ->
  plan (b_lk kw) P a = plan (side_lk "ipsi" kw) P a.
Proof.
  intros H Hh. apply plan_ext. intros k Hk. specialize (Hh k Hk). destruct k as [|n t]; [reflexivity|]. cbn in Hh.
  apply b_lk_plain; intros ->; apply (in_reserved_not_edge u _ H) in Hh; try exact Hh; cbn; tauto.
Qed.
Lemma plan_b_lk_dists kw u a : u_names_ok u = true ->
  plan (b_lk kw) (u_dist_items u) a = plan (side_lk "ipsi" kw) (u_dist_items u) a.
Proof.
  intros H. apply plan_ext. intros k Hk. pose proof (heads_Di u k Hk) as Hh. destruct k as [|n t]; [reflexivity|]. cbn in Hh.
  apply b_lk_plain; intros ->; apply (in_reserved_not_tstage u _ H) in Hh; try exact Hh; cbn; tauto.
Qed.
Lemma heads_sel_items sel u : heads_in (EN u) (map fst (u_sel_items sel u)).
Proof. eapply heads_in_weaken; [|apply sel_params_heads_in]. intros s. apply EN_filter. Qed.
Lemma plan_side_order sel sym b a kw : b_names_ok b = true ->
  plan (b_lk kw) (side_order sel sym b) a = side_plan sel sym b a kw.
Proof.
  intros Hok. destruct (b_names_ok_parts b Hok) as (Hi & _). unfold side_order, side_plan. destruct sym.
  - rewrite app_nil_r. apply (plan_b_lk_edges kw (b_ipsi b)); [exact Hi | apply heads_sel_items].
  - rewrite plan_app, !plan_pre, pre_length. reflexivity.
Qed.
Lemma side_order_length sel sym b : length (side_order sel sym b) = side_len sel sym b.
Proof. unfold side_order, side_len. destruct sym; rewrite ?app_length, ?pre_length; lia. Qed.
Lemma side_plan_length sel sym b a kw : length (side_plan sel sym b a kw) = side_len sel sym b.
Proof. unfold side_plan, side_len. destruct sym; rewrite app_length, !plan_length; cbn [length]; lia. Qed.

Lemma b_items_length b : b_names_ok b = true -> length (b_items b) = length (b_set_order b).
Proof.
  intros H. unfold b_set_order. destruct (b_symT b) eqn:ET, (b_symL b) eqn:EL; try reflexivity.
  unfold b_items. rewrite ET, EL. rewrite !app_length, !pre_length, !app_length. lia.
Qed.
Lemma b_num_spread_eq b : b_names_ok b = true ->
  b_num_spread b = side_len is_tumor_spread (b_symT b) b + side_len sel_lnl (b_symL b) b.
Proof.
  intros H. unfold b_num_spread. rewrite (b_items_length b H), b_set_order_split, !app_length, !side_order_length. lia.
Qed.

Lemma b_new_split b a kw : b_names_ok b = true ->
  b_new b a kw = side_plan is_tumor_spread (b_symT b) b a kw
                 ++ side_plan sel_lnl (b_symL b) b (skipn (side_len is_tumor_spread (b_symT b) b) a) kw
                 ++ plan (side_lk "ipsi" kw) (u_dist_items (b_ipsi b)) (skipn (b_num_spread b) a).
Proof.
  intros H. unfold b_new. rewrite b_set_order_split, !plan_app, !(plan_side_order _ _ _ _ _ H), !side_order_length, skipn_skipn.
  rewrite (plan_b_lk_dists kw (b_ipsi b)) by apply (b_names_ok_parts b H). rewrite (b_num_spread_eq b H). reflexivity.
Qed.

(** * The distribution step *)
Lemma b_dist_step b a kw : b_names_ok b = true ->
  match dists_put (u_maxt (b_ipsi b)) (u_dists (b_ipsi b)) (plan (side_lk "ipsi" kw) (u_dist_items (b_ipsi b)) a),
        dists_put (u_maxt (b_contra b)) (u_dists (b_contra b)) (plan (side_lk "contra" kw) (u_dist_items (b_contra b)) a) with
  | Some dsi, Some dsc =>
      b_set_distribution_params b a kw
      = (b_with b (u_with_dists (b_ipsi b) dsi) (u_with_dists (b_contra b) dsc), Some (skipn (length (u_dist_items (b_contra b))) a))
  | _, _ => snd (b_set_distribution_params b a kw) = None
  end.
Proof.
  intros Hok. destruct (b_names_ok_parts b Hok) as (Hi & Hc & _). unfold b_set_distribution_params.
  destruct (side_kwargs kw) as [ikw ckw] eqn:Hsk. destruct (side_kwargs_lk kw ikw ckw Hsk) as [Hlki Hlkc].
  pose proof (u_set_dist_spec (b_ipsi b) ikw Hi a) as Hsi. pose proof (u_set_dist_spec (b_contra b) ckw Hc a) as Hsc.
  rewrite (plan_ext (u_lk ikw) (side_lk "ipsi" kw)) in Hsi by (intros; apply Hlki).
  rewrite (plan_ext (u_lk ckw) (side_lk "contra" kw)) in Hsc by (intros; apply Hlkc).
  destruct (dists_put (u_maxt (b_ipsi b)) _ _) as [dsi|].
  - rewrite Hsi. destruct (dists_put (u_maxt (b_contra b)) _ _) as [dsc|].
    + rewrite Hsc. reflexivity.
    + destruct (u_set_distribution_params (b_contra b) a ckw) as [c' o]. cbn [snd] in *. exact Hsc.
  - destruct (u_set_distribution_params (b_ipsi b) a ikw) as [i' o]. cbn [snd] in Hsi. subst o. reflexivity.
Qed.

(** * Structure is preserved by the spread steps *)
Lemma u_put_sel_names_ok sel u qs : u_names_ok (u_put_sel sel u qs) = u_names_ok u.
Proof. unfold u_names_ok, u_edge_names, u_edges, u_put_sel. cbn [u_with_graph u_graph u_dists with_edges g_edges]. rewrite edges_put_names. reflexivity. Qed.
Lemma shape_eqb_put tri1 tri2 sel es1 es2 q1 q2 :
  shape_eqb (edges_put tri1 sel es1 q1) (edges_put tri2 sel es2 q2) = shape_eqb es1 es2.
Proof.
  assert (H : forall e1 e2 f1 f2, shape e1 = shape f1 -> shape e2 = shape f2 -> shape_eqb e1 e2 = shape_eqb f1 f2).
  { induction e1 as [|x e1 IH]; intros e2 f1 f2 H1 H2; destruct f1 as [|y f1]; cbn [shape map] in H1; try discriminate.
    - destruct e2, f2; cbn [shape map] in H2; try discriminate; reflexivity.
    - injection H1 as Hn Hk Hr. destruct e2 as [|x2 e2], f2 as [|y2 f2]; cbn [shape map] in H2; try discriminate; [reflexivity|].
      injection H2 as Hn2 Hk2 Hr2. cbn [shape_eqb]. rewrite Hn, Hk, Hn2, Hk2, (IH e2 f1 f2 Hr Hr2). reflexivity. }
  apply H; apply edges_put_shape.
Qed.
Lemma side_result_names_ok sel sym b qs : b_names_ok b = true -> b_names_ok (side_result sel sym b qs) = true.
Proof.
  intros H. unfold b_names_ok in *. unfold side_result, b_with. cbn [b_ipsi b_contra]. rewrite !u_put_sel_names_ok.
  unfold same_shape, same_dist_keys, u_put_sel, u_edges in *. cbn [u_with_graph u_graph u_dists with_edges g_edges g_base].
  rewrite shape_eqb_put. exact H.
Qed.
Lemma u_sel_items_put_other sel sel' u qs : kind_sel sel' -> (forall e, sel e = true -> sel' e = false) ->
  u_sel_items sel' (u_put_sel sel u qs) = u_sel_items sel' u.
Proof. intros Hk Hd. unfold u_sel_items, u_put_sel. cbn. fold (u_tri u) (u_edges u). apply sel_params_put_other; assumption. Qed.
Lemma u_sel_items_put sel u qs : kind_sel sel -> length qs = length (u_sel_items sel u) ->
  u_sel_items sel (u_put_sel sel u qs) = combine (map fst (u_sel_items sel u)) qs.
Proof. intros Hk Hl. unfold u_sel_items, u_put_sel. cbn. fold (u_tri u) (u_edges u). apply sel_params_put; assumption. Qed.

Lemma side_plan_after_T b qsT a kw :
  side_plan sel_lnl (b_symL b) (side_result is_tumor_spread (b_symT b) b qsT) a kw = side_plan sel_lnl (b_symL b) b a kw
  /\ side_len sel_lnl (b_symL b) (side_result is_tumor_spread (b_symT b) b qsT) = side_len sel_lnl (b_symL b) b.
Proof.
  unfold side_plan, side_len, side_result, b_with. cbn [b_ipsi b_contra].
  rewrite !(u_sel_items_put_other is_tumor_spread sel_lnl) by (try apply kind_sel_lnl; apply tumor_not_lnl). split; reflexivity.
Qed.

Definition b_after_spread (b : bilateral) (qsT qsL : list Qc) : bilateral :=
  side_result sel_lnl (b_symL b) (side_result is_tumor_spread (b_symT b) b qsT) qsL.

Lemma b_set_params_steps b a kw : b_names_ok b = true ->
  let lenT := side_len is_tumor_spread (b_symT b) b in
  let lenL := side_len sel_lnl (b_symL b) b in
  match all_unit (side_plan is_tumor_spread (b_symT b) b a kw) with
  | None => snd (b_set_params b a kw) = None
  | Some qsT =>
      match all_unit (side_plan sel_lnl (b_symL b) b (skipn lenT a) kw) with
      | None => snd (b_set_params b a kw) = None
      | Some qsL =>
          let b2 := b_after_spread b qsT qsL in
          let a2 := skipn (lenT + lenL) a in
          match dists_put (u_maxt (b_ipsi b)) (u_dists (b_ipsi b)) (plan (side_lk "ipsi" kw) (u_dist_items (b_ipsi b)) a2),
                dists_put (u_maxt (b_contra b)) (u_dists (b_contra b)) (plan (side_lk "contra" kw) (u_dist_items (b_contra b)) a2) with
          | Some dsi, Some dsc =>
              b_set_params b a kw
              = (b_with b2 (u_with_dists (b_ipsi b2) dsi) (u_with_dists (b_contra b2) dsc),
                 Some (skipn (length (u_dist_items (b_contra b))) a2))
          | _, _ => snd (b_set_params b a kw) = None
          end
      end
  end.
Proof.
  intros Hok lenT lenL. unfold b_set_params, b_set_spread_params, b_set_tumor_spread_params, b_set_lnl_spread_params.
  pose proof (b_side_spec is_tumor_spread (b_symT b) b a kw kind_sel_tumor Hok) as HT.
  destruct (all_unit (side_plan is_tumor_spread (b_symT b) b a kw)) as [qsT|].
  - rewrite HT. cbn [andthen]. fold lenT.
    set (b1 := side_result is_tumor_spread (b_symT b) b qsT).
    assert (Hok1 : b_names_ok b1 = true) by (apply side_result_names_ok, Hok).
    assert (HsymL : b_symL b1 = b_symL b) by reflexivity. rewrite HsymL.
    pose proof (b_side_spec sel_lnl (b_symL b) b1 (skipn lenT a) kw kind_sel_lnl Hok1) as HL.
    destruct (side_plan_after_T b qsT (skipn lenT a) kw) as [Hp Hlen]. fold b1 in Hp, Hlen. rewrite Hp, Hlen in HL. fold lenL in HL.
    destruct (all_unit (side_plan sel_lnl (b_symL b) b (skipn lenT a) kw)) as [qsL|].
    + rewrite HL. cbn [andthen]. rewrite skipn_skipn.
      fold (b_after_spread b qsT qsL). set (b2 := b_after_spread b qsT qsL).
      assert (Hok2 : b_names_ok b2 = true) by (apply side_result_names_ok, Hok1).
      pose proof (b_dist_step b2 (skipn (lenT + lenL) a) kw Hok2) as HD.
      change (u_maxt (b_ipsi b2)) with (u_maxt (b_ipsi b)) in HD. change (u_dists (b_ipsi b2)) with (u_dists (b_ipsi b)) in HD.
      change (u_maxt (b_contra b2)) with (u_maxt (b_contra b)) in HD. change (u_dists (b_contra b2)) with (u_dists (b_contra b)) in HD.
      change (u_dist_items (b_ipsi b2)) with (u_dist_items (b_ipsi b)) in HD.
      change (u_dist_items (b_contra b2)) with (u_dist_items (b_contra b)) in HD.
      destruct (dists_put (u_maxt (b_ipsi b)) _ _) as [dsi|]; [|exact HD].
      destruct (dists_put (u_maxt (b_contra b)) _ _) as [dsc|]; exact HD.
    + destruct (b_set_side_params sel_lnl (b_symL b) b1 (skipn lenT a) kw) as [b' o]. cbn [snd] in HL. subst o. reflexivity.
  - destruct (b_set_side_params is_tumor_spread (b_symT b) b a kw) as [b' o]. cbn [snd] in HT. subst o. reflexivity.
Qed.

(** * The object after a successful Bilateral.set_params *)
Definition b_final (b : bilateral) (qsT qsL : list Qc) (dsi dsc : list (string * dist)) : bilateral :=
  let b2 := b_after_spread b qsT qsL in
  b_with b2 (u_with_dists (b_ipsi b2) dsi) (u_with_dists (b_contra b2) dsc).
Definition part_i (sel : edge -> bool) (b : bilateral) (qs : list Qc) : list Qc := firstn (length (u_sel_items sel (b_ipsi b))) qs.
Definition part_c (sel : edge -> bool) (sym : bool) (b : bilateral) (qs : list Qc) : list Qc :=
  if sym then part_i sel b qs else skipn (length (u_sel_items sel (b_ipsi b))) qs.

Lemma u_tumor_items_sel u : u_tumor_items u = u_sel_items is_tumor_spread u. Proof. reflexivity. Qed.
Lemma u_lnl_items_sel u : u_lnl_items u = u_sel_items sel_lnl u. Proof. reflexivity. Qed.
Lemma u_sel_items_with_dists sel u ds : u_sel_items sel (u_with_dists u ds) = u_sel_items sel u. Proof. reflexivity. Qed.

Lemma contra_sel_keys sel b : kind_sel sel -> b_names_ok b = true ->
  map fst (u_sel_items sel (b_contra b)) = map fst (u_sel_items sel (b_ipsi b)).
Proof.
  intros Hk H. destruct (b_names_ok_parts b H) as (_ & _ & Hs & Ht). unfold u_sel_items. rewrite Ht.
  symmetry. apply shape_sel_keys; [exact Hk | exact Hs].
Qed.
Lemma contra_sel_length sel b : kind_sel sel -> b_names_ok b = true ->
  length (u_sel_items sel (b_contra b)) = length (u_sel_items sel (b_ipsi b)).
Proof. intros Hk H. rewrite <- (map_length fst), (contra_sel_keys sel b Hk H), map_length. reflexivity. Qed.

Lemma part_lengths sel sym b qs : kind_sel sel -> b_names_ok b = true -> length qs = side_len sel sym b ->
  length (part_i sel b qs) = length (u_sel_items sel (b_ipsi b)) /\
  length (part_c sel sym b qs) = length (u_sel_items sel (b_contra b)).
Proof.
  intros Hk H Hl. pose proof (contra_sel_length sel b Hk H) as Hc.
  destruct sym; unfold part_c, part_i, side_len in *; rewrite ?firstn_length, ?skipn_length; split; lia.
Qed.

Lemma b_final_leaf_items b qsT qsL dsi dsc : b_names_ok b = true ->
  length qsT = side_len is_tumor_spread (b_symT b) b -> length qsL = side_len sel_lnl (b_symL b) b ->
  let b' := b_final b qsT qsL dsi dsc in
  u_tumor_items (b_ipsi b') = combine (map fst (u_tumor_items (b_ipsi b))) (part_i is_tumor_spread b qsT) /\
  u_lnl_items (b_ipsi b') = combine (map fst (u_lnl_items (b_ipsi b))) (part_i sel_lnl b qsL) /\
  u_tumor_items (b_contra b') = combine (map fst (u_tumor_items (b_contra b))) (part_c is_tumor_spread (b_symT b) b qsT) /\
  u_lnl_items (b_contra b') = combine (map fst (u_lnl_items (b_contra b))) (part_c sel_lnl (b_symL b) b qsL) /\
  u_dist_items (b_ipsi b') = dists_items dsi.
Proof.
  intros H HlT HlL b'.
  destruct (part_lengths is_tumor_spread (b_symT b) b qsT kind_sel_tumor H HlT) as [H1 H2].
  destruct (part_lengths sel_lnl (b_symL b) b qsL kind_sel_lnl H HlL) as [H3 H4].
  unfold b', b_final, b_after_spread, side_result, b_with. cbn [b_ipsi b_contra].
  repeat match goal with |- context [u_tumor_items ?u] => change (u_tumor_items u) with (u_sel_items is_tumor_spread u) end.
  repeat match goal with |- context [u_lnl_items ?u] => change (u_lnl_items u) with (u_sel_items sel_lnl u) end.
  repeat match goal with |- context [u_sel_items ?s (u_with_dists ?u ?d)] => change (u_sel_items s (u_with_dists u d)) with (u_sel_items s u) end.
  rewrite !(u_sel_items_put_other sel_lnl is_tumor_spread) by (try apply kind_sel_tumor; apply lnl_not_tumor).
  rewrite !(u_sel_items_put_other is_tumor_spread sel_lnl) by (try apply kind_sel_lnl; apply tumor_not_lnl).
  fold (part_i is_tumor_spread b qsT) (part_c is_tumor_spread (b_symT b) b qsT).
  repeat split.
  - apply u_sel_items_put; [apply kind_sel_tumor | exact H1].
  - rewrite u_sel_items_put; rewrite ?(u_sel_items_put_other is_tumor_spread sel_lnl); try apply kind_sel_lnl; try apply tumor_not_lnl; [reflexivity | exact H3].
  - apply u_sel_items_put; [apply kind_sel_tumor | exact H2].
  - rewrite u_sel_items_put; rewrite ?(u_sel_items_put_other is_tumor_spread sel_lnl); try apply kind_sel_lnl; try apply tumor_not_lnl; [reflexivity | exact H4].
Qed.

Lemma combine_side_order sel sym b qs : kind_sel sel -> b_names_ok b = true -> length qs = side_len sel sym b ->
  combine (map fst (side_order sel sym b)) qs
  = if sym then combine (map fst (u_sel_items sel (b_ipsi b))) (part_i sel b qs)
    else pre ["ipsi"] (combine (map fst (u_sel_items sel (b_ipsi b))) (part_i sel b qs))
         ++ pre ["contra"] (combine (map fst (u_sel_items sel (b_contra b))) (part_c sel sym b qs)).
Proof.
  intros Hk H Hl. unfold side_order, part_c, part_i, side_len in *. destruct sym.
  - rewrite firstn_all2 by lia. reflexivity.
  - rewrite map_app, !pre_keys. rewrite <- (firstn_skipn (length (u_sel_items sel (b_ipsi b))) qs) at 1.
    rewrite combine_app by (rewrite !map_length, firstn_length; lia). rewrite !combine_pre. reflexivity.
Qed.

Lemma dists_put_keys maxt ds new ds' : dists_put maxt ds new = Some ds' -> length new = length (dists_items ds) ->
  map fst (dists_items ds') = map fst (dists_items ds).
Proof.
  intros H Hl. destruct (dists_put_spec _ _ _ _ H Hl) as (qs & Hu & Hi & _). rewrite Hi. apply map_fst_combine.
  apply unwrap_length in Hu. rewrite map_length. lia.
Qed.
Lemma final_names_ok b qsT qsL dsi dsc newi newc : b_names_ok b = true ->
  dists_put (u_maxt (b_ipsi b)) (u_dists (b_ipsi b)) newi = Some dsi -> length newi = length (u_dist_items (b_ipsi b)) ->
  dists_put (u_maxt (b_contra b)) (u_dists (b_contra b)) newc = Some dsc -> length newc = length (u_dist_items (b_contra b)) ->
  b_names_ok (b_final b qsT qsL dsi dsc) = true.
Proof.
  intros H Hdi Hli Hdc Hlc.
  assert (H2 : b_names_ok (b_after_spread b qsT qsL) = true) by (apply side_result_names_ok, side_result_names_ok, H).
  destruct (dists_put_spec _ _ _ _ Hdi Hli) as (qDi & _ & _ & Hni). destruct (dists_put_spec _ _ _ _ Hdc Hlc) as (qDc & _ & _ & Hnc).
  destruct (dists_put_shape _ _ _ _ Hdi Hli) as (Hki & Hkoi & _). destruct (dists_put_shape _ _ _ _ Hdc Hlc) as (Hkc & Hkoc & _).
  pose proof (dists_put_keys _ _ _ _ Hdi Hli) as Hii. pose proof (dists_put_keys _ _ _ _ Hdc Hlc) as Hic.
  unfold b_names_ok in *. unfold b_final, b_with. cbn [b_ipsi b_contra].
  set (b2 := b_after_spread b qsT qsL) in *.
  change (u_dists (b_ipsi b)) with (u_dists (b_ipsi b2)) in *. change (u_dists (b_contra b)) with (u_dists (b_contra b2)) in *.
  unfold u_names_ok, u_tstages, same_dist_keys, same_shape, u_edge_names, u_edges in *.
  cbn [u_with_dists u_dists u_graph]. rewrite Hni, Hki, Hkoi, Hnc, Hkc, Hkoc, Hii, Hic. exact H2.
Qed.

Lemma b_dist_len b : b_names_ok b = true -> length (u_dist_items (b_contra b)) = length (u_dist_items (b_ipsi b)).
Proof. intros H. rewrite <- (map_length fst), (b_dist_keys b H), map_length. reflexivity. Qed.
Lemma b_items_len b : b_names_ok b = true -> length (b_items b) = b_num_spread b + length (u_dist_items (b_ipsi b)).
Proof.
  intros H. rewrite (b_num_spread_eq b H), (b_items_length b H), b_set_order_split, !app_length, !side_order_length. lia.
Qed.

Theorem bi_set_spec : C10_bi_set_spec_stmt.
Proof.
  intros b a kw Hok r. subst r.
  pose proof (b_set_params_steps b a kw Hok) as Hst. cbv zeta in Hst.
  unfold b_accepts. rewrite (b_new_split b a kw Hok).
  set (lenT := side_len is_tumor_spread (b_symT b) b) in *. set (lenL := side_len sel_lnl (b_symL b) b) in *.
  assert (HnS : b_num_spread b = lenT + lenL) by apply (b_num_spread_eq b Hok).
  set (sT := side_plan is_tumor_spread (b_symT b) b a kw) in *.
  set (sL := side_plan sel_lnl (b_symL b) b (skipn lenT a) kw) in *.
  rewrite app_assoc.
  assert (Hlen : length (sT ++ sL) = b_num_spread b) by (rewrite app_length; unfold sT, sL; rewrite !side_plan_length; lia).
  rewrite firstn_app_len, skipn_app_len by exact Hlen. rewrite all_unit_app. rewrite HnS in *.
  destruct (all_unit sT) as [qsT|] eqn:ET; [|exact Hst].
  destruct (all_unit sL) as [qsL|] eqn:EL; [|exact Hst]. cbn [is_some andb].
  set (pDi := plan (side_lk "ipsi" kw) (u_dist_items (b_ipsi b)) (skipn (lenT + lenL) a)) in *.
  set (pDc := plan (side_lk "contra" kw) (u_dist_items (b_contra b)) (skipn (lenT + lenL) a)) in *.
  destruct (dists_put (u_maxt (b_ipsi b)) (u_dists (b_ipsi b)) pDi) as [dsi|] eqn:EDi; [|exact Hst].
  destruct (dists_put (u_maxt (b_contra b)) (u_dists (b_contra b)) pDc) as [dsc|] eqn:EDc; [|exact Hst]. cbn [is_some andb].
  fold (b_final b qsT qsL dsi dsc) in Hst. rewrite Hst. cbn [fst snd].
  (* lengths and shapes of the pieces *)
  pose proof (all_unit_length _ _ ET) as HlT. pose proof (all_unit_length _ _ EL) as HlL.
  unfold sT, sL in HlT, HlL. rewrite side_plan_length in HlT, HlL. fold lenT in HlT. fold lenL in HlL.
  destruct (all_unit_Some_vals _ _ ET) as [EsT _]. destruct (all_unit_Some_vals _ _ EL) as [EsL _].
  assert (HlDi : length pDi = length (u_dist_items (b_ipsi b))) by apply plan_length.
  assert (HlDc : length pDc = length (u_dist_items (b_contra b))) by apply plan_length.
  destruct (dists_put_spec _ _ _ _ EDi HlDi) as (qD & HuD & HiD & _). apply unwrap_Some in HuD.
  assert (HlqD : length qD = length (u_dist_items (b_ipsi b))) by (rewrite <- HlDi, HuD, vals_length; reflexivity).
  pose proof (final_names_ok b qsT qsL dsi dsc pDi pDc Hok EDi HlDi EDc HlDc) as Hok'.
  destruct (b_final_leaf_items b qsT qsL dsi dsc Hok HlT HlL) as (HTi & HLi & HTc & HLc & HDi). cbv zeta in HTi, HLi, HTc, HLc, HDi.
  destruct (part_lengths is_tumor_spread (b_symT b) b qsT kind_sel_tumor Hok HlT) as [Hp1 Hp2].
  destruct (part_lengths sel_lnl (b_symL b) b qsL kind_sel_lnl Hok HlL) as [Hp3 Hp4].
  exists (qsT ++ qsL ++ qD).
  split; [rewrite EsT, EsL, HuD, !vals_app, <- app_assoc; reflexivity|].
  split; [rewrite skipn_skipn, (b_items_len b Hok), HnS, (b_dist_len b Hok); do 2 f_equal; lia|].
  rewrite (b_got_spec _ Hok').
  (* the reported items of the new object *)
  assert (Hsym : b_symT (b_final b qsT qsL dsi dsc) = b_symT b /\ b_symL (b_final b qsT qsL dsi dsc) = b_symL b) by (split; reflexivity).
  destruct Hsym as [HsT HsL].
  assert (Hitems : b_items (b_final b qsT qsL dsi dsc)
    = match b_symT b, b_symL b with
      | true, true => combine (map fst (u_tumor_items (b_ipsi b))) (part_i is_tumor_spread b qsT)
                      ++ combine (map fst (u_lnl_items (b_ipsi b))) (part_i sel_lnl b qsL) ++ combine (map fst (u_dist_items (b_ipsi b))) qD
      | true, false => combine (map fst (u_tumor_items (b_ipsi b))) (part_i is_tumor_spread b qsT)
                      ++ pre ["ipsi"] (combine (map fst (u_lnl_items (b_ipsi b))) (part_i sel_lnl b qsL))
                      ++ pre ["contra"] (combine (map fst (u_lnl_items (b_contra b))) (part_c sel_lnl (b_symL b) b qsL))
                      ++ combine (map fst (u_dist_items (b_ipsi b))) qD
      | false, true => pre ["ipsi"] (combine (map fst (u_tumor_items (b_ipsi b))) (part_i is_tumor_spread b qsT))
                      ++ pre ["contra"] (combine (map fst (u_tumor_items (b_contra b))) (part_c is_tumor_spread (b_symT b) b qsT))
                      ++ combine (map fst (u_lnl_items (b_ipsi b))) (part_i sel_lnl b qsL) ++ combine (map fst (u_dist_items (b_ipsi b))) qD
      | false, false => pre ["ipsi"] (combine (map fst (u_tumor_items (b_ipsi b))) (part_i is_tumor_spread b qsT)
                                      ++ combine (map fst (u_lnl_items (b_ipsi b))) (part_i sel_lnl b qsL))
                      ++ pre ["contra"] (combine (map fst (u_tumor_items (b_contra b))) (part_c is_tumor_spread (b_symT b) b qsT)
                                         ++ combine (map fst (u_lnl_items (b_contra b))) (part_c sel_lnl (b_symL b) b qsL))
                      ++ combine (map fst (u_dist_items (b_ipsi b))) qD
      end).
  { unfold b_items. rewrite HsT, HsL, HTi, HLi, HTc, HLc, HDi, HiD. destruct (b_symT b), (b_symL b); reflexivity. }
  split.
  - (* same names *)
    rewrite Hitems. unfold b_items.
    destruct (b_symT b), (b_symL b); rewrite ?map_app, ?pre_keys, ?map_app, ?map_fst_combine; try reflexivity;
      rewrite ?map_length; auto.
  - split; [|exact Hok'].
    intros k q Hin. apply kw_get_NoDup_In.
    + apply b_items_NoDup, Hok'.
    + rewrite Hitems. rewrite b_set_order_split, !map_app in Hin.
      rewrite combine_app in Hin by (rewrite map_length, side_order_length; lia).
      rewrite combine_app in Hin by (rewrite map_length, side_order_length; lia).
      rewrite (combine_side_order is_tumor_spread (b_symT b) b qsT kind_sel_tumor Hok HlT) in Hin.
      rewrite (combine_side_order sel_lnl (b_symL b) b qsL kind_sel_lnl Hok HlL) in Hin.
      change (u_sel_items is_tumor_spread) with u_tumor_items in Hin. change (u_sel_items sel_lnl) with u_lnl_items in Hin.
      destruct (b_symT b), (b_symL b); rewrite ?pre_app in *; rewrite ?in_app_iff in *; tauto.
Qed.

(** * Corollaries *)
Lemma b_order_same_names b k : In k (map fst (b_items b)) <-> In k (map fst (b_set_order b)).
Proof.
  unfold b_set_order. destruct (b_symT b) eqn:ET, (b_symL b) eqn:EL; try tauto.
  unfold b_items. rewrite ET, EL. rewrite !map_app, !pre_app, !map_app, !in_app_iff. tauto.
Qed.
Lemma b_not_raise_accepts b a kw : b_names_ok b = true -> snd (b_set_params b a kw) <> None -> b_accepts b a kw = true.
Proof.
  intros H Hr. pose proof (bi_set_spec b a kw H) as Hs. cbv zeta in Hs. destruct (b_accepts b a kw); [reflexivity | contradiction].
Qed.
Lemma dict_determined (l : list (path * Qc)) : forall ks qs, map fst l = ks -> NoDup ks -> length qs = length ks ->
  (forall k q, In (k, q) (combine ks qs) -> kw_get k l = Some q) -> l = combine ks qs.
Proof.
  induction l as [|[k x] l IH]; intros ks qs Hk Hnd Hl H; cbn [map fst] in Hk; subst ks.
  - destruct qs; [reflexivity | discriminate].
  - destruct qs as [|q qs]; [discriminate|]. cbn [combine]. inversion Hnd as [|? ? Hni Hnd']; subst.
    pose proof (H k q (or_introl eq_refl)) as H0. cbn [kw_get] in H0. rewrite path_eqb_refl in H0. injection H0 as ->.
    f_equal. apply IH; [reflexivity | exact Hnd' | cbn in Hl; lia |].
    intros k' q' Hin. pose proof (H k' q' (or_intror Hin)) as H1. cbn [kw_get] in H1.
    rewrite path_eqb_neq in H1; [exact H1|]. intros ->. apply Hni. apply in_combine_l in Hin. exact Hin.
Qed.

Lemma b_lk_nil k : b_lk [] k = None.
Proof.
  assert (Hs : forall side t, side_lk side [] t = None).
  { intros side [|n t]; [reflexivity|]. unfold side_lk, eff. rewrite !kw_last_nil'.
    destruct (mem (head_of (n :: t)) sides), (mem (head_of t) sides); reflexivity. }
  destruct k as [|h t]; [reflexivity|]. unfold b_lk. destruct (String.eqb h "ipsi"), (String.eqb h "contra"); apply Hs.
Qed.

Theorem bi_set_get_positional : C10_bi_set_get_positional_stmt.
Proof.
  intros b v rest Hok Hsym Hl r Hr. subst r.
  assert (Hord : b_set_order b = b_items b).
  { unfold b_set_order. destruct (b_symT b), (b_symL b); try reflexivity. discriminate Hsym. }
  pose proof (bi_set_spec b (vals v ++ rest) [] Hok) as Hs. cbv zeta in Hs.
  rewrite (b_not_raise_accepts b _ _ Hok Hr) in Hs. destruct Hs as (qs & Hq & Hsnd & Hnames & Hget & _).
  assert (Hnew : b_new b (vals v ++ rest) [] = vals v).
  { unfold b_new. rewrite Hord. apply plan_no_kw; [intros; apply b_lk_nil | exact Hl]. }
  rewrite Hnew in Hq. apply vals_inj in Hq. subst qs. rewrite Hord in Hget.
  assert (Hgot : b_got (fst (b_set_params b (vals v ++ rest) [])) = combine (map fst (b_items b)) v).
  { apply dict_determined; [exact Hnames | apply b_items_NoDup, Hok | rewrite map_length; exact Hl | exact Hget]. }
  split; [rewrite Hsnd; f_equal; apply skipn_app_len; rewrite vals_length; exact Hl|].
  rewrite Hgot. split; [apply map_snd_combine | apply map_fst_combine]; rewrite map_length; symmetry; exact Hl.
Qed.

Theorem bi_keyword_over_positional : C10_bi_keyword_over_positional_stmt.
Proof.
  intros b a kw k q Hok Hk Hlk r Hr. subst r.
  pose proof (bi_set_spec b a kw Hok) as Hs. cbv zeta in Hs.
  rewrite (b_not_raise_accepts b _ _ Hok Hr) in Hs. destruct Hs as (qs & Hq & _ & _ & Hget & _).
  apply Hget. apply (plan_In (b_lk kw) (b_set_order b) a qs k q Hq); [apply b_order_same_names, Hk | exact Hlk].
Qed.

(** shape of the reported names *)
Lemma in_pre_keys p (X : list (path * Qc)) k : In k (map fst (pre p X)) <-> exists k', k = p ++ k' /\ In k' (map fst X).
Proof.
  rewrite pre_keys, in_map_iff. split; intros (k' & H1 & H2); exists k'; split; auto.
Qed.
Lemma spread_key_form u k : In k (map fst (u_tumor_items u)) \/ In k (map fst (u_lnl_items u)) -> exists n s, k = [n; s] /\ EN u n.
Proof.
  intros H. assert (H' : In k (map fst (u_tumor_items u ++ u_lnl_items u))) by (rewrite map_app, in_app_iff; exact H).
  apply u_spread_key_head in H'. destruct H' as (n & s & -> & Hn & _). eauto.
Qed.
Lemma dist_key_form u k : In k (map fst (u_dist_items u)) -> exists t s, k = [t; s] /\ TS u t.
Proof. intros H. apply dists_items_heads in H. destruct H as (t & s & Ht & -> & _). eauto. Qed.

Section BiNames.
  Variable b : bilateral.
  Hypothesis Hok : b_names_ok b = true.
  Let i := b_ipsi b.
  Let c := b_contra b.
  Let Hi : u_names_ok i = true := proj1 (b_names_ok_parts b Hok).
  Let Hc : u_names_ok c = true := proj1 (proj2 (b_names_ok_parts b Hok)).

  Lemma not_side_EN n : EN i n -> n <> "ipsi" /\ n <> "contra".
  Proof. intros H. split; intros ->; apply (EN_SIDE_disj i Hi _ H); [left | right]; reflexivity. Qed.
  Lemma not_side_TS n : TS i n -> n <> "ipsi" /\ n <> "contra".
  Proof. intros H. split; intros ->; apply (TS_SIDE_disj i Hi _ H); [left | right]; reflexivity. Qed.

  (** every reported name is "ipsi_x_y", "contra_x_y" or a plain "x_y" whose "ipsi_x_y" is not reported *)
  Lemma b_name_form k : In k (map fst (b_items b)) ->
    (exists n t, k = "ipsi" :: n :: t) \/ (exists n t, k = "contra" :: n :: t) \/
    (exists n t, k = n :: t /\ n <> "ipsi" /\ n <> "contra" /\ ~ In ("ipsi" :: k) (map fst (b_items b))).
  Proof.
    assert (HTc : forall k', In k' (map fst (u_tumor_items c)) <-> In k' (map fst (u_tumor_items i)))
      by (intros k'; unfold c, i; rewrite (contra_T_keys b Hok); tauto).
    assert (HLc : forall k', In k' (map fst (u_lnl_items c)) <-> In k' (map fst (u_lnl_items i)))
      by (intros k'; unfold c, i; rewrite (contra_L_keys b Hok); tauto).
    assert (HTL : forall k', In k' (map fst (u_tumor_items i)) -> In k' (map fst (u_lnl_items i)) -> False)
      by (intros k' H1 H2; exact (u_tumor_lnl_disjoint i k' Hi H2 H1)).
    assert (HTD : forall k', In k' (map fst (u_tumor_items i)) \/ In k' (map fst (u_lnl_items i)) -> In k' (map fst (u_dist_items i)) -> False).
    { intros k' H1 H2. apply spread_key_form in H1. destruct H1 as (n & s & -> & Hn). apply dist_key_form in H2.
      destruct H2 as (t & s' & [= -> _] & Ht). exact (EN_TS_disj i Hi _ Hn Ht). }
    assert (Hplain : forall k', In k' (map fst (u_tumor_items i)) \/ In k' (map fst (u_lnl_items i)) \/ In k' (map fst (u_dist_items i)) ->
              exists n t, k' = n :: t /\ n <> "ipsi" /\ n <> "contra").
    { intros k' [H|[H|H]].
      - destruct (spread_key_form i k' (or_introl H)) as (n & s & -> & Hn). destruct (not_side_EN n Hn). eauto.
      - destruct (spread_key_form i k' (or_intror H)) as (n & s & -> & Hn). destruct (not_side_EN n Hn). eauto.
      - destruct (dist_key_form i k' H) as (n & s & -> & Hn). destruct (not_side_TS n Hn). eauto. }
    assert (Hpref : forall side k', In k' (map fst (u_tumor_items i)) \/ In k' (map fst (u_lnl_items i)) -> exists n t, side :: k' = side :: n :: t).
    { intros side k' H. destruct (spread_key_form i k' H) as (n & s & -> & _). eauto. }
    unfold b_items. fold i c. destruct (b_symT b), (b_symL b);
      rewrite ?map_app, ?pre_app, ?map_app, ?in_app_iff, ?in_pre_keys; intros Hin.
    - (* sym, sym: only plain names *)
      right. right. destruct (Hplain k Hin) as (n & t & -> & H1 & H2). exists n, t. repeat split; try assumption.
      rewrite !in_app_iff. intros Hx. destruct (Hplain _ Hx) as (n' & t' & [= <- _] & Hne & _). congruence.
    - destruct Hin as [Hin|[(k' & -> & Hk')|[(k' & -> & Hk')|Hin]]].
      + right. right. destruct (Hplain k (or_introl Hin)) as (n & t & -> & H1 & H2). exists n, t. repeat split; try assumption.
        rewrite !in_app_iff, !in_pre_keys. intros [Hx|[(k' & [= <-] & Hk')|[(k' & [=] & _)|Hx]]].
        * destruct (Hplain _ (or_introl Hx)) as (n' & t' & [= <- _] & Hne & _). congruence.
        * exact (HTL _ Hin Hk').
        * destruct (Hplain _ (or_intror (or_intror Hx))) as (n' & t' & [= <- _] & Hne & _). congruence.
      + left. apply (Hpref "ipsi"). right. exact Hk'.
      + right. left. apply (Hpref "contra"). right. apply HLc, Hk'.
      + right. right. destruct (Hplain k (or_intror (or_intror Hin))) as (n & t & -> & H1 & H2). exists n, t. repeat split; try assumption.
        rewrite !in_app_iff, !in_pre_keys. intros [Hx|[(k' & [= <-] & Hk')|[(k' & [=] & _)|Hx]]].
        * destruct (Hplain _ (or_introl Hx)) as (n' & t' & [= <- _] & Hne & _). congruence.
        * exact (HTD _ (or_intror Hk') Hin).
        * destruct (Hplain _ (or_intror (or_intror Hx))) as (n' & t' & [= <- _] & Hne & _). congruence.
    - destruct Hin as [(k' & -> & Hk')|[(k' & -> & Hk')|[Hin|Hin]]].
      + left. apply (Hpref "ipsi"). left. exact Hk'.
      + right. left. apply (Hpref "contra"). left. apply HTc, Hk'.
      + right. right. destruct (Hplain k (or_intror (or_introl Hin))) as (n & t & -> & H1 & H2). exists n, t. repeat split; try assumption.
        rewrite !in_app_iff, !in_pre_keys. intros [(k' & [= <-] & Hk')|[(k' & [=] & _)|[Hx|Hx]]].
        * exact (HTL _ Hk' Hin).
        * destruct (Hplain _ (or_intror (or_introl Hx))) as (n' & t' & [= <- _] & Hne & _). congruence.
        * destruct (Hplain _ (or_intror (or_intror Hx))) as (n' & t' & [= <- _] & Hne & _). congruence.
      + right. right. destruct (Hplain k (or_intror (or_intror Hin))) as (n & t & -> & H1 & H2). exists n, t. repeat split; try assumption.
        rewrite !in_app_iff, !in_pre_keys. intros [(k' & [= <-] & Hk')|[(k' & [=] & _)|[Hx|Hx]]].
        * exact (HTD _ (or_introl Hk') Hin).
        * destruct (Hplain _ (or_intror (or_introl Hx))) as (n' & t' & [= <- _] & Hne & _). congruence.
        * destruct (Hplain _ (or_intror (or_intror Hx))) as (n' & t' & [= <- _] & Hne & _). congruence.
    - destruct Hin as [[(k' & -> & Hk')|(k' & -> & Hk')]|[[(k' & -> & Hk')|(k' & -> & Hk')]|Hin]].
      + left. apply (Hpref "ipsi"). left. exact Hk'.
      + left. apply (Hpref "ipsi"). right. exact Hk'.
      + right. left. apply (Hpref "contra"). left. apply HTc, Hk'.
      + right. left. apply (Hpref "contra"). right. apply HLc, Hk'.
      + right. right. destruct (Hplain k (or_intror (or_intror Hin))) as (n & t & -> & H1 & H2). exists n, t. repeat split; try assumption.
        rewrite !in_app_iff, !in_pre_keys.
        intros [[(k' & [= <-] & Hk')|(k' & [= <-] & Hk')]|[[(k' & [=] & _)|(k' & [=] & _)]|Hx]].
        * exact (HTD _ (or_introl Hk') Hin).
        * exact (HTD _ (or_intror Hk') Hin).
        * destruct (Hplain _ (or_intror (or_intror Hx))) as (n' & t' & [= <- _] & Hne & _). congruence.
  Qed.
End BiNames.

Lemma b_lk_kw_of b v k x : b_names_ok b = true -> length v = length (b_items b) ->
  In (k, x) (combine (map fst (b_items b)) (vals v)) -> b_lk (kw_of (map fst (b_items b)) v) k = Some x.
Proof.
  intros Hok Hl Hin. set (names := map fst (b_items b)) in *. set (kw := kw_of names v).
  assert (Hnd : NoDup (map fst kw)).
  { unfold kw, kw_of. rewrite map_fst_combine; [apply b_items_NoDup, Hok | unfold names; rewrite vals_length, map_length; lia]. }
  assert (Hk : In k names) by (apply in_combine_l in Hin; exact Hin).
  assert (Hlast : kw_last k kw = Some x) by (rewrite kw_last_NoDup by exact Hnd; apply kw_get_NoDup_In; [exact Hnd | exact Hin]).
  assert (Hnone : forall k', ~ In k' names -> kw_last k' kw = None).
  { intros k' Hni. rewrite kw_last_NoDup by exact Hnd. apply kw_get_In_None. unfold kw, kw_of.
    rewrite map_fst_combine; [exact Hni | unfold names; rewrite vals_length, map_length; lia]. }
  destruct (b_name_form b Hok k Hk) as [(n & t & ->)|[(n & t & ->)|(n & t & -> & H1 & H2 & Hni)]].
  - cbn [b_lk String.eqb Ascii.eqb Bool.eqb]. unfold side_lk, eff. rewrite Hlast. reflexivity.
  - cbn [b_lk]. change (String.eqb "contra" "ipsi") with false. change (String.eqb "contra" "contra") with true. cbv iota.
    unfold side_lk, eff. rewrite Hlast. reflexivity.
  - rewrite b_lk_plain by assumption. unfold side_lk, eff. rewrite (Hnone _ Hni).
    unfold head_of. cbn [partition_key fst mem sides]. apply str_eqb_neq in H1, H2. rewrite H1, H2. cbn [orb]. rewrite Hlast. reflexivity.
Qed.

Theorem bi_set_get_keyword : C10_bi_set_get_keyword_stmt.
Proof.
  intros b v Hok Hl r Hr. subst r. set (names := map fst (b_items b)) in *. set (kw := kw_of names v) in *.
  pose proof (bi_set_spec b [] kw Hok) as Hs. cbv zeta in Hs.
  rewrite (b_not_raise_accepts b _ _ Hok Hr) in Hs. destruct Hs as (qs & Hq & Hsnd & Hnames & Hget & _).
  assert (Hgot : b_got (fst (b_set_params b [] kw)) = combine names v).
  { apply dict_determined; [exact Hnames | apply b_items_NoDup, Hok | unfold names; rewrite map_length; exact Hl |].
    intros k q Hin.
    assert (Hk : In k names) by (apply in_combine_l in Hin; exact Hin).
    assert (Hlk : b_lk kw k = Some (V q)).
    { apply b_lk_kw_of; [exact Hok | exact Hl|]. unfold vals. fold names.
      clear - Hin. revert Hin. generalize names as ks. intros ks. revert v. induction ks as [|k0 ks IH]; intros [|x v] Hin; cbn in *; try tauto.
      destruct Hin as [[= <- <-]|Hin]; [left; reflexivity | right; apply IH, Hin]. }
    apply Hget. apply (plan_In (b_lk kw) (b_set_order b) [] qs k q Hq); [apply b_order_same_names, Hk | exact Hlk]. }
  split; [rewrite Hsnd; destruct (length (b_items b)); reflexivity|].
  rewrite Hgot. split; [apply map_snd_combine | apply map_fst_combine]; unfold names; rewrite map_length; symmetry; exact Hl.
Qed.

Theorem bi_names_nodup : C10_bi_names_nodup_stmt.
Proof. intros b H. split; [apply b_got_spec, H | apply b_items_NoDup, H]. Qed.
Theorem bi_nested_flattens_to_flat : C10_bi_nested_flattens_to_flat_stmt.
Proof. intros b H. apply b_nested_flattens_to_flat, H. Qed.

(** * Unknown names (observable form) *)
Lemma dict_ext (l1 l2 : list (path * Qc)) : map fst l1 = map fst l2 -> NoDup (map fst l1) ->
  (forall k, In k (map fst l1) -> kw_get k l1 = kw_get k l2) -> l1 = l2.
Proof.
  revert l2. induction l1 as [|[k x] l1 IH]; intros [|[k2 x2] l2] Hk Hnd H; cbn [map fst] in Hk; try discriminate; [reflexivity|].
  injection Hk as <- Hk. inversion Hnd as [|? ? Hni Hnd']; subst.
  pose proof (H k (or_introl eq_refl)) as H0. cbn [kw_get] in H0. rewrite path_eqb_refl in H0. injection H0 as <-.
  f_equal. apply IH; [exact Hk | exact Hnd'|]. intros k' Hk'. pose proof (H k' (or_intror Hk')) as H1. cbn [kw_get] in H1.
  rewrite path_eqb_neq in H1; [exact H1 | intros ->; contradiction].
Qed.
Lemma side_lk_nil side k : side_lk side [] k = None.
Proof.
  destruct k as [|n t]; [reflexivity|]. unfold side_lk, eff. rewrite !kw_last_nil'.
  destruct (mem (head_of (n :: t)) sides), (mem (head_of t) sides); reflexivity.
Qed.

Lemma in_combine_exists {A B} (ks : list A) : forall (qs : list B) k, length qs = length ks -> In k ks ->
  exists q, In (k, q) (combine ks qs).
Proof.
  induction ks as [|k0 ks IH]; intros [|q qs] k Hl Hk; cbn in *; try tauto; try discriminate.
  destruct Hk as [->|Hk]; [exists q; left; reflexivity|]. destruct (IH qs k) as (q' & Hq'); [lia | exact Hk|]. exists q'. right. exact Hq'.
Qed.

Theorem bi_unknown_names_ignored : C10_bi_unknown_names_ignored_stmt.
Proof.
  intros b a kw Hok Hun Hunc r1 r2. subst r1 r2.
  pose proof (bi_set_spec b a kw Hok) as H1. pose proof (bi_set_spec b a [] Hok) as H2. cbv zeta in H1, H2.
  assert (Hnew : b_new b a kw = b_new b a []).
  { unfold b_new. apply plan_ext. intros k Hk. rewrite (Hun k Hk), b_lk_nil. reflexivity. }
  assert (Hacc : b_accepts b a kw = b_accepts b a []).
  { unfold b_accepts. rewrite Hnew. do 2 f_equal. f_equal. apply plan_ext. intros k Hk. rewrite (Hunc k Hk), side_lk_nil. reflexivity. }
  rewrite Hacc in H1. destruct (b_accepts b a []).
  - destruct H1 as (q1 & Hq1 & Hs1 & Hn1 & Hg1 & Hok1). destruct H2 as (q2 & Hq2 & Hs2 & Hn2 & Hg2 & Hok2).
    assert (q1 = q2) by (apply vals_inj; rewrite <- Hq1, <- Hq2; exact Hnew). subst q2.
    split; [rewrite Hs1, Hs2; reflexivity|]. intros _.
    apply dict_ext; [rewrite Hn1, Hn2; reflexivity | rewrite Hn1; apply b_items_NoDup, Hok|].
    intros k Hk. rewrite Hn1 in Hk. apply b_order_same_names in Hk.
    assert (Hlen : length q1 = length (b_set_order b)).
    { apply (f_equal (@length _)) in Hq1. unfold b_new in Hq1. rewrite plan_length, vals_length in Hq1. symmetry. exact Hq1. }
    assert (Hex : exists q, In (k, q) (combine (map fst (b_set_order b)) q1))
      by (apply in_combine_exists; [rewrite map_length; exact Hlen | exact Hk]).
    destruct Hex as (q & Hq). rewrite (Hg1 k q Hq), (Hg2 k q Hq). reflexivity.
  - split; [rewrite H1, H2; reflexivity|]. intros Hne. rewrite H1 in Hne. contradiction.
Qed.

(** * set_params( **get_params()) (observable form) *)
Lemma own_kwargs_kw_of (l : list (path * Qc)) : own_kwargs l = kw_of (map fst l) (map snd l).
Proof. unfold own_kwargs, kw_of, vals. induction l as [|[k x] l IH]; [reflexivity|]. cbn. rewrite IH. reflexivity. Qed.
Lemma b_order_same_items b kx : In kx (b_set_order b) <-> In kx (b_items b).
Proof.
  unfold b_set_order. destruct (b_symT b) eqn:ET, (b_symL b) eqn:EL; try tauto.
  unfold b_items. rewrite ET, EL. rewrite !pre_app, !in_app_iff. tauto.
Qed.
Lemma b_contra_dist_notin b t k : b_names_ok b = true -> TS (b_ipsi b) t -> ~ In ("contra" :: [t; k]) (map fst (b_items b)).
Proof.
  intros Hok Ht. destruct (b_names_ok_parts b Hok) as (Hi & Hc & _).
  assert (Hres : forall w, In w reserved -> t <> w) by (intros w Hw ->; exact (in_reserved_not_tstage _ _ Hi Hw Ht)).
  assert (Hplain : forall u k', (In k' (map fst (u_tumor_items u)) \/ In k' (map fst (u_lnl_items u)) \/ In k' (map fst (u_dist_items u))) ->
             u_names_ok u = true -> "contra" :: [t; k] <> k').
  { intros u k' [H|[H|H]] Hu Heq; subst k'.
    - destruct (spread_key_form u _ (or_introl H)) as (n & s & [=] & _).
    - destruct (spread_key_form u _ (or_intror H)) as (n & s & [=] & _).
    - destruct (dist_key_form u _ H) as (n & s & [=] & _). }
  assert (Hpre : forall u k', (In k' (map fst (u_tumor_items u)) \/ In k' (map fst (u_lnl_items u))) -> (forall s, EN u s <-> EN (b_ipsi b) s) ->
             [t; k] <> k').
  { intros u k' H Hen Heq. subst k'. destruct (spread_key_form u _ H) as (n & s & [= <- _] & Hn). apply Hen in Hn.
    exact (EN_TS_disj _ Hi _ Hn Ht). }
  pose proof (contra_edge_names b Hok) as Hcen.
  unfold b_items. destruct (b_symT b), (b_symL b); rewrite ?map_app, ?pre_app, ?map_app, ?in_app_iff, ?in_pre_keys; intros Hin;
    repeat match goal with H : _ \/ _ |- _ => destruct H end;
    repeat match goal with H : exists k', _ /\ _ |- _ => destruct H as (? & ? & ?) end;
    try (match goal with H : "contra" :: [t; k] = ["ipsi"] ++ _ |- _ => discriminate H end);
    try (match goal with H : "contra" :: [t; k] = ["contra"] ++ ?x, H' : In ?x _ |- _ =>
           injection H as H; first [ apply (Hpre (b_contra b) x (or_introl H') Hcen H) | apply (Hpre (b_contra b) x (or_intror H') Hcen H) ] end);
    try (match goal with H : In _ (map fst (u_tumor_items ?u)) |- _ => apply (Hplain u _ (or_introl H)); [assumption | reflexivity] end);
    try (match goal with H : In _ (map fst (u_lnl_items ?u)) |- _ => apply (Hplain u _ (or_intror (or_introl H))); [assumption | reflexivity] end);
    try (match goal with H : In _ (map fst (u_dist_items ?u)) |- _ => apply (Hplain u _ (or_intror (or_intror H))); [assumption | reflexivity] end).
Qed.

Lemma skipn_nil_b {A} n : skipn n (@nil A) = [].
Proof. destruct n; reflexivity. Qed.

Theorem bi_set_own_params_is_identity : C10_bi_set_own_params_is_identity_stmt.
Proof.
  intros b Hwf Hds Hmt r. subst r. unfold b_wf in Hwf. apply andb_true_iff in Hwf. destruct Hwf as [Hok Hv].
  unfold b_vals_ok in Hv. apply andb_true_iff in Hv. destruct Hv as [Hvi Hvc].
  unfold u_vals_ok in Hvi, Hvc. apply andb_true_iff in Hvi, Hvc. destruct Hvi as [Hvie Hvid]. destruct Hvc as [Hvce Hvcd].
  destruct (b_names_ok_parts b Hok) as (Hi & Hc & _).
  rewrite (b_got_spec b Hok). set (kw := own_kwargs (b_items b)).
  assert (Hkw : kw = kw_of (map fst (b_items b)) (map snd (b_items b))) by apply own_kwargs_kw_of.
  assert (Hlk : forall k x, In (k, x) (b_items b) -> b_lk kw k = Some (V x)).
  { intros k x Hin. rewrite Hkw. apply b_lk_kw_of; [exact Hok | rewrite map_length; reflexivity|].
    change (In (k, V x) (kw_of (map fst (b_items b)) (map snd (b_items b)))).
    rewrite <- own_kwargs_kw_of. unfold own_kwargs. apply in_map_iff. exists (k, x). split; [reflexivity | exact Hin]. }
  assert (Hnew : b_new b [] kw = vals (map snd (b_set_order b))).
  { unfold b_new. apply plan_own. intros k x Hin. apply Hlk, b_order_same_items, Hin. }
  assert (Hcd : plan (side_lk "contra" kw) (u_dist_items (b_contra b)) [] = vals (map snd (u_dist_items (b_contra b)))).
  { apply plan_own. intros k x Hin. unfold u_dist_items in Hin. rewrite Hds in Hin. fold (u_dist_items (b_ipsi b)) in Hin.
    assert (Hk : In k (map fst (u_dist_items (b_ipsi b)))) by (apply in_map_iff; exists (k, x); split; [reflexivity | exact Hin]).
    destruct (dist_key_form _ _ Hk) as (t & s & -> & Ht).
    assert (Hitem : In ([t; s], x) (b_items b)) by (rewrite b_items_split, in_app_iff; right; exact Hin).
    pose proof (Hlk _ _ Hitem) as Hb. rewrite b_lk_plain in Hb
      by (intros ->; apply (in_reserved_not_tstage _ _ Hi) in Ht; [exact Ht | cbn; tauto]).
    (* the contralateral side falls back to the global name as well *)
    unfold side_lk, eff in Hb |- *.
    assert (Hnc : kw_last ("contra" :: [t; s]) kw = None).
    { rewrite Hkw, kw_last_NoDup by (rewrite kw_of_keys; [apply b_items_NoDup, Hok | rewrite !map_length; reflexivity]).
      apply kw_get_In_None. rewrite kw_of_keys by (rewrite !map_length; reflexivity). apply b_contra_dist_notin; assumption. }
    rewrite Hnc.
    destruct (kw_last ("ipsi" :: [t; s]) kw) eqn:Eip.
    - (* "ipsi_t_s" is no reported name *)
      exfalso. rewrite Hkw, kw_last_NoDup in Eip by (rewrite kw_of_keys; [apply b_items_NoDup, Hok | rewrite !map_length; reflexivity]).
      apply kw_get_Some_In in Eip. apply in_combine_l in Eip.
      destruct (b_name_form b Hok [t; s]) as [(n & t' & Heq)|[(n & t' & Heq)|(n & t' & Heq & _ & _ & Hni)]].
      + apply in_map_iff. exists ([t; s], x). split; [reflexivity | exact Hitem].
      + injection Heq as -> _. apply (in_reserved_not_tstage _ _ Hi) in Ht; [exact Ht | cbn; tauto].
      + injection Heq as -> _. apply (in_reserved_not_tstage _ _ Hi) in Ht; [exact Ht | cbn; tauto].
      + apply Hni. exact Eip.
    - assert (Hts : kw_last [t; s] kw = Some (V x)).
      { rewrite Hkw, kw_last_NoDup by (rewrite kw_of_keys; [apply b_items_NoDup, Hok | rewrite !map_length; reflexivity]).
        apply kw_get_NoDup_In; [rewrite kw_of_keys; [apply b_items_NoDup, Hok | rewrite !map_length; reflexivity]|].
        rewrite <- own_kwargs_kw_of. unfold own_kwargs. apply in_map_iff. exists ([t; s], x). split; [reflexivity | exact Hitem]. }
      assert (Hmem : mem (head_of [t; s]) sides = false).
      { apply mem_false. cbn. intros [H|[H|[]]]; subst t; apply (in_reserved_not_tstage _ _ Hi) in Ht; try exact Ht; cbn; tauto. }
      rewrite Hmem, Hts. reflexivity. }
  pose proof (bi_set_spec b [] kw Hok) as Hs. cbv zeta in Hs.
  assert (HnS : b_num_spread b = length (b_set_order b) - length (u_dist_items (b_ipsi b)))
    by (unfold b_num_spread; rewrite (b_items_length b Hok); reflexivity).
  assert (Hsplit : b_set_order b = (side_order is_tumor_spread (b_symT b) b ++ side_order sel_lnl (b_symL b) b) ++ u_dist_items (b_ipsi b))
    by (rewrite b_set_order_split, app_assoc; reflexivity).
  assert (HnS' : b_num_spread b = length (side_order is_tumor_spread (b_symT b) b ++ side_order sel_lnl (b_symL b) b))
    by (rewrite HnS, Hsplit, app_length; lia).
  assert (Hacc : b_accepts b [] kw = true).
  { unfold b_accepts. rewrite Hnew, skipn_nil_b, Hcd. rewrite Hsplit, map_app, vals_app.
    rewrite firstn_app_len, skipn_app_len by (rewrite vals_length, map_length; symmetry; exact HnS').
    rewrite all_unit_vals.
    - cbn [is_some andb]. unfold u_dist_items. rewrite (dists_put_own _ _ Hvid). rewrite Hmt, Hds, (dists_put_own _ _ Hvid). reflexivity.
    - unfold side_order, u_sel_items. rewrite map_app, forallb_app.
      destruct (b_symT b), (b_symL b); rewrite ?map_app, ?forallb_app, ?pre_vals, ?(sel_params_vals_unit _ _ _ Hvie), ?(sel_params_vals_unit _ _ _ Hvce); reflexivity. }
  rewrite Hacc in Hs. destruct Hs as (qs & Hq & Hsnd & Hnames & Hget & _).
  rewrite Hnew in Hq. apply vals_inj in Hq. subst qs. split; [rewrite Hsnd; destruct (length (b_items b)); reflexivity|].
  apply dict_ext; [exact Hnames | rewrite Hnames; apply b_items_NoDup, Hok|].
  intros k Hk. rewrite Hnames in Hk. apply in_map_iff in Hk. destruct Hk as ([k' x] & <- & Hin). cbn [fst].
  rewrite (Hget k' x).
  - symmetry. apply kw_get_NoDup_In; [apply b_items_NoDup, Hok | exact Hin].
  - rewrite combine_fst_snd. apply b_order_same_items, Hin.
Qed.
