(** NumpyModalities: [lymph/modalities.py] read statement by statement as the Python code manipulates the OBJECTS -- a
    [Modality] with its private attributes (which may not exist yet), the cached [_confusion_matrix], the property setters
    with their range checks and cache invalidation, [__hash__] and [__eq__]; and the LEAF branch of [modalities.Composite]
    over the insertion-ordered dict [self._modalities] of such objects -- and the STATIC proofs that this reading behaves
    like the hand-written models:
    - [Sync.mk_modality], [Sync.leaf_cfg] (cache-free: [u_mods]),
    - [Machine.istep uni_sig] on [i_mods] (modalities WITH their cache: [cm_read], [aset], [adel], [replace_assoc],
      [uni_apply_mupd]),
    - [Observation.confusion_matrix], and the keys of Hash.v ([mod_key], [mod_eq], [mod_eq2], [coll_key], [leaf_op]).
    The source translator harness/translate14.py regenerates every [np_<function>] below from the Python source on every
    run ([gen_<function>]) and checks the generated term against the one written here by conversion ([reflexivity]).

    Reading of the objects (see also the docstring of translate14.py):
    - [mobj]: [mo_path] = the class ([true] Pathological, [false] Clinical); [mo_spec], [mo_sens : option Qc] =
      [self._spec], [self._sens] ([None] = the attribute does not exist yet); [mo_tri : option bool] = [self.is_trinary];
      [mo_cm : option mat] = [self._confusion_matrix] ([None] = it does not exist: never computed or deleted by a setter);
    - a method is a function [mobj -> ... -> mobj * dres R]: the object as Python leaves it and the exception ([DValue]
      ValueError, [DKey] KeyError, [DAttr] AttributeError) or the returned value;
    - [self.compute_confusion_matrix()] is [call_compute_cm] = [Observation.confusion_matrix] (piece [confusion] of
      harness/translate.py ties that to the three Python methods);
    - user values are [Params.val]; the chained comparison [lo <= x <= hi] is [check_range] / [py_between];
    - numpy on exact rationals: [np.allclose] keeps numpy's tolerance |a - b| <= atol + rtol * |b| (1e-8, 1e-5);
    - Python's [hash] is a parameter; [tobytes] is the row-major list of entries;
    - a leaf composite IS its dict name -> object ([list (string * mobj)], insertion ordered);
    - a composite with children IS its dict name -> child; its setters are the forwarding loop [np_branch_forward] over
      an abstract method of the children ([forward]: left to right, an exception stops the loop), tied to
      [Sync.b_cfg] / [h_cfg] / [m_cfg]; its [modalities_hash] is the fold of [hash_of_key] over a [KBranch].

    The representation is a function from the models to the objects: [obj_of tri m c] is the object of the modality [m] in
    a model of arity [tri] whose cache is [c]; [objs_of tri ims] is the dict of a leaf whose modalities-with-caches are
    [ims] (the shape of [Machine.i_mods uni_sig]); [strip ims] forgets the caches ([Unilateral.u_mods]). *)
From LymphModel Require Import Base States Linalg Graph Transition Observation Dist Unilateral Models DistModel Params NumpyParams NumpyDist Sync Machine Hash.
Local Open Scope nat_scope.
Local Open Scope string_scope.
Local Open Scope list_scope.

(** * numpy *)
Definition np_sum_axis1 (a : mat) : vec := map sumQ a.
Definition np_atol : Qc := Q2Qc (1 # 100000000).
Definition np_rtol : Qc := Q2Qc (1 # 100000).
Definition qc_abs (x : Qc) : Qc := if Qc_leb 0%Qc x then x else (- x)%Qc.
(** np.isclose(a, b): |a - b| <= atol + rtol * |b| *)
Definition np_isclose (a b : Qc) : bool := Qc_leb (qc_abs (a - b)%Qc) (np_atol + np_rtol * qc_abs b)%Qc.
Definition np_allclose (v : vec) (c : Qc) : bool := forallb (fun a => np_isclose a c) v.
Definition np_greater_equal (a : mat) (c : Qc) : list (list bool) := map (map (fun x => Qc_leb c x)) a.
Definition np_less_equal (a : mat) (c : Qc) : list (list bool) := map (map (fun x => Qc_leb x c)) a.
Definition np_all (b : list (list bool)) : bool := forallb (forallb (fun x => x)) b.
Definition np_shape0 {A} (a : list A) : nat := length a.
(** a.tobytes(): the entries in row-major order (the shape is not part of the bytes) *)
Definition np_tobytes (a : mat) : list Qc := concat a.
(** np.array_equal: same shape and equal entries *)
Definition np_array_equal (a b : mat) : bool := Linalg.mat_eqb a b.

(** * user values *)
(** [lo <= x <= hi] on a user value inside a larger test *)
Definition py_between (lo hi : Qc) (v : val) : bool := match check_range lo hi v with Some _ => true | None => false end.

(** * The object *)
Record mobj := mk_mobj {
  mo_path : bool;
  mo_spec : option Qc;
  mo_sens : option Qc;
  mo_tri : option bool;
  mo_cm : option mat }.
(** a new object of the class: no attribute exists *)
Definition mo_new (cls : bool) : mobj := mk_mobj cls None None None None.
Definition base_of (tri : bool) : nat := if tri then 3 else 2.

Definition rd_spec (o : mobj) : mobj * dres Qc := match mo_spec o with None => (o, inl DAttr) | Some v => (o, inr v) end.
Definition rd_sens (o : mobj) : mobj * dres Qc := match mo_sens o with None => (o, inl DAttr) | Some v => (o, inr v) end.
Definition rd_tri (o : mobj) : mobj * dres bool := match mo_tri o with None => (o, inl DAttr) | Some v => (o, inr v) end.
Definition rd_cm (o : mobj) : mobj * dres mat := match mo_cm o with None => (o, inl DAttr) | Some v => (o, inr v) end.
Definition set_spec (o : mobj) (v : Qc) : mobj := mk_mobj (mo_path o) (Some v) (mo_sens o) (mo_tri o) (mo_cm o).
Definition set_sens (o : mobj) (v : Qc) : mobj := mk_mobj (mo_path o) (mo_spec o) (Some v) (mo_tri o) (mo_cm o).
Definition set_tri (o : mobj) (v : bool) : mobj := mk_mobj (mo_path o) (mo_spec o) (mo_sens o) (Some v) (mo_cm o).
Definition set_cm (o : mobj) (v : mat) : mobj := mk_mobj (mo_path o) (mo_spec o) (mo_sens o) (mo_tri o) (Some v).
(** del self._confusion_matrix *)
Definition del_cm (o : mobj) : mobj * dres unit :=
  match mo_cm o with
  | None => (o, inl DAttr)
  | Some _ => (mk_mobj (mo_path o) (mo_spec o) (mo_sens o) (mo_tri o) None, inr tt)
  end.
(** self.compute_confusion_matrix(): the method of the object's class on the object's spec / sens / is_trinary *)
Definition call_compute_cm (o : mobj) : mobj * dres mat :=
  match mo_spec o, mo_sens o, mo_tri o with
  | Some sp, Some sn, Some tri =>
      (o, inr (confusion_matrix (base_of tri) {| m_spec := sp; m_sens := sn; m_path := mo_path o |}))
  | _, _, _ => (o, inl DAttr)
  end.
(** cls(...): [__init__] on a new object; the object is lost when [__init__] raises *)
Definition py_construct {A} (r : mobj * dres A) : dres mobj :=
  match r with (o, inl e) => inl e | (o, inr _) => inr o end.

(** * dicts *)
Definition py_getitem {V} (d : list (string * V)) (k : string) : dres V :=
  match dict_get k d with None => inl DKey | Some v => inr v end.
Definition py_delitem {V} (d : list (string * V)) (k : string) : dres (list (string * V)) :=
  match dict_get k d with None => inl DKey | Some _ => inr (Hash.dict_del k d) end.
(** for k, x in items.items(): BODY, where BODY calls methods of a second object [s] and of [x]: both are threaded, an
    exception stops the loop and leaves the remaining items untouched *)
Fixpoint py_for_kv {S X} (body : string -> X -> S -> (S * X) * dres unit) (items : list (string * X)) (s : S)
  : (S * list (string * X)) * dres unit :=
  match items with
  | [] => ((s, []), inr tt)
  | (k, x) :: r =>
      match body k x s with
      | ((s, x), inl e) => ((s, (k, x) :: r), inl e)
      | ((s, x), inr _) => let '((s, r), res) := py_for_kv body r s in ((s, (k, x) :: r), res)
      end
  end.

(** * Modality, statement by statement *)
(** spec / sens (property):  return self._spec *)
Definition np_spec_get (self : mobj) : mobj * dres Qc :=
  match rd_spec self with
  | (self, inl e) => (self, inl e)
  | (self, inr x1) => (self, inr x1)
  end.
Definition np_sens_get (self : mobj) : mobj * dres Qc :=
  match rd_sens self with
  | (self, inl e) => (self, inl e)
  | (self, inr x1) => (self, inr x1)
  end.

(** spec setter:  if not 0.0 <= value <= 1.0: raise ValueError
                  if hasattr(self, "_confusion_matrix"): del self._confusion_matrix
                  self._spec = value *)
Definition np_spec_set (self : mobj) (value : val) : mobj * dres unit :=
  match check_range 0%Qc 1%Qc value with
  | None => (self, inl DValue)
  | Some value =>
      match (if py_hasattr (mo_cm self) then
               match del_cm self with
               | (self, inl e) => (self, inl e)
               | (self, inr _) => (self, inr tt)
               end
             else (self, inr tt)) with
      | (self, inl e) => (self, inl e)
      | (self, inr _) =>
          let self := set_spec self value in
          (self, inr tt)
      end
  end.
Definition np_sens_set (self : mobj) (value : val) : mobj * dres unit :=
  match check_range 0%Qc 1%Qc value with
  | None => (self, inl DValue)
  | Some value =>
      match (if py_hasattr (mo_cm self) then
               match del_cm self with
               | (self, inl e) => (self, inl e)
               | (self, inr _) => (self, inr tt)
               end
             else (self, inr tt)) with
      | (self, inl e) => (self, inl e)
      | (self, inr _) =>
          let self := set_sens self value in
          (self, inr tt)
      end
  end.

(** __init__(self, spec, sens, is_trinary):
      if not (0.0 <= sens <= 1.0 and 0.0 <= spec <= 1.0): raise ValueError
      self.spec = spec ; self.sens = sens ; self.is_trinary = is_trinary *)
Definition np_init (self : mobj) (spec sens : val) (is_trinary : bool) : mobj * dres unit :=
  if negb (py_between 0%Qc 1%Qc sens && py_between 0%Qc 1%Qc spec) then (self, inl DValue)
  else
    match np_spec_set self spec with
    | (self, inl e) => (self, inl e)
    | (self, inr _) =>
        match np_sens_set self sens with
        | (self, inl e) => (self, inl e)
        | (self, inr _) =>
            let self := set_tri self is_trinary in
            (self, inr tt)
        end
    end.

(** check_confusion_matrix(self, value): five tests, each raising ValueError *)
Definition np_check_confusion_matrix (self : mobj) (value : mat) : mobj * dres unit :=
  let row_sums := np_sum_axis1 value in
  if negb (np_allclose row_sums 1%Qc) then (self, inl DValue)
  else if negb (np_all (np_greater_equal value 0%Qc)) then (self, inl DValue)
  else if negb (np_all (np_less_equal value 1%Qc)) then (self, inl DValue)
  else
    match (match rd_tri self with
           | (self, inl e) => (self, inl e)
           | (self, inr x2) => if x2 then (self, inr (negb (Nat.eqb (np_shape0 value) 3))) else (self, inr false)
           end) with
    | (self, inl e) => (self, inl e)
    | (self, inr x1) =>
        if x1 then (self, inl DValue)
        else
          match (match rd_tri self with
                 | (self, inl e) => (self, inl e)
                 | (self, inr x4) => if negb x4 then (self, inr (negb (Nat.eqb (np_shape0 value) 2))) else (self, inr false)
                 end) with
          | (self, inl e) => (self, inl e)
          | (self, inr x3) => if x3 then (self, inl DValue) else (self, inr tt)
          end
    end.

(** confusion_matrix setter:  self.check_confusion_matrix(value) ; self._confusion_matrix = value *)
Definition np_confusion_matrix_set (self : mobj) (value : mat) : mobj * dres unit :=
  match np_check_confusion_matrix self value with
  | (self, inl e) => (self, inl e)
  | (self, inr _) =>
      let self := set_cm self value in
      (self, inr tt)
  end.

(** confusion_matrix (property):
      if not hasattr(self, "_confusion_matrix"): self.confusion_matrix = self.compute_confusion_matrix()
      if self.is_trinary and not self._confusion_matrix.shape[0] == 3: self.confusion_matrix = self.compute_confusion_matrix()
      return self._confusion_matrix *)
Definition np_confusion_matrix (self : mobj) : mobj * dres mat :=
  match (if negb (py_hasattr (mo_cm self)) then
           match call_compute_cm self with
           | (self, inl e) => (self, inl e)
           | (self, inr x1) =>
               match np_confusion_matrix_set self x1 with
               | (self, inl e) => (self, inl e)
               | (self, inr _) => (self, inr tt)
               end
           end
         else (self, inr tt)) with
  | (self, inl e) => (self, inl e)
  | (self, inr _) =>
      match (match rd_tri self with
             | (self, inl e) => (self, inl e)
             | (self, inr x4) =>
                 if x4 then
                   match rd_cm self with
                   | (self, inl e) => (self, inl e)
                   | (self, inr x2) => (self, inr (negb (Nat.eqb (np_shape0 x2) 3)))
                   end
                 else (self, inr false)
             end) with
      | (self, inl e) => (self, inl e)
      | (self, inr x3) =>
          match (if x3 then
                   match call_compute_cm self with
                   | (self, inl e) => (self, inl e)
                   | (self, inr x5) =>
                       match np_confusion_matrix_set self x5 with
                       | (self, inl e) => (self, inl e)
                       | (self, inr _) => (self, inr tt)
                       end
                   end
                 else (self, inr tt)) with
          | (self, inl e) => (self, inl e)
          | (self, inr _) =>
              match rd_cm self with
              | (self, inl e) => (self, inl e)
              | (self, inr x6) => (self, inr x6)
              end
          end
      end
  end.

(** __hash__:  return hash(self.confusion_matrix.tobytes()) *)
Definition np_hash {H : Type} (hash_bytes : list Qc -> H) (self : mobj) : mobj * dres H :=
  match np_confusion_matrix self with
  | (self, inl e) => (self, inl e)
  | (self, inr x1) => (self, inr (hash_bytes (np_tobytes x1)))
  end.

(** __eq__(self, other):  if not isinstance(other, Modality): return False
                          return np.array_equal(self.confusion_matrix, other.confusion_matrix) *)
Definition np_eq (self : mobj) (other : option mobj) : (mobj * option mobj) * dres bool :=
  match other with
  | None => ((self, None), inr false)
  | Some other =>
      match np_confusion_matrix self with
      | (self, inl e) => ((self, Some other), inl e)
      | (self, inr x1) =>
          match np_confusion_matrix other with
          | (other, inl e) => ((self, Some other), inl e)
          | (other, inr x2) => ((self, Some other), inr (np_array_equal x1 x2))
          end
      end
  end.

(** * Composite, leaf branch *)
(** _is_modality_leaf (property):  if len(self._modality_children) > 0: return False
                                   if not hasattr(self, "_modalities"): raise AttributeError ; return True *)
Definition np_is_modality_leaf {C M : Type} (children : list C) (modalities : option M) : dres bool :=
  if Nat.ltb 0 (length children) then inr false
  else if negb (py_hasattr modalities) then inl DAttr
  else inr true.

(** get_all_modalities:  return self._modalities *)
Definition np_leaf_get_all_modalities (self : list (string * mobj)) : list (string * mobj) * dres (list (string * mobj)) :=
  (self, inr self).
(** get_modality(name):  return self.get_all_modalities()[name] *)
Definition np_leaf_get_modality (self : list (string * mobj)) (name : string) : list (string * mobj) * dres mobj :=
  match np_leaf_get_all_modalities self with
  | (self, inl e) => (self, inl e)
  | (self, inr x1) =>
      match py_getitem x1 name with
      | inl e => (self, inl e)
      | inr x2 => (self, inr x2)
      end
  end.
(** set_modality(name, spec, sens, kind):  cls = Pathological if kind == "pathological" else Clinical
                                            self._modalities[name] = cls(spec, sens, self.is_trinary) *)
Definition np_leaf_set_modality (tri : bool) (self : list (string * mobj)) (name : string) (spec sens : val) (kind : string)
  : list (string * mobj) * dres unit :=
  let cls := if str_eqb kind "pathological" then true else false in
  match py_construct (np_init (mo_new cls) spec sens tri) with
  | inl e => (self, inl e)
  | inr x1 =>
      let self := dict_set name x1 self in
      (self, inr tt)
  end.
(** del_modality(name):  del self._modalities[name] *)
Definition np_leaf_del_modality (self : list (string * mobj)) (name : string) : list (string * mobj) * dres unit :=
  match py_delitem self name with
  | inl e => (self, inl e)
  | inr x1 =>
      let self := x1 in
      (self, inr tt)
  end.
(** clear_modalities:  self._modalities.clear() *)
Definition np_leaf_clear_modalities (self : list (string * mobj)) : list (string * mobj) * dres unit :=
  let self := ([] : list (string * mobj)) in
  (self, inr tt).
(** the body of the loop of replace_all_modalities:
      kind = "pathological" if isinstance(modality, Pathological) else "clinical"
      self.set_modality(name, modality.spec, modality.sens, kind) *)
Definition np_leaf_replace_body (tri : bool) : string -> mobj -> list (string * mobj) -> (list (string * mobj) * mobj) * dres unit :=
  fun name modality_o self =>
    let kind := if mo_path modality_o then "pathological" else "clinical" in
    match np_spec_get modality_o with
    | (modality_o, inl e) => ((self, modality_o), inl e)
    | (modality_o, inr x1) =>
        match np_sens_get modality_o with
        | (modality_o, inl e) => ((self, modality_o), inl e)
        | (modality_o, inr x2) =>
            match np_leaf_set_modality tri self name (V x1) (V x2) kind with
            | (self, inl e) => ((self, modality_o), inl e)
            | (self, inr _) => ((self, modality_o), inr tt)
            end
        end
    end.
(** replace_all_modalities(modalities):  self.clear_modalities() ; for name, modality in modalities.items(): BODY *)
Definition np_leaf_replace_all_modalities (tri : bool) (self : list (string * mobj)) (modalities : list (string * mobj))
  : (list (string * mobj) * list (string * mobj)) * dres unit :=
  match np_leaf_clear_modalities self with
  | (self, inl e) => ((self, modalities), inl e)
  | (self, inr _) =>
      match py_for_kv (np_leaf_replace_body tri) modalities self with
      | ((self, modalities), inl e) => ((self, modalities), inl e)
      | ((self, modalities), inr _) => ((self, modalities), inr tt)
      end
  end.
(** modalities_hash:  hash_res = 0
                      for name, modality in self._modalities.items(): hash_res = hash((hash_res, name, hash(modality)))
                      return hash_res *)
Definition np_leaf_hash_body {H : Type} (hash_bytes : list Qc -> H) (hash_tuple : H * string * H -> H)
  : string -> mobj -> H -> mobj * dres H :=
  fun name modality_o hash_res =>
    match np_hash hash_bytes modality_o with
    | (modality_o, inl e) => (modality_o, inl e)
    | (modality_o, inr x1) =>
        let hash_res := hash_tuple (hash_res, name, x1) in
        (modality_o, inr hash_res)
    end.
Definition np_leaf_modalities_hash {H : Type} (hash0 : H) (hash_bytes : list Qc -> H) (hash_tuple : H * string * H -> H)
  (self : list (string * mobj)) : list (string * mobj) * dres H :=
  let hash_res := hash0 in
  match py_for_items_d (np_leaf_hash_body hash_bytes hash_tuple) self hash_res with
  | (self, inl e) => (self, inl e)
  | (self, inr hash_res) => (self, inr hash_res)
  end.

(** * The representation: model -> object *)
Definition obj_of (tri : bool) (m : modality) (c : option mat) : mobj :=
  mk_mobj (m_path m) (Some (m_spec m)) (Some (m_sens m)) (Some tri) c.
(** the dict of a leaf: name -> (modality, cache), the shape of [Machine.i_mods uni_sig] *)
Definition objs_of (tri : bool) (ims : list (string * (modality * option mat))) : list (string * mobj) :=
  map (fun e => (fst e, obj_of tri (fst (snd e)) (snd (snd e)))) ims.
(** a modality that the constructor / the setters accept *)
Definition mod_ok (m : modality) : bool := in_unit (m_spec m) && in_unit (m_sens m).
(** what check_confusion_matrix accepts in a model of arity [tri] *)
Definition cm_valid (tri : bool) (v : mat) : bool :=
  np_allclose (np_sum_axis1 v) 1%Qc && np_all (np_greater_equal v 0%Qc) && np_all (np_less_equal v 1%Qc)
  && Nat.eqb (length v) (base_of tri).
(** the cache of an object: the matrix of the object's own settings, or the binary one left behind when [is_trinary] was
    switched on after the matrix had been computed (the case the second [if] of the property repairs) *)
Definition cm_cache_ok (tri : bool) (m : modality) (c : option mat) : Prop :=
  forall x, c = Some x -> x = confusion_matrix (base_of tri) m \/ x = confusion_matrix 2 m.

Lemma if_bool_id (b : bool) : (if b then true else false) = b.
Proof. destruct b; reflexivity. Qed.

(** ** spec / sens *)
Lemma np_spec_set_gen o v :
  np_spec_set o v = match check_unit v with
                    | None => (o, inl DValue)
                    | Some q => (mk_mobj (mo_path o) (Some q) (mo_sens o) (mo_tri o) None, inr tt)
                    end.
Proof.
  unfold np_spec_set. rewrite check_range_unit. destruct (check_unit v) as [q|]; [|reflexivity].
  destruct o as [p sp sn tr [c|]]; reflexivity.
Qed.
Lemma np_sens_set_gen o v :
  np_sens_set o v = match check_unit v with
                    | None => (o, inl DValue)
                    | Some q => (mk_mobj (mo_path o) (mo_spec o) (Some q) (mo_tri o) None, inr tt)
                    end.
Proof.
  unfold np_sens_set. rewrite check_range_unit. destruct (check_unit v) as [q|]; [|reflexivity].
  destruct o as [p sp sn tr [c|]]; reflexivity.
Qed.

Lemma np_spec_sens_eq tri m c q :
  np_spec_get (obj_of tri m c) = (obj_of tri m c, inr (m_spec m)) /\
  np_sens_get (obj_of tri m c) = (obj_of tri m c, inr (m_sens m)) /\
  np_spec_set (obj_of tri m c) (V q)
  = match uni_apply_mupd (true, q) m with None => (obj_of tri m c, inl DValue) | Some m' => (obj_of tri m' None, inr tt) end /\
  np_sens_set (obj_of tri m c) (V q)
  = match uni_apply_mupd (false, q) m with None => (obj_of tri m c, inl DValue) | Some m' => (obj_of tri m' None, inr tt) end /\
  np_spec_set (obj_of tri m c) Bad = (obj_of tri m c, inl DValue) /\ np_sens_set (obj_of tri m c) Bad = (obj_of tri m c, inl DValue).
Proof.
  repeat split; try reflexivity.
  - rewrite np_spec_set_gen. unfold uni_apply_mupd, check_unit, in_unit. destruct (Qc_leb 0 q && Qc_leb q 1); reflexivity.
  - rewrite np_sens_set_gen. unfold uni_apply_mupd, check_unit, in_unit. destruct (Qc_leb 0 q && Qc_leb q 1); reflexivity.
Qed.

(** ** __init__ *)
Lemma py_between_unit v : py_between 0%Qc 1%Qc v = match check_unit v with Some _ => true | None => false end.
Proof. reflexivity. Qed.

Lemma np_init_eq p spec sens tri :
  np_init (mo_new p) spec sens tri
  = match mk_modality spec sens p with
    | None => (mo_new p, inl DValue)
    | Some m => (obj_of tri m None, inr tt)
    end.
Proof.
  unfold np_init, mk_modality. rewrite !py_between_unit, np_spec_set_gen.
  destruct (check_unit spec) as [sp|], (check_unit sens) as [sn|] eqn:Es; cbn [andb negb]; try reflexivity.
  rewrite np_sens_set_gen, Es. reflexivity.
Qed.

(** ** check_confusion_matrix *)
Lemma np_check_confusion_matrix_eq tri m c v :
  np_check_confusion_matrix (obj_of tri m c) v = (obj_of tri m c, if cm_valid tri v then inr tt else inl DValue).
Proof.
  unfold np_check_confusion_matrix, cm_valid, np_shape0. cbv zeta.
  destruct (np_allclose (np_sum_axis1 v) 1%Qc); cbn [negb andb]; [|reflexivity].
  destruct (np_all (np_greater_equal v 0%Qc)); cbn [negb andb]; [|reflexivity].
  destruct (np_all (np_less_equal v 1%Qc)); cbn [negb andb]; [|reflexivity].
  unfold rd_tri. cbn [obj_of mo_tri]. destruct tri; cbn [base_of negb];
    match goal with |- context [Nat.eqb (length v) ?k] => destruct (Nat.eqb (length v) k) end; reflexivity.
Qed.

Lemma Qc_leb_compl_nonneg x : Qc_leb x 1%Qc = true -> Qc_leb 0%Qc (1 - x)%Qc = true.
Proof. rewrite !Qc_leb_spec. intros H. qc2q. generalize dependent (this x). intros; lra. Qed.
Lemma Qc_leb_compl_le1 x : Qc_leb 0%Qc x = true -> Qc_leb (1 - x)%Qc 1%Qc = true.
Proof. rewrite !Qc_leb_spec. intros H. qc2q. generalize dependent (this x). intros; lra. Qed.

Lemma np_isclose_refl_1 : np_isclose 1%Qc 1%Qc = true.
Proof. vm_compute. reflexivity. Qed.
Lemma row_sum_1 (x : Qc) : sumQ [x; (1 - x)%Qc] = 1%Qc.
Proof. cbn [sumQ]. ring. Qed.
Lemma row_sum_1' (x : Qc) : sumQ [(1 - x)%Qc; x] = 1%Qc.
Proof. cbn [sumQ]. ring. Qed.

Lemma confusion_length_tri tri m : length (confusion_matrix (base_of tri) m) = base_of tri.
Proof. unfold confusion_matrix. destruct tri, (m_path m); reflexivity. Qed.

Lemma cm_valid_confusion tri m : mod_ok m = true -> cm_valid tri (confusion_matrix (base_of tri) m) = true.
Proof.
  unfold mod_ok, in_unit. intros H. apply andb_prop in H. destruct H as [Hsp Hsn].
  apply andb_prop in Hsp. destruct Hsp as [Hsp0 Hsp1]. apply andb_prop in Hsn. destruct Hsn as [Hsn0 Hsn1].
  unfold cm_valid. rewrite confusion_length_tri, Nat.eqb_refl, andb_true_r.
  pose proof (Qc_leb_compl_nonneg _ Hsp1) as Hcp0. pose proof (Qc_leb_compl_le1 _ Hsp0) as Hcp1.
  pose proof (Qc_leb_compl_nonneg _ Hsn1) as Hcn0. pose proof (Qc_leb_compl_le1 _ Hsn0) as Hcn1.
  unfold confusion_matrix. cbv zeta.
  destruct tri, (m_path m); cbn [base_of Nat.eqb];
    unfold np_allclose, np_sum_axis1, np_all, np_greater_equal, np_less_equal; cbn [map forallb];
    rewrite ?row_sum_1, ?row_sum_1', ?np_isclose_refl_1, ?Hsp0, ?Hsp1, ?Hsn0, ?Hsn1, ?Hcp0, ?Hcp1, ?Hcn0, ?Hcn1; reflexivity.
Qed.

Lemma cm_valid_wrong_arity tri m : cm_valid tri (confusion_matrix (base_of (negb tri)) m) = false.
Proof.
  unfold cm_valid. rewrite confusion_length_tri. destruct tri; cbn [negb base_of Nat.eqb]; apply andb_false_r.
Qed.

(** ** the confusion_matrix property and its setter *)
Lemma np_confusion_matrix_set_eq tri m c v :
  np_confusion_matrix_set (obj_of tri m c) v
  = if cm_valid tri v then (obj_of tri m (Some v), inr tt) else (obj_of tri m c, inl DValue).
Proof. unfold np_confusion_matrix_set. rewrite np_check_confusion_matrix_eq. destruct (cm_valid tri v); reflexivity. Qed.

Lemma call_compute_cm_obj tri m c : call_compute_cm (obj_of tri m c) = (obj_of tri m c, inr (confusion_matrix (base_of tri) m)).
Proof. destruct m; reflexivity. Qed.

Lemma np_confusion_matrix_eq tri m c : mod_ok m = true -> cm_cache_ok tri m c ->
  np_confusion_matrix (obj_of tri m c)
  = (obj_of tri m (Some (confusion_matrix (base_of tri) m)), inr (confusion_matrix (base_of tri) m)).
Proof.
  intros Hok Hc. pose proof (cm_valid_confusion tri m Hok) as Hv. pose proof (confusion_length_tri tri m) as Hl.
  set (K := confusion_matrix (base_of tri) m) in *.
  unfold np_confusion_matrix. destruct c as [x|].
  - cbn [obj_of mo_cm py_hasattr negb]. unfold rd_tri, rd_cm. cbn [obj_of mo_tri mo_cm].
    destruct (Hc x eq_refl) as [->| ->].
    + fold K. fold (obj_of tri m (Some K)). destruct tri.
      * unfold np_shape0. rewrite Hl. cbn [base_of Nat.eqb negb]. reflexivity.
      * reflexivity.
    + destruct tri; [|reflexivity].
      replace (np_shape0 (confusion_matrix 2 m)) with 2 by (symmetry; apply (confusion_length_tri false m)).
      cbn [Nat.eqb negb]. fold (obj_of true m (Some (confusion_matrix 2 m))).
      rewrite call_compute_cm_obj. fold K. rewrite np_confusion_matrix_set_eq, Hv. reflexivity.
  - cbn [obj_of mo_cm py_hasattr negb]. fold (obj_of tri m None). rewrite call_compute_cm_obj. fold K.
    rewrite np_confusion_matrix_set_eq, Hv. unfold rd_tri, rd_cm. cbn [obj_of mo_tri mo_cm].
    destruct tri.
    + unfold np_shape0. rewrite Hl. cbn [base_of Nat.eqb negb]. reflexivity.
    + reflexivity.
Qed.

(** the object of Machine.v: a modality with its cache, coherent in the sense of [cm_coherent] *)
Lemma np_confusion_matrix_machine tri (s : graph * nat) (n : string) m c : g_base (fst s) = base_of tri -> mod_ok m = true ->
  (forall x, c = Some x -> x = sg_cm uni_sig s m) ->
  np_confusion_matrix (obj_of tri m c)
  = (obj_of tri m (Some (cm_read uni_sig s (n, (m, c)))), inr (cm_read uni_sig s (n, (m, c)))).
Proof.
  intros Hb Hok Hc. cbn [sg_cm uni_sig] in Hc. rewrite Hb in Hc.
  assert (E : cm_read uni_sig s (n, (m, c)) = confusion_matrix (base_of tri) m).
  { unfold cm_read. cbn [snd fst sg_cm uni_sig]. destruct c as [x|]; [apply Hc; reflexivity | rewrite Hb; reflexivity]. }
  rewrite E. apply np_confusion_matrix_eq; [exact Hok|]. intros x Hx. left. apply Hc. exact Hx.
Qed.

(** ** __hash__ and __eq__ *)
Lemma np_hash_eq {H} (hb : list Qc -> H) tri m c : mod_ok m = true -> cm_cache_ok tri m c ->
  np_hash hb (obj_of tri m c)
  = (obj_of tri m (Some (confusion_matrix (base_of tri) m)), inr (hb (np_tobytes (mod_key (base_of tri) m)))).
Proof. intros Hok Hc. unfold np_hash. rewrite np_confusion_matrix_eq by assumption. reflexivity. Qed.

(** the bytes of a confusion matrix determine it (two columns; 4 entries = binary, 6 entries = trinary) *)
Lemma mod_key_bytes_inj b1 b2 m1 m2 :
  np_tobytes (mod_key b1 m1) = np_tobytes (mod_key b2 m2) <-> mod_key b1 m1 = mod_key b2 m2.
Proof.
  split; [|intros H; rewrite H; reflexivity].
  unfold np_tobytes, mod_key, confusion_matrix. cbv zeta.
  destruct (Nat.eqb b1 3), (Nat.eqb b2 3), (m_path m1), (m_path m2); cbn [concat app]; intros H;
    try discriminate H; injection H; intros; congruence.
Qed.

Lemma np_eq_eq t1 t2 m1 m2 c1 c2 : mod_ok m1 = true -> mod_ok m2 = true -> cm_cache_ok t1 m1 c1 -> cm_cache_ok t2 m2 c2 ->
  np_eq (obj_of t1 m1 c1) (Some (obj_of t2 m2 c2))
  = ((obj_of t1 m1 (Some (confusion_matrix (base_of t1) m1)), Some (obj_of t2 m2 (Some (confusion_matrix (base_of t2) m2)))),
     inr (mod_eq2 (base_of t1) (base_of t2) m1 m2))
  /\ (t1 = t2 -> mod_eq2 (base_of t1) (base_of t2) m1 m2 = mod_eq (base_of t1) m1 m2)
  /\ np_eq (obj_of t1 m1 c1) None = ((obj_of t1 m1 c1, None), inr false).
Proof.
  intros H1 H2 Hc1 Hc2. split; [|split; [intros ->; reflexivity | reflexivity]].
  unfold np_eq. rewrite (np_confusion_matrix_eq t1 m1 c1 H1 Hc1), (np_confusion_matrix_eq t2 m2 c2 H2 Hc2). reflexivity.
Qed.

(** * Composite, leaf branch *)
Lemma np_is_modality_leaf_eq {C M} (cs : list C) (ms : option M) :
  np_is_modality_leaf cs ms = inr true <-> cs = [] /\ ms <> None.
Proof.
  unfold np_is_modality_leaf. destruct cs as [|c cs]; cbn [length Nat.ltb Nat.leb].
  - destruct ms; cbn [py_hasattr negb]; split; intros H; try discriminate H.
    + split; [reflexivity | discriminate].
    + reflexivity.
    + destruct H as [_ H]. contradiction H. reflexivity.
  - split; [intros H; discriminate H | intros [H _]; discriminate H].
Qed.

(** ** association lists: Machine's [lookup] / [aset] / [adel] on string keys are the dict operations *)
Notation imods := (list (string * (modality * option mat))).

Lemma dict_get_objs_of tri (ims : imods) n :
  dict_get n (objs_of tri ims) = option_map (fun mc => obj_of tri (fst mc) (snd mc)) (lookup String.eqb n ims).
Proof.
  induction ims as [|[k mc] r IH]; [reflexivity|]. cbn [objs_of map dict_get lookup fst snd]. unfold str_eqb.
  destruct (String.eqb n k); [reflexivity | exact IH].
Qed.
Lemma lookup_strip (ims : imods) n : option_map fst (lookup String.eqb n ims) = dict_get n (strip ims).
Proof.
  induction ims as [|[k mc] r IH]; [reflexivity|]. cbn [strip map dict_get lookup fst snd]. unfold str_eqb.
  destruct (String.eqb n k); [reflexivity | exact IH].
Qed.
Lemma dict_set_objs_of tri (ims : imods) n m c :
  dict_set n (obj_of tri m c) (objs_of tri ims) = objs_of tri (aset String.eqb n (m, c) ims).
Proof.
  induction ims as [|[k mc] r IH]; [reflexivity|]. cbn [objs_of map dict_set aset fst snd]. unfold str_eqb.
  destruct (String.eqb n k); [reflexivity|]. cbn [map fst snd]. f_equal. exact IH.
Qed.
Lemma strip_aset (ims : imods) n m c : strip (aset String.eqb n (m, c) ims) = dict_set n m (strip ims).
Proof.
  induction ims as [|[k mc] r IH]; [reflexivity|]. cbn [strip map dict_set aset fst snd]. unfold str_eqb.
  destruct (String.eqb n k); [reflexivity|]. cbn [map fst snd]. f_equal. exact IH.
Qed.
Lemma dict_del_same {V} k (d : list (string * V)) : Sync.dict_del k d = Hash.dict_del k d.
Proof. induction d as [|[k' v] r IH]; [reflexivity|]. cbn [Sync.dict_del Hash.dict_del]. rewrite IH. reflexivity. Qed.
Lemma py_delitem_objs_of tri (ims : imods) n :
  py_delitem (objs_of tri ims) n
  = match adel String.eqb n ims with None => inl DKey | Some ims' => inr (objs_of tri ims') end.
Proof.
  unfold py_delitem. induction ims as [|[k mc] r IH]; [reflexivity|].
  cbn [objs_of map dict_get adel Hash.dict_del fst snd]. unfold str_eqb. destruct (String.eqb n k); [reflexivity|].
  fold (objs_of tri r). destruct (dict_get n (objs_of tri r)), (adel String.eqb n r) as [r'|]; cbn [option_map];
    try discriminate IH; [|reflexivity]. injection IH as IH. rewrite IH. reflexivity.
Qed.
Lemma adel_strip (ims : imods) n :
  option_map strip (adel String.eqb n ims)
  = match dict_get n (strip ims) with None => None | Some _ => Some (Hash.dict_del n (strip ims)) end.
Proof.
  induction ims as [|[k mc] r IH]; [reflexivity|].
  cbn [strip map dict_get adel Hash.dict_del fst snd]. unfold str_eqb. destruct (String.eqb n k); [reflexivity|].
  fold (strip r). destruct (adel String.eqb n r) as [r'|], (dict_get n (strip r)); cbn [option_map] in *;
    try discriminate IH; [|reflexivity]. injection IH as IH. rewrite <- IH. reflexivity.
Qed.

(** ** get_modality *)
Lemma np_leaf_get_modality_eq tri (ims : imods) n :
  np_leaf_get_modality (objs_of tri ims) n
  = (objs_of tri ims, match lookup String.eqb n ims with None => inl DKey | Some mc => inr (obj_of tri (fst mc) (snd mc)) end).
Proof.
  unfold np_leaf_get_modality, np_leaf_get_all_modalities, py_getitem. rewrite dict_get_objs_of.
  destruct (lookup String.eqb n ims); reflexivity.
Qed.

(** ** set_modality *)
Lemma np_leaf_set_modality_eq tri (ims : imods) n sp sn k :
  np_leaf_set_modality tri (objs_of tri ims) n sp sn k
  = match mk_modality sp sn (str_eqb k "pathological") with
    | None => (objs_of tri ims, inl DValue)
    | Some m => (objs_of tri (aset String.eqb n (m, None) ims), inr tt)
    end.
Proof.
  unfold np_leaf_set_modality. cbv zeta. rewrite if_bool_id, np_init_eq.
  destruct (mk_modality sp sn (str_eqb k "pathological")) as [m|]; cbn [py_construct]; [|reflexivity].
  rewrite dict_set_objs_of. reflexivity.
Qed.

Lemma np_leaf_set_modality_sync tri u (ims : imods) n sp sn k : strip ims = u_mods u ->
  exists ims', np_leaf_set_modality tri (objs_of tri ims) n sp sn k
               = (objs_of tri ims', if snd (leaf_cfg (CSetModality n sp sn (str_eqb k "pathological")) u) then inr tt else inl DValue)
            /\ strip ims' = u_mods (fst (leaf_cfg (CSetModality n sp sn (str_eqb k "pathological")) u)).
Proof.
  intros Hs. rewrite np_leaf_set_modality_eq. cbn [leaf_cfg]. unfold leaf_set_modality.
  destruct (mk_modality sp sn (str_eqb k "pathological")) as [m|]; cbn [fst snd u_with_mods u_mods].
  - eexists. split; [reflexivity|]. rewrite strip_aset, Hs. reflexivity.
  - exists ims. split; [reflexivity | exact Hs].
Qed.

Lemma np_leaf_set_modality_machine tri x mc n sp sn k m : mk_modality sp sn (str_eqb k "pathological") = Some m ->
  np_leaf_set_modality tri (objs_of tri (i_mods uni_sig x)) n sp sn k
  = (objs_of tri (i_mods uni_sig (snd (fst (istep uni_sig KFull (SetMod uni_sig n m) x mc)))), inr tt)
  /\ strip (aset String.eqb n (m, None) (i_mods uni_sig x)) = leaf_op (OpSet n m) (strip (i_mods uni_sig x)).
Proof.
  intros Hm. split.
  - rewrite np_leaf_set_modality_eq, Hm. reflexivity.
  - apply strip_aset.
Qed.

(** ** del_modality *)
Lemma np_leaf_del_modality_eq tri (ims : imods) n :
  np_leaf_del_modality (objs_of tri ims) n
  = match adel String.eqb n ims with None => (objs_of tri ims, inl DKey) | Some ims' => (objs_of tri ims', inr tt) end.
Proof. unfold np_leaf_del_modality. rewrite py_delitem_objs_of. destruct (adel String.eqb n ims); reflexivity. Qed.

Lemma np_leaf_del_modality_sync tri u (ims : imods) n : strip ims = u_mods u ->
  exists ims', np_leaf_del_modality (objs_of tri ims) n
               = (objs_of tri ims', if snd (leaf_cfg (CDelModality n) u) then inr tt else inl DKey)
            /\ strip ims' = u_mods (fst (leaf_cfg (CDelModality n) u))
            /\ (snd (leaf_cfg (CDelModality n) u) = true -> strip ims' = leaf_op (OpDel n) (strip ims)).
Proof.
  intros Hs. rewrite np_leaf_del_modality_eq. cbn [leaf_cfg]. pose proof (adel_strip ims n) as E. rewrite Hs in E.
  destruct (dict_get n (u_mods u)) as [m0|]; destruct (adel String.eqb n ims) as [ims'|]; cbn [option_map] in E;
    try discriminate E; cbn [fst snd u_with_mods u_mods].
  - injection E as E. exists ims'. split; [reflexivity|]. rewrite dict_del_same. split; [exact E|]. intros _. rewrite Hs. exact E.
  - exists ims. split; [reflexivity|]. split; [exact Hs | intros H; discriminate H].
Qed.

(** ** replace_all_modalities *)
(** the arguments that the loop hands to set_modality: spec, sens and kind of every object of the dict passed in *)
Definition mod_args (aims : imods) : list (string * (val * val * bool)) :=
  map (fun e => (fst e, (V (m_spec (fst (snd e))), V (m_sens (fst (snd e))), m_path (fst (snd e))))) aims.
(** set one by one; stop at the first modality that the constructor rejects *)
Fixpoint set_all (aims ims : imods) : imods * bool :=
  match aims with
  | [] => (ims, true)
  | (n, (m, _)) :: r => if mod_ok m then set_all r (aset String.eqb n (m, None) ims) else (ims, false)
  end.

Lemma mk_modality_of m : mk_modality (V (m_spec m)) (V (m_sens m)) (m_path m) = if mod_ok m then Some m else None.
Proof.
  unfold mk_modality, mod_ok, check_unit. destruct m as [sp sn p]. cbn [m_spec m_sens m_path].
  destruct (in_unit sp), (in_unit sn); reflexivity.
Qed.
Lemma kind_string_path (p : bool) : str_eqb (if p then "pathological" else "clinical") "pathological" = p.
Proof. destruct p; reflexivity. Qed.

Lemma np_leaf_replace_body_eq tri tri' (ims : imods) n am ac :
  np_leaf_replace_body tri n (obj_of tri' am ac) (objs_of tri ims)
  = if mod_ok am then ((objs_of tri (aset String.eqb n (am, None) ims), obj_of tri' am ac), inr tt)
    else ((objs_of tri ims, obj_of tri' am ac), inl DValue).
Proof.
  unfold np_leaf_replace_body. cbv zeta. unfold np_spec_get, np_sens_get, rd_spec, rd_sens. cbn [obj_of mo_spec mo_sens mo_path].
  fold (obj_of tri' am ac). rewrite np_leaf_set_modality_eq, kind_string_path, mk_modality_of. destruct (mod_ok am); reflexivity.
Qed.

Lemma np_leaf_replace_loop tri tri' (aims : imods) : forall ims : imods,
  py_for_kv (np_leaf_replace_body tri) (objs_of tri' aims) (objs_of tri ims)
  = ((objs_of tri (fst (set_all aims ims)), objs_of tri' aims), if snd (set_all aims ims) then inr tt else inl DValue).
Proof.
  induction aims as [|[n [am ac]] r IH]; intros ims; [reflexivity|].
  cbn [objs_of map py_for_kv set_all fst snd]. rewrite np_leaf_replace_body_eq. fold (objs_of tri' r).
  destruct (mod_ok am); [|reflexivity]. rewrite IH. reflexivity.
Qed.

Lemma set_all_sync (aims : imods) : forall (ims : imods) u, strip ims = u_mods u ->
  strip (fst (set_all aims ims)) = u_mods (fst (leaf_set_modalities u (mod_args aims)))
  /\ snd (set_all aims ims) = snd (leaf_set_modalities u (mod_args aims)).
Proof.
  induction aims as [|[n [am ac]] r IH]; intros ims u Hs; [split; [exact Hs | reflexivity]|].
  cbn [mod_args map set_all leaf_set_modalities fst snd]. unfold leaf_set_modality. rewrite mk_modality_of.
  destruct (mod_ok am); [|split; [exact Hs | reflexivity]].
  apply IH. rewrite strip_aset, Hs. reflexivity.
Qed.

Lemma np_leaf_replace_all_modalities_sync tri tri' u (ims aims : imods) : strip ims = u_mods u ->
  exists ims', np_leaf_replace_all_modalities tri (objs_of tri ims) (objs_of tri' aims)
               = ((objs_of tri ims', objs_of tri' aims), if snd (leaf_cfg (CReplaceModalities (mod_args aims)) u) then inr tt else inl DValue)
            /\ strip ims' = u_mods (fst (leaf_cfg (CReplaceModalities (mod_args aims)) u)).
Proof.
  intros _. unfold np_leaf_replace_all_modalities, np_leaf_clear_modalities. cbv zeta.
  change ([] : list (string * mobj)) with (objs_of tri []). rewrite np_leaf_replace_loop. cbn [leaf_cfg].
  destruct (set_all_sync aims [] (u_with_mods u []) eq_refl) as [E1 E2].
  exists (fst (set_all aims [])). rewrite <- E2. split; [|exact E1]. destruct (snd (set_all aims [])); reflexivity.
Qed.

Lemma set_all_ok (aims : imods) : forallb (fun e => mod_ok (fst (snd e))) aims = true -> forall ims : imods,
  set_all aims ims = (fold_left (fun acc e => aset String.eqb (fst e) (snd e, None) acc) (strip aims) ims, true).
Proof.
  induction aims as [|[n [am ac]] r IH]; intros H ims; [reflexivity|]. cbn [forallb fst snd] in H. apply andb_prop in H.
  destruct H as [H1 H2]. cbn [set_all strip map fold_left fst snd]. rewrite H1. apply IH. exact H2.
Qed.
Lemma fold_aset_none (l : list (string * modality)) : forall acc : list (string * modality),
  fold_left (fun (a : imods) e => aset String.eqb (fst e) (snd e, None) a) l (map (fun e => (fst e, (snd e, None))) acc)
  = map (fun e => (fst e, (snd e, None))) (fold_left (fun a e => aset String.eqb (fst e) (snd e) a) l acc).
Proof.
  induction l as [|[n m] r IH]; intros acc; [reflexivity|]. cbn [fold_left fst snd]. rewrite <- IH. f_equal.
  induction acc as [|[k v] acc IHa]; [reflexivity|]. cbn [map aset fst snd]. destruct (String.eqb n k); [reflexivity|].
  cbn [map fst snd]. f_equal. exact IHa.
Qed.
Lemma replace_assoc_leaf_op (l items : list (string * modality)) : replace_assoc String.eqb l = leaf_op (OpReplace l) items.
Proof.
  unfold replace_assoc, leaf_op. generalize (@nil (string * modality)). induction l as [|[n m] r IH]; intros acc; [reflexivity|].
  cbn [fold_left fst snd]. rewrite <- IH. f_equal. clear. induction acc as [|[k v] acc IHa]; [reflexivity|].
  cbn [aset dict_set]. unfold str_eqb. destruct (String.eqb n k); [reflexivity|]. f_equal. exact IHa.
Qed.

Lemma np_leaf_replace_all_modalities_machine tri tri' x mc (aims : imods) : forallb (fun e => mod_ok (fst (snd e))) aims = true ->
  np_leaf_replace_all_modalities tri (objs_of tri (i_mods uni_sig x)) (objs_of tri' aims)
  = ((objs_of tri (i_mods uni_sig (snd (fst (istep uni_sig KFull (ReplaceMods uni_sig (strip aims)) x mc)))), objs_of tri' aims), inr tt)
  /\ replace_assoc String.eqb (strip aims) = leaf_op (OpReplace (strip aims)) (strip (i_mods uni_sig x)).
Proof.
  intros H. split; [|apply replace_assoc_leaf_op].
  unfold np_leaf_replace_all_modalities, np_leaf_clear_modalities. cbv zeta.
  change ([] : list (string * mobj)) with (objs_of tri []). rewrite np_leaf_replace_loop, (set_all_ok aims H). cbn [fst snd].
  cbn [istep set_mods i_mods]. unfold replace_assoc.
  change (@nil (string * (modality * option mat))) with (map (fun e : string * modality => (fst e, (snd e, @None mat))) []).
  rewrite fold_aset_none. reflexivity.
Qed.

(** ** get_modality(name).spec = v  (Machine's UpdMod): [get_modality] returns the object stored in the dict, so the setter
    changes the dict's own object; functionally, the object the setter leaves is stored back under the same name *)
Lemma np_leaf_upd_modality_machine tri x mc n (is_spec : bool) q :
  let set := if is_spec then np_spec_set else np_sens_set in
  match np_leaf_get_modality (objs_of tri (i_mods uni_sig x)) n with
  | (objs, inl e) => fst (fst (istep uni_sig KFull (UpdMod uni_sig n (is_spec, q)) x mc)) = OErr ENoKey /\ e = DKey
  | (objs, inr o) =>
      match set o (V q) with
      | (o', inl e) => fst (fst (istep uni_sig KFull (UpdMod uni_sig n (is_spec, q)) x mc)) = OErr ERejected /\ e = DValue /\ o' = o
      | (o', inr _) => fst (fst (istep uni_sig KFull (UpdMod uni_sig n (is_spec, q)) x mc)) = ONone
                       /\ dict_set n o' objs = objs_of tri (i_mods uni_sig (snd (fst (istep uni_sig KFull (UpdMod uni_sig n (is_spec, q)) x mc))))
      end
  end.
Proof.
  cbv zeta. rewrite np_leaf_get_modality_eq. cbn [istep sg_mname_eqb sg_apply_mupd sg_mname sg_mval sg_cmval uni_sig].
  destruct (@lookup string (modality * option mat) String.eqb n (i_mods uni_sig x)) as [[m c]|]; [|split; reflexivity].
  cbn [fst snd]. destruct (np_spec_sens_eq tri m c q) as (_ & _ & Es & En & _).
  destruct is_spec; [rewrite Es | rewrite En];
    match goal with |- context [uni_apply_mupd ?u m] => destruct (uni_apply_mupd u m) as [m'|] end; cbn [fst snd].
  - split; [reflexivity|]. rewrite dict_set_objs_of. reflexivity.
  - repeat split.
  - split; [reflexivity|]. rewrite dict_set_objs_of. reflexivity.
  - repeat split.
Qed.

(** ** modalities_hash *)
(** every modality is valid and its cache (if any) is the matrix of its settings *)
Definition mods_ok (tri : bool) (ims : imods) : Prop :=
  Forall (fun e => mod_ok (fst (snd e)) = true /\ cm_cache_ok tri (fst (snd e)) (snd (snd e))) ims.
(** the caches after every modality has been hashed *)
Definition filled (tri : bool) (ims : imods) : imods :=
  map (fun e => (fst e, (fst (snd e), Some (confusion_matrix (base_of tri) (fst (snd e)))))) ims.
(** the folds of Composite.modalities_hash over the key of a composite, for given hash functions: a leaf folds
    (hash_res, name, hash(modality)) over its items, a branch (hash_res, child.modalities_hash()) over its children *)
Fixpoint hash_of_key {H : Type} (h0 : H) (hb : list Qc -> H) (ht : H * string * H -> H) (hp : H * H -> H) (k : ckey mat) : H :=
  match k with
  | KLeaf items => fold_left (fun h e => ht (h, fst e, hb (np_tobytes (snd e)))) items h0
  | KBranch cs => fold_left (fun h c => hp (h, hash_of_key h0 hb ht hp c)) cs h0
  end.

Lemma strip_filled tri (ims : imods) : strip (filled tri ims) = strip ims.
Proof. unfold strip, filled. rewrite map_map. reflexivity. Qed.

Lemma np_leaf_hash_loop {H} (hb : list Qc -> H) ht tri (ims : imods) : mods_ok tri ims -> forall h,
  py_for_items_d (np_leaf_hash_body hb ht) (objs_of tri ims) h
  = (objs_of tri (filled tri ims),
     inr (fold_left (fun h e => ht (h, fst e, hb (np_tobytes (snd e)))) (map (fun kv => (fst kv, mod_key (base_of tri) (snd kv))) (strip ims)) h)).
Proof.
  induction 1 as [|[n [m c]] r [Hok Hc] _ IH]; intros h; [reflexivity|]. cbn [fst snd] in Hok, Hc.
  cbn [objs_of map py_for_items_d strip filled fold_left fst snd]. unfold np_leaf_hash_body at 1.
  rewrite (np_hash_eq hb tri m c Hok Hc). fold (objs_of tri r). rewrite IH. reflexivity.
Qed.

Lemma np_leaf_modalities_hash_eq {H} (h0 : H) hb ht hp tri (ims : imods) : mods_ok tri ims ->
  np_leaf_modalities_hash h0 hb ht (objs_of tri ims)
  = (objs_of tri (filled tri ims), inr (hash_of_key h0 hb ht hp (coll_key (mod_key (base_of tri)) (CLeaf (strip ims))))).
Proof. intros Hok. unfold np_leaf_modalities_hash. cbv zeta. rewrite (np_leaf_hash_loop hb ht tri ims Hok). reflexivity. Qed.

(** with injective, collision-free hash functions (the free term algebra) the hash IS the key *)
Inductive hterm := HZero | HBytes (l : list Qc) | HTuple (t : hterm * string * hterm) | HPair (t : hterm * hterm).

Lemma hash_fold_free b1 b2 : forall (r1 r2 : list (string * modality)),
  fold_right (fun e h => HTuple (h, fst e, HBytes (np_tobytes (snd e)))) HZero (map (fun kv => (fst kv, mod_key b1 (snd kv))) r1)
  = fold_right (fun e h => HTuple (h, fst e, HBytes (np_tobytes (snd e)))) HZero (map (fun kv => (fst kv, mod_key b2 (snd kv))) r2)
  -> map (fun kv => (fst kv, mod_key b1 (snd kv))) r1 = map (fun kv => (fst kv, mod_key b2 (snd kv))) r2.
Proof.
  induction r1 as [|[n1 m1] r1 IH]; intros [|[n2 m2] r2] H; cbn [map fold_right fst snd] in *; try discriminate H; [reflexivity|].
  injection H as H1 H2 H3. apply mod_key_bytes_inj in H3. rewrite H2, H3, (IH r2 H1). reflexivity.
Qed.

Lemma hash_of_key_free b1 b2 (l1 l2 : list (string * modality)) :
  hash_of_key HZero HBytes HTuple HPair (coll_key (mod_key b1) (CLeaf l1)) = hash_of_key HZero HBytes HTuple HPair (coll_key (mod_key b2) (CLeaf l2))
  <-> coll_key (mod_key b1) (CLeaf l1) = coll_key (mod_key b2) (CLeaf l2).
Proof.
  split; [|intros H; rewrite H; reflexivity]. cbn [coll_key hash_of_key]. intros H. f_equal.
  rewrite <- !fold_left_rev_right in H. rewrite <- !map_rev in H. apply hash_fold_free in H. rewrite !map_rev in H.
  apply (f_equal (@rev _)) in H. rewrite !rev_involutive in H. exact H.
Qed.

(** * Composite, branch: forwarding to the children *)
(** set_modality / del_modality / replace_all_modalities / clear_modalities of a composite WITH children:
      for child in self._modality_children.values(): child.METHOD(...)
    The composite is its dict name -> child; the child's method is a parameter ([C] = the class of the children). *)
Definition np_branch_forward {C : Type} (meth : C -> C * dres unit) (self : list (string * C)) : list (string * C) * dres unit :=
  match py_for_items_d (fun _ child (_ : unit) =>
          match meth child with
          | (child, inl e) => (child, inl e)
          | (child, inr x1) => (child, inr tt)
          end) self tt with
  | (self, inl e) => (self, inl e)
  | (self, inr _) => (self, inr tt)
  end.
(** modalities_hash of a composite with children:
      hash_res = 0 ; for child in self._modality_children.values(): hash_res = hash((hash_res, child.modalities_hash())) *)
Definition np_branch_modalities_hash {C H : Type} (hash0 : H) (hash_pair : H * H -> H) (modalities_hash_ : C -> C * dres H)
  (self : list (string * C)) : list (string * C) * dres H :=
  let hash_res := hash0 in
  match py_for_items_d (fun _ child hash_res =>
          match modalities_hash_ child with
          | (child, inl e) => (child, inl e)
          | (child, inr x1) =>
              let hash_res := hash_pair (hash_res, x1) in
              (child, inr hash_res)
          end) self hash_res with
  | (self, inl e) => (self, inl e)
  | (self, inr hash_res) => (self, inr hash_res)
  end.

(** left to right; an exception stops the loop and leaves the earlier children updated, the later ones untouched *)
Fixpoint forward {C : Type} (meth : C -> C * dres unit) (cs : list (string * C)) : list (string * C) * dres unit :=
  match cs with
  | [] => ([], inr tt)
  | (n, c) :: r =>
      match meth c with
      | (c', inl e) => ((n, c') :: r, inl e)
      | (c', inr _) => let '(r', res) := forward meth r in ((n, c') :: r', res)
      end
  end.
Lemma np_branch_forward_eq {C} (meth : C -> C * dres unit) self : np_branch_forward meth self = forward meth self.
Proof.
  unfold np_branch_forward.
  assert (E : forall u : unit, py_for_items_d (fun _ child (_ : unit) =>
              match meth child with (child, inl e) => (child, inl e) | (child, inr x1) => (child, inr tt) end) self u
            = let '(r, res) := forward meth self in (r, match res with inl e => inl e | inr _ => inr tt end)).
  { induction self as [|[n c] r IH]; intros []; [reflexivity|]. cbn [py_for_items_d forward].
    destruct (meth c) as [c' [e|x]]; [reflexivity|]. rewrite IH. destruct (forward meth r) as [r' res]. reflexivity. }
  rewrite E. destruct (forward meth self) as [r [e|[]]]; reflexivity.
Qed.

Definition ok_of {R} (r : dres R) : bool := match r with inr _ => true | inl _ => false end.
(** the method of a child behaves like the model function [f] ([false] = the call raised) *)
Definition sim {C : Type} (meth : C -> C * dres unit) (f : C -> C * bool) : Prop :=
  forall c, fst (meth c) = fst (f c) /\ ok_of (snd (meth c)) = snd (f c).

(** the children of the three composite classes, in dict order *)
Definition b_kids (b : bilateral) : list (string * uni) := [("ipsi", b_ipsi b); ("contra", b_contra b)].
Definition h_kids (h : hpvmodel) : list (string * uni) := [("hpv", h_hpv h); ("nohpv", h_nohpv h)].
Definition opt_kid (n : string) (ob : option bilateral) : list (string * bilateral) :=
  match ob with Some b => [(n, b)] | None => [] end.
Definition m_kids (m : midline) : list (string * bilateral) :=
  [("ext", ml_ext m); ("noext", ml_noext m)] ++ opt_kid "central" (ml_central m) ++ opt_kid "unknown" (ml_unknown m).

Lemma forward_b_cfg (meth : uni -> uni * dres unit) f b : sim meth f ->
  fst (forward meth (b_kids b)) = b_kids (fst (b_cfg f b)) /\ ok_of (snd (forward meth (b_kids b))) = snd (b_cfg f b).
Proof.
  intros H. unfold b_kids, b_cfg. cbn [forward].
  destruct (H (b_ipsi b)) as [E1 O1]. destruct (meth (b_ipsi b)) as [i' r1], (f (b_ipsi b)) as [i'' ok1]. cbn [fst snd] in *. subst i''.
  destruct r1 as [e|x]; cbn [ok_of] in O1; subst ok1; [split; reflexivity|].
  destruct (H (b_contra b)) as [E2 O2]. destruct (meth (b_contra b)) as [c' r2], (f (b_contra b)) as [c'' ok2]. cbn [fst snd] in *. subst c''.
  destruct r2 as [e|y]; cbn [ok_of] in O2; subst ok2; split; reflexivity.
Qed.
Lemma forward_h_cfg (meth : uni -> uni * dres unit) f h : sim meth f ->
  fst (forward meth (h_kids h)) = h_kids (fst (h_cfg f h)) /\ ok_of (snd (forward meth (h_kids h))) = snd (h_cfg f h).
Proof.
  intros H. unfold h_kids, h_cfg. cbn [forward].
  destruct (H (h_hpv h)) as [E1 O1]. destruct (meth (h_hpv h)) as [i' r1], (f (h_hpv h)) as [i'' ok1]. cbn [fst snd] in *. subst i''.
  destruct r1 as [e|x]; cbn [ok_of] in O1; subst ok1; [split; reflexivity|].
  destruct (H (h_nohpv h)) as [E2 O2]. destruct (meth (h_nohpv h)) as [c' r2], (f (h_nohpv h)) as [c'' ok2]. cbn [fst snd] in *. subst c''.
  destruct r2 as [e|y]; cbn [ok_of] in O2; subst ok2; split; reflexivity.
Qed.
(** a Bilateral child seen through its own children: its method is the forwarding loop over ipsi / contra *)
Lemma sim_bilateral (meth : uni -> uni * dres unit) f (methB : bilateral -> bilateral * dres unit) : sim meth f ->
  (forall b, b_kids (fst (methB b)) = fst (forward meth (b_kids b)) /\ snd (methB b) = snd (forward meth (b_kids b))
             /\ b_symT (fst (methB b)) = b_symT b /\ b_symL (fst (methB b)) = b_symL b) ->
  sim methB (b_cfg f).
Proof.
  intros H HB b. destruct (HB b) as (K & R & ST & SL). destruct (forward_b_cfg meth f b H) as [E O].
  split; [|rewrite R; exact O]. rewrite E in K. unfold b_kids in K. injection K as Ki Kc.
  destruct (methB b) as [[i c st sl] r]. cbn [fst b_ipsi b_contra b_symT b_symL] in *. subst.
  unfold b_cfg. destruct (f (b_ipsi b)) as [i' [|]]; [destruct (f (b_contra b)) as [c' ok]|]; reflexivity.
Qed.
Lemma forward_m_cfg (methB : bilateral -> bilateral * dres unit) f m : sim methB (b_cfg f) ->
  fst (forward methB (m_kids m)) = m_kids (fst (m_cfg f m)) /\ ok_of (snd (forward methB (m_kids m))) = snd (m_cfg f m).
Proof.
  intros H. unfold m_kids, m_cfg. cbn [app forward].
  destruct (H (ml_ext m)) as [E1 O1]. destruct (methB (ml_ext m)) as [e' r1], (b_cfg f (ml_ext m)) as [e'' ok1]. cbn [fst snd] in *. subst e''.
  destruct r1 as [x|x]; cbn [ok_of] in O1; subst ok1; cbn [negb]; [split; reflexivity|].
  destruct (H (ml_noext m)) as [E2 O2]. destruct (methB (ml_noext m)) as [n' r2], (b_cfg f (ml_noext m)) as [n'' ok2]. cbn [fst snd] in *. subst n''.
  destruct r2 as [y|y]; cbn [ok_of] in O2; subst ok2; cbn [negb]; [split; reflexivity|].
  destruct (ml_central m) as [c|]; cbn [opt_kid app forward opt_cfg].
  - destruct (H c) as [E3 O3]. destruct (methB c) as [c' r3], (b_cfg f c) as [c'' ok3]. cbn [fst snd] in *. subst c''.
    destruct r3 as [z|z]; cbn [ok_of] in O3; subst ok3; cbn [negb]; [split; reflexivity|].
    destruct (ml_unknown m) as [k|]; cbn [opt_kid app forward opt_cfg]; [|split; reflexivity].
    destruct (H k) as [E4 O4]. destruct (methB k) as [k' r4], (b_cfg f k) as [k'' ok4]. cbn [fst snd] in *. subst k''.
    destruct r4 as [w|w]; cbn [ok_of] in O4; subst ok4; split; reflexivity.
  - cbn [negb]. destruct (ml_unknown m) as [k|]; cbn [opt_kid app forward opt_cfg]; [|split; reflexivity].
    destruct (H k) as [E4 O4]. destruct (methB k) as [k' r4], (b_cfg f k) as [k'' ok4]. cbn [fst snd] in *. subst k''.
    destruct r4 as [w|w]; cbn [ok_of] in O4; subst ok4; split; reflexivity.
Qed.

(** the hash of a composite with children is the fold over the children's hashes: when the hash of every child is the
    [hash_of_key] of the child's key, the composite's is the [hash_of_key] of the branch key *)
Lemma np_branch_modalities_hash_eq {C H A} (h0 : H) hb ht hp (kf : A -> mat) (mh : C -> C * dres H) (fill : C -> C) :
  forall (trees : list (string * ctree A)) (self : list (string * C)),
  Forall2 (fun t c => mh (snd c) = (fill (snd c), inr (hash_of_key h0 hb ht hp (coll_key kf (snd t))))) trees self ->
  np_branch_modalities_hash h0 hp mh self
  = (map (fun c => (fst c, fill (snd c))) self, inr (hash_of_key h0 hb ht hp (coll_key kf (CBranch trees)))).
Proof.
  intros trees self HF. unfold np_branch_modalities_hash. cbv zeta. cbn [coll_key hash_of_key].
  assert (E : forall h, py_for_items_d (fun _ child hash_res =>
              match mh child with (child, inl e) => (child, inl e) | (child, inr x1) => (child, inr (hp (hash_res, x1))) end) self h
            = (map (fun c => (fst c, fill (snd c))) self,
               inr (fold_left (fun h c => hp (h, hash_of_key h0 hb ht hp c)) (map (fun nc : string * ctree A => let (_, c) := nc in coll_key kf c) trees) h))).
  { induction HF as [|[tn t] [n c] trees self Hc _ IH]; intros h; [reflexivity|]. cbn [fst snd] in Hc.
    cbn [py_for_items_d map fold_left fst snd]. rewrite Hc, IH. reflexivity. }
  rewrite E. reflexivity.
Qed.
