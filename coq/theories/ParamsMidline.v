(** ParamsMidline: proofs of the C10 statements for models.Midline. *)
From LymphModel Require Import Base States Linalg Graph Transition Observation Dist Unilateral Models Params
  ParamsStatements ParamsLemmas ParamsProofs ParamsBilateral.
Local Open Scope nat_scope.
Local Open Scope string_scope.
Local Open Scope list_scope.

(** * Blocks of keys with pairwise different first components *)
Fixpoint cat {A} (bs : list ((string -> Prop) * list A)) : list A :=
  match bs with
  | [] => []
  | [b] => snd b
  | b :: r => snd b ++ cat r
  end.
Lemma cat_cons {A} (b : (string -> Prop) * list A) r : cat (b :: r) = snd b ++ cat r.
Proof. destruct r; [cbn; rewrite app_nil_r; reflexivity | reflexivity]. Qed.
Fixpoint all_disj (Ps : list (string -> Prop)) : Prop :=
  match Ps with
  | [] => True
  | P :: r => Forall (fun Q : string -> Prop => forall s, P s -> Q s -> False) r /\ all_disj r
  end.
Lemma heads_in_cat (bs : list ((string -> Prop) * list path)) (P : string -> Prop) :
  Forall (fun b => heads_in (fst b) (snd b)) bs -> Forall (fun Q : string -> Prop => forall s, P s -> Q s -> False) (map fst bs) ->
  forall k, In k (cat bs) -> ~ P (head_of k).
Proof.
  induction bs as [|b r IH]; intros Hh Hd k Hk; [destruct Hk|]. rewrite cat_cons in Hk. apply in_app_iff in Hk.
  inversion Hh; subst. cbn [map] in Hd. inversion Hd; subst. destruct Hk as [Hk|Hk].
  - intros HP. match goal with H : forall s, P s -> fst b s -> False |- _ => apply (H _ HP) end.
    match goal with H : heads_in (fst b) (snd b) |- _ => apply H, Hk end.
  - apply IH; assumption.
Qed.
Lemma NoDup_blocks (bs : list ((string -> Prop) * list path)) :
  Forall (fun b => NoDup (snd b) /\ heads_in (fst b) (snd b)) bs -> all_disj (map fst bs) -> NoDup (cat bs).
Proof.
  induction bs as [|b r IH]; intros Hb Hd; [constructor|]. rewrite cat_cons. inversion Hb as [|? ? [Hn Hh] Hr]; subst.
  cbn [map all_disj] in Hd. destruct Hd as [Hd1 Hd2]. apply NoDup_app_intro; [exact Hn | apply IH; assumption|].
  intros k Hk Hk'. apply (heads_in_cat r (fst b)) in Hk'; [apply Hk', Hh, Hk | | exact Hd1].
  clear - Hr. induction Hr as [|x l [_ Hx] _ IHl]; constructor; assumption.
Qed.

Definition isW (w : string) (s : string) : Prop := s = w.
Lemma isW_disj w1 w2 : w1 <> w2 -> forall s, isW w1 s -> isW w2 s -> False.
Proof. unfold isW. intros H s -> E. apply H. exact E. Qed.

Lemma heads_pre2 (P : string -> Prop) h h2 (X : list (path * Qc)) : P h -> heads_in P (map fst (pre [h; h2] X)).
Proof. intros H. rewrite pre_keys. apply (heads_in_cons_path P h [h2]). exact H. Qed.

(** * What a well-formed midline model gives *)
Section MidFacts.
  Variable m : midline.
  Hypothesis Hok : mid_names_ok m = true.
  Let ei := ml_ei m.
  Let ec := ml_ec m.
  Let nc := ml_nc m.

  Lemma m_ok_parts :
    u_names_ok ei = true /\ u_names_ok ec = true /\ u_names_ok nc = true /\
    shape (u_edges ei) = shape (u_edges ec) /\ u_tri ec = u_tri ei /\
    shape (u_edges ei) = shape (u_edges nc) /\ u_tri nc = u_tri ei /\
    b_symL (ml_ext m) = ml_symL m.
  Proof.
    unfold mid_names_ok, same_shape in Hok. rewrite !andb_true_iff in Hok. fold ei ec nc in Hok.
    destruct Hok as [[[[[H1 H2] H3] [Hb1 Hs1]] [Hb2 Hs2]] Hsym].
    repeat split; try assumption.
    - apply shape_eqb_shape, Hs1.
    - apply Nat.eqb_eq in Hb1. unfold u_tri, g_tri. rewrite Hb1. reflexivity.
    - apply shape_eqb_shape, Hs2.
    - apply Nat.eqb_eq in Hb2. unfold u_tri, g_tri. rewrite Hb2. reflexivity.
    - apply Bool.eqb_prop, Hsym.
  Qed.
  Lemma keys_T_nc : map fst (u_tumor_items nc) = map fst (u_tumor_items ei).
  Proof. destruct m_ok_parts as (_ & _ & _ & _ & _ & Hs & Ht & _). unfold u_tumor_items. rewrite Ht. symmetry. apply shape_sel_keys; [apply kind_sel_tumor | exact Hs]. Qed.
  Lemma keys_T_ec : map fst (u_tumor_items ec) = map fst (u_tumor_items ei).
  Proof. destruct m_ok_parts as (_ & _ & _ & Hs & Ht & _). unfold u_tumor_items. rewrite Ht. symmetry. apply shape_sel_keys; [apply kind_sel_tumor | exact Hs]. Qed.
  Lemma keys_L_ec : map fst (u_lnl_items ec) = map fst (u_lnl_items ei).
  Proof. destruct m_ok_parts as (_ & _ & _ & Hs & Ht & _). unfold u_lnl_items. rewrite Ht. symmetry. apply shape_sel_keys; [apply kind_sel_lnl | exact Hs]. Qed.
  Lemma TNp_nc s : TNp nc s <-> TNp ei s.
  Proof.
    destruct m_ok_parts as (_ & _ & _ & _ & _ & Hs & _). unfold TNp, tumor_edges. unfold u_edges in Hs.
    rewrite (shape_filter_names is_tumor_spread _ kind_sel_tumor _ Hs). tauto.
  Qed.
  Lemma LNp_ec s : LNp ec s <-> LNp ei s.
  Proof.
    destruct m_ok_parts as (_ & _ & _ & Hs & _). unfold LNp, lnl_edges. unfold u_edges in Hs.
    change (fun e : edge => negb (is_tumor_spread e)) with sel_lnl.
    rewrite (shape_filter_names sel_lnl _ kind_sel_lnl _ Hs). tauto.
  Qed.
  Lemma NoDup_T_nc_L_ec : NoDup (map fst (u_tumor_items nc ++ u_lnl_items ec)).
  Proof. rewrite map_app, keys_T_nc, keys_L_ec, <- map_app. apply u_spread_keys_NoDup, m_ok_parts. Qed.
End MidFacts.

(** * Midline: intermediate dictionaries *)
Definition mid_spread_items (m : midline) : list (path * Qc) :=
  let ei := ml_ei m in let ec := ml_ec m in let nc := ml_nc m in
  match ml_mixing m, ml_symL m with
  | Some _, true => pre ["ipsi"] (u_tumor_items ei) ++ pre ["contra"] (u_tumor_items nc) ++ m_mixing_item m ++ u_lnl_items ei
  | Some _, false => pre ["ipsi"] (u_tumor_items ei ++ u_lnl_items ei) ++ pre ["contra"] (u_tumor_items nc ++ u_lnl_items ec)
                     ++ m_mixing_item m
  | None, true => pre ["ipsi"] (u_tumor_items ei) ++ pre ["noext"; "contra"] (u_tumor_items nc)
                  ++ pre ["ext"; "contra"] (u_tumor_items ec) ++ u_lnl_items ei
  | None, false => pre ["ipsi"] (u_tumor_items ei ++ u_lnl_items ei) ++ pre ["noext"; "contra"] (u_tumor_items nc)
                   ++ pre ["ext"; "contra"] (u_tumor_items ec) ++ pre ["contra"] (u_lnl_items ec)
  end.
Lemma mid_items_split m : mid_items m = mid_spread_items m ++ u_dist_items (ml_ei m) ++ m_midext_item m.
Proof. unfold mid_items, mid_spread_items. destruct (ml_mixing m), (ml_symL m); rewrite <- ?app_assoc; reflexivity. Qed.

Ltac disj_tac :=
  cbn [map fst all_disj];
  repeat match goal with
         | |- _ /\ _ => split
         | |- Forall _ [] => constructor
         | |- Forall _ (_ :: _) => constructor
         | |- True => exact I
         end.
Ltac blocks_tac :=
  repeat match goal with
         | |- Forall _ [] => constructor
         | |- Forall _ (_ :: _) => constructor
         | |- _ /\ _ => split
         end; cbn [fst snd].

Definition Wd (s : string) : Prop := In s ["ipsi"; "contra"; "noext"; "ext"; "mixing"].

Section MidGet.
  Variable m : midline.
  Hypothesis Hok : mid_names_ok m = true.
  Let ei := ml_ei m.
  Let ec := ml_ec m.
  Let nc := ml_nc m.
  Let Hei : u_names_ok ei = true. Proof. apply (m_ok_parts m Hok). Qed.
  Let Hec : u_names_ok ec = true. Proof. apply (m_ok_parts m Hok). Qed.
  Let Hnc : u_names_ok nc = true. Proof. apply (m_ok_parts m Hok). Qed.

  Lemma Wd_EN s : Wd s -> EN ei s -> False.
  Proof. intros Hw He. apply (in_reserved_not_edge ei s Hei); [|exact He]. unfold Wd in Hw. cbn in *. intuition. Qed.
  Lemma Wd_TS s : Wd s -> TS ei s -> False.
  Proof. intros Hw He. apply (in_reserved_not_tstage ei s Hei); [|exact He]. unfold Wd in Hw. cbn in *. intuition. Qed.

  Lemma m_spread_NoDup : NoDup (map fst (mid_spread_items m)).
  Proof.
    unfold mid_spread_items, m_mixing_item. fold ei ec nc.
    destruct (ml_mixing m) as [mix|], (ml_symL m); rewrite !map_app.
    - change (NoDup (cat [(isW "ipsi", map fst (pre ["ipsi"] (u_tumor_items ei)));
                          (isW "contra", map fst (pre ["contra"] (u_tumor_items nc)));
                          (isW "mixing", map fst [(["mixing"], mix)]);
                          (LNp ei, map fst (u_lnl_items ei))])).
      apply NoDup_blocks.
      + blocks_tac; try (apply pre_keys_NoDup); try (apply heads_pre; reflexivity);
          try (apply u_tumor_keys_NoDup; assumption); try (apply u_lnl_keys_NoDup; assumption); try apply hL_Li;
          try (intros k [<-|[]]; reflexivity); repeat constructor; intros [].
      + disj_tac; try (apply isW_disj; discriminate);
          intros s Hw HL; unfold isW in Hw; subst s; (eapply Wd_EN; [|apply LNp_EN, HL]); cbn; tauto.
    - change (NoDup (cat [(isW "ipsi", map fst (pre ["ipsi"] (u_tumor_items ei ++ u_lnl_items ei)));
                          (isW "contra", map fst (pre ["contra"] (u_tumor_items nc ++ u_lnl_items ec)));
                          (isW "mixing", map fst [(["mixing"], mix)])])).
      apply NoDup_blocks.
      + blocks_tac; try (apply pre_keys_NoDup); try (apply heads_pre; reflexivity);
          try (apply u_spread_keys_NoDup; assumption); try (apply NoDup_T_nc_L_ec; assumption);
          try (intros k [<-|[]]; reflexivity); repeat constructor; intros [].
      + disj_tac; apply isW_disj; discriminate.
    - change (NoDup (cat [(isW "ipsi", map fst (pre ["ipsi"] (u_tumor_items ei)));
                          (isW "noext", map fst (pre ["noext"; "contra"] (u_tumor_items nc)));
                          (isW "ext", map fst (pre ["ext"; "contra"] (u_tumor_items ec)));
                          (LNp ei, map fst (u_lnl_items ei))])).
      apply NoDup_blocks.
      + blocks_tac; try (apply pre_keys_NoDup); try (apply heads_pre; reflexivity); try (apply heads_pre2; reflexivity);
          try (apply u_tumor_keys_NoDup; assumption); try (apply u_lnl_keys_NoDup; assumption); try apply hL_Li.
      + disj_tac; try (apply isW_disj; discriminate);
          intros s Hw HL; unfold isW in Hw; subst s; (eapply Wd_EN; [|apply LNp_EN, HL]); cbn; tauto.
    - change (NoDup (cat [(isW "ipsi", map fst (pre ["ipsi"] (u_tumor_items ei ++ u_lnl_items ei)));
                          (isW "noext", map fst (pre ["noext"; "contra"] (u_tumor_items nc)));
                          (isW "ext", map fst (pre ["ext"; "contra"] (u_tumor_items ec)));
                          (isW "contra", map fst (pre ["contra"] (u_lnl_items ec)))])).
      apply NoDup_blocks.
      + blocks_tac; try (apply pre_keys_NoDup); try (apply heads_pre; reflexivity); try (apply heads_pre2; reflexivity);
          try (apply u_tumor_keys_NoDup; assumption); try (apply u_lnl_keys_NoDup; assumption); try (apply u_spread_keys_NoDup; assumption).
      + disj_tac; apply isW_disj; discriminate.
  Qed.
  Lemma m_spread_heads : heads_in (fun s => Wd s \/ EN ei s) (map fst (mid_spread_items m)).
  Proof.
    unfold mid_spread_items, m_mixing_item. fold ei ec nc.
    destruct (ml_mixing m) as [mix|], (ml_symL m); rewrite !map_app; repeat apply heads_in_app;
      try (apply heads_pre; left; cbn; tauto); try (apply heads_pre2; left; cbn; tauto);
      try (eapply heads_in_weaken; [|apply hL_Li]; intros s Hs; right; apply LNp_EN, Hs);
      try (intros k [<-|[]]; left; cbn; tauto).
  Qed.
  Lemma mid_items_NoDup : NoDup (map fst (mid_items m)).
  Proof.
    rewrite mid_items_split. fold ei. rewrite !map_app.
    change (NoDup (cat [((fun s => Wd s \/ EN ei s) : string -> Prop, map fst (mid_spread_items m));
                        (TS ei, map fst (u_dist_items ei));
                        (isW "midext", map fst (m_midext_item m))])).
    apply NoDup_blocks.
    - blocks_tac; try apply m_spread_NoDup; try apply m_spread_heads; try (apply u_dist_keys_NoDup; assumption);
        try apply heads_Di; try (intros k [<-|[]]; reflexivity); repeat constructor; intros [].
    - disj_tac.
      + intros s [Hw|He] Ht; [exact (Wd_TS s Hw Ht) | exact (EN_TS_disj ei Hei s He Ht)].
      + intros s [Hw|He] Hm; unfold isW in Hm; subst s; [unfold Wd in Hw; cbn in Hw; intuition discriminate | apply (in_reserved_not_edge ei "midext" Hei); [cbn; tauto | exact He]].
      + intros s Ht Hm. unfold isW in Hm. subst s. apply (in_reserved_not_tstage ei "midext" Hei); [cbn; tauto | exact Ht].
  Qed.
End MidGet.

Section MidGet2.
  Variable m : midline.
  Hypothesis Hok : mid_names_ok m = true.
  Let ei := ml_ei m.
  Let ec := ml_ec m.
  Let nc := ml_nc m.
  Let Hei : u_names_ok ei = true. Proof. apply (m_ok_parts m Hok). Qed.
  Let Hec : u_names_ok ec = true. Proof. apply (m_ok_parts m Hok). Qed.
  Let Hnc : u_names_ok nc = true. Proof. apply (m_ok_parts m Hok). Qed.
  Let HsymL : b_symL (ml_ext m) = ml_symL m. Proof. apply (m_ok_parts m Hok). Qed.

  Definition m_tumor_nested_form : pdict :=
    match ml_mixing m with
    | Some mix => [(["ipsi"], Node (Tn ei)); (["contra"], Node (Tn nc)); (["mixing"], Leaf mix)]
    | None => [(["ipsi"], Node (Tn ei)); (["noext"], Node [(["contra"], Node (Tn nc))]); (["ext"], Node [(["contra"], Node (Tn ec))])]
    end.
  Lemma m_tumor_nested : m_get_tumor_spread_params m false = m_tumor_nested_form.
  Proof.
    unfold m_get_tumor_spread_params, m_tumor_nested_form, maybe_flatten.
    change (b_ipsi (ml_ext m)) with ei. change (b_contra (ml_noext m)) with nc. change (b_contra (ml_ext m)) with ec.
    rewrite (u_tumor_nested ei Hei), (u_tumor_nested nc Hnc), (u_tumor_nested ec Hec). destruct (ml_mixing m); reflexivity.
  Qed.
  Definition m_lnl_nested_form : pdict :=
    if ml_symL m then Ln ei else [(["ipsi"], Node (Ln ei)); (["contra"], Node (Ln ec))].
  Lemma m_lnl_nested : m_get_lnl_spread_params m false = Some m_lnl_nested_form.
  Proof.
    unfold m_get_lnl_spread_params, m_lnl_nested_form, maybe_flatten, b_get_lnl_spread_params.
    change (b_ipsi (ml_ext m)) with ei. change (b_contra (ml_ext m)) with ec.
    rewrite (u_lnl_nested ei Hei), (u_lnl_nested ec Hec), HsymL. destruct (ml_symL m); [rewrite pd_sub_here|]; reflexivity.
  Qed.

  (** the nested spread dictionary *)
  Definition m_spread_nested_form : pdict :=
    match ml_mixing m, ml_symL m with
    | Some mix, true => [(["ipsi"], Node (Tn ei)); (["contra"], Node (Tn nc)); (["mixing"], Leaf mix)] ++ Ln ei
    | Some mix, false => [(["ipsi"], Node (Tn ei ++ Ln ei)); (["contra"], Node (Tn nc ++ Ln ec)); (["mixing"], Leaf mix)]
    | None, true => [(["ipsi"], Node (Tn ei)); (["noext"], Node [(["contra"], Node (Tn nc))]); (["ext"], Node [(["contra"], Node (Tn ec))])] ++ Ln ei
    | None, false => [(["ipsi"], Node (Tn ei ++ Ln ei)); (["noext"], Node [(["contra"], Node (Tn nc))]);
                      (["ext"], Node [(["contra"], Node (Tn ec))]); (["contra"], Node (Ln ec))]
    end.
  Lemma Tn_Ln_update u : u_names_ok u = true -> kw_update (Ln u) (Tn u) = Tn u ++ Ln u.
  Proof.
    intros H. apply (kw_update_heads (LNp u) (TNp u)); [apply NoDup_Ln, H | apply hL_Ln | apply hT_Tn |].
    intros s HL HT. exact (TNp_LNp_disj u H s HT HL).
  Qed.
  Lemma Tn_nc_Ln_ec_update : kw_update (Ln ec) (Tn nc) = Tn nc ++ Ln ec.
  Proof.
    apply (kw_update_heads (LNp ec) (TNp nc)); [apply NoDup_Ln, Hec | apply hL_Ln | apply hT_Tn |].
    intros s HL HT. apply (LNp_ec m Hok) in HL. apply (TNp_nc m Hok) in HT. exact (TNp_LNp_disj ei Hei s HT HL).
  Qed.
  Lemma m_spread_nested : m_get_spread_params m false = Some m_spread_nested_form.
  Proof.
    unfold m_get_spread_params, m_spread_nested_form. rewrite m_tumor_nested, m_lnl_nested. unfold m_tumor_nested_form, m_lnl_nested_form, maybe_flatten.
    destruct (ml_mixing m) as [mix|], (ml_symL m); f_equal.
    - apply (kw_update_heads (LNp ei) Wd); [apply NoDup_Ln, Hei | apply hL_Ln | intros k [<-|[<-|[<-|[]]]]; cbn; tauto |].
      intros s HL Hw. apply (Wd_EN m Hok s Hw). apply LNp_EN, HL.
    - unfold kw_has. cbn [kw_get path_eqb String.eqb Ascii.eqb Bool.eqb andb].
      rewrite pd_sub_here, pd_update_at_here. rewrite pd_sub_skip by discriminate. rewrite pd_sub_here.
      rewrite pd_update_at_skip by discriminate. rewrite pd_update_at_here.
      rewrite (Tn_Ln_update ei Hei), Tn_nc_Ln_ec_update. reflexivity.
    - apply (kw_update_heads (LNp ei) Wd); [apply NoDup_Ln, Hei | apply hL_Ln | intros k [<-|[<-|[<-|[]]]]; cbn; tauto |].
      intros s HL Hw. apply (Wd_EN m Hok s Hw). apply LNp_EN, HL.
    - unfold kw_has. cbn [kw_get path_eqb String.eqb Ascii.eqb Bool.eqb andb kw_set].
      rewrite pd_sub_here, pd_update_at_here. rewrite pd_sub_skip by discriminate. rewrite pd_sub_here.
      rewrite !pd_update_at_skip by discriminate. rewrite pd_update_at_here.
      rewrite (Tn_Ln_update ei Hei). change (kw_update (Ln ec) []) with (dict_of (Ln ec)).
      rewrite dict_of_NoDup_id by (apply NoDup_Ln, Hec). reflexivity.
  Qed.
  Lemma flat_mid_tumor X Y mix :
    flat_items_dict [(["ipsi"], Node X); (["contra"], Node Y); (["mixing"], Leaf mix)]
    = pre ["ipsi"] (flat_items_dict X) ++ pre ["contra"] (flat_items_dict Y) ++ [(["mixing"], mix)].
  Proof. rewrite !flat_items_dict_cons_node, flat_items_dict_cons_leaf. reflexivity. Qed.
  Lemma flat_nested_contra h X : flat_items_dict [(["contra"], Node X)] = pre ["contra"] (flat_items_dict X) /\
    pre [h] (pre ["contra"] (flat_items_dict X)) = pre [h; "contra"] (flat_items_dict X).
  Proof. split; [apply flat_items_dict_one | apply pre_pre]. Qed.
  Lemma m_spread_nested_flat : flat_items_dict m_spread_nested_form = mid_spread_items m.
  Proof.
    unfold m_spread_nested_form, mid_spread_items, m_mixing_item. fold ei ec nc.
    destruct (ml_mixing m) as [mix|], (ml_symL m).
    - rewrite flat_items_dict_app, flat_mid_tumor, !flat_Tn, flat_Ln, <- !app_assoc. reflexivity.
    - rewrite flat_mid_tumor, !flat_items_dict_app, !flat_Tn, !flat_Ln. reflexivity.
    - rewrite flat_items_dict_app, !flat_items_dict_cons_node.
      change (flat_items_dict []) with (@nil (path * Qc)). rewrite !app_nil_r, !pre_pre, !flat_Tn, flat_Ln, <- !app_assoc. reflexivity.
    - rewrite !flat_items_dict_cons_node.
      change (flat_items_dict []) with (@nil (path * Qc)). rewrite !app_nil_r, !pre_pre, flat_items_dict_app, !flat_Tn, !flat_Ln. reflexivity.
  Qed.
  Lemma m_spread_flat : m_get_spread_params m true = Some (leaves (mid_spread_items m)).
  Proof.
    pose proof m_spread_nested as Hn. unfold m_get_spread_params in *. rewrite m_tumor_nested, m_lnl_nested in *.
    unfold maybe_flatten in *. injection Hn as Hn. f_equal. rewrite Hn.
    rewrite flatten_spec; rewrite m_spread_nested_flat; [reflexivity | apply m_spread_NoDup, Hok].
  Qed.

  Lemma m_get_params_flat : m_get_params m true = Some (leaves (mid_items m)).
  Proof.
    unfold m_get_params. rewrite m_spread_flat. f_equal.
    unfold m_get_distribution_params, b_get_distribution_params, maybe_flatten. change (b_ipsi (ml_ext m)) with ei.
    rewrite (u_dist_flat ei Hei). rewrite !(flatten_leaves (u_dist_items ei)) by (apply u_dist_keys_NoDup, Hei).
    pose proof (mid_items_NoDup m Hok) as Hnd. rewrite mid_items_split in *. fold ei in Hnd |- *. rewrite !map_app in Hnd.
    change (kw_update (leaves (mid_spread_items m)) []) with (dict_of (leaves (mid_spread_items m))).
    rewrite dict_of_NoDup_id by (rewrite leaves_keys; apply m_spread_NoDup, Hok).
    rewrite kw_update_leaves.
    rewrite kw_update_fresh; [| apply u_dist_keys_NoDup, Hei |].
    - change (Leaf (ml_midext m)) with (Leaf (snd (["midext"; "prob"], ml_midext m))).
      rewrite kw_set_leaves, kw_set_fresh.
      + rewrite flatten_leaves, <- app_assoc; [reflexivity|]. rewrite <- app_assoc, !map_app. exact Hnd.
      + apply kw_get_In_None. rewrite map_app. intros Hin.
        rewrite app_assoc in Hnd. apply (NoDup_app_disj _ _ ["midext"; "prob"] Hnd); [rewrite <- map_app; rewrite map_app; exact Hin | left; reflexivity].
    - intros k Hk Hk'. apply NoDup_app_r in Hnd as Hnd2. rewrite app_assoc in Hnd.
      apply NoDup_app_l in Hnd. exact (NoDup_app_disj _ _ k Hnd Hk' Hk).
  Qed.

  Theorem m_got_spec : m_got m = Some (mid_items m).
  Proof. unfold m_got. rewrite m_get_params_flat. cbn [option_map]. rewrite items_leaves. reflexivity. Qed.

  Theorem m_nested_flattens_to_flat : option_map flat_items_dict (m_get_params m false) = m_got m.
  Proof.
    rewrite m_got_spec, mid_items_split. unfold m_get_params. rewrite m_spread_nested. cbn [option_map]. f_equal.
    unfold m_get_distribution_params, b_get_distribution_params, maybe_flatten. change (b_ipsi (ml_ext m)) with ei.
    rewrite (u_dist_nested ei Hei).
    change (kw_update m_spread_nested_form []) with (dict_of m_spread_nested_form).
    assert (Hh : heads_in (fun s => Wd s \/ EN ei s) (map fst m_spread_nested_form)).
    { unfold m_spread_nested_form. destruct (ml_mixing m) as [mix|], (ml_symL m); rewrite ?map_app; repeat apply heads_in_app;
        try (eapply heads_in_weaken; [|apply hL_Ln]; intros s Hs; right; apply LNp_EN, Hs);
        intros k Hk; cbn in Hk; repeat (destruct Hk as [<-|Hk]; [left; cbn; tauto|]); destruct Hk. }
    assert (Hnd : NoDup (map fst m_spread_nested_form)).
    { unfold m_spread_nested_form. destruct (ml_mixing m) as [mix|], (ml_symL m); rewrite ?map_app.
      - apply (NoDup_app_heads Wd (LNp ei)); [repeat constructor; cbn; intuition discriminate | apply NoDup_Ln, Hei | intros k Hk; cbn in Hk; repeat (destruct Hk as [<-|Hk]; [cbn; tauto|]); destruct Hk | apply hL_Ln |].
        intros s Hw HL. apply (Wd_EN m Hok s Hw), LNp_EN, HL.
      - repeat constructor; cbn; intuition discriminate.
      - apply (NoDup_app_heads Wd (LNp ei)); [repeat constructor; cbn; intuition discriminate | apply NoDup_Ln, Hei | intros k Hk; cbn in Hk; repeat (destruct Hk as [<-|Hk]; [cbn; tauto|]); destruct Hk | apply hL_Ln |].
        intros s Hw HL. apply (Wd_EN m Hok s Hw), LNp_EN, HL.
      - repeat constructor; cbn; intuition discriminate. }
    rewrite dict_of_NoDup_id by exact Hnd.
    rewrite (kw_update_heads (TS ei) (fun s => Wd s \/ EN ei s)); [| apply NoDup_Dn, Hei | apply heads_Dn | exact Hh |].
    - rewrite kw_set_fresh.
      + rewrite !flat_items_dict_app, m_spread_nested_flat, flat_Dn. rewrite flat_items_dict_cons_leaf.
        change (flat_items_dict []) with (@nil (path * Qc)). rewrite <- app_assoc. reflexivity.
      + apply kw_get_In_None. rewrite map_app, in_app_iff. intros [Hin|Hin].
        * specialize (Hh _ Hin). cbn in Hh. destruct Hh as [Hw|He]; [unfold Wd in Hw; cbn in Hw; intuition discriminate|].
          apply (in_reserved_not_edge ei "midext" Hei); [cbn; tauto | exact He].
        * apply heads_Dn in Hin. cbn in Hin. apply (in_reserved_not_tstage ei "midext" Hei); [cbn; tauto | exact Hin].
    - intros s Ht [Hw|He]; [exact (Wd_TS m Hok s Hw Ht) | exact (EN_TS_disj ei Hei s He Ht)].
  Qed.
End MidGet2.

Theorem mid_names_nodup : C10_mid_names_nodup_stmt.
Proof. intros m H. split; [apply m_got_spec, H | apply mid_items_NoDup, H]. Qed.
Theorem mid_nested_flattens_to_flat : C10_mid_nested_flattens_to_flat_stmt.
Proof. intros m H. apply m_nested_flattens_to_flat, H. Qed.

(** * Setters: what a successful call does to the leaves that get_params reads *)
Definition T := is_tumor_spread.
Definition L := sel_lnl.

Lemma leaf_step_inv sel u a kwL u' r : u_names_ok u = true ->
  lift_graph u (graph_set_params_sel sel (u_graph u) a kwL) = (u', Some r) ->
  exists qs, all_unit (plan (u_lk kwL) (u_sel_items sel u) a) = Some qs /\ u' = u_put_sel sel u qs
             /\ r = skipn (length (u_sel_items sel u)) a.
Proof.
  intros H Hr. destruct (all_unit (plan (u_lk kwL) (u_sel_items sel u) a)) as [qs|] eqn:E.
  - rewrite (leaf_step_ok sel u a kwL qs H E) in Hr. injection Hr as <- <-. exists qs. repeat split.
  - pose proof (leaf_step_fail sel u a kwL H E) as Hf. rewrite Hr in Hf. discriminate.
Qed.
Lemma u_set_tumor_inv u a kw u' r : u_names_ok u = true -> u_set_tumor_spread_params u a kw = (u', Some r) ->
  exists qs, all_unit (plan (u_lk kw) (u_tumor_items u) a) = Some qs /\ u' = u_put_sel T u qs /\ r = skipn (length (u_tumor_items u)) a.
Proof. apply (leaf_step_inv is_tumor_spread). Qed.
Lemma u_set_lnl_inv u a kw u' r : u_names_ok u = true -> u_set_lnl_spread_params u a kw = (u', Some r) ->
  exists qs, all_unit (plan (u_lk kw) (u_lnl_items u) a) = Some qs /\ u' = u_put_sel L u qs /\ r = skipn (length (u_lnl_items u)) a.
Proof. apply (leaf_step_inv sel_lnl). Qed.

(** facts about u_put_sel that do not depend on the values *)
Lemma put_T_lnl_items u qs : u_lnl_items (u_put_sel T u qs) = u_lnl_items u.
Proof. apply (u_sel_items_put_other is_tumor_spread sel_lnl); [apply kind_sel_lnl | apply tumor_not_lnl]. Qed.
Lemma put_L_tumor_items u qs : u_tumor_items (u_put_sel L u qs) = u_tumor_items u.
Proof. apply (u_sel_items_put_other sel_lnl is_tumor_spread); [apply kind_sel_tumor | apply lnl_not_tumor]. Qed.
Lemma put_T_tumor_items u qs : length qs = length (u_tumor_items u) ->
  u_tumor_items (u_put_sel T u qs) = combine (map fst (u_tumor_items u)) qs.
Proof. apply (u_sel_items_put is_tumor_spread), kind_sel_tumor. Qed.
Lemma put_L_lnl_items u qs : length qs = length (u_lnl_items u) ->
  u_lnl_items (u_put_sel L u qs) = combine (map fst (u_lnl_items u)) qs.
Proof. apply (u_sel_items_put sel_lnl), kind_sel_lnl. Qed.
Lemma put_dist_items sel u qs : u_dist_items (u_put_sel sel u qs) = u_dist_items u.
Proof. reflexivity. Qed.
Lemma put_dists sel u qs : u_dists (u_put_sel sel u qs) = u_dists u /\ u_maxt (u_put_sel sel u qs) = u_maxt u.
Proof. split; reflexivity. Qed.

(** the four leaves of ext / noext and the scalar fields *)
Definition leaf4 (m : midline) : uni * uni * uni * uni := (ml_ei m, ml_ec m, ml_ni m, ml_nc m).

(** frame lemmas for the record updaters (all by computation) *)
Lemma ml_ext_with_ext m b : ml_ext (ml_with_ext m b) = b. Proof. reflexivity. Qed.
Lemma ml_noext_with_ext m b : ml_noext (ml_with_ext m b) = ml_noext m. Proof. reflexivity. Qed.
Lemma ml_central_with_ext m b : ml_central (ml_with_ext m b) = ml_central m. Proof. reflexivity. Qed.
Lemma ml_unknown_with_ext m b : ml_unknown (ml_with_ext m b) = ml_unknown m. Proof. reflexivity. Qed.
Lemma ml_mixing_with_ext m b : ml_mixing (ml_with_ext m b) = ml_mixing m. Proof. reflexivity. Qed.
Lemma ml_midext_with_ext m b : ml_midext (ml_with_ext m b) = ml_midext m. Proof. reflexivity. Qed.
Lemma ml_symL_with_ext m b : ml_symL (ml_with_ext m b) = ml_symL m. Proof. reflexivity. Qed.
Lemma ml_evo_with_ext m b : ml_evo (ml_with_ext m b) = ml_evo m. Proof. reflexivity. Qed.
Lemma ml_ext_with_noext m b : ml_ext (ml_with_noext m b) = ml_ext m. Proof. reflexivity. Qed.
Lemma ml_noext_with_noext m b : ml_noext (ml_with_noext m b) = b. Proof. reflexivity. Qed.
Lemma ml_central_with_noext m b : ml_central (ml_with_noext m b) = ml_central m. Proof. reflexivity. Qed.
Lemma ml_unknown_with_noext m b : ml_unknown (ml_with_noext m b) = ml_unknown m. Proof. reflexivity. Qed.
Lemma ml_mixing_with_noext m b : ml_mixing (ml_with_noext m b) = ml_mixing m. Proof. reflexivity. Qed.
Lemma ml_midext_with_noext m b : ml_midext (ml_with_noext m b) = ml_midext m. Proof. reflexivity. Qed.
Lemma ml_symL_with_noext m b : ml_symL (ml_with_noext m b) = ml_symL m. Proof. reflexivity. Qed.
Lemma ml_evo_with_noext m b : ml_evo (ml_with_noext m b) = ml_evo m. Proof. reflexivity. Qed.
Lemma ml_ext_with_central m b : ml_ext (ml_with_central m b) = ml_ext m. Proof. reflexivity. Qed.
Lemma ml_noext_with_central m b : ml_noext (ml_with_central m b) = ml_noext m. Proof. reflexivity. Qed.
Lemma ml_central_with_central m b : ml_central (ml_with_central m b) = Some b. Proof. reflexivity. Qed.
Lemma ml_unknown_with_central m b : ml_unknown (ml_with_central m b) = ml_unknown m. Proof. reflexivity. Qed.
Lemma ml_mixing_with_central m b : ml_mixing (ml_with_central m b) = ml_mixing m. Proof. reflexivity. Qed.
Lemma ml_midext_with_central m b : ml_midext (ml_with_central m b) = ml_midext m. Proof. reflexivity. Qed.
Lemma ml_symL_with_central m b : ml_symL (ml_with_central m b) = ml_symL m. Proof. reflexivity. Qed.
Lemma ml_evo_with_central m b : ml_evo (ml_with_central m b) = ml_evo m. Proof. reflexivity. Qed.
Lemma ml_ext_with_unknown m b : ml_ext (ml_with_unknown m b) = ml_ext m. Proof. reflexivity. Qed.
Lemma ml_noext_with_unknown m b : ml_noext (ml_with_unknown m b) = ml_noext m. Proof. reflexivity. Qed.
Lemma ml_central_with_unknown m b : ml_central (ml_with_unknown m b) = ml_central m. Proof. reflexivity. Qed.
Lemma ml_unknown_with_unknown m b : ml_unknown (ml_with_unknown m b) = Some b. Proof. reflexivity. Qed.
Lemma ml_mixing_with_unknown m b : ml_mixing (ml_with_unknown m b) = ml_mixing m. Proof. reflexivity. Qed.
Lemma ml_midext_with_unknown m b : ml_midext (ml_with_unknown m b) = ml_midext m. Proof. reflexivity. Qed.
Lemma ml_symL_with_unknown m b : ml_symL (ml_with_unknown m b) = ml_symL m. Proof. reflexivity. Qed.
Lemma ml_evo_with_unknown m b : ml_evo (ml_with_unknown m b) = ml_evo m. Proof. reflexivity. Qed.
Lemma ml_ext_with_mixing m b : ml_ext (ml_with_mixing m b) = ml_ext m. Proof. reflexivity. Qed.
Lemma ml_noext_with_mixing m b : ml_noext (ml_with_mixing m b) = ml_noext m. Proof. reflexivity. Qed.
Lemma ml_central_with_mixing m b : ml_central (ml_with_mixing m b) = ml_central m. Proof. reflexivity. Qed.
Lemma ml_unknown_with_mixing m b : ml_unknown (ml_with_mixing m b) = ml_unknown m. Proof. reflexivity. Qed.
Lemma ml_mixing_with_mixing m b : ml_mixing (ml_with_mixing m b) = Some b. Proof. reflexivity. Qed.
Lemma ml_midext_with_mixing m b : ml_midext (ml_with_mixing m b) = ml_midext m. Proof. reflexivity. Qed.
Lemma ml_symL_with_mixing m b : ml_symL (ml_with_mixing m b) = ml_symL m. Proof. reflexivity. Qed.
Lemma ml_evo_with_mixing m b : ml_evo (ml_with_mixing m b) = ml_evo m. Proof. reflexivity. Qed.
Lemma ml_ext_with_midext m b : ml_ext (ml_with_midext m b) = ml_ext m. Proof. reflexivity. Qed.
Lemma ml_noext_with_midext m b : ml_noext (ml_with_midext m b) = ml_noext m. Proof. reflexivity. Qed.
Lemma ml_central_with_midext m b : ml_central (ml_with_midext m b) = ml_central m. Proof. reflexivity. Qed.
Lemma ml_unknown_with_midext m b : ml_unknown (ml_with_midext m b) = ml_unknown m. Proof. reflexivity. Qed.
Lemma ml_mixing_with_midext m b : ml_mixing (ml_with_midext m b) = ml_mixing m. Proof. reflexivity. Qed.
Lemma ml_midext_with_midext m b : ml_midext (ml_with_midext m b) = b. Proof. reflexivity. Qed.
Lemma ml_symL_with_midext m b : ml_symL (ml_with_midext m b) = ml_symL m. Proof. reflexivity. Qed.
Lemma ml_evo_with_midext m b : ml_evo (ml_with_midext m b) = ml_evo m. Proof. reflexivity. Qed.
Lemma b_ipsi_with_ipsi b u : b_ipsi (b_with_ipsi b u) = u. Proof. reflexivity. Qed.
Lemma b_contra_with_ipsi b u : b_contra (b_with_ipsi b u) = b_contra b. Proof. reflexivity. Qed.
Lemma b_ipsi_with_contra b u : b_ipsi (b_with_contra b u) = b_ipsi b. Proof. reflexivity. Qed.
Lemma b_contra_with_contra b u : b_contra (b_with_contra b u) = u. Proof. reflexivity. Qed.
Lemma b_symT_with_ipsi b u : b_symT (b_with_ipsi b u) = b_symT b. Proof. reflexivity. Qed.
Lemma b_symL_with_ipsi b u : b_symL (b_with_ipsi b u) = b_symL b. Proof. reflexivity. Qed.
Lemma b_symT_with_contra b u : b_symT (b_with_contra b u) = b_symT b. Proof. reflexivity. Qed.
Lemma b_symL_with_contra b u : b_symL (b_with_contra b u) = b_symL b. Proof. reflexivity. Qed.
Global Hint Rewrite ml_ext_with_ext ml_noext_with_ext ml_central_with_ext ml_unknown_with_ext ml_mixing_with_ext ml_midext_with_ext ml_symL_with_ext ml_evo_with_ext ml_ext_with_noext ml_noext_with_noext ml_central_with_noext ml_unknown_with_noext ml_mixing_with_noext ml_midext_with_noext ml_symL_with_noext ml_evo_with_noext ml_ext_with_central ml_noext_with_central ml_central_with_central ml_unknown_with_central ml_mixing_with_central ml_midext_with_central ml_symL_with_central ml_evo_with_central ml_ext_with_unknown ml_noext_with_unknown ml_central_with_unknown ml_unknown_with_unknown ml_mixing_with_unknown ml_midext_with_unknown ml_symL_with_unknown ml_evo_with_unknown ml_ext_with_mixing ml_noext_with_mixing ml_central_with_mixing ml_unknown_with_mixing ml_mixing_with_mixing ml_midext_with_mixing ml_symL_with_mixing ml_evo_with_mixing ml_ext_with_midext ml_noext_with_midext ml_central_with_midext ml_unknown_with_midext ml_mixing_with_midext ml_midext_with_midext ml_symL_with_midext ml_evo_with_midext b_ipsi_with_ipsi b_contra_with_ipsi b_ipsi_with_contra b_contra_with_contra b_symT_with_ipsi b_symL_with_ipsi b_symT_with_contra b_symL_with_contra : mlf.

Definition X4 : list string := ["ipsi"; "noext"; "ext"; "contra"].

(** central is handled first and never touches ext / noext *)
Lemma central_step_frame (m : midline) (f : bilateral -> bilateral * bool) m1 ok1 :
  match ml_central m with
  | None => (m, true)
  | Some c => let '(c', ok) := f c in (ml_with_central m c', ok)
  end = (m1, ok1) ->
  ml_ext m1 = ml_ext m /\ ml_noext m1 = ml_noext m /\ ml_mixing m1 = ml_mixing m /\ ml_midext m1 = ml_midext m
  /\ ml_symL m1 = ml_symL m /\ ml_unknown m1 = ml_unknown m.
Proof.
  destruct (ml_central m) as [c|].
  - destruct (f c) as [c' ok]. intros [= <- _]. repeat split.
  - intros [= <- _]. repeat split.
Qed.

Section MidTumor.
  Variables (m : midline) (a : args) (kw : kwargs) (split : list (string * kwargs)) (glob : kwargs).
  Hypothesis Hok : mid_set_ok m = true.
  Hypothesis Hu : unflatten_and_split kw X4 = (split, glob).
  Let ei := ml_ei m.
  Let ec := ml_ec m.
  Let ni := ml_ni m.
  Let nc := ml_nc m.
  Let ipsi_kw := obj_kwargs "ipsi" split glob.
  Let Hok' : mid_names_ok m = true. Proof. unfold mid_set_ok in Hok. rewrite !andb_true_iff in Hok. apply Hok. Qed.
  Let Hei : u_names_ok ei = true. Proof. apply (m_ok_parts m Hok'). Qed.
  Let Hec : u_names_ok ec = true. Proof. apply (m_ok_parts m Hok'). Qed.
  Let Hnc : u_names_ok nc = true. Proof. apply (m_ok_parts m Hok'). Qed.
  Let Hni : u_names_ok ni = true. Proof. unfold mid_set_ok in Hok. rewrite !andb_true_iff in Hok. apply Hok. Qed.
  Lemma len_T_ni : length (u_tumor_items ni) = length (u_tumor_items ei).
  Proof.
    unfold mid_set_ok, same_shape in Hok. rewrite !andb_true_iff in Hok. destruct Hok as [_ [Hb Hs]].
    apply shape_eqb_shape in Hs. apply Nat.eqb_eq in Hb. fold ei ni in Hs, Hb.
    rewrite <- (map_length fst (u_tumor_items ni)), <- (map_length fst (u_tumor_items ei)). f_equal.
    unfold u_tumor_items, u_tri, g_tri. rewrite Hb. symmetry. apply shape_sel_keys; [apply kind_sel_tumor | exact Hs].
  Qed.

  (** the part shared by both variants: central, ext.ipsi, noext.ipsi *)
  Lemma m_T_inv_common m' r : m_set_tumor_spread_params m a kw = (m', Some r) ->
    exists qI m3,
      all_unit (plan (u_lk ipsi_kw) (u_tumor_items ei) a) = Some qI /\
      ml_ei m3 = u_put_sel T ei qI /\ ml_ec m3 = ec /\ ml_nc m3 = nc /\
      ml_mixing m3 = ml_mixing m /\ ml_midext m3 = ml_midext m /\ ml_symL m3 = ml_symL m /\
      b_symL (ml_ext m3) = b_symL (ml_ext m) /\
      (let a3 := skipn (length (u_tumor_items ei)) a in
       match ml_mixing m3 with
       | Some cur =>
           let contra_kw := obj_kwargs "contra" split glob in
           let '(nc', o4) := u_set_tumor_spread_params (b_contra (ml_noext m3)) a3 contra_kw in
           let m4 := ml_with_noext m3 (b_with_contra (ml_noext m3) nc') in
           match o4 with
           | None => (m4, None)
           | Some a4 =>
               let '(first, a5) := popfirst a4 in
               let mp := match kw_get ["mixing"] glob with Some v => v | None => val_or first cur end in
               match check_unit mp with
               | None => (m4, None)
               | Some mix =>
                   let m5 := ml_with_mixing m4 mix in
                   let '(ec', ok6) := ok_of (u_set_tumor_spread_params (b_contra (ml_ext m5)) [] (mixed_kwargs mix m5)) in
                   let m6 := ml_with_ext m5 (b_with_contra (ml_ext m5) ec') in
                   (m6, if ok6 then Some a5 else None)
               end
           end
       | None =>
           let '(noext_split, _) := unflatten_and_split (sub_kwargs "noext" split) ["contra"] in
           let noext_contra_kw := obj_kwargs "contra" noext_split glob in
           let '(nc', o4) := u_set_tumor_spread_params (b_contra (ml_noext m3)) a3 noext_contra_kw in
           let m4 := ml_with_noext m3 (b_with_contra (ml_noext m3) nc') in
           match o4 with
           | None => (m4, None)
           | Some a4 =>
               let '(ext_split, _) := unflatten_and_split (sub_kwargs "ext" split) ["contra"] in
               let ext_contra_kw := obj_kwargs "contra" ext_split glob in
               let '(ec', o5) := u_set_tumor_spread_params (b_contra (ml_ext m4)) a4 ext_contra_kw in
               (ml_with_ext m4 (b_with_contra (ml_ext m4) ec'), o5)
           end
       end) = (m', Some r).
  Proof.
    intros H. unfold m_set_tumor_spread_params in H. fold X4 in H. rewrite Hu in H. fold ipsi_kw in H.
    destruct (match ml_central m with
              | None => (m, true)
              | Some c => let '(c', ok) := ok_of (b_set_tumor_spread_params c a ipsi_kw) in (ml_with_central m c', ok)
              end) as [m1 ok1] eqn:Ec.
    destruct (central_step_frame m (fun c => ok_of (b_set_tumor_spread_params c a ipsi_kw)) m1 ok1 Ec) as (He1 & Hn1 & Hm1 & Hd1 & Hs1 & _).
    destruct ok1; cbn [negb] in H; [|discriminate].
    rewrite He1 in H.
    destruct (u_set_tumor_spread_params (b_ipsi (ml_ext m)) a ipsi_kw) as [ei' [r2|]] eqn:E2; cbn [ok_of fst snd negb] in H; [|discriminate].
    destruct (u_set_tumor_inv ei a ipsi_kw ei' r2 Hei E2) as (qI & HqI & -> & ->).
    autorewrite with mlf in H. rewrite Hn1 in H.
    destruct (u_set_tumor_spread_params (b_ipsi (ml_noext m)) a ipsi_kw) as [ni' [a3|]] eqn:E3; [|discriminate].
    destruct (u_set_tumor_inv ni a ipsi_kw ni' a3 Hni E3) as (qN & _ & -> & ->). rewrite len_T_ni in H.
    exists qI, (ml_with_noext (ml_with_ext m1 (b_with_ipsi (ml_ext m) (u_put_sel T ei qI))) (b_with_ipsi (ml_noext m) (u_put_sel T ni qN))).
    split; [exact HqI|]. unfold ml_ei, ml_ec, ml_nc. autorewrite with mlf.
    repeat split; try assumption; try reflexivity.
  Qed.
End MidTumor.

Section MidTumor2.
  Variables (m : midline) (a : args) (kw : kwargs) (split : list (string * kwargs)) (glob : kwargs).
  Hypothesis Hok : mid_set_ok m = true.
  Hypothesis Hu : unflatten_and_split kw X4 = (split, glob).
  Let ei := ml_ei m.
  Let ec := ml_ec m.
  Let nc := ml_nc m.
  Let ipsi_kw := obj_kwargs "ipsi" split glob.
  Let Hok' : mid_names_ok m = true. Proof. unfold mid_set_ok in Hok. rewrite !andb_true_iff in Hok. apply Hok. Qed.
  Let Hec : u_names_ok ec = true. Proof. apply (m_ok_parts m Hok'). Qed.
  Let Hnc : u_names_ok nc = true. Proof. apply (m_ok_parts m Hok'). Qed.

  Lemma m_T_inv_mix cur m' r : ml_mixing m = Some cur -> m_set_tumor_spread_params m a kw = (m', Some r) ->
    exists qI qC mix qE,
      all_unit (plan (u_lk ipsi_kw) (u_tumor_items ei) a) = Some qI /\
      all_unit (plan (u_lk (obj_kwargs "contra" split glob)) (u_tumor_items nc) (skipn (length (u_tumor_items ei)) a)) = Some qC /\
      check_unit (match kw_get ["mixing"] glob with
                  | Some v => v
                  | None => val_or (hd_error (skipn (length (u_tumor_items ei) + length (u_tumor_items nc)) a)) cur
                  end) = Some mix /\
      ml_ei m' = u_put_sel T ei qI /\ ml_nc m' = u_put_sel T nc qC /\ ml_ec m' = u_put_sel T ec qE /\
      ml_mixing m' = Some mix /\ ml_midext m' = ml_midext m /\ ml_symL m' = ml_symL m /\
      b_symL (ml_ext m') = b_symL (ml_ext m) /\
      r = skipn (length (u_tumor_items ei) + length (u_tumor_items nc) + 1) a.
  Proof.
    intros Hmix H. destruct (m_T_inv_common m a kw split glob Hok Hu m' r H) as (qI & m3 & HqI & Hei3 & Hec3 & Hnc3 & Hm3 & Hd3 & Hs3 & Hb3 & Ht).
    fold ei ec nc in Hei3, Hec3, Hnc3. cbv zeta in Ht. rewrite Hm3, Hmix in Ht.
    change (b_contra (ml_noext m3)) with (ml_nc m3) in Ht. rewrite Hnc3 in Ht.
    match type of Ht with context [u_set_tumor_spread_params nc ?x ?k] =>
      destruct (u_set_tumor_spread_params nc x k) as [nc' [a4|]] eqn:E4 end; cbv beta iota zeta in Ht; [|discriminate].
    destruct (u_set_tumor_inv nc _ _ nc' a4 Hnc E4) as (qC & HqC & -> & ->).
    rewrite popfirst_eq in Ht. cbv beta iota zeta in Ht. destruct (check_unit _) as [mix|] eqn:Emix; cbv beta iota zeta in Ht; [|discriminate].
    match type of Ht with context [u_set_tumor_spread_params ?u [] ?k] =>
      destruct (u_set_tumor_spread_params u [] k) as [ec' [r6|]] eqn:E6 end; cbn [ok_of fst snd] in Ht; cbv beta iota zeta in Ht; [|discriminate].
    autorewrite with mlf in E6. change (b_contra (ml_ext m3)) with (ml_ec m3) in E6. rewrite Hec3 in E6.
    destruct (u_set_tumor_inv ec [] _ ec' r6 Hec E6) as (qE & _ & -> & _).
    injection Ht as <- <-. exists qI, qC, mix, qE.
    rewrite skipn_skipn in Emix. subst ei ec nc. unfold ml_ei, ml_ec, ml_nc in *. autorewrite with mlf.
    repeat split; try assumption; try reflexivity.
    rewrite tl_skipn, skipn_skipn. f_equal. lia.
  Qed.

  (** without the mixing parameter *)
  Lemma m_T_inv_nomix m' r : ml_mixing m = None -> m_set_tumor_spread_params m a kw = (m', Some r) ->
    exists qI qC qE nsplit esplit ng eg,
      unflatten_and_split (sub_kwargs "noext" split) ["contra"] = (nsplit, ng) /\
      unflatten_and_split (sub_kwargs "ext" split) ["contra"] = (esplit, eg) /\
      all_unit (plan (u_lk ipsi_kw) (u_tumor_items ei) a) = Some qI /\
      all_unit (plan (u_lk (obj_kwargs "contra" nsplit glob)) (u_tumor_items nc) (skipn (length (u_tumor_items ei)) a)) = Some qC /\
      all_unit (plan (u_lk (obj_kwargs "contra" esplit glob)) (u_tumor_items ec)
                  (skipn (length (u_tumor_items ei) + length (u_tumor_items nc)) a)) = Some qE /\
      ml_ei m' = u_put_sel T ei qI /\ ml_nc m' = u_put_sel T nc qC /\ ml_ec m' = u_put_sel T ec qE /\
      ml_mixing m' = None /\ ml_midext m' = ml_midext m /\ ml_symL m' = ml_symL m /\
      b_symL (ml_ext m') = b_symL (ml_ext m) /\
      r = skipn (length (u_tumor_items ei) + length (u_tumor_items nc) + length (u_tumor_items ec)) a.
  Proof.
    intros Hmix H. destruct (m_T_inv_common m a kw split glob Hok Hu m' r H) as (qI & m3 & HqI & Hei3 & Hec3 & Hnc3 & Hm3 & Hd3 & Hs3 & Hb3 & Ht).
    fold ei ec nc in Hei3, Hec3, Hnc3. cbv zeta in Ht. rewrite Hm3, Hmix in Ht.
    destruct (unflatten_and_split (sub_kwargs "noext" split) ["contra"]) as [nsplit ng] eqn:En.
    change (b_contra (ml_noext m3)) with (ml_nc m3) in Ht. rewrite Hnc3 in Ht.
    match type of Ht with context [u_set_tumor_spread_params nc ?x ?k] =>
      destruct (u_set_tumor_spread_params nc x k) as [nc' [a4|]] eqn:E4 end; cbv beta iota zeta in Ht; [|discriminate].
    destruct (u_set_tumor_inv nc _ _ nc' a4 Hnc E4) as (qC & HqC & -> & ->).
    destruct (unflatten_and_split (sub_kwargs "ext" split) ["contra"]) as [esplit eg] eqn:Ee.
    autorewrite with mlf in Ht. change (b_contra (ml_ext m3)) with (ml_ec m3) in Ht. rewrite Hec3 in Ht.
    match type of Ht with context [u_set_tumor_spread_params ec ?x ?k] =>
      destruct (u_set_tumor_spread_params ec x k) as [ec' [r6|]] eqn:E6 end; cbv beta iota zeta in Ht; [|discriminate].
    destruct (u_set_tumor_inv ec _ _ ec' r6 Hec E6) as (qE & HqE & -> & ->).
    injection Ht as <- <-. exists qI, qC, qE, nsplit, esplit, ng, eg.
    rewrite skipn_skipn in HqE. subst ei ec nc. unfold ml_ei, ml_ec, ml_nc in *. autorewrite with mlf.
    repeat split; try assumption; try reflexivity.
    all: match goal with |- ?G => idtac G end.
    rewrite !skipn_skipn. f_equal. lia.
  Qed.
End MidTumor2.
