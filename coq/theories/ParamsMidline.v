(** ParamsMidline: proofs of the C10 statements for models.Midline. *)
From LymphModel Require Import Base States Linalg Graph Transition Observation Dist Unilateral Models Params
  ParamsStatements ParamsLemmas ParamsProofs ParamsBilateral.
Local Open Scope nat_scope.
Local Open Scope string_scope.
Local Open Scope list_scope.

(** * Blocks of keys with pairwise different first components *)
Fixpoint cat {A} (bs : list ((string -> Prop) * list A)) : list A :=
  match bs with
  | [] => []
  | [b] => snd b
  | b :: r => snd b ++ cat r
  end.
Lemma cat_cons {A} (b : (string -> Prop) * list A) r : cat (b :: r) = snd b ++ cat r.
Proof. destruct r; [cbn; rewrite app_nil_r; reflexivity | reflexivity]. Qed.
Fixpoint all_disj (Ps : list (string -> Prop)) : Prop :=
  match Ps with
  | [] => True
  | P :: r => Forall (fun Q : string -> Prop => forall s, P s -> Q s -> False) r /\ all_disj r
  end.
Lemma heads_in_cat (bs : list ((string -> Prop) * list path)) (P : string -> Prop) :
  Forall (fun b => heads_in (fst b) (snd b)) bs -> Forall (fun Q : string -> Prop => forall s, P s -> Q s -> False) (map fst bs) ->
  forall k, In k (cat bs) -> ~ P (head_of k).
Proof.
  induction bs as [|b r IH]; intros Hh Hd k Hk; [destruct Hk|]. rewrite cat_cons in Hk. apply in_app_iff in Hk.
  inversion Hh; subst. cbn [map] in Hd. inversion Hd; subst. destruct Hk as [Hk|Hk].
  - intros HP. match goal with H : forall s, P s -> fst b s -> False |- _ => apply (H _ HP) end.
    match goal with H : heads_in (fst b) (snd b) |- _ => apply H, Hk end.
  - apply IH; assumption.
Qed.
Lemma NoDup_blocks (bs : list ((string -> Prop) * list path)) :
  Forall (fun b => NoDup (snd b) /\ heads_in (fst b) (snd b)) bs -> all_disj (map fst bs) -> NoDup (cat bs).
Proof.
  induction bs as [|b r IH]; intros Hb Hd; [constructor|]. rewrite cat_cons. inversion Hb as [|? ? [Hn Hh] Hr]; subst.
  cbn [map all_disj] in Hd. destruct Hd as [Hd1 Hd2]. apply NoDup_app_intro; [exact Hn | apply IH; assumption|].
  intros k Hk Hk'. apply (heads_in_cat r (fst b)) in Hk'; [apply Hk', Hh, Hk | | exact Hd1].
  clear - Hr. induction Hr as [|x l [_ Hx] _ IHl]; constructor; assumption.
Qed.

Definition isW (w : string) (s : string) : Prop := s = w.
Lemma isW_disj w1 w2 : w1 <> w2 -> forall s, isW w1 s -> isW w2 s -> False.
Proof. unfold isW. intros H s -> E. apply H. exact E. Qed.

Lemma heads_pre2 (P : string -> Prop) h h2 (X : list (path * Qc)) : P h -> heads_in P (map fst (pre [h; h2] X)).
Proof. intros H. rewrite pre_keys. apply (heads_in_cons_path P h [h2]). exact H. Qed.

(** * What a well-formed midline model gives *)
Section MidFacts.
  Variable m : midline.
  Hypothesis Hok : mid_names_ok m = true.
  Let ei := ml_ei m.
  Let ec := ml_ec m.
  Let nc := ml_nc m.

  Lemma m_ok_parts :
    u_names_ok ei = true /\ u_names_ok ec = true /\ u_names_ok nc = true /\
    shape (u_edges ei) = shape (u_edges ec) /\ u_tri ec = u_tri ei /\
    shape (u_edges ei) = shape (u_edges nc) /\ u_tri nc = u_tri ei /\
    b_symL (ml_ext m) = ml_symL m.
  Proof.
    unfold mid_names_ok, same_shape in Hok. rewrite !andb_true_iff in Hok. fold ei ec nc in Hok.
    destruct Hok as [[[[[H1 H2] H3] [Hb1 Hs1]] [Hb2 Hs2]] Hsym].
    repeat split; try assumption.
    - apply shape_eqb_shape, Hs1.
    - apply Nat.eqb_eq in Hb1. unfold u_tri, g_tri. rewrite Hb1. reflexivity.
    - apply shape_eqb_shape, Hs2.
    - apply Nat.eqb_eq in Hb2. unfold u_tri, g_tri. rewrite Hb2. reflexivity.
    - apply Bool.eqb_prop, Hsym.
  Qed.
  Lemma keys_T_nc : map fst (u_tumor_items nc) = map fst (u_tumor_items ei).
  Proof. destruct m_ok_parts as (_ & _ & _ & _ & _ & Hs & Ht & _). unfold u_tumor_items. rewrite Ht. symmetry. apply shape_sel_keys; [apply kind_sel_tumor | exact Hs]. Qed.
  Lemma keys_T_ec : map fst (u_tumor_items ec) = map fst (u_tumor_items ei).
  Proof. destruct m_ok_parts as (_ & _ & _ & Hs & Ht & _). unfold u_tumor_items. rewrite Ht. symmetry. apply shape_sel_keys; [apply kind_sel_tumor | exact Hs]. Qed.
  Lemma keys_L_ec : map fst (u_lnl_items ec) = map fst (u_lnl_items ei).
  Proof. destruct m_ok_parts as (_ & _ & _ & Hs & Ht & _). unfold u_lnl_items. rewrite Ht. symmetry. apply shape_sel_keys; [apply kind_sel_lnl | exact Hs]. Qed.
  Lemma TNp_nc s : TNp nc s <-> TNp ei s.
  Proof.
    destruct m_ok_parts as (_ & _ & _ & _ & _ & Hs & _). unfold TNp, tumor_edges. unfold u_edges in Hs.
    rewrite (shape_filter_names is_tumor_spread _ kind_sel_tumor _ Hs). tauto.
  Qed.
  Lemma LNp_ec s : LNp ec s <-> LNp ei s.
  Proof.
    destruct m_ok_parts as (_ & _ & _ & Hs & _). unfold LNp, lnl_edges. unfold u_edges in Hs.
    change (fun e : edge => negb (is_tumor_spread e)) with sel_lnl.
    rewrite (shape_filter_names sel_lnl _ kind_sel_lnl _ Hs). tauto.
  Qed.
  Lemma NoDup_T_nc_L_ec : NoDup (map fst (u_tumor_items nc ++ u_lnl_items ec)).
  Proof. rewrite map_app, keys_T_nc, keys_L_ec, <- map_app. apply u_spread_keys_NoDup, m_ok_parts. Qed.
End MidFacts.

(** * Midline: intermediate dictionaries *)
Definition mid_spread_items (m : midline) : list (path * Qc) :=
  let ei := ml_ei m in let ec := ml_ec m in let nc := ml_nc m in
  match ml_mixing m, ml_symL m with
  | Some _, true => pre ["ipsi"] (u_tumor_items ei) ++ pre ["contra"] (u_tumor_items nc) ++ m_mixing_item m ++ u_lnl_items ei
  | Some _, false => pre ["ipsi"] (u_tumor_items ei ++ u_lnl_items ei) ++ pre ["contra"] (u_tumor_items nc ++ u_lnl_items ec)
                     ++ m_mixing_item m
  | None, true => pre ["ipsi"] (u_tumor_items ei) ++ pre ["noext"; "contra"] (u_tumor_items nc)
                  ++ pre ["ext"; "contra"] (u_tumor_items ec) ++ u_lnl_items ei
  | None, false => pre ["ipsi"] (u_tumor_items ei ++ u_lnl_items ei) ++ pre ["noext"; "contra"] (u_tumor_items nc)
                   ++ pre ["ext"; "contra"] (u_tumor_items ec) ++ pre ["contra"] (u_lnl_items ec)
  end.
Lemma mid_items_split m : mid_items m = mid_spread_items m ++ u_dist_items (ml_ei m) ++ m_midext_item m.
Proof. unfold mid_items, mid_spread_items. destruct (ml_mixing m), (ml_symL m); rewrite <- ?app_assoc; reflexivity. Qed.

Ltac disj_tac :=
  cbn [map fst all_disj];
  repeat match goal with
         | |- _ /\ _ => split
         | |- Forall _ [] => constructor
         | |- Forall _ (_ :: _) => constructor
         | |- True => exact I
         end.
Ltac blocks_tac :=
  repeat match goal with
         | |- Forall _ [] => constructor
         | |- Forall _ (_ :: _) => constructor
         | |- _ /\ _ => split
         end; cbn [fst snd].

Definition Wd (s : string) : Prop := In s ["ipsi"; "contra"; "noext"; "ext"; "mixing"].

Section MidGet.
  Variable m : midline.
  Hypothesis Hok : mid_names_ok m = true.
  Let ei := ml_ei m.
  Let ec := ml_ec m.
  Let nc := ml_nc m.
  Let Hei : u_names_ok ei = true. Proof. apply (m_ok_parts m Hok). Qed.
  Let Hec : u_names_ok ec = true. Proof. apply (m_ok_parts m Hok). Qed.
  Let Hnc : u_names_ok nc = true. Proof. apply (m_ok_parts m Hok). Qed.

  Lemma Wd_EN s : Wd s -> EN ei s -> False.
  Proof. intros Hw He. apply (in_reserved_not_edge ei s Hei); [|exact He]. unfold Wd in Hw. cbn in *. intuition. Qed.
  Lemma Wd_TS s : Wd s -> TS ei s -> False.
  Proof. intros Hw He. apply (in_reserved_not_tstage ei s Hei); [|exact He]. unfold Wd in Hw. cbn in *. intuition. Qed.

  Lemma m_spread_NoDup : NoDup (map fst (mid_spread_items m)).
  Proof.
    unfold mid_spread_items, m_mixing_item. fold ei ec nc.
    destruct (ml_mixing m) as [mix|], (ml_symL m); rewrite !map_app.
    - change (NoDup (cat [(isW "ipsi", map fst (pre ["ipsi"] (u_tumor_items ei)));
                          (isW "contra", map fst (pre ["contra"] (u_tumor_items nc)));
                          (isW "mixing", map fst [(["mixing"], mix)]);
                          (LNp ei, map fst (u_lnl_items ei))])).
      apply NoDup_blocks.
      + blocks_tac; try (apply pre_keys_NoDup); try (apply heads_pre; reflexivity);
          try (apply u_tumor_keys_NoDup; assumption); try (apply u_lnl_keys_NoDup; assumption); try apply hL_Li;
          try (intros k [<-|[]]; reflexivity); repeat constructor; intros [].
      + disj_tac; try (apply isW_disj; discriminate);
          intros s Hw HL; unfold isW in Hw; subst s; (eapply Wd_EN; [|apply LNp_EN, HL]); cbn; tauto.
    - change (NoDup (cat [(isW "ipsi", map fst (pre ["ipsi"] (u_tumor_items ei ++ u_lnl_items ei)));
                          (isW "contra", map fst (pre ["contra"] (u_tumor_items nc ++ u_lnl_items ec)));
                          (isW "mixing", map fst [(["mixing"], mix)])])).
      apply NoDup_blocks.
      + blocks_tac; try (apply pre_keys_NoDup); try (apply heads_pre; reflexivity);
          try (apply u_spread_keys_NoDup; assumption); try (apply NoDup_T_nc_L_ec; assumption);
          try (intros k [<-|[]]; reflexivity); repeat constructor; intros [].
      + disj_tac; apply isW_disj; discriminate.
    - change (NoDup (cat [(isW "ipsi", map fst (pre ["ipsi"] (u_tumor_items ei)));
                          (isW "noext", map fst (pre ["noext"; "contra"] (u_tumor_items nc)));
                          (isW "ext", map fst (pre ["ext"; "contra"] (u_tumor_items ec)));
                          (LNp ei, map fst (u_lnl_items ei))])).
      apply NoDup_blocks.
      + blocks_tac; try (apply pre_keys_NoDup); try (apply heads_pre; reflexivity); try (apply heads_pre2; reflexivity);
          try (apply u_tumor_keys_NoDup; assumption); try (apply u_lnl_keys_NoDup; assumption); try apply hL_Li.
      + disj_tac; try (apply isW_disj; discriminate);
          intros s Hw HL; unfold isW in Hw; subst s; (eapply Wd_EN; [|apply LNp_EN, HL]); cbn; tauto.
    - change (NoDup (cat [(isW "ipsi", map fst (pre ["ipsi"] (u_tumor_items ei ++ u_lnl_items ei)));
                          (isW "noext", map fst (pre ["noext"; "contra"] (u_tumor_items nc)));
                          (isW "ext", map fst (pre ["ext"; "contra"] (u_tumor_items ec)));
                          (isW "contra", map fst (pre ["contra"] (u_lnl_items ec)))])).
      apply NoDup_blocks.
      + blocks_tac; try (apply pre_keys_NoDup); try (apply heads_pre; reflexivity); try (apply heads_pre2; reflexivity);
          try (apply u_tumor_keys_NoDup; assumption); try (apply u_lnl_keys_NoDup; assumption); try (apply u_spread_keys_NoDup; assumption).
      + disj_tac; apply isW_disj; discriminate.
  Qed.
  Lemma m_spread_heads : heads_in (fun s => Wd s \/ EN ei s) (map fst (mid_spread_items m)).
  Proof.
    unfold mid_spread_items, m_mixing_item. fold ei ec nc.
    destruct (ml_mixing m) as [mix|], (ml_symL m); rewrite !map_app; repeat apply heads_in_app;
      try (apply heads_pre; left; cbn; tauto); try (apply heads_pre2; left; cbn; tauto);
      try (eapply heads_in_weaken; [|apply hL_Li]; intros s Hs; right; apply LNp_EN, Hs);
      try (intros k [<-|[]]; left; cbn; tauto).
  Qed.
  Lemma mid_items_NoDup : NoDup (map fst (mid_items m)).
  Proof.
    rewrite mid_items_split. fold ei. rewrite !map_app.
    change (NoDup (cat [((fun s => Wd s \/ EN ei s) : string -> Prop, map fst (mid_spread_items m));
                        (TS ei, map fst (u_dist_items ei));
                        (isW "midext", map fst (m_midext_item m))])).
    apply NoDup_blocks.
    - blocks_tac; try apply m_spread_NoDup; try apply m_spread_heads; try (apply u_dist_keys_NoDup; assumption);
        try apply heads_Di; try (intros k [<-|[]]; reflexivity); repeat constructor; intros [].
    - disj_tac.
      + intros s [Hw|He] Ht; [exact (Wd_TS s Hw Ht) | exact (EN_TS_disj ei Hei s He Ht)].
      + intros s [Hw|He] Hm; unfold isW in Hm; subst s; [unfold Wd in Hw; cbn in Hw; intuition discriminate | apply (in_reserved_not_edge ei "midext" Hei); [cbn; tauto | exact He]].
      + intros s Ht Hm. unfold isW in Hm. subst s. apply (in_reserved_not_tstage ei "midext" Hei); [cbn; tauto | exact Ht].
  Qed.
End MidGet.

Section MidGet2.
  Variable m : midline.
  Hypothesis Hok : mid_names_ok m = true.
  Let ei := ml_ei m.
  Let ec := ml_ec m.
  Let nc := ml_nc m.
  Let Hei : u_names_ok ei = true. Proof. apply (m_ok_parts m Hok). Qed.
  Let Hec : u_names_ok ec = true. Proof. apply (m_ok_parts m Hok). Qed.
  Let Hnc : u_names_ok nc = true. Proof. apply (m_ok_parts m Hok). Qed.
  Let HsymL : b_symL (ml_ext m) = ml_symL m. Proof. apply (m_ok_parts m Hok). Qed.

  Definition m_tumor_nested_form : pdict :=
    match ml_mixing m with
    | Some mix => [(["ipsi"], Node (Tn ei)); (["contra"], Node (Tn nc)); (["mixing"], Leaf mix)]
    | None => [(["ipsi"], Node (Tn ei)); (["noext"], Node [(["contra"], Node (Tn nc))]); (["ext"], Node [(["contra"], Node (Tn ec))])]
    end.
  Lemma m_tumor_nested : m_get_tumor_spread_params m false = m_tumor_nested_form.
  Proof.
    unfold m_get_tumor_spread_params, m_tumor_nested_form, maybe_flatten.
    change (b_ipsi (ml_ext m)) with ei. change (b_contra (ml_noext m)) with nc. change (b_contra (ml_ext m)) with ec.
    rewrite (u_tumor_nested ei Hei), (u_tumor_nested nc Hnc), (u_tumor_nested ec Hec). destruct (ml_mixing m); reflexivity.
  Qed.
  Definition m_lnl_nested_form : pdict :=
    if ml_symL m then Ln ei else [(["ipsi"], Node (Ln ei)); (["contra"], Node (Ln ec))].
  Lemma m_lnl_nested : m_get_lnl_spread_params m false = Some m_lnl_nested_form.
  Proof.
    unfold m_get_lnl_spread_params, m_lnl_nested_form, maybe_flatten, b_get_lnl_spread_params.
    change (b_ipsi (ml_ext m)) with ei. change (b_contra (ml_ext m)) with ec.
    rewrite (u_lnl_nested ei Hei), (u_lnl_nested ec Hec), HsymL. destruct (ml_symL m); [rewrite pd_sub_here|]; reflexivity.
  Qed.

  (** the nested spread dictionary *)
  Definition m_spread_nested_form : pdict :=
    match ml_mixing m, ml_symL m with
    | Some mix, true => [(["ipsi"], Node (Tn ei)); (["contra"], Node (Tn nc)); (["mixing"], Leaf mix)] ++ Ln ei
    | Some mix, false => [(["ipsi"], Node (Tn ei ++ Ln ei)); (["contra"], Node (Tn nc ++ Ln ec)); (["mixing"], Leaf mix)]
    | None, true => [(["ipsi"], Node (Tn ei)); (["noext"], Node [(["contra"], Node (Tn nc))]); (["ext"], Node [(["contra"], Node (Tn ec))])] ++ Ln ei
    | None, false => [(["ipsi"], Node (Tn ei ++ Ln ei)); (["noext"], Node [(["contra"], Node (Tn nc))]);
                      (["ext"], Node [(["contra"], Node (Tn ec))]); (["contra"], Node (Ln ec))]
    end.
  Lemma Tn_Ln_update u : u_names_ok u = true -> kw_update (Ln u) (Tn u) = Tn u ++ Ln u.
  Proof.
    intros H. apply (kw_update_heads (LNp u) (TNp u)); [apply NoDup_Ln, H | apply hL_Ln | apply hT_Tn |].
    intros s HL HT. exact (TNp_LNp_disj u H s HT HL).
  Qed.
  Lemma Tn_nc_Ln_ec_update : kw_update (Ln ec) (Tn nc) = Tn nc ++ Ln ec.
  Proof.
    apply (kw_update_heads (LNp ec) (TNp nc)); [apply NoDup_Ln, Hec | apply hL_Ln | apply hT_Tn |].
    intros s HL HT. apply (LNp_ec m Hok) in HL. apply (TNp_nc m Hok) in HT. exact (TNp_LNp_disj ei Hei s HT HL).
  Qed.
  Lemma m_spread_nested : m_get_spread_params m false = Some m_spread_nested_form.
  Proof.
    unfold m_get_spread_params, m_spread_nested_form. rewrite m_tumor_nested, m_lnl_nested. unfold m_tumor_nested_form, m_lnl_nested_form, maybe_flatten.
    destruct (ml_mixing m) as [mix|], (ml_symL m); f_equal.
    - apply (kw_update_heads (LNp ei) Wd); [apply NoDup_Ln, Hei | apply hL_Ln | intros k [<-|[<-|[<-|[]]]]; cbn; tauto |].
      intros s HL Hw. apply (Wd_EN m Hok s Hw). apply LNp_EN, HL.
    - unfold kw_has. cbn [kw_get path_eqb String.eqb Ascii.eqb Bool.eqb andb].
      rewrite pd_sub_here, pd_update_at_here. rewrite pd_sub_skip by discriminate. rewrite pd_sub_here.
      rewrite pd_update_at_skip by discriminate. rewrite pd_update_at_here.
      rewrite (Tn_Ln_update ei Hei), Tn_nc_Ln_ec_update. reflexivity.
    - apply (kw_update_heads (LNp ei) Wd); [apply NoDup_Ln, Hei | apply hL_Ln | intros k [<-|[<-|[<-|[]]]]; cbn; tauto |].
      intros s HL Hw. apply (Wd_EN m Hok s Hw). apply LNp_EN, HL.
    - unfold kw_has. cbn [kw_get path_eqb String.eqb Ascii.eqb Bool.eqb andb kw_set].
      rewrite pd_sub_here, pd_update_at_here. rewrite pd_sub_skip by discriminate. rewrite pd_sub_here.
      rewrite !pd_update_at_skip by discriminate. rewrite pd_update_at_here.
      rewrite (Tn_Ln_update ei Hei). change (kw_update (Ln ec) []) with (dict_of (Ln ec)).
      rewrite dict_of_NoDup_id by (apply NoDup_Ln, Hec). reflexivity.
  Qed.
  Lemma flat_mid_tumor X Y mix :
    flat_items_dict [(["ipsi"], Node X); (["contra"], Node Y); (["mixing"], Leaf mix)]
    = pre ["ipsi"] (flat_items_dict X) ++ pre ["contra"] (flat_items_dict Y) ++ [(["mixing"], mix)].
  Proof. rewrite !flat_items_dict_cons_node, flat_items_dict_cons_leaf. reflexivity. Qed.
  Lemma flat_nested_contra h X : flat_items_dict [(["contra"], Node X)] = pre ["contra"] (flat_items_dict X) /\
    pre [h] (pre ["contra"] (flat_items_dict X)) = pre [h; "contra"] (flat_items_dict X).
  Proof. split; [apply flat_items_dict_one | apply pre_pre]. Qed.
  Lemma m_spread_nested_flat : flat_items_dict m_spread_nested_form = mid_spread_items m.
  Proof.
    unfold m_spread_nested_form, mid_spread_items, m_mixing_item. fold ei ec nc.
    destruct (ml_mixing m) as [mix|], (ml_symL m).
    - rewrite flat_items_dict_app, flat_mid_tumor, !flat_Tn, flat_Ln, <- !app_assoc. reflexivity.
    - rewrite flat_mid_tumor, !flat_items_dict_app, !flat_Tn, !flat_Ln. reflexivity.
    - rewrite flat_items_dict_app, !flat_items_dict_cons_node.
      change (flat_items_dict []) with (@nil (path * Qc)). rewrite !app_nil_r, !pre_pre, !flat_Tn, flat_Ln, <- !app_assoc. reflexivity.
    - rewrite !flat_items_dict_cons_node.
      change (flat_items_dict []) with (@nil (path * Qc)). rewrite !app_nil_r, !pre_pre, flat_items_dict_app, !flat_Tn, !flat_Ln. reflexivity.
  Qed.
  Lemma m_spread_flat : m_get_spread_params m true = Some (leaves (mid_spread_items m)).
  Proof.
    pose proof m_spread_nested as Hn. unfold m_get_spread_params in *. rewrite m_tumor_nested, m_lnl_nested in *.
    unfold maybe_flatten in *. injection Hn as Hn. f_equal. rewrite Hn.
    rewrite flatten_spec; rewrite m_spread_nested_flat; [reflexivity | apply m_spread_NoDup, Hok].
  Qed.

  Lemma m_get_params_flat : m_get_params m true = Some (leaves (mid_items m)).
  Proof.
    unfold m_get_params. rewrite m_spread_flat. f_equal.
    unfold m_get_distribution_params, b_get_distribution_params, maybe_flatten. change (b_ipsi (ml_ext m)) with ei.
    rewrite (u_dist_flat ei Hei). rewrite !(flatten_leaves (u_dist_items ei)) by (apply u_dist_keys_NoDup, Hei).
    pose proof (mid_items_NoDup m Hok) as Hnd. rewrite mid_items_split in *. fold ei in Hnd |- *. rewrite !map_app in Hnd.
    change (kw_update (leaves (mid_spread_items m)) []) with (dict_of (leaves (mid_spread_items m))).
    rewrite dict_of_NoDup_id by (rewrite leaves_keys; apply m_spread_NoDup, Hok).
    rewrite kw_update_leaves.
    rewrite kw_update_fresh; [| apply u_dist_keys_NoDup, Hei |].
    - change (Leaf (ml_midext m)) with (Leaf (snd (["midext"; "prob"], ml_midext m))).
      rewrite kw_set_leaves, kw_set_fresh.
      + rewrite flatten_leaves, <- app_assoc; [reflexivity|]. rewrite <- app_assoc, !map_app. exact Hnd.
      + apply kw_get_In_None. rewrite map_app. intros Hin.
        rewrite app_assoc in Hnd. apply (NoDup_app_disj _ _ ["midext"; "prob"] Hnd); [rewrite <- map_app; rewrite map_app; exact Hin | left; reflexivity].
    - intros k Hk Hk'. apply NoDup_app_r in Hnd as Hnd2. rewrite app_assoc in Hnd.
      apply NoDup_app_l in Hnd. exact (NoDup_app_disj _ _ k Hnd Hk' Hk).
  Qed.

  Theorem m_got_spec : m_got m = Some (mid_items m).
  Proof. unfold m_got. rewrite m_get_params_flat. cbn [option_map]. rewrite items_leaves. reflexivity. Qed.

  Theorem m_nested_flattens_to_flat : option_map flat_items_dict (m_get_params m false) = m_got m.
  Proof.
    rewrite m_got_spec, mid_items_split. unfold m_get_params. rewrite m_spread_nested. cbn [option_map]. f_equal.
    unfold m_get_distribution_params, b_get_distribution_params, maybe_flatten. change (b_ipsi (ml_ext m)) with ei.
    rewrite (u_dist_nested ei Hei).
    change (kw_update m_spread_nested_form []) with (dict_of m_spread_nested_form).
    assert (Hh : heads_in (fun s => Wd s \/ EN ei s) (map fst m_spread_nested_form)).
    { unfold m_spread_nested_form. destruct (ml_mixing m) as [mix|], (ml_symL m); rewrite ?map_app; repeat apply heads_in_app;
        try (eapply heads_in_weaken; [|apply hL_Ln]; intros s Hs; right; apply LNp_EN, Hs);
        intros k Hk; cbn in Hk; repeat (destruct Hk as [<-|Hk]; [left; cbn; tauto|]); destruct Hk. }
    assert (Hnd : NoDup (map fst m_spread_nested_form)).
    { unfold m_spread_nested_form. destruct (ml_mixing m) as [mix|], (ml_symL m); rewrite ?map_app.
      - apply (NoDup_app_heads Wd (LNp ei)); [repeat constructor; cbn; intuition discriminate | apply NoDup_Ln, Hei | intros k Hk; cbn in Hk; repeat (destruct Hk as [<-|Hk]; [cbn; tauto|]); destruct Hk | apply hL_Ln |].
        intros s Hw HL. apply (Wd_EN m Hok s Hw), LNp_EN, HL.
      - repeat constructor; cbn; intuition discriminate.
      - apply (NoDup_app_heads Wd (LNp ei)); [repeat constructor; cbn; intuition discriminate | apply NoDup_Ln, Hei | intros k Hk; cbn in Hk; repeat (destruct Hk as [<-|Hk]; [cbn; tauto|]); destruct Hk | apply hL_Ln |].
        intros s Hw HL. apply (Wd_EN m Hok s Hw), LNp_EN, HL.
      - repeat constructor; cbn; intuition discriminate. }
    rewrite dict_of_NoDup_id by exact Hnd.
    rewrite (kw_update_heads (TS ei) (fun s => Wd s \/ EN ei s)); [| apply NoDup_Dn, Hei | apply heads_Dn | exact Hh |].
    - rewrite kw_set_fresh.
      + rewrite !flat_items_dict_app, m_spread_nested_flat, flat_Dn. rewrite flat_items_dict_cons_leaf.
        change (flat_items_dict []) with (@nil (path * Qc)). rewrite <- app_assoc. reflexivity.
      + apply kw_get_In_None. rewrite map_app, in_app_iff. intros [Hin|Hin].
        * specialize (Hh _ Hin). cbn in Hh. destruct Hh as [Hw|He]; [unfold Wd in Hw; cbn in Hw; intuition discriminate|].
          apply (in_reserved_not_edge ei "midext" Hei); [cbn; tauto | exact He].
        * apply heads_Dn in Hin. cbn in Hin. apply (in_reserved_not_tstage ei "midext" Hei); [cbn; tauto | exact Hin].
    - intros s Ht [Hw|He]; [exact (Wd_TS m Hok s Hw Ht) | exact (EN_TS_disj ei Hei s He Ht)].
  Qed.
End MidGet2.

Theorem mid_names_nodup : C10_mid_names_nodup_stmt.
Proof. intros m H. split; [apply m_got_spec, H | apply mid_items_NoDup, H]. Qed.
Theorem mid_nested_flattens_to_flat : C10_mid_nested_flattens_to_flat_stmt.
Proof. intros m H. apply m_nested_flattens_to_flat, H. Qed.

(** * Setters: what a successful call does to the leaves that get_params reads *)
Definition T := is_tumor_spread.
Definition L := sel_lnl.

Lemma leaf_step_inv sel u a kwL u' r : u_names_ok u = true ->
  lift_graph u (graph_set_params_sel sel (u_graph u) a kwL) = (u', Some r) ->
  exists qs, all_unit (plan (u_lk kwL) (u_sel_items sel u) a) = Some qs /\ u' = u_put_sel sel u qs
             /\ r = skipn (length (u_sel_items sel u)) a.
Proof.
  intros H Hr. destruct (all_unit (plan (u_lk kwL) (u_sel_items sel u) a)) as [qs|] eqn:E.
  - rewrite (leaf_step_ok sel u a kwL qs H E) in Hr. injection Hr as <- <-. exists qs. repeat split.
  - pose proof (leaf_step_fail sel u a kwL H E) as Hf. rewrite Hr in Hf. discriminate.
Qed.
Lemma u_set_tumor_inv u a kw u' r : u_names_ok u = true -> u_set_tumor_spread_params u a kw = (u', Some r) ->
  exists qs, all_unit (plan (u_lk kw) (u_tumor_items u) a) = Some qs /\ u' = u_put_sel T u qs /\ r = skipn (length (u_tumor_items u)) a.
Proof. apply (leaf_step_inv is_tumor_spread). Qed.
Lemma u_set_lnl_inv u a kw u' r : u_names_ok u = true -> u_set_lnl_spread_params u a kw = (u', Some r) ->
  exists qs, all_unit (plan (u_lk kw) (u_lnl_items u) a) = Some qs /\ u' = u_put_sel L u qs /\ r = skipn (length (u_lnl_items u)) a.
Proof. apply (leaf_step_inv sel_lnl). Qed.

(** facts about u_put_sel that do not depend on the values *)
Lemma put_T_lnl_items u qs : u_lnl_items (u_put_sel T u qs) = u_lnl_items u.
Proof. apply (u_sel_items_put_other is_tumor_spread sel_lnl); [apply kind_sel_lnl | apply tumor_not_lnl]. Qed.
Lemma put_L_tumor_items u qs : u_tumor_items (u_put_sel L u qs) = u_tumor_items u.
Proof. apply (u_sel_items_put_other sel_lnl is_tumor_spread); [apply kind_sel_tumor | apply lnl_not_tumor]. Qed.
Lemma put_T_tumor_items u qs : length qs = length (u_tumor_items u) ->
  u_tumor_items (u_put_sel T u qs) = combine (map fst (u_tumor_items u)) qs.
Proof. apply (u_sel_items_put is_tumor_spread), kind_sel_tumor. Qed.
Lemma put_L_lnl_items u qs : length qs = length (u_lnl_items u) ->
  u_lnl_items (u_put_sel L u qs) = combine (map fst (u_lnl_items u)) qs.
Proof. apply (u_sel_items_put sel_lnl), kind_sel_lnl. Qed.
Lemma put_dist_items sel u qs : u_dist_items (u_put_sel sel u qs) = u_dist_items u.
Proof. reflexivity. Qed.
Lemma put_dists sel u qs : u_dists (u_put_sel sel u qs) = u_dists u /\ u_maxt (u_put_sel sel u qs) = u_maxt u.
Proof. split; reflexivity. Qed.

(** the four leaves of ext / noext and the scalar fields *)
Definition leaf4 (m : midline) : uni * uni * uni * uni := (ml_ei m, ml_ec m, ml_ni m, ml_nc m).

(** frame lemmas for the record updaters (all by computation) *)
Lemma ml_ext_with_ext m b : ml_ext (ml_with_ext m b) = b. Proof. reflexivity. Qed.
Lemma ml_noext_with_ext m b : ml_noext (ml_with_ext m b) = ml_noext m. Proof. reflexivity. Qed.
Lemma ml_central_with_ext m b : ml_central (ml_with_ext m b) = ml_central m. Proof. reflexivity. Qed.
Lemma ml_unknown_with_ext m b : ml_unknown (ml_with_ext m b) = ml_unknown m. Proof. reflexivity. Qed.
Lemma ml_mixing_with_ext m b : ml_mixing (ml_with_ext m b) = ml_mixing m. Proof. reflexivity. Qed.
Lemma ml_midext_with_ext m b : ml_midext (ml_with_ext m b) = ml_midext m. Proof. reflexivity. Qed.
Lemma ml_symL_with_ext m b : ml_symL (ml_with_ext m b) = ml_symL m. Proof. reflexivity. Qed.
Lemma ml_evo_with_ext m b : ml_evo (ml_with_ext m b) = ml_evo m. Proof. reflexivity. Qed.
Lemma ml_ext_with_noext m b : ml_ext (ml_with_noext m b) = ml_ext m. Proof. reflexivity. Qed.
Lemma ml_noext_with_noext m b : ml_noext (ml_with_noext m b) = b. Proof. reflexivity. Qed.
Lemma ml_central_with_noext m b : ml_central (ml_with_noext m b) = ml_central m. Proof. reflexivity. Qed.
Lemma ml_unknown_with_noext m b : ml_unknown (ml_with_noext m b) = ml_unknown m. Proof. reflexivity. Qed.
Lemma ml_mixing_with_noext m b : ml_mixing (ml_with_noext m b) = ml_mixing m. Proof. reflexivity. Qed.
Lemma ml_midext_with_noext m b : ml_midext (ml_with_noext m b) = ml_midext m. Proof. reflexivity. Qed.
Lemma ml_symL_with_noext m b : ml_symL (ml_with_noext m b) = ml_symL m. Proof. reflexivity. Qed.
Lemma ml_evo_with_noext m b : ml_evo (ml_with_noext m b) = ml_evo m. Proof. reflexivity. Qed.
Lemma ml_ext_with_central m b : ml_ext (ml_with_central m b) = ml_ext m. Proof. reflexivity. Qed.
Lemma ml_noext_with_central m b : ml_noext (ml_with_central m b) = ml_noext m. Proof. reflexivity. Qed.
Lemma ml_central_with_central m b : ml_central (ml_with_central m b) = Some b. Proof. reflexivity. Qed.
Lemma ml_unknown_with_central m b : ml_unknown (ml_with_central m b) = ml_unknown m. Proof. reflexivity. Qed.
Lemma ml_mixing_with_central m b : ml_mixing (ml_with_central m b) = ml_mixing m. Proof. reflexivity. Qed.
Lemma ml_midext_with_central m b : ml_midext (ml_with_central m b) = ml_midext m. Proof. reflexivity. Qed.
Lemma ml_symL_with_central m b : ml_symL (ml_with_central m b) = ml_symL m. Proof. reflexivity. Qed.
Lemma ml_evo_with_central m b : ml_evo (ml_with_central m b) = ml_evo m. Proof. reflexivity. Qed.
Lemma ml_ext_with_unknown m b : ml_ext (ml_with_unknown m b) = ml_ext m. Proof. reflexivity. Qed.
Lemma ml_noext_with_unknown m b : ml_noext (ml_with_unknown m b) = ml_noext m. Proof. reflexivity. Qed.
Lemma ml_central_with_unknown m b : ml_central (ml_with_unknown m b) = ml_central m. Proof. reflexivity. Qed.
Lemma ml_unknown_with_unknown m b : ml_unknown (ml_with_unknown m b) = Some b. Proof. reflexivity. Qed.
Lemma ml_mixing_with_unknown m b : ml_mixing (ml_with_unknown m b) = ml_mixing m. Proof. reflexivity. Qed.
Lemma ml_midext_with_unknown m b : ml_midext (ml_with_unknown m b) = ml_midext m. Proof. reflexivity. Qed.
Lemma ml_symL_with_unknown m b : ml_symL (ml_with_unknown m b) = ml_symL m. Proof. reflexivity. Qed.
Lemma ml_evo_with_unknown m b : ml_evo (ml_with_unknown m b) = ml_evo m. Proof. reflexivity. Qed.
Lemma ml_ext_with_mixing m b : ml_ext (ml_with_mixing m b) = ml_ext m. Proof. reflexivity. Qed.
Lemma ml_noext_with_mixing m b : ml_noext (ml_with_mixing m b) = ml_noext m. Proof. reflexivity. Qed.
Lemma ml_central_with_mixing m b : ml_central (ml_with_mixing m b) = ml_central m. Proof. reflexivity. Qed.
Lemma ml_unknown_with_mixing m b : ml_unknown (ml_with_mixing m b) = ml_unknown m. Proof. reflexivity. Qed.
Lemma ml_mixing_with_mixing m b : ml_mixing (ml_with_mixing m b) = Some b. Proof. reflexivity. Qed.
Lemma ml_midext_with_mixing m b : ml_midext (ml_with_mixing m b) = ml_midext m. Proof. reflexivity. Qed.
Lemma ml_symL_with_mixing m b : ml_symL (ml_with_mixing m b) = ml_symL m. Proof. reflexivity. Qed.
Lemma ml_evo_with_mixing m b : ml_evo (ml_with_mixing m b) = ml_evo m. Proof. reflexivity. Qed.
Lemma ml_ext_with_midext m b : ml_ext (ml_with_midext m b) = ml_ext m. Proof. reflexivity. Qed.
Lemma ml_noext_with_midext m b : ml_noext (ml_with_midext m b) = ml_noext m. Proof. reflexivity. Qed.
Lemma ml_central_with_midext m b : ml_central (ml_with_midext m b) = ml_central m. Proof. reflexivity. Qed.
Lemma ml_unknown_with_midext m b : ml_unknown (ml_with_midext m b) = ml_unknown m. Proof. reflexivity. Qed.
Lemma ml_mixing_with_midext m b : ml_mixing (ml_with_midext m b) = ml_mixing m. Proof. reflexivity. Qed.
Lemma ml_midext_with_midext m b : ml_midext (ml_with_midext m b) = b. Proof. reflexivity. Qed.
Lemma ml_symL_with_midext m b : ml_symL (ml_with_midext m b) = ml_symL m. Proof. reflexivity. Qed.
Lemma ml_evo_with_midext m b : ml_evo (ml_with_midext m b) = ml_evo m. Proof. reflexivity. Qed.
Lemma b_ipsi_with_ipsi b u : b_ipsi (b_with_ipsi b u) = u. Proof. reflexivity. Qed.
Lemma b_contra_with_ipsi b u : b_contra (b_with_ipsi b u) = b_contra b. Proof. reflexivity. Qed.
Lemma b_ipsi_with_contra b u : b_ipsi (b_with_contra b u) = b_ipsi b. Proof. reflexivity. Qed.
Lemma b_contra_with_contra b u : b_contra (b_with_contra b u) = u. Proof. reflexivity. Qed.
Lemma b_symT_with_ipsi b u : b_symT (b_with_ipsi b u) = b_symT b. Proof. reflexivity. Qed.
Lemma b_symL_with_ipsi b u : b_symL (b_with_ipsi b u) = b_symL b. Proof. reflexivity. Qed.
Lemma b_symT_with_contra b u : b_symT (b_with_contra b u) = b_symT b. Proof. reflexivity. Qed.
Lemma b_symL_with_contra b u : b_symL (b_with_contra b u) = b_symL b. Proof. reflexivity. Qed.
Global Hint Rewrite ml_ext_with_ext ml_noext_with_ext ml_central_with_ext ml_unknown_with_ext ml_mixing_with_ext ml_midext_with_ext ml_symL_with_ext ml_evo_with_ext ml_ext_with_noext ml_noext_with_noext ml_central_with_noext ml_unknown_with_noext ml_mixing_with_noext ml_midext_with_noext ml_symL_with_noext ml_evo_with_noext ml_ext_with_central ml_noext_with_central ml_central_with_central ml_unknown_with_central ml_mixing_with_central ml_midext_with_central ml_symL_with_central ml_evo_with_central ml_ext_with_unknown ml_noext_with_unknown ml_central_with_unknown ml_unknown_with_unknown ml_mixing_with_unknown ml_midext_with_unknown ml_symL_with_unknown ml_evo_with_unknown ml_ext_with_mixing ml_noext_with_mixing ml_central_with_mixing ml_unknown_with_mixing ml_mixing_with_mixing ml_midext_with_mixing ml_symL_with_mixing ml_evo_with_mixing ml_ext_with_midext ml_noext_with_midext ml_central_with_midext ml_unknown_with_midext ml_mixing_with_midext ml_midext_with_midext ml_symL_with_midext ml_evo_with_midext b_ipsi_with_ipsi b_contra_with_ipsi b_ipsi_with_contra b_contra_with_contra b_symT_with_ipsi b_symL_with_ipsi b_symT_with_contra b_symL_with_contra : mlf.

Definition X4 : list string := ["ipsi"; "noext"; "ext"; "contra"].

(** central is handled first and never touches ext / noext *)
Lemma central_step_frame (m : midline) (f : bilateral -> bilateral * bool) m1 ok1 :
  match ml_central m with
  | None => (m, true)
  | Some c => let '(c', ok) := f c in (ml_with_central m c', ok)
  end = (m1, ok1) ->
  ml_ext m1 = ml_ext m /\ ml_noext m1 = ml_noext m /\ ml_mixing m1 = ml_mixing m /\ ml_midext m1 = ml_midext m
  /\ ml_symL m1 = ml_symL m /\ ml_unknown m1 = ml_unknown m.
Proof.
  destruct (ml_central m) as [c|].
  - destruct (f c) as [c' ok]. intros [= <- _]. repeat split.
  - intros [= <- _]. repeat split.
Qed.

Section MidTumor.
  Variables (m : midline) (a : args) (kw : kwargs) (split : list (string * kwargs)) (glob : kwargs).
  Hypothesis Hok : mid_set_ok m = true.
  Hypothesis Hu : unflatten_and_split kw X4 = (split, glob).
  Let ei := ml_ei m.
  Let ec := ml_ec m.
  Let ni := ml_ni m.
  Let nc := ml_nc m.
  Let ipsi_kw := obj_kwargs "ipsi" split glob.
  Let Hok' : mid_names_ok m = true. Proof. unfold mid_set_ok in Hok. rewrite !andb_true_iff in Hok. apply Hok. Qed.
  Let Hei : u_names_ok ei = true. Proof. apply (m_ok_parts m Hok'). Qed.
  Let Hec : u_names_ok ec = true. Proof. apply (m_ok_parts m Hok'). Qed.
  Let Hnc : u_names_ok nc = true. Proof. apply (m_ok_parts m Hok'). Qed.
  Let Hni : u_names_ok ni = true. Proof. unfold mid_set_ok in Hok. rewrite !andb_true_iff in Hok. apply Hok. Qed.
  Lemma len_T_ni : length (u_tumor_items ni) = length (u_tumor_items ei).
  Proof.
    unfold mid_set_ok, same_shape in Hok. rewrite !andb_true_iff in Hok. destruct Hok as [_ [Hb Hs]].
    apply shape_eqb_shape in Hs. apply Nat.eqb_eq in Hb. fold ei ni in Hs, Hb.
    rewrite <- (map_length fst (u_tumor_items ni)), <- (map_length fst (u_tumor_items ei)). f_equal.
    unfold u_tumor_items, u_tri, g_tri. rewrite Hb. symmetry. apply shape_sel_keys; [apply kind_sel_tumor | exact Hs].
  Qed.

  (** the part shared by both variants: central, ext.ipsi, noext.ipsi *)
  Lemma m_T_inv_common m' r : m_set_tumor_spread_params m a kw = (m', Some r) ->
    exists qI qN m3,
      all_unit (plan (u_lk ipsi_kw) (u_tumor_items ei) a) = Some qI /\
      ml_ei m3 = u_put_sel T ei qI /\ ml_ni m3 = u_put_sel T ni qN /\ ml_ec m3 = ec /\ ml_nc m3 = nc /\
      ml_mixing m3 = ml_mixing m /\ ml_midext m3 = ml_midext m /\ ml_symL m3 = ml_symL m /\
      b_symL (ml_ext m3) = b_symL (ml_ext m) /\
      (let a3 := skipn (length (u_tumor_items ei)) a in
       match ml_mixing m3 with
       | Some cur =>
           let contra_kw := obj_kwargs "contra" split glob in
           let '(nc', o4) := u_set_tumor_spread_params (b_contra (ml_noext m3)) a3 contra_kw in
           let m4 := ml_with_noext m3 (b_with_contra (ml_noext m3) nc') in
           match o4 with
           | None => (m4, None)
           | Some a4 =>
               let '(first, a5) := popfirst a4 in
               let mp := match kw_get ["mixing"] glob with Some v => v | None => val_or first cur end in
               match check_unit mp with
               | None => (m4, None)
               | Some mix =>
                   let m5 := ml_with_mixing m4 mix in
                   let '(ec', ok6) := ok_of (u_set_tumor_spread_params (b_contra (ml_ext m5)) [] (mixed_kwargs mix m5)) in
                   let m6 := ml_with_ext m5 (b_with_contra (ml_ext m5) ec') in
                   (m6, if ok6 then Some a5 else None)
               end
           end
       | None =>
           let '(noext_split, _) := unflatten_and_split (sub_kwargs "noext" split) ["contra"] in
           let noext_contra_kw := obj_kwargs "contra" noext_split glob in
           let '(nc', o4) := u_set_tumor_spread_params (b_contra (ml_noext m3)) a3 noext_contra_kw in
           let m4 := ml_with_noext m3 (b_with_contra (ml_noext m3) nc') in
           match o4 with
           | None => (m4, None)
           | Some a4 =>
               let '(ext_split, _) := unflatten_and_split (sub_kwargs "ext" split) ["contra"] in
               let ext_contra_kw := obj_kwargs "contra" ext_split glob in
               let '(ec', o5) := u_set_tumor_spread_params (b_contra (ml_ext m4)) a4 ext_contra_kw in
               (ml_with_ext m4 (b_with_contra (ml_ext m4) ec'), o5)
           end
       end) = (m', Some r).
  Proof.
    intros H. unfold m_set_tumor_spread_params in H. fold X4 in H. rewrite Hu in H. fold ipsi_kw in H.
    destruct (match ml_central m with
              | None => (m, true)
              | Some c => let '(c', ok) := ok_of (b_set_tumor_spread_params c a ipsi_kw) in (ml_with_central m c', ok)
              end) as [m1 ok1] eqn:Ec.
    destruct (central_step_frame m (fun c => ok_of (b_set_tumor_spread_params c a ipsi_kw)) m1 ok1 Ec) as (He1 & Hn1 & Hm1 & Hd1 & Hs1 & _).
    destruct ok1; cbn [negb] in H; [|discriminate].
    rewrite He1 in H.
    destruct (u_set_tumor_spread_params (b_ipsi (ml_ext m)) a ipsi_kw) as [ei' [r2|]] eqn:E2; cbn [ok_of fst snd negb] in H; [|discriminate].
    destruct (u_set_tumor_inv ei a ipsi_kw ei' r2 Hei E2) as (qI & HqI & -> & ->).
    autorewrite with mlf in H. rewrite Hn1 in H.
    destruct (u_set_tumor_spread_params (b_ipsi (ml_noext m)) a ipsi_kw) as [ni' [a3|]] eqn:E3; [|discriminate].
    destruct (u_set_tumor_inv ni a ipsi_kw ni' a3 Hni E3) as (qN & _ & -> & ->). rewrite len_T_ni in H.
    exists qI, qN, (ml_with_noext (ml_with_ext m1 (b_with_ipsi (ml_ext m) (u_put_sel T ei qI))) (b_with_ipsi (ml_noext m) (u_put_sel T ni qN))).
    split; [exact HqI|]. unfold ml_ei, ml_ec, ml_nc, ml_ni. autorewrite with mlf.
    repeat split; try assumption; try reflexivity.
  Qed.
End MidTumor.

Section MidTumor2.
  Variables (m : midline) (a : args) (kw : kwargs) (split : list (string * kwargs)) (glob : kwargs).
  Hypothesis Hok : mid_set_ok m = true.
  Hypothesis Hu : unflatten_and_split kw X4 = (split, glob).
  Let ei := ml_ei m.
  Let ec := ml_ec m.
  Let nc := ml_nc m.
  Let ipsi_kw := obj_kwargs "ipsi" split glob.
  Let Hok' : mid_names_ok m = true. Proof. unfold mid_set_ok in Hok. rewrite !andb_true_iff in Hok. apply Hok. Qed.
  Let Hec : u_names_ok ec = true. Proof. apply (m_ok_parts m Hok'). Qed.
  Let Hnc : u_names_ok nc = true. Proof. apply (m_ok_parts m Hok'). Qed.

  Lemma m_T_inv_mix cur m' r : ml_mixing m = Some cur -> m_set_tumor_spread_params m a kw = (m', Some r) ->
    exists qI qC mix qE,
      all_unit (plan (u_lk ipsi_kw) (u_tumor_items ei) a) = Some qI /\
      all_unit (plan (u_lk (obj_kwargs "contra" split glob)) (u_tumor_items nc) (skipn (length (u_tumor_items ei)) a)) = Some qC /\
      check_unit (match kw_get ["mixing"] glob with
                  | Some v => v
                  | None => val_or (hd_error (skipn (length (u_tumor_items ei) + length (u_tumor_items nc)) a)) cur
                  end) = Some mix /\
      ml_ei m' = u_put_sel T ei qI /\ ml_nc m' = u_put_sel T nc qC /\ ml_ec m' = u_put_sel T ec qE /\
      (exists qN, ml_ni m' = u_put_sel T (ml_ni m) qN) /\
      ml_mixing m' = Some mix /\ ml_midext m' = ml_midext m /\ ml_symL m' = ml_symL m /\
      b_symL (ml_ext m') = b_symL (ml_ext m) /\
      r = skipn (length (u_tumor_items ei) + length (u_tumor_items nc) + 1) a.
  Proof.
    intros Hmix H. destruct (m_T_inv_common m a kw split glob Hok Hu m' r H) as (qI & qN & m3 & HqI & Hei3 & Hni3 & Hec3 & Hnc3 & Hm3 & Hd3 & Hs3 & Hb3 & Ht).
    fold ei ec nc in Hei3, Hec3, Hnc3. cbv zeta in Ht. rewrite Hm3, Hmix in Ht.
    change (b_contra (ml_noext m3)) with (ml_nc m3) in Ht. rewrite Hnc3 in Ht.
    match type of Ht with context [u_set_tumor_spread_params nc ?x ?k] =>
      destruct (u_set_tumor_spread_params nc x k) as [nc' [a4|]] eqn:E4 end; cbv beta iota zeta in Ht; [|discriminate].
    destruct (u_set_tumor_inv nc _ _ nc' a4 Hnc E4) as (qC & HqC & -> & ->).
    rewrite popfirst_eq in Ht. cbv beta iota zeta in Ht. destruct (check_unit _) as [mix|] eqn:Emix; cbv beta iota zeta in Ht; [|discriminate].
    match type of Ht with context [u_set_tumor_spread_params ?u [] ?k] =>
      destruct (u_set_tumor_spread_params u [] k) as [ec' [r6|]] eqn:E6 end; cbn [ok_of fst snd] in Ht; cbv beta iota zeta in Ht; [|discriminate].
    autorewrite with mlf in E6. change (b_contra (ml_ext m3)) with (ml_ec m3) in E6. rewrite Hec3 in E6.
    destruct (u_set_tumor_inv ec [] _ ec' r6 Hec E6) as (qE & _ & -> & _).
    injection Ht as <- <-. exists qI, qC, mix, qE.
    rewrite skipn_skipn in Emix. subst ei ec nc. unfold ml_ei, ml_ec, ml_nc, ml_ni in *. autorewrite with mlf.
    repeat split; try assumption; try reflexivity.
    - exists qN. exact Hni3.
    - rewrite tl_skipn, skipn_skipn. f_equal. lia.
  Qed.

  (** without the mixing parameter *)
  Lemma m_T_inv_nomix m' r : ml_mixing m = None -> m_set_tumor_spread_params m a kw = (m', Some r) ->
    exists qI qC qE nsplit esplit ng eg,
      unflatten_and_split (sub_kwargs "noext" split) ["contra"] = (nsplit, ng) /\
      unflatten_and_split (sub_kwargs "ext" split) ["contra"] = (esplit, eg) /\
      all_unit (plan (u_lk ipsi_kw) (u_tumor_items ei) a) = Some qI /\
      all_unit (plan (u_lk (obj_kwargs "contra" nsplit glob)) (u_tumor_items nc) (skipn (length (u_tumor_items ei)) a)) = Some qC /\
      all_unit (plan (u_lk (obj_kwargs "contra" esplit glob)) (u_tumor_items ec)
                  (skipn (length (u_tumor_items ei) + length (u_tumor_items nc)) a)) = Some qE /\
      ml_ei m' = u_put_sel T ei qI /\ ml_nc m' = u_put_sel T nc qC /\ ml_ec m' = u_put_sel T ec qE /\
      (exists qN, ml_ni m' = u_put_sel T (ml_ni m) qN) /\
      ml_mixing m' = None /\ ml_midext m' = ml_midext m /\ ml_symL m' = ml_symL m /\
      b_symL (ml_ext m') = b_symL (ml_ext m) /\
      r = skipn (length (u_tumor_items ei) + length (u_tumor_items nc) + length (u_tumor_items ec)) a.
  Proof.
    intros Hmix H. destruct (m_T_inv_common m a kw split glob Hok Hu m' r H) as (qI & qN & m3 & HqI & Hei3 & Hni3 & Hec3 & Hnc3 & Hm3 & Hd3 & Hs3 & Hb3 & Ht).
    fold ei ec nc in Hei3, Hec3, Hnc3. cbv zeta in Ht. rewrite Hm3, Hmix in Ht.
    destruct (unflatten_and_split (sub_kwargs "noext" split) ["contra"]) as [nsplit ng] eqn:En.
    change (b_contra (ml_noext m3)) with (ml_nc m3) in Ht. rewrite Hnc3 in Ht.
    match type of Ht with context [u_set_tumor_spread_params nc ?x ?k] =>
      destruct (u_set_tumor_spread_params nc x k) as [nc' [a4|]] eqn:E4 end; cbv beta iota zeta in Ht; [|discriminate].
    destruct (u_set_tumor_inv nc _ _ nc' a4 Hnc E4) as (qC & HqC & -> & ->).
    destruct (unflatten_and_split (sub_kwargs "ext" split) ["contra"]) as [esplit eg] eqn:Ee.
    autorewrite with mlf in Ht. change (b_contra (ml_ext m3)) with (ml_ec m3) in Ht. rewrite Hec3 in Ht.
    match type of Ht with context [u_set_tumor_spread_params ec ?x ?k] =>
      destruct (u_set_tumor_spread_params ec x k) as [ec' [r6|]] eqn:E6 end; cbv beta iota zeta in Ht; [|discriminate].
    destruct (u_set_tumor_inv ec _ _ ec' r6 Hec E6) as (qE & HqE & -> & ->).
    injection Ht as <- <-. exists qI, qC, qE, nsplit, esplit, ng, eg.
    rewrite skipn_skipn in HqE. subst ei ec nc. unfold ml_ei, ml_ec, ml_nc, ml_ni in *. autorewrite with mlf.
    repeat split; try assumption; try reflexivity.
    - exists qN. exact Hni3.
    - rewrite Hm3. exact Hmix.
    - rewrite !skipn_skipn. f_equal. lia.
  Qed.
End MidTumor2.

(** * The LNL block *)
Lemma leaf_id_dec (l l' : leaf_id) : {l = l'} + {l <> l'}.
Proof. decide equality. Qed.
Lemma ml_leaf_with_same m l u : ml_leaf m l <> None -> ml_leaf (ml_with_leaf m l u) l = Some u.
Proof. destruct l; unfold ml_with_leaf, ml_leaf; destruct (ml_central m) eqn:E; cbn; rewrite ?E; cbn; congruence. Qed.
Lemma ml_leaf_with_other m l l' u : l <> l' -> ml_leaf (ml_with_leaf m l u) l' = ml_leaf m l'.
Proof. intros H. destruct l, l'; try congruence; unfold ml_with_leaf, ml_leaf; destruct (ml_central m) eqn:E; cbn; rewrite ?E; reflexivity. Qed.
Lemma ml_with_leaf_frame m l u :
  ml_mixing (ml_with_leaf m l u) = ml_mixing m /\ ml_midext (ml_with_leaf m l u) = ml_midext m /\
  ml_symL (ml_with_leaf m l u) = ml_symL m /\ ml_unknown (ml_with_leaf m l u) = ml_unknown m /\
  b_symL (ml_ext (ml_with_leaf m l u)) = b_symL (ml_ext m) /\
  (ml_central (ml_with_leaf m l u) = None <-> ml_central m = None).
Proof. destruct l; unfold ml_with_leaf; destruct (ml_central m) eqn:E; cbn; rewrite ?E; repeat split; congruence. Qed.

Definition block_frame (m m' : midline) : Prop :=
  ml_mixing m' = ml_mixing m /\ ml_midext m' = ml_midext m /\ ml_symL m' = ml_symL m /\ ml_unknown m' = ml_unknown m /\
  b_symL (ml_ext m') = b_symL (ml_ext m) /\ (ml_central m' = None <-> ml_central m = None).
Lemma block_frame_refl m : block_frame m m.
Proof. unfold block_frame. tauto. Qed.
Lemma block_frame_trans m1 m2 m3 : block_frame m1 m2 -> block_frame m2 m3 -> block_frame m1 m3.
Proof. unfold block_frame. intros (A1 & A2 & A3 & A4 & A5 & A6) (B1 & B2 & B3 & B4 & B5 & B6). repeat split; try congruence; tauto. Qed.

Lemma lnl_block_inv ls : NoDup ls -> forall m a kw m' r, m_set_lnl_block m ls a kw = (m', Some r) ->
  (forall l u, In l ls -> ml_leaf m l = Some u ->
     ml_leaf m' l = Some (fst (u_set_lnl_spread_params u a kw)) /\ snd (u_set_lnl_spread_params u a kw) <> None) /\
  (forall l, ~ In l ls -> ml_leaf m' l = ml_leaf m l) /\
  block_frame m m' /\
  (forall front l u, ls = front ++ [l] -> ml_leaf m l = Some u -> snd (u_set_lnl_spread_params u a kw) = Some r).
Proof.
  induction ls as [|l rest IH]; intros Hnd m a kw m' r H.
  - cbn in H. injection H as <- <-. split; [|split; [|split]].
    + intros l0 u0 [].
    + intros; reflexivity.
    + apply block_frame_refl.
    + intros front l0 u0 Hf. destruct front; discriminate.
  - inversion Hnd as [|? ? Hni Hnd']; subst. cbn [m_set_lnl_block] in H.
    destruct (ml_leaf m l) as [u|] eqn:El.
    + destruct (u_set_lnl_spread_params u a kw) as [u' [a'|]] eqn:Eu; [|discriminate].
      destruct rest as [|l2 rest'].
      * injection H as <- <-. split; [|split; [|split]].
        -- intros l0 u0 [<-|[]] Hl0. rewrite El in Hl0. injection Hl0 as <-. rewrite Eu. cbn [fst snd].
           split; [apply ml_leaf_with_same; congruence | discriminate].
        -- intros l0 Hl0. apply ml_leaf_with_other. intros ->. apply Hl0. left. reflexivity.
        -- apply ml_with_leaf_frame.
        -- intros front l0 u0 Hf Hl0. destruct front as [|x [|y f]]; try discriminate. injection Hf as <-.
           rewrite El in Hl0. injection Hl0 as <-. rewrite Eu. reflexivity.
      * destruct (IH Hnd' (ml_with_leaf m l u') a kw m' r H) as (P1 & P2 & P3 & P4). split; [|split; [|split]].
        -- intros l0 u0 [<-|Hin] Hl0.
           ++ rewrite El in Hl0. injection Hl0 as <-. rewrite Eu. cbn [fst snd]. split; [|discriminate].
              rewrite (P2 l Hni). apply ml_leaf_with_same. congruence.
           ++ apply (P1 l0 u0 Hin). rewrite ml_leaf_with_other; [exact Hl0 | intros ->; contradiction].
        -- intros l0 Hl0. rewrite (P2 l0) by (intros Hin; apply Hl0; right; exact Hin).
           apply ml_leaf_with_other. intros ->. apply Hl0. left. reflexivity.
        -- apply (block_frame_trans m (ml_with_leaf m l u') m'); [apply ml_with_leaf_frame | exact P3].
        -- intros front l0 u0 Hf Hl0. destruct front as [|x f]; [discriminate|]. injection Hf as <- Hf.
           apply (P4 f l0 u0 Hf). rewrite ml_leaf_with_other; [exact Hl0|].
           intros ->. apply Hni. rewrite Hf. apply in_app_iff. right. left. reflexivity.
    + destruct (IH Hnd' m a kw m' r H) as (P1 & P2 & P3 & P4). split; [|split; [|split]].
      * intros l0 u0 [<-|Hin] Hl0; [congruence | apply (P1 l0 u0 Hin Hl0)].
      * intros l0 Hl0. apply P2. intros Hin. apply Hl0. right. exact Hin.
      * exact P3.
      * intros front l0 u0 Hf Hl0. destruct front as [|x f].
        -- injection Hf as <- Hf. congruence.
        -- injection Hf as <- Hf. apply (P4 f l0 u0 Hf Hl0).
Qed.

Section MidLnl.
  Variables (m : midline) (a : args) (kw : kwargs) (split : list (string * kwargs)) (glob : kwargs).
  Hypothesis Hok : mid_set_ok m = true.
  Hypothesis Hu : unflatten_and_split kw X4 = (split, glob).
  Let ei := ml_ei m.
  Let ec := ml_ec m.
  Let ni := ml_ni m.
  Let nc := ml_nc m.
  Let Hok' : mid_names_ok m = true. Proof. unfold mid_set_ok in Hok. rewrite !andb_true_iff in Hok. apply Hok. Qed.
  Let Hei : u_names_ok ei = true. Proof. apply (m_ok_parts m Hok'). Qed.
  Let Hec : u_names_ok ec = true. Proof. apply (m_ok_parts m Hok'). Qed.
  Let Hnc : u_names_ok nc = true. Proof. apply (m_ok_parts m Hok'). Qed.
  Let Hni : u_names_ok ni = true. Proof. unfold mid_set_ok in Hok. rewrite !andb_true_iff in Hok. apply Hok. Qed.
  Lemma len_L_ni : length (u_lnl_items ni) = length (u_lnl_items ei).
  Proof.
    unfold mid_set_ok, same_shape in Hok. rewrite !andb_true_iff in Hok. destruct Hok as [_ [Hb Hs]].
    apply shape_eqb_shape in Hs. apply Nat.eqb_eq in Hb. fold ei ni in Hs, Hb.
    rewrite <- (map_length fst (u_lnl_items ni)), <- (map_length fst (u_lnl_items ei)). f_equal.
    unfold u_lnl_items, u_tri, g_tri. rewrite Hb. symmetry. apply shape_sel_keys; [apply kind_sel_lnl | exact Hs].
  Qed.

  Definition kwI : kwargs := if ml_symL m then glob else obj_kwargs "ipsi" split glob.
  Definition kwC : kwargs := if ml_symL m then glob else obj_kwargs "contra" split glob.
  Definition argsC : args := if ml_symL m then a else skipn (length (u_lnl_items ei)) a.

  Lemma m_L_inv m' r : m_set_lnl_spread_params m a kw = (m', Some r) ->
    exists qI qE qN,
      all_unit (plan (u_lk kwI) (u_lnl_items ei) a) = Some qI /\
      all_unit (plan (u_lk kwC) (u_lnl_items ec) argsC) = Some qE /\
      all_unit (plan (u_lk kwC) (u_lnl_items nc) argsC) = Some qN /\
      ml_ei m' = u_put_sel L ei qI /\ ml_ec m' = u_put_sel L ec qE /\ ml_nc m' = u_put_sel L nc qN /\
      block_frame m m' /\ r = skipn (length (u_lnl_items nc)) argsC.
  Proof.
    intros H. unfold m_set_lnl_spread_params in H. fold X4 in H. rewrite Hu in H. unfold kwI, kwC, argsC.
    assert (Hl_ei : ml_leaf m LExtIpsi = Some ei) by reflexivity.
    assert (Hl_ec : ml_leaf m LExtContra = Some ec) by reflexivity.
    assert (Hl_ni : ml_leaf m LNoextIpsi = Some ni) by reflexivity.
    assert (Hl_nc : ml_leaf m LNoextContra = Some nc) by reflexivity.
    destruct (ml_symL m).
    - (* symmetric: one block, the same arguments for all six leaves *)
      assert (Hnd : NoDup [LCentralIpsi; LCentralContra; LExtIpsi; LExtContra; LNoextIpsi; LNoextContra])
        by (repeat constructor; cbn; intuition discriminate).
      destruct (lnl_block_inv _ Hnd m a glob m' r H) as (P1 & _ & P3 & P4).
      destruct (P1 LExtIpsi ei) as [Q1 Q1']; [cbn; tauto | exact Hl_ei|].
      destruct (P1 LExtContra ec) as [Q2 Q2']; [cbn; tauto | exact Hl_ec|].
      destruct (P1 LNoextContra nc) as [Q3 Q3']; [cbn; tauto | exact Hl_nc|].
      pose proof (P4 [LCentralIpsi; LCentralContra; LExtIpsi; LExtContra; LNoextIpsi] LNoextContra nc eq_refl Hl_nc) as Q4.
      destruct (u_set_lnl_spread_params ei a glob) as [ei' [r1|]] eqn:E1; [|cbn [snd] in *; congruence].
      destruct (u_set_lnl_spread_params ec a glob) as [ec' [r2|]] eqn:E2; [|cbn [snd] in *; congruence].
      destruct (u_set_lnl_spread_params nc a glob) as [nc' [r3|]] eqn:E3; [|cbn [snd] in *; congruence].
      destruct (u_set_lnl_inv ei a glob ei' r1 Hei E1) as (qI & HqI & -> & _).
      destruct (u_set_lnl_inv ec a glob ec' r2 Hec E2) as (qE & HqE & -> & _).
      destruct (u_set_lnl_inv nc a glob nc' r3 Hnc E3) as (qN & HqN & -> & ->).
      cbn [fst snd] in *. exists qI, qE, qN. injection Q4 as <-.
      repeat split; try assumption.
      + change (ml_leaf m' LExtIpsi) with (Some (ml_ei m')) in Q1. congruence.
      + change (ml_leaf m' LExtContra) with (Some (ml_ec m')) in Q2. congruence.
      + change (ml_leaf m' LNoextContra) with (Some (ml_nc m')) in Q3. congruence.
      + apply P3. + apply P3. + apply P3. + apply P3. + apply P3. + apply P3. + apply P3.
    - (* asymmetric: ipsilateral leaves, then contralateral leaves with the remaining arguments *)
      unfold andthen in H.
      destruct (m_set_lnl_block m [LCentralIpsi; LExtIpsi; LNoextIpsi] a (obj_kwargs "ipsi" split glob)) as [m1 [a1|]] eqn:B1; [|discriminate].
      assert (Hnd1 : NoDup [LCentralIpsi; LExtIpsi; LNoextIpsi]) by (repeat constructor; cbn; intuition discriminate).
      assert (Hnd2 : NoDup [LCentralContra; LExtContra; LNoextContra]) by (repeat constructor; cbn; intuition discriminate).
      destruct (lnl_block_inv _ Hnd1 m a _ m1 a1 B1) as (P1 & P2 & P3 & P4).
      destruct (lnl_block_inv _ Hnd2 m1 a1 _ m' r H) as (R1 & R2 & R3 & R4).
      destruct (P1 LExtIpsi ei) as [Q1 Q1']; [cbn; tauto | exact Hl_ei|].
      pose proof (P4 [LCentralIpsi; LExtIpsi] LNoextIpsi ni eq_refl Hl_ni) as Q4.
      assert (Hl_ec1 : ml_leaf m1 LExtContra = Some ec) by (rewrite P2; [exact Hl_ec | cbn; intuition discriminate]).
      assert (Hl_nc1 : ml_leaf m1 LNoextContra = Some nc) by (rewrite P2; [exact Hl_nc | cbn; intuition discriminate]).
      destruct (R1 LExtContra ec) as [Q2 Q2']; [cbn; tauto | exact Hl_ec1|].
      destruct (R1 LNoextContra nc) as [Q3 Q3']; [cbn; tauto | exact Hl_nc1|].
      pose proof (R4 [LCentralContra; LExtContra] LNoextContra nc eq_refl Hl_nc1) as Q5.
      assert (Q1f : ml_leaf m' LExtIpsi = ml_leaf m1 LExtIpsi) by (apply R2; cbn; intuition discriminate).
      destruct (u_set_lnl_spread_params ei a (obj_kwargs "ipsi" split glob)) as [ei' [r1|]] eqn:E1; [|cbn [snd] in *; congruence].
      destruct (u_set_lnl_spread_params ni a (obj_kwargs "ipsi" split glob)) as [ni' [r4|]] eqn:E4; [|discriminate].
      destruct (u_set_lnl_inv ei a _ ei' r1 Hei E1) as (qI & HqI & -> & _).
      destruct (u_set_lnl_inv ni a _ ni' r4 Hni E4) as (qN' & _ & -> & ->).
      cbn [fst snd] in Q4. injection Q4 as <-. rewrite len_L_ni in *.
      destruct (u_set_lnl_spread_params ec (skipn (length (u_lnl_items ei)) a) (obj_kwargs "contra" split glob)) as [ec' [r2|]] eqn:E2; [|cbn [snd] in *; congruence].
      destruct (u_set_lnl_spread_params nc (skipn (length (u_lnl_items ei)) a) (obj_kwargs "contra" split glob)) as [nc' [r3|]] eqn:E3; [|cbn [snd] in *; congruence].
      destruct (u_set_lnl_inv ec _ _ ec' r2 Hec E2) as (qE & HqE & -> & _).
      destruct (u_set_lnl_inv nc _ _ nc' r3 Hnc E3) as (qN & HqN & -> & ->).
      cbn [fst snd] in *. injection Q5 as <-. exists qI, qE, qN.
      repeat split; try assumption.
      + rewrite Q1 in Q1f. change (ml_leaf m' LExtIpsi) with (Some (ml_ei m')) in Q1f. congruence.
      + change (ml_leaf m' LExtContra) with (Some (ml_ec m')) in Q2. congruence.
      + change (ml_leaf m' LNoextContra) with (Some (ml_nc m')) in Q3. congruence.
      + apply (block_frame_trans m m1 m' P3 R3). + apply (block_frame_trans m m1 m' P3 R3).
      + apply (block_frame_trans m m1 m' P3 R3). + apply (block_frame_trans m m1 m' P3 R3).
      + apply (block_frame_trans m m1 m' P3 R3). + apply (block_frame_trans m m1 m' P3 R3).
      + apply (block_frame_trans m m1 m' P3 R3).
  Qed.
End MidLnl.

(** * The distribution step *)
Lemma u_set_dist_graph u a kw : u_graph (fst (u_set_distribution_params u a kw)) = u_graph u.
Proof.
  unfold u_set_distribution_params. destruct (unflatten_and_split kw (map fst (u_dists u))) as [s g].
  destruct (set_dists_for (u_maxt u) s g (u_dists u) a) as [ds o]. reflexivity.
Qed.
Lemma b_set_dist_graph b a kw :
  u_graph (b_ipsi (fst (b_set_distribution_params b a kw))) = u_graph (b_ipsi b) /\
  u_graph (b_contra (fst (b_set_distribution_params b a kw))) = u_graph (b_contra b) /\
  b_symL (fst (b_set_distribution_params b a kw)) = b_symL b.
Proof.
  unfold b_set_distribution_params. destruct (side_kwargs kw) as [ikw ckw].
  pose proof (u_set_dist_graph (b_ipsi b) a ikw) as Hi. pose proof (u_set_dist_graph (b_contra b) a ckw) as Hc.
  destruct (u_set_distribution_params (b_ipsi b) a ikw) as [i' [r|]]; cbn [fst] in *.
  - destruct (u_set_distribution_params (b_contra b) a ckw) as [c' o]. cbn [fst b_with b_ipsi b_contra b_symL] in *. auto.
  - cbn [b_with b_ipsi b_contra b_symL]. auto.
Qed.
Lemma items_of_graph u u' : u_graph u' = u_graph u ->
  u_tumor_items u' = u_tumor_items u /\ u_lnl_items u' = u_lnl_items u.
Proof. intros H. unfold u_tumor_items, u_lnl_items, u_tri, u_edges. rewrite H. split; reflexivity. Qed.

Definition XD (m : midline) : list string :=
  ["ext"; "noext"] ++ (match ml_central m with Some _ => ["central"] | None => [] end)
                   ++ (match ml_unknown m with Some _ => ["unknown"] | None => [] end).

Lemma u_set_dist_inv u a kw u' r : u_names_ok u = true -> u_set_distribution_params u a kw = (u', Some r) ->
  exists ds', dists_put (u_maxt u) (u_dists u) (plan (u_lk kw) (u_dist_items u) a) = Some ds' /\ u' = u_with_dists u ds'.
Proof.
  intros H E. pose proof (u_set_dist_spec u kw H a) as Hs. rewrite E in Hs.
  destruct (dists_put _ _ _) as [ds'|]; [|cbn [snd] in Hs; discriminate]. injection Hs as -> _. exists ds'. split; reflexivity.
Qed.
Lemma with_dists_names_ok u new ds' : u_names_ok u = true ->
  dists_put (u_maxt u) (u_dists u) new = Some ds' -> length new = length (u_dist_items u) -> u_names_ok (u_with_dists u ds') = true.
Proof.
  intros H HD Hl. destruct (dists_put_spec _ _ _ _ HD Hl) as (qD & _ & _ & Hn).
  destruct (dists_put_shape _ _ _ _ HD Hl) as (Hk & Hko & _).
  unfold u_names_ok, u_tstages, u_edge_names, u_edges in *. cbn [u_with_dists u_dists u_graph]. rewrite Hn, Hk, Hko. exact H.
Qed.

Lemma m_D_inv m a kw m' r : u_names_ok (ml_ei m) = true -> u_names_ok (ml_ec m) = true -> u_names_ok (ml_nc m) = true ->
  m_set_distribution_params m a kw = (m', Some r) ->
  exists split glob ikw ckw dsi dsc dsn,
    unflatten_and_split kw (XD m) = (split, glob) /\ side_kwargs (obj_kwargs "ext" split glob) = (ikw, ckw) /\
    dists_put (u_maxt (ml_ei m)) (u_dists (ml_ei m)) (plan (u_lk ikw) (u_dist_items (ml_ei m)) a) = Some dsi /\
    ml_ei m' = u_with_dists (ml_ei m) dsi /\
    ml_ec m' = u_with_dists (ml_ec m) dsc /\ u_names_ok (u_with_dists (ml_ec m) dsc) = true /\
    ml_nc m' = u_with_dists (ml_nc m) dsn /\ u_names_ok (u_with_dists (ml_nc m) dsn) = true /\
    ml_mixing m' = ml_mixing m /\ ml_midext m' = ml_midext m /\ ml_symL m' = ml_symL m /\
    b_symL (ml_ext m') = b_symL (ml_ext m).
Proof.
  intros Hei Hec Hnc H. unfold m_set_distribution_params in H. fold (XD m) in H.
  destruct (unflatten_and_split kw (XD m)) as [split glob] eqn:Hu.
  destruct (b_set_distribution_params (ml_ext m) a (obj_kwargs "ext" split glob)) as [e' [r1|]] eqn:E1; [|discriminate].
  autorewrite with mlf in H.
  destruct (b_set_distribution_params (ml_noext m) a (obj_kwargs "noext" split glob)) as [n' [r2|]] eqn:E2; [|discriminate].
  autorewrite with mlf in H.
  assert (Hfin : ml_ext m' = e' /\ ml_noext m' = n' /\ ml_mixing m' = ml_mixing m /\ ml_midext m' = ml_midext m /\ ml_symL m' = ml_symL m).
  { destruct (ml_central m) as [c|].
    - destruct (b_set_distribution_params c a (obj_kwargs "central" split glob)) as [c' [r3|]]; cbv beta iota zeta in H; [|discriminate].
      autorewrite with mlf in H. destruct (ml_unknown m) as [k|].
      + destruct (b_set_distribution_params k a (obj_kwargs "unknown" split glob)) as [k' o]. cbv beta iota zeta in H. injection H as <- _. repeat split.
      + injection H as <- _. repeat split.
    - cbv beta iota zeta in H. destruct (ml_unknown m) as [k|] eqn:Ek.
      + autorewrite with mlf in H. rewrite Ek in H.
        destruct (b_set_distribution_params k a (obj_kwargs "unknown" split glob)) as [k' o]. cbv beta iota zeta in H. injection H as <- _. repeat split.
      + autorewrite with mlf in H. rewrite Ek in H. injection H as <- _. repeat split. }
  destruct Hfin as (He & Hn & Hm & Hd & Hs).
  (* ext *)
  unfold b_set_distribution_params in E1. destruct (side_kwargs (obj_kwargs "ext" split glob)) as [ikw ckw] eqn:Hsk.
  destruct (u_set_distribution_params (b_ipsi (ml_ext m)) a ikw) as [i' [ri|]] eqn:Ei; [|discriminate].
  destruct (u_set_dist_inv (ml_ei m) a ikw i' ri Hei Ei) as (dsi & Hdi & ->).
  destruct (u_set_distribution_params (b_contra (ml_ext m)) a ckw) as [c' o] eqn:Ecx. injection E1 as <- ->.
  destruct (u_set_dist_inv (ml_ec m) a ckw c' r1 Hec Ecx) as (dsc & Hdc & ->).
  (* noext *)
  unfold b_set_distribution_params in E2. destruct (side_kwargs (obj_kwargs "noext" split glob)) as [nikw nckw] eqn:Hskn.
  destruct (u_set_distribution_params (b_ipsi (ml_noext m)) a nikw) as [ni' [rni|]] eqn:Eni; [|discriminate].
  destruct (u_set_distribution_params (b_contra (ml_noext m)) a nckw) as [nc' o] eqn:Encx. injection E2 as <- ->.
  destruct (u_set_dist_inv (ml_nc m) a nckw nc' r2 Hnc Encx) as (dsn & Hdn & ->).
  exists split, glob, ikw, ckw, dsi, dsc, dsn. unfold ml_ei, ml_ec, ml_nc in *. rewrite He, Hn.
  repeat split; try assumption; try reflexivity.
  - apply (with_dists_names_ok _ _ _ Hec Hdc). apply plan_length.
  - apply (with_dists_names_ok _ _ _ Hnc Hdn). apply plan_length.
Qed.

(** * Chaining the steps *)
Lemma same_shape_put sel u1 u2 q1 q2 : same_shape (u_put_sel sel u1 q1) (u_put_sel sel u2 q2) = same_shape u1 u2.
Proof.
  unfold same_shape, u_put_sel, u_edges. cbn [u_with_graph u_graph with_edges g_edges g_base]. rewrite shape_eqb_put. reflexivity.
Qed.
Lemma mid_set_ok_after_T m m1 qI qE qC qN :
  mid_set_ok m = true ->
  ml_ei m1 = u_put_sel T (ml_ei m) qI -> ml_ec m1 = u_put_sel T (ml_ec m) qE -> ml_nc m1 = u_put_sel T (ml_nc m) qC ->
  ml_ni m1 = u_put_sel T (ml_ni m) qN -> ml_symL m1 = ml_symL m -> b_symL (ml_ext m1) = b_symL (ml_ext m) ->
  mid_set_ok m1 = true.
Proof.
  intros H H1 H2 H3 H4 H5 H6. unfold mid_set_ok, mid_names_ok in *. rewrite H1, H2, H3, H4, H5, H6.
  rewrite !u_put_sel_names_ok, !same_shape_put. exact H.
Qed.
Lemma XD_props m : In "ext" (XD m) /\ forall s, In s (XD m) -> In s ["ext"; "noext"; "central"; "unknown"].
Proof.
  unfold XD. split; [left; reflexivity|]. intros s. destruct (ml_central m), (ml_unknown m); cbn; intuition.
Qed.

(** spread and distribution steps of a model with the mixing parameter *)
Lemma m_chain_inv_mix m a kw m' r cur : mid_set_ok m = true -> ml_mixing m = Some cur ->
  andthen (m_set_spread_params m a kw) (fun m1 a1 => m_set_distribution_params m1 a1 kw) = (m', Some r) ->
  exists split glob qI qC mix qE qLi qLe qLn m2 dsplit dglob ikw ckw dsi,
    let ei := ml_ei m in let ec := ml_ec m in let nc := ml_nc m in
    let nT := length (u_tumor_items ei) + length (u_tumor_items nc) in
    let a1 := skipn (nT + 1) a in
    let aC := if ml_symL m then a1 else skipn (length (u_lnl_items ei)) a1 in
    let kI := if ml_symL m then glob else obj_kwargs "ipsi" split glob in
    let kC := if ml_symL m then glob else obj_kwargs "contra" split glob in
    let a2 := skipn (length (u_lnl_items nc)) aC in
    unflatten_and_split kw X4 = (split, glob) /\
    all_unit (plan (u_lk (obj_kwargs "ipsi" split glob)) (u_tumor_items ei) a) = Some qI /\
    all_unit (plan (u_lk (obj_kwargs "contra" split glob)) (u_tumor_items nc) (skipn (length (u_tumor_items ei)) a)) = Some qC /\
    check_unit (match kw_get ["mixing"] glob with Some v => v | None => val_or (hd_error (skipn nT a)) cur end) = Some mix /\
    all_unit (plan (u_lk kI) (u_lnl_items ei) a1) = Some qLi /\
    all_unit (plan (u_lk kC) (u_lnl_items ec) aC) = Some qLe /\
    all_unit (plan (u_lk kC) (u_lnl_items nc) aC) = Some qLn /\
    unflatten_and_split kw (XD m2) = (dsplit, dglob) /\ side_kwargs (obj_kwargs "ext" dsplit dglob) = (ikw, ckw) /\
    dists_put (u_maxt ei) (u_dists ei) (plan (u_lk ikw) (u_dist_items ei) a2) = Some dsi /\
    ml_ei m' = u_with_dists (u_put_sel L (u_put_sel T ei qI) qLi) dsi /\
    (exists dsc, ml_ec m' = u_with_dists (u_put_sel L (u_put_sel T ec qE) qLe) dsc /\ u_names_ok (ml_ec m') = true) /\
    (exists dsn, ml_nc m' = u_with_dists (u_put_sel L (u_put_sel T nc qC) qLn) dsn /\ u_names_ok (ml_nc m') = true) /\
    ml_mixing m' = Some mix /\ ml_midext m' = ml_midext m /\ ml_symL m' = ml_symL m /\ b_symL (ml_ext m') = b_symL (ml_ext m).
Proof.
  intros Hok Hmix H. unfold andthen, m_set_spread_params in H.
  destruct (unflatten_and_split kw X4) as [split glob] eqn:Hu.
  destruct (m_set_tumor_spread_params m a kw) as [m1 [a1|]] eqn:ET; cbn [andthen] in H; [|discriminate].
  destruct (m_T_inv_mix m a kw split glob Hok Hu cur m1 a1 Hmix ET)
    as (qI & qC & mix & qE & HqI & HqC & Hmx & Hei1 & Hnc1 & Hec1 & (qN & Hni1) & Hmix1 & Hd1 & Hs1 & Hb1 & ->).
  assert (Hok1 : mid_set_ok m1 = true) by (apply (mid_set_ok_after_T m m1 qI qE qC qN); assumption).
  destruct (m_set_lnl_spread_params m1 _ kw) as [m2 [a2|]] eqn:EL; [|discriminate].
  destruct (m_L_inv m1 _ kw split glob Hok1 Hu m2 a2 EL) as (qLi & qLe & qLn & HqLi & HqLe & HqLn & Hei2 & Hec2 & Hnc2 & Hfr & ->).
  unfold kwI, kwC, argsC in *. rewrite Hs1 in *. rewrite Hei1, Hec1, Hnc1 in *. rewrite !put_T_lnl_items in *.
  assert (Hok2 : u_names_ok (ml_ei m2) = true /\ u_names_ok (ml_ec m2) = true /\ u_names_ok (ml_nc m2) = true).
  { rewrite Hei2, Hec2, Hnc2, !u_put_sel_names_ok. unfold mid_set_ok, mid_names_ok in Hok. rewrite !andb_true_iff in Hok. repeat split; apply Hok. }
  destruct Hok2 as (Hei2ok & Hec2ok & Hnc2ok).
  destruct (m_D_inv m2 _ kw m' r Hei2ok Hec2ok Hnc2ok H)
    as (dsplit & dglob & ikw & ckw & dsi & dsc & dsn & HuD & Hsk & Hdp & Hei3 & Hec3 & Hec3ok & Hnc3 & Hnc3ok & Hm3 & Hd3 & Hs3 & Hb3).
  destruct Hfr as (F1 & F2 & F3 & F4 & F5 & F6).
  exists split, glob, qI, qC, mix, qE, qLi, qLe, qLn, m2, dsplit, dglob, ikw, ckw, dsi. cbv zeta.
  rewrite Hei2 in Hdp, Hei3. cbn [u_put_sel u_with_graph u_maxt u_dists] in Hdp.
  change (u_dist_items (u_with_graph (u_put_sel T (ml_ei m) qI) _)) with (u_dist_items (ml_ei m)) in Hdp.
  repeat split; try assumption.
  - exists dsc. rewrite Hec3, Hec2. split; [reflexivity | rewrite <- Hec2; exact Hec3ok].
  - exists dsn. rewrite Hnc3, Hnc2. split; [reflexivity | rewrite <- Hnc2; exact Hnc3ok].
  - congruence. - congruence. - congruence. - congruence.
Qed.

(** ... and of a model without it *)
Lemma m_chain_inv_nomix m a kw m' r : mid_set_ok m = true -> ml_mixing m = None ->
  andthen (m_set_spread_params m a kw) (fun m1 a1 => m_set_distribution_params m1 a1 kw) = (m', Some r) ->
  exists split glob nsplit esplit ng eg qI qC qE qLi qLe qLn m2 dsplit dglob ikw ckw dsi,
    let ei := ml_ei m in let ec := ml_ec m in let nc := ml_nc m in
    let nT := length (u_tumor_items ei) + length (u_tumor_items nc) + length (u_tumor_items ec) in
    let a1 := skipn nT a in
    let aC := if ml_symL m then a1 else skipn (length (u_lnl_items ei)) a1 in
    let kI := if ml_symL m then glob else obj_kwargs "ipsi" split glob in
    let kC := if ml_symL m then glob else obj_kwargs "contra" split glob in
    let a2 := skipn (length (u_lnl_items nc)) aC in
    unflatten_and_split kw X4 = (split, glob) /\
    unflatten_and_split (sub_kwargs "noext" split) ["contra"] = (nsplit, ng) /\
    unflatten_and_split (sub_kwargs "ext" split) ["contra"] = (esplit, eg) /\
    all_unit (plan (u_lk (obj_kwargs "ipsi" split glob)) (u_tumor_items ei) a) = Some qI /\
    all_unit (plan (u_lk (obj_kwargs "contra" nsplit glob)) (u_tumor_items nc) (skipn (length (u_tumor_items ei)) a)) = Some qC /\
    all_unit (plan (u_lk (obj_kwargs "contra" esplit glob)) (u_tumor_items ec)
                (skipn (length (u_tumor_items ei) + length (u_tumor_items nc)) a)) = Some qE /\
    all_unit (plan (u_lk kI) (u_lnl_items ei) a1) = Some qLi /\
    all_unit (plan (u_lk kC) (u_lnl_items ec) aC) = Some qLe /\
    all_unit (plan (u_lk kC) (u_lnl_items nc) aC) = Some qLn /\
    unflatten_and_split kw (XD m2) = (dsplit, dglob) /\ side_kwargs (obj_kwargs "ext" dsplit dglob) = (ikw, ckw) /\
    dists_put (u_maxt ei) (u_dists ei) (plan (u_lk ikw) (u_dist_items ei) a2) = Some dsi /\
    ml_ei m' = u_with_dists (u_put_sel L (u_put_sel T ei qI) qLi) dsi /\
    (exists dsc, ml_ec m' = u_with_dists (u_put_sel L (u_put_sel T ec qE) qLe) dsc /\ u_names_ok (ml_ec m') = true) /\
    (exists dsn, ml_nc m' = u_with_dists (u_put_sel L (u_put_sel T nc qC) qLn) dsn /\ u_names_ok (ml_nc m') = true) /\
    ml_mixing m' = None /\ ml_midext m' = ml_midext m /\ ml_symL m' = ml_symL m /\ b_symL (ml_ext m') = b_symL (ml_ext m).
Proof.
  intros Hok Hmix H. unfold andthen, m_set_spread_params in H.
  destruct (unflatten_and_split kw X4) as [split glob] eqn:Hu.
  destruct (m_set_tumor_spread_params m a kw) as [m1 [a1|]] eqn:ET; cbn [andthen] in H; [|discriminate].
  destruct (m_T_inv_nomix m a kw split glob Hok Hu m1 a1 Hmix ET)
    as (qI & qC & qE & nsplit & esplit & ng & eg & Hun & Hue & HqI & HqC & HqE & Hei1 & Hnc1 & Hec1 & (qN & Hni1) & Hmix1 & Hd1 & Hs1 & Hb1 & ->).
  assert (Hok1 : mid_set_ok m1 = true) by (apply (mid_set_ok_after_T m m1 qI qE qC qN); assumption).
  destruct (m_set_lnl_spread_params m1 _ kw) as [m2 [a2|]] eqn:EL; [|discriminate].
  destruct (m_L_inv m1 _ kw split glob Hok1 Hu m2 a2 EL) as (qLi & qLe & qLn & HqLi & HqLe & HqLn & Hei2 & Hec2 & Hnc2 & Hfr & ->).
  unfold kwI, kwC, argsC in *. rewrite Hs1 in *. rewrite Hei1, Hec1, Hnc1 in *. rewrite !put_T_lnl_items in *.
  assert (Hok2 : u_names_ok (ml_ei m2) = true /\ u_names_ok (ml_ec m2) = true /\ u_names_ok (ml_nc m2) = true).
  { rewrite Hei2, Hec2, Hnc2, !u_put_sel_names_ok. unfold mid_set_ok, mid_names_ok in Hok. rewrite !andb_true_iff in Hok. repeat split; apply Hok. }
  destruct Hok2 as (Hei2ok & Hec2ok & Hnc2ok).
  destruct (m_D_inv m2 _ kw m' r Hei2ok Hec2ok Hnc2ok H)
    as (dsplit & dglob & ikw & ckw & dsi & dsc & dsn & HuD & Hsk & Hdp & Hei3 & Hec3 & Hec3ok & Hnc3 & Hnc3ok & Hm3 & Hd3 & Hs3 & Hb3).
  destruct Hfr as (F1 & F2 & F3 & F4 & F5 & F6).
  exists split, glob, nsplit, esplit, ng, eg, qI, qC, qE, qLi, qLe, qLn, m2, dsplit, dglob, ikw, ckw, dsi. cbv zeta.
  rewrite Hei2 in Hdp, Hei3. cbn [u_put_sel u_with_graph u_maxt u_dists] in Hdp.
  change (u_dist_items (u_with_graph (u_put_sel T (ml_ei m) qI) _)) with (u_dist_items (ml_ei m)) in Hdp.
  repeat split; try assumption.
  - exists dsc. rewrite Hec3, Hec2. split; [reflexivity | rewrite <- Hec2; exact Hec3ok].
  - exists dsn. rewrite Hnc3, Hnc2. split; [reflexivity | rewrite <- Hnc2; exact Hnc3ok].
  - congruence. - congruence. - congruence. - congruence.
Qed.

(** * The leaves after a successful call *)
Definition leaf_after (u : uni) (qT qL : list Qc) (ds : list (string * dist)) : uni :=
  u_with_dists (u_put_sel L (u_put_sel T u qT) qL) ds.
Lemma with_dists_tumor_items u ds : u_tumor_items (u_with_dists u ds) = u_tumor_items u. Proof. reflexivity. Qed.
Lemma with_dists_lnl_items u ds : u_lnl_items (u_with_dists u ds) = u_lnl_items u. Proof. reflexivity. Qed.
Lemma with_dists_dist_items u ds : u_dist_items (u_with_dists u ds) = dists_items ds. Proof. reflexivity. Qed.
Lemma leaf_after_items u qT qL ds : length qT = length (u_tumor_items u) -> length qL = length (u_lnl_items u) ->
  u_tumor_items (leaf_after u qT qL ds) = combine (map fst (u_tumor_items u)) qT /\
  u_lnl_items (leaf_after u qT qL ds) = combine (map fst (u_lnl_items u)) qL /\
  u_dist_items (leaf_after u qT qL ds) = dists_items ds.
Proof.
  intros H1 H2. unfold leaf_after. rewrite with_dists_tumor_items, with_dists_lnl_items, with_dists_dist_items.
  repeat split.
  - rewrite put_L_tumor_items. apply put_T_tumor_items, H1.
  - rewrite put_L_lnl_items; rewrite put_T_lnl_items; [reflexivity | exact H2].
Qed.
Lemma leaf_after_lnl u qT qL ds : length qL = length (u_lnl_items u) ->
  u_lnl_items (leaf_after u qT qL ds) = combine (map fst (u_lnl_items u)) qL.
Proof.
  intros H2. unfold leaf_after. rewrite with_dists_lnl_items. rewrite put_L_lnl_items; rewrite put_T_lnl_items; [reflexivity | exact H2].
Qed.
Lemma leaf_after_shape u1 u2 q1 q2 q3 q4 d1 d2 :
  same_shape (leaf_after u1 q1 q2 d1) (leaf_after u2 q3 q4 d2) = same_shape u1 u2.
Proof.
  unfold leaf_after, same_shape, u_put_sel, u_edges. cbn [u_with_dists u_with_graph u_graph with_edges g_edges g_base].
  rewrite !shape_eqb_put. reflexivity.
Qed.
Lemma plan_lengths lk ps a qs : all_unit (plan lk ps a) = Some qs -> length qs = length ps.
Proof. intros H. apply all_unit_length in H. rewrite plan_length in H. exact H. Qed.

(** * Positional calls: how the arguments are consumed *)
Lemma popat_mid {A} (l1 : list A) x l2 : popat (l1 ++ x :: l2) (Z.of_nat (length l1) + 1 - 1) = (l1, Some x, l2).
Proof.
  unfold popat. replace (Z.of_nat (length l1) + 1 - 1)%Z with (Z.of_nat (length l1)) by lia.
  assert (H0 : (Z.of_nat (length l1) <? 0)%Z = false) by (apply Z.ltb_ge; lia). rewrite H0.
  rewrite app_length. cbn [length].
  assert (H1 : (Z.of_nat (length l1) >=? Z.of_nat (length l1 + S (length l2)))%Z = false) by (rewrite Z.geb_leb; apply Z.leb_gt; lia).
  rewrite H0, H1, Nat2Z.id. rewrite firstn_app_len by reflexivity.
  rewrite nth_error_app2, Nat.sub_diag by lia. cbn [nth_error].
  replace (S (length l1)) with (length (l1 ++ [x])) by (rewrite app_length; cbn; lia).
  replace (l1 ++ x :: l2) with ((l1 ++ [x]) ++ l2) by (rewrite <- app_assoc; reflexivity).
  rewrite skipn_app_len by reflexivity. reflexivity.
Qed.
Lemma skipn_vals_app n w rest : n <= length w -> skipn n (vals w ++ rest) = vals (skipn n w) ++ rest.
Proof.
  intros H. rewrite skipn_app, vals_length. replace (n - length w) with 0 by lia. unfold vals. rewrite skipn_map. reflexivity.
Qed.
Lemma plan_none_prefix ps w rest : length ps <= length w -> plan (u_lk []) ps (vals w ++ rest) = vals (firstn (length ps) w).
Proof.
  intros H. rewrite <- (firstn_skipn (length ps) w) at 1. rewrite vals_app, <- app_assoc.
  apply plan_no_kw; [intros; apply u_lk_nil | rewrite firstn_length; lia].
Qed.
Lemma all_unit_vals_inv q q' : all_unit (vals q) = Some q' -> q' = q.
Proof. intros H. apply all_unit_Some_vals in H. destruct H as [H _]. apply vals_inj in H. symmetry. exact H. Qed.
Lemma skipn_cons_nth {A} (l : list A) n d : n < length l -> skipn n l = nth n l d :: skipn (S n) l.
Proof.
  revert l. induction n as [|n IH]; intros [|x l] H; cbn [length] in H; try lia; [reflexivity|].
  cbn [skipn nth]. apply IH. lia.
Qed.
Lemma chunk_decomp {A} (l : list A) n1 n2 : skipn n1 l = firstn n2 (skipn n1 l) ++ skipn (n1 + n2) l.
Proof. rewrite <- skipn_skipn. symmetry. apply firstn_skipn. Qed.
Lemma unflatten_nil X : unflatten_and_split [] X = ([], []).
Proof. reflexivity. Qed.
Lemma obj_kwargs_nil k : obj_kwargs k [] [] = [].
Proof. reflexivity. Qed.
Lemma side_kwargs_nil : side_kwargs [] = ([], []).
Proof. reflexivity. Qed.

Lemma m_set_params_unfold m a kw : mid_names_ok m = true ->
  m_set_params m a kw =
  (let '(before, last, after) := popat a (Z.of_nat (length (mid_items m)) - 1)%Z in
   let mp := match kw_get ["midext"; "prob"] kw with Some v => Some v | None => last end in
   let r0 := match mp with None => Some m | Some v => option_map (ml_with_midext m) (check_unit v) end in
   match r0 with
   | None => (m, None)
   | Some m0 => andthen (m_set_spread_params m0 (before ++ after) kw) (fun m1 a1 => m_set_distribution_params m1 a1 kw)
   end).
Proof.
  intros H. unfold m_set_params. rewrite (m_get_params_flat m H). unfold leaves. rewrite map_length. reflexivity.
Qed.

Lemma decomp5 (v0 : list Qc) a b c d : length v0 = a + (b + (1 + c)) + d ->
  firstn a v0 ++ firstn b (skipn a v0) ++ [nth (a + b) v0 0%Qc] ++ firstn c (skipn (a + b + 1) v0)
  ++ firstn d (skipn (a + b + 1 + c) v0) = v0.
Proof.
  intros H.
  assert (E1 : v0 = firstn a v0 ++ skipn a v0) by (symmetry; apply firstn_skipn).
  assert (E2 : skipn a v0 = firstn b (skipn a v0) ++ skipn (a + b) v0) by apply chunk_decomp.
  assert (E3 : skipn (a + b) v0 = nth (a + b) v0 0%Qc :: skipn (a + b + 1) v0).
  { rewrite (skipn_cons_nth v0 (a + b) 0%Qc) by lia. do 2 f_equal. lia. }
  assert (E4 : skipn (a + b + 1) v0 = firstn c (skipn (a + b + 1) v0) ++ skipn (a + b + 1 + c) v0) by apply chunk_decomp.
  assert (E5 : skipn (a + b + 1 + c) v0 = firstn d (skipn (a + b + 1 + c) v0)).
  { rewrite firstn_all2; [reflexivity|]. rewrite skipn_length. lia. }
  symmetry. etransitivity; [exact E1|]. f_equal. etransitivity; [exact E2|]. f_equal. etransitivity; [exact E3|].
  cbn [app]. f_equal. etransitivity; [exact E4|]. f_equal. exact E5.
Qed.
Lemma decomp5' (v0 : list Qc) a b c d e : length v0 = a + (b + (c + d)) + e ->
  firstn a v0 ++ firstn b (skipn a v0) ++ firstn c (skipn (a + b) v0) ++ firstn d (skipn (a + b + c) v0)
  ++ firstn e (skipn (a + b + c + d) v0) = v0.
Proof.
  intros H.
  assert (E1 : v0 = firstn a v0 ++ skipn a v0) by (symmetry; apply firstn_skipn).
  assert (E2 : skipn a v0 = firstn b (skipn a v0) ++ skipn (a + b) v0) by apply chunk_decomp.
  assert (E3 : skipn (a + b) v0 = firstn c (skipn (a + b) v0) ++ skipn (a + b + c) v0) by apply chunk_decomp.
  assert (E4 : skipn (a + b + c) v0 = firstn d (skipn (a + b + c) v0) ++ skipn (a + b + c + d) v0) by apply chunk_decomp.
  assert (E5 : skipn (a + b + c + d) v0 = firstn e (skipn (a + b + c + d) v0)).
  { rewrite firstn_all2; [reflexivity|]. rewrite skipn_length. lia. }
  symmetry. etransitivity; [exact E1|]. f_equal. etransitivity; [exact E2|]. f_equal. etransitivity; [exact E3|].
  f_equal. etransitivity; [exact E4|]. f_equal. exact E5.
Qed.

(** names and validity of the model a successful call leaves behind *)
Lemma mid_names_ok_final m m' qI qLi dsi qE qLe dsc qC qLn dsn newi :
  mid_set_ok m = true ->
  ml_ei m' = leaf_after (ml_ei m) qI qLi dsi -> ml_ec m' = leaf_after (ml_ec m) qE qLe dsc -> ml_nc m' = leaf_after (ml_nc m) qC qLn dsn ->
  u_names_ok (ml_ec m') = true -> u_names_ok (ml_nc m') = true ->
  dists_put (u_maxt (ml_ei m)) (u_dists (ml_ei m)) newi = Some dsi -> length newi = length (u_dist_items (ml_ei m)) ->
  ml_symL m' = ml_symL m -> b_symL (ml_ext m') = b_symL (ml_ext m) ->
  mid_names_ok m' = true.
Proof.
  intros Hok H1 H2 H3 H4 H5 HD Hl H6 H7. unfold mid_set_ok in Hok. rewrite !andb_true_iff in Hok. destruct Hok as [[Hn _] _].
  unfold mid_names_ok in *. rewrite !andb_true_iff in *. destruct Hn as [[[[[A1 A2] A3] A4] A5] A6].
  rewrite H4, H5, H6, H7. rewrite H1, H2, H3, !leaf_after_shape. repeat split; try assumption; try reflexivity.
  unfold leaf_after. apply (with_dists_names_ok (u_put_sel L (u_put_sel T (ml_ei m) qI) qLi) newi dsi).
  - rewrite !u_put_sel_names_ok. exact A1.
  - exact HD.
  - exact Hl.
Qed.

Theorem mid_set_get_positional : C10_mid_set_get_positional_stmt.
Proof.
  intros m v rest Hok HsymL Hl r Hr. subst r.
  assert (Hok' : mid_names_ok m = true) by (unfold mid_set_ok in Hok; rewrite !andb_true_iff in Hok; apply Hok).
  destruct (m_ok_parts m Hok') as (Hei & Hec & Hnc & _).
  assert (HTnc : length (u_tumor_items (ml_nc m)) = length (u_tumor_items (ml_ei m)))
    by (rewrite <- (map_length fst), (keys_T_nc m Hok'), map_length; reflexivity).
  assert (HTec : length (u_tumor_items (ml_ec m)) = length (u_tumor_items (ml_ei m)))
    by (rewrite <- (map_length fst), (keys_T_ec m Hok'), map_length; reflexivity).
  assert (HLec : length (u_lnl_items (ml_ec m)) = length (u_lnl_items (ml_ei m)))
    by (rewrite <- (map_length fst), (keys_L_ec m Hok'), map_length; reflexivity).
  assert (HLnc : length (u_lnl_items (ml_nc m)) = length (u_lnl_items (ml_ei m))).
  { destruct (m_ok_parts m Hok') as (_ & _ & _ & _ & _ & Hs & Ht & _).
    rewrite <- (map_length fst (u_lnl_items (ml_nc m))), <- (map_length fst (u_lnl_items (ml_ei m))).
    f_equal. unfold u_lnl_items. rewrite Ht. symmetry. apply shape_sel_keys; [apply kind_sel_lnl | exact Hs]. }
  set (ei := ml_ei m) in *. set (ec := ml_ec m) in *. set (nc := ml_nc m) in *.
  (* the last value is midext_prob *)
  assert (Hn : length (mid_items m) = S (length (mid_spread_items m ++ u_dist_items ei)))
    by (rewrite mid_items_split, !app_length; cbn [m_midext_item length]; fold ei; lia).
  destruct (exists_last (l := v)) as (v0 & x & ->); [destruct v; [rewrite Hn in Hl; discriminate | discriminate]|].
  rewrite app_length in Hl. cbn [length] in Hl.
  rewrite (m_set_params_unfold m _ [] Hok') in Hr |- *.
  replace (vals (v0 ++ [x]) ++ rest) with (vals v0 ++ V x :: rest) in * by (rewrite vals_app, <- app_assoc; reflexivity).
  replace (Z.of_nat (length (mid_items m)) - 1)%Z with (Z.of_nat (length (vals v0)) + 1 - 1)%Z in * by (rewrite vals_length; lia).
  rewrite popat_mid in *. cbv beta iota zeta in Hr |- *. cbn [kw_get] in Hr |- *.
  destruct (check_unit (V x)) as [x'|] eqn:Ex; cbn [option_map] in Hr |- *; [|exfalso; apply Hr; reflexivity].
  apply check_unit_Some in Ex. destruct Ex as [[= <-] _].
  set (m0 := ml_with_midext m x) in *.
  assert (Hok0 : mid_set_ok m0 = true) by exact Hok.
  destruct (andthen (m_set_spread_params m0 (vals v0 ++ rest) []) (fun m1 a1 => m_set_distribution_params m1 a1 [])) as [m' [r|]] eqn:Ech;
    [|exfalso; apply Hr; reflexivity]. cbn [fst snd]. clear Hr.
  assert (Hlen0 : length v0 = length (mid_spread_items m ++ u_dist_items ei)) by lia.
  unfold mid_spread_items in Hlen0. fold ei ec nc in Hlen0. rewrite HsymL in Hlen0.
  destruct (ml_mixing m) as [cur|] eqn:Emix.
  - (* with mixing *)
    destruct (m_chain_inv_mix m0 _ [] m' r cur Hok0 Emix Ech)
      as (split & glob & qI & qC & mix & qE & qLi & qLe & qLn & m2 & dsplit & dglob & ikw & ckw & dsi & Hc).
    cbv zeta in Hc. change (ml_ei m0) with ei in Hc. change (ml_ec m0) with ec in Hc. change (ml_nc m0) with nc in Hc.
    change (ml_symL m0) with (ml_symL m) in Hc. rewrite HsymL in Hc.
    destruct Hc as (Hu & HqI & HqC & Hmx & HqLi & HqLe & HqLn & HuD & Hsk & Hdp & Hei' & (dsc & Hec' & Hecok) & (dsn & Hnc' & Hncok) & Hmix' & Hd' & Hs' & Hb').
    rewrite unflatten_nil in Hu, HuD. injection Hu as <- <-. injection HuD as <- <-.
    rewrite obj_kwargs_nil, side_kwargs_nil in Hsk. injection Hsk as <- <-. rewrite !obj_kwargs_nil in *.
    rewrite !app_length, !pre_length in Hlen0. unfold m_mixing_item in Hlen0. rewrite Emix in Hlen0. cbn [length] in Hlen0. rewrite HTnc in Hlen0.
    cbn [kw_get] in Hmx.
    rewrite skipn_skipn in Hdp.
    rewrite plan_none_prefix in HqI by lia.
    rewrite skipn_vals_app in HqC by (rewrite ?HTnc, ?HLnc; lia).
    rewrite skipn_vals_app in Hmx by (rewrite ?HTnc, ?HLnc; lia).
    rewrite skipn_vals_app in HqLi by (rewrite ?HTnc, ?HLnc; lia).
    rewrite skipn_vals_app in HqLe by (rewrite ?HTnc, ?HLnc; lia).
    rewrite skipn_vals_app in HqLn by (rewrite ?HTnc, ?HLnc; lia).
    rewrite skipn_vals_app in Hdp by (rewrite ?HTnc, ?HLnc; lia).
    rewrite plan_none_prefix in HqC, HqLi, HqLe, HqLn, Hdp by (rewrite skipn_length, ?HTnc, ?HLnc, ?HLec; lia).
    apply all_unit_vals_inv in HqI, HqC, HqLi, HqLe, HqLn.
    rewrite ?HTnc, ?HLnc, ?HLec in HqC, Hmx, HqLi, HqLe, HqLn, Hdp.
    set (nT := length (u_tumor_items ei)) in *. set (nL := length (u_lnl_items ei)) in *. set (nD := length (u_dist_items ei)) in *.
    rewrite ?HLnc in HqLn, Hdp. rewrite ?HLec in HqLe.
    rewrite (skipn_cons_nth v0 (nT + nT) 0%Qc) in Hmx by lia. cbn [vals map app hd_error val_or] in Hmx.
    apply check_unit_Some in Hmx. destruct Hmx as [[= Hmixv] _].
    assert (HlD : length (vals (firstn nD (skipn (nT + nT + 1 + nL) v0))) = nD)
      by (rewrite vals_length, firstn_length, skipn_length; lia).
    destruct (dists_put_spec _ _ _ _ Hdp HlD) as (qD & HuD & HiD & _). rewrite unwrap_vals in HuD. injection HuD as <-.
    assert (Hnames' : mid_names_ok m' = true).
    { apply (mid_names_ok_final m0 m' qI qLi dsi qE qLe dsc qC qLn dsn (vals (firstn nD (skipn (nT + nT + 1 + nL) v0))) Hok0); try assumption.
      rewrite Hs'. symmetry. exact HsymL. }
    rewrite (m_got_spec m' Hnames'). cbn [option_map].
    destruct (leaf_after_items ei qI qLi dsi) as (I1 & I2 & I3); [subst qI; rewrite firstn_length; fold nT; lia | subst qLi; rewrite firstn_length, skipn_length; fold nL; lia|].
    destruct (leaf_after_items nc qC qLn dsn) as (N1 & _ & _); [subst qC; rewrite firstn_length, skipn_length, HTnc; fold nT; lia | subst qLn; rewrite firstn_length, skipn_length, HLnc; fold nL; lia|].
    unfold mid_items. rewrite Hmix', Hs', HsymL, Emix. unfold m_mixing_item, m_midext_item. rewrite Hmix', Emix, Hd'.
    fold (leaf_after ei qI qLi dsi) in Hei'. fold (leaf_after nc qC qLn dsn) in Hnc'. rewrite Hei', Hnc', I1, I2, I3, N1, HiD.
    fold ei nc. cbn [ml_midext m0 ml_with_midext].
    split; f_equal.
    + rewrite !map_app, !pre_vals.
      assert (HqDl : length (map fst (dists_items (u_dists ei))) = length (firstn nD (skipn (nT + nT + 1 + nL) v0))).
      { rewrite map_length, firstn_length, skipn_length. change (length (dists_items (u_dists ei))) with nD. lia. }
      rewrite (map_snd_combine _ _ HqDl).
      rewrite !map_snd_combine by (rewrite map_length; subst; rewrite ?firstn_length, ?skipn_length, ?HTnc; fold nT nL nD; lia).
      cbn [map snd]. subst qI qC qLi mix.
      rewrite <- (decomp5 v0 nT nT nL nD Hlen0) at 6. rewrite <- !app_assoc. reflexivity.
    + rewrite !map_app, !pre_keys.
      assert (HqDl : length (map fst (dists_items (u_dists ei))) = length (firstn nD (skipn (nT + nT + 1 + nL) v0))).
      { rewrite map_length, firstn_length, skipn_length. change (length (dists_items (u_dists ei))) with nD. lia. }
      rewrite (map_fst_combine _ _ HqDl).
      rewrite !map_fst_combine by (rewrite map_length; subst; rewrite ?firstn_length, ?skipn_length, ?HTnc; fold nT nL nD; lia).
      reflexivity.
  - (* without mixing *)
    destruct (m_chain_inv_nomix m0 _ [] m' r Hok0 Emix Ech)
      as (split & glob & nsplit & esplit & ng & eg & qI & qC & qE & qLi & qLe & qLn & m2 & dsplit & dglob & ikw & ckw & dsi & Hc).
    cbv zeta in Hc. change (ml_ei m0) with ei in Hc. change (ml_ec m0) with ec in Hc. change (ml_nc m0) with nc in Hc.
    change (ml_symL m0) with (ml_symL m) in Hc. rewrite HsymL in Hc.
    destruct Hc as (Hu & Hun & Hue & HqI & HqC & HqE & HqLi & HqLe & HqLn & HuD & Hsk & Hdp & Hei' & (dsc & Hec' & Hecok) & (dsn & Hnc' & Hncok) & Hmix' & Hd' & Hs' & Hb').
    rewrite unflatten_nil in Hu, HuD. injection Hu as <- <-. injection HuD as <- <-.
    cbn [sub_kwargs dict_get] in Hun, Hue. rewrite unflatten_nil in Hun, Hue. injection Hun as <- <-. injection Hue as <- <-.
    rewrite obj_kwargs_nil, side_kwargs_nil in Hsk. injection Hsk as <- <-. rewrite !obj_kwargs_nil in *.
    rewrite !app_length, !pre_length in Hlen0. rewrite HTnc, HTec in Hlen0.
    rewrite skipn_skipn in Hdp.
    rewrite plan_none_prefix in HqI by lia.
    rewrite skipn_vals_app in HqC by (rewrite ?HTnc, ?HTec, ?HLnc; lia).
    rewrite skipn_vals_app in HqE by (rewrite ?HTnc, ?HTec, ?HLnc; lia).
    rewrite skipn_vals_app in HqLi by (rewrite ?HTnc, ?HTec, ?HLnc; lia).
    rewrite skipn_vals_app in HqLe by (rewrite ?HTnc, ?HTec, ?HLnc; lia).
    rewrite skipn_vals_app in HqLn by (rewrite ?HTnc, ?HTec, ?HLnc; lia).
    rewrite skipn_vals_app in Hdp by (rewrite ?HTnc, ?HTec, ?HLnc; lia).
    rewrite plan_none_prefix in HqC, HqE, HqLi, HqLe, HqLn, Hdp by (rewrite skipn_length, ?HTnc, ?HTec, ?HLnc, ?HLec; lia).
    apply all_unit_vals_inv in HqI, HqC, HqE, HqLi, HqLe, HqLn.
    set (nT := length (u_tumor_items ei)) in *. set (nL := length (u_lnl_items ei)) in *. set (nD := length (u_dist_items ei)) in *.
    rewrite ?HTnc, ?HTec in HqC. rewrite ?HTnc, ?HTec in HqE. rewrite ?HTnc, ?HTec in HqLi. rewrite ?HTnc, ?HTec, ?HLec in HqLe.
    rewrite ?HTnc, ?HTec, ?HLnc in HqLn. rewrite ?HTnc, ?HTec, ?HLnc in Hdp.
    assert (HlD : length (vals (firstn nD (skipn (nT + nT + nT + nL) v0))) = nD)
      by (rewrite vals_length, firstn_length, skipn_length; lia).
    destruct (dists_put_spec _ _ _ _ Hdp HlD) as (qD & HuD & HiD & _). rewrite unwrap_vals in HuD. injection HuD as <-.
    assert (Hnames' : mid_names_ok m' = true).
    { apply (mid_names_ok_final m0 m' qI qLi dsi qE qLe dsc qC qLn dsn (vals (firstn nD (skipn (nT + nT + nT + nL) v0))) Hok0); try assumption.
      rewrite Hs'. symmetry. exact HsymL. }
    rewrite (m_got_spec m' Hnames'). cbn [option_map].
    destruct (leaf_after_items ei qI qLi dsi) as (I1 & I2 & I3); [subst qI; rewrite firstn_length; fold nT; lia | subst qLi; rewrite firstn_length, skipn_length; fold nL; lia|].
    destruct (leaf_after_items nc qC qLn dsn) as (N1 & _ & _); [subst qC; rewrite firstn_length, skipn_length, HTnc; lia | subst qLn; rewrite firstn_length, skipn_length, HLnc; lia|].
    destruct (leaf_after_items ec qE qLe dsc) as (E1 & _ & _); [subst qE; rewrite firstn_length, skipn_length, HTec; lia | subst qLe; rewrite firstn_length, skipn_length, HLec; lia|].
    unfold mid_items. rewrite Hmix', Hs', HsymL, Emix. unfold m_midext_item. rewrite Hd'.
    fold (leaf_after ei qI qLi dsi) in Hei'. fold (leaf_after nc qC qLn dsn) in Hnc'. fold (leaf_after ec qE qLe dsc) in Hec'.
    rewrite Hei', Hnc', Hec', I1, I2, I3, N1, E1, HiD.
    fold ei nc ec. cbn [ml_midext m0 ml_with_midext].
    assert (HqDl : length (map fst (dists_items (u_dists ei))) = length (firstn nD (skipn (nT + nT + nT + nL) v0))).
    { rewrite map_length, firstn_length, skipn_length. change (length (dists_items (u_dists ei))) with nD. lia. }
    split; f_equal.
    + rewrite !map_app, !pre_vals. rewrite (map_snd_combine _ _ HqDl).
      rewrite !map_snd_combine by (rewrite map_length; subst; rewrite ?firstn_length, ?skipn_length, ?HTnc, ?HTec; fold nT nL nD; lia).
      cbn [map snd]. subst qI qC qE qLi.
      rewrite <- (decomp5' v0 nT nT nT nL nD Hlen0) at 6. rewrite <- !app_assoc. reflexivity.
    + rewrite !map_app, !pre_keys. rewrite (map_fst_combine _ _ HqDl).
      rewrite !map_fst_combine by (rewrite map_length; subst; rewrite ?firstn_length, ?skipn_length, ?HTnc, ?HTec; fold nT nL nD; lia).
      reflexivity.
Qed.

(** * Keyword calls with one keyword per reported name *)
Definition val_of (kw : kwargs) (K : path) : Qc := match kw_get K kw with Some (V y) => y | _ => 0%Qc end.

Lemma block_values lk ps q (g : path -> Qc) : all_unit (plan lk ps []) = Some q ->
  (forall k, In k (map fst ps) -> lk k = Some (V (g k))) -> q = map g (map fst ps).
Proof.
  intros Hq Hlk. assert (Hp : plan lk ps [] = vals (map g (map fst ps))).
  { apply plan_all_kw; [rewrite vals_length, !map_length; reflexivity|]. intros k v Hin.
    assert (Hk : In k (map fst ps)) by (apply in_combine_l in Hin; exact Hin). rewrite (Hlk k Hk). f_equal.
    clear - Hin. revert Hin. generalize (map fst ps). intros ks. induction ks as [|k0 ks IH]; cbn; [tauto|].
    intros [[= <- <-]|Hin]; [reflexivity | apply IH, Hin]. }
  rewrite Hp in Hq. apply all_unit_vals_inv in Hq. exact Hq.
Qed.
Lemma combine_map_g (ps : list (path * Qc)) (g : path -> Qc) :
  combine (map fst ps) (map g (map fst ps)) = map (fun kv => (fst kv, g (fst kv))) ps.
Proof. induction ps as [|[k x] ps IH]; [reflexivity|]. cbn. rewrite IH. reflexivity. Qed.
Lemma pre_map_g p (ps : list (path * Qc)) (g : path -> Qc) :
  pre p (map (fun kv => (fst kv, g (p ++ fst kv))) ps) = map (fun kv => (fst kv, g (fst kv))) (pre p ps).
Proof. unfold pre, prefix. rewrite !map_map. reflexivity. Qed.
Lemma val_of_kw_of names : NoDup names -> forall v, length v = length names -> map (val_of (kw_of names v)) names = v.
Proof.
  intros Hnd. induction names as [|k names IH]; intros [|x v] Hl; cbn [length] in Hl; try discriminate; [reflexivity|].
  inversion Hnd as [|? ? Hni Hnd']; subst. cbn [map]. f_equal.
  - unfold val_of, kw_of. cbn [vals map combine kw_get]. rewrite path_eqb_refl. reflexivity.
  - rewrite <- (IH Hnd' v) at 2 by lia. apply map_ext_in. intros K HK. unfold val_of, kw_of. cbn [vals map combine kw_get].
    rewrite path_eqb_neq; [reflexivity | intros ->; contradiction].
Qed.

(** shape of the reported names of a midline model *)
Lemma mid_name_form m K : In K (map fst (mid_items m)) ->
  (exists n s, K = ["ipsi"; n; s] /\ EN (ml_ei m) n) \/ (exists n s, K = ["contra"; n; s]) \/ K = ["mixing"] \/
  (exists n s, K = ["noext"; "contra"; n; s]) \/ (exists n s, K = ["ext"; "contra"; n; s]) \/
  (exists n s, K = [n; s] /\ (EN (ml_ei m) n \/ TS (ml_ei m) n)) \/ K = ["midext"; "prob"].
Proof.
  assert (Hp : forall (p : path) u k', (In k' (map fst (u_tumor_items u)) \/ In k' (map fst (u_lnl_items u))) ->
                 exists n s, p ++ k' = p ++ [n; s] /\ EN u n).
  { intros p u k' H. destruct (spread_key_form u k' H) as (n & s & -> & Hn). eauto. }
  unfold mid_items, m_mixing_item, m_midext_item.
  destruct (ml_mixing m) as [mix|], (ml_symL m);
    rewrite ?map_app, ?pre_app, ?map_app, ?in_app_iff, ?in_pre_keys; cbn [map fst In]; intros Hin;
    repeat match goal with H : _ \/ _ |- _ => destruct H end;
    repeat match goal with H : exists k', _ /\ _ |- _ => destruct H as (? & -> & ?) end; subst; try tauto.
  all: try (match goal with H : In ?k (map fst (u_tumor_items ?u)) |- _ => destruct (spread_key_form u k (or_introl H)) as (n & s & -> & Hn) end).
  all: try (match goal with H : In ?k (map fst (u_lnl_items ?u)) |- _ => destruct (spread_key_form u k (or_intror H)) as (n & s & -> & Hn) end).
  all: try (match goal with H : In ?k (map fst (u_dist_items ?u)) |- _ => destruct (dist_key_form u k H) as (n & s & -> & Hn) end).
  all: cbn [app]; eauto 12.
Qed.

Ltac form_cases H :=
  apply mid_name_form in H; repeat (destruct H as [H|H]);
  repeat match type of H with ex _ => let x := fresh "x" in destruct H as (x & H) end;
  try match type of H with _ /\ _ => let H' := fresh "Hform" in destruct H as [H H'] end.

Lemma not_empty_X4 : ~ In "" X4. Proof. cbn. intuition discriminate. Qed.

Section MidKw.
  Variables (m : midline) (v : list Qc).
  Hypothesis Hok : mid_set_ok m = true.
  Hypothesis Hl : length v = length (mid_items m).
  Let names := map fst (mid_items m).
  Let kw := kw_of names v.
  Let Hok' : mid_names_ok m = true. Proof. unfold mid_set_ok in Hok. rewrite !andb_true_iff in Hok. apply Hok. Qed.
  Let Hei : u_names_ok (ml_ei m) = true. Proof. apply (m_ok_parts m Hok'). Qed.

  Lemma kw_keys : map fst kw = names.
  Proof. apply kw_of_keys. unfold names. rewrite map_length. exact Hl. Qed.
  Lemma kw_nd : NoDup (map fst kw).
  Proof. rewrite kw_keys. apply mid_items_NoDup, Hok'. Qed.
  Lemma kw_in K : In K names -> kw_last K kw = Some (V (val_of kw K)).
  Proof.
    intros H. rewrite kw_last_NoDup by apply kw_nd. destruct (kw_of_get names v K) as (y & Hy); [unfold names; rewrite map_length; exact Hl | exact H|].
    fold kw in Hy. unfold val_of. rewrite Hy. reflexivity.
  Qed.
  Lemma kw_notin K : ~ In K names -> kw_last K kw = None.
  Proof. intros H. rewrite kw_last_NoDup by apply kw_nd. apply kw_get_In_None. rewrite kw_keys. exact H. Qed.

  Section WithX4.
    Variables (split : list (string * kwargs)) (glob : kwargs).
    Hypothesis Hu : unflatten_and_split kw X4 = (split, glob).

    Lemma lk_side side n t : In side X4 -> In (side :: n :: t) names ->
      u_lk (obj_kwargs side split glob) (n :: t) = Some (V (val_of kw (side :: n :: t))).
    Proof.
      intros Hs Hin. unfold u_lk. rewrite kw_last_NoDup by (apply (obj_kwargs_NoDup kw X4); exact Hu).
      rewrite (obj_kwargs_lookup kw X4 side (n :: t) split glob not_empty_X4 Hu Hs). unfold eff. rewrite (kw_in _ Hin). reflexivity.
    Qed.
    Lemma lk_glob n t : ~ In n X4 -> In (n :: t) names -> u_lk glob (n :: t) = Some (V (val_of kw (n :: t))).
    Proof.
      intros Hn Hin. unfold u_lk. destruct (glob_lookup kw X4 (n :: t) split glob not_empty_X4 Hu) as [Hg Hnd].
      rewrite kw_last_NoDup by exact Hnd. rewrite Hg. unfold head_of. cbn [partition_key fst]. apply mem_false in Hn. rewrite Hn.
      rewrite (kw_in _ Hin). reflexivity.
    Qed.
    Lemma lk_mixing : In ["mixing"] names -> kw_get ["mixing"] glob = Some (V (val_of kw ["mixing"])).
    Proof.
      intros Hin. destruct (glob_lookup kw X4 ["mixing"] split glob not_empty_X4 Hu) as [Hg _]. rewrite Hg. cbn. apply (kw_in _ Hin).
    Qed.
    Lemma lk_nested side nsplit ng n t : (side = "noext" \/ side = "ext") ->
      unflatten_and_split (sub_kwargs side split) ["contra"] = (nsplit, ng) -> In (side :: "contra" :: n :: t) names ->
      u_lk (obj_kwargs "contra" nsplit glob) (n :: t) = Some (V (val_of kw (side :: "contra" :: n :: t))).
    Proof.
      intros Hside Hun Hin. assert (Hs : In side X4) by (destruct Hside as [-> | ->]; cbn; tauto).
      destruct (glob_lookup kw X4 (n :: t) split glob not_empty_X4 Hu) as [_ Hgnd].
      assert (Hc : ~ In "" ["contra"]) by (cbn; intuition discriminate).
      destruct (sub_kwargs_lookup (sub_kwargs side split) ["contra"] "contra" (n :: t) nsplit ng Hc Hun (or_introl eq_refl)) as [Hsub Hsnd].
      destruct (sub_kwargs_lookup kw X4 side ("contra" :: n :: t) split glob not_empty_X4 Hu Hs) as [Hsub2 Hsnd2].
      unfold u_lk, obj_kwargs. rewrite kw_last_NoDup by (apply kw_update_NoDup, Hgnd).
      rewrite kw_get_update, kw_get_rev_NoDup by exact Hsnd. rewrite Hsub, kw_last_NoDup by exact Hsnd2. rewrite Hsub2, (kw_in _ Hin). reflexivity.
    Qed.
  End WithX4.

  (** distributions: the keyword "t_k" travels ext -> ipsi -> T-stage as a global name *)
  Lemma lk_dist XDl dsplit dglob ikw ckw t k :
    In "ext" XDl -> (forall s, In s XDl -> In s ["ext"; "noext"; "central"; "unknown"]) ->
    unflatten_and_split kw XDl = (dsplit, dglob) -> side_kwargs (obj_kwargs "ext" dsplit dglob) = (ikw, ckw) ->
    In [t; k] names -> TS (ml_ei m) t ->
    u_lk ikw [t; k] = Some (V (val_of kw [t; k])).
  Proof.
    intros Hext Hsub Hud Hsk Hin Ht.
    assert (HeD : ~ In "" XDl) by (intros H; apply Hsub in H; cbn in H; intuition discriminate).
    assert (Htres : forall w, In w reserved -> t <> w) by (intros w Hw ->; exact (in_reserved_not_tstage (ml_ei m) _ Hei Hw Ht)).
    assert (HtXD : ~ In t XDl) by (intros H; apply Hsub in H; cbn in H; destruct H as [H|[H|[H|[H|[]]]]]; symmetry in H; revert H; apply Htres; cbn; tauto).
    set (ekw := obj_kwargs "ext" dsplit dglob) in *.
    assert (Hend : NoDup (map fst ekw)) by (apply (obj_kwargs_NoDup kw XDl); exact Hud).
    assert (Hekw : forall K, kw_last K ekw = eff XDl kw "ext" K)
      by (intros K; rewrite kw_last_NoDup by exact Hend; apply (obj_kwargs_lookup kw XDl "ext" K dsplit dglob HeD Hud Hext)).
    destruct (side_kwargs_lk ekw ikw ckw Hsk) as [Hlk _]. rewrite Hlk. unfold side_lk, eff at 1. rewrite !Hekw.
    (* "ipsi_t_k" is not there, neither through "ext_ipsi_t_k" *)
    assert (N1 : ~ In ["ext"; "ipsi"; t; k] names).
    { intros H. form_cases H; discriminate. }
    assert (N2 : ~ In ["ipsi"; t; k] names).
    { intros H. form_cases H; try discriminate. injection H as -> ->. exact (EN_TS_disj (ml_ei m) Hei _ Hform Ht). }
    assert (N3 : ~ In ["ext"; t; k] names).
    { intros H. form_cases H; discriminate. }
    unfold eff. rewrite (kw_notin _ N1). unfold head_of. cbn [partition_key fst].
    assert (Hi : mem "ipsi" XDl = false) by (apply mem_false; intros H; apply Hsub in H; cbn in H; intuition discriminate).
    rewrite Hi, (kw_notin _ N2). cbn [mem sides].
    assert (Hts : str_eqb t "ipsi" || (str_eqb t "contra" || false) = false).
    { rewrite !str_eqb_neq; [reflexivity | apply Htres; cbn; tauto | apply Htres; cbn; tauto]. }
    rewrite Hts, (kw_notin _ N3). apply mem_false in HtXD. rewrite HtXD, (kw_in _ Hin). reflexivity.
  Qed.
End MidKw.

Lemma popat_nil {A} (idx : Z) : (0 <= idx)%Z -> popat (@nil A) idx = ([], None, []).
Proof.
  intros H. unfold popat. cbn [length]. assert (H0 : (idx <? 0)%Z = false) by (apply Z.ltb_ge; lia). rewrite H0.
  assert (H1 : (idx >=? Z.of_nat 0)%Z = true) by (rewrite Z.geb_leb; apply Z.leb_le; lia). rewrite H0, H1. reflexivity.
Qed.
Lemma skipn_nil' {A} n : skipn n (@nil A) = [].
Proof. destruct n; reflexivity. Qed.
Lemma dist_block_values maxt ds lk (ps : list (path * Qc)) dsi (g : path -> Qc) :
  dists_put maxt ds (plan lk ps []) = Some dsi -> length ps = length (dists_items ds) ->
  (forall k, In k (map fst ps) -> lk k = Some (V (g k))) ->
  dists_items dsi = combine (map fst (dists_items ds)) (map g (map fst ps)).
Proof.
  intros Hdp Hlen Hlk.
  assert (Hp : plan lk ps [] = vals (map g (map fst ps))).
  { apply plan_all_kw; [rewrite vals_length, !map_length; reflexivity|]. intros k v0 Hin.
    assert (Hk : In k (map fst ps)) by (apply in_combine_l in Hin; exact Hin). rewrite (Hlk k Hk). f_equal.
    clear - Hin. revert Hin. generalize (map fst ps). intros ks. induction ks as [|k0 ks IH]; cbn; [tauto|].
    intros [[= <- <-]|Hin]; [reflexivity | apply IH, Hin]. }
  rewrite Hp in Hdp.
  destruct (dists_put_spec _ _ _ _ Hdp) as (qD & HuD & HiD & _); [rewrite vals_length, !map_length; exact Hlen|].
  rewrite unwrap_vals in HuD. injection HuD as <-. exact HiD.
Qed.

Theorem mid_set_get_keyword : C10_mid_set_get_keyword_stmt.
Proof.
  intros m v Hok Hl r Hr. subst r.
  assert (Hok' : mid_names_ok m = true) by (unfold mid_set_ok in Hok; rewrite !andb_true_iff in Hok; apply Hok).
  destruct (m_ok_parts m Hok') as (Hei & Hec & Hnc & _ & _ & _ & _ & HbsymL).
  set (names := map fst (mid_items m)) in *. set (kw := kw_of names v) in *.
  pose proof (kw_in m v Hok Hl) as Hkin. pose proof (kw_notin m v Hok Hl) as Hknot. fold names kw in Hkin, Hknot.
  assert (Hmid_in : In ["midext"; "prob"] names).
  { unfold names. rewrite mid_items_split, !map_app, !in_app_iff. right. right. left. reflexivity. }
  rewrite (m_set_params_unfold m _ kw Hok') in Hr |- *.
  rewrite popat_nil in * by (rewrite mid_items_split, !app_length; cbn [m_midext_item length]; lia).
  cbv beta iota zeta in Hr |- *.
  assert (Hmp : kw_get ["midext"; "prob"] kw = Some (V (val_of kw ["midext"; "prob"]))).
  { rewrite <- (kw_last_NoDup _ _ (kw_nd m v Hok Hl)). apply Hkin, Hmid_in. }
  rewrite Hmp in Hr |- *.
  destruct (check_unit (V (val_of kw ["midext"; "prob"]))) as [x'|] eqn:Ex; cbn [option_map] in Hr |- *; [|exfalso; apply Hr; reflexivity].
  apply check_unit_Some in Ex. destruct Ex as [[= <-] _].
  set (x := val_of kw ["midext"; "prob"]) in *. set (m0 := ml_with_midext m x) in *.
  assert (Hok0 : mid_set_ok m0 = true) by exact Hok.
  destruct (andthen (m_set_spread_params m0 ([] ++ []) kw) (fun m1 a1 => m_set_distribution_params m1 a1 kw)) as [m' [r|]] eqn:Ech;
    [|exfalso; apply Hr; reflexivity]. cbn [fst snd app] in *. clear Hr.
  set (ei := ml_ei m) in *. set (ec := ml_ec m) in *. set (nc := ml_nc m) in *.
  set (g := fun K : path => val_of kw K).
  (* goal: the reported items are the old names with the keyword values *)
  enough (Hitems : mid_names_ok m' = true /\ mid_items m' = map (fun kv => (fst kv, g (fst kv))) (mid_items m)).
  { destruct Hitems as [Hn' Hi']. rewrite (m_got_spec m' Hn'), Hi'. cbn [option_map]. rewrite !map_map. cbn [fst snd]. split; [f_equal | reflexivity].
    rewrite <- (map_map fst g). fold names. unfold g, kw. apply val_of_kw_of; [apply mid_items_NoDup, Hok' | unfold names; rewrite map_length; exact Hl]. }
  assert (Hin_names : forall K, In K (map fst (mid_items m)) -> In K names) by (intros K HK; exact HK).
  destruct (ml_mixing m) as [cur|] eqn:Emix.
  - (* with mixing *)
    destruct (m_chain_inv_mix m0 [] kw m' r cur Hok0 Emix Ech)
      as (split & glob & qI & qC & mix & qE & qLi & qLe & qLn & m2 & dsplit & dglob & ikw & ckw & dsi & Hc).
    cbv zeta in Hc. change (ml_ei m0) with ei in Hc. change (ml_ec m0) with ec in Hc. change (ml_nc m0) with nc in Hc.
    change (ml_symL m0) with (ml_symL m) in Hc. destruct (ml_symL m) eqn:EsymL; rewrite !skipn_nil' in Hc;
    destruct Hc as (Hu & HqI & HqC & Hmx & HqLi & HqLe & HqLn & HuD & Hsk & Hdp & Hei' & (dsc & Hec' & Hecok) & (dsn & Hnc' & Hncok) & Hmix' & Hd' & Hs' & Hb');
    (assert (Hmixin : In ["mixing"] names)
      by (unfold names, mid_items, m_mixing_item; rewrite Emix, EsymL, !map_app, !in_app_iff; cbn; tauto));
    rewrite (lk_mixing m v Hok Hl split glob Hu Hmixin) in Hmx; apply check_unit_Some in Hmx; destruct Hmx as [[= Hmixv] _];
    (assert (Hdi : dists_items dsi = combine (map fst (u_dist_items ei)) (map g (map fst (u_dist_items ei))))
      by (apply (dist_block_values _ _ _ _ _ g Hdp); [reflexivity|]; intros k Hk;
          destruct (dist_key_form ei k Hk) as (t & s & -> & Ht); destruct (XD_props m2) as [Hx1 Hx2];
          apply (lk_dist m v Hok Hl (XD m2) dsplit dglob ikw ckw t s Hx1 Hx2 HuD Hsk); [|exact Ht];
          unfold names; rewrite mid_items_split, !map_app, !in_app_iff; right; left; exact Hk)).
    + (* symmetric LNL spread *)
      assert (EqI : qI = map (fun k => g ("ipsi" :: k)) (map fst (u_tumor_items ei))).
      { apply (block_values _ _ _ _ HqI). intros k Hk. destruct (spread_key_form ei k (or_introl Hk)) as (n & s & -> & _).
        apply (lk_side m v Hok Hl split glob Hu "ipsi"); [cbn; tauto|].
        unfold names, mid_items. rewrite Emix, EsymL, !map_app, !in_app_iff, !in_pre_keys. left. exists [n; s]. split; [reflexivity | exact Hk]. }
      assert (EqC : qC = map (fun k => g ("contra" :: k)) (map fst (u_tumor_items nc))).
      { apply (block_values _ _ _ _ HqC). intros k Hk. destruct (spread_key_form nc k (or_introl Hk)) as (n & s & -> & _).
        apply (lk_side m v Hok Hl split glob Hu "contra"); [cbn; tauto|].
        unfold names, mid_items. rewrite Emix, EsymL, !map_app, !in_app_iff, !in_pre_keys. right. left. exists [n; s]. split; [reflexivity | exact Hk]. }
      assert (EqL : qLi = map g (map fst (u_lnl_items ei))).
      { apply (block_values _ _ _ _ HqLi). intros k Hk. destruct (spread_key_form ei k (or_intror Hk)) as (n & s & -> & Hn).
        apply (lk_glob m v Hok Hl split glob Hu).
        - intros H4. apply (in_reserved_not_edge ei n Hei); [|exact Hn]. cbn in H4. cbn. intuition.
        - unfold names, mid_items. rewrite Emix, EsymL, !map_app, !in_app_iff. right. right. right. left. exact Hk. }
      assert (Hnames' : mid_names_ok m' = true).
      { apply (mid_names_ok_final m0 m' qI qLi dsi qE qLe dsc qC qLn dsn _ Hok0 Hei' Hec' Hnc' Hecok Hncok Hdp); [apply plan_length | rewrite Hs'; symmetry; exact EsymL | exact Hb']. }
      split; [exact Hnames'|].
      destruct (leaf_after_items ei qI qLi dsi) as (I1 & I2 & I3); [rewrite EqI, !map_length; reflexivity | rewrite EqL, !map_length; reflexivity|].
      destruct (leaf_after_items nc qC qLn dsn) as (N1 & _ & _); [rewrite EqC, !map_length; reflexivity | apply (plan_lengths _ _ _ _ HqLn)|].
      unfold mid_items. rewrite Hmix', Hs', Emix, EsymL. unfold m_mixing_item, m_midext_item. rewrite Hmix', Emix, Hd'.
      fold (leaf_after ei qI qLi dsi) in Hei'. fold (leaf_after nc qC qLn dsn) in Hnc'. rewrite Hei', Hnc', I1, I2, I3, N1, Hdi.
      fold ei nc. rewrite EqI, EqC, EqL, !combine_map_g, !map_app.
      rewrite <- (pre_map_g ["ipsi"] (u_tumor_items ei) g), <- (pre_map_g ["contra"] (u_tumor_items nc) g).
      cbn [map fst]. rewrite <- Hmixv. reflexivity.
    + (* asymmetric LNL spread *)
      assert (EqI : qI = map (fun k => g ("ipsi" :: k)) (map fst (u_tumor_items ei))).
      { apply (block_values _ _ _ _ HqI). intros k Hk. destruct (spread_key_form ei k (or_introl Hk)) as (n & s & -> & _).
        apply (lk_side m v Hok Hl split glob Hu "ipsi"); [cbn; tauto|].
        unfold names, mid_items. rewrite Emix, EsymL, !map_app, !pre_app, !map_app, !in_app_iff, !in_pre_keys. left. left. exists [n; s]. split; [reflexivity | exact Hk]. }
      assert (EqC : qC = map (fun k => g ("contra" :: k)) (map fst (u_tumor_items nc))).
      { apply (block_values _ _ _ _ HqC). intros k Hk. destruct (spread_key_form nc k (or_introl Hk)) as (n & s & -> & _).
        apply (lk_side m v Hok Hl split glob Hu "contra"); [cbn; tauto|].
        unfold names, mid_items. rewrite Emix, EsymL, !map_app, !pre_app, !map_app, !in_app_iff, !in_pre_keys. right. left. left. exists [n; s]. split; [reflexivity | exact Hk]. }
      assert (EqL : qLi = map (fun k => g ("ipsi" :: k)) (map fst (u_lnl_items ei))).
      { apply (block_values _ _ _ _ HqLi). intros k Hk. destruct (spread_key_form ei k (or_intror Hk)) as (n & s & -> & Hn).
        apply (lk_side m v Hok Hl split glob Hu "ipsi"); [cbn; tauto|].
        unfold names, mid_items. rewrite Emix, EsymL, !map_app, !pre_app, !map_app, !in_app_iff, !in_pre_keys. left. right. exists [n; s]. split; [reflexivity | exact Hk]. }
      assert (EqLe : qLe = map (fun k => g ("contra" :: k)) (map fst (u_lnl_items ec))).
      { apply (block_values _ _ _ _ HqLe). intros k Hk. destruct (spread_key_form ec k (or_intror Hk)) as (n & s & -> & Hn).
        apply (lk_side m v Hok Hl split glob Hu "contra"); [cbn; tauto|].
        unfold names, mid_items. rewrite Emix, EsymL, !map_app, !pre_app, !map_app, !in_app_iff, !in_pre_keys. right. left. right. exists [n; s]. split; [reflexivity | exact Hk]. }
      assert (Hnames' : mid_names_ok m' = true).
      { apply (mid_names_ok_final m0 m' qI qLi dsi qE qLe dsc qC qLn dsn _ Hok0 Hei' Hec' Hnc' Hecok Hncok Hdp); [apply plan_length | rewrite Hs'; symmetry; exact EsymL | exact Hb']. }
      split; [exact Hnames'|].
      destruct (leaf_after_items ei qI qLi dsi) as (I1 & I2 & I3); [rewrite EqI, !map_length; reflexivity | rewrite EqL, !map_length; reflexivity|].
      destruct (leaf_after_items nc qC qLn dsn) as (N1 & _ & _); [rewrite EqC, !map_length; reflexivity | apply (plan_lengths _ _ _ _ HqLn)|].
      pose proof (leaf_after_lnl ec qE qLe dsc) as E2. rewrite EqLe, !map_length in E2. specialize (E2 eq_refl). rewrite <- EqLe in E2.
      unfold mid_items. rewrite Hmix', Hs', Emix, EsymL. unfold m_mixing_item, m_midext_item. rewrite Hmix', Emix, Hd'.
      fold (leaf_after ei qI qLi dsi) in Hei'. fold (leaf_after nc qC qLn dsn) in Hnc'. fold (leaf_after ec qE qLe dsc) in Hec'.
      rewrite Hei', Hnc', Hec', I1, I2, I3, N1, E2, Hdi.
      fold ei nc ec. rewrite EqI, EqC, EqL, EqLe, !combine_map_g, !map_app, !pre_app, !map_app.
      rewrite <- (pre_map_g ["ipsi"] (u_tumor_items ei) g), <- (pre_map_g ["contra"] (u_tumor_items nc) g).
      rewrite <- (pre_map_g ["ipsi"] (u_lnl_items ei) g), <- (pre_map_g ["contra"] (u_lnl_items ec) g).
      cbn [map fst]. rewrite <- Hmixv. rewrite <- !app_assoc. reflexivity.
  - (* without mixing *)
    destruct (m_chain_inv_nomix m0 [] kw m' r Hok0 Emix Ech)
      as (split & glob & nsplit & esplit & ng & eg & qI & qC & qE & qLi & qLe & qLn & m2 & dsplit & dglob & ikw & ckw & dsi & Hc).
    cbv zeta in Hc. change (ml_ei m0) with ei in Hc. change (ml_ec m0) with ec in Hc. change (ml_nc m0) with nc in Hc.
    change (ml_symL m0) with (ml_symL m) in Hc. destruct (ml_symL m) eqn:EsymL; rewrite !skipn_nil' in Hc;
    destruct Hc as (Hu & Hun & Hue & HqI & HqC & HqE & HqLi & HqLe & HqLn & HuD & Hsk & Hdp & Hei' & (dsc & Hec' & Hecok) & (dsn & Hnc' & Hncok) & Hmix' & Hd' & Hs' & Hb');
    (assert (Hdi : dists_items dsi = combine (map fst (u_dist_items ei)) (map g (map fst (u_dist_items ei))))
      by (apply (dist_block_values _ _ _ _ _ g Hdp); [reflexivity|]; intros k Hk;
          destruct (dist_key_form ei k Hk) as (t & s & -> & Ht); destruct (XD_props m2) as [Hx1 Hx2];
          apply (lk_dist m v Hok Hl (XD m2) dsplit dglob ikw ckw t s Hx1 Hx2 HuD Hsk); [|exact Ht];
          unfold names; rewrite mid_items_split, !map_app, !in_app_iff; right; left; exact Hk)).
    + (* symmetric LNL spread *)
      assert (EqI : qI = map (fun k => g ("ipsi" :: k)) (map fst (u_tumor_items ei))).
      { apply (block_values _ _ _ _ HqI). intros k Hk. destruct (spread_key_form ei k (or_introl Hk)) as (n & s & -> & _).
        apply (lk_side m v Hok Hl split glob Hu "ipsi"); [cbn; tauto|].
        unfold names, mid_items. rewrite Emix, EsymL, !map_app, !in_app_iff, !in_pre_keys. left. exists [n; s]. split; [reflexivity | exact Hk]. }
      assert (EqC : qC = map (fun k => g ("noext" :: "contra" :: k)) (map fst (u_tumor_items nc))).
      { apply (block_values _ _ _ _ HqC). intros k Hk. destruct (spread_key_form nc k (or_introl Hk)) as (n & s & -> & _).
        apply (lk_nested m v Hok Hl split glob Hu "noext" nsplit ng); [tauto | exact Hun|].
        unfold names, mid_items. rewrite Emix, EsymL, !map_app, !in_app_iff, !in_pre_keys. right. left. exists [n; s]. split; [reflexivity | exact Hk]. }
      assert (EqE : qE = map (fun k => g ("ext" :: "contra" :: k)) (map fst (u_tumor_items ec))).
      { apply (block_values _ _ _ _ HqE). intros k Hk. destruct (spread_key_form ec k (or_introl Hk)) as (n & s & -> & _).
        apply (lk_nested m v Hok Hl split glob Hu "ext" esplit eg); [tauto | exact Hue|].
        unfold names, mid_items. rewrite Emix, EsymL, !map_app, !in_app_iff, !in_pre_keys. right. right. left. exists [n; s]. split; [reflexivity | exact Hk]. }
      assert (EqL : qLi = map g (map fst (u_lnl_items ei))).
      { apply (block_values _ _ _ _ HqLi). intros k Hk. destruct (spread_key_form ei k (or_intror Hk)) as (n & s & -> & Hn).
        apply (lk_glob m v Hok Hl split glob Hu).
        - intros H4. apply (in_reserved_not_edge ei n Hei); [|exact Hn]. cbn in H4. cbn. intuition.
        - unfold names, mid_items. rewrite Emix, EsymL, !map_app, !in_app_iff. right. right. right. left. exact Hk. }
      assert (Hnames' : mid_names_ok m' = true).
      { apply (mid_names_ok_final m0 m' qI qLi dsi qE qLe dsc qC qLn dsn _ Hok0 Hei' Hec' Hnc' Hecok Hncok Hdp); [apply plan_length | rewrite Hs'; symmetry; exact EsymL | exact Hb']. }
      split; [exact Hnames'|].
      destruct (leaf_after_items ei qI qLi dsi) as (I1 & I2 & I3); [rewrite EqI, !map_length; reflexivity | rewrite EqL, !map_length; reflexivity|].
      destruct (leaf_after_items nc qC qLn dsn) as (N1 & _ & _); [rewrite EqC, !map_length; reflexivity | apply (plan_lengths _ _ _ _ HqLn)|].
      destruct (leaf_after_items ec qE qLe dsc) as (E1 & _ & _); [rewrite EqE, !map_length; reflexivity | apply (plan_lengths _ _ _ _ HqLe)|].
      unfold mid_items. rewrite Hmix', Hs', Emix, EsymL. unfold m_midext_item. rewrite Hd'.
      fold (leaf_after ei qI qLi dsi) in Hei'. fold (leaf_after nc qC qLn dsn) in Hnc'. fold (leaf_after ec qE qLe dsc) in Hec'.
      rewrite Hei', Hnc', Hec', I1, I2, I3, N1, E1, Hdi.
      fold ei nc ec. rewrite EqI, EqC, EqE, EqL, !combine_map_g, !map_app.
      rewrite <- (pre_map_g ["ipsi"] (u_tumor_items ei) g), <- (pre_map_g ["noext"; "contra"] (u_tumor_items nc) g),
              <- (pre_map_g ["ext"; "contra"] (u_tumor_items ec) g).
      reflexivity.
    + (* asymmetric LNL spread *)
      assert (EqI : qI = map (fun k => g ("ipsi" :: k)) (map fst (u_tumor_items ei))).
      { apply (block_values _ _ _ _ HqI). intros k Hk. destruct (spread_key_form ei k (or_introl Hk)) as (n & s & -> & _).
        apply (lk_side m v Hok Hl split glob Hu "ipsi"); [cbn; tauto|].
        unfold names, mid_items. rewrite Emix, EsymL, !map_app, !pre_app, !map_app, !in_app_iff, !in_pre_keys. left. left. exists [n; s]. split; [reflexivity | exact Hk]. }
      assert (EqC : qC = map (fun k => g ("noext" :: "contra" :: k)) (map fst (u_tumor_items nc))).
      { apply (block_values _ _ _ _ HqC). intros k Hk. destruct (spread_key_form nc k (or_introl Hk)) as (n & s & -> & _).
        apply (lk_nested m v Hok Hl split glob Hu "noext" nsplit ng); [tauto | exact Hun|].
        unfold names, mid_items. rewrite Emix, EsymL, !map_app, !pre_app, !map_app, !in_app_iff, !in_pre_keys. right. left. exists [n; s]. split; [reflexivity | exact Hk]. }
      assert (EqE : qE = map (fun k => g ("ext" :: "contra" :: k)) (map fst (u_tumor_items ec))).
      { apply (block_values _ _ _ _ HqE). intros k Hk. destruct (spread_key_form ec k (or_introl Hk)) as (n & s & -> & _).
        apply (lk_nested m v Hok Hl split glob Hu "ext" esplit eg); [tauto | exact Hue|].
        unfold names, mid_items. rewrite Emix, EsymL, !map_app, !pre_app, !map_app, !in_app_iff, !in_pre_keys. right. right. left. exists [n; s]. split; [reflexivity | exact Hk]. }
      assert (EqL : qLi = map (fun k => g ("ipsi" :: k)) (map fst (u_lnl_items ei))).
      { apply (block_values _ _ _ _ HqLi). intros k Hk. destruct (spread_key_form ei k (or_intror Hk)) as (n & s & -> & Hn).
        apply (lk_side m v Hok Hl split glob Hu "ipsi"); [cbn; tauto|].
        unfold names, mid_items. rewrite Emix, EsymL, !map_app, !pre_app, !map_app, !in_app_iff, !in_pre_keys. left. right. exists [n; s]. split; [reflexivity | exact Hk]. }
      assert (EqLe : qLe = map (fun k => g ("contra" :: k)) (map fst (u_lnl_items ec))).
      { apply (block_values _ _ _ _ HqLe). intros k Hk. destruct (spread_key_form ec k (or_intror Hk)) as (n & s & -> & Hn).
        apply (lk_side m v Hok Hl split glob Hu "contra"); [cbn; tauto|].
        unfold names, mid_items. rewrite Emix, EsymL, !map_app, !pre_app, !map_app, !in_app_iff, !in_pre_keys. right. right. right. left. exists [n; s]. split; [reflexivity | exact Hk]. }
      assert (Hnames' : mid_names_ok m' = true).
      { apply (mid_names_ok_final m0 m' qI qLi dsi qE qLe dsc qC qLn dsn _ Hok0 Hei' Hec' Hnc' Hecok Hncok Hdp); [apply plan_length | rewrite Hs'; symmetry; exact EsymL | exact Hb']. }
      split; [exact Hnames'|].
      destruct (leaf_after_items ei qI qLi dsi) as (I1 & I2 & I3); [rewrite EqI, !map_length; reflexivity | rewrite EqL, !map_length; reflexivity|].
      destruct (leaf_after_items nc qC qLn dsn) as (N1 & _ & _); [rewrite EqC, !map_length; reflexivity | apply (plan_lengths _ _ _ _ HqLn)|].
      destruct (leaf_after_items ec qE qLe dsc) as (E1 & E2 & _); [rewrite EqE, !map_length; reflexivity | rewrite EqLe, !map_length; reflexivity|].
      unfold mid_items. rewrite Hmix', Hs', Emix, EsymL. unfold m_midext_item. rewrite Hd'.
      fold (leaf_after ei qI qLi dsi) in Hei'. fold (leaf_after nc qC qLn dsn) in Hnc'. fold (leaf_after ec qE qLe dsc) in Hec'.
      rewrite Hei', Hnc', Hec', I1, I2, I3, N1, E1, E2, Hdi.
      fold ei nc ec. rewrite EqI, EqC, EqE, EqL, EqLe, !combine_map_g, !map_app, !pre_app, !map_app.
      rewrite <- (pre_map_g ["ipsi"] (u_tumor_items ei) g), <- (pre_map_g ["noext"; "contra"] (u_tumor_items nc) g),
              <- (pre_map_g ["ext"; "contra"] (u_tumor_items ec) g).
      rewrite <- (pre_map_g ["ipsi"] (u_lnl_items ei) g), <- (pre_map_g ["contra"] (u_lnl_items ec) g).
      rewrite <- !app_assoc. reflexivity.
Qed.
