(** Hash: what [__hash__] and [__eq__] of modalities, diagnosis-time distributions,
    graph nodes / edges / representations and the models' modality / distribution
    collections look at.

    Python's [hash] itself is NOT modelled (trusted, unknown, collisions possible).
    What is modelled is the KEY that each [__hash__] hands to [hash] and the
    relation each [__eq__] decides:

    - [Modality.__hash__]   = hash(confusion_matrix.tobytes())           -> [mod_key]
    - [Modality.__eq__]     = np.all(confusion matrices equal)           -> [mod_eq]
    - [Distribution.__hash__] = hash((is_updateable, args + keywords tuple, pmf bytes)) -> [dist_key]
    - [Distribution.__eq__]                                              -> [dist_eq]
    - [AbstractNode.__hash__] = hash((name, state, allowed_states))      -> [node_key]
    - [Edge.__hash__]       = hash((name, transition_tensor.tobytes()))  -> [edge_key]
    - [Representation.__hash__] folds the edge hashes in edge order      -> [graph_key]
    - [Composite.modalities_hash] / [Composite.distributions_hash] fold
      (hash_res, name, hash(item)) over a leaf's dict and (hash_res, child hash)
      over a branch's children                                           -> [coll_key]

    [is_trinary] is fixed per model, so the modality key is taken for a given base
    [b] (2 or 3).  Two distributions are compared at one [max_time] (numpy raises or
    broadcasts on different lengths: outside the statements).
    Executable definitions and the statements of the C20 theorems only; proofs are
    in HashProofs.v. *)
From LymphModel Require Import Base States Linalg Graph Transition Observation Dist.
Local Open Scope nat_scope.
Open Scope Qc_scope.

Definition base23 (b : nat) : bool := Nat.eqb b 2 || Nat.eqb b 3.

(** * Modalities (lymph/modalities.py:35-47) *)
(** Modality.__hash__: the bytes of the confusion matrix, i.e. its entries *)
Definition mod_key (b : nat) (m : modality) : mat := confusion_matrix b m.
(** Modality.__eq__: np.all(self.confusion_matrix == other.confusion_matrix) *)
Definition mod_eq (b : nat) (m1 m2 : modality) : bool :=
  mat_eqb (confusion_matrix b m1) (confusion_matrix b m2).

(** [__eq__] between modalities of different arity (one [is_trinary], one not): np.array_equal
    of a (2,2) with a (3,2) matrix *)
Definition mod_eq2 (b1 b2 : nat) (m1 m2 : modality) : bool :=
  mat_eqb (confusion_matrix b1 m1) (confusion_matrix b2 m2).

(** * Distributions (lymph/diagnosis_times.py:150-178) *)
(** Distribution.is_updateable *)
Definition dist_updateable (d : dist) : bool :=
  match d with Frozen _ => false | Param _ _ => true end.
(** self._func.keywords (insertion order = signature order); () for a frozen one *)
Definition dist_keywords (d : dist) : list (string * Qc) :=
  match d with Frozen _ => [] | Param _ kw => kw end.
(** the tuple handed to [hash]: (is_updateable, tuple(keywords.items()), pmf.tobytes());
    [_func.args] is always () for objects built by the constructor.  Neither the
    hash nor [__eq__] looks at the function itself. *)
Definition dkey := (bool * list (string * Qc) * vec)%type.
(** Distribution.__hash__; [None] = evaluating [pmf] raised (never for an object
    that exists: the constructor and [set_params] evaluate the pmf) *)
Definition dist_key (maxt : nat) (d : dist) : option dkey :=
  option_map (fun p => (dist_updateable d, dist_keywords d, p)) (pmf maxt d).

(** dict == dict: same number of keys, every key of the first maps to an equal value *)
Definition kw_eqb (k1 k2 : list (string * Qc)) : bool :=
  Nat.eqb (length k1) (length k2) &&
  forallb (fun kv => match dict_get (fst kv) k2 with Some v => Qc_eqb (snd kv) v | None => false end) k1.
Definition pmf_eq (o1 o2 : option vec) : option bool :=
  match o1, o2 with Some p1, Some p2 => Some (vec_eqb p1 p2) | _, _ => None end.
(** Distribution.__eq__ (same evaluation order as the code) *)
Definition dist_eq (maxt : nat) (d1 d2 : dist) : option bool :=
  if negb (dist_updateable d1) && negb (dist_updateable d2) then pmf_eq (pmf maxt d1) (pmf maxt d2)
  else if negb (Bool.eqb (dist_updateable d1) (dist_updateable d2)) then Some false
  else if negb (kw_eqb (dist_keywords d1) (dist_keywords d2)) then Some false
  else pmf_eq (pmf maxt d1) (pmf maxt d2).

(** keyword names of a real [functools.partial] are the keys of a dict *)
Definition kw_nodup (d : dist) : bool := nodupb (map fst (dist_keywords d)).

(** * Graph (lymph/graph.py:79-81, 263-267, 632-640) *)
(** AbstractNode.__hash__: (name, state, tuple(allowed_states)); a tumour's only
    allowed state is its state, an LNL's are 0..b-1 *)
Definition node_key (b : nat) (n : node) (st : nat) : string * nat * list nat :=
  (n_name n, st, if n_tumor n then [st] else seq 0 b).
(** Edge.__hash__: (get_name(), transition_tensor.tobytes()) *)
Definition edge_key (b : nat) (e : edge) : string * tensor := (e_name e, transition_tensor b e).
(** Representation.__hash__: fold of hash((hash_res, hash(edge))) over edges.values() *)
Definition graph_key (g : graph) : list (string * tensor) := map (edge_key (g_base g)) (g_edges g).

(** what generate_transition reads of an edge besides its tensor *)
Definition edge_skel (e : edge) : string * string * string * ekind :=
  (e_name e, e_parent e, e_child e, e_kind e).
(** same base, same nodes, same arcs (names, end points, kinds) in the same order:
    two graphs built from the same dictionary, whatever their parameters *)
Definition same_skeleton (g1 g2 : graph) : Prop :=
  g_base g1 = g_base g2 /\ g_nodes g1 = g_nodes g2 /\
  map edge_skel (g_edges g1) = map edge_skel (g_edges g2).
Definition with_params (e : edge) (sp mi : Qc) : edge :=
  {| e_name := e_name e; e_parent := e_parent e; e_child := e_child e; e_kind := e_kind e;
     e_spread := sp; e_micro := mi |}.

(** * Collections (lymph/modalities.py:204-218, lymph/diagnosis_times.py:460-471) *)
(** a composite: a leaf holds an insertion-ordered dict of items, a branch a dict of children *)
Inductive ctree (A : Type) : Type :=
| CLeaf (items : list (string * A))
| CBranch (children : list (string * ctree A)).
Arguments CLeaf {A} items.
Arguments CBranch {A} children.
(** the value folded into the hash: names and item keys in a leaf, child keys (not the
    children's names) in a branch *)
Inductive ckey (K : Type) : Type :=
| KLeaf (items : list (string * K))
| KBranch (children : list (ckey K)).
Arguments KLeaf {K} items.
Arguments KBranch {K} children.

(** Composite.modalities_hash / distributions_hash with item key [f] *)
Fixpoint coll_key {A K} (f : A -> K) (t : ctree A) : ckey K :=
  match t with
  | CLeaf items => KLeaf (map (fun kv => (fst kv, f (snd kv))) items)
  | CBranch cs => KBranch (map (fun nc => match nc with (_, c) => coll_key f c end) cs)
  end.

(** del d[k] *)
Fixpoint dict_del {V} (k : string) (d : list (string * V)) : list (string * V) :=
  match d with
  | [] => []
  | (k', v) :: r => if str_eqb k k' then r else (k', v) :: dict_del k r
  end.
(** a setter that a branch forwards to every child and a leaf applies to its dict
    (set_modality, del_modality, clear_modalities, replace_all_modalities; likewise
    for distributions) *)
Fixpoint map_leaves {A} (ed : list (string * A) -> list (string * A)) (t : ctree A) : ctree A :=
  match t with
  | CLeaf items => CLeaf (ed items)
  | CBranch cs => CBranch (map (fun nc => match nc with (n, c) => (n, map_leaves ed c) end) cs)
  end.
Fixpoint leaves {A} (t : ctree A) : list (list (string * A)) :=
  match t with
  | CLeaf items => [items]
  | CBranch cs => flat_map (fun nc => match nc with (_, c) => leaves c end) cs
  end.
Inductive cop (A : Type) : Type :=
| OpSet (n : string) (a : A)                  (* set_modality / set_distribution *)
| OpDel (n : string)                          (* del_modality / del_distribution (name present) *)
| OpClear                                     (* clear_modalities / clear_distributions *)
| OpReplace (l : list (string * A)).          (* replace_all_* : clear, then set one by one *)
Arguments OpSet {A} n a.
Arguments OpDel {A} n.
Arguments OpClear {A}.
Arguments OpReplace {A} l.
Definition leaf_op {A} (o : cop A) (items : list (string * A)) : list (string * A) :=
  match o with
  | OpSet n a => dict_set n a items
  | OpDel n => dict_del n items
  | OpClear => []
  | OpReplace l => fold_left (fun acc kv => dict_set (fst kv) (snd kv) acc) l []
  end.
Definition apply_cop {A} (t : ctree A) (o : cop A) : ctree A := map_leaves (leaf_op o) t.
Definition apply_cops {A} (t : ctree A) (ops : list (cop A)) : ctree A := fold_left apply_cop ops t.

(** the shapes of the three model classes *)
Definition uni_tree {A} (items : list (string * A)) : ctree A := CLeaf items.
Definition bi_tree {A} (items : list (string * A)) : ctree A :=
  CBranch [("ipsi"%string, CLeaf items); ("contra"%string, CLeaf items)].
Definition mid_tree {A} (children : list string) (items : list (string * A)) : ctree A :=
  CBranch (map (fun n => (n, bi_tree items)) children).

(** * Printable keys for the correspondence check ([qout] is injective on [Qc], so
    two printed keys are equal iff the keys are) *)
Definition mod_key_out (b : nat) (m : modality) := qoutm (mod_key b m).
Definition dist_key_out (maxt : nat) (d : dist) :=
  option_map (fun k : dkey => match k with (u, kw, p) => (u, map (fun kv => (fst kv, qout (snd kv))) kw, qouts p) end)
             (dist_key maxt d).
Definition edge_key_out (b : nat) (e : edge) := (e_name e, map qoutm (transition_tensor b e)).
Definition graph_key_out (g : graph) := map (edge_key_out (g_base g)) (g_edges g).

(** * Statements of the C20 theorems *)
Definition mk_mod (sp sn : Qc) (path : bool) : modality := {| m_spec := sp; m_sens := sn; m_path := path |}.

(** ** 0. hashing is total on objects that exist *)
Definition C20_frozen_key_defined_stmt : Prop :=
  forall maxt p, dist_key maxt (Frozen p) = Some (false, [], p).
Definition C20_param_key_defined_stmt : Prop :=
  forall maxt f kw, fam_weights f maxt kw <> None ->
    exists p, pmf maxt (Param f kw) = Some p /\ dist_key maxt (Param f kw) = Some (true, kw, p).

(** ** 1. objects that compare equal have equal keys (and conversely) *)
Definition C20_mod_eq_iff_key_eq_stmt : Prop :=
  forall b m1 m2, mod_eq b m1 m2 = true <-> mod_key b m1 = mod_key b m2.
(** switching the arity always changes equality and the key *)
Definition C20_mod_mixed_arity_stmt : Prop :=
  forall m1 m2, mod_eq2 2 3 m1 m2 = false /\ mod_eq2 3 2 m1 m2 = false /\ mod_key 2 m1 <> mod_key 3 m2 /\
    (forall b, mod_eq2 b b m1 m2 = mod_eq b m1 m2).
(** [__eq__] compares the keyword DICTS, the hash the keyword TUPLE: the implication
    needs the keywords in the same order (fixed by the signature of the family) *)
Definition C20_dist_eq_implies_key_eq_stmt : Prop :=
  forall maxt d1 d2, kw_nodup d1 = true ->
    map fst (dist_keywords d1) = map fst (dist_keywords d2) ->
    dist_eq maxt d1 d2 = Some true ->
    dist_key maxt d1 = dist_key maxt d2 /\ dist_key maxt d1 <> None.
Definition C20_dist_key_eq_implies_eq_stmt : Prop :=
  forall maxt d1 d2, kw_nodup d1 = true -> dist_key maxt d1 <> None ->
    dist_key maxt d1 = dist_key maxt d2 -> dist_eq maxt d1 d2 = Some true.
(** without the order hypothesis the implication fails: two partial functions whose
    keywords are permuted compare equal and have different keys (not producible from
    one family through the public constructor) *)
Definition C20_dist_eq_permuted_keywords_stmt : Prop :=
  exists maxt d1 d2, kw_nodup d1 = true /\ kw_nodup d2 = true /\
    dist_eq maxt d1 d2 = Some true /\ dist_key maxt d1 <> dist_key maxt d2.

(** ** 2. equal keys iff same computation *)
Definition C20_mod_key_iff_same_observation_stmt : Prop :=
  forall b m1 m2, base23 b = true ->
    (mod_key b m1 = mod_key b m2 <->
     forall n, (1 <= n)%nat -> generate_observation [m1] n b = generate_observation [m2] n b).
(** in any list of modalities, replacing modalities by ones with the same keys leaves
    the observation matrix unchanged *)
Definition C20_mod_keys_same_observation_stmt : Prop :=
  forall b ms1 ms2 n, map (mod_key b) ms1 = map (mod_key b) ms2 ->
    generate_observation ms1 n b = generate_observation ms2 n b.
Definition C20_dist_key_eq_same_pmf_stmt : Prop :=
  forall maxt d1 d2, dist_key maxt d1 = dist_key maxt d2 -> pmf maxt d1 = pmf maxt d2.
Definition C20_graph_key_iff_tensors_stmt : Prop :=
  forall g1 g2, same_skeleton g1 g2 ->
    (graph_key g1 = graph_key g2 <->
     map (transition_tensor (g_base g1)) (g_edges g1) = map (transition_tensor (g_base g2)) (g_edges g2)).
Definition C20_graph_key_same_transition_stmt : Prop :=
  forall g1 g2, same_skeleton g1 g2 -> graph_key g1 = graph_key g2 ->
    generate_transition g1 = generate_transition g2.
Definition C20_set_edges_same_skeleton_stmt : Prop :=
  forall g ps, same_skeleton g (set_edges g ps).

(** ** 3. which edits change the key *)
(** complete description of modality-key equality *)
Definition C20_mod_key_characterisation_stmt : Prop :=
  forall b m1 m2, base23 b = true ->
    (mod_key b m1 = mod_key b m2 <->
     m_spec m1 = m_spec m2 /\ m_sens m1 = m_sens m2 /\
     (b = 3%nat -> m_path m1 = m_path m2 \/ m_spec m1 = 1 - m_sens m1)).
Definition C20_spec_edit_changes_key_stmt : Prop :=
  forall b m1 m2, m_spec m1 <> m_spec m2 -> mod_key b m1 <> mod_key b m2.
Definition C20_sens_edit_changes_key_stmt : Prop :=
  forall b m1 m2, m_sens m1 <> m_sens m2 -> mod_key b m1 <> mod_key b m2.
(** clinical <-> pathological in a trinary model: the key changes unless sp = 1 - sn,
    and exactly then the observation matrices coincide as well *)
Definition C20_kind_switch_trinary_stmt : Prop :=
  forall sp sn, mod_key 3 (mk_mod sp sn true) = mod_key 3 (mk_mod sp sn false) <-> sp = 1 - sn.
Definition C20_kind_switch_trinary_computation_stmt : Prop :=
  forall sp sn, sp = 1 - sn <->
    (forall n, (1 <= n)%nat ->
       generate_observation [mk_mod sp sn true] n 3 = generate_observation [mk_mod sp sn false] n 3).
(** in a binary model the kind enters neither the key nor the computation *)
Definition C20_kind_irrelevant_binary_stmt : Prop :=
  forall sp sn k1 k2, mod_key 2 (mk_mod sp sn k1) = mod_key 2 (mk_mod sp sn k2) /\
    forall n, generate_observation [mk_mod sp sn k1] n 2 = generate_observation [mk_mod sp sn k2] n 2.

(** a changed keyword list changes the key, whatever happens to the pmf *)
Definition C20_keyword_edit_changes_key_stmt : Prop :=
  forall maxt f1 f2 kw1 kw2, kw1 <> kw2 -> dist_key maxt (Param f1 kw1) <> None ->
    dist_key maxt (Param f1 kw1) <> dist_key maxt (Param f2 kw2).
Definition C20_frozen_vs_param_key_differs_stmt : Prop :=
  forall maxt p f kw, dist_key maxt (Frozen p) <> dist_key maxt (Param f kw).
(** frozen distributions: the key follows the NORMALISED weights ... *)
Definition C20_frozen_key_iff_normalised_weights_stmt : Prop :=
  forall maxt w1 w2 d1 d2, mk_frozen maxt w1 = Some d1 -> mk_frozen maxt w2 = Some d2 ->
    (dist_key maxt d1 = dist_key maxt d2 <-> normalize w1 = normalize w2).
(** ... which coincide exactly for proportional weight vectors *)
Definition C20_normalize_eq_iff_proportional_stmt : Prop :=
  forall w1 w2, sumQ w1 <> 0 -> sumQ w2 <> 0 ->
    (normalize w1 = normalize w2 <-> map (Qcmult (sumQ w2)) w1 = map (Qcmult (sumQ w1)) w2).

(** complete description of edge-key equality for two arcs of the same kind *)
Definition C20_edge_key_characterisation_stmt : Prop :=
  forall b e1 e2, base23 b = true -> e_kind e1 = e_kind e2 ->
    (edge_key b e1 = edge_key b e2 <->
     e_name e1 = e_name e2 /\ e_spread e1 = e_spread e2 /\
     (e_kind e1 = ELnl -> b = 3%nat -> e_spread e1 = 0 \/ e_micro e1 = e_micro e2)).
Definition C20_spread_edit_changes_edge_key_stmt : Prop :=
  forall b e sp mi, base23 b = true -> sp <> e_spread e -> edge_key b (with_params e sp mi) <> edge_key b e.
(** micro_mod enters the key only for an LNL arc of a trinary graph with spread <> 0 *)
Definition C20_micro_edit_stmt : Prop :=
  forall b e mi, base23 b = true ->
    (edge_key b (with_params e (e_spread e) mi) = edge_key b e <->
     (e_kind e = ELnl -> b = 3%nat -> e_spread e = 0 \/ e_micro e = mi)).
Definition C20_edge_rename_changes_key_stmt : Prop :=
  forall b e1 e2, e_name e1 <> e_name e2 -> edge_key b e1 <> edge_key b e2.
(** graph key after set_params: unchanged iff no edge key changed *)
Definition C20_set_edges_key_stmt : Prop :=
  forall g ps, graph_key (set_edges g ps) = graph_key g <->
    forall e, In e (g_edges g) -> edge_key (g_base g) (set_edge ps e) = edge_key (g_base g) e.
Definition C20_node_key_stmt : Prop :=
  forall b n1 n2 s1 s2, node_key b n1 s1 = node_key b n2 s2 -> n_name n1 = n_name n2 /\ s1 = s2.

(** collections *)
Definition C20_leaf_key_iff_stmt : Prop :=
  forall (A K : Type) (f : A -> K) l1 l2,
    coll_key f (CLeaf l1) = coll_key f (CLeaf l2) <->
    map fst l1 = map fst l2 /\ map (fun kv => f (snd kv)) l1 = map (fun kv => f (snd kv)) l2.
Definition C20_add_entry_changes_key_stmt : Prop :=
  forall (A K : Type) (f : A -> K) n a l, mem n (map fst l) = false ->
    coll_key f (CLeaf (dict_set n a l)) <> coll_key f (CLeaf l).
Definition C20_del_entry_changes_key_stmt : Prop :=
  forall (A K : Type) (f : A -> K) n l, mem n (map fst l) = true ->
    coll_key f (CLeaf (dict_del n l)) <> coll_key f (CLeaf l).
(** renaming = delete + set under the new name *)
Definition C20_rename_entry_changes_key_stmt : Prop :=
  forall (A K : Type) (f : A -> K) n n' a l, mem n' (map fst l) = false ->
    coll_key f (CLeaf (dict_set n' a (dict_del n l))) <> coll_key f (CLeaf l).
(** overwriting an entry: the collection key changes iff the item key does *)
Definition C20_replace_entry_stmt : Prop :=
  forall (A K : Type) (f : A -> K) n a a' l, nodupb (map fst l) = true -> dict_get n l = Some a ->
    (coll_key f (CLeaf (dict_set n a' l)) = coll_key f (CLeaf l) <-> f a' = f a).
(** a composite setter leaves the composite key unchanged iff it leaves the key of
    every leaf unchanged *)
Definition C20_composite_edit_stmt : Prop :=
  forall (A K : Type) (f : A -> K) ed (t : ctree A),
    coll_key f (map_leaves ed t) = coll_key f t <->
    forall l, In l (leaves t) -> coll_key f (CLeaf (ed l)) = coll_key f (CLeaf l).
