(** EncodingProofs: proofs of the C08 statements of Encoding.v.

    Plan: (1) a loaded patient holds the cells of its row; (2) its Kronecker encoding
    ([patient_encoding_spec], C01/C02) is therefore [row_encoding], which does not depend
    on which modalities happen to have columns; (3) data matrix, diagnosis matrix and
    likelihood factors are functions of the per-row "view" (mapped T-stage, row encoding);
    all invariance statements follow from equality / permutation / concatenation of views. *)
From LymphModel Require Import Base States Linalg Graph Transition Observation Dist Unilateral UniStatements Encoding.
From LymphModel Require Import GraphProofs TransitionProofs ObservationProofs PriorProofs LikelihoodProofs.
From Coq Require Import Permutation.
Local Open Scope nat_scope.
Open Scope Qc_scope.

(** * Keys and cells *)
Lemma key_eqb_eq a b : key_eqb a b = true <-> a = b.
Proof.
  destruct a as [[a1 a2] a3], b as [[b1 b2] b3]. unfold key_eqb, k_mod, k_side, k_lnl. cbn [fst snd].
  rewrite !andb_true_iff, !seqb_eq. split.
  - intros [[H1 H2] H3]. subst. reflexivity.
  - intros H. inversion H. auto.
Qed.
Lemma key_eqb_refl a : key_eqb a a = true.
Proof. apply key_eqb_eq. reflexivity. Qed.

Lemma cell_get_Some_In k cells b : cell_get k cells = Some b -> In (k, Some b) cells.
Proof.
  induction cells as [|[k' v] cells IH]; cbn [cell_get]; [discriminate|].
  destruct (key_eqb k k') eqn:E.
  - apply key_eqb_eq in E. subst k'. intros H. subst v. left. reflexivity.
  - intros H. right. exact (IH H).
Qed.
Lemma cell_get_notin k cells : ~ In k (map fst cells) -> cell_get k cells = None.
Proof.
  induction cells as [|[k' v] cells IH]; cbn [cell_get map fst In]; [reflexivity|].
  intros H. destruct (key_eqb k k') eqn:E.
  - apply key_eqb_eq in E. subst k'. exfalso. apply H. left. reflexivity.
  - apply IH. intros H'. apply H. right. exact H'.
Qed.

Lemma In_dedup s l : In s (dedup l) <-> In s l.
Proof.
  induction l as [|a l IH]; cbn [dedup]; [tauto|].
  destruct (mem a l) eqn:E.
  - rewrite IH. cbn [In]. split; [tauto|]. intros [H|H]; [|exact H].
    subst a. apply gmem_In. exact E.
  - cbn [In]. rewrite IH. tauto.
Qed.

Lemma mem_table_modalities side rows r m l b :
  In r rows -> reserved m = false -> cell_get (m, side, l) (r_cells r) = Some b ->
  mem m (table_modalities side rows) = true.
Proof.
  intros Hr Hres Hc. apply gmem_In. unfold table_modalities. apply In_dedup.
  apply in_map_iff. exists (m, side, l). split; [reflexivity|].
  apply filter_In. split.
  - unfold table_keys. apply in_flat_map. exists r. split; [exact Hr|].
    apply in_map_iff. exists ((m, side, l), Some b). split; [reflexivity|].
    apply cell_get_Some_In. exact Hc.
  - unfold k_mod, k_side. cbn [fst snd]. rewrite Hres, seqb_refl. reflexivity.
Qed.

(** * What a loaded patient holds *)
Lemma diag_get_row_find lnls side mods r m :
  diag_get m (row_find lnls side mods r)
  = if mem m mods then Some (row_pattern lnls m side r) else None.
Proof.
  unfold row_find. induction mods as [|a mods IH]; cbn [map diag_get mem]; [reflexivity|].
  destruct (str_eqb m a) eqn:E; cbn [orb].
  - apply seqb_eq in E. subst a. reflexivity.
  - exact IH.
Qed.
Lemma pat_get_row_pattern lnls m side r l :
  pat_get l (row_pattern lnls m side r)
  = if mem l lnls then option_map ind_of_bool (cell_get (m, side, l) (r_cells r)) else None.
Proof.
  unfold row_pattern. induction lnls as [|a lnls IH]; cbn [map pat_get mem]; [reflexivity|].
  destruct (str_eqb l a) eqn:E; cbn [orb].
  - apply seqb_eq in E. subst a. reflexivity.
  - exact IH.
Qed.
Lemma binary_row_pattern lnls m side r : binary_pattern (row_pattern lnls m side r) = true.
Proof.
  unfold binary_pattern, row_pattern. apply forallb_forall. intros [l v] Hin.
  apply in_map_iff in Hin. destruct Hin as [l' [E _]]. injection E as _ E2. subst v. cbn [snd].
  destruct (cell_get (m, side, l') (r_cells r)) as [[]|]; reflexivity.
Qed.
Lemma wf_row_find lnls side mods r t :
  wf_patient {| p_tstage := t; p_find := row_find lnls side mods r |} = true.
Proof.
  unfold wf_patient. cbn [p_find]. apply forallb_forall. intros [m pat] Hin.
  unfold row_find in Hin. apply in_map_iff in Hin. destruct Hin as [m' [E _]]. injection E as _ E2. subst pat.
  cbn [snd]. apply binary_row_pattern.
Qed.

(** relation between a row and the patient loaded from it *)
Definition loaded_from lnls side mods (mapping : tmapping) (r : row) (p : patient) : Prop :=
  mapping (r_tstage_raw r) = Some (p_tstage p) /\ p_find p = row_find lnls side mods r.

Lemma load_rows_Forall2 lnls side mods mapping rows : forall data,
  load_rows lnls side mods mapping rows = Some data ->
  Forall2 (loaded_from lnls side mods mapping) rows data.
Proof.
  unfold load_rows. induction rows as [|r rows IH]; intros data; cbn [map sequence_opt].
  - intros H. inversion H. constructor.
  - unfold load_row at 1. destruct (mapping (r_tstage_raw r)) as [t|] eqn:Em; [|discriminate].
    destruct (sequence_opt (map (load_row lnls side mods mapping) rows)) as [tl|]; [|discriminate].
    intros H. inversion H. subst data. constructor.
    + split; [exact Em|reflexivity].
    + apply IH. reflexivity.
Qed.
Lemma load_rows_None lnls side mods mapping rows :
  load_rows lnls side mods mapping rows = None <-> exists r, In r rows /\ mapping (r_tstage_raw r) = None.
Proof.
  unfold load_rows. induction rows as [|r rows IH]; cbn [map sequence_opt].
  - split; [discriminate|]. intros [r [[] _]].
  - unfold load_row at 1. destruct (mapping (r_tstage_raw r)) as [t|] eqn:Em.
    + destruct (sequence_opt (map (load_row lnls side mods mapping) rows)) as [tl|] eqn:Es.
      * split; [discriminate|]. intros [r' [[H|H] Hn]].
        -- subst r'. rewrite Em in Hn. discriminate.
        -- assert (Hx : @None (list patient) = None) by reflexivity.
           destruct IH as [_ IH2]. discriminate IH2. exists r'. split; assumption.
      * split; [|reflexivity]. intros _. destruct IH as [IH1 _].
        destruct (IH1 eq_refl) as [r' [Hin Hn]]. exists r'. split; [right; exact Hin|exact Hn].
    + split; [|reflexivity]. intros _. exists r. split; [left; reflexivity|exact Em].
Qed.
Lemma load_rows_ext lnls side mods mods' mapping rows :
  (load_rows lnls side mods mapping rows = None <-> load_rows lnls side mods' mapping rows = None).
Proof. rewrite !load_rows_None. tauto. Qed.

Lemma Forall2_length' {A B} (R : A -> B -> Prop) la lb : Forall2 R la lb -> length la = length lb.
Proof. induction 1; cbn [length]; [reflexivity|]. f_equal. assumption. Qed.
Lemma Forall2_impl_in {A B} (R Q : A -> B -> Prop) la lb :
  Forall2 R la lb -> (forall a b, In a la -> In b lb -> R a b -> Q a b) -> Forall2 Q la lb.
Proof.
  induction 1 as [|a b la lb Hab Hl IH]; intros HQ; constructor.
  - apply HQ; [left; reflexivity|left; reflexivity|exact Hab].
  - apply IH. intros a' b' Ha Hb. apply HQ; right; assumption.
Qed.
Lemma Forall2_In_r {A B} (R : A -> B -> Prop) la lb b :
  Forall2 R la lb -> In b lb -> exists a, In a la /\ R a b.
Proof.
  induction 1 as [|a b' la lb Hab Hl IH]; cbn [In]; [tauto|].
  intros [H|H].
  - subst b'. exists a. split; [left; reflexivity|exact Hab].
  - destruct (IH H) as [a' [Ha HR]]. exists a'. split; [right; exact Ha|exact HR].
Qed.
Lemma Forall2_map_eq {A B C} (f : A -> C) (g : B -> C) la lb :
  Forall2 (fun a b => f a = g b) la lb -> map f la = map g lb.
Proof. induction 1 as [|a b la lb Hab Hl IH]; cbn [map]; [reflexivity|]. rewrite Hab, IH. reflexivity. Qed.

Lemma loaded_select lnls side mods mapping rows data t :
  Forall2 (loaded_from lnls side mods mapping) rows data ->
  Forall2 (loaded_from lnls side mods mapping) (select_rows mapping rows t) (select data t).
Proof.
  destruct t as [ts|]; cbn [select_rows select]; [|tauto].
  induction 1 as [|r p rows data [Hm Hf] Hl IH]; cbn [filter]; [constructor|].
  unfold stage_is at 1. rewrite Hm.
  destruct (str_eqb (p_tstage p) ts); [constructor; [split; assumption|exact IH]|exact IH].
Qed.
Lemma select_rows_In mapping rows t r : In r (select_rows mapping rows t) -> In r rows.
Proof. destruct t as [ts|]; cbn [select_rows]; [|tauto]. intros H. apply filter_In in H. exact (proj1 H). Qed.

(** * C08_tstage_mapping_pointwise, C08_t_stage_rows_select, C08_loaded_findings *)
Lemma filter_side_cell_get side k cells :
  cell_get k (filter (fun kv : key * option bool => str_eqb (k_side (fst kv)) side) cells)
  = if str_eqb (k_side k) side then cell_get k cells else None.
Proof.
  induction cells as [|[k' v] cells IH]; cbn [filter cell_get fst].
  - destruct (str_eqb (k_side k) side); reflexivity.
  - destruct (str_eqb (k_side k') side) eqn:E'; cbn [cell_get].
    + destruct (key_eqb k k') eqn:E.
      * apply key_eqb_eq in E. subst k'. rewrite E'. reflexivity.
      * exact IH.
    + destruct (key_eqb k k') eqn:E.
      * apply key_eqb_eq in E. subst k'. rewrite E' in IH |- *. exact IH.
      * exact IH.
Qed.

Lemma table_keys_filter_cells keep rows :
  table_keys (map (filter_cells keep) rows) = filter keep (table_keys rows).
Proof.
  unfold table_keys. rewrite filter_flat_map, LikelihoodProofs.flat_map_map.
  apply flat_map_ext. intros r. unfold filter_cells. cbn [r_cells].
  induction (r_cells r) as [|[k v] c IH]; cbn [filter map fst]; [reflexivity|].
  destruct (keep k); cbn [map fst]; rewrite IH; reflexivity.
Qed.
Lemma filter_filter {A} (p q : A -> bool) l : filter p (filter q l) = filter (fun a => q a && p a) l.
Proof.
  induction l as [|a l IH]; cbn [filter]; [reflexivity|].
  destruct (q a); cbn [filter andb]; [destruct (p a)|]; rewrite IH; reflexivity.
Qed.
Lemma filter_ext_in' {A} (p q : A -> bool) l : (forall a, In a l -> p a = q a) -> filter p l = filter q l.
Proof.
  induction l as [|a l IH]; intros H; cbn [filter]; [reflexivity|].
  rewrite (H a) by (left; reflexivity). rewrite IH; [reflexivity|]. intros; apply H; right; assumption.
Qed.

Lemma tstage_mapping_pointwise : C08_tstage_mapping_pointwise_stmt.
Proof.
  intros lnls side mapping rows. split; [|split].
  - intros data H. apply load_rows_Forall2 in H. split.
    + symmetry. exact (Forall2_length' _ _ _ H).
    + symmetry. apply Forall2_map_eq.
      apply (Forall2_impl_in _ _ _ _ H). intros r p _ _ [Hm _]. exact Hm.
  - apply load_rows_None.
  - unfold load_patient_data.
    assert (Em : table_modalities side (map (filter_cells (fun k => str_eqb (k_side k) side)) rows)
                 = table_modalities side rows).
    { unfold table_modalities. rewrite table_keys_filter_cells, filter_filter. f_equal. f_equal.
      apply filter_ext_in'. intros k _. destruct (str_eqb (k_side k) side); cbn [andb]; [|rewrite andb_false_r]; reflexivity. }
    rewrite Em. unfold load_rows. rewrite map_map. f_equal. apply map_ext. intros r.
    unfold load_row, filter_cells. cbn [r_tstage_raw r_cells].
    destruct (mapping (r_tstage_raw r)); [|reflexivity]. f_equal. f_equal.
    unfold row_find. apply map_ext. intros m. f_equal. unfold row_pattern. apply map_ext. intros l.
    f_equal. f_equal. cbn [r_cells]. rewrite filter_side_cell_get. unfold k_side. cbn [fst snd].
    rewrite seqb_refl. reflexivity.
Qed.

Lemma load_rows_of_Forall2 lnls side mods mapping rows data :
  Forall2 (loaded_from lnls side mods mapping) rows data ->
  load_rows lnls side mods mapping rows = Some data.
Proof.
  unfold load_rows. induction 1 as [|r p rows data [Hm Hf] Hl IH]; cbn [map sequence_opt]; [reflexivity|].
  unfold load_row at 1. rewrite Hm, IH. destruct p as [t f]. cbn [p_tstage p_find] in *. subst f. reflexivity.
Qed.

Lemma t_stage_rows_select : C08_t_stage_rows_select_stmt.
Proof.
  intros lnls side mapping rows data t H. apply load_rows_Forall2 in H.
  apply load_rows_of_Forall2. exact (loaded_select _ _ _ _ _ _ (Some t) H).
Qed.

Lemma loaded_findings : C08_loaded_findings_stmt.
Proof.
  intros lnls side mapping rows data Hnd H. apply load_rows_Forall2 in H.
  apply (Forall2_impl_in _ _ _ _ H). intros r p Hr _ [Hm Hf]. split.
  - cbn [forallb]. rewrite andb_true_r. destruct p as [t f]. cbn [p_find] in Hf. subst f. apply wf_row_find.
  - intros m l Hl. rewrite Hf, diag_get_row_find.
    destruct (mem m (table_modalities side rows)) eqn:Em.
    + rewrite pat_get_row_pattern. apply gmem_In in Hl. rewrite Hl. reflexivity.
    + intros Hres. destruct (cell_get (m, side, l) (r_cells r)) as [b|] eqn:Ec; [|reflexivity].
      rewrite (mem_table_modalities side rows r m l b Hr Hres Ec) in Em. discriminate.
Qed.

(** * The encoding of a loaded patient is the encoding of its row *)
Lemma matches_ind_bool b d : matches_ind 2 (ind_of_bool b) d = Nat.eqb d (if b then 1 else 0).
Proof. destruct b, d as [|[|[|d]]]; reflexivity. Qed.

Lemma forallb_combine_ext {A B} (f g : A * B -> bool) (la : list A) (lb : list B) :
  (forall a b, In a la -> f (a, b) = g (a, b)) -> forallb f (combine la lb) = forallb g (combine la lb).
Proof.
  intros H. apply forallb_ext_in. intros [a b] Hin. apply H. exact (in_combine_l _ _ _ _ Hin).
Qed.

Lemma compatible_row mod_names lnls side rows r p z :
  In r rows -> forallb (fun m => negb (reserved m)) mod_names = true ->
  p_find p = row_find lnls side (table_modalities side rows) r ->
  compatible mod_names lnls (p_find p) z = row_compatible mod_names lnls side r z.
Proof.
  intros Hr Hres Hf. unfold compatible, row_compatible. apply forallb_combine_ext.
  intros m zm Hm. rewrite forallb_forall in Hres. pose proof (Hres m Hm) as Hm'. apply negb_true_iff in Hm'.
  unfold matches_pattern. apply forallb_combine_ext. intros l d Hl.
  rewrite Hf, diag_get_row_find.
  destruct (mem m (table_modalities side rows)) eqn:Em.
  - rewrite pat_get_row_pattern. apply gmem_In in Hl. rewrite Hl.
    destruct (cell_get (m, side, l) (r_cells r)) as [b|]; cbn [option_map cell_matches]; [|reflexivity].
    apply matches_ind_bool.
  - cbn [pat_get]. destruct (cell_get (m, side, l) (r_cells r)) as [b|] eqn:Ec; [|reflexivity].
    rewrite (mem_table_modalities side rows r m l b Hr Hm' Ec) in Em. discriminate.
Qed.

Lemma sequence_map_Forall2 {A B C} (f : B -> res C) (g : A -> C) la lb :
  Forall2 (fun a b => f b = inr (g a)) la lb -> sequence (map f lb) = inr (map g la).
Proof.
  induction 1 as [|a b la lb Hab Hl IH]; cbn [map sequence]; [reflexivity|].
  rewrite Hab. cbn [bind]. rewrite IH. reflexivity.
Qed.

Lemma patient_encoding_row u side rows r p :
  In r rows -> mods_not_reserved u = true ->
  p_find p = row_find (u_lnls u) side (table_modalities side rows) r ->
  patient_encoding (u_lnls u) (u_mod_names u) p = inr (row_encoding u side r).
Proof.
  intros Hr Hres Hf.
  assert (Hwf : wf_patient p = true).
  { destruct p as [t f]. cbn [p_find] in Hf. subst f. apply wf_row_find. }
  rewrite (patient_encoding_spec _ _ _ Hwf). f_equal. unfold row_encoding. apply map_ext. intros z.
  exact (compatible_row _ _ _ rows r p z Hr Hres Hf).
Qed.

Lemma encoding_row_spec : C08_encoding_row_spec_stmt.
Proof.
  intros u side mapping rows data t Hwf Hres H. apply load_rows_Forall2 in H.
  unfold data_matrix. apply sequence_map_Forall2.
  apply (Forall2_impl_in _ _ _ _ (loaded_select _ _ _ _ _ _ t H)).
  intros r p Hr _ [_ Hf]. apply (patient_encoding_row u side rows r p); [|exact Hres|exact Hf].
  exact (select_rows_In _ _ _ _ Hr).
Qed.

(** * Views: (mapped T-stage, row encoding) per row *)
Definition ventry := (option string * bvec)%type.
Definition row_view (u : uni) side (mapping : tmapping) (r : row) : ventry :=
  (mapping (r_tstage_raw r), row_encoding u side r).
Definition table_view (u : uni) side mapping (rows : table) : list ventry := map (row_view u side mapping) rows.
Definition ventry_is (t : string) (e : ventry) : bool :=
  match fst e with Some s => str_eqb s t | None => false end.
Definition view_select (v : list ventry) (t : option string) : list ventry :=
  match t with None => v | Some ts => filter (ventry_is ts) v end.
Definition view_ok (v : list ventry) : bool :=
  forallb (fun e : ventry => match fst e with Some _ => true | None => false end) v.
Definition enc_llh (u : uni) (prior : vec) (enc : bvec) : Qc :=
  dot prior (matvec (observation_matrix u) (map b2q enc)).
Definition view_stage_llhs (u : uni) (v : list ventry) (t : string) : res vec :=
  bind (get_pmf u t) (fun pm => inr (map (fun e => enc_llh u (u_prior u pm) (snd e)) (view_select v (Some t)))).
Definition view_valid_stages (u : uni) (v : list ventry) : list string :=
  filter (fun t => existsb (ventry_is t) v) (map fst (u_dists u)).
Definition view_factors (u : uni) (v : list ventry) (t : option string) : res vec :=
  let stages := match t with None => view_valid_stages u v | Some ts => [ts] end in
  bind (sequence (map (view_stage_llhs u v) stages)) (fun ls => inr (concat ls)).

Lemma view_select_table u side mapping rows t :
  view_select (table_view u side mapping rows) t = table_view u side mapping (select_rows mapping rows t).
Proof.
  destruct t as [ts|]; cbn [view_select select_rows]; [|reflexivity].
  unfold table_view. rewrite filter_map_comm. reflexivity.
Qed.
Lemma existsb_map {A B} (p : B -> bool) (f : A -> B) l : existsb p (map f l) = existsb (fun a => p (f a)) l.
Proof. induction l as [|a l IH]; cbn [map existsb]; [reflexivity|]. rewrite IH. reflexivity. Qed.

Lemma table_factors_view u side mapping rows t :
  table_factors u side mapping rows t = view_factors u (table_view u side mapping rows) t.
Proof.
  unfold table_factors, view_factors.
  assert (Es : forall ts, table_stage_llhs u side mapping rows ts
                          = view_stage_llhs u (table_view u side mapping rows) ts).
  { intros ts. unfold table_stage_llhs, view_stage_llhs. rewrite view_select_table.
    unfold table_view. destruct (get_pmf u ts) as [e|pm]; cbn [bind]; [reflexivity|].
    rewrite map_map. reflexivity. }
  assert (Ev : table_valid_stages u mapping rows = view_valid_stages u (table_view u side mapping rows)).
  { unfold table_valid_stages, view_valid_stages. apply filter_ext_in'. intros ts _.
    unfold table_view. rewrite existsb_map. reflexivity. }
  rewrite Ev. rewrite (map_ext _ _ Es). reflexivity.
Qed.

(** the observables of a loaded table as functions of its view *)
Lemma loaded_view u side mapping rows : wf_uni u = true -> mods_not_reserved u = true ->
  match load_patient_data (u_lnls u) side mapping rows with
  | None => view_ok (table_view u side mapping rows) = false
  | Some data =>
      view_ok (table_view u side mapping rows) = true /\
      forall t, data_matrix u data t = inr (map snd (view_select (table_view u side mapping rows) t)) /\
                hmm_likelihood_factors u data t = view_factors u (table_view u side mapping rows) t
  end.
Proof.
  intros Hwf Hres. destruct (load_patient_data (u_lnls u) side mapping rows) as [data|] eqn:E.
  - pose proof (load_rows_Forall2 _ _ _ _ _ _ E) as HF. split.
    + unfold view_ok, table_view. rewrite forallb_forall. intros e He. apply in_map_iff in He.
      destruct He as [r [Er Hr]]. subst e. cbn [row_view fst].
      destruct (mapping (r_tstage_raw r)) eqn:Em; [reflexivity|].
      assert (Hn : load_patient_data (u_lnls u) side mapping rows = None).
      { apply load_rows_None. exists r. split; assumption. }
      rewrite Hn in E. discriminate.
    + assert (Hdm : forall t, data_matrix u data t
                              = inr (map snd (view_select (table_view u side mapping rows) t))).
      { intros t. rewrite (encoding_row_spec u side mapping rows data t Hwf Hres E).
        rewrite view_select_table. unfold table_view. rewrite map_map. reflexivity. }
      intros t. split; [apply Hdm|].
      assert (Hst : forall ts, hmm_patient_llhs u data ts
                               = view_stage_llhs u (table_view u side mapping rows) ts).
      { intros ts. unfold hmm_patient_llhs, view_stage_llhs, diagnosis_matrix.
        destruct (get_pmf u ts) as [e|pm]; cbn [bind]; [reflexivity|].
        rewrite Hdm. cbn [bind]. rewrite !map_map. reflexivity. }
      assert (Hvs : valid_t_stages u data = view_valid_stages u (table_view u side mapping rows)).
      { unfold valid_t_stages, view_valid_stages. apply filter_ext_in'. intros ts _.
        unfold table_view. rewrite existsb_map.
        clear - HF. induction HF as [|r p rows0 data0 [Hm _] _ IH]; cbn [map existsb]; [reflexivity|].
        rewrite IH. f_equal. unfold ventry_is, row_view. cbn [fst]. rewrite Hm. reflexivity. }
      unfold hmm_likelihood_factors, view_factors. rewrite Hvs. rewrite (map_ext _ _ Hst). reflexivity.
  - unfold load_patient_data in E. apply load_rows_None in E. destruct E as [r [Hr Hn]].
    unfold view_ok. apply not_true_iff_false. intros Hall. rewrite forallb_forall in Hall.
    specialize (Hall (row_view u side mapping r)). unfold row_view in Hall at 2. cbn [fst] in Hall.
    rewrite Hn in Hall. discriminate Hall. unfold table_view. apply in_map. exact Hr.
Qed.

Lemma factors_of_table : C08_factors_of_table_stmt.
Proof.
  intros u side mapping rows data t Hwf Hres E.
  pose proof (loaded_view u side mapping rows Hwf Hres) as H. rewrite E in H.
  destruct H as [_ H]. rewrite table_factors_view. apply H.
Qed.

(** equal views give equal results *)
Lemma same_results_of_view u side mapping rows rows' : wf_uni u = true -> mods_not_reserved u = true ->
  table_view u side mapping rows = table_view u side mapping rows' -> same_results u side mapping rows rows'.
Proof.
  intros Hwf Hres Ev t.
  pose proof (loaded_view u side mapping rows Hwf Hres) as H.
  pose proof (loaded_view u side mapping rows' Hwf Hres) as H'.
  unfold loaded_data_matrix, loaded_diagnosis_matrix, loaded_factors.
  destruct (load_patient_data (u_lnls u) side mapping rows) as [data|];
    destruct (load_patient_data (u_lnls u) side mapping rows') as [data'|]; cbn [option_map].
  - destruct H as [_ H], H' as [_ H']. destruct (H t) as [H1 H2], (H' t) as [H1' H2'].
    assert (Edm : data_matrix u data t = data_matrix u data' t) by (rewrite H1, H1', Ev; reflexivity).
    split; [rewrite Edm; reflexivity|]. split.
    + unfold diagnosis_matrix. rewrite Edm. reflexivity.
    + rewrite H2, H2', Ev. reflexivity.
  - destruct H as [H _]. rewrite Ev, H' in H. discriminate.
  - destruct H' as [H' _]. rewrite <- Ev, H in H'. discriminate.
  - repeat split.
Qed.

Lemma row_encoding_agree u side r r' :
  (forall m l, In m (u_mod_names u) -> In l (u_lnls u) ->
     cell_get (m, side, l) (r_cells r) = cell_get (m, side, l) (r_cells r')) ->
  row_encoding u side r = row_encoding u side r'.
Proof.
  intros H. unfold row_encoding. apply map_ext. intros z. unfold row_compatible.
  apply forallb_combine_ext. intros m zm Hm. apply forallb_combine_ext. intros l d Hl.
  rewrite (H m l Hm Hl). reflexivity.
Qed.

Lemma depends_only_on_recorded_cells : C08_depends_only_on_recorded_cells_stmt.
Proof.
  intros u side mapping rows rows' Hwf Hres HF. apply same_results_of_view; [exact Hwf|exact Hres|].
  unfold table_view. apply Forall2_map_eq. apply (Forall2_impl_in _ _ _ _ HF).
  intros r r' _ _ [Ht Hc]. unfold row_view. rewrite Ht, (row_encoding_agree u side r r' Hc). reflexivity.
Qed.

Lemma Forall2_map_r {A B} (R : A -> B -> Prop) (f : A -> B) l : (forall a, In a l -> R a (f a)) -> Forall2 R l (map f l).
Proof.
  induction l as [|a l IH]; intros H; cbn [map]; constructor.
  - apply H. left. reflexivity.
  - apply IH. intros; apply H; right; assumption.
Qed.

Lemma cell_get_filter keep k cells :
  cell_get k (filter (fun kv : key * option bool => keep (fst kv)) cells)
  = if keep k then cell_get k cells else None.
Proof.
  induction cells as [|[k' v] cells IH]; cbn [filter cell_get fst].
  - destruct (keep k); reflexivity.
  - destruct (key_eqb k k') eqn:E.
    + apply key_eqb_eq in E. subst k'. destruct (keep k) eqn:Ek; cbn [cell_get].
      * rewrite key_eqb_refl. reflexivity.
      * exact IH.
    + destruct (keep k'); cbn [cell_get]; [rewrite E|]; exact IH.
Qed.

Lemma cell_get_all_none k cells :
  (forall kv, In kv cells -> fst kv = k -> snd kv = None) -> cell_get k cells = None.
Proof.
  induction cells as [|[k' v] cells IH]; cbn [cell_get]; intros H; [reflexivity|].
  destruct (key_eqb k k') eqn:E.
  - apply key_eqb_eq in E. subst k'. exact (H (k, v) (or_introl eq_refl) eq_refl).
  - apply IH. intros kv Hin. apply H. right. exact Hin.
Qed.

Lemma unknown_columns_removable : C08_unknown_columns_removable_stmt.
Proof.
  intros u side mapping rows keep Hwf Hres Hun.
  apply depends_only_on_recorded_cells; [exact Hwf|exact Hres|].
  apply Forall2_map_r. intros r Hr. split; [reflexivity|].
  intros m l _ _. unfold filter_cells. cbn [r_cells]. rewrite cell_get_filter.
  destruct (keep (m, side, l)) eqn:Ek; [reflexivity|].
  apply cell_get_all_none. intros kv Hin Hk. apply (Hun r kv Hr Hin). rewrite Hk. exact Ek.
Qed.

Lemma irrelevant_columns_ignored : C08_irrelevant_columns_ignored_stmt.
Proof.
  intros u side mapping rows keep Hwf Hres Hk.
  apply depends_only_on_recorded_cells; [exact Hwf|exact Hres|].
  apply Forall2_map_r. intros r Hr. split; [reflexivity|].
  intros m l Hm Hl. unfold filter_cells. cbn [r_cells]. rewrite cell_get_filter, (Hk m l Hm Hl). reflexivity.
Qed.

Lemma cell_get_NoDup_In k v cells : NoDup (map fst cells) -> In (k, v) cells -> cell_get k cells = v.
Proof.
  induction cells as [|[k' v'] cells IH]; cbn [map fst cell_get In]; [tauto|].
  intros Hnd [H|H].
  - inversion H. subst. rewrite key_eqb_refl. reflexivity.
  - inversion Hnd as [|? ? Hnotin Hnd']. subst. destruct (key_eqb k k') eqn:E.
    + apply key_eqb_eq in E. subst k'. exfalso. apply Hnotin.
      apply in_map_iff. exists (k, v). split; [reflexivity|exact H].
    + apply IH; assumption.
Qed.
Lemma cell_get_perm k cells cells' : NoDup (map fst cells) -> Permutation cells cells' ->
  cell_get k cells = cell_get k cells'.
Proof.
  intros Hnd Hp.
  assert (Hnd' : NoDup (map fst cells')).
  { apply (Permutation_NoDup (l := map fst cells)); [apply Permutation_map; exact Hp|exact Hnd]. }
  destruct (in_dec (fun a b : key => match Bool.bool_dec (key_eqb a b) true with
                                     | left e => left (proj1 (key_eqb_eq a b) e)
                                     | right n => right (fun e => n (proj2 (key_eqb_eq a b) e)) end)
                   k (map fst cells)) as [Hin|Hnin].
  - apply in_map_iff in Hin. destruct Hin as [[k0 v] [Ek Hin]]. cbn [fst] in Ek. subst k0.
    rewrite (cell_get_NoDup_In k v cells Hnd Hin).
    symmetry. apply cell_get_NoDup_In; [exact Hnd'|]. exact (Permutation_in _ Hp Hin).
  - rewrite (cell_get_notin k cells Hnin). symmetry. apply cell_get_notin. intros Hin. apply Hnin.
    apply (Permutation_in _ (Permutation_sym (Permutation_map fst Hp))). exact Hin.
Qed.

Lemma column_order_irrelevant : C08_column_order_irrelevant_stmt.
Proof.
  intros u side mapping rows rows' Hwf Hres HF.
  apply depends_only_on_recorded_cells; [exact Hwf|exact Hres|].
  apply (Forall2_impl_in _ _ _ _ HF). intros r r' _ _ [Ht [Hnd Hp]]. split; [exact Ht|].
  intros m l _ _. apply cell_get_perm; assumption.
Qed.

(** * Row order and splits *)
Lemma Permutation_filter' {A} (p : A -> bool) l l' : Permutation l l' -> Permutation (filter p l) (filter p l').
Proof.
  induction 1 as [|a l l' H IH|a b l|l1 l2 l3 H1 IH1 H2 IH2]; cbn [filter].
  - constructor.
  - destruct (p a); [constructor|]; exact IH.
  - destruct (p a), (p b); try apply Permutation_refl. apply perm_swap.
  - exact (Permutation_trans IH1 IH2).
Qed.
Lemma existsb_perm {A} (p : A -> bool) l l' : Permutation l l' -> existsb p l = existsb p l'.
Proof.
  induction 1 as [|a l l' H IH|a b l|l1 l2 l3 H1 IH1 H2 IH2]; cbn [existsb].
  - reflexivity.
  - rewrite IH. reflexivity.
  - destruct (p a), (p b); reflexivity.
  - rewrite IH1. exact IH2.
Qed.
Lemma forallb_perm {A} (p : A -> bool) l l' : Permutation l l' -> forallb p l = forallb p l'.
Proof.
  induction 1 as [|a l l' H IH|a b l|l1 l2 l3 H1 IH1 H2 IH2]; cbn [forallb].
  - reflexivity.
  - rewrite IH. reflexivity.
  - destruct (p a), (p b); reflexivity.
  - rewrite IH1. exact IH2.
Qed.

Lemma res_perm_refl a : res_perm a a.
Proof. destruct a; cbn [res_perm]; [reflexivity|apply Permutation_refl]. Qed.

Lemma view_stage_perm u v v' t : Permutation v v' ->
  res_perm (view_stage_llhs u v t) (view_stage_llhs u v' t).
Proof.
  intros Hp. unfold view_stage_llhs. destruct (get_pmf u t) as [e|pm]; cbn [bind res_perm]; [reflexivity|].
  apply Permutation_map. cbn [view_select]. apply Permutation_filter'. exact Hp.
Qed.

Lemma concat_seq_perm (F F' : string -> res vec) stages :
  (forall s, res_perm (F s) (F' s)) ->
  res_perm (bind (sequence (map F stages)) (fun ls => inr (concat ls)))
           (bind (sequence (map F' stages)) (fun ls => inr (concat ls))).
Proof.
  intros H. induction stages as [|s stages IH]; cbn [map sequence bind concat res_perm].
  - apply Permutation_refl.
  - specialize (H s). destruct (F s) as [e|f], (F' s) as [e'|f']; cbn [res_perm bind] in *; try contradiction.
    + exact H.
    + destruct (sequence (map F stages)) as [e|ls], (sequence (map F' stages)) as [e'|ls'];
        cbn [bind res_perm concat] in *; try contradiction.
      * exact IH.
      * apply Permutation_app; assumption.
Qed.

Lemma view_factors_perm u v v' t : Permutation v v' ->
  res_perm (view_factors u v t) (view_factors u v' t).
Proof.
  intros Hp. unfold view_factors.
  assert (Ev : view_valid_stages u v = view_valid_stages u v').
  { unfold view_valid_stages. apply filter_ext_in'. intros ts _. apply existsb_perm. exact Hp. }
  rewrite Ev. apply concat_seq_perm. intros s. apply view_stage_perm. exact Hp.
Qed.

Lemma likelihood_perm_invariant : C08_likelihood_perm_invariant_stmt.
Proof.
  intros u side mapping rows rows' data Hwf Hres Hp E.
  pose proof (loaded_view u side mapping rows Hwf Hres) as H. rewrite E in H. destruct H as [Hok H].
  pose proof (loaded_view u side mapping rows' Hwf Hres) as H'.
  assert (Hpv : Permutation (table_view u side mapping rows) (table_view u side mapping rows')).
  { unfold table_view. apply Permutation_map. exact Hp. }
  destruct (load_patient_data (u_lnls u) side mapping rows') as [data'|].
  - exists data'. split; [reflexivity|]. intros t. destruct H' as [_ H'].
    rewrite (proj2 (H t)), (proj2 (H' t)). apply view_factors_perm. exact Hpv.
  - unfold view_ok in *. rewrite (forallb_perm _ _ _ Hpv) in Hok. rewrite Hok in H'. discriminate.
Qed.

(** split *)
Lemma view_stage_app u v1 v2 t :
  view_stage_llhs u (v1 ++ v2) t
  = bind (view_stage_llhs u v1 t) (fun f1 => bind (view_stage_llhs u v2 t) (fun f2 => inr (f1 ++ f2))).
Proof.
  unfold view_stage_llhs. destruct (get_pmf u t) as [e|pm]; cbn [bind]; [reflexivity|].
  cbn [view_select]. rewrite filter_app, map_app. reflexivity.
Qed.

(** total version of the per-stage factor list ([[]] when the distribution fails) *)
Definition stage_list (u : uni) (v : list ventry) (t : string) : vec :=
  match view_stage_llhs u v t with inr f => f | inl _ => [] end.
Lemma stage_list_absent u v t : existsb (ventry_is t) v = false -> stage_list u v t = [].
Proof.
  intros H. unfold stage_list, view_stage_llhs. destruct (get_pmf u t) as [e|pm]; cbn [bind]; [reflexivity|].
  cbn [view_select]. rewrite (filter_none (ventry_is t) v); [reflexivity|].
  intros a Ha. destruct (ventry_is t a) eqn:E; [|reflexivity].
  assert (Hex : existsb (ventry_is t) v = true) by (apply existsb_exists; exists a; split; assumption).
  rewrite Hex in H. discriminate.
Qed.
Lemma concat_map_filter {A B} (h : A -> list B) (p : A -> bool) l :
  (forall a, p a = false -> h a = []) -> concat (map h (filter p l)) = concat (map h l).
Proof.
  intros H. induction l as [|a l IH]; cbn [filter map concat]; [reflexivity|].
  destruct (p a) eqn:E; cbn [map concat]; rewrite IH; [reflexivity|]. rewrite (H a E). reflexivity.
Qed.
Lemma sequence_inr_all {A} (l : list (res A)) ls : sequence l = inr ls ->
  forall x, In x l -> exists a, x = inr a.
Proof.
  revert ls. induction l as [|r l IH]; intros ls; cbn [sequence In]; [tauto|].
  destruct r as [e|a]; cbn [bind]; [discriminate|].
  destruct (sequence l) as [e|t] eqn:Es; cbn [bind]; [discriminate|].
  intros _ x [H|H]; [subst x; exists a; reflexivity|exact (IH t eq_refl x H)].
Qed.
(** closed form of the all-stages factors over ALL distribution stages *)
Lemma view_factors_None_closed u v :
  (forall s, In s (view_valid_stages u v) -> exists f, view_stage_llhs u v s = inr f) ->
  view_factors u v None = inr (concat (map (stage_list u v) (map fst (u_dists u)))).
Proof.
  intros H. unfold view_factors.
  rewrite (sequence_map_inr _ (stage_list u v)).
  2:{ intros s Hs. destruct (H s Hs) as [f Hf]. unfold stage_list. rewrite Hf. reflexivity. }
  cbn [bind]. f_equal. unfold view_valid_stages. apply concat_map_filter.
  intros s Hs. apply stage_list_absent. exact Hs.
Qed.
Lemma view_factors_None_ok u v f : view_factors u v None = inr f ->
  forall s, In s (view_valid_stages u v) -> exists f', view_stage_llhs u v s = inr f'.
Proof.
  unfold view_factors. destruct (sequence (map (view_stage_llhs u v) (view_valid_stages u v))) as [e|ls] eqn:Es;
    cbn [bind]; [discriminate|].
  intros _ s Hs. apply (sequence_inr_all _ _ Es). apply in_map. exact Hs.
Qed.
Lemma concat_map_app_perm {A B} (h1 h2 : A -> list B) l :
  Permutation (concat (map (fun a => h1 a ++ h2 a) l)) (concat (map h1 l) ++ concat (map h2 l)).
Proof.
  induction l as [|a l IH]; cbn [map concat app]; [constructor|].
  rewrite <- !app_assoc. apply Permutation_app_head.
  apply (Permutation_trans (Permutation_app_head _ IH)).
  rewrite !app_assoc. apply Permutation_app_tail. apply Permutation_app_comm.
Qed.

Lemma load_app_inv lnls side mapping rows1 rows2 data :
  load_patient_data lnls side mapping (rows1 ++ rows2) = Some data ->
  exists d1 d2, load_patient_data lnls side mapping rows1 = Some d1 /\
                load_patient_data lnls side mapping rows2 = Some d2.
Proof.
  intros E.
  assert (H1 : load_patient_data lnls side mapping rows1 <> None).
  { intros Hn. apply load_rows_None in Hn. destruct Hn as [r [Hr Hn]].
    assert (Hx : load_patient_data lnls side mapping (rows1 ++ rows2) = None).
    { apply load_rows_None. exists r. split; [apply in_or_app; left; exact Hr|exact Hn]. }
    rewrite Hx in E. discriminate. }
  assert (H2 : load_patient_data lnls side mapping rows2 <> None).
  { intros Hn. apply load_rows_None in Hn. destruct Hn as [r [Hr Hn]].
    assert (Hx : load_patient_data lnls side mapping (rows1 ++ rows2) = None).
    { apply load_rows_None. exists r. split; [apply in_or_app; right; exact Hr|exact Hn]. }
    rewrite Hx in E. discriminate. }
  destruct (load_patient_data lnls side mapping rows1) as [d1|]; [|contradiction].
  destruct (load_patient_data lnls side mapping rows2) as [d2|]; [|contradiction].
  exists d1, d2. split; reflexivity.
Qed.

Lemma likelihood_split_additive : C08_likelihood_split_additive_stmt.
Proof.
  intros u side mapping rows1 rows2 data Hwf Hres E.
  destruct (load_app_inv _ _ _ _ _ _ E) as [d1 [d2 [E1 E2]]]. exists d1, d2.
  split; [exact E1|]. split; [exact E2|].
  pose proof (loaded_view u side mapping (rows1 ++ rows2) Hwf Hres) as H. rewrite E in H. destruct H as [_ H].
  pose proof (loaded_view u side mapping rows1 Hwf Hres) as H1. rewrite E1 in H1. destruct H1 as [_ H1].
  pose proof (loaded_view u side mapping rows2 Hwf Hres) as H2. rewrite E2 in H2. destruct H2 as [_ H2].
  set (v1 := table_view u side mapping rows1) in *. set (v2 := table_view u side mapping rows2) in *.
  assert (Ev : table_view u side mapping (rows1 ++ rows2) = v1 ++ v2) by (unfold table_view; apply map_app).
  rewrite Ev in H. split.
  - intros ts f. rewrite (proj2 (H (Some ts))), (proj2 (H1 (Some ts))), (proj2 (H2 (Some ts))).
    unfold view_factors. cbn [map sequence]. rewrite view_stage_app.
    destruct (view_stage_llhs u v1 ts) as [e|f1]; cbn [bind]; [discriminate|].
    destruct (view_stage_llhs u v2 ts) as [e|f2]; cbn [bind concat]; [discriminate|].
    intros Hf. inversion Hf. exists (f1 ++ []), (f2 ++ []). rewrite !app_nil_r. repeat split.
  - intros f. rewrite (proj2 (H None)), (proj2 (H1 None)), (proj2 (H2 None)). intros Hf.
    pose proof (view_factors_None_ok u (v1 ++ v2) f Hf) as Hok.
    assert (Hsub : forall s, In s (map fst (u_dists u)) ->
                     existsb (ventry_is s) (v1 ++ v2) = existsb (ventry_is s) v1 || existsb (ventry_is s) v2).
    { intros s _. apply existsb_app. }
    assert (Hok1 : forall s, In s (view_valid_stages u v1) -> exists f', view_stage_llhs u v1 s = inr f').
    { intros s Hs. unfold view_valid_stages in Hs. apply filter_In in Hs. destruct Hs as [Hd Hex].
      destruct (Hok s) as [f' Hf'].
      { unfold view_valid_stages. apply filter_In. split; [exact Hd|]. rewrite existsb_app, Hex. reflexivity. }
      rewrite view_stage_app in Hf'. destruct (view_stage_llhs u v1 s) as [e|g]; cbn [bind] in Hf'; [discriminate|].
      exists g. reflexivity. }
    assert (Hok2 : forall s, In s (view_valid_stages u v2) -> exists f', view_stage_llhs u v2 s = inr f').
    { intros s Hs. unfold view_valid_stages in Hs. apply filter_In in Hs. destruct Hs as [Hd Hex].
      destruct (Hok s) as [f' Hf'].
      { unfold view_valid_stages. apply filter_In. split; [exact Hd|]. rewrite existsb_app, Hex. apply orb_true_r. }
      rewrite view_stage_app in Hf'. destruct (view_stage_llhs u v1 s) as [e|g]; cbn [bind] in Hf'; [discriminate|].
      destruct (view_stage_llhs u v2 s) as [e|g2]; cbn [bind] in Hf'; [discriminate|].
      exists g2. reflexivity. }
    rewrite (view_factors_None_closed u (v1 ++ v2) Hok) in Hf. inversion Hf as [Hf'].
    rewrite (view_factors_None_closed u v1 Hok1), (view_factors_None_closed u v2 Hok2).
    eexists. eexists. split; [reflexivity|]. split; [reflexivity|].
    rewrite (map_ext_in (stage_list u (v1 ++ v2)) (fun s => stage_list u v1 s ++ stage_list u v2 s)).
    + apply concat_map_app_perm.
    + intros s Hs. unfold stage_list at 1. rewrite view_stage_app. unfold stage_list.
      destruct (existsb (ventry_is s) (v1 ++ v2)) eqn:Eex.
      * destruct (Hok s) as [f' Hf2]; [unfold view_valid_stages; apply filter_In; split; assumption|].
        rewrite view_stage_app in Hf2.
        destruct (view_stage_llhs u v1 s) as [e|g1]; cbn [bind] in *; [discriminate|].
        destruct (view_stage_llhs u v2 s) as [e|g2]; cbn [bind] in *; [discriminate|]. reflexivity.
      * rewrite existsb_app in Eex. apply orb_false_iff in Eex. destruct Eex as [Ex1 Ex2].
        pose proof (stage_list_absent u v1 s Ex1) as A1. pose proof (stage_list_absent u v2 s Ex2) as A2.
        unfold stage_list in A1, A2.
        destruct (view_stage_llhs u v1 s) as [e|g1]; cbn [bind]; [rewrite A2; reflexivity|].
        destruct (view_stage_llhs u v2 s) as [e|g2]; cbn [bind]; subst; reflexivity.
Qed.

(** * Likelihood from the recorded cells; the model without an unknown modality *)
Definition C01_entry_closed : C01_diagnosis_matrix_entry_stmt := diagnosis_matrix_entry observation_entries.
Definition C01_llhs_closed : C01_patient_likelihoods_stmt :=
  patient_likelihoods observation_entries (state_dist_spec transition_entries).

Lemma prodQ_combine_ext {A B} (f g : A * B -> Qc) (la : list A) (lb : list B) :
  (forall a b, In a la -> f (a, b) = g (a, b)) -> prodQ (map f (combine la lb)) = prodQ (map g (combine la lb)).
Proof. intros H. apply prodQ_map_ext. intros [a b] Hin. apply H. exact (in_combine_l _ _ _ _ Hin). Qed.

Lemma loaded_wf lnls side mods mapping rows data :
  Forall2 (loaded_from lnls side mods mapping) rows data -> forallb wf_patient data = true.
Proof.
  intros HF. apply forallb_forall. intros p Hp. destruct (Forall2_In_r _ _ _ _ HF Hp) as [r [_ [_ Hf]]].
  destruct p as [t f]. cbn [p_find] in Hf. subst f. apply wf_row_find.
Qed.

Lemma findings_prob_row u side rows r p x :
  In r rows -> mods_not_reserved u = true ->
  p_find p = row_find (u_lnls u) side (table_modalities side rows) r ->
  findings_prob u p x = row_findings_prob u side r x.
Proof.
  intros Hr Hres Hf. unfold findings_prob, row_findings_prob. apply prodQ_map_ext. intros [name md] Hin.
  assert (Hnr : reserved name = false).
  { unfold mods_not_reserved in Hres. rewrite forallb_forall in Hres. apply negb_true_iff. apply Hres.
    unfold u_mod_names. apply in_map_iff. exists (name, md). split; [reflexivity|exact Hin]. }
  rewrite Hf, diag_get_row_find. destruct (mem name (table_modalities side rows)) eqn:Em.
  - apply prodQ_combine_ext. intros l s Hl. rewrite pat_get_row_pattern. apply gmem_In in Hl. rewrite Hl. reflexivity.
  - symmetry. rewrite (prodQ_combine_ext _ (fun _ => 1)); [apply prodQ_map_one|].
    intros l s _. destruct (cell_get (name, side, l) (r_cells r)) as [b|] eqn:Ec; [|reflexivity].
    rewrite (mem_table_modalities side rows r name l b Hr Hnr Ec) in Em. discriminate.
Qed.

Lemma row_likelihood_spec : C08_row_likelihood_spec_stmt.
Proof.
  intros u side mapping rows data t pm Hwf Hres E.
  pose proof (load_rows_Forall2 _ _ _ _ _ _ E) as HF.
  pose proof (loaded_wf _ _ _ _ _ _ HF) as Hdata.
  assert (Hrows : forall t', map (fun p => map (findings_prob u p) (u_states u)) (select data t')
                             = map (fun r => map (row_findings_prob u side r) (u_states u)) (select_rows mapping rows t')).
  { intros t'. symmetry. apply Forall2_map_eq.
    apply (Forall2_impl_in _ _ _ _ (loaded_select _ _ _ _ _ _ t' HF)). intros r p Hr _ [_ Hf].
    apply map_ext. intros x. symmetry.
    exact (findings_prob_row u side rows r p x (select_rows_In _ _ _ _ Hr) Hres Hf). }
  split.
  - rewrite (C01_entry_closed u data t Hwf Hdata), Hrows. reflexivity.
  - intros ts Hpm Hlen. rewrite (C01_llhs_closed u data ts pm Hwf Hdata Hpm Hlen). f_equal.
    symmetry. apply Forall2_map_eq.
    apply (Forall2_impl_in _ _ _ _ (loaded_select _ _ _ _ _ _ (Some ts) HF)). intros r p Hr _ [_ Hf].
    unfold patient_lik_spec, row_lik_spec. symmetry. apply sumQ_map_ext. intros x _.
    rewrite (findings_prob_row u side rows r p x (select_rows_In _ _ _ _ Hr) Hres Hf). reflexivity.
Qed.

Lemma prodQ_filter_one {A} (F : A -> Qc) (keep : A -> bool) l :
  (forall a, In a l -> keep a = false -> F a = 1) -> prodQ (map F (filter keep l)) = prodQ (map F l).
Proof.
  induction l as [|a l IH]; intros H; cbn [filter map prodQ]; [reflexivity|].
  assert (IH' : prodQ (map F (filter keep l)) = prodQ (map F l)) by (apply IH; intros; apply H; [right|]; assumption).
  destruct (keep a) eqn:E; cbn [map prodQ]; rewrite IH'; [reflexivity|].
  rewrite (H a (or_introl eq_refl) E). ring.
Qed.

Lemma wf_uni_drop m u : wf_uni u = true -> wf_uni (drop_modality m u) = true.
Proof.
  unfold wf_uni. intros H. apply andb_true_iff in H. destruct H as [Hg Hn]. cbn [drop_modality u_graph u_mods].
  rewrite Hg. cbn [andb]. apply nodupb_NoDup. apply NoDup_map_filter. apply nodupb_NoDup. exact Hn.
Qed.

Lemma unknown_modality_is_marginalised : C08_unknown_modality_is_marginalised_stmt.
Proof.
  intros u side mapping rows data m Hwf Hres E Hunk.
  pose proof (load_rows_Forall2 _ _ _ _ _ _ E) as HF.
  pose proof (loaded_wf _ _ _ _ _ _ HF) as Hdata.
  assert (Hdm : forall t, diagnosis_matrix u data t = diagnosis_matrix (drop_modality m u) data t).
  { intros t. rewrite (C01_entry_closed u data t Hwf Hdata).
    rewrite (C01_entry_closed (drop_modality m u) data t (wf_uni_drop m u Hwf) Hdata).
    f_equal. apply map_ext_in. intros p Hp. apply select_In in Hp.
    destruct (Forall2_In_r _ _ _ _ HF Hp) as [r [Hr [_ Hf]]].
    change (u_states (drop_modality m u)) with (u_states u). apply map_ext. intros x.
    unfold findings_prob. cbn [drop_modality u_mods].
    change (u_base (drop_modality m u)) with (u_base u). change (u_lnls (drop_modality m u)) with (u_lnls u).
    symmetry. apply prodQ_filter_one. intros [name md] _ Hk. cbn [fst] in Hk.
    apply negb_false_iff in Hk. apply seqb_eq in Hk. subst name.
    rewrite Hf, diag_get_row_find. destruct (mem m (table_modalities side rows)); [|reflexivity].
    rewrite (prodQ_combine_ext _ (fun _ => 1)); [apply prodQ_map_one|].
    intros l s Hl. rewrite pat_get_row_pattern. pose proof Hl as Hl'. apply gmem_In in Hl'. rewrite Hl'.
    rewrite (Hunk r l Hr Hl). reflexivity. }
  intros t. split; [apply Hdm|].
  unfold hmm_likelihood_factors.
  change (valid_t_stages (drop_modality m u) data) with (valid_t_stages u data).
  rewrite (map_ext (hmm_patient_llhs (drop_modality m u) data) (hmm_patient_llhs u data)); [reflexivity|].
  intros ts. unfold hmm_patient_llhs. rewrite <- Hdm.
  change (get_pmf (drop_modality m u) ts) with (get_pmf u ts). reflexivity.
Qed.

(** * Example objects for the non-vacuity checks of properties/C08.v *)
(** model: [C01_ex_uni] (trinary graph T -> II, T -> III, III -> II; modalities CT and path).
    Table: row 1 records CT ipsi II+ III-, pathology ipsi III+ (no pathology column for II),
    a contralateral CT finding and a finding of a modality "XX" unknown to the model, raw
    T-stage 1; row 2 (raw 3) has an explicit unknown and one CT finding; row 3 (raw 2)
    records nothing. *)
Definition C08_ex_rows : table :=
  [ {| r_tstage_raw := 1%Z;
       r_cells := [(("CT", "ipsi", "II"), Some true); (("CT", "ipsi", "III"), Some false);
                   (("path", "ipsi", "III"), Some true); (("CT", "contra", "II"), Some false);
                   (("XX", "ipsi", "II"), Some true)] |};
    {| r_tstage_raw := 3%Z;
       r_cells := [(("CT", "ipsi", "II"), None); (("CT", "ipsi", "III"), Some true)] |};
    {| r_tstage_raw := 2%Z; r_cells := [] |} ]%string.
(** the same table with the columns of row 1 in another order, the unknown cell of row 2
    absent, and without the contralateral / XX columns *)
Definition C08_ex_rows' : table :=
  [ {| r_tstage_raw := 1%Z;
       r_cells := [(("path", "ipsi", "III"), Some true); (("CT", "ipsi", "III"), Some false);
                   (("CT", "ipsi", "II"), Some true)] |};
    {| r_tstage_raw := 3%Z; r_cells := [(("CT", "ipsi", "III"), Some true)] |};
    {| r_tstage_raw := 2%Z; r_cells := [(("path", "ipsi", "II"), None)] |} ]%string.
