(** NumpyMatrix: the remaining functions of lymph/matrix.py ([fast_trace], [evolve_midext],
    [generate_data_encoding]) and two helpers of lymph/utils.py ([early_late_mapping], [add_or_mult] with log=False),
    read with numpy's array semantics, line by line ([np_<function>]), and the STATIC proofs that this reading equals the
    model ([Linalg.fast_trace], [evolve_midext] below and [Midline.midext_evo], [Unilateral.patient_encoding] /
    [data_matrix], [Encoding.early_late], [add_or_mult] below).  The source translator (harness/translate4.py)
    re-generates every [np_<function>] from the Python source on every run and checks the generated term against the
    one written here by conversion ([reflexivity]).

    Arrays are lists of rows.  A list of zero rows forgets its width, numpy does not; every primitive whose result
    depends on a width therefore takes it as an explicit argument (the translator tracks shapes symbolically). *)
From LymphModel Require Import Base States Linalg Numpy Graph Transition Observation Dist Unilateral Models Bilateral
  Midline Encoding LikelihoodProofs NumpyTransition.
Local Open Scope nat_scope.

(** * generic list lemmas *)
Lemma nth_map2 {A B C} (f : A -> B -> C) da db dc : forall la lb j, j < length la -> j < length lb ->
  nth j (map2 f la lb) dc = f (nth j la da) (nth j lb db).
Proof.
  induction la as [|a la IH]; intros [|b lb] [|j] Ha Hb; cbn [length map2 nth] in *; try lia; [reflexivity|].
  apply IH; lia.
Qed.
Lemma nth_map_lt {A B} (h : A -> B) da db : forall l j, j < length l -> nth j (map h l) db = h (nth j l da).
Proof. induction l as [|a l IH]; intros [|j] H; cbn [length map nth] in *; try lia; [reflexivity|]. apply IH; lia. Qed.
Lemma nth_map_seq0 {A} (g : nat -> A) d n i : i < n -> nth i (map g (seq 0 n)) d = g i.
Proof.
  intros H. rewrite (nth_map_lt g 0%nat d) by (rewrite seq_length; exact H). rewrite seq_nth by exact H. reflexivity.
Qed.
Lemma map_combine_seq {A B} (f : nat -> A -> B) d (l : list A) : forall k,
  map (fun '(p, a) => f p a) (combine (seq k (length l)) l) = map (fun p => f p (nth (p - k) l d)) (seq k (length l)).
Proof.
  induction l as [|a l IH]; intros k; cbn [length seq combine map]; [reflexivity|].
  rewrite Nat.sub_diag. cbn [nth]. f_equal. rewrite IH. apply map_ext_in. intros p Hp. apply in_seq in Hp.
  replace (p - k)%nat with (S (p - S k)) by lia. reflexivity.
Qed.
Open Scope Qc_scope.

(** * numpy primitives (the translator's reading; trusted base) *)
(** M.T for M of shape (length M, w) *)
Definition np_T {A} (d : A) (w : nat) (M : list (list A)) : list (list A) :=
  map (fun j => map (fun r => nth j r d) M) (seq 0 w).
(** A * B for two 2-D arrays of equal shape *)
Definition np_mul2 (A B : mat) : mat := map2 (map2 Qcmult) A B.
(** np.sum(M, axis=0) for M of shape (length M, w) *)
Definition np_sum_axis0 (w : nat) (M : mat) : vec := map (fun j => sumQ (map (fun r => nth j r 0) M)) (seq 0 w).

Lemma dot_nth : forall (u v : vec), length u = length v ->
  dot u v = sumQ (map (fun i => nth i u 0 * nth i v 0) (seq 0 (length u))).
Proof.
  induction u as [|a u IH]; intros [|b v] H; cbn [length] in H; try discriminate; [reflexivity|].
  cbn [dot length seq map sumQ nth]. f_equal. rewrite <- seq_shift, map_map. cbn [nth]. apply IH. lia.
Qed.
Lemma Forall_nth_len {A} (n : nat) (M : list (list A)) i : Forall (fun r => length r = n) M -> (i < length M)%nat ->
  length (nth i M []) = n.
Proof. intros H Hi. rewrite Forall_forall in H. apply H. apply nth_In. exact Hi. Qed.

(** * matrix.fast_trace *)
(** return np.sum(left.T * right, axis=0)        with left of shape (P, S), P = len(left) *)
Definition np_fast_trace (S : nat) (left right : mat) : vec :=
  np_sum_axis0 (length left) (np_mul2 (np_T 0 S left) right).

Lemma np_fast_trace_tab S left right :
  Forall (fun r => length r = S) left -> length right = S -> Forall (fun r => length r = length left) right ->
  np_fast_trace S left right
  = map (fun p => sumQ (map (fun i => nth i (nth p left []) 0 * nth p (nth i right []) 0) (seq 0 S))) (seq 0 (length left)).
Proof.
  intros Hl Hr Hrw. unfold np_fast_trace, np_sum_axis0, np_mul2, np_T.
  apply map_ext_in. intros p Hp. apply in_seq in Hp.
  rewrite <- (np_fill_rows_map2 (map2 Qcmult) [] [])
    by (rewrite map_length, seq_length; symmetry; exact Hr).
  unfold np_fill_rows. rewrite map_length, seq_length, map_map.
  apply sumQ_map_ext. intros i Hi. apply in_seq in Hi.
  rewrite nth_map_seq0 by lia.
  rewrite (nth_map2 Qcmult 0 0 0).
  - rewrite (nth_map_lt _ [] 0) by lia. reflexivity.
  - rewrite map_length. lia.
  - rewrite (Forall_nth_len (length left)); [lia|exact Hrw|lia].
Qed.

Lemma fast_trace_tab S left right :
  Forall (fun r => length r = S) left -> length right = S ->
  fast_trace left right
  = map (fun p => sumQ (map (fun i => nth i (nth p left []) 0 * nth p (nth i right []) 0) (seq 0 S))) (seq 0 (length left)).
Proof.
  intros Hl Hr. unfold fast_trace.
  rewrite (map_combine_seq (fun p row => dot row (mcol right p)) [] left 0).
  apply map_ext_in. intros p Hp. apply in_seq in Hp. rewrite Nat.sub_0_r.
  assert (Hlen : length (nth p left []) = S) by (apply Forall_nth_len; [exact Hl|lia]).
  rewrite dot_nth by (unfold mcol; rewrite map_length; lia).
  rewrite Hlen. apply sumQ_map_ext. intros i Hi. apply in_seq in Hi. f_equal.
  unfold mcol. apply (nth_map_lt (fun r => nth p r 0) [] 0). lia.
Qed.

(** the numpy reading of [fast_trace] equals the model for rectangular arguments: left is P x S, right is S x P *)
Lemma np_fast_trace_eq S left right :
  Forall (fun r => length r = S) left -> length right = S -> Forall (fun r => length r = length left) right ->
  np_fast_trace S left right = fast_trace left right.
Proof.
  intros Hl Hr Hrw. rewrite np_fast_trace_tab by assumption. symmetry. apply fast_trace_tab; assumption.
Qed.

(** * matrix.evolve_midext *)
(** Model: rows t = 0 .. max_time of the 2-state chain (no extension, extension) with transition matrix
    [[1-p, p], [0, 1]], started in [1, 0] (same row recursion as [Unilateral.state_dist_evo]). *)
Definition midext_transition (p : Qc) : mat := [[1 - p; p]; [0; 1]].
Definition evolve_midext (max_time : nat) (p : Qc) : mat := evo_rows (midext_transition p) [1; 0] max_time.

Definition midext_row (p : Qc) (t : nat) : vec := [Dist.qpow (1 - p) t; 1 - Dist.qpow (1 - p) t].

Lemma evo_rows_midext p k : forall s, evo_rows (midext_transition p) (midext_row p s) k = map (midext_row p) (seq s (S k)).
Proof.
  induction k as [|k IH]; intros s; [reflexivity|].
  cbn [evo_rows]. change (seq s (S (S k))) with (s :: seq (S s) (S k)). cbn [map]. f_equal.
  rewrite <- IH. f_equal.
  unfold midext_row, midext_transition. cbn [length vecmat_w vadd vscale map map2 zeros repeat Dist.qpow].
  f_equal; [ring|f_equal; ring].
Qed.

(** (a) row t = [(1-p)^t; 1 - (1-p)^t] *)
Lemma evolve_midext_closed max_time p : evolve_midext max_time p = map (midext_row p) (seq 0 (S max_time)).
Proof. unfold evolve_midext. change [1; 0] with (midext_row p 0). apply evo_rows_midext. Qed.
Lemma evolve_midext_row max_time p t : (t <= max_time)%nat ->
  nth t (evolve_midext max_time p) [] = [Dist.qpow (1 - p) t; 1 - Dist.qpow (1 - p) t].
Proof. intros H. rewrite evolve_midext_closed. apply (nth_map_seq0 (midext_row p)). lia. Qed.
Lemma evolve_midext_length max_time p : length (evolve_midext max_time p) = S max_time.
Proof. rewrite evolve_midext_closed, map_length, seq_length. reflexivity. Qed.
(** (b) every row is a distribution over {no extension, extension} *)
Lemma evolve_midext_rows_sum max_time p : Forall (fun r => sumQ r = 1) (evolve_midext max_time p).
Proof.
  rewrite evolve_midext_closed. apply Forall_forall. intros r Hr. apply in_map_iff in Hr. destruct Hr as [t [<- _]].
  unfold midext_row. cbn [sumQ]. ring.
Qed.
(** (c) the Midline model's extension probability over time is this matrix, row by row *)
Lemma midext_evo_evolve_midext ml :
  midext_evo ml = map (fun r => (nth 0 r 0, nth 1 r 0)) (evolve_midext (ml_maxt ml) (ml_midext ml)).
Proof. rewrite evolve_midext_closed, map_map. reflexivity. Qed.

(** numpy reading.  np.zeros(shape=(r, c)); M[i, j] = v; M[i, :] = row; v @ M for a 1-D v and M of shape (length v, w) *)
Definition np_zeros (r c : nat) : mat := repeat (repeat 0 c) r.
Fixpoint list_set {A} (l : list A) (i : nat) (a : A) : list A :=
  match l, i with
  | [], _ => []
  | _ :: r, O => a :: r
  | x :: r, S i' => x :: list_set r i' a
  end.
Definition np_set_row {A} (M : list (list A)) (i : nat) (row : list A) : list (list A) := list_set M i row.
Definition np_set2 {A} (M : list (list A)) (i j : nat) (v : A) : list (list A) := list_set M i (list_set (nth i M []) j v).
Definition np_vecmat (w : nat) (v : vec) (M : mat) : vec := map (fun j => dot v (map (fun r => nth j r 0) M)) (seq 0 w).

(**   midext_states = np.zeros(shape=(max_time + 1, 2), dtype=float)
      midext_states[0, 0] = 1.0
      midext_transition_matrix = np.array([[1 - midext_prob, midext_prob], [0.0, 1.0]])
      for i in range(len(midext_states) - 1):
          midext_states[i + 1, :] = midext_states[i, :] @ midext_transition_matrix
      return midext_states *)
Definition np_evolve_midext (max_time : nat) (midext_prob : Qc) : mat :=
  let midext_states := np_zeros (max_time + 1)%nat 2%nat in
  let midext_states := np_set2 midext_states 0%nat 0%nat 1%Qc in
  let midext_transition_matrix := [[(1%Qc - midext_prob)%Qc; midext_prob]; [0%Qc; 1%Qc]] in
  let midext_states := fold_left (fun (midext_states : mat) (i : nat) =>
      np_set_row midext_states (i + 1)%nat (np_vecmat 2%nat (nth i midext_states []) midext_transition_matrix))
    (seq 0 (length midext_states - 1)%nat) midext_states in
  midext_states.

Lemma list_set_length {A} (l : list A) : forall i a, length (list_set l i a) = length l.
Proof. induction l as [|x l IH]; intros [|i] a; cbn [list_set length]; try reflexivity. rewrite IH. reflexivity. Qed.
Lemma list_set_app {A} (pre : list A) z post a i : length pre = i -> list_set (pre ++ z :: post) i a = pre ++ a :: post.
Proof. intros <-. induction pre as [|x pre IH]; cbn [app length list_set]; [reflexivity|]. rewrite IH. reflexivity. Qed.

Lemma np_vecmat_midext p t : np_vecmat 2 (midext_row p t) (midext_transition p) = midext_row p (S t).
Proof.
  unfold np_vecmat, midext_row, midext_transition. cbn [seq map nth dot Dist.qpow].
  f_equal; [ring|f_equal; ring].
Qed.

Lemma np_evolve_midext_loop p T : forall k, (k <= T)%nat ->
  fold_left (fun (ms : mat) (i : nat) => np_set_row ms (i + 1)%nat (np_vecmat 2%nat (nth i ms []) (midext_transition p)))
    (seq 0 k) (midext_row p 0 :: repeat [0; 0] T)
  = map (midext_row p) (seq 0 (S k)) ++ repeat [0; 0] (T - k)%nat.
Proof.
  induction k as [|k IH]; intros Hk.
  - cbn [seq fold_left map app]. rewrite Nat.sub_0_r. reflexivity.
  - rewrite seq_S, fold_left_app, IH by lia. cbn [Nat.add fold_left].
    replace (T - k)%nat with (S (T - S k)) by lia. cbn [repeat].
    assert (Hlen : length (map (midext_row p) (seq 0 (S k))) = S k) by (rewrite map_length, seq_length; reflexivity).
    rewrite app_nth1 by lia. rewrite (nth_map_seq0 (midext_row p)) by lia.
    rewrite np_vecmat_midext. unfold np_set_row. rewrite Nat.add_1_r.
    rewrite list_set_app by exact Hlen. rewrite (seq_S (S k) 0), map_app, <- app_assoc. reflexivity.
Qed.

Lemma np_evolve_midext_eq max_time p : np_evolve_midext max_time p = evolve_midext max_time p.
Proof.
  unfold np_evolve_midext. cbv zeta. rewrite Nat.add_1_r.
  unfold np_zeros, np_set2. cbn [repeat nth list_set length]. rewrite repeat_length.
  replace (S max_time - 1)%nat with max_time by lia.
  change [1; 0] with (midext_row p 0).
  change [[1 - p; p]; [0; 1]] with (midext_transition p).
  refine (eq_trans (np_evolve_midext_loop p max_time max_time (le_n _)) _).
  rewrite Nat.sub_diag, app_nil_r. symmetry. apply evolve_midext_closed.
Qed.

(** * matrix.generate_data_encoding *)
(** boolean arrays: np.ones(shape=(r, c), dtype=bool); M[:, i] = v (v of length = rows of M); np.kron of two 1-D boolean
    arrays is [kron_bvec] *)
Definition np_ones_b (r c : nat) : list bvec := repeat (repeat true c) r.
Definition np_set_col {A} (M : list (list A)) (i : nat) (v : list A) : list (list A) :=
  map2 (fun row x => list_set row i x) M v.

(**   result = np.ones(shape=(2 ** (len(lnls) * len(modalities)), len(patient_data)), dtype=bool)
      for i, (_, patient_row) in enumerate(patient_data["_model"].iterrows()):
          patient_encoding = np.ones(shape=1, dtype=bool)
          for modality_name in modalities.keys():
              if modality_name not in patient_row:
                  warnings.warn(...)
                  diagnosis_encoding = np.ones(shape=2 ** len(lnls), dtype=bool)
              else:
                  diagnosis_encoding = compute_encoding(lnls=lnls, pattern=patient_row[modality_name], base=2)
              patient_encoding = np.kron(patient_encoding, diagnosis_encoding)
          result[:, i] = patient_encoding
      return result.T
    A raised ValueError (from compute_encoding) is [inl MValue] and ends the call.  [modalities] = the names
    [modalities.keys()] in order, [patient_data] = the rows of [patient_data["_model"]] in table order, each read as the
    model's [patient] record: `name not in patient_row` = [diag_get name (p_find row) = None], `patient_row[name]` = the
    pattern found by [diag_get]. *)
Definition np_generate_data_encoding (lnls modalities : list string) (patient_data : list patient) : res (list bvec) :=
  let result := np_ones_b (2 ^ (length lnls * length modalities)) (length patient_data) in
  bind (fold_left (fun (acc : res (list bvec)) '(i, patient_row) =>
      bind acc (fun result =>
        let patient_encoding := repeat true 1 in
        bind (fold_left (fun (acc : res bvec) (modality_name : string) =>
            bind acc (fun patient_encoding =>
              bind (match diag_get modality_name (p_find patient_row) with
                    | None => inr (repeat true (2 ^ length lnls))
                    | Some pattern =>
                        match compute_encoding lnls pattern 2 with None => inl MValue | Some e => inr e end
                    end) (fun diagnosis_encoding =>
              inr (kron_bvec patient_encoding diagnosis_encoding))))
          modalities (inr patient_encoding)) (fun patient_encoding =>
        inr (np_set_col result i patient_encoding))))
    (combine (seq 0 (length patient_data)) patient_data) (inr result))
  (fun result => inr (np_T true (length patient_data) result)).

(** ** list lemmas *)
Lemma nth_list_set {A} (d : A) : forall l i j a, (i < length l)%nat ->
  nth j (list_set l i a) d = if Nat.eqb j i then a else nth j l d.
Proof.
  induction l as [|x l IH]; intros [|i] [|j] a H; cbn [length list_set nth Nat.eqb] in *; try lia; try reflexivity.
  apply IH. lia.
Qed.
Lemma list_set_map_seq {A} (g : nat -> A) (v : A) i : forall M k,
  list_set (map g (seq k M)) i v = map (fun j => if Nat.eqb j (k + i) then v else g j) (seq k M).
Proof.
  revert i. assert (Hne : forall M k i, map (fun j => if Nat.eqb j (k + i) then v else g j) (seq (S k + i) M) = map g (seq (S k + i) M)).
  { intros M k i. apply map_ext_in. intros j Hj. apply in_seq in Hj.
    destruct (Nat.eqb j (k + i)) eqn:E; [apply Nat.eqb_eq in E; lia|reflexivity]. }
  intros i M. revert i. induction M as [|M IH]; intros i k; cbn [seq map list_set]; [reflexivity|].
  destruct i as [|i].
  - rewrite Nat.add_0_r, Nat.eqb_refl. f_equal.
    specialize (Hne M k 0%nat). rewrite !Nat.add_0_r in Hne. symmetry. exact Hne.
  - destruct (Nat.eqb k (k + S i)) eqn:E; [apply Nat.eqb_eq in E; lia|]. f_equal.
    rewrite IH. replace (S k + i)%nat with (k + S i)%nat by lia. reflexivity.
Qed.
Lemma map_map2 {A B C D} (h : C -> D) (f : A -> B -> C) : forall la lb, map h (map2 f la lb) = map2 (fun a b => h (f a b)) la lb.
Proof. induction la as [|a la IH]; intros [|b lb]; cbn [map2 map]; try reflexivity. rewrite IH. reflexivity. Qed.
Lemma map2_snd {A B} : forall (la : list A) (lb : list B), length la = length lb -> map2 (fun _ b => b) la lb = lb.
Proof. induction la as [|a la IH]; intros [|b lb] H; cbn [length map2] in *; try discriminate; [reflexivity|]. rewrite IH by lia. reflexivity. Qed.
Lemma map2_fst {A B C} (h : A -> C) : forall (la : list A) (lb : list B), length la = length lb ->
  map2 (fun a _ => h a) la lb = map h la.
Proof. induction la as [|a la IH]; intros [|b lb] H; cbn [length map2 map] in *; try discriminate; [reflexivity|]. rewrite IH by lia. reflexivity. Qed.
Lemma fold_left_ext' {A B} (f g : A -> B -> A) : (forall a b, f a b = g a b) -> forall l acc, fold_left f l acc = fold_left g l acc.
Proof. intros H l. induction l as [|b l IH]; intros acc; cbn [fold_left]; [reflexivity|]. rewrite H. apply IH. Qed.
Lemma fold_left_inl {A B} (f : res A -> B -> res A) e : (forall b, f (inl e) b = inl e) -> forall l, fold_left f l (inl e) = inl e.
Proof. intros H l. induction l as [|b l IH]; cbn [fold_left]; [reflexivity|]. rewrite H. exact IH. Qed.

(** ** the column view: setting column i of a W x M array sets row i of its transpose *)
Lemma np_T_set_col {A} (d : A) W M (R : list (list A)) i v :
  length R = W -> Forall (fun r => length r = M) R -> length v = W -> (i < M)%nat ->
  np_T d M (np_set_col R i v) = list_set (np_T d M R) i v.
Proof.
  intros HR Hrow Hv Hi. unfold np_T, np_set_col.
  rewrite (list_set_map_seq _ v i M 0%nat). cbn [Nat.add]. apply map_ext_in. intros j Hj. rewrite map_map2.
  rewrite Forall_forall in Hrow.
  destruct (Nat.eqb j i) eqn:E.
  - rewrite (map2_ext_in _ (fun _ x => x)); [apply map2_snd; lia|].
    intros row x Hin. rewrite nth_list_set by (rewrite (Hrow row Hin); exact Hi). rewrite E. reflexivity.
  - rewrite (map2_ext_in _ (fun row _ => nth j row d)); [apply map2_fst; lia|].
    intros row x Hin. rewrite nth_list_set by (rewrite (Hrow row Hin); exact Hi). rewrite E. reflexivity.
Qed.
Lemma np_set_col_shape {A} W M (R : list (list A)) i v :
  length R = W -> Forall (fun r => length r = M) R -> length v = W ->
  length (np_set_col R i v) = W /\ Forall (fun r => length r = M) (np_set_col R i v).
Proof.
  intros HR Hrow Hv. unfold np_set_col. split; [rewrite map2_length; lia|].
  clear HR Hv. revert v. induction R as [|r R IH]; intros [|x v]; cbn [map2]; try constructor.
  - rewrite list_set_length. inversion Hrow; assumption.
  - apply IH. inversion Hrow; assumption.
Qed.
Lemma np_T_set_cols {A} (d : A) W M : forall (es : list (list A)) k R,
  length R = W -> Forall (fun r => length r = M) R -> Forall (fun e => length e = W) es -> (k + length es <= M)%nat ->
  np_T d M (fold_left (fun R '(i, e) => np_set_col R i e) (combine (seq k (length es)) es) R)
  = fold_left (fun C '(i, e) => list_set C i e) (combine (seq k (length es)) es) (np_T d M R).
Proof.
  induction es as [|e es IH]; intros k R HR Hrow Hes Hk; cbn [length seq combine fold_left]; [reflexivity|].
  cbn [length] in Hk. inversion Hes as [|? ? He Hes']; subst.
  destruct (np_set_col_shape (length R) M R k e eq_refl Hrow He) as [H1 H2].
  rewrite IH by (try assumption; lia).
  rewrite (np_T_set_col d (length R) M) by (try assumption; try reflexivity; lia). reflexivity.
Qed.
Lemma fill_rows {A} : forall (es pre rest : list A), length rest = length es ->
  fold_left (fun C '(i, e) => list_set C i e) (combine (seq (length pre) (length es)) es) (pre ++ rest) = pre ++ es.
Proof.
  induction es as [|e es IH]; intros pre [|z rest] H; cbn [length] in H; try discriminate; cbn [length seq combine fold_left];
    [reflexivity|].
  rewrite list_set_app by reflexivity.
  replace (pre ++ e :: rest) with ((pre ++ [e]) ++ rest) by (rewrite <- app_assoc; reflexivity).
  replace (S (length pre)) with (length (pre ++ [e])) by (rewrite app_length; cbn [length]; lia).
  rewrite IH by lia. rewrite <- app_assoc. reflexivity.
Qed.
Lemma np_T_ones_b W M : np_T true M (np_ones_b W M) = repeat (repeat true W) M.
Proof.
  unfold np_T, np_ones_b.
  transitivity (map (fun _ : nat => repeat true W) (seq 0 M)); [|rewrite map_const_repeat, seq_length; reflexivity].
  apply map_ext_in. intros j Hj. apply in_seq in Hj. rewrite map_repeat'. f_equal. apply nth_repeat'. lia.
Qed.
(** the pure part of the patient loop followed by [.T] *)
Lemma np_fill_columns W (es : list bvec) : Forall (fun e => length e = W) es ->
  np_T true (length es) (fold_left (fun R '(i, e) => np_set_col R i e) (combine (seq 0 (length es)) es)
                                   (np_ones_b W (length es))) = es.
Proof.
  intros Hes. rewrite (np_T_set_cols true W (length es)).
  - rewrite np_T_ones_b. apply (fill_rows es [] (repeat (repeat true W) (length es))). apply repeat_length.
  - unfold np_ones_b. apply repeat_length.
  - unfold np_ones_b. apply Forall_forall. intros r Hr. apply repeat_spec in Hr. subst r. apply repeat_length.
  - exact Hes.
  - apply Nat.le_refl.
Qed.

(** ** the exception monad: a loop that stops at the first raising row = [sequence] *)
Lemma fold_res_sequence {A B R} (f : A -> res B) (g : R -> nat -> B -> R) : forall rows k R0,
  fold_left (fun (acc : res R) '(i, a) => bind acc (fun r => bind (f a) (fun b => inr (g r i b))))
            (combine (seq k (length rows)) rows) (inr R0)
  = bind (sequence (map f rows))
         (fun bs => inr (fold_left (fun r '(i, b) => g r i b) (combine (seq k (length bs)) bs) R0)).
Proof.
  induction rows as [|a rows IH]; intros k R0; cbn [length seq combine fold_left map sequence bind]; [reflexivity|].
  destruct (f a) as [e|b]; cbn [bind].
  - apply fold_left_inl. intros [i a']. reflexivity.
  - rewrite IH. destruct (sequence (map f rows)) as [e|bs]; cbn [bind]; reflexivity.
Qed.
Lemma sequence_map_Forall {A B} (f : A -> res B) (P : B -> Prop) : (forall a b, f a = inr b -> P b) ->
  forall l bs, sequence (map f l) = inr bs -> Forall P bs.
Proof.
  intros H. induction l as [|a l IH]; intros bs; cbn [map sequence].
  - intros E. inversion E. constructor.
  - destruct (f a) as [e|b] eqn:Ea; cbn [bind]; [discriminate|].
    destruct (sequence (map f l)) as [e|t]; cbn [bind]; [discriminate|].
    intros E. inversion E. constructor; [exact (H a b Ea)|apply IH; reflexivity].
Qed.

(** ** one row *)
Lemma kron_bvec_length u v : length (kron_bvec u v) = (length u * length v)%nat.
Proof. unfold kron_bvec. apply flat_map_length_const. intros a _. apply map_length. Qed.
Lemma compute_encoding_2_length lnls p e : compute_encoding lnls p 2 = Some e -> length e = (2 ^ length lnls)%nat.
Proof.
  rewrite compute_encoding_gen by reflexivity. destruct (forallb (enc_okb 2 p) lnls); [|discriminate].
  intros E. inversion E. rewrite map_length. apply all_states_length.
Qed.
Lemma patient_encoding_length lnls mods p e :
  patient_encoding lnls mods p = inr e -> length e = (2 ^ (length lnls * length mods))%nat.
Proof.
  unfold patient_encoding.
  assert (G : forall acc0, fold_left (fun (acc : res bvec) m =>
      bind acc (fun enc =>
        match diag_get m (p_find p) with
        | None => inr (kron_bvec enc (repeat true (Nat.pow 2 (length lnls))))
        | Some pat => match compute_encoding lnls pat 2 with
                      | None => inl MValue
                      | Some e => inr (kron_bvec enc e)
                      end
        end)) mods (inr acc0) = inr e -> length e = (length acc0 * 2 ^ (length lnls * length mods))%nat).
  { induction mods as [|m mods IH]; intros acc0; cbn [fold_left length bind].
    - intros E. inversion E. rewrite Nat.mul_0_r. cbn [Nat.pow]. lia.
    - destruct (diag_get m (p_find p)) as [pat|].
      + destruct (compute_encoding lnls pat 2) as [e'|] eqn:Ec.
        * intros E. rewrite (IH _ E), kron_bvec_length, (compute_encoding_2_length _ _ _ Ec).
          rewrite Nat.mul_succ_r, Nat.pow_add_r. lia.
        * rewrite fold_left_inl by reflexivity. discriminate.
      + intros E. rewrite (IH _ E), kron_bvec_length, repeat_length.
        rewrite Nat.mul_succ_r, Nat.pow_add_r. lia. }
  intros E. rewrite (G [true] E). cbn [length]. lia.
Qed.

Lemma np_patient_encoding_eq lnls modalities (patient_row : patient) :
  fold_left (fun (acc : res bvec) (modality_name : string) =>
      bind acc (fun patient_encoding =>
        bind (match diag_get modality_name (p_find patient_row) with
              | None => inr (repeat true (2 ^ length lnls))
              | Some pattern => match compute_encoding lnls pattern 2 with None => inl MValue | Some e => inr e end
              end) (fun diagnosis_encoding =>
        inr (kron_bvec patient_encoding diagnosis_encoding))))
    modalities (inr (repeat true 1))
  = patient_encoding lnls modalities patient_row.
Proof.
  unfold patient_encoding. cbn [repeat]. apply fold_left_ext'. intros [e|enc] m; cbn [bind]; [reflexivity|].
  destruct (diag_get m (p_find patient_row)) as [pat|]; cbn [bind]; [|reflexivity].
  destruct (compute_encoding lnls pat 2); reflexivity.
Qed.

(** ** the whole function = the model's encoding of every row, first raising row first *)
Lemma np_generate_data_encoding_eq lnls modalities patient_data :
  np_generate_data_encoding lnls modalities patient_data
  = sequence (map (patient_encoding lnls modalities) patient_data).
Proof.
  unfold np_generate_data_encoding. cbv zeta.
  rewrite (fold_left_ext' _ (fun (acc : res (list bvec)) '(i, a) =>
             bind acc (fun r => bind (patient_encoding lnls modalities a) (fun b => inr (np_set_col r i b))))).
  2:{ intros [e|R] [i row]; cbn [bind]; [reflexivity|]. rewrite np_patient_encoding_eq. reflexivity. }
  rewrite (fold_res_sequence (patient_encoding lnls modalities) (fun r i b => np_set_col r i b)).
  destruct (sequence (map (patient_encoding lnls modalities) patient_data)) as [e|es] eqn:Es; cbn [bind]; [reflexivity|].
  f_equal. pose proof (sequence_length _ _ Es) as Hlen. rewrite map_length in Hlen. rewrite <- Hlen.
  apply np_fill_columns.
  apply (sequence_map_Forall (patient_encoding lnls modalities) _ (patient_encoding_length lnls modalities) _ _ Es).
Qed.

Corollary np_generate_data_encoding_data_matrix u data t :
  np_generate_data_encoding (u_lnls u) (u_mod_names u) (select data t) = data_matrix u data t.
Proof. apply np_generate_data_encoding_eq. Qed.

(** * utils.early_late_mapping: the model is [Encoding.early_late] (the generated term is compared with it directly) *)
Lemma early_late_cases z :
  early_late z = if ((0 <=? z) && (z <=? 2))%Z then Some "early"%string
                 else if ((3 <=? z) && (z <=? 4))%Z then Some "late"%string else None.
Proof. reflexivity. Qed.
Lemma early_late_total z : (0 <= z <= 4)%Z <-> early_late z <> None.
Proof.
  unfold early_late. split.
  - intros H. destruct ((0 <=? z) && (z <=? 2))%Z eqn:E1; [discriminate|].
    destruct ((3 <=? z) && (z <=? 4))%Z eqn:E2; [discriminate|].
    apply andb_false_iff in E1, E2. exfalso. destruct E1 as [E|E], E2 as [E'|E']; apply Z.leb_gt in E, E'; lia.
  - destruct ((0 <=? z) && (z <=? 2))%Z eqn:E1.
    + apply andb_true_iff in E1. destruct E1 as [A B]. apply Z.leb_le in A, B. lia.
    + destruct ((3 <=? z) && (z <=? 4))%Z eqn:E2; [|intros H; exfalso; apply H; reflexivity].
      apply andb_true_iff in E2. destruct E2 as [A B]. apply Z.leb_le in A, B. lia.
Qed.

(** * utils.add_or_mult *)
(** The model keeps the per-patient likelihood factors as a vector ([hmm_likelihood_factors]: "the factors whose product
    is likelihood(log=False) and whose log-sum is likelihood(log=True)"); this is the accumulation step that the three
    likelihood functions apply per T-stage.  The logarithm is not a rational function: the definition is parametric in it. *)
Section AddOrMult.
  Variable ln : Qc -> Qc.
  Definition add_or_mult (log : bool) (llh : Qc) (arr : vec) : Qc :=
    if log then llh + sumQ (map ln arr) else llh * prodQ arr.
  (** accumulating stage by stage from 1 (log=False) / 0 (log=True) gives the product / log-sum of all factors *)
  Lemma add_or_mult_fold_prod (ls : list vec) : forall llh,
    fold_left (add_or_mult false) ls llh = llh * prodQ (concat ls).
  Proof.
    induction ls as [|a ls IH]; intros llh; cbn [fold_left concat prodQ]; [ring|].
    rewrite IH, prodQ_app. unfold add_or_mult. ring.
  Qed.
  Lemma add_or_mult_fold_sum (ls : list vec) : forall llh,
    fold_left (add_or_mult true) ls llh = llh + sumQ (map ln (concat ls)).
  Proof.
    induction ls as [|a ls IH]; intros llh; cbn [fold_left concat map sumQ]; [ring|].
    rewrite IH, map_app, sumQ_app. unfold add_or_mult. ring.
  Qed.
End AddOrMult.
Lemma likelihood_is_product_of_factors ln (ls : list vec) : fold_left (add_or_mult ln false) ls 1 = prodQ (concat ls).
Proof. rewrite add_or_mult_fold_prod. ring. Qed.
