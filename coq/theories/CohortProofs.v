(** CohortProofs: proofs of the C13 statements (how load_patient_data splits a
    table into sub-cohorts, and how many factors the cohort likelihood has). *)
From LymphModel Require Import Base States Linalg Graph Transition Observation Dist Unilateral UniStatements Models Bilateral Midline Cohort.
From LymphModel Require Import TransitionProofs PriorProofs LikelihoodProofs.
Local Open Scope nat_scope.

(** * Counting facts *)
Lemma list_sum_cons a l : list_sum (a :: l) = a + list_sum l.
Proof. reflexivity. Qed.
Lemma filter_length_sum {A} (f : A -> bool) l :
  length (filter f l) = list_sum (map (fun a => if f a then 1 else 0) l).
Proof.
  induction l as [|a l IH]; cbn [filter map length]; [reflexivity|].
  rewrite list_sum_cons. destruct (f a); cbn [length]; rewrite IH; reflexivity.
Qed.
Lemma list_sum_map_plus {A} (f g : A -> nat) l :
  list_sum (map f l) + list_sum (map g l) = list_sum (map (fun a => f a + g a) l).
Proof. induction l as [|a l IH]; cbn [map]; [reflexivity|]. rewrite !list_sum_cons, <- IH. lia. Qed.
Lemma list_sum_map_zero {A} (l : list A) : list_sum (map (fun _ => 0) l) = 0.
Proof. induction l as [|a l IH]; cbn [map]; [reflexivity|]. rewrite list_sum_cons. exact IH. Qed.
Lemma filter_map_length {A B} (f : B -> bool) (g : A -> B) l :
  length (filter f (map g l)) = length (filter (fun a => f (g a)) l).
Proof.
  induction l as [|a l IH]; cbn [map filter length]; [reflexivity|].
  destruct (f (g a)); cbn [length]; rewrite IH; reflexivity.
Qed.

(** * The split *)
Lemma split_is_partition : C13_split_is_partition_stmt.
Proof.
  intros uc mu p. unfold central_implies_ext, landing_count.
  destruct (mp_ext p) as [[|]|], (mp_central p) as [[|]|], uc, mu; cbn; intros H;
    try reflexivity; discriminate.
Qed.

Lemma split_counts : C13_split_counts_stmt.
Proof.
  intros uc mu prev table. cbv zeta. unfold ml_load. cbn [d_ext d_noext d_central d_unknown].
  destruct uc, mu; rewrite ?map_length, ?Nat.add_0_r, !filter_length_sum, !list_sum_map_plus;
    f_equal; apply map_ext; intros p; unfold landing_count;
    destruct (mp_ext p) as [[|]|], (mp_central p) as [[|]|]; reflexivity.
Qed.

Lemma reload_replaces_all : C13_reload_replaces_all_stmt.
Proof. intros uc mu prev t1 t2. reflexivity. Qed.

Lemma sub_cohorts_are_selections : C13_sub_cohorts_are_selections_stmt.
Proof.
  intros uc mu prev table. cbv zeta. unfold ml_load. cbn [d_ext d_noext d_central d_unknown].
  split; [reflexivity|]. split; [intros ->; reflexivity|]. split; [intros ->; reflexivity|].
  split; [intros ->; reflexivity|]. intros ->. f_equal. apply filter_ext. intros p.
  cbn [andb negb]. apply andb_true_r.
Qed.

Lemma hpv_split : C13_hpv_split_stmt.
Proof. intros table p _. destruct (hp_status p) as [[|]|]; reflexivity. Qed.

(** * Number of factors of the cohort likelihood *)
Definition cnt (s : string) (l : list bpatient) : nat :=
  length (filter (fun p => str_eqb (bp_t p) s) l).

Lemma diagnosis_matrix_length u data t DM :
  diagnosis_matrix u data t = inr DM -> length DM = length (select data t).
Proof.
  unfold diagnosis_matrix. destruct (data_matrix u data t) as [e|D] eqn:E; cbn [bind]; [discriminate|].
  intros H. injection H as <-. rewrite map_length. unfold data_matrix in E.
  apply sequence_length in E. rewrite map_length in E. exact E.
Qed.

Lemma bi_llhs_length b data s J l :
  bi_llhs_of_joint b data (Some s) J = inr l -> length l = cnt s data.
Proof.
  unfold bi_llhs_of_joint.
  destruct (diagnosis_matrix (b_ipsi b) (map ipsi_patient data) (Some s)) as [e|DMi] eqn:E1; cbn [bind]; [discriminate|].
  destruct (diagnosis_matrix (b_contra b) (map contra_patient data) (Some s)) as [e|DMc] eqn:E2; cbn [bind]; [discriminate|].
  intros H. injection H as <-. unfold fast_trace.
  rewrite map_length, combine_length, seq_length, Nat.min_id.
  rewrite (diagnosis_matrix_length _ _ _ _ E1). unfold select, cnt.
  rewrite filter_map_length. reflexivity.
Qed.

Lemma sequence_concat_length {A B} (F : A -> res (list B)) (c : A -> nat) :
  (forall s l, F s = inr l -> length l = c s) ->
  forall stages ls, sequence (map F stages) = inr ls -> length (concat ls) = list_sum (map c stages).
Proof.
  intros HF stages. induction stages as [|s stages IH]; intros ls; cbn [map sequence].
  - intros H. injection H as <-. reflexivity.
  - destruct (F s) as [e|l] eqn:E; cbn [bind]; [discriminate|].
    destruct (sequence (map F stages)) as [e|ls'] eqn:E'; cbn [bind]; [discriminate|].
    intros H. injection H as <-. cbn [concat]. rewrite list_sum_cons, app_length, (HF _ _ E), (IH _ eq_refl).
    reflexivity.
Qed.

Definition stage_count (ml : midline) (data : ml_data) (s : string) : nat :=
  cnt s (d_ext data) + cnt s (d_noext data)
  + match ml_unknown ml, d_unknown data with Some _, Some l => cnt s l | _, _ => 0 end.

Lemma ml_stage_factors_length ml data ie ne ee s l :
  ml_stage_factors ml data ie ne ee s = inr l -> length l = stage_count ml data s.
Proof.
  unfold ml_stage_factors, stage_count.
  destruct (get_pmf (b_ipsi (ml_ext ml)) s) as [e|pm]; cbn [bind]; [discriminate|].
  match goal with |- bind ?X _ = _ -> _ => destruct X as [e|le] eqn:Ee end; cbn [bind]; [discriminate|].
  match goal with |- bind ?X _ = _ -> _ => destruct X as [e|ln] eqn:En end; cbn [bind]; [discriminate|].
  apply bi_llhs_length in Ee. apply bi_llhs_length in En.
  destruct (ml_unknown ml) as [um|]; [destruct (d_unknown data) as [du|]|].
  - match goal with |- bind ?X _ = _ -> _ => destruct X as [e|lu] eqn:Eu end; cbn [bind]; [discriminate|].
    apply bi_llhs_length in Eu. intros H. injection H as <-. rewrite !app_length. lia.
  - intros H. injection H as <-. rewrite app_length. lia.
  - intros H. injection H as <-. rewrite app_length. lia.
Qed.

Lemma bi_patient_likelihoods_length b data s l :
  bi_patient_likelihoods b data s true = inr l -> length l = cnt s data.
Proof.
  unfold bi_patient_likelihoods. destruct (bi_state_dist b s true) as [e|J]; cbn [bind]; [discriminate|].
  apply bi_llhs_length.
Qed.

Lemma bi_hmm_factors_length b data v :
  bi_hmm_likelihood_factors b data None = inr v ->
  length v = list_sum (map (fun s => cnt s data) (bi_t_stages b)).
Proof.
  unfold bi_hmm_likelihood_factors.
  destruct (sequence (map (fun ts => bi_patient_likelihoods b data ts true) (bi_t_stages b))) as [e|ls] eqn:E;
    cbn [bind]; [discriminate|].
  intros H. injection H as <-.
  apply (sequence_concat_length (fun ts => bi_patient_likelihoods b data ts true) (fun s => cnt s data)); [|exact E].
  intros s l. apply bi_patient_likelihoods_length.
Qed.

(** the count with multiplicity: needs no NoDup at all *)
Lemma cohort_likelihood_count ml data v : ml_hmm_likelihood_factors ml data None = inr v ->
  length v = list_sum (map (stage_count ml data) (ml_t_stages ml))
           + match ml_central ml, d_central data with
             | Some c, Some l => list_sum (map (fun s => cnt s l) (bi_t_stages c))
             | _, _ => 0
             end.
Proof.
  unfold ml_hmm_likelihood_factors. destruct (contra_state_dist_evo ml) as [ne ee].
  match goal with |- bind ?X _ = _ -> _ => destruct X as [e|ls] eqn:E end; cbn [bind]; [discriminate|].
  pose proof (sequence_concat_length _ (stage_count ml data)
                (fun s l => ml_stage_factors_length ml data _ ne ee s l) _ _ E) as Hlen.
  destruct (ml_central ml) as [c|].
  - destruct (d_central data) as [dc|]; [|discriminate].
    destruct (bi_hmm_likelihood_factors c dc None) as [e|lc] eqn:Ec; cbn [bind]; [discriminate|].
    intros H. injection H as <-. rewrite app_length, Hlen, (bi_hmm_factors_length _ _ _ Ec). reflexivity.
  - intros H. injection H as <-. rewrite Hlen. lia.
Qed.

(** for a duplicate-free stage list the per-stage counts add up to the number of
    patients whose T-stage is in the list *)
Lemma stage_indicator_sum t stages : NoDup stages ->
  list_sum (map (fun s => if str_eqb t s then 1 else 0) stages) = if mem t stages then 1 else 0.
Proof.
  induction stages as [|a l IH]; intros Hnd; cbn [map mem]; [reflexivity|].
  inversion Hnd as [|? ? Hna Hnl]; subst. rewrite list_sum_cons, (IH Hnl).
  destruct (str_eqb t a) eqn:E; cbn [orb]; [|reflexivity].
  unfold str_eqb in E. apply String.eqb_eq in E. subst a.
  destruct (mem t l) eqn:Em; [|reflexivity]. apply mem_In in Em. contradiction.
Qed.

Lemma count_in_stages stages data : NoDup stages ->
  list_sum (map (fun s => cnt s data) stages) = length (filter (fun p => mem (bp_t p) stages) data).
Proof.
  intros Hnd. induction data as [|p data IH].
  - unfold cnt. cbn [filter length]. apply list_sum_map_zero.
  - rewrite (map_ext _ (fun s => (if str_eqb (bp_t p) s then 1 else 0) + cnt s data)).
    2:{ intros s. unfold cnt. cbn [filter]. destruct (str_eqb (bp_t p) s); reflexivity. }
    rewrite <- list_sum_map_plus, IH, (stage_indicator_sum _ _ Hnd). cbn [filter].
    destruct (mem (bp_t p) stages); reflexivity.
Qed.

Lemma cohort_likelihood_is_sum : C13_cohort_likelihood_is_sum_stmt.
Proof.
  intros ml data v H. cbv zeta. intros Hnd Hc. rewrite (cohort_likelihood_count ml data v H).
  f_equal.
  - unfold stage_count. rewrite <- !(count_in_stages _ _ Hnd).
    destruct (ml_unknown ml) as [um|]; [destruct (d_unknown data) as [du|]|].
    + rewrite <- (count_in_stages _ _ Hnd), !list_sum_map_plus. reflexivity.
    + rewrite !list_sum_map_plus, Nat.add_0_r. f_equal. apply map_ext. intros s. lia.
    + rewrite !list_sum_map_plus, Nat.add_0_r. f_equal. apply map_ext. intros s. lia.
  - destruct (ml_central ml) as [c|]; [|reflexivity]. destruct (d_central data) as [dc|]; [|reflexivity].
    apply count_in_stages. exact Hc.
Qed.

(** * Concrete objects for the non-vacuity examples of properties/C13.v *)
Definition C13_ex_bi : bilateral :=
  {| b_ipsi := C07_ex_uni; b_contra := C07_ex_uni; b_symT := false; b_symL := true |}.
(** a working midline model with central and unknown sub-models, and a table *)
Definition C13_ex_ml : midline :=
  {| ml_ext := C13_ex_bi; ml_noext := C13_ex_bi; ml_central := Some C13_ex_bi; ml_unknown := Some C13_ex_bi;
     ml_mixing := None; ml_midext := qc 1 3; ml_evo := true; ml_symL := true |}.
Definition C13_ex_table : list mpatient :=
  [ {| mp_pat := {| bp_t := "early"; bp_ipsi := [("CT", [("II", Some IInvolved); ("III", Some IHealthy)])];
                    bp_contra := [("path", [("II", Some IHealthy)])] |};
       mp_ext := Some true; mp_central := Some false |};
    {| mp_pat := {| bp_t := "late"; bp_ipsi := [("path", [("III", Some IInvolved)])]; bp_contra := [] |};
       mp_ext := Some false; mp_central := Some false |};
    {| mp_pat := {| bp_t := "early"; bp_ipsi := [("CT", [("II", Some IHealthy)])];
                    bp_contra := [("CT", [("III", Some IInvolved)])] |};
       mp_ext := None; mp_central := None |};
    {| mp_pat := {| bp_t := "late"; bp_ipsi := [("CT", [("II", Some IInvolved)])];
                    bp_contra := [("CT", [("II", Some IInvolved)])] |};
       mp_ext := Some true; mp_central := Some true |};
    {| mp_pat := {| bp_t := "T9"; bp_ipsi := []; bp_contra := [] |};
       mp_ext := Some false; mp_central := None |} ]%string.
