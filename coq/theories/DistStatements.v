(** DistStatements: theorem statements of property C18 about the model in Dist.v /
    DistModel.v.  Quantified over all weight lists, all parametric functions
    [W] (with the hypotheses a distribution needs: [W_len] / [W_good]), all
    defaults [D], all argument lists incl. invalid ones, all stores, trees and
    histories.  Proofs in DistProofs.v. *)
From LymphModel Require Import Base States Linalg Graph Dist DistModel.
Local Open Scope nat_scope.
Open Scope Qc_scope.

Definition famW := nat -> nat -> list (string * Qc) -> option vec.
Definition famD := nat -> list (string * Qc).

(** ** pmf has length max_time + 1 *)
Definition C18_pmf_length_stmt : Prop :=
  (forall m w d, mk_frozen m w = Some d -> exists p, d = Frozen p /\ length p = S m)
  /\ (forall (W : famW), W_len W -> forall m f kw p, pmf_w W m (Param f kw) = Some p -> length p = S m)
  /\ W_len fam_weights
  /\ (forall m d, pmf m d = pmf_w fam_weights m d).

(** ** pmf >= 0 *)
Definition C18_pmf_nonneg_stmt : Prop :=
  (forall m w p, weights_okb w = true -> mk_frozen m w = Some (Frozen p) -> forall x, In x p -> 0 <= x)
  /\ (forall (W : famW), W_good W -> forall m f kw p, pmf_w W m (Param f kw) = Some p -> forall x, In x p -> 0 <= x).

(** ** pmf sums to one; the two families of the harness are distributions *)
Definition C18_pmf_sum_one_stmt : Prop :=
  (forall m w p, weights_okb w = true -> mk_frozen m w = Some (Frozen p) -> sumQ p = 1)
  /\ (forall (W : famW), W_good W -> forall m f kw p, pmf_w W m (Param f kw) = Some p -> sumQ p = 1)
  /\ W_good fam_weights.

(** ** ... and this holds for every Distribution object after every history *)
Definition darg_okb (a : darg) : bool := match a with AList w => weights_okb w | _ => true end.
Definition op_okb (o : op) : bool :=
  match o with
  | ONew a _ _ => darg_okb a
  | OSetDist _ _ a => darg_okb a
  | OReplaceAll _ items => forallb (fun x => darg_okb (snd x)) items
  | _ => true
  end.
Definition C18_history_normalised_stmt : Prop :=
  forall (W : famW) (D : famD), W_good W ->
  forall t h, forallb op_okb h = true ->
  forall c p, In c (w_store (run_history W D (world0 t) h)) -> cell_pmf W c = inr p -> is_pmf (c_maxt c) p.

(** ** an array whose length is not max_time + 1 is rejected (ValueError), nothing is stored *)
Definition C18_length_mismatch_rejected_stmt : Prop :=
  (forall m w, length w <> S m -> mk_frozen m w = None)
  /\ (forall (W : famW) (D : famD) s m w kw, length w <> S m -> dist_new W D s (AList w) (Some m) kw = inl DValue)
  /\ (forall (W : famW) (D : famD) s m ds ts w, length w <> S m ->
        leaf_set_distribution W D (ts, AList w) s m ds = (sync_cells s m ds, (m, ds), inl DValue)).

(** ** set_params: positional order, None falls through, keyword wins, unknown
       names ignored, surplus returned; the pmf is re-evaluated *)
Definition C18_set_params_semantics_stmt : Prop :=
  (forall kw args kwargs, set_kw kw args kwargs = set_kw_spec kw args kwargs)
  /\ (forall kw args kwargs kwargs',
        (forall n, In n (map fst kw) -> dict_get n kwargs = dict_get n kwargs') ->
        set_kw kw args kwargs = set_kw kw args kwargs')
  /\ (forall (W : famW) c f kw args kwargs c' rest,
        c_dist c = Param f kw -> cell_set_params W c args kwargs = inr (c', rest) ->
        let kw' := fst (set_kw_spec kw args kwargs) in
        c_dist c' = Param f kw' /\ c_maxt c' = c_maxt c /\ rest = skipn (length kw) args
        /\ exists w, W f (c_maxt c) kw' = Some w /\ cell_pmf W c' = inr (normalize w))
  /\ (forall (W : famW) c p args kwargs, c_dist c = Frozen p -> cell_set_params W c args kwargs = inr (c, args)).

(** ** a failed update (ValueError) leaves the object as it was *)
Definition C18_failed_update_restores_stmt : Prop :=
  (forall (W : famW) c args kwargs c', cell_set_params W c args kwargs = inl c' -> c' = c)
  /\ (forall (W : famW) ts args kwargs s t s' t' e,
        comp_cell_set_params W ts args kwargs s t = (s', t', inl e) -> s' = s /\ t' = t).

(** ** changing max_time re-evaluates a parametric distribution on the new support *)
Definition C18_max_time_reevaluates_stmt : Prop :=
  (forall (W : famW) c f kw v, c_dist c = Param f kw ->
      c_maxt (cell_set_maxt c v) = v /\ cell_kw (cell_set_maxt c v) = kw
      /\ cell_pmf W (cell_set_maxt c v) = match W f v kw with Some w => inr (normalize w) | None => inl DValue end)
  /\ (forall (W : famW), W_good W -> forall c f kw v p,
        c_dist c = Param f kw -> cell_pmf W (cell_set_maxt c v) = inr p -> is_pmf v p)
  /\ (forall (v : nat) s t s' t',
        (forall i, In i (tree_ids t) -> (i < length s)%nat) ->
        comp_set_max_time (Z.of_nat v) s t = (s', t', inr tt) ->
        tree_ids t' = tree_ids t /\ length s' = length s
        /\ (forall i, In i (tree_ids t) -> exists c, nth_error s i = Some c /\ nth_error s' i = Some (cell_set_maxt c v))
        /\ (forall i, ~ In i (tree_ids t) -> nth_error s' i = nth_error s i)).

(** ** copies are independent *)
(** the cells an operation may change *)
Definition sub_ids (p : list string) (t : ctree) : list nat :=
  match get_sub p t with Some sub => tree_ids sub | None => [] end.
Definition footprint (w : world) (o : op) : list nat :=
  match o with
  | ONew _ _ _ => []
  | OObjSetParams k _ _ | OObjSetMaxTime k _ =>
      match nth_error (w_objs w) k with Some (Some i) => [i] | _ => [] end
  | OCellSetParams p ts _ _ =>
      match get_sub p (w_tree w) with
      | Some sub => match comp_get_distribution ts sub with inr i => [i] | inl _ => [] end
      | None => []
      end
  | OSetDist p _ _ | ODelDist p _ | OReplaceAll p _ | OClear p | OSetMaxTime p _ | OGetMaxTime p
  | OSetDistParams p _ _ => sub_ids p (w_tree w)
  end.
(** every leaf of the tree maps [ts] to a cell allocated after [n] *)
Definition leaves_fresh (ts : string) (n : nat) (t : ctree) : Prop :=
  Forall (fun l => exists i, dict_get ts (snd l) = Some i /\ (n <= i)%nat) (show_tree t).

Definition C18_copies_are_independent_stmt : Prop :=
  (** the aliasing discipline (no cell in two places; user objects are not in
      the tree) is preserved by every operation, and an operation changes no
      cell outside its footprint: the sub-model it is called on, or the one
      Distribution object it is called on *)
  (forall (W : famW) (D : famD) w o, wf_world w ->
      wf_world (fst (step W D w o))
      /\ (length (w_store w) <= length (w_store (fst (step W D w o))))%nat
      /\ same_off (footprint w o) (w_store w) (w_store (fst (step W D w o))))
  (** set_distribution gives every leaf below the node its own, newly allocated
      cell (also when the same Distribution object is passed for all of them),
      and changes no existing cell of a synchronised tree *)
  /\ (forall (W : famW) (D : famD) ts a s t s' t',
        wf_tree s t -> comp_set_distribution W D ts a s t = (s', t', inr tt) ->
        wf_tree s' t' /\ leaves_fresh ts (length s) t'
        /\ (synced s t -> forall i, (i < length s)%nat -> nth_error s' i = nth_error s i))
  (** in a leaf, keywords addressed to one T-stage leave every other T-stage's cell unchanged *)
  /\ (forall (W : famW) s m ds ts kwargs s' l r,
        NoDup (map snd ds) ->
        (forall key v, In (key, v) kwargs -> fst (partition_us key) = ts) -> In ts (map fst ds) ->
        leaf_set_distribution_params W ([], kwargs) s m ds = (s', l, r) ->
        forall t i, In (t, i) ds -> t <> ts -> nth_error s' i = nth_error s i).
