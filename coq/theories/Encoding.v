(** Encoding: the TABLE -> patients step of [models.Unilateral.load_patient_data]
    (lymph/models/unilateral.py:489-560) on an abstract table, [utils.early_late_mapping]
    (lymph/utils.py:209-219), dict / callable T-stage mappings, and the statements of
    the C08 theorems.  The per-patient encoding itself ([matrix.compute_encoding],
    [matrix.generate_data_encoding], [Unilateral.data_matrix], [diagnosis_matrix]) is
    modelled in Observation.v / Unilateral.v and reused here.

    What is abstracted away (and validated only by the correspondence harness, on the
    generated DataFrame variants): everything pandas does -- index handling, column
    lookup in a three-level MultiIndex, unused levels, dtypes (bool / object / float
    with NaN / nullable boolean).  The abstraction function DataFrame -> [table] lives
    in harness/props/c08.py.  Executable definitions + statements only. *)
From LymphModel Require Import Base States Linalg Graph Transition Observation Dist Unilateral UniStatements.
From Coq Require Import Permutation.
Local Open Scope nat_scope.
Open Scope Qc_scope.

(** * The abstract table *)
(** column key = (top level = modality, side, LNL) *)
Definition key := (string * string * string)%type.
Definition k_mod (k : key) : string := fst (fst k).
Definition k_side (k : key) : string := snd (fst k).
Definition k_lnl (k : key) : string := snd k.
Definition key_eqb (a b : key) : bool :=
  str_eqb (k_mod a) (k_mod b) && str_eqb (k_side a) (k_side b) && str_eqb (k_lnl a) (k_lnl b).

(** one row of the table: the raw T-stage ([("tumor", "1", "t_stage")]) and the
    involvement cells; an absent key and a [None] value (NaN / None / pd.NA) both mean
    "unknown" *)
Record row := { r_tstage_raw : Z; r_cells : list (key * option bool) }.
Definition table := list row.

Fixpoint cell_get (k : key) (cells : list (key * option bool)) : option bool :=
  match cells with
  | [] => None
  | (k', v) :: r => if key_eqb k k' then v else cell_get k r
  end.

(** * T-stage mappings *)
(** [None] = the mapping raises for this raw value (ValueError / KeyError), which makes
    the whole [load_patient_data] call raise and leaves the model untouched *)
Definition tmapping := Z -> option string.

(** utils.early_late_mapping *)
Definition early_late : tmapping := fun z =>
  if ((0 <=? z) && (z <=? 2))%Z then Some "early"%string
  else if ((3 <=? z) && (z <=? 4))%Z then Some "late"%string
  else None.

Fixpoint zassoc (z : Z) (al : list (Z * string)) : option string :=
  match al with [] => None | (k, v) :: r => if Z.eqb z k then Some v else zassoc z r end.

(** [Series.map(dict)]: a key that is missing from the dict gives NaN and no exception.
    NaN compares unequal to every T-stage name; it is represented by the reserved name
    [nan_stage], which is never the name of a T-stage (precondition on names). *)
Definition nan_stage : string := "<NaN>"%string.
Definition dict_mapping (al : list (Z * string)) : tmapping := fun z =>
  Some (match zassoc z al with Some s => s | None => nan_stage end).
(** a callable [lambda t: d[t]]: a missing key raises KeyError *)
Definition fun_mapping (al : list (Z * string)) : tmapping := fun z => zassoc z al.

(** * load_patient_data *)
(** top-level labels that are not modalities: "patient" and "tumor" are subtracted from
    the set of data modalities, "_model" is dropped from the copy before anything else *)
Definition reserved (m : string) : bool :=
  str_eqb m "patient" || str_eqb m "tumor" || str_eqb m "_model".

(** the columns of the table *)
Definition table_keys (rows : table) : list key := flat_map (fun r => map fst (r_cells r)) rows.
(** [data_modalities] restricted to those with [side in patient_data[modality]];
    a modality without any column for this side is skipped entirely *)
Definition table_modalities (side : string) (rows : table) : list string :=
  dedup (map k_mod (filter (fun k => negb (reserved (k_mod k)) && str_eqb (k_side k) side) (table_keys rows))).

Definition ind_of_bool (b : bool) : indicator := if b then IInvolved else IHealthy.
(** the ["_model", modality, lnl] columns of one row: one entry per LNL of the GRAPH; a
    missing column is filled with None *)
Definition row_pattern (lnl_names : list string) (m side : string) (r : row) : pattern :=
  map (fun l => (l, option_map ind_of_bool (cell_get (m, side, l) (r_cells r)))) lnl_names.
Definition row_find (lnl_names : list string) (side : string) (mods : list string) (r : row) : diagnosis :=
  map (fun m => (m, row_pattern lnl_names m side r)) mods.
Definition load_row (lnl_names : list string) (side : string) (mods : list string) (mapping : tmapping)
  (r : row) : option patient :=
  match mapping (r_tstage_raw r) with
  | None => None
  | Some t => Some {| p_tstage := t; p_find := row_find lnl_names side mods r |}
  end.
Fixpoint sequence_opt {A} (l : list (option A)) : option (list A) :=
  match l with
  | [] => Some []
  | None :: _ => None
  | Some a :: r => match sequence_opt r with None => None | Some t => Some (a :: t) end
  end.
(** the loop over rows for a fixed list of table modalities *)
Definition load_rows (lnl_names : list string) (side : string) (mods : list string) (mapping : tmapping)
  (rows : table) : option (list patient) :=
  sequence_opt (map (load_row lnl_names side mods mapping) rows).
(** Unilateral.load_patient_data(patient_data, side, mapping): the loaded cohort, one
    patient per row in table order, or [None] when the mapping raises on some row *)
Definition load_patient_data (lnl_names : list string) (side : string) (mapping : tmapping)
  (rows : table) : option (list patient) :=
  load_rows lnl_names side (table_modalities side rows) mapping rows.

(** what the correspondence harness prints for a loaded cohort *)
Definition ind_out (i : option indicator) : option bool :=
  match i with Some IHealthy => Some false | Some _ => Some true | None => None end.
Definition patients_out (data : list patient)
  : list (string * list (string * list (string * option bool))) :=
  map (fun p => (p_tstage p, map (fun '(m, pat) => (m, map (fun '(l, i) => (l, ind_out i)) pat)) (p_find p))) data.
Definition bvecs_out (D : list bvec) : list (list nat) := map (map (fun b : bool => if b then 1%nat else 0%nat)) D.

(** * Spec: what a row records *)
(** complete observation [z] (one digit per model modality and graph LNL, modality-major)
    is compatible with row [r] iff every RECORDED cell of the chosen side equals the digit *)
Definition cell_matches (c : option bool) (d : nat) : bool :=
  match c with None => true | Some b => Nat.eqb d (if b then 1 else 0) end.
Definition row_compatible (mod_names lnl_names : list string) (side : string) (r : row) (z : state) : bool :=
  forallb (fun '(m, zm) =>
      forallb (fun '(l, d) => cell_matches (cell_get (m, side, l) (r_cells r)) d) (combine lnl_names zm))
    (combine mod_names (chunk (length lnl_names) (length mod_names) z)).
Definition row_encoding (u : uni) (side : string) (r : row) : bvec :=
  map (row_compatible (u_mod_names u) (u_lnls u) side r)
      (all_states 2 (length (u_mod_names u) * length (u_lnls u))).

(** the rows whose mapped T-stage is [t], in table order *)
Definition stage_is (mapping : tmapping) (t : string) (r : row) : bool :=
  match mapping (r_tstage_raw r) with Some s => str_eqb s t | None => false end.
Definition select_rows (mapping : tmapping) (rows : table) (t : option string) : table :=
  match t with None => rows | Some ts => filter (stage_is mapping ts) rows end.

(** likelihood of one row given the prior over hidden states *)
Definition row_llh (u : uni) (side : string) (prior : vec) (r : row) : Qc :=
  dot prior (matvec (observation_matrix u) (map b2q (row_encoding u side r))).
Definition u_prior (u : uni) (pm : vec) : vec := vecmat_w (Nat.pow (u_base u) (u_n u)) pm (state_dist_evo u).
Definition table_stage_llhs (u : uni) (side : string) (mapping : tmapping) (rows : table) (t : string) : res vec :=
  bind (get_pmf u t) (fun pm => inr (map (row_llh u side (u_prior u pm)) (select_rows mapping rows (Some t)))).
Definition table_valid_stages (u : uni) (mapping : tmapping) (rows : table) : list string :=
  filter (fun t => existsb (stage_is mapping t) rows) (map fst (u_dists u)).
(** the likelihood factors as a function of the table alone *)
Definition table_factors (u : uni) (side : string) (mapping : tmapping) (rows : table) (t : option string) : res vec :=
  let stages := match t with None => table_valid_stages u mapping rows | Some ts => [ts] end in
  bind (sequence (map (table_stage_llhs u side mapping rows) stages)) (fun ls => inr (concat ls)).

(** P(recorded cells of row r | hidden state x): an unknown cell contributes the factor 1 *)
Definition row_findings_prob (u : uni) (side : string) (r : row) (x : state) : Qc :=
  prodQ (map (fun '(name, m) =>
      prodQ (map (fun '(l, s) =>
          finding_factor (u_base u) m s (option_map ind_of_bool (cell_get (name, side, l) (r_cells r))))
        (combine (u_lnls u) x))) (u_mods u)).
Definition row_lik_spec (u : uni) (side : string) (pm : vec) (r : row) : Qc :=
  sumQ (map (fun x => prior_spec u pm x * row_findings_prob u side r x) (u_states u)).

(** * Hypotheses *)
(** model modalities are not called "patient", "tumor" or "_model" *)
Definition mods_not_reserved (u : uni) : bool := forallb (fun m => negb (reserved m)) (u_mod_names u).
(** two rows record the same for the model: same raw T-stage and the same value in
    every cell (modality of the model, chosen side, LNL of the graph) *)
Definition rows_agree (u : uni) (side : string) (r r' : row) : Prop :=
  r_tstage_raw r = r_tstage_raw r' /\
  forall m l, In m (u_mod_names u) -> In l (u_lnls u) ->
    cell_get (m, side, l) (r_cells r) = cell_get (m, side, l) (r_cells r').
(** the observables of a loaded table *)
Definition loaded_data_matrix (u : uni) side mapping rows t : option (res (list bvec)) :=
  option_map (fun data => data_matrix u data t) (load_patient_data (u_lnls u) side mapping rows).
Definition loaded_diagnosis_matrix (u : uni) side mapping rows t : option (res mat) :=
  option_map (fun data => diagnosis_matrix u data t) (load_patient_data (u_lnls u) side mapping rows).
Definition loaded_factors (u : uni) side mapping rows t : option (res vec) :=
  option_map (fun data => hmm_likelihood_factors u data t) (load_patient_data (u_lnls u) side mapping rows).
Definition same_results (u : uni) side mapping (rows rows' : table) : Prop :=
  forall t, loaded_data_matrix u side mapping rows t = loaded_data_matrix u side mapping rows' t
         /\ loaded_diagnosis_matrix u side mapping rows t = loaded_diagnosis_matrix u side mapping rows' t
         /\ loaded_factors u side mapping rows t = loaded_factors u side mapping rows' t.

(** equality of two results up to the order of the factors *)
Definition res_perm (a b : res vec) : Prop :=
  match a, b with
  | inr f, inr f' => Permutation f f'
  | inl e, inl e' => e = e'
  | _, _ => False
  end.

(** keep only some columns *)
Definition filter_cells (keep : key -> bool) (r : row) : row :=
  {| r_tstage_raw := r_tstage_raw r; r_cells := filter (fun kv => keep (fst kv)) (r_cells r) |}.
(** the model without modality [m] *)
Definition drop_modality (m : string) (u : uni) : uni :=
  {| u_graph := u_graph u; u_mods := filter (fun nm => negb (str_eqb m (fst nm))) (u_mods u);
     u_dists := u_dists u; u_maxt := u_maxt u |}.

(** * Statements *)
(** row i of the data matrix marks exactly the complete observations compatible with
    what row i of the table records for the chosen side; data_matrix(t) keeps the rows
    whose mapped T-stage is t, in table order *)
Definition C08_encoding_row_spec_stmt : Prop :=
  forall u side mapping rows data t, wf_uni u = true -> mods_not_reserved u = true ->
    load_patient_data (u_lnls u) side mapping rows = Some data ->
    data_matrix u data t = inr (map (row_encoding u side) (select_rows mapping rows t)).

(** the diagnosis matrix and the per-patient likelihoods are functions of the recorded
    cells: an unknown cell is the factor 1 (it is summed out) *)
Definition C08_row_likelihood_spec_stmt : Prop :=
  forall u side mapping rows data t pm, wf_uni u = true -> mods_not_reserved u = true ->
    load_patient_data (u_lnls u) side mapping rows = Some data ->
    diagnosis_matrix u data t
      = inr (map (fun r => map (row_findings_prob u side r) (u_states u)) (select_rows mapping rows t)) /\
    forall ts, get_pmf u ts = inr pm -> length pm = S (u_maxt u) ->
      hmm_patient_llhs u data ts = inr (map (row_lik_spec u side pm) (select_rows mapping rows (Some ts))).

(** the likelihood factors are a function of the table alone (no dependence on which
    modalities happen to have columns) *)
Definition C08_factors_of_table_stmt : Prop :=
  forall u side mapping rows data t, wf_uni u = true -> mods_not_reserved u = true ->
    load_patient_data (u_lnls u) side mapping rows = Some data ->
    hmm_likelihood_factors u data t = table_factors u side mapping rows t.

(** unknown is marginalised, representation independence: two tables that record the
    same values in the cells the model looks at give the same data matrix, diagnosis
    matrix and likelihood factors -- whatever else they contain (other side, other
    modalities, other LNLs, [None] cells versus absent keys, column order) *)
Definition C08_depends_only_on_recorded_cells_stmt : Prop :=
  forall u side mapping rows rows', wf_uni u = true -> mods_not_reserved u = true ->
    Forall2 (rows_agree u side) rows rows' -> same_results u side mapping rows rows'.
(** deleting columns all of whose cells are unknown (a single LNL column, all columns of a
    modality, ...) changes nothing *)
Definition C08_unknown_columns_removable_stmt : Prop :=
  forall u side mapping rows keep, wf_uni u = true -> mods_not_reserved u = true ->
    (forall r kv, In r rows -> In kv (r_cells r) -> keep (fst kv) = false -> snd kv = None) ->
    same_results u side mapping rows (map (filter_cells keep) rows).
(** deleting columns the model does not look at (other side, unknown modality, LNL that is
    not in the graph) changes nothing, whatever they contain *)
Definition C08_irrelevant_columns_ignored_stmt : Prop :=
  forall u side mapping rows keep, wf_uni u = true -> mods_not_reserved u = true ->
    (forall m l, In m (u_mod_names u) -> In l (u_lnls u) -> keep (m, side, l) = true) ->
    same_results u side mapping rows (map (filter_cells keep) rows).
(** the order of the columns is irrelevant *)
Definition C08_column_order_irrelevant_stmt : Prop :=
  forall u side mapping rows rows', wf_uni u = true -> mods_not_reserved u = true ->
    Forall2 (fun r r' => r_tstage_raw r = r_tstage_raw r' /\ NoDup (map fst (r_cells r)) /\
                         Permutation (r_cells r) (r_cells r')) rows rows' ->
    same_results u side mapping rows rows'.
(** unknown is marginalised, semantics: a modality of the model for which the table records
    nothing (no column at all, or only unknown cells) leaves the diagnosis matrix and the
    likelihood equal to those of the model WITHOUT that modality *)
Definition C08_unknown_modality_is_marginalised_stmt : Prop :=
  forall u side mapping rows data m, wf_uni u = true -> mods_not_reserved u = true ->
    load_patient_data (u_lnls u) side mapping rows = Some data ->
    (forall r l, In r rows -> In l (u_lnls u) -> cell_get (m, side, l) (r_cells r) = None) ->
    forall t, diagnosis_matrix u data t = diagnosis_matrix (drop_modality m u) data t /\
              hmm_likelihood_factors u data t = hmm_likelihood_factors (drop_modality m u) data t.

(** row order: the factors of a permuted table are a permutation of the factors (equal
    product, equal log-sum); loading succeeds for one iff for the other *)
Definition C08_likelihood_perm_invariant_stmt : Prop :=
  forall u side mapping rows rows' data, wf_uni u = true -> mods_not_reserved u = true ->
    Permutation rows rows' ->
    load_patient_data (u_lnls u) side mapping rows = Some data ->
    exists data', load_patient_data (u_lnls u) side mapping rows' = Some data' /\
      forall t, res_perm (hmm_likelihood_factors u data t) (hmm_likelihood_factors u data' t).
(** split: for one T-stage the factors of d1 ++ d2 are the factors of d1 followed by those
    of d2; over all stages they are a permutation of the two lists *)
Definition C08_likelihood_split_additive_stmt : Prop :=
  forall u side mapping rows1 rows2 data, wf_uni u = true -> mods_not_reserved u = true ->
    load_patient_data (u_lnls u) side mapping (rows1 ++ rows2) = Some data ->
    exists d1 d2,
      load_patient_data (u_lnls u) side mapping rows1 = Some d1 /\
      load_patient_data (u_lnls u) side mapping rows2 = Some d2 /\
      (forall ts f, hmm_likelihood_factors u data (Some ts) = inr f ->
         exists f1 f2, hmm_likelihood_factors u d1 (Some ts) = inr f1 /\
                       hmm_likelihood_factors u d2 (Some ts) = inr f2 /\ f = f1 ++ f2) /\
      (forall f, hmm_likelihood_factors u data None = inr f ->
         exists f1 f2, hmm_likelihood_factors u d1 None = inr f1 /\
                       hmm_likelihood_factors u d2 None = inr f2 /\ Permutation f (f1 ++ f2)).

(** the T-stage mapping is applied per patient: one patient per row, in order, the i-th
    patient's stage is the mapping of the i-th raw stage; the load fails iff the mapping
    raises on some row; cells of the other side are ignored *)
Definition C08_tstage_mapping_pointwise_stmt : Prop :=
  forall lnl_names side mapping rows,
    (forall data, load_patient_data lnl_names side mapping rows = Some data ->
       length data = length rows /\
       map (fun p => Some (p_tstage p)) data = map (fun r => mapping (r_tstage_raw r)) rows) /\
    (load_patient_data lnl_names side mapping rows = None <->
       exists r, In r rows /\ mapping (r_tstage_raw r) = None) /\
    load_patient_data lnl_names side mapping (map (filter_cells (fun k => str_eqb (k_side k) side)) rows)
      = load_patient_data lnl_names side mapping rows.
(** [select data (Some t)] (the rows data_matrix(t) / diagnosis_matrix(t) keep) are exactly
    the patients of the rows mapped to t, in table order *)
Definition C08_t_stage_rows_select_stmt : Prop :=
  forall lnl_names side mapping rows data t,
    load_patient_data lnl_names side mapping rows = Some data ->
    load_rows lnl_names side (table_modalities side rows) mapping (select_rows mapping rows (Some t))
      = Some (select data (Some t)).
(** what a loaded patient holds: for every table modality with a column for this side, the
    cell of every LNL of the graph *)
Definition C08_loaded_findings_stmt : Prop :=
  forall lnl_names side mapping rows data, nodupb lnl_names = true ->
    load_patient_data lnl_names side mapping rows = Some data ->
    Forall2 (fun r p =>
        forallb wf_patient [p] = true /\
        forall m l, In l lnl_names ->
          match diag_get m (p_find p) with
          | Some pat => pat_get l pat = option_map ind_of_bool (cell_get (m, side, l) (r_cells r))
          | None => reserved m = false -> cell_get (m, side, l) (r_cells r) = None
          end) rows data.
