(** ParamsMidlineRest: the remaining members of the C10 family for models.Midline
    ([unknown_names_ignored], [set_own_params_is_identity], [surplus], [specific_over_global]),
    in the style of the Bilateral statements of ParamsStatements.v.

    Routes
    - unknown names: every keyword dict a leaf receives binds only values of the call's keywords
      under names prefixed by routing words ([Fr], NamedMidlineMore.v); a keyword whose name,
      stripped of any number of leading routing words, is no leaf parameter name, no global tail
      of one, not "mixing" and not "midext_prob" is therefore found by no look-up, and every
      setter only looks keywords up ([set_edges_for_ext], [set_dists_for_ext]).
    - surplus: every leaf setter called with [a ++ extra], where [a] already covers the leaf's
      parameters, does what it does with [a] and returns [extra] appended to the rest.
    - own parameters: instance of the forward traversal [mid_lit_accept] (NamedMidlineMore.v)
      and of the keyword round trip [mid_set_get_keyword] (ParamsMidline.v).
    New file; nothing existing is changed. *)
From LymphModel Require Import Base States Linalg Graph Transition Observation Dist Unilateral Models Params
  ParamsStatements ParamsLemmas ParamsProofs ParamsBilateral ParamsMidline ParamsMidlineMore
  Safe ParamsMidlineSafe Named NamedProofs NamedMidline NamedMidlineMore.
From LymphModel Require SafeProofs SafeMidline Sync.
From Coq Require Import Lia.
Local Open Scope nat_scope.
Local Open Scope string_scope.
Local Open Scope list_scope.

(** * 1. Unknown keyword names are ignored *)
(** ** Vocabulary *)
(** the parameter names of one leaf (every leaf of a well-formed Midline has the names of
    ext.ipsi): "TtoII_spread", "IItoIII_micro", "late_p", ... *)
Definition mid_leaf_keys (m : midline) : list path :=
  map fst (u_tumor_items (ml_ei m)) ++ map fst (u_lnl_items (ml_ei m)) ++ map fst (u_dist_items (ml_ei m)).
(** what some look-up of the Midline plumbing can ask for once the routing prefixes are
    consumed: a leaf parameter name, its global tail ("spread", "growth", "micro", a
    distribution keyword), "mixing" (only with use_mixing), "midext_prob" *)
Definition mid_resolvable (m : midline) (K : path) : bool :=
  memp K (mid_leaf_keys m) || memp K (map (@tl string) (mid_leaf_keys m))
  || (is_some (ml_mixing m) && path_eqb K ["mixing"]) || path_eqb K ["midext"; "prob"].
(** [c] is unknown: stripped of any number of leading routing words
    ("ipsi", "contra", "noext", "ext", "central", "unknown") it is never resolvable *)
Fixpoint kw_unknown_path (res : path -> bool) (c : path) : bool :=
  negb (res c) && match c with w :: c' => if mem w routing then kw_unknown_path res c' else true | [] => true end.
Definition mid_kw_unknown (m : midline) (kw : kwargs) : bool := forallb (kw_unknown_path (mid_resolvable m)) (map fst kw).

(** ** Statements *)
(** Midline analogue of [C10_bi_unknown_names_ignored_stmt], for every well-formed object
    ([Safe.m_names_ok]: all sub-models come from one graph dictionary; true of every
    constructed object), every positional argument list and every keyword dict (Python
    keyword arguments form a dict, hence [NoDup]): the call with the extra keywords leaves
    the SAME object and returns the same (rest or exception) as the call without keywords. *)
Definition C10_mid_unknown_names_ignored_stmt : Prop :=
  forall m a kw, m_names_ok m = true -> NoDup (map fst kw) -> mid_kw_unknown m kw = true ->
    m_set_params m a kw = m_set_params m a [].
(** ... also beside keywords that do name parameters: unknown keywords can be dropped *)
Definition C10_mid_unknown_names_dropped_stmt : Prop :=
  forall m a kw junk, m_names_ok m = true -> NoDup (map fst (kw ++ junk)) -> mid_kw_unknown m junk = true ->
    m_set_params m a (kw ++ junk) = m_set_params m a kw.
(** ... in the exact shape of the Bilateral statement *)
Definition C10_mid_unknown_names_ignored_got_stmt : Prop :=
  forall m a kw, m_names_ok m = true -> NoDup (map fst kw) -> mid_kw_unknown m kw = true ->
    let r1 := m_set_params m a kw in let r2 := m_set_params m a [] in
    snd r1 = snd r2 /\ (snd r1 <> None -> m_got (fst r1) = m_got (fst r2)).

(** ** Look-ups *)
Lemma unknown_path_spec res P : forall K, Forall (fun w => In w routing) P -> kw_unknown_path res (P ++ K) = true -> res K = false.
Proof.
  induction P as [|w P IH]; intros K HP H.
  - cbn [app] in H. destruct K; cbn [kw_unknown_path] in H; apply andb_true_iff in H; destruct H as [H _]; apply negb_true_iff, H.
  - inversion HP as [|? ? Hw HP']; subst. cbn [app kw_unknown_path] in H. apply andb_true_iff in H. destruct H as [_ H].
    apply mem_In in Hw. rewrite Hw in H. apply (IH K HP' H).
Qed.

Lemma sel_params_key_in tri sel es e t : In e es -> sel e = true -> In t (map fst (edge_params tri e)) ->
  In (e_name e :: t) (map fst (sel_params tri sel es)).
Proof.
  intros He Hs Ht. apply in_map_iff in Ht. destruct Ht as ([t' q] & E & Hin). cbn [fst] in E. subst t'.
  apply in_map_iff. exists (e_name e :: t, q). split; [reflexivity|]. unfold sel_params. apply in_flat_map.
  exists e. split; [exact He|]. rewrite Hs. unfold pre, prefix. apply in_map_iff. exists (t, q). split; [reflexivity | exact Hin].
Qed.
Lemma dists_items_key_in ds td s : In td ds -> In s (dist_kw_names [td]) -> In [fst td; s] (map fst (dists_items ds)).
Proof.
  intros Hin Hs. unfold dist_kw_names in Hs. cbn [flat_map] in Hs. rewrite app_nil_r in Hs.
  destruct td as [t d]. cbn [fst snd] in *. destruct d as [p|f kws]; [destruct Hs|].
  apply in_map_iff in Hs. destruct Hs as ([s' q] & E & Hk). cbn [fst] in E. subst s'.
  apply in_map_iff. exists ([t; s], q). split; [reflexivity|]. unfold dists_items. apply in_flat_map.
  exists (t, Param f kws). split; [exact Hin|]. cbn [fst snd dist_local]. unfold pre, prefix. apply in_map_iff.
  exists ([s], q). split; [reflexivity|]. apply in_map_iff. exists (s, q). split; [reflexivity | exact Hk].
Qed.
Lemma empty_reserved : In "" reserved.
Proof. cbn. tauto. Qed.

(** two keyword dicts are interchangeable for a leaf with the keys [Ks] when they agree on the
    names the leaf looks up: "arc_kind" and "kind" *)
Definition agree (Ks : list path) (k1 k2 : kwargs) : Prop :=
  NoDup (map fst k1) /\ NoDup (map fst k2) /\
  forall k, In k Ks -> kw_get k k1 = kw_get k k2 /\ kw_get (tl k) k1 = kw_get (tl k) k2.

Lemma leaf_sel_agree sel u a k1 k2 : u_names_ok u = true -> agree (map fst (u_sel_items sel u)) k1 k2 ->
  lift_graph u (graph_set_params_sel sel (u_graph u) a k1) = lift_graph u (graph_set_params_sel sel (u_graph u) a k2).
Proof.
  intros Hn (Hnd1 & Hnd2 & Hk). f_equal. unfold graph_set_params_sel.
  destruct (unflatten_and_split k1 (map e_name (filter sel (g_edges (u_graph u))))) as [s1 g1] eqn:Hu1.
  destruct (unflatten_and_split k2 (map e_name (filter sel (g_edges (u_graph u))))) as [s2 g2] eqn:Hu2.
  rewrite (set_edges_for_ext (g_tri (u_graph u)) sel s1 g1 s2 g2 (g_edges (u_graph u)) a); [reflexivity|].
  intros e t Hin Hs Ht.
  assert (He : In (e_name e) (map e_name (filter sel (g_edges (u_graph u))))) by (apply in_map, filter_In; split; assumption).
  rewrite (obj_kwargs_lookup k1 _ (e_name e) t s1 g1 (reserved_not_filter u sel "" Hn empty_reserved) Hu1 He).
  rewrite (obj_kwargs_lookup k2 _ (e_name e) t s2 g2 (reserved_not_filter u sel "" Hn empty_reserved) Hu2 He).
  destruct (Hk (e_name e :: t) (sel_params_key_in _ sel _ e t Hin Hs Ht)) as [H1 H2]. cbn [tl] in H2.
  unfold eff. rewrite !(kw_last_NoDup _ k1 Hnd1), !(kw_last_NoDup _ k2 Hnd2), H1, H2. reflexivity.
Qed.
Lemma leaf_dist_agree u a k1 k2 : u_names_ok u = true -> agree (map fst (u_dist_items u)) k1 k2 ->
  u_set_distribution_params u a k1 = u_set_distribution_params u a k2.
Proof.
  intros Hn (Hnd1 & Hnd2 & Hk). unfold u_set_distribution_params.
  destruct (unflatten_and_split k1 (map fst (u_dists u))) as [s1 g1] eqn:Hu1.
  destruct (unflatten_and_split k2 (map fst (u_dists u))) as [s2 g2] eqn:Hu2.
  rewrite (set_dists_for_ext (u_maxt u) s1 g1 s2 g2 (u_dists u) a); [reflexivity|].
  intros td s Hin Hs.
  rewrite (obj_kwargs_lookup k1 _ (fst td) [s] s1 g1 (in_reserved_not_tstage u "" Hn empty_reserved) Hu1) by (apply in_map, Hin).
  rewrite (obj_kwargs_lookup k2 _ (fst td) [s] s2 g2 (in_reserved_not_tstage u "" Hn empty_reserved) Hu2) by (apply in_map, Hin).
  destruct (Hk [fst td; s] (dists_items_key_in _ td s Hin Hs)) as [H1 H2]. cbn [tl] in H2.
  unfold eff. rewrite !(kw_last_NoDup _ k1 Hnd1), !(kw_last_NoDup _ k2 Hnd2), H1, H2. reflexivity.
Qed.

(** ** Two keyword dicts that bind the same values under every name the plumbing can resolve *)
Section Irrelevant.
  Variable m0 : midline.
  Hypothesis Hsafe : m_names_ok m0 = true.
  Notation like := (SafeMidline.like_ei m0).
  Notation St := (SafeMidline.St m0).
  Notation rt := (Forall (fun w : string => In w routing)).

  Definition Rl (k1 k2 : kwargs) : Prop :=
    NoDup (map fst k1) /\ NoDup (map fst k2) /\
    forall P K, rt P -> mid_resolvable m0 K = true -> kw_get (P ++ K) k1 = kw_get (P ++ K) k2.

  Lemma Rl_junk kw junk : NoDup (map fst (kw ++ junk)) -> mid_kw_unknown m0 junk = true -> Rl (kw ++ junk) kw.
  Proof.
    intros Hnd Hunk. split; [exact Hnd|]. split; [rewrite map_app in Hnd; apply (NoDup_app_l _ _ Hnd)|].
    intros P K HP HK. rewrite kw_get_app. destruct (kw_get (P ++ K) kw); [reflexivity|].
    destruct (kw_get (P ++ K) junk) as [v|] eqn:E; [exfalso | reflexivity].
    unfold mid_kw_unknown in Hunk. rewrite forallb_forall in Hunk.
    specialize (Hunk (P ++ K) (in_items_key _ _ _ (kw_get_Some_In _ _ _ E))).
    rewrite (unknown_path_spec _ P K HP Hunk) in HK. discriminate.
  Qed.
  Lemma Rl_obj X name k1 k2 s1 g1 s2 g2 : Rl k1 k2 -> (forall w, In w X -> In w routing) -> In name X ->
    unflatten_and_split k1 X = (s1, g1) -> unflatten_and_split k2 X = (s2, g2) -> Rl (obj_kwargs name s1 g1) (obj_kwargs name s2 g2).
  Proof.
    intros (Hnd1 & Hnd2 & HR) HX Hin Hu1 Hu2.
    assert (He : ~ In "" X) by (intros H; apply HX in H; cbn in H; intuition discriminate).
    split; [apply (obj_kwargs_NoDup k1 X); exact Hu1|]. split; [apply (obj_kwargs_NoDup k2 X); exact Hu2|].
    intros P K HP HK.
    rewrite (obj_kwargs_lookup k1 X name (P ++ K) s1 g1 He Hu1 Hin), (obj_kwargs_lookup k2 X name (P ++ K) s2 g2 He Hu2 Hin).
    unfold eff. rewrite !(kw_last_NoDup _ k1 Hnd1), !(kw_last_NoDup _ k2 Hnd2).
    change (name :: P ++ K) with ((name :: P) ++ K). rewrite (HR (name :: P) K (Forall_cons name (HX _ Hin) HP) HK), (HR P K HP HK). reflexivity.
  Qed.
  Lemma Rl_glob X k1 k2 s1 g1 s2 g2 : Rl k1 k2 -> ~ In "" X ->
    unflatten_and_split k1 X = (s1, g1) -> unflatten_and_split k2 X = (s2, g2) -> Rl g1 g2.
  Proof.
    intros (Hnd1 & Hnd2 & HR) He Hu1 Hu2.
    split; [apply (glob_lookup k1 X [] s1 g1 He Hu1)|]. split; [apply (glob_lookup k2 X [] s2 g2 He Hu2)|].
    intros P K HP HK. rewrite (proj1 (glob_lookup k1 X (P ++ K) s1 g1 He Hu1)), (proj1 (glob_lookup k2 X (P ++ K) s2 g2 He Hu2)).
    rewrite (kw_last_NoDup _ k1 Hnd1), (kw_last_NoDup _ k2 Hnd2), (HR P K HP HK). reflexivity.
  Qed.
  Lemma Rl_side k1 k2 i1 c1 i2 c2 : Rl k1 k2 -> side_kwargs k1 = (i1, c1) -> side_kwargs k2 = (i2, c2) -> Rl i1 i2 /\ Rl c1 c2.
  Proof.
    intros HR E1 E2. unfold side_kwargs in E1, E2.
    destruct (unflatten_and_split k1 ["ipsi"; "contra"]) as [s1 g1] eqn:Hu1. destruct (unflatten_and_split k2 ["ipsi"; "contra"]) as [s2 g2] eqn:Hu2.
    injection E1 as <- <-. injection E2 as <- <-.
    split; apply (Rl_obj ["ipsi"; "contra"] _ k1 k2 s1 g1 s2 g2 HR); try assumption; try (intros w Hw; cbn in Hw |- *; tauto); cbn; tauto.
  Qed.
  Lemma Rl_nested side k1 k2 s1 g1 s2 g2 ns1 ng1 ns2 ng2 : Rl k1 k2 -> (side = "noext" \/ side = "ext") ->
    unflatten_and_split k1 X4 = (s1, g1) -> unflatten_and_split k2 X4 = (s2, g2) ->
    unflatten_and_split (sub_kwargs side s1) ["contra"] = (ns1, ng1) -> unflatten_and_split (sub_kwargs side s2) ["contra"] = (ns2, ng2) ->
    Rl (obj_kwargs "contra" ns1 g1) (obj_kwargs "contra" ns2 g2).
  Proof.
    intros (Hnd1 & Hnd2 & HR) Hside Hu1 Hu2 Hn1 Hn2.
    assert (Hs : In side X4) by (destruct Hside as [-> | ->]; cbn; tauto).
    assert (Hsr : In side routing) by (destruct Hside as [-> | ->]; cbn; tauto).
    assert (Hcn : ~ In "" ["contra"]) by (cbn; intuition discriminate).
    destruct (glob_lookup k1 X4 [] s1 g1 not_empty_X4 Hu1) as [_ Hg1nd]. destruct (glob_lookup k2 X4 [] s2 g2 not_empty_X4 Hu2) as [_ Hg2nd].
    split; [apply kw_update_NoDup, Hg1nd|]. split; [apply kw_update_NoDup, Hg2nd|].
    intros P K HP HK. unfold obj_kwargs.
    destruct (sub_kwargs_lookup (sub_kwargs side s1) ["contra"] "contra" (P ++ K) ns1 ng1 Hcn Hn1 (or_introl eq_refl)) as [Hsub1 Hsnd1].
    destruct (sub_kwargs_lookup (sub_kwargs side s2) ["contra"] "contra" (P ++ K) ns2 ng2 Hcn Hn2 (or_introl eq_refl)) as [Hsub2 Hsnd2].
    destruct (sub_kwargs_lookup k1 X4 side ("contra" :: P ++ K) s1 g1 not_empty_X4 Hu1 Hs) as [Hss1 Hssnd1].
    destruct (sub_kwargs_lookup k2 X4 side ("contra" :: P ++ K) s2 g2 not_empty_X4 Hu2 Hs) as [Hss2 Hssnd2].
    rewrite !kw_get_update. rewrite (kw_get_rev_NoDup _ _ Hsnd1), (kw_get_rev_NoDup _ _ Hsnd2), Hsub1, Hsub2.
    rewrite (kw_last_NoDup _ _ Hssnd1), (kw_last_NoDup _ _ Hssnd2), Hss1, Hss2.
    rewrite (kw_last_NoDup _ k1 Hnd1), (kw_last_NoDup _ k2 Hnd2).
    change (side :: "contra" :: P ++ K) with ((side :: "contra" :: P) ++ K).
    rewrite (HR (side :: "contra" :: P) K) by (first [exact HK | constructor; [exact Hsr | constructor; [cbn; tauto | exact HP]]]).
    rewrite (proj1 (glob_lookup k1 X4 (P ++ K) s1 g1 not_empty_X4 Hu1)), (proj1 (glob_lookup k2 X4 (P ++ K) s2 g2 not_empty_X4 Hu2)).
    rewrite (kw_last_NoDup _ k1 Hnd1), (kw_last_NoDup _ k2 Hnd2), (HR P K HP HK). reflexivity.
  Qed.
  Lemma Rl_top k1 k2 K : Rl k1 k2 -> mid_resolvable m0 K = true -> kw_get K k1 = kw_get K k2.
  Proof. intros (_ & _ & HR) HK. apply (HR [] K (Forall_nil _) HK). Qed.

  Lemma leaf_key_res k : In k (mid_leaf_keys m0) -> mid_resolvable m0 k = true /\ mid_resolvable m0 (tl k) = true.
  Proof.
    intros H. unfold mid_resolvable. split.
    - rewrite (proj2 (memp_In k _) H). reflexivity.
    - apply orb_true_iff. left. apply orb_true_iff. left. apply orb_true_iff. right. apply memp_In. apply (in_map (@tl string)), H.
  Qed.
  Lemma Rl_agree Ks k1 k2 : incl Ks (mid_leaf_keys m0) -> Rl k1 k2 -> agree Ks k1 k2.
  Proof.
    intros Hi HR. split; [apply HR|]. split; [apply HR|]. intros k Hk. destruct (leaf_key_res k (Hi k Hk)) as [H1 H2].
    split; apply (Rl_top k1 k2 _ HR); assumption.
  Qed.
  Lemma like_T_incl u : like u -> incl (map fst (u_sel_items T u)) (mid_leaf_keys m0).
  Proof. intros (_ & HT & _) k Hk. change (u_sel_items T u) with (u_tumor_items u) in Hk. rewrite HT in Hk. unfold mid_leaf_keys. apply in_app_iff. left. exact Hk. Qed.
  Lemma like_L_incl u : like u -> incl (map fst (u_sel_items L u)) (mid_leaf_keys m0).
  Proof. intros (_ & _ & HL & _) k Hk. change (u_sel_items L u) with (u_lnl_items u) in Hk. rewrite HL in Hk. unfold mid_leaf_keys. rewrite !in_app_iff. right. left. exact Hk. Qed.
  Lemma like_D_incl u : like u -> incl (map fst (u_dist_items u)) (mid_leaf_keys m0).
  Proof. intros (_ & _ & _ & HD) k Hk. rewrite HD in Hk. unfold mid_leaf_keys. rewrite !in_app_iff. right. right. exact Hk. Qed.

  Lemma u_sel_irrel sel u a k1 k2 : (sel = T \/ sel = L) -> like u -> Rl k1 k2 ->
    lift_graph u (graph_set_params_sel sel (u_graph u) a k1) = lift_graph u (graph_set_params_sel sel (u_graph u) a k2).
  Proof.
    intros Hsel Hl HR.
    assert (Hi : incl (map fst (u_sel_items sel u)) (mid_leaf_keys m0)) by (destruct Hsel as [-> | ->]; [apply like_T_incl | apply like_L_incl]; exact Hl).
    apply (leaf_sel_agree sel u a k1 k2 (proj1 Hl) (Rl_agree _ k1 k2 Hi HR)).
  Qed.
  Lemma u_T_irrel u a k1 k2 : like u -> Rl k1 k2 -> u_set_tumor_spread_params u a k1 = u_set_tumor_spread_params u a k2.
  Proof. intros. apply (u_sel_irrel T); [left; reflexivity | assumption..]. Qed.
  Lemma u_L_irrel u a k1 k2 : like u -> Rl k1 k2 -> u_set_lnl_spread_params u a k1 = u_set_lnl_spread_params u a k2.
  Proof. intros. apply (u_sel_irrel L); [right; reflexivity | assumption..]. Qed.
  Lemma u_D_irrel u a k1 k2 : like u -> Rl k1 k2 -> u_set_distribution_params u a k1 = u_set_distribution_params u a k2.
  Proof. intros Hl HR. apply (leaf_dist_agree u a k1 k2 (proj1 Hl) (Rl_agree _ k1 k2 (like_D_incl u Hl) HR)). Qed.

  Lemma b_side_irrel sel sym b a k1 k2 : (sel = T \/ sel = L) -> like (b_ipsi b) -> like (b_contra b) -> Rl k1 k2 ->
    b_set_side_params sel sym b a k1 = b_set_side_params sel sym b a k2.
  Proof.
    intros Hsel Hi Hc HR. unfold b_set_side_params.
    destruct (side_kwargs k1) as [i1 c1] eqn:E1. destruct (side_kwargs k2) as [i2 c2] eqn:E2.
    destruct (Rl_side k1 k2 i1 c1 i2 c2 HR E1 E2) as [HRi HRc].
    rewrite (u_sel_irrel sel (b_ipsi b) a i1 i2 Hsel Hi HRi).
    destruct (lift_graph (b_ipsi b) (graph_set_params_sel sel (u_graph (b_ipsi b)) a i2)) as [i' [a1|]]; [|reflexivity].
    destruct sym; [reflexivity|].
    rewrite (u_sel_irrel sel (b_contra b) a1 c1 c2 Hsel Hc HRc). reflexivity.
  Qed.
  Lemma b_D_irrel b a k1 k2 : like (b_ipsi b) -> like (b_contra b) -> Rl k1 k2 ->
    b_set_distribution_params b a k1 = b_set_distribution_params b a k2.
  Proof.
    intros Hi Hc HR. unfold b_set_distribution_params.
    destruct (side_kwargs k1) as [i1 c1] eqn:E1. destruct (side_kwargs k2) as [i2 c2] eqn:E2.
    destruct (Rl_side k1 k2 i1 c1 i2 c2 HR E1 E2) as [HRi HRc].
    rewrite (u_D_irrel (b_ipsi b) a i1 i2 Hi HRi).
    destruct (u_set_distribution_params (b_ipsi b) a i2) as [i' [r|]]; [|reflexivity].
    rewrite (u_D_irrel (b_contra b) a c1 c2 Hc HRc). reflexivity.
  Qed.

  Lemma X4_routing w : In w X4 -> In w routing.
  Proof. cbn. tauto. Qed.
  Lemma mixing_res mk cur : St mk -> ml_mixing mk = Some cur -> mid_resolvable m0 ["mixing"] = true.
  Proof.
    intros HS E. destruct (proj1 (SafeMidline.St_mixing m0 mk HS) (ex_intro _ cur E)) as (q & Hq).
    unfold mid_resolvable. rewrite Hq. cbn [is_some andb]. rewrite path_eqb_refl, orb_true_r. reflexivity.
  Qed.

  Section Calls.
  Variables kw1 kw2 : kwargs.
  Hypothesis HR0 : Rl kw1 kw2.

  (** ** tumour spread *)
  Lemma m_T_irrel mk a : St mk -> m_set_tumor_spread_params mk a kw1 = m_set_tumor_spread_params mk a kw2.
  Proof.
    intros HS.
    destruct (SafeMidline.St_ext m0 Hsafe mk HS) as (_ & Hei & Hec & _).
    destruct (SafeMidline.St_noext m0 Hsafe mk HS) as (_ & Hni & Hnc & _).
    unfold m_set_tumor_spread_params. change ["ipsi"; "noext"; "ext"; "contra"] with X4.
    destruct (unflatten_and_split kw1 X4) as [s1 g1] eqn:Hu1. destruct (unflatten_and_split kw2 X4) as [s2 g2] eqn:Hu2.
    assert (Ho : forall name, In name X4 -> Rl (obj_kwargs name s1 g1) (obj_kwargs name s2 g2))
      by (intros name Hn; apply (Rl_obj X4 name kw1 kw2 s1 g1 s2 g2 HR0 X4_routing Hn Hu1 Hu2)).
    assert (Hi : Rl (obj_kwargs "ipsi" s1 g1) (obj_kwargs "ipsi" s2 g2)) by (apply Ho; cbn; tauto).
    (* central *)
    assert (Hc : match ml_central mk with
                 | None => (mk, true)
                 | Some c => let '(c', ok) := ok_of (b_set_tumor_spread_params c a (obj_kwargs "ipsi" s1 g1)) in (ml_with_central mk c', ok)
                 end
               = match ml_central mk with
                 | None => (mk, true)
                 | Some c => let '(c', ok) := ok_of (b_set_tumor_spread_params c a (obj_kwargs "ipsi" s2 g2)) in (ml_with_central mk c', ok)
                 end).
    { destruct (ml_central mk) as [c|] eqn:Ec; [|reflexivity].
      destruct (SafeMidline.St_central m0 Hsafe mk c HS Ec) as (c0 & _ & (_ & Hci & Hcc & _)).
      unfold b_set_tumor_spread_params.
      rewrite (b_side_irrel is_tumor_spread (b_symT c) c a _ _ (or_introl eq_refl) Hci Hcc Hi). reflexivity. }
    rewrite Hc.
    destruct (match ml_central mk with
              | None => (mk, true)
              | Some c => let '(c', ok) := ok_of (b_set_tumor_spread_params c a (obj_kwargs "ipsi" s2 g2)) in (ml_with_central mk c', ok)
              end) as [m1 ok1] eqn:Ec.
    destruct (central_step_frame mk (fun c => ok_of (b_set_tumor_spread_params c a (obj_kwargs "ipsi" s2 g2))) m1 ok1 Ec) as (He1 & Hn1 & Hm1 & _).
    destruct ok1; cbn [negb]; [|reflexivity].
    rewrite He1.
    rewrite (u_T_irrel (b_ipsi (ml_ext mk)) a _ _ Hei Hi).
    destruct (ok_of (u_set_tumor_spread_params (b_ipsi (ml_ext mk)) a (obj_kwargs "ipsi" s2 g2))) as [ei' ok2].
    destruct ok2; cbn [negb]; [|reflexivity].
    autorewrite with mlf. rewrite Hn1.
    rewrite (u_T_irrel (b_ipsi (ml_noext mk)) a _ _ Hni Hi).
    destruct (u_set_tumor_spread_params (b_ipsi (ml_noext mk)) a (obj_kwargs "ipsi" s2 g2)) as [ni' [a3|]]; [|reflexivity].
    autorewrite with mlf. rewrite Hm1.
    destruct (ml_mixing mk) as [cur|] eqn:Emix.
    - assert (Hcc : Rl (obj_kwargs "contra" s1 g1) (obj_kwargs "contra" s2 g2)) by (apply Ho; cbn; tauto).
      rewrite (u_T_irrel (b_contra (ml_noext mk)) a3 _ _ Hnc Hcc).
      destruct (u_set_tumor_spread_params (b_contra (ml_noext mk)) a3 (obj_kwargs "contra" s2 g2)) as [nc' [a4|]]; [|reflexivity].
      rewrite (Rl_top g1 g2 ["mixing"] (Rl_glob X4 kw1 kw2 s1 g1 s2 g2 HR0 not_empty_X4 Hu1 Hu2) (mixing_res mk cur HS Emix)).
      reflexivity.
    - destruct (unflatten_and_split (sub_kwargs "noext" s1) ["contra"]) as [ns1 ng1] eqn:Hn1'.
      destruct (unflatten_and_split (sub_kwargs "noext" s2) ["contra"]) as [ns2 ng2] eqn:Hn2'.
      pose proof (Rl_nested "noext" kw1 kw2 s1 g1 s2 g2 ns1 ng1 ns2 ng2 HR0 (or_introl eq_refl) Hu1 Hu2 Hn1' Hn2') as HRn.
      rewrite (u_T_irrel (b_contra (ml_noext mk)) a3 _ _ Hnc HRn).
      destruct (u_set_tumor_spread_params (b_contra (ml_noext mk)) a3 (obj_kwargs "contra" ns2 g2)) as [nc' [a4|]]; [|reflexivity].
      destruct (unflatten_and_split (sub_kwargs "ext" s1) ["contra"]) as [es1 eg1] eqn:He1'.
      destruct (unflatten_and_split (sub_kwargs "ext" s2) ["contra"]) as [es2 eg2] eqn:He2'.
      pose proof (Rl_nested "ext" kw1 kw2 s1 g1 s2 g2 es1 eg1 es2 eg2 HR0 (or_intror eq_refl) Hu1 Hu2 He1' He2') as HRe.
      autorewrite with mlf. rewrite ?He1.
      rewrite (u_T_irrel (b_contra (ml_ext mk)) a4 _ _ Hec HRe). reflexivity.
  Qed.

  (** ** LNL spread *)
  Definition leaves_like (mk : midline) : Prop := forall l u, ml_leaf mk l = Some u -> like u.
  Lemma leaves_like_with mk l u' : leaves_like mk -> ml_leaf mk l <> None -> like u' -> leaves_like (ml_with_leaf mk l u').
  Proof.
    intros HI Hl Hlk l' u Hu. destruct (leaf_id_dec l l') as [<-|Hne].
    - rewrite (ml_leaf_with_same mk l u' Hl) in Hu. injection Hu as <-. exact Hlk.
    - rewrite (ml_leaf_with_other mk l l' u' Hne) in Hu. apply (HI l' u Hu).
  Qed.
  Lemma lnl_block_irrel ls : forall mk a k1 k2, Rl k1 k2 -> leaves_like mk ->
    m_set_lnl_block mk ls a k1 = m_set_lnl_block mk ls a k2.
  Proof.
    induction ls as [|l r IH]; intros mk a k1 k2 HR HI; [reflexivity|]. cbn [m_set_lnl_block].
    destruct (ml_leaf mk l) as [u|] eqn:El; [|apply IH; assumption].
    rewrite (u_L_irrel u a k1 k2 (HI l u El) HR).
    pose proof (SafeProofs.sk_uni_set_lnl u a k2) as Hsk.
    destruct (u_set_lnl_spread_params u a k2) as [u' [a'|]]; [|reflexivity]. cbn [fst] in Hsk.
    destruct r as [|l2 r2]; [reflexivity|]. apply IH; try assumption.
    apply leaves_like_with; [exact HI | congruence | apply (SafeMidline.like_ei_sk m0 u' u (HI l u El) Hsk)].
  Qed.
  Lemma St_leaves_like mk : St mk -> leaves_like mk.
  Proof. intros HS l u Hl. apply (SafeMidline.St_leaf m0 Hsafe mk l u HS Hl). Qed.

  Lemma m_L_irrel mk a : St mk -> m_set_lnl_spread_params mk a kw1 = m_set_lnl_spread_params mk a kw2.
  Proof.
    intros HS. unfold m_set_lnl_spread_params. change ["ipsi"; "noext"; "ext"; "contra"] with X4.
    destruct (unflatten_and_split kw1 X4) as [s1 g1] eqn:Hu1. destruct (unflatten_and_split kw2 X4) as [s2 g2] eqn:Hu2.
    pose proof (St_leaves_like mk HS) as HI.
    destruct (ml_symL mk).
    - apply lnl_block_irrel; [apply (Rl_glob X4 kw1 kw2 s1 g1 s2 g2 HR0 not_empty_X4 Hu1 Hu2) | exact HI].
    - assert (Ho : forall name, In name X4 -> Rl (obj_kwargs name s1 g1) (obj_kwargs name s2 g2))
        by (intros name Hn; apply (Rl_obj X4 name kw1 kw2 s1 g1 s2 g2 HR0 X4_routing Hn Hu1 Hu2)).
      rewrite (lnl_block_irrel [LCentralIpsi; LExtIpsi; LNoextIpsi] mk a (obj_kwargs "ipsi" s1 g1) (obj_kwargs "ipsi" s2 g2))
        by (first [exact HI | apply Ho; cbn; tauto]).
      pose proof (SafeProofs.sk_mid_set_lnl_block [LCentralIpsi; LExtIpsi; LNoextIpsi] mk a (obj_kwargs "ipsi" s2 g2)) as Hsk.
      destruct (m_set_lnl_block mk [LCentralIpsi; LExtIpsi; LNoextIpsi] a (obj_kwargs "ipsi" s2 g2)) as [m1 [a1|]]; [|reflexivity].
      cbn [andthen fst] in Hsk |- *.
      apply lnl_block_irrel; [apply Ho; cbn; tauto|].
      apply St_leaves_like. unfold SafeMidline.St. rewrite Hsk. exact HS.
  Qed.

  (** ** distributions *)
  Lemma m_D_irrel mk a : St mk -> m_set_distribution_params mk a kw1 = m_set_distribution_params mk a kw2.
  Proof.
    intros HS.
    destruct (SafeMidline.St_ext m0 Hsafe mk HS) as (_ & Hei & Hec & _).
    destruct (SafeMidline.St_noext m0 Hsafe mk HS) as (_ & Hni & Hnc & _).
    unfold m_set_distribution_params. fold (XD mk).
    destruct (unflatten_and_split kw1 (XD mk)) as [s1 g1] eqn:Hu1. destruct (unflatten_and_split kw2 (XD mk)) as [s2 g2] eqn:Hu2.
    assert (Ho : forall name, In name (XD mk) -> Rl (obj_kwargs name s1 g1) (obj_kwargs name s2 g2))
      by (intros name Hn; apply (Rl_obj (XD mk) name kw1 kw2 s1 g1 s2 g2 HR0 (XD_routing mk) Hn Hu1 Hu2)).
    assert (Hxe : In "ext" (XD mk)) by apply XD_props.
    assert (Hxn : In "noext" (XD mk)) by (unfold XD; cbn; tauto).
    rewrite (b_D_irrel (ml_ext mk) a _ _ Hei Hec (Ho _ Hxe)).
    destruct (b_set_distribution_params (ml_ext mk) a (obj_kwargs "ext" s2 g2)) as [e' [r1|]]; [|reflexivity].
    autorewrite with mlf.
    rewrite (b_D_irrel (ml_noext mk) a _ _ Hni Hnc (Ho _ Hxn)).
    destruct (b_set_distribution_params (ml_noext mk) a (obj_kwargs "noext" s2 g2)) as [n' [r2|]]; [|reflexivity].
    autorewrite with mlf.
    assert (Hk : forall k, ml_unknown mk = Some k ->
              b_set_distribution_params k a (obj_kwargs "unknown" s1 g1) = b_set_distribution_params k a (obj_kwargs "unknown" s2 g2)).
    { intros k Ek. destruct (SafeMidline.St_unknown m0 Hsafe mk k HS Ek) as (k0 & _ & (_ & Hki & Hkc & _)).
      assert (Hxk : In "unknown" (XD mk)) by (unfold XD; rewrite Ek; destruct (ml_central mk); cbn; tauto).
      apply b_D_irrel; [exact Hki | exact Hkc | apply Ho, Hxk]. }
    destruct (ml_central mk) as [c|] eqn:Ec.
    - destruct (SafeMidline.St_central m0 Hsafe mk c HS Ec) as (c0 & _ & (_ & Hci & Hcc & _)).
      assert (Hxc : In "central" (XD mk)) by (unfold XD; rewrite Ec; cbn; tauto).
      rewrite (b_D_irrel c a _ _ Hci Hcc (Ho _ Hxc)).
      destruct (b_set_distribution_params c a (obj_kwargs "central" s2 g2)) as [c' [r3|]]; cbv beta iota; [|reflexivity].
      autorewrite with mlf. destruct (ml_unknown mk) as [k|] eqn:Ek; [|reflexivity].
      rewrite (Hk k eq_refl). reflexivity.
    - cbv beta iota. autorewrite with mlf. destruct (ml_unknown mk) as [k|] eqn:Ek; [|reflexivity].
      rewrite (Hk k eq_refl). reflexivity.
  Qed.

  (** ** the whole call *)
  Lemma m_chain_irrel mk a : St mk ->
    andthen (m_set_spread_params mk a kw1) (fun m1 a1 => m_set_distribution_params m1 a1 kw1)
    = andthen (m_set_spread_params mk a kw2) (fun m1 a1 => m_set_distribution_params m1 a1 kw2).
  Proof.
    intros HS. unfold m_set_spread_params. rewrite (m_T_irrel mk a HS).
    pose proof (SafeProofs.sk_mid_set_tumor mk a kw2) as HskT.
    destruct (m_set_tumor_spread_params mk a kw2) as [m1 [a1|]]; [|reflexivity]. cbn [andthen fst] in HskT |- *.
    assert (HS1 : St m1) by (unfold SafeMidline.St; rewrite HskT; exact HS).
    rewrite (m_L_irrel m1 a1 HS1).
    pose proof (SafeProofs.sk_mid_set_lnl m1 a1 kw2) as HskL.
    destruct (m_set_lnl_spread_params m1 a1 kw2) as [m2 [a2|]]; [|reflexivity]. cbn [andthen fst] in HskL |- *.
    apply m_D_irrel. unfold SafeMidline.St. rewrite HskL. exact HS1.
  Qed.
  Lemma midext_res : mid_resolvable m0 ["midext"; "prob"] = true.
  Proof. unfold mid_resolvable. rewrite path_eqb_refl, orb_true_r. reflexivity. Qed.
  Lemma m_set_params_irrel a : m_set_params m0 a kw1 = m_set_params m0 a kw2.
  Proof.
    unfold m_set_params. destruct (m_get_params m0 true) as [ps|]; [|reflexivity].
    destruct (popat a (Z.of_nat (length ps) - 1)) as [[before last] after].
    rewrite (Rl_top kw1 kw2 _ HR0 midext_res).
    destruct (match kw_get ["midext"; "prob"] kw2 with Some v => Some v | None => last end) as [v|]; cbn [option_map].
    - destruct (check_unit v) as [q|]; cbn [option_map]; [|reflexivity].
      apply m_chain_irrel. apply SafeProofs.sk_mid_with_midext.
    - apply m_chain_irrel. reflexivity.
  Qed.
  End Calls.
End Irrelevant.

Theorem mid_unknown_names_dropped : C10_mid_unknown_names_dropped_stmt.
Proof.
  intros m a kw junk Hsafe Hnd Hunk. apply (m_set_params_irrel m Hsafe (kw ++ junk) kw (Rl_junk m kw junk Hnd Hunk)).
Qed.
Theorem mid_unknown_names_ignored : C10_mid_unknown_names_ignored_stmt.
Proof. intros m a kw Hsafe Hnd Hunk. apply (mid_unknown_names_dropped m a [] kw Hsafe Hnd Hunk). Qed.
Theorem mid_unknown_names_ignored_got : C10_mid_unknown_names_ignored_got_stmt.
Proof.
  intros m a kw Hsafe Hnd Hunk r1 r2. subst r1 r2. rewrite (mid_unknown_names_ignored m a kw Hsafe Hnd Hunk). split; reflexivity.
Qed.

(** * 3. Surplus positional arguments *)
(** the result of a setter whose argument list is extended by [extra] behind the arguments it
    consumes: the same object, [extra] appended to the returned rest *)
Definition ext_res {S} (extra : args) (r : S * option args) : S * option args :=
  (fst r, option_map (fun x => x ++ extra) (snd r)).
Lemma ok_of_ext {S} extra (r : S * option args) : ok_of (ext_res extra r) = ok_of r.
Proof. destruct r as [s [x|]]; reflexivity. Qed.
Lemma skipn_app_le {A} n (a extra : list A) : n <= length a -> skipn n (a ++ extra) = skipn n a ++ extra.
Proof. intros H. rewrite skipn_app. replace (n - length a) with 0 by lia. reflexivity. Qed.
Lemma plan_args_app lk ps : forall a extra, length ps <= length a -> plan lk ps (a ++ extra) = plan lk ps a.
Proof.
  induction ps as [|[k old] r IH]; intros a extra Hl; [reflexivity|]. destruct a as [|x a]; [cbn in Hl; lia|].
  cbn [plan app hd_error tl]. rewrite IH by (cbn in Hl; lia). reflexivity.
Qed.

(** ** Edges *)
Lemma edge_set_params_app tri e a extra kw : length (edge_params tri e) <= length a ->
  edge_set_params tri e (a ++ extra) kw = ext_res extra (edge_set_params tri e a kw).
Proof.
  rewrite edge_params_cases. unfold edge_set_params, ext_res.
  destruct (is_growth e) eqn:Eg.
  - rewrite (growth_no_micro tri e Eg). cbn [length]. intros Hl. destruct a as [|x a]; [cbn in Hl; lia|]. cbn [app popfirst].
    destruct (check_unit _); reflexivity.
  - destruct (has_micro tri e); cbn [length]; intros Hl.
    + destruct a as [|x [|y a]]; try (cbn in Hl; lia). cbn [app popfirst].
      destruct (check_unit _); [|reflexivity]. destruct (check_unit _); reflexivity.
    + destruct a as [|x a]; [cbn in Hl; lia|]. cbn [app popfirst]. destruct (check_unit _); reflexivity.
Qed.
Lemma edge_set_params_rest tri e a kw e' a' : edge_set_params tri e a kw = (e', Some a') -> a' = skipn (length (edge_params tri e)) a.
Proof.
  intros H. destruct (all_unit (plan (fun t => kw_get t kw) (edge_params tri e) a)) as [qs|] eqn:E.
  - rewrite (edge_set_params_ok tri e a kw qs E) in H. injection H as _ <-. reflexivity.
  - pose proof (edge_set_params_fail tri e a kw E) as Hf. rewrite H in Hf. discriminate.
Qed.
Lemma set_edges_for_app tri sel split glob es : forall a extra, length (sel_params tri sel es) <= length a ->
  set_edges_for tri sel split glob es (a ++ extra) = ext_res extra (set_edges_for tri sel split glob es a).
Proof.
  induction es as [|e r IH]; intros a extra Hl; [reflexivity|]. rewrite sel_params_cons, app_length in Hl. cbn [set_edges_for].
  destruct (sel e).
  - rewrite pre_length in Hl. rewrite edge_set_params_app by lia.
    destruct (edge_set_params tri e a (obj_kwargs (e_name e) split glob)) as [e' [a'|]] eqn:E; unfold ext_res at 1; cbn [fst snd option_map]; [|reflexivity].
    apply edge_set_params_rest in E. rewrite IH by (rewrite E, skipn_length; lia).
    destruct (set_edges_for tri sel split glob r a') as [r' o]. reflexivity.
  - cbn [length] in Hl. rewrite IH by lia. destruct (set_edges_for tri sel split glob r a) as [r' o]. reflexivity.
Qed.
Lemma u_sel_app sel u a extra kwL : length (u_sel_items sel u) <= length a ->
  lift_graph u (graph_set_params_sel sel (u_graph u) (a ++ extra) kwL) = ext_res extra (lift_graph u (graph_set_params_sel sel (u_graph u) a kwL)).
Proof.
  intros Hl. unfold lift_graph, graph_set_params_sel.
  destruct (unflatten_and_split kwL (map e_name (filter sel (g_edges (u_graph u))))) as [split glob].
  rewrite set_edges_for_app by exact Hl.
  destruct (set_edges_for (g_tri (u_graph u)) sel split glob (g_edges (u_graph u)) a) as [es o]. reflexivity.
Qed.

(** ** Distributions *)
Lemma dist_set_params_app maxt d a extra kw : length (dist_local d) <= length a ->
  dist_set_params maxt d (a ++ extra) kw = ext_res extra (dist_set_params maxt d a kw).
Proof.
  destruct d as [p|f kws]; [reflexivity|]. cbn [dist_local dist_set_params]. rewrite map_length. intros Hl.
  rewrite !dist_assign_spec. rewrite plan_args_app by (rewrite map_length; exact Hl). rewrite skipn_app_le by exact Hl.
  destruct (all_vals _) as [kws'|]; [|reflexivity]. destruct (fam_weights f maxt kws'); reflexivity.
Qed.
Lemma dist_set_params_rest maxt d a kw d' a' : dist_set_params maxt d a kw = (d', Some a') -> a' = skipn (length (dist_local d)) a.
Proof.
  intros H. pose proof (dist_set_params_spec maxt d a kw) as Hs. destruct (dist_put maxt d _) as [d''|].
  - rewrite Hs in H. injection H as _ <-. reflexivity.
  - rewrite H in Hs. discriminate.
Qed.
Lemma set_dists_for_app maxt split glob ds : forall a extra, length (dists_items ds) <= length a ->
  set_dists_for maxt split glob ds (a ++ extra) = ext_res extra (set_dists_for maxt split glob ds a).
Proof.
  induction ds as [|[t d] r IH]; intros a extra Hl; [reflexivity|].
  cbn [dists_items flat_map fst snd] in Hl. fold (dists_items r) in Hl. rewrite app_length, pre_length in Hl. cbn [set_dists_for].
  destruct d as [p|f kws].
  - cbn [dist_local length] in Hl. rewrite IH by lia. destruct (set_dists_for maxt split glob r a) as [r' o]. reflexivity.
  - rewrite dist_set_params_app by lia.
    destruct (dist_set_params maxt (Param f kws) a (obj_kwargs t split glob)) as [d' [a'|]] eqn:E; unfold ext_res at 1; cbn [fst snd option_map]; [|reflexivity].
    apply dist_set_params_rest in E. rewrite IH by (rewrite E, skipn_length; lia).
    destruct (set_dists_for maxt split glob r a') as [r' o]. reflexivity.
Qed.
Lemma u_D_app u a extra kwL : length (u_dist_items u) <= length a ->
  u_set_distribution_params u (a ++ extra) kwL = ext_res extra (u_set_distribution_params u a kwL).
Proof.
  intros Hl. unfold u_set_distribution_params. destruct (unflatten_and_split kwL (map fst (u_dists u))) as [split glob].
  rewrite set_dists_for_app by exact Hl. destruct (set_dists_for (u_maxt u) split glob (u_dists u) a) as [ds o]. reflexivity.
Qed.
Lemma u_D_rest u a kw u' r : u_names_ok u = true -> u_set_distribution_params u a kw = (u', Some r) -> r = skipn (length (u_dist_items u)) a.
Proof.
  intros Hn H. pose proof (u_set_dist_spec u kw Hn a) as Hs. destruct (dists_put _ _ _) as [ds'|].
  - rewrite Hs in H. injection H as _ <-. reflexivity.
  - rewrite H in Hs. discriminate.
Qed.

(** ** Bilateral steps *)
Lemma b_side_app sel (sym : bool) b a extra kw : u_names_ok (b_ipsi b) = true ->
  length (u_sel_items sel (b_ipsi b)) + (if sym then 0 else length (u_sel_items sel (b_contra b))) <= length a ->
  b_set_side_params sel sym b (a ++ extra) kw = ext_res extra (b_set_side_params sel sym b a kw).
Proof.
  intros Hn Hl. unfold b_set_side_params. destruct (side_kwargs kw) as [ikw ckw].
  rewrite u_sel_app by lia.
  destruct (lift_graph (b_ipsi b) (graph_set_params_sel sel (u_graph (b_ipsi b)) a ikw)) as [i' [a1|]] eqn:E; unfold ext_res at 1; cbn [fst snd option_map]; [|reflexivity].
  destruct (leaf_step_inv sel (b_ipsi b) a ikw i' a1 Hn E) as (qs & _ & _ & ->).
  destruct sym.
  - destruct (u_sync sel i' (b_contra b)) as [c' ok]. destruct ok; reflexivity.
  - rewrite u_sel_app by (rewrite skipn_length; lia).
    destruct (lift_graph (b_contra b) (graph_set_params_sel sel (u_graph (b_contra b)) (skipn (length (u_sel_items sel (b_ipsi b))) a) ckw)) as [c' o].
    reflexivity.
Qed.
Lemma b_D_app b a extra kw : length (u_dist_items (b_ipsi b)) <= length a -> length (u_dist_items (b_contra b)) <= length a ->
  b_set_distribution_params b (a ++ extra) kw = ext_res extra (b_set_distribution_params b a kw).
Proof.
  intros Hi Hc. unfold b_set_distribution_params. destruct (side_kwargs kw) as [ikw ckw].
  rewrite !u_D_app by assumption.
  destruct (u_set_distribution_params (b_ipsi b) a ikw) as [i' [r|]]; unfold ext_res at 1; cbn [fst snd option_map]; [|reflexivity].
  destruct (u_set_distribution_params (b_contra b) a ckw) as [c' o]. reflexivity.
Qed.
Lemma b_D_rest b a kw b' r : u_names_ok (b_contra b) = true -> b_set_distribution_params b a kw = (b', Some r) ->
  r = skipn (length (u_dist_items (b_contra b))) a.
Proof.
  intros Hn H. unfold b_set_distribution_params in H. destruct (side_kwargs kw) as [ikw ckw].
  destruct (u_set_distribution_params (b_ipsi b) a ikw) as [i' [ri|]]; [|discriminate].
  destruct (u_set_distribution_params (b_contra b) a ckw) as [c' o] eqn:E. injection H as _ ->.
  apply (u_D_rest (b_contra b) a ckw c' r Hn E).
Qed.
