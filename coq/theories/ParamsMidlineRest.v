(** ParamsMidlineRest: the remaining members of the C10 family for models.Midline
    ([unknown_names_ignored], [set_own_params_is_identity], [surplus], [specific_over_global]),
    in the style of the Bilateral statements of ParamsStatements.v.

    Routes
    - unknown names: every keyword dict a leaf receives binds only values of the call's keywords
      under names prefixed by routing words ([Fr], NamedMidlineMore.v); a keyword whose name,
      stripped of any number of leading routing words, is no leaf parameter name, no global tail
      of one, not "mixing" and not "midext_prob" is therefore found by no look-up, and every
      setter only looks keywords up ([set_edges_for_ext], [set_dists_for_ext]).
    - surplus: every leaf setter called with [a ++ extra], where [a] already covers the leaf's
      parameters, does what it does with [a] and returns [extra] appended to the rest.
    - own parameters: the call is the full keyword assignment of SafeMidline.v with the current
      values: it is accepted ([SafeMidline.m_set_accept]; hypotheses: values in range, every
      sub-model accepts the reported distribution parameters), and the keyword round trip
      [mid_set_get_keyword] (ParamsMidline.v) gives the unchanged report.  For an object in the
      synchronisation invariant of C11 ([Sync.m_consistent]) the explicit final object of
      [m_set_accept] is the object itself (section 2'); without the invariant it is not
      ([C10_mid_set_own_params_model_identity_refuted_stmt]).
    - specific over global: the chain inversion lemmas of ParamsMidline.v and the exact look-up
      a leaf performs for "arc_kind" ([lk_side_eq], [lk_glob_eq], [lk_nested_eq]).
    New file; nothing existing is changed. *)
From LymphModel Require Import Base States Linalg Graph Transition Observation Dist Unilateral Models Params
  ParamsStatements ParamsLemmas ParamsProofs ParamsBilateral ParamsMidline ParamsMidlineMore
  Safe ParamsMidlineSafe Named NamedProofs NamedMidline NamedMidlineMore.
From LymphModel Require SafeProofs SafeMidline Sync.
From Coq Require Import Lia.
Local Open Scope nat_scope.
Local Open Scope string_scope.
Local Open Scope list_scope.

(** * 1. Unknown keyword names are ignored *)
(** ** Vocabulary *)
(** the parameter names of one leaf (every leaf of a well-formed Midline has the names of
    ext.ipsi): "TtoII_spread", "IItoIII_micro", "late_p", ... *)
Definition mid_leaf_keys (m : midline) : list path :=
  map fst (u_tumor_items (ml_ei m)) ++ map fst (u_lnl_items (ml_ei m)) ++ map fst (u_dist_items (ml_ei m)).
(** what some look-up of the Midline plumbing can ask for once the routing prefixes are
    consumed: a leaf parameter name, its global tail ("spread", "growth", "micro", a
    distribution keyword), "mixing" (only with use_mixing), "midext_prob" *)
Definition mid_resolvable (m : midline) (K : path) : bool :=
  memp K (mid_leaf_keys m) || memp K (map (@tl string) (mid_leaf_keys m))
  || (is_some (ml_mixing m) && path_eqb K ["mixing"]) || path_eqb K ["midext"; "prob"].
(** [c] is unknown: stripped of any number of leading routing words
    ("ipsi", "contra", "noext", "ext", "central", "unknown") it is never resolvable *)
Fixpoint kw_unknown_path (res : path -> bool) (c : path) : bool :=
  negb (res c) && match c with w :: c' => if mem w routing then kw_unknown_path res c' else true | [] => true end.
Definition mid_kw_unknown (m : midline) (kw : kwargs) : bool := forallb (kw_unknown_path (mid_resolvable m)) (map fst kw).

(** ** Statements *)
(** Midline analogue of [C10_bi_unknown_names_ignored_stmt], for every well-formed object
    ([Safe.m_names_ok]: all sub-models come from one graph dictionary; true of every
    constructed object), every positional argument list and every keyword dict (Python
    keyword arguments form a dict, hence [NoDup]): the call with the extra keywords leaves
    the SAME object and returns the same (rest or exception) as the call without keywords. *)
Definition C10_mid_unknown_names_ignored_stmt : Prop :=
  forall m a kw, m_names_ok m = true -> NoDup (map fst kw) -> mid_kw_unknown m kw = true ->
    m_set_params m a kw = m_set_params m a [].
(** ... also beside keywords that do name parameters: unknown keywords can be dropped *)
Definition C10_mid_unknown_names_dropped_stmt : Prop :=
  forall m a kw junk, m_names_ok m = true -> NoDup (map fst (kw ++ junk)) -> mid_kw_unknown m junk = true ->
    m_set_params m a (kw ++ junk) = m_set_params m a kw.
(** ... in the exact shape of the Bilateral statement *)
Definition C10_mid_unknown_names_ignored_got_stmt : Prop :=
  forall m a kw, m_names_ok m = true -> NoDup (map fst kw) -> mid_kw_unknown m kw = true ->
    let r1 := m_set_params m a kw in let r2 := m_set_params m a [] in
    snd r1 = snd r2 /\ (snd r1 <> None -> m_got (fst r1) = m_got (fst r2)).

(** ** Look-ups *)
Lemma unknown_path_spec res P : forall K, Forall (fun w => In w routing) P -> kw_unknown_path res (P ++ K) = true -> res K = false.
Proof.
  induction P as [|w P IH]; intros K HP H.
  - cbn [app] in H. destruct K; cbn [kw_unknown_path] in H; apply andb_true_iff in H; destruct H as [H _]; apply negb_true_iff, H.
  - inversion HP as [|? ? Hw HP']; subst. cbn [app kw_unknown_path] in H. apply andb_true_iff in H. destruct H as [_ H].
    apply mem_In in Hw. rewrite Hw in H. apply (IH K HP' H).
Qed.

Lemma sel_params_key_in tri sel es e t : In e es -> sel e = true -> In t (map fst (edge_params tri e)) ->
  In (e_name e :: t) (map fst (sel_params tri sel es)).
Proof.
  intros He Hs Ht. apply in_map_iff in Ht. destruct Ht as ([t' q] & E & Hin). cbn [fst] in E. subst t'.
  apply in_map_iff. exists (e_name e :: t, q). split; [reflexivity|]. unfold sel_params. apply in_flat_map.
  exists e. split; [exact He|]. rewrite Hs. unfold pre, prefix. apply in_map_iff. exists (t, q). split; [reflexivity | exact Hin].
Qed.
Lemma dists_items_key_in ds td s : In td ds -> In s (dist_kw_names [td]) -> In [fst td; s] (map fst (dists_items ds)).
Proof.
  intros Hin Hs. unfold dist_kw_names in Hs. cbn [flat_map] in Hs. rewrite app_nil_r in Hs.
  destruct td as [t d]. cbn [fst snd] in *. destruct d as [p|f kws]; [destruct Hs|].
  apply in_map_iff in Hs. destruct Hs as ([s' q] & E & Hk). cbn [fst] in E. subst s'.
  apply in_map_iff. exists ([t; s], q). split; [reflexivity|]. unfold dists_items. apply in_flat_map.
  exists (t, Param f kws). split; [exact Hin|]. cbn [fst snd dist_local]. unfold pre, prefix. apply in_map_iff.
  exists ([s], q). split; [reflexivity|]. apply in_map_iff. exists (s, q). split; [reflexivity | exact Hk].
Qed.
Lemma empty_reserved : In "" reserved.
Proof. cbn. tauto. Qed.

(** two keyword dicts are interchangeable for a leaf with the keys [Ks] when they agree on the
    names the leaf looks up: "arc_kind" and "kind" *)
Definition agree (Ks : list path) (k1 k2 : kwargs) : Prop :=
  NoDup (map fst k1) /\ NoDup (map fst k2) /\
  forall k, In k Ks -> kw_get k k1 = kw_get k k2 /\ kw_get (tl k) k1 = kw_get (tl k) k2.

Lemma leaf_sel_agree sel u a k1 k2 : u_names_ok u = true -> agree (map fst (u_sel_items sel u)) k1 k2 ->
  lift_graph u (graph_set_params_sel sel (u_graph u) a k1) = lift_graph u (graph_set_params_sel sel (u_graph u) a k2).
Proof.
  intros Hn (Hnd1 & Hnd2 & Hk). f_equal. unfold graph_set_params_sel.
  destruct (unflatten_and_split k1 (map e_name (filter sel (g_edges (u_graph u))))) as [s1 g1] eqn:Hu1.
  destruct (unflatten_and_split k2 (map e_name (filter sel (g_edges (u_graph u))))) as [s2 g2] eqn:Hu2.
  rewrite (set_edges_for_ext (g_tri (u_graph u)) sel s1 g1 s2 g2 (g_edges (u_graph u)) a); [reflexivity|].
  intros e t Hin Hs Ht.
  assert (He : In (e_name e) (map e_name (filter sel (g_edges (u_graph u))))) by (apply in_map, filter_In; split; assumption).
  rewrite (obj_kwargs_lookup k1 _ (e_name e) t s1 g1 (reserved_not_filter u sel "" Hn empty_reserved) Hu1 He).
  rewrite (obj_kwargs_lookup k2 _ (e_name e) t s2 g2 (reserved_not_filter u sel "" Hn empty_reserved) Hu2 He).
  destruct (Hk (e_name e :: t) (sel_params_key_in _ sel _ e t Hin Hs Ht)) as [H1 H2]. cbn [tl] in H2.
  unfold eff. rewrite !(kw_last_NoDup _ k1 Hnd1), !(kw_last_NoDup _ k2 Hnd2), H1, H2. reflexivity.
Qed.
Lemma leaf_dist_agree u a k1 k2 : u_names_ok u = true -> agree (map fst (u_dist_items u)) k1 k2 ->
  u_set_distribution_params u a k1 = u_set_distribution_params u a k2.
Proof.
  intros Hn (Hnd1 & Hnd2 & Hk). unfold u_set_distribution_params.
  destruct (unflatten_and_split k1 (map fst (u_dists u))) as [s1 g1] eqn:Hu1.
  destruct (unflatten_and_split k2 (map fst (u_dists u))) as [s2 g2] eqn:Hu2.
  rewrite (set_dists_for_ext (u_maxt u) s1 g1 s2 g2 (u_dists u) a); [reflexivity|].
  intros td s Hin Hs.
  rewrite (obj_kwargs_lookup k1 _ (fst td) [s] s1 g1 (in_reserved_not_tstage u "" Hn empty_reserved) Hu1) by (apply in_map, Hin).
  rewrite (obj_kwargs_lookup k2 _ (fst td) [s] s2 g2 (in_reserved_not_tstage u "" Hn empty_reserved) Hu2) by (apply in_map, Hin).
  destruct (Hk [fst td; s] (dists_items_key_in _ td s Hin Hs)) as [H1 H2]. cbn [tl] in H2.
  unfold eff. rewrite !(kw_last_NoDup _ k1 Hnd1), !(kw_last_NoDup _ k2 Hnd2), H1, H2. reflexivity.
Qed.

(** ** Two keyword dicts that bind the same values under every name the plumbing can resolve *)
Section Irrelevant.
  Variable m0 : midline.
  Hypothesis Hsafe : m_names_ok m0 = true.
  Notation like := (SafeMidline.like_ei m0).
  Notation St := (SafeMidline.St m0).
  Notation rt := (Forall (fun w : string => In w routing)).

  Definition Rl (k1 k2 : kwargs) : Prop :=
    NoDup (map fst k1) /\ NoDup (map fst k2) /\
    forall P K, rt P -> mid_resolvable m0 K = true -> kw_get (P ++ K) k1 = kw_get (P ++ K) k2.

  Lemma Rl_junk kw junk : NoDup (map fst (kw ++ junk)) -> mid_kw_unknown m0 junk = true -> Rl (kw ++ junk) kw.
  Proof.
    intros Hnd Hunk. split; [exact Hnd|]. split; [rewrite map_app in Hnd; apply (NoDup_app_l _ _ Hnd)|].
    intros P K HP HK. rewrite kw_get_app. destruct (kw_get (P ++ K) kw); [reflexivity|].
    destruct (kw_get (P ++ K) junk) as [v|] eqn:E; [exfalso | reflexivity].
    unfold mid_kw_unknown in Hunk. rewrite forallb_forall in Hunk.
    specialize (Hunk (P ++ K) (in_items_key _ _ _ (kw_get_Some_In _ _ _ E))).
    rewrite (unknown_path_spec _ P K HP Hunk) in HK. discriminate.
  Qed.
  Lemma Rl_obj X name k1 k2 s1 g1 s2 g2 : Rl k1 k2 -> (forall w, In w X -> In w routing) -> In name X ->
    unflatten_and_split k1 X = (s1, g1) -> unflatten_and_split k2 X = (s2, g2) -> Rl (obj_kwargs name s1 g1) (obj_kwargs name s2 g2).
  Proof.
    intros (Hnd1 & Hnd2 & HR) HX Hin Hu1 Hu2.
    assert (He : ~ In "" X) by (intros H; apply HX in H; cbn in H; intuition discriminate).
    split; [apply (obj_kwargs_NoDup k1 X); exact Hu1|]. split; [apply (obj_kwargs_NoDup k2 X); exact Hu2|].
    intros P K HP HK.
    rewrite (obj_kwargs_lookup k1 X name (P ++ K) s1 g1 He Hu1 Hin), (obj_kwargs_lookup k2 X name (P ++ K) s2 g2 He Hu2 Hin).
    unfold eff. rewrite !(kw_last_NoDup _ k1 Hnd1), !(kw_last_NoDup _ k2 Hnd2).
    change (name :: P ++ K) with ((name :: P) ++ K). rewrite (HR (name :: P) K (Forall_cons name (HX _ Hin) HP) HK), (HR P K HP HK). reflexivity.
  Qed.
  Lemma Rl_glob X k1 k2 s1 g1 s2 g2 : Rl k1 k2 -> ~ In "" X ->
    unflatten_and_split k1 X = (s1, g1) -> unflatten_and_split k2 X = (s2, g2) -> Rl g1 g2.
  Proof.
    intros (Hnd1 & Hnd2 & HR) He Hu1 Hu2.
    split; [apply (glob_lookup k1 X [] s1 g1 He Hu1)|]. split; [apply (glob_lookup k2 X [] s2 g2 He Hu2)|].
    intros P K HP HK. rewrite (proj1 (glob_lookup k1 X (P ++ K) s1 g1 He Hu1)), (proj1 (glob_lookup k2 X (P ++ K) s2 g2 He Hu2)).
    rewrite (kw_last_NoDup _ k1 Hnd1), (kw_last_NoDup _ k2 Hnd2), (HR P K HP HK). reflexivity.
  Qed.
  Lemma Rl_side k1 k2 i1 c1 i2 c2 : Rl k1 k2 -> side_kwargs k1 = (i1, c1) -> side_kwargs k2 = (i2, c2) -> Rl i1 i2 /\ Rl c1 c2.
  Proof.
    intros HR E1 E2. unfold side_kwargs in E1, E2.
    destruct (unflatten_and_split k1 ["ipsi"; "contra"]) as [s1 g1] eqn:Hu1. destruct (unflatten_and_split k2 ["ipsi"; "contra"]) as [s2 g2] eqn:Hu2.
    injection E1 as <- <-. injection E2 as <- <-.
    split; apply (Rl_obj ["ipsi"; "contra"] _ k1 k2 s1 g1 s2 g2 HR); try assumption; try (intros w Hw; cbn in Hw |- *; tauto); cbn; tauto.
  Qed.
  Lemma Rl_nested side k1 k2 s1 g1 s2 g2 ns1 ng1 ns2 ng2 : Rl k1 k2 -> (side = "noext" \/ side = "ext") ->
    unflatten_and_split k1 X4 = (s1, g1) -> unflatten_and_split k2 X4 = (s2, g2) ->
    unflatten_and_split (sub_kwargs side s1) ["contra"] = (ns1, ng1) -> unflatten_and_split (sub_kwargs side s2) ["contra"] = (ns2, ng2) ->
    Rl (obj_kwargs "contra" ns1 g1) (obj_kwargs "contra" ns2 g2).
  Proof.
    intros (Hnd1 & Hnd2 & HR) Hside Hu1 Hu2 Hn1 Hn2.
    assert (Hs : In side X4) by (destruct Hside as [-> | ->]; cbn; tauto).
    assert (Hsr : In side routing) by (destruct Hside as [-> | ->]; cbn; tauto).
    assert (Hcn : ~ In "" ["contra"]) by (cbn; intuition discriminate).
    destruct (glob_lookup k1 X4 [] s1 g1 not_empty_X4 Hu1) as [_ Hg1nd]. destruct (glob_lookup k2 X4 [] s2 g2 not_empty_X4 Hu2) as [_ Hg2nd].
    split; [apply kw_update_NoDup, Hg1nd|]. split; [apply kw_update_NoDup, Hg2nd|].
    intros P K HP HK. unfold obj_kwargs.
    destruct (sub_kwargs_lookup (sub_kwargs side s1) ["contra"] "contra" (P ++ K) ns1 ng1 Hcn Hn1 (or_introl eq_refl)) as [Hsub1 Hsnd1].
    destruct (sub_kwargs_lookup (sub_kwargs side s2) ["contra"] "contra" (P ++ K) ns2 ng2 Hcn Hn2 (or_introl eq_refl)) as [Hsub2 Hsnd2].
    destruct (sub_kwargs_lookup k1 X4 side ("contra" :: P ++ K) s1 g1 not_empty_X4 Hu1 Hs) as [Hss1 Hssnd1].
    destruct (sub_kwargs_lookup k2 X4 side ("contra" :: P ++ K) s2 g2 not_empty_X4 Hu2 Hs) as [Hss2 Hssnd2].
    rewrite !kw_get_update. rewrite (kw_get_rev_NoDup _ _ Hsnd1), (kw_get_rev_NoDup _ _ Hsnd2), Hsub1, Hsub2.
    rewrite (kw_last_NoDup _ _ Hssnd1), (kw_last_NoDup _ _ Hssnd2), Hss1, Hss2.
    rewrite (kw_last_NoDup _ k1 Hnd1), (kw_last_NoDup _ k2 Hnd2).
    change (side :: "contra" :: P ++ K) with ((side :: "contra" :: P) ++ K).
    rewrite (HR (side :: "contra" :: P) K) by (first [exact HK | constructor; [exact Hsr | constructor; [cbn; tauto | exact HP]]]).
    rewrite (proj1 (glob_lookup k1 X4 (P ++ K) s1 g1 not_empty_X4 Hu1)), (proj1 (glob_lookup k2 X4 (P ++ K) s2 g2 not_empty_X4 Hu2)).
    rewrite (kw_last_NoDup _ k1 Hnd1), (kw_last_NoDup _ k2 Hnd2), (HR P K HP HK). reflexivity.
  Qed.
  Lemma Rl_top k1 k2 K : Rl k1 k2 -> mid_resolvable m0 K = true -> kw_get K k1 = kw_get K k2.
  Proof. intros (_ & _ & HR) HK. apply (HR [] K (Forall_nil _) HK). Qed.

  Lemma leaf_key_res k : In k (mid_leaf_keys m0) -> mid_resolvable m0 k = true /\ mid_resolvable m0 (tl k) = true.
  Proof.
    intros H. unfold mid_resolvable. split.
    - rewrite (proj2 (memp_In k _) H). reflexivity.
    - apply orb_true_iff. left. apply orb_true_iff. left. apply orb_true_iff. right. apply memp_In. apply (in_map (@tl string)), H.
  Qed.
  Lemma Rl_agree Ks k1 k2 : incl Ks (mid_leaf_keys m0) -> Rl k1 k2 -> agree Ks k1 k2.
  Proof.
    intros Hi HR. split; [apply HR|]. split; [apply HR|]. intros k Hk. destruct (leaf_key_res k (Hi k Hk)) as [H1 H2].
    split; apply (Rl_top k1 k2 _ HR); assumption.
  Qed.
  Lemma like_T_incl u : like u -> incl (map fst (u_sel_items T u)) (mid_leaf_keys m0).
  Proof. intros (_ & HT & _) k Hk. change (u_sel_items T u) with (u_tumor_items u) in Hk. rewrite HT in Hk. unfold mid_leaf_keys. apply in_app_iff. left. exact Hk. Qed.
  Lemma like_L_incl u : like u -> incl (map fst (u_sel_items L u)) (mid_leaf_keys m0).
  Proof. intros (_ & _ & HL & _) k Hk. change (u_sel_items L u) with (u_lnl_items u) in Hk. rewrite HL in Hk. unfold mid_leaf_keys. rewrite !in_app_iff. right. left. exact Hk. Qed.
  Lemma like_D_incl u : like u -> incl (map fst (u_dist_items u)) (mid_leaf_keys m0).
  Proof. intros (_ & _ & _ & HD) k Hk. rewrite HD in Hk. unfold mid_leaf_keys. rewrite !in_app_iff. right. right. exact Hk. Qed.

  Lemma u_sel_irrel sel u a k1 k2 : (sel = T \/ sel = L) -> like u -> Rl k1 k2 ->
    lift_graph u (graph_set_params_sel sel (u_graph u) a k1) = lift_graph u (graph_set_params_sel sel (u_graph u) a k2).
  Proof.
    intros Hsel Hl HR.
    assert (Hi : incl (map fst (u_sel_items sel u)) (mid_leaf_keys m0)) by (destruct Hsel as [-> | ->]; [apply like_T_incl | apply like_L_incl]; exact Hl).
    apply (leaf_sel_agree sel u a k1 k2 (proj1 Hl) (Rl_agree _ k1 k2 Hi HR)).
  Qed.
  Lemma u_T_irrel u a k1 k2 : like u -> Rl k1 k2 -> u_set_tumor_spread_params u a k1 = u_set_tumor_spread_params u a k2.
  Proof. intros. apply (u_sel_irrel T); [left; reflexivity | assumption..]. Qed.
  Lemma u_L_irrel u a k1 k2 : like u -> Rl k1 k2 -> u_set_lnl_spread_params u a k1 = u_set_lnl_spread_params u a k2.
  Proof. intros. apply (u_sel_irrel L); [right; reflexivity | assumption..]. Qed.
  Lemma u_D_irrel u a k1 k2 : like u -> Rl k1 k2 -> u_set_distribution_params u a k1 = u_set_distribution_params u a k2.
  Proof. intros Hl HR. apply (leaf_dist_agree u a k1 k2 (proj1 Hl) (Rl_agree _ k1 k2 (like_D_incl u Hl) HR)). Qed.

  Lemma b_side_irrel sel sym b a k1 k2 : (sel = T \/ sel = L) -> like (b_ipsi b) -> like (b_contra b) -> Rl k1 k2 ->
    b_set_side_params sel sym b a k1 = b_set_side_params sel sym b a k2.
  Proof.
    intros Hsel Hi Hc HR. unfold b_set_side_params.
    destruct (side_kwargs k1) as [i1 c1] eqn:E1. destruct (side_kwargs k2) as [i2 c2] eqn:E2.
    destruct (Rl_side k1 k2 i1 c1 i2 c2 HR E1 E2) as [HRi HRc].
    rewrite (u_sel_irrel sel (b_ipsi b) a i1 i2 Hsel Hi HRi).
    destruct (lift_graph (b_ipsi b) (graph_set_params_sel sel (u_graph (b_ipsi b)) a i2)) as [i' [a1|]]; [|reflexivity].
    destruct sym; [reflexivity|].
    rewrite (u_sel_irrel sel (b_contra b) a1 c1 c2 Hsel Hc HRc). reflexivity.
  Qed.
  Lemma b_D_irrel b a k1 k2 : like (b_ipsi b) -> like (b_contra b) -> Rl k1 k2 ->
    b_set_distribution_params b a k1 = b_set_distribution_params b a k2.
  Proof.
    intros Hi Hc HR. unfold b_set_distribution_params.
    destruct (side_kwargs k1) as [i1 c1] eqn:E1. destruct (side_kwargs k2) as [i2 c2] eqn:E2.
    destruct (Rl_side k1 k2 i1 c1 i2 c2 HR E1 E2) as [HRi HRc].
    rewrite (u_D_irrel (b_ipsi b) a i1 i2 Hi HRi).
    destruct (u_set_distribution_params (b_ipsi b) a i2) as [i' [r|]]; [|reflexivity].
    rewrite (u_D_irrel (b_contra b) a c1 c2 Hc HRc). reflexivity.
  Qed.

  Lemma X4_routing w : In w X4 -> In w routing.
  Proof. cbn. tauto. Qed.
  Lemma mixing_res mk cur : St mk -> ml_mixing mk = Some cur -> mid_resolvable m0 ["mixing"] = true.
  Proof.
    intros HS E. destruct (proj1 (SafeMidline.St_mixing m0 mk HS) (ex_intro _ cur E)) as (q & Hq).
    unfold mid_resolvable. rewrite Hq. cbn [is_some andb]. rewrite path_eqb_refl, orb_true_r. reflexivity.
  Qed.

  Section Calls.
  Variables kw1 kw2 : kwargs.
  Hypothesis HR0 : Rl kw1 kw2.

  (** ** tumour spread *)
  Lemma m_T_irrel mk a : St mk -> m_set_tumor_spread_params mk a kw1 = m_set_tumor_spread_params mk a kw2.
  Proof.
    intros HS.
    destruct (SafeMidline.St_ext m0 Hsafe mk HS) as (_ & Hei & Hec & _).
    destruct (SafeMidline.St_noext m0 Hsafe mk HS) as (_ & Hni & Hnc & _).
    unfold m_set_tumor_spread_params. change ["ipsi"; "noext"; "ext"; "contra"] with X4.
    destruct (unflatten_and_split kw1 X4) as [s1 g1] eqn:Hu1. destruct (unflatten_and_split kw2 X4) as [s2 g2] eqn:Hu2.
    assert (Ho : forall name, In name X4 -> Rl (obj_kwargs name s1 g1) (obj_kwargs name s2 g2))
      by (intros name Hn; apply (Rl_obj X4 name kw1 kw2 s1 g1 s2 g2 HR0 X4_routing Hn Hu1 Hu2)).
    assert (Hi : Rl (obj_kwargs "ipsi" s1 g1) (obj_kwargs "ipsi" s2 g2)) by (apply Ho; cbn; tauto).
    (* central *)
    assert (Hc : match ml_central mk with
                 | None => (mk, true)
                 | Some c => let '(c', ok) := ok_of (b_set_tumor_spread_params c a (obj_kwargs "ipsi" s1 g1)) in (ml_with_central mk c', ok)
                 end
               = match ml_central mk with
                 | None => (mk, true)
                 | Some c => let '(c', ok) := ok_of (b_set_tumor_spread_params c a (obj_kwargs "ipsi" s2 g2)) in (ml_with_central mk c', ok)
                 end).
    { destruct (ml_central mk) as [c|] eqn:Ec; [|reflexivity].
      destruct (SafeMidline.St_central m0 Hsafe mk c HS Ec) as (c0 & _ & (_ & Hci & Hcc & _)).
      unfold b_set_tumor_spread_params.
      rewrite (b_side_irrel is_tumor_spread (b_symT c) c a _ _ (or_introl eq_refl) Hci Hcc Hi). reflexivity. }
    rewrite Hc.
    destruct (match ml_central mk with
              | None => (mk, true)
              | Some c => let '(c', ok) := ok_of (b_set_tumor_spread_params c a (obj_kwargs "ipsi" s2 g2)) in (ml_with_central mk c', ok)
              end) as [m1 ok1] eqn:Ec.
    destruct (central_step_frame mk (fun c => ok_of (b_set_tumor_spread_params c a (obj_kwargs "ipsi" s2 g2))) m1 ok1 Ec) as (He1 & Hn1 & Hm1 & _).
    destruct ok1; cbn [negb]; [|reflexivity].
    rewrite He1.
    rewrite (u_T_irrel (b_ipsi (ml_ext mk)) a _ _ Hei Hi).
    destruct (ok_of (u_set_tumor_spread_params (b_ipsi (ml_ext mk)) a (obj_kwargs "ipsi" s2 g2))) as [ei' ok2].
    destruct ok2; cbn [negb]; [|reflexivity].
    autorewrite with mlf. rewrite Hn1.
    rewrite (u_T_irrel (b_ipsi (ml_noext mk)) a _ _ Hni Hi).
    destruct (u_set_tumor_spread_params (b_ipsi (ml_noext mk)) a (obj_kwargs "ipsi" s2 g2)) as [ni' [a3|]]; [|reflexivity].
    autorewrite with mlf. rewrite Hm1.
    destruct (ml_mixing mk) as [cur|] eqn:Emix.
    - assert (Hcc : Rl (obj_kwargs "contra" s1 g1) (obj_kwargs "contra" s2 g2)) by (apply Ho; cbn; tauto).
      rewrite (u_T_irrel (b_contra (ml_noext mk)) a3 _ _ Hnc Hcc).
      destruct (u_set_tumor_spread_params (b_contra (ml_noext mk)) a3 (obj_kwargs "contra" s2 g2)) as [nc' [a4|]]; [|reflexivity].
      rewrite (Rl_top g1 g2 ["mixing"] (Rl_glob X4 kw1 kw2 s1 g1 s2 g2 HR0 not_empty_X4 Hu1 Hu2) (mixing_res mk cur HS Emix)).
      reflexivity.
    - destruct (unflatten_and_split (sub_kwargs "noext" s1) ["contra"]) as [ns1 ng1] eqn:Hn1'.
      destruct (unflatten_and_split (sub_kwargs "noext" s2) ["contra"]) as [ns2 ng2] eqn:Hn2'.
      pose proof (Rl_nested "noext" kw1 kw2 s1 g1 s2 g2 ns1 ng1 ns2 ng2 HR0 (or_introl eq_refl) Hu1 Hu2 Hn1' Hn2') as HRn.
      rewrite (u_T_irrel (b_contra (ml_noext mk)) a3 _ _ Hnc HRn).
      destruct (u_set_tumor_spread_params (b_contra (ml_noext mk)) a3 (obj_kwargs "contra" ns2 g2)) as [nc' [a4|]]; [|reflexivity].
      destruct (unflatten_and_split (sub_kwargs "ext" s1) ["contra"]) as [es1 eg1] eqn:He1'.
      destruct (unflatten_and_split (sub_kwargs "ext" s2) ["contra"]) as [es2 eg2] eqn:He2'.
      pose proof (Rl_nested "ext" kw1 kw2 s1 g1 s2 g2 es1 eg1 es2 eg2 HR0 (or_intror eq_refl) Hu1 Hu2 He1' He2') as HRe.
      autorewrite with mlf. rewrite ?He1.
      rewrite (u_T_irrel (b_contra (ml_ext mk)) a4 _ _ Hec HRe). reflexivity.
  Qed.

  (** ** LNL spread *)
  Definition leaves_like (mk : midline) : Prop := forall l u, ml_leaf mk l = Some u -> like u.
  Lemma leaves_like_with mk l u' : leaves_like mk -> ml_leaf mk l <> None -> like u' -> leaves_like (ml_with_leaf mk l u').
  Proof.
    intros HI Hl Hlk l' u Hu. destruct (leaf_id_dec l l') as [<-|Hne].
    - rewrite (ml_leaf_with_same mk l u' Hl) in Hu. injection Hu as <-. exact Hlk.
    - rewrite (ml_leaf_with_other mk l l' u' Hne) in Hu. apply (HI l' u Hu).
  Qed.
  Lemma lnl_block_irrel ls : forall mk a k1 k2, Rl k1 k2 -> leaves_like mk ->
    m_set_lnl_block mk ls a k1 = m_set_lnl_block mk ls a k2.
  Proof.
    induction ls as [|l r IH]; intros mk a k1 k2 HR HI; [reflexivity|]. cbn [m_set_lnl_block].
    destruct (ml_leaf mk l) as [u|] eqn:El; [|apply IH; assumption].
    rewrite (u_L_irrel u a k1 k2 (HI l u El) HR).
    pose proof (SafeProofs.sk_uni_set_lnl u a k2) as Hsk.
    destruct (u_set_lnl_spread_params u a k2) as [u' [a'|]]; [|reflexivity]. cbn [fst] in Hsk.
    destruct r as [|l2 r2]; [reflexivity|]. apply IH; try assumption.
    apply leaves_like_with; [exact HI | congruence | apply (SafeMidline.like_ei_sk m0 u' u (HI l u El) Hsk)].
  Qed.
  Lemma St_leaves_like mk : St mk -> leaves_like mk.
  Proof. intros HS l u Hl. apply (SafeMidline.St_leaf m0 Hsafe mk l u HS Hl). Qed.

  Lemma m_L_irrel mk a : St mk -> m_set_lnl_spread_params mk a kw1 = m_set_lnl_spread_params mk a kw2.
  Proof.
    intros HS. unfold m_set_lnl_spread_params. change ["ipsi"; "noext"; "ext"; "contra"] with X4.
    destruct (unflatten_and_split kw1 X4) as [s1 g1] eqn:Hu1. destruct (unflatten_and_split kw2 X4) as [s2 g2] eqn:Hu2.
    pose proof (St_leaves_like mk HS) as HI.
    destruct (ml_symL mk).
    - apply lnl_block_irrel; [apply (Rl_glob X4 kw1 kw2 s1 g1 s2 g2 HR0 not_empty_X4 Hu1 Hu2) | exact HI].
    - assert (Ho : forall name, In name X4 -> Rl (obj_kwargs name s1 g1) (obj_kwargs name s2 g2))
        by (intros name Hn; apply (Rl_obj X4 name kw1 kw2 s1 g1 s2 g2 HR0 X4_routing Hn Hu1 Hu2)).
      rewrite (lnl_block_irrel [LCentralIpsi; LExtIpsi; LNoextIpsi] mk a (obj_kwargs "ipsi" s1 g1) (obj_kwargs "ipsi" s2 g2))
        by (first [exact HI | apply Ho; cbn; tauto]).
      pose proof (SafeProofs.sk_mid_set_lnl_block [LCentralIpsi; LExtIpsi; LNoextIpsi] mk a (obj_kwargs "ipsi" s2 g2)) as Hsk.
      destruct (m_set_lnl_block mk [LCentralIpsi; LExtIpsi; LNoextIpsi] a (obj_kwargs "ipsi" s2 g2)) as [m1 [a1|]]; [|reflexivity].
      cbn [andthen fst] in Hsk |- *.
      apply lnl_block_irrel; [apply Ho; cbn; tauto|].
      apply St_leaves_like. unfold SafeMidline.St. rewrite Hsk. exact HS.
  Qed.

  (** ** distributions *)
  Lemma m_D_irrel mk a : St mk -> m_set_distribution_params mk a kw1 = m_set_distribution_params mk a kw2.
  Proof.
    intros HS.
    destruct (SafeMidline.St_ext m0 Hsafe mk HS) as (_ & Hei & Hec & _).
    destruct (SafeMidline.St_noext m0 Hsafe mk HS) as (_ & Hni & Hnc & _).
    unfold m_set_distribution_params. fold (XD mk).
    destruct (unflatten_and_split kw1 (XD mk)) as [s1 g1] eqn:Hu1. destruct (unflatten_and_split kw2 (XD mk)) as [s2 g2] eqn:Hu2.
    assert (Ho : forall name, In name (XD mk) -> Rl (obj_kwargs name s1 g1) (obj_kwargs name s2 g2))
      by (intros name Hn; apply (Rl_obj (XD mk) name kw1 kw2 s1 g1 s2 g2 HR0 (XD_routing mk) Hn Hu1 Hu2)).
    assert (Hxe : In "ext" (XD mk)) by apply XD_props.
    assert (Hxn : In "noext" (XD mk)) by (unfold XD; cbn; tauto).
    rewrite (b_D_irrel (ml_ext mk) a _ _ Hei Hec (Ho _ Hxe)).
    destruct (b_set_distribution_params (ml_ext mk) a (obj_kwargs "ext" s2 g2)) as [e' [r1|]]; [|reflexivity].
    autorewrite with mlf.
    rewrite (b_D_irrel (ml_noext mk) a _ _ Hni Hnc (Ho _ Hxn)).
    destruct (b_set_distribution_params (ml_noext mk) a (obj_kwargs "noext" s2 g2)) as [n' [r2|]]; [|reflexivity].
    autorewrite with mlf.
    assert (Hk : forall k, ml_unknown mk = Some k ->
              b_set_distribution_params k a (obj_kwargs "unknown" s1 g1) = b_set_distribution_params k a (obj_kwargs "unknown" s2 g2)).
    { intros k Ek. destruct (SafeMidline.St_unknown m0 Hsafe mk k HS Ek) as (k0 & _ & (_ & Hki & Hkc & _)).
      assert (Hxk : In "unknown" (XD mk)) by (unfold XD; rewrite Ek; destruct (ml_central mk); cbn; tauto).
      apply b_D_irrel; [exact Hki | exact Hkc | apply Ho, Hxk]. }
    destruct (ml_central mk) as [c|] eqn:Ec.
    - destruct (SafeMidline.St_central m0 Hsafe mk c HS Ec) as (c0 & _ & (_ & Hci & Hcc & _)).
      assert (Hxc : In "central" (XD mk)) by (unfold XD; rewrite Ec; cbn; tauto).
      rewrite (b_D_irrel c a _ _ Hci Hcc (Ho _ Hxc)).
      destruct (b_set_distribution_params c a (obj_kwargs "central" s2 g2)) as [c' [r3|]]; cbv beta iota; [|reflexivity].
      autorewrite with mlf. destruct (ml_unknown mk) as [k|] eqn:Ek; [|reflexivity].
      rewrite (Hk k eq_refl). reflexivity.
    - cbv beta iota. autorewrite with mlf. destruct (ml_unknown mk) as [k|] eqn:Ek; [|reflexivity].
      rewrite (Hk k eq_refl). reflexivity.
  Qed.

  (** ** the whole call *)
  Lemma m_chain_irrel mk a : St mk ->
    andthen (m_set_spread_params mk a kw1) (fun m1 a1 => m_set_distribution_params m1 a1 kw1)
    = andthen (m_set_spread_params mk a kw2) (fun m1 a1 => m_set_distribution_params m1 a1 kw2).
  Proof.
    intros HS. unfold m_set_spread_params. rewrite (m_T_irrel mk a HS).
    pose proof (SafeProofs.sk_mid_set_tumor mk a kw2) as HskT.
    destruct (m_set_tumor_spread_params mk a kw2) as [m1 [a1|]]; [|reflexivity]. cbn [andthen fst] in HskT |- *.
    assert (HS1 : St m1) by (unfold SafeMidline.St; rewrite HskT; exact HS).
    rewrite (m_L_irrel m1 a1 HS1).
    pose proof (SafeProofs.sk_mid_set_lnl m1 a1 kw2) as HskL.
    destruct (m_set_lnl_spread_params m1 a1 kw2) as [m2 [a2|]]; [|reflexivity]. cbn [andthen fst] in HskL |- *.
    apply m_D_irrel. unfold SafeMidline.St. rewrite HskL. exact HS1.
  Qed.
  Lemma midext_res : mid_resolvable m0 ["midext"; "prob"] = true.
  Proof. unfold mid_resolvable. rewrite path_eqb_refl, orb_true_r. reflexivity. Qed.
  Lemma m_set_params_irrel a : m_set_params m0 a kw1 = m_set_params m0 a kw2.
  Proof.
    unfold m_set_params. destruct (m_get_params m0 true) as [ps|]; [|reflexivity].
    destruct (popat a (Z.of_nat (length ps) - 1)) as [[before last] after].
    rewrite (Rl_top kw1 kw2 _ HR0 midext_res).
    destruct (match kw_get ["midext"; "prob"] kw2 with Some v => Some v | None => last end) as [v|]; cbn [option_map].
    - destruct (check_unit v) as [q|]; cbn [option_map]; [|reflexivity].
      apply m_chain_irrel. apply SafeProofs.sk_mid_with_midext.
    - apply m_chain_irrel. reflexivity.
  Qed.
  End Calls.
End Irrelevant.

Theorem mid_unknown_names_dropped : C10_mid_unknown_names_dropped_stmt.
Proof.
  intros m a kw junk Hsafe Hnd Hunk. apply (m_set_params_irrel m Hsafe (kw ++ junk) kw (Rl_junk m kw junk Hnd Hunk)).
Qed.
Theorem mid_unknown_names_ignored : C10_mid_unknown_names_ignored_stmt.
Proof. intros m a kw Hsafe Hnd Hunk. apply (mid_unknown_names_dropped m a [] kw Hsafe Hnd Hunk). Qed.
Theorem mid_unknown_names_ignored_got : C10_mid_unknown_names_ignored_got_stmt.
Proof.
  intros m a kw Hsafe Hnd Hunk r1 r2. subst r1 r2. rewrite (mid_unknown_names_ignored m a kw Hsafe Hnd Hunk). split; reflexivity.
Qed.

(** * 3. Surplus positional arguments *)
(** the result of a setter whose argument list is extended by [extra] behind the arguments it
    consumes: the same object, [extra] appended to the returned rest *)
Definition ext_res {S} (extra : args) (r : S * option args) : S * option args :=
  (fst r, option_map (fun x => x ++ extra) (snd r)).
Lemma ok_of_ext {S} extra (r : S * option args) : ok_of (ext_res extra r) = ok_of r.
Proof. destruct r as [s [x|]]; reflexivity. Qed.
Lemma skipn_app_le {A} n (a extra : list A) : n <= length a -> skipn n (a ++ extra) = skipn n a ++ extra.
Proof. intros H. rewrite skipn_app. replace (n - length a) with 0 by lia. reflexivity. Qed.
Lemma plan_args_app lk ps : forall a extra, length ps <= length a -> plan lk ps (a ++ extra) = plan lk ps a.
Proof.
  induction ps as [|[k old] r IH]; intros a extra Hl; [reflexivity|]. destruct a as [|x a]; [cbn in Hl; lia|].
  cbn [plan app hd_error tl]. rewrite IH by (cbn in Hl; lia). reflexivity.
Qed.

(** ** Edges *)
Lemma edge_set_params_app tri e a extra kw : length (edge_params tri e) <= length a ->
  edge_set_params tri e (a ++ extra) kw = ext_res extra (edge_set_params tri e a kw).
Proof.
  rewrite edge_params_cases. unfold edge_set_params, ext_res.
  destruct (is_growth e) eqn:Eg.
  - rewrite (growth_no_micro tri e Eg). cbn [length]. intros Hl. destruct a as [|x a]; [cbn in Hl; lia|]. cbn [app popfirst].
    destruct (check_unit _); reflexivity.
  - destruct (has_micro tri e); cbn [length]; intros Hl.
    + destruct a as [|x [|y a]]; try (cbn in Hl; lia). cbn [app popfirst].
      destruct (check_unit _); [|reflexivity]. destruct (check_unit _); reflexivity.
    + destruct a as [|x a]; [cbn in Hl; lia|]. cbn [app popfirst]. destruct (check_unit _); reflexivity.
Qed.
Lemma edge_set_params_rest tri e a kw e' a' : edge_set_params tri e a kw = (e', Some a') -> a' = skipn (length (edge_params tri e)) a.
Proof.
  intros H. destruct (all_unit (plan (fun t => kw_get t kw) (edge_params tri e) a)) as [qs|] eqn:E.
  - rewrite (edge_set_params_ok tri e a kw qs E) in H. injection H as _ <-. reflexivity.
  - pose proof (edge_set_params_fail tri e a kw E) as Hf. rewrite H in Hf. discriminate.
Qed.
Lemma set_edges_for_app tri sel split glob es : forall a extra, length (sel_params tri sel es) <= length a ->
  set_edges_for tri sel split glob es (a ++ extra) = ext_res extra (set_edges_for tri sel split glob es a).
Proof.
  induction es as [|e r IH]; intros a extra Hl; [reflexivity|]. rewrite sel_params_cons, app_length in Hl. cbn [set_edges_for].
  destruct (sel e).
  - rewrite pre_length in Hl. rewrite edge_set_params_app by lia.
    destruct (edge_set_params tri e a (obj_kwargs (e_name e) split glob)) as [e' [a'|]] eqn:E; unfold ext_res at 1; cbn [fst snd option_map]; [|reflexivity].
    apply edge_set_params_rest in E. rewrite IH by (rewrite E, skipn_length; lia).
    destruct (set_edges_for tri sel split glob r a') as [r' o]. reflexivity.
  - cbn [length] in Hl. rewrite IH by lia. destruct (set_edges_for tri sel split glob r a) as [r' o]. reflexivity.
Qed.
Lemma u_sel_app sel u a extra kwL : length (u_sel_items sel u) <= length a ->
  lift_graph u (graph_set_params_sel sel (u_graph u) (a ++ extra) kwL) = ext_res extra (lift_graph u (graph_set_params_sel sel (u_graph u) a kwL)).
Proof.
  intros Hl. unfold lift_graph, graph_set_params_sel.
  destruct (unflatten_and_split kwL (map e_name (filter sel (g_edges (u_graph u))))) as [split glob].
  rewrite set_edges_for_app by exact Hl.
  destruct (set_edges_for (g_tri (u_graph u)) sel split glob (g_edges (u_graph u)) a) as [es o]. reflexivity.
Qed.

(** ** Distributions *)
Lemma dist_set_params_app maxt d a extra kw : length (dist_local d) <= length a ->
  dist_set_params maxt d (a ++ extra) kw = ext_res extra (dist_set_params maxt d a kw).
Proof.
  destruct d as [p|f kws]; [reflexivity|]. cbn [dist_local dist_set_params]. rewrite map_length. intros Hl.
  rewrite !dist_assign_spec. rewrite plan_args_app by (rewrite map_length; exact Hl). rewrite skipn_app_le by exact Hl.
  destruct (all_vals _) as [kws'|]; [|reflexivity]. destruct (fam_weights f maxt kws'); reflexivity.
Qed.
Lemma dist_set_params_rest maxt d a kw d' a' : dist_set_params maxt d a kw = (d', Some a') -> a' = skipn (length (dist_local d)) a.
Proof.
  intros H. pose proof (dist_set_params_spec maxt d a kw) as Hs. destruct (dist_put maxt d _) as [d''|].
  - rewrite Hs in H. injection H as _ <-. reflexivity.
  - rewrite H in Hs. discriminate.
Qed.
Lemma set_dists_for_app maxt split glob ds : forall a extra, length (dists_items ds) <= length a ->
  set_dists_for maxt split glob ds (a ++ extra) = ext_res extra (set_dists_for maxt split glob ds a).
Proof.
  induction ds as [|[t d] r IH]; intros a extra Hl; [reflexivity|].
  cbn [dists_items flat_map fst snd] in Hl. fold (dists_items r) in Hl. rewrite app_length, pre_length in Hl. cbn [set_dists_for].
  destruct d as [p|f kws].
  - cbn [dist_local length] in Hl. rewrite IH by lia. destruct (set_dists_for maxt split glob r a) as [r' o]. reflexivity.
  - rewrite dist_set_params_app by lia.
    destruct (dist_set_params maxt (Param f kws) a (obj_kwargs t split glob)) as [d' [a'|]] eqn:E; unfold ext_res at 1; cbn [fst snd option_map]; [|reflexivity].
    apply dist_set_params_rest in E. rewrite IH by (rewrite E, skipn_length; lia).
    destruct (set_dists_for maxt split glob r a') as [r' o]. reflexivity.
Qed.
Lemma u_D_app u a extra kwL : length (u_dist_items u) <= length a ->
  u_set_distribution_params u (a ++ extra) kwL = ext_res extra (u_set_distribution_params u a kwL).
Proof.
  intros Hl. unfold u_set_distribution_params. destruct (unflatten_and_split kwL (map fst (u_dists u))) as [split glob].
  rewrite set_dists_for_app by exact Hl. destruct (set_dists_for (u_maxt u) split glob (u_dists u) a) as [ds o]. reflexivity.
Qed.
Lemma u_D_rest u a kw u' r : u_names_ok u = true -> u_set_distribution_params u a kw = (u', Some r) -> r = skipn (length (u_dist_items u)) a.
Proof.
  intros Hn H. pose proof (u_set_dist_spec u kw Hn a) as Hs. destruct (dists_put _ _ _) as [ds'|].
  - rewrite Hs in H. injection H as _ <-. reflexivity.
  - rewrite H in Hs. discriminate.
Qed.

(** ** Bilateral steps *)
Lemma b_side_app sel (sym : bool) b a extra kw : u_names_ok (b_ipsi b) = true ->
  length (u_sel_items sel (b_ipsi b)) + (if sym then 0 else length (u_sel_items sel (b_contra b))) <= length a ->
  b_set_side_params sel sym b (a ++ extra) kw = ext_res extra (b_set_side_params sel sym b a kw).
Proof.
  intros Hn Hl. unfold b_set_side_params. destruct (side_kwargs kw) as [ikw ckw].
  rewrite u_sel_app by lia.
  destruct (lift_graph (b_ipsi b) (graph_set_params_sel sel (u_graph (b_ipsi b)) a ikw)) as [i' [a1|]] eqn:E; unfold ext_res at 1; cbn [fst snd option_map]; [|reflexivity].
  destruct (leaf_step_inv sel (b_ipsi b) a ikw i' a1 Hn E) as (qs & _ & _ & ->).
  destruct sym.
  - destruct (u_sync sel i' (b_contra b)) as [c' ok]. destruct ok; reflexivity.
  - rewrite u_sel_app by (rewrite skipn_length; lia).
    destruct (lift_graph (b_contra b) (graph_set_params_sel sel (u_graph (b_contra b)) (skipn (length (u_sel_items sel (b_ipsi b))) a) ckw)) as [c' o].
    reflexivity.
Qed.
Lemma b_D_app b a extra kw : length (u_dist_items (b_ipsi b)) <= length a -> length (u_dist_items (b_contra b)) <= length a ->
  b_set_distribution_params b (a ++ extra) kw = ext_res extra (b_set_distribution_params b a kw).
Proof.
  intros Hi Hc. unfold b_set_distribution_params. destruct (side_kwargs kw) as [ikw ckw].
  rewrite !u_D_app by assumption.
  destruct (u_set_distribution_params (b_ipsi b) a ikw) as [i' [r|]]; unfold ext_res at 1; cbn [fst snd option_map]; [|reflexivity].
  destruct (u_set_distribution_params (b_contra b) a ckw) as [c' o]. reflexivity.
Qed.
Lemma b_D_rest b a kw b' r : u_names_ok (b_contra b) = true -> b_set_distribution_params b a kw = (b', Some r) ->
  r = skipn (length (u_dist_items (b_contra b))) a.
Proof.
  intros Hn H. unfold b_set_distribution_params in H. destruct (side_kwargs kw) as [ikw ckw].
  destruct (u_set_distribution_params (b_ipsi b) a ikw) as [i' [ri|]]; [|discriminate].
  destruct (u_set_distribution_params (b_contra b) a ckw) as [c' o] eqn:E. injection H as _ ->.
  apply (u_D_rest (b_contra b) a ckw c' r Hn E).
Qed.

(** ** The Midline steps *)
Section Surplus.
  Variable m0 : midline.
  Hypothesis Hsafe : m_names_ok m0 = true.
  Notation like := (SafeMidline.like_ei m0).
  Notation St := (SafeMidline.St m0).
  Definition nT : nat := length (SafeMidline.TK m0).
  Definition nL : nat := length (SafeMidline.LK m0).
  Definition nD : nat := length (SafeMidline.DK m0).
  Lemma like_len u : like u -> length (u_sel_items T u) = nT /\ length (u_sel_items L u) = nL /\ length (u_dist_items u) = nD.
  Proof.
    intros (_ & HT & HL & HD). unfold nT, nL, nD. rewrite <- HT, <- HL, <- HD, !map_length. repeat split.
  Qed.
  Definition needT (mk : midline) : nat := match ml_mixing mk with Some _ => nT + nT + 1 | None => nT + nT + nT end.

  Lemma m_T_app mk a extra kw : St mk -> needT mk <= length a ->
    m_set_tumor_spread_params mk (a ++ extra) kw = ext_res extra (m_set_tumor_spread_params mk a kw).
  Proof.
    intros HS Hl.
    destruct (SafeMidline.St_ext m0 Hsafe mk HS) as (_ & Hei & Hec & _).
    destruct (SafeMidline.St_noext m0 Hsafe mk HS) as (_ & Hni & Hnc & _).
    destruct (like_len _ Hei) as (Lei & _). destruct (like_len _ Hec) as (Lec & _).
    destruct (like_len _ Hni) as (Lni & _). destruct (like_len _ Hnc) as (Lnc & _).
    assert (Hl2 : nT + nT <= length a) by (unfold needT in Hl; destruct (ml_mixing mk); lia).
    unfold m_set_tumor_spread_params. destruct (unflatten_and_split kw ["ipsi"; "noext"; "ext"; "contra"]) as [split glob].
    set (ikw := obj_kwargs "ipsi" split glob).
    assert (Hc : match ml_central mk with
                 | None => (mk, true)
                 | Some c => let '(c', ok) := ok_of (b_set_tumor_spread_params c (a ++ extra) ikw) in (ml_with_central mk c', ok)
                 end
               = match ml_central mk with
                 | None => (mk, true)
                 | Some c => let '(c', ok) := ok_of (b_set_tumor_spread_params c a ikw) in (ml_with_central mk c', ok)
                 end).
    { destruct (ml_central mk) as [c|] eqn:Ec; [|reflexivity].
      destruct (SafeMidline.St_central m0 Hsafe mk c HS Ec) as (c0 & _ & (_ & Hci & Hcc & _)).
      destruct (like_len _ Hci) as (Lci & _). destruct (like_len _ Hcc) as (Lcc & _).
      unfold b_set_tumor_spread_params. rewrite b_side_app, ok_of_ext; [reflexivity | apply Hci |].
      change (u_sel_items is_tumor_spread) with (u_sel_items T). rewrite Lci, Lcc. destruct (b_symT c); lia. }
    rewrite Hc.
    destruct (match ml_central mk with
              | None => (mk, true)
              | Some c => let '(c', ok) := ok_of (b_set_tumor_spread_params c a ikw) in (ml_with_central mk c', ok)
              end) as [m1 ok1] eqn:Ec.
    destruct (central_step_frame mk (fun c => ok_of (b_set_tumor_spread_params c a ikw)) m1 ok1 Ec) as (He1 & Hn1 & Hm1 & _).
    destruct ok1; cbn [negb]; [|reflexivity].
    rewrite He1. unfold u_set_tumor_spread_params. change is_tumor_spread with T.
    rewrite (u_sel_app T (b_ipsi (ml_ext mk)) a extra ikw) by lia. rewrite ok_of_ext.
    destruct (ok_of (lift_graph (b_ipsi (ml_ext mk)) (graph_set_params_sel T (u_graph (b_ipsi (ml_ext mk))) a ikw))) as [ei' ok2].
    destruct ok2; cbn [negb]; [|reflexivity].
    autorewrite with mlf. rewrite Hn1.
    rewrite (u_sel_app T (b_ipsi (ml_noext mk)) a extra ikw) by lia.
    destruct (lift_graph (b_ipsi (ml_noext mk)) (graph_set_params_sel T (u_graph (b_ipsi (ml_noext mk))) a ikw)) as [ni' [a3|]] eqn:E3;
      unfold ext_res at 1; cbn [fst snd option_map]; [|reflexivity].
    destruct (leaf_step_inv T _ a ikw ni' a3 (proj1 Hni) E3) as (q3 & _ & _ & ->). rewrite Lni.
    autorewrite with mlf. rewrite Hm1.
    destruct (ml_mixing mk) as [cur|] eqn:Emix.
    - unfold needT in Hl. rewrite Emix in Hl.
      rewrite (u_sel_app T (b_contra (ml_noext mk)) (skipn nT a) extra) by (rewrite skipn_length; lia).
      destruct (lift_graph (b_contra (ml_noext mk)) (graph_set_params_sel T (u_graph (b_contra (ml_noext mk))) (skipn nT a) (obj_kwargs "contra" split glob)))
        as [nc' [a4|]] eqn:E4; unfold ext_res at 1; cbn [fst snd option_map]; [|reflexivity].
      destruct (leaf_step_inv T _ _ _ nc' a4 (proj1 Hnc) E4) as (q4 & _ & _ & ->). rewrite Lnc.
      destruct (skipn nT (skipn nT a)) as [|x a5] eqn:E5.
      { exfalso. apply (f_equal (@length _)) in E5. rewrite !skipn_length in E5. cbn in E5. lia. }
      cbn [app popfirst]. destruct (check_unit _); [|reflexivity].
      destruct (ok_of _) as [ec' ok6]. destruct ok6; reflexivity.
    - unfold needT in Hl. rewrite Emix in Hl.
      destruct (unflatten_and_split (sub_kwargs "noext" split) ["contra"]) as [nsplit ng].
      rewrite (u_sel_app T (b_contra (ml_noext mk)) (skipn nT a) extra) by (rewrite skipn_length; lia).
      destruct (lift_graph (b_contra (ml_noext mk)) (graph_set_params_sel T (u_graph (b_contra (ml_noext mk))) (skipn nT a) (obj_kwargs "contra" nsplit glob)))
        as [nc' [a4|]] eqn:E4; unfold ext_res at 1; cbn [fst snd option_map]; [|reflexivity].
      destruct (leaf_step_inv T _ _ _ nc' a4 (proj1 Hnc) E4) as (q4 & _ & _ & ->). rewrite Lnc.
      destruct (unflatten_and_split (sub_kwargs "ext" split) ["contra"]) as [esplit eg].
      autorewrite with mlf. rewrite ?He1.
      rewrite (u_sel_app T (b_contra (ml_ext mk)) (skipn nT (skipn nT a)) extra) by (rewrite !skipn_length; lia).
      destruct (lift_graph (b_contra (ml_ext mk)) _) as [ec' o5]. reflexivity.
  Qed.

  Lemma St_set_ok mk : St mk -> mid_set_ok mk = true.
  Proof. intros HS. apply safe_set_ok_mid, (SafeMidline.m_names_ok_sk mk m0 HS Hsafe). Qed.
  Lemma m_T_rest mk a kw m1 a1 : St mk -> m_set_tumor_spread_params mk a kw = (m1, Some a1) -> a1 = skipn (needT mk) a /\ St m1.
  Proof.
    intros HS H. split.
    - destruct (SafeMidline.St_ext m0 Hsafe mk HS) as (_ & Hei & Hec & _).
      destruct (SafeMidline.St_noext m0 Hsafe mk HS) as (_ & Hni & Hnc & _).
      destruct (like_len _ Hei) as (Lei & _). destruct (like_len _ Hec) as (Lec & _). destruct (like_len _ Hnc) as (Lnc & _).
      destruct (unflatten_and_split kw X4) as [split glob] eqn:Hu. unfold needT.
      destruct (ml_mixing mk) as [cur|] eqn:Emix.
      + destruct (m_T_inv_mix mk a kw split glob (St_set_ok mk HS) Hu cur m1 a1 Emix H) as (qI & qC & mix & qE & _ & _ & _ & _ & _ & _ & _ & _ & _ & _ & _ & ->).
        unfold ml_ei, ml_nc. change (u_tumor_items ?u) with (u_sel_items T u). rewrite Lei, Lnc. reflexivity.
      + destruct (m_T_inv_nomix mk a kw split glob (St_set_ok mk HS) Hu m1 a1 Emix H)
          as (qI & qC & qE & nsplit & esplit & ng & eg & _ & _ & _ & _ & _ & _ & _ & _ & _ & _ & _ & _ & _ & ->).
        unfold ml_ei, ml_nc, ml_ec. change (u_tumor_items ?u) with (u_sel_items T u). rewrite Lei, Lnc, Lec. reflexivity.
    - pose proof (SafeProofs.sk_mid_set_tumor mk a kw) as Hsk. rewrite H in Hsk. cbn [fst] in Hsk. unfold SafeMidline.St. rewrite Hsk. exact HS.
  Qed.

  (** LNL spread *)
  Definition needL (mk : midline) : nat := if ml_symL mk then nL else nL + nL.
  Lemma lnl_block_app ls : forall mk a extra kwL, leaves_like m0 mk -> nL <= length a ->
    m_set_lnl_block mk ls (a ++ extra) kwL = ext_res extra (m_set_lnl_block mk ls a kwL).
  Proof.
    induction ls as [|l r IH]; intros mk a extra kwL HI Hl; [reflexivity|]. cbn [m_set_lnl_block].
    destruct (ml_leaf mk l) as [u|] eqn:El; [|apply IH; assumption].
    destruct (like_len u (HI l u El)) as (_ & Lu & _).
    unfold u_set_lnl_spread_params. change sel_lnl with L. rewrite (u_sel_app L u a extra kwL) by lia.
    pose proof (SafeProofs.sk_uni_graph_set L u a kwL) as Hsk.
    destruct (lift_graph u (graph_set_params_sel L (u_graph u) a kwL)) as [u' [a'|]]; unfold ext_res at 1; cbn [fst snd option_map]; [|reflexivity].
    cbn [fst] in Hsk. destruct r as [|l2 r2]; [reflexivity|]. apply IH; [|exact Hl].
    apply leaves_like_with; [exact HI | congruence | apply (SafeMidline.like_ei_sk m0 u' u (HI l u El) Hsk)].
  Qed.
  Lemma m_L_app mk a extra kw : St mk -> needL mk <= length a ->
    m_set_lnl_spread_params mk (a ++ extra) kw = ext_res extra (m_set_lnl_spread_params mk a kw).
  Proof.
    intros HS Hl. unfold m_set_lnl_spread_params, needL in *.
    destruct (unflatten_and_split kw ["ipsi"; "noext"; "ext"; "contra"]) as [split glob].
    pose proof (St_leaves_like m0 Hsafe mk HS) as HI.
    destruct (ml_symL mk).
    - apply lnl_block_app; assumption.
    - rewrite lnl_block_app by (try exact HI; lia).
      destruct (m_set_lnl_block mk [LCentralIpsi; LExtIpsi; LNoextIpsi] a (obj_kwargs "ipsi" split glob)) as [m1 [a1|]] eqn:B1;
        unfold ext_res at 1; cbn [fst snd option_map andthen]; [|reflexivity].
      assert (Hnd1 : NoDup [LCentralIpsi; LExtIpsi; LNoextIpsi]) by (repeat constructor; cbn; intuition discriminate).
      destruct (lnl_block_inv _ Hnd1 mk a _ m1 a1 B1) as (_ & _ & _ & P4).
      pose proof (P4 [LCentralIpsi; LExtIpsi] LNoextIpsi (b_ipsi (ml_noext mk)) eq_refl eq_refl) as Q4.
      destruct (SafeMidline.St_noext m0 Hsafe mk HS) as (_ & Hni & _).
      destruct (u_set_lnl_spread_params (b_ipsi (ml_noext mk)) a (obj_kwargs "ipsi" split glob)) as [ni' [r4|]] eqn:E4; [|discriminate].
      cbn [snd] in Q4. injection Q4 as ->.
      destruct (u_set_lnl_inv _ a _ ni' a1 (proj1 Hni) E4) as (qN & _ & _ & ->).
      destruct (like_len _ Hni) as (_ & Lni & _). change (u_lnl_items ?u) with (u_sel_items L u). rewrite Lni.
      apply lnl_block_app; [|rewrite skipn_length; lia].
      apply (St_leaves_like m0 Hsafe). pose proof (SafeProofs.sk_mid_set_lnl_block [LCentralIpsi; LExtIpsi; LNoextIpsi] mk a (obj_kwargs "ipsi" split glob)) as Hsk.
      rewrite B1 in Hsk. cbn [fst] in Hsk. unfold SafeMidline.St. rewrite Hsk. exact HS.
  Qed.
  Lemma m_L_rest mk a kw m2 a2 : St mk -> m_set_lnl_spread_params mk a kw = (m2, Some a2) -> a2 = skipn (needL mk) a /\ St m2.
  Proof.
    intros HS H. split.
    - destruct (SafeMidline.St_ext m0 Hsafe mk HS) as (_ & Hei & _).
      destruct (SafeMidline.St_noext m0 Hsafe mk HS) as (_ & _ & Hnc & _).
      destruct (like_len _ Hei) as (_ & Lei & _). destruct (like_len _ Hnc) as (_ & Lnc & _).
      destruct (unflatten_and_split kw X4) as [split glob] eqn:Hu.
      destruct (m_L_inv mk a kw split glob (St_set_ok mk HS) Hu m2 a2 H) as (qI & qE & qN & _ & _ & _ & _ & _ & _ & _ & ->).
      unfold argsC, needL, ml_ei, ml_nc. change (u_lnl_items ?u) with (u_sel_items L u). rewrite Lei, Lnc.
      destruct (ml_symL mk); [reflexivity | apply skipn_skipn].
    - pose proof (SafeProofs.sk_mid_set_lnl mk a kw) as Hsk. rewrite H in Hsk. cbn [fst] in Hsk. unfold SafeMidline.St. rewrite Hsk. exact HS.
  Qed.

  (** distributions *)
  Lemma m_D_app mk a extra kw : St mk -> nD <= length a ->
    m_set_distribution_params mk (a ++ extra) kw = ext_res extra (m_set_distribution_params mk a kw).
  Proof.
    intros HS Hl.
    assert (Hb : forall b b0, SafeMidline.bi_facts m0 b b0 -> length (u_dist_items (b_ipsi b)) <= length a /\ length (u_dist_items (b_contra b)) <= length a).
    { intros b b0 (_ & Hi & Hc & _). destruct (like_len _ Hi) as (_ & _ & Li). destruct (like_len _ Hc) as (_ & _ & Lc). lia. }
    destruct (Hb _ _ (SafeMidline.St_ext m0 Hsafe mk HS)) as [Le1 Le2]. destruct (Hb _ _ (SafeMidline.St_noext m0 Hsafe mk HS)) as [Ln1 Ln2].
    unfold m_set_distribution_params.
    destruct (unflatten_and_split kw _) as [split glob].
    rewrite (b_D_app (ml_ext mk) a extra _ Le1 Le2).
    destruct (b_set_distribution_params (ml_ext mk) a (obj_kwargs "ext" split glob)) as [e' [r1|]]; unfold ext_res at 1; cbn [fst snd option_map]; [|reflexivity].
    autorewrite with mlf. rewrite (b_D_app (ml_noext mk) a extra _ Ln1 Ln2).
    destruct (b_set_distribution_params (ml_noext mk) a (obj_kwargs "noext" split glob)) as [n' [r2|]]; unfold ext_res at 1; cbn [fst snd option_map]; [|reflexivity].
    autorewrite with mlf.
    assert (Hk : forall k, ml_unknown mk = Some k ->
              b_set_distribution_params k (a ++ extra) (obj_kwargs "unknown" split glob) = ext_res extra (b_set_distribution_params k a (obj_kwargs "unknown" split glob))).
    { intros k Ek. destruct (SafeMidline.St_unknown m0 Hsafe mk k HS Ek) as (k0 & _ & Hf). destruct (Hb _ _ Hf) as [L1 L2]. apply b_D_app; assumption. }
    destruct (ml_central mk) as [c|] eqn:Ec.
    - destruct (SafeMidline.St_central m0 Hsafe mk c HS Ec) as (c0 & _ & Hf). destruct (Hb _ _ Hf) as [Lc1 Lc2].
      rewrite (b_D_app c a extra _ Lc1 Lc2).
      destruct (b_set_distribution_params c a (obj_kwargs "central" split glob)) as [c' [r3|]]; unfold ext_res at 1; cbn [fst snd option_map]; [|reflexivity].
      autorewrite with mlf. destruct (ml_unknown mk) as [k|] eqn:Ek; [|reflexivity].
      rewrite (Hk k eq_refl). destruct (b_set_distribution_params k a (obj_kwargs "unknown" split glob)) as [k' o]. reflexivity.
    - cbv beta iota. autorewrite with mlf. destruct (ml_unknown mk) as [k|] eqn:Ek; [|reflexivity].
      rewrite (Hk k eq_refl). destruct (b_set_distribution_params k a (obj_kwargs "unknown" split glob)) as [k' o]. reflexivity.
  Qed.
  Lemma m_D_rest mk a kw m' r : St mk -> m_set_distribution_params mk a kw = (m', Some r) -> r = skipn nD a.
  Proof.
    intros HS H.
    assert (Hb : forall b b0 b' x, SafeMidline.bi_facts m0 b b0 -> b_set_distribution_params b a x = (b', Some r) -> r = skipn nD a).
    { intros b b0 b' x (_ & _ & Hc & _) E. destruct (like_len _ Hc) as (_ & _ & Lc). rewrite <- Lc. apply (b_D_rest b a x b' r (proj1 Hc) E). }
    unfold m_set_distribution_params in H. destruct (unflatten_and_split kw _) as [split glob].
    destruct (b_set_distribution_params (ml_ext mk) a (obj_kwargs "ext" split glob)) as [e' [r1|]]; [|discriminate].
    autorewrite with mlf in H.
    destruct (b_set_distribution_params (ml_noext mk) a (obj_kwargs "noext" split glob)) as [n' [r2|]] eqn:E2; [|discriminate].
    autorewrite with mlf in H.
    destruct (ml_central mk) as [c|] eqn:Ec.
    - destruct (SafeMidline.St_central m0 Hsafe mk c HS Ec) as (c0 & _ & Hf).
      destruct (b_set_distribution_params c a (obj_kwargs "central" split glob)) as [c' [r3|]] eqn:E3; cbv beta iota in H; [|discriminate].
      autorewrite with mlf in H. destruct (ml_unknown mk) as [k|] eqn:Ek.
      + destruct (SafeMidline.St_unknown m0 Hsafe mk k HS Ek) as (k0 & _ & Hfk).
        destruct (b_set_distribution_params k a (obj_kwargs "unknown" split glob)) as [k' o] eqn:E4. injection H as _ ->.
        apply (Hb _ _ _ _ Hfk E4).
      + injection H as _ <-. apply (Hb _ _ _ _ Hf E3).
    - cbv beta iota in H. autorewrite with mlf in H. destruct (ml_unknown mk) as [k|] eqn:Ek.
      + destruct (SafeMidline.St_unknown m0 Hsafe mk k HS Ek) as (k0 & _ & Hfk).
        destruct (b_set_distribution_params k a (obj_kwargs "unknown" split glob)) as [k' o] eqn:E4. injection H as _ ->.
        apply (Hb _ _ _ _ Hfk E4).
      + injection H as _ <-. apply (Hb _ _ _ _ (SafeMidline.St_noext m0 Hsafe mk HS) E2).
  Qed.

  (** the chain *)
  Lemma need_St mk m1 : St mk -> St m1 -> needT m1 = needT mk /\ needL m1 = needL mk.
  Proof.
    intros H1 H2. unfold needT, needL. rewrite (SafeMidline.St_symL m0 mk H1), (SafeMidline.St_symL m0 m1 H2). split; [|reflexivity].
    pose proof (SafeMidline.St_mixing m0 mk H1) as A. pose proof (SafeMidline.St_mixing m0 m1 H2) as B.
    destruct (ml_mixing mk) as [x|], (ml_mixing m1) as [y|]; try reflexivity; exfalso.
    - destruct (proj2 B (proj1 A (ex_intro _ x eq_refl))) as (q & Hq). discriminate.
    - destruct (proj2 A (proj1 B (ex_intro _ y eq_refl))) as (q & Hq). discriminate.
  Qed.
  Lemma chain_app mk a extra kw : St mk -> needT mk + needL mk + nD <= length a ->
    andthen (m_set_spread_params mk (a ++ extra) kw) (fun m1 a1 => m_set_distribution_params m1 a1 kw)
    = ext_res extra (andthen (m_set_spread_params mk a kw) (fun m1 a1 => m_set_distribution_params m1 a1 kw)).
  Proof.
    intros HS Hl. unfold m_set_spread_params. rewrite (m_T_app mk a extra kw HS) by lia.
    destruct (m_set_tumor_spread_params mk a kw) as [m1 [a1|]] eqn:ET; unfold ext_res at 1; cbn [fst snd option_map andthen]; [|reflexivity].
    destruct (m_T_rest mk a kw m1 a1 HS ET) as [-> HS1]. destruct (need_St mk m1 HS HS1) as [NT NL].
    rewrite (m_L_app m1 _ extra kw HS1) by (rewrite skipn_length; lia).
    destruct (m_set_lnl_spread_params m1 (skipn (needT mk) a) kw) as [m2 [a2|]] eqn:EL; unfold ext_res at 1; cbn [fst snd option_map andthen]; [|reflexivity].
    destruct (m_L_rest m1 _ kw m2 a2 HS1 EL) as [-> HS2].
    apply (m_D_app m2 _ extra kw HS2). rewrite !skipn_length. lia.
  Qed.
  Lemma chain_rest mk a kw m' r : St mk ->
    andthen (m_set_spread_params mk a kw) (fun m1 a1 => m_set_distribution_params m1 a1 kw) = (m', Some r) ->
    r = skipn (needT mk + needL mk + nD) a.
  Proof.
    intros HS H. unfold m_set_spread_params in H.
    destruct (m_set_tumor_spread_params mk a kw) as [m1 [a1|]] eqn:ET; cbn [andthen] in H; [|discriminate].
    destruct (m_T_rest mk a kw m1 a1 HS ET) as [-> HS1]. destruct (need_St mk m1 HS HS1) as [NT NL].
    destruct (m_set_lnl_spread_params m1 (skipn (needT mk) a) kw) as [m2 [a2|]] eqn:EL; cbn [andthen] in H; [|discriminate].
    destruct (m_L_rest m1 _ kw m2 a2 HS1 EL) as [-> HS2].
    rewrite (m_D_rest m2 _ kw m' r HS2 H), NL, !skipn_skipn. f_equal. lia.
  Qed.
End Surplus.

Lemma mid_items_len m : m_names_ok m = true -> length (mid_items m) = needT m m + needL m m + nD m + 1.
Proof.
  intros Hsafe. pose proof (SafeMidline.St_refl m) as HS.
  destruct (SafeMidline.St_ext m Hsafe m HS) as (_ & Hei & Hec & _).
  destruct (SafeMidline.St_noext m Hsafe m HS) as (_ & _ & Hnc & _).
  destruct (like_len m _ Hei) as (Tei & Lei & Dei). destruct (like_len m _ Hec) as (Tec & Lec & _). destruct (like_len m _ Hnc) as (Tnc & _ & _).
  rewrite mid_items_split, !app_length. cbn [m_midext_item length]. unfold mid_spread_items, needT, needL, m_mixing_item, ml_ei, ml_ec, ml_nc.
  change (u_tumor_items ?u) with (u_sel_items T u). change (u_lnl_items ?u) with (u_sel_items L u).
  destruct (ml_mixing m), (ml_symL m); rewrite ?app_length, ?pre_length, ?app_length, ?Tei, ?Lei, ?Dei, ?Tec, ?Lec, ?Tnc; cbn [length]; lia.
Qed.

(** ** Statements *)
(** positional call with surplus values behind a complete vector (every use_mixing x LNL
    symmetry setting: the NUMBER of values consumed is the number of reported parameters also
    where their order differs): the same object as without the surplus, and exactly the surplus
    is returned (an exception stays an exception) *)
Definition C10_mid_surplus_stmt : Prop :=
  forall m v extra, m_names_ok m = true -> length v = length (mid_items m) ->
    let r0 := m_set_params m (vals v) [] in
    m_set_params m (vals v ++ extra) [] = (fst r0, match snd r0 with Some _ => Some extra | None => None end)
    /\ (snd r0 <> None -> snd r0 = Some []).
(** ... for arbitrary positional values (NaN / inf included) and beside arbitrary keywords *)
Definition C10_mid_surplus_general_stmt : Prop :=
  forall m a kw extra, m_names_ok m = true -> length a = length (mid_items m) ->
    let r0 := m_set_params m a kw in
    m_set_params m (a ++ extra) kw = (fst r0, match snd r0 with Some _ => Some extra | None => None end)
    /\ (snd r0 <> None -> snd r0 = Some []).

Lemma surplus_chain m mk l1 extra kw : m_names_ok m = true -> SafeMidline.St m mk -> length l1 + 1 = length (mid_items m) ->
  let c0 := andthen (m_set_spread_params mk (l1 ++ []) kw) (fun m1 a1 => m_set_distribution_params m1 a1 kw) in
  andthen (m_set_spread_params mk (l1 ++ extra) kw) (fun m1 a1 => m_set_distribution_params m1 a1 kw)
  = (fst c0, match snd c0 with Some _ => Some extra | None => None end) /\ (snd c0 <> None -> snd c0 = Some []).
Proof.
  intros Hsafe HS Hl. rewrite app_nil_r. cbv zeta.
  destruct (need_St m m mk (SafeMidline.St_refl m) HS) as [NT NL]. rewrite (mid_items_len m Hsafe) in Hl.
  rewrite (chain_app m Hsafe mk l1 extra kw HS) by lia.
  destruct (andthen (m_set_spread_params mk l1 kw) (fun m1 a1 => m_set_distribution_params m1 a1 kw)) as [m' [r|]] eqn:E;
    unfold ext_res; cbn [fst snd option_map]; [|split; [reflexivity | intros H; exfalso; apply H; reflexivity]].
  rewrite (chain_rest m Hsafe mk l1 kw m' r HS E). rewrite skipn_all2 by lia. split; [reflexivity | intros _; reflexivity].
Qed.

Theorem mid_surplus_general : C10_mid_surplus_general_stmt.
Proof.
  intros m a kw extra Hsafe Hl. pose proof (safe_names_ok_mid m Hsafe) as Hok'. cbv zeta.
  rewrite !(m_set_params_unfold m _ kw Hok').
  assert (Hn : length (mid_items m) <> 0) by (rewrite (mid_items_len m Hsafe); lia).
  destruct (exists_last (l := a)) as (l1 & x & ->); [intros ->; cbn in Hl; lia|].
  rewrite app_length in Hl. cbn [length] in Hl.
  replace ((l1 ++ [x]) ++ extra) with (l1 ++ x :: extra) by (rewrite <- app_assoc; reflexivity).
  replace (Z.of_nat (length (mid_items m)) - 1)%Z with (Z.of_nat (length l1) + 1 - 1)%Z by lia.
  rewrite !popat_mid. cbv beta iota zeta.
  destruct (match kw_get ["midext"; "prob"] kw with Some v => Some v | None => Some x end) as [v|].
  - destruct (check_unit v) as [q|]; cbn [option_map]; [|split; [reflexivity | intros H; exfalso; apply H; reflexivity]].
    apply (surplus_chain m (ml_with_midext m q) l1 extra kw Hsafe (SafeProofs.sk_mid_with_midext m q)). lia.
  - apply (surplus_chain m m l1 extra kw Hsafe (SafeMidline.St_refl m)). lia.
Qed.
Theorem mid_surplus : C10_mid_surplus_stmt.
Proof.
  intros m v extra Hsafe Hl. apply (mid_surplus_general m (vals v) [] extra Hsafe). rewrite vals_length. exact Hl.
Qed.

(** * 2. set_params( **get_params()) *)
(** every sub-model (ext, noext, central, unknown; both sides) accepts the distribution
    parameters that get_params reports (those of ext.ipsi).  True when all sub-models carry
    the same distributions and max_time ([Sync.m_same_config], the invariant of C11) and
    ext.ipsi's distributions are valid: [same_config_own_dists] below *)
Definition own_dists_accepted (m : midline) : Prop :=
  forall u, In u (m_unis m) -> dists_put (u_maxt u) (u_dists u) (vals (map snd (u_dist_items (ml_ei m)))) <> None.
Definition own_dists_acceptedb (m : midline) : bool :=
  forallb (fun u => is_some (dists_put (u_maxt u) (u_dists u) (vals (map snd (u_dist_items (ml_ei m)))))) (m_unis m).
Lemma own_dists_acceptedb_ok m : own_dists_acceptedb m = true -> own_dists_accepted m.
Proof.
  unfold own_dists_acceptedb. rewrite forallb_forall. intros H u Hu. specialize (H u Hu). destruct (dists_put _ _ _); [discriminate | discriminate H].
Qed.

(** Midline analogue of [C10_bi_set_own_params_is_identity_stmt]: for a well-formed object
    whose current values are valid ([m_spread_valid]: every spread / growth / micro value of
    every leaf and the mixing parameter lie in [0,1]; midext_prob too) and whose sub-models all
    accept the reported distribution parameters, [set_params( **get_params())] returns normally
    and [get_params] reports what it reported before.  No synchronisation of the sub-models is
    assumed. *)
Definition C10_mid_set_own_params_is_identity_stmt : Prop :=
  forall m, m_names_ok m = true -> m_spread_valid m -> in_unit (ml_midext m) = true -> own_dists_accepted m ->
    let r := m_set_params m [] (own_kwargs (mid_items m)) in
    snd r = Some [] /\ m_got (fst r) = m_got m.
(** ... in particular for objects in the invariant of C11 (all sub-models carry the same
    distributions and max_time) *)
Definition C10_mid_set_own_params_same_config_stmt : Prop :=
  forall m, m_names_ok m = true -> m_spread_valid m -> in_unit (ml_midext m) = true ->
    Sync.m_same_config m -> forallb (fun td => dist_valid (u_maxt (ml_ei m)) (snd td)) (u_dists (ml_ei m)) = true ->
    let r := m_set_params m [] (own_kwargs (mid_items m)) in
    snd r = Some [] /\ m_got (fst r) = m_got m.

Lemma own_kwargs_combine (l : list (path * Qc)) : own_kwargs l = combine (map fst l) (vals (map snd l)).
Proof. induction l as [|[k q] l IH]; [reflexivity|]. cbn. f_equal. exact IH. Qed.
Lemma pairs_eq {A B} (l l' : list (A * B)) : map fst l = map fst l' -> map snd l = map snd l' -> l = l'.
Proof.
  revert l'. induction l as [|[a b] l IH]; intros [|[a' b'] l'] H1 H2; try discriminate; [reflexivity|].
  cbn in H1, H2. injection H1 as -> H1. injection H2 as -> H2. f_equal. apply IH; assumption.
Qed.
Lemma forallb_cons' {A} (f : A -> bool) x l : forallb f (x :: l) = f x && forallb f l.
Proof. reflexivity. Qed.
Lemma spread_vals_unit m : m_spread_valid m -> forallb in_unit (map snd (m_spread_items m)) = true.
Proof.
  intros [Hev Hmv].
  assert (HT : forall l u, ml_leaf m l = Some u -> forallb in_unit (map snd (u_tumor_items u)) = true)
    by (intros l u Hl; apply sel_params_vals_unit, (Hev l u Hl)).
  assert (HL : forall l u, ml_leaf m l = Some u -> forallb in_unit (map snd (u_lnl_items u)) = true)
    by (intros l u Hl; apply sel_params_vals_unit, (Hev l u Hl)).
  pose proof (HT LExtIpsi _ eq_refl) as T1. pose proof (HT LNoextContra _ eq_refl) as T2. pose proof (HT LExtContra _ eq_refl) as T3.
  pose proof (HL LExtIpsi _ eq_refl) as L1. pose proof (HL LExtContra _ eq_refl) as L2. cbn [ml_leaf] in *.
  unfold m_spread_items. destruct (ml_mixing m) as [mix|] eqn:Emix, (ml_symL m);
    rewrite ?map_app, ?pre_app, ?map_app, ?forallb_app, ?pre_vals, ?map_cons, ?forallb_cons', ?T1, ?T2, ?T3, ?L1, ?L2; cbn [snd map forallb];
    rewrite ?(Hmv mix eq_refl); cbn [andb]; first [reflexivity | exact L1 | exact L2].
Qed.

Lemma own_accepts m : m_names_ok m = true -> m_spread_valid m -> in_unit (ml_midext m) = true -> own_dists_accepted m ->
  m_accepts m (vals (map snd (m_items m))) = true.
Proof.
  intros Hsafe Hval Hmid Hd. unfold m_accepts, m_items. rewrite !map_app, !vals_app. cbn [map snd vals].
  set (S := vals (map snd (m_spread_items m))). set (D := vals (map snd (u_dist_items (m_ei m)))).
  assert (HS : length S = length (m_spread_items m)) by (unfold S; rewrite vals_length, map_length; reflexivity).
  assert (HD : length D = length (u_dist_items (m_ei m))) by (unfold D; rewrite vals_length, map_length; reflexivity).
  rewrite (firstn_app_len S _ _ HS), (skipn_app_len S _ _ HS), (firstn_app_len D _ _ HD).
  replace (skipn (length (m_spread_items m) + length (u_dist_items (m_ei m))) (S ++ D ++ [V (ml_midext m)])) with [V (ml_midext m)].
  2:{ rewrite app_assoc. symmetry. apply skipn_app_len. rewrite app_length. lia. }
  unfold S. rewrite (all_unit_vals _ (spread_vals_unit m Hval)). cbn [all_unit check_unit is_some andb]. rewrite Hmid. cbn [is_some andb].
  apply forallb_forall. intros u Hu. specialize (Hd u Hu). unfold D, m_ei. unfold ml_ei in Hd. destruct (dists_put _ _ _); [reflexivity | congruence].
Qed.

Theorem mid_set_own_params_is_identity : C10_mid_set_own_params_is_identity_stmt.
Proof.
  intros m Hsafe Hval Hmid Hd r. subst r.
  pose proof (safe_names_ok_mid m Hsafe) as Hok'. pose proof (safe_set_ok_mid m Hsafe) as Hok.
  set (v := map snd (mid_items m)).
  assert (Hl : length v = length (mid_items m)) by (unfold v; apply map_length).
  assert (Hkw : own_kwargs (mid_items m) = kw_of (map fst (mid_items m)) v) by apply own_kwargs_combine.
  rewrite Hkw.
  assert (Hret : snd (m_set_params m [] (kw_of (map fst (mid_items m)) v)) = Some []).
  { pose proof (own_accepts m Hsafe Hval Hmid Hd) as Hacc.
    assert (Hl' : length (vals (map snd (m_items m))) = length (m_items m)) by (rewrite vals_length, map_length; reflexivity).
    destruct (SafeMidline.m_set_accept m _ Hsafe safe_mid_names_nodup Hl' Hacc) as (q & qTi & qTc & qTe & mixo & qLi & qLc & Hset & _).
    unfold SafeMidline.mkw, m_names in Hset. rewrite safe_items_mid in Hset. unfold kw_of. fold v in Hset. rewrite Hset. reflexivity. }
  split; [exact Hret|].
  destruct (mid_set_get_keyword m v Hok Hl) as [Hv Hk]; [rewrite Hret; discriminate|].
  rewrite (m_got_spec m Hok'). destruct (m_got (fst (m_set_params m [] (kw_of (map fst (mid_items m)) v)))) as [its'|]; [|discriminate].
  cbn [option_map] in Hv, Hk. injection Hv as Hv. injection Hk as Hk. f_equal. apply pairs_eq; assumption.
Qed.

Lemma same_config_own_dists m : Sync.m_same_config m ->
  forallb (fun td => dist_valid (u_maxt (ml_ei m)) (snd td)) (u_dists (ml_ei m)) = true -> own_dists_accepted m.
Proof.
  intros Hc Hv u Hu.
  assert (Hin : In u (Sync.all_leaves m)).
  { unfold m_unis, m_bis in Hu. apply in_flat_map in Hu. destruct Hu as (b & Hb & Hu). unfold Sync.all_leaves, Sync.ext_i, Sync.ext_c, Sync.noext_i, Sync.noext_c.
    cbn [app In] in Hb. destruct Hb as [<-|[<-|Hb]].
    - destruct Hu as [<-|[<-|[]]]; cbn; tauto.
    - destruct Hu as [<-|[<-|[]]]; cbn; tauto.
    - apply in_app_iff in Hb. do 4 right. unfold opt_list in Hb. rewrite !in_app_iff.
      destruct Hb as [Hb|Hb]; [destruct (ml_central m) as [c|] | destruct (ml_unknown m) as [k|]]; cbn in Hb; try tauto;
        destruct Hb as [<-|[]]; destruct Hu as [<-|[<-|[]]]; cbn; tauto. }
  destruct (Hc u Hin) as (_ & Hds & Hmt). change (Sync.ext_i m) with (ml_ei m) in Hds, Hmt. rewrite Hds, Hmt.
  unfold u_dist_items. rewrite (dists_put_own _ _ Hv). discriminate.
Qed.
Theorem mid_set_own_params_same_config : C10_mid_set_own_params_same_config_stmt.
Proof.
  intros m Hsafe Hval Hmid Hc Hv. apply (mid_set_own_params_is_identity m Hsafe Hval Hmid (same_config_own_dists m Hc Hv)).
Qed.

(** * 4. Specific names over global names (spread / growth / micro parameters) *)
(** the first keyword that is passed, in the order of the candidates *)
Definition first4 (a b c d : option val) : option val :=
  match a with Some v => Some v | None => match b with Some v => Some v | None => match c with Some v => Some v | None => d end end end.

(** A spread-type parameter is reported as [P ++ [arc; kind]] with the routing prefix [P] =
    "ipsi" / "contra" / "noext_contra" / "ext_contra" / nothing (symmetric LNL spread), e.g.
    "ipsi_TtoII_spread".  The keyword it receives is the first that is passed among
    "ipsi_TtoII_spread" (the parameter itself), "TtoII_spread" (the arc in every sub-model),
    "ipsi_spread" (every arc of that side), "spread" (every arc): if the call returns,
    get_params reports that keyword's value WHATEVER the positional arguments are.
    Mirror of [C10_uni_keyword_over_positional_stmt] + [C10_uni_specific_over_global_stmt]. *)
Definition C10_mid_specific_over_global_stmt : Prop :=
  forall m a kw P n s q, mid_set_ok m = true -> NoDup (map fst kw) ->
    In (P ++ [n; s]) (map fst (mid_spread_items m)) ->
    first4 (kw_get (P ++ [n; s]) kw) (kw_get [n; s] kw) (kw_get (P ++ [s]) kw) (kw_get [s] kw) = Some (V q) ->
    let r := m_set_params m a kw in
    snd r <> None -> option_map (kw_get (P ++ [n; s])) (m_got (fst r)) = Some (Some q).

Lemma kind_notX4 s : kind s -> ~ In s X4.
Proof. unfold kind. cbn. intuition (subst; discriminate). Qed.
Lemma app_eq_len' {A} (P Q S S' : list A) : length S = length S' -> P ++ S = Q ++ S' -> P = Q /\ S = S'.
Proof.
  revert Q. induction P as [|p P IH]; intros [|q0 Q] Hl E; cbn in E.
  - auto.
  - exfalso. subst S. cbn in Hl. rewrite app_length in Hl. lia.
  - exfalso. subst S'. cbn in Hl. rewrite app_length in Hl. lia.
  - injection E as -> E. destruct (IH Q Hl E) as [-> ->]. auto.
Qed.

Section LkEq.
  Variable kw : kwargs.
  Hypothesis Hnd : NoDup (map fst kw).
  Variables (split : list (string * kwargs)) (glob : kwargs).
  Hypothesis Hu : unflatten_and_split kw X4 = (split, glob).
  Let klg K : kw_last K kw = kw_get K kw := kw_last_get kw Hnd K.

  Lemma lk_side_eq side n s : In side X4 -> ~ In n X4 -> ~ In s X4 ->
    u_lk (obj_kwargs side split glob) [n; s] = first4 (kw_get [side; n; s] kw) (kw_get [n; s] kw) (kw_get [side; s] kw) (kw_get [s] kw).
  Proof.
    intros Hs Hn Hk. unfold u_lk. rewrite !kw_last_NoDup by (apply (obj_kwargs_NoDup kw X4); exact Hu).
    rewrite !(obj_kwargs_lookup kw X4 side _ split glob not_empty_X4 Hu Hs). unfold eff, head_of. cbn [partition_key fst].
    apply mem_false in Hn, Hk. rewrite Hn, Hk, !klg. unfold first4.
    destruct (kw_get [side; n; s] kw); [reflexivity|]. destruct (kw_get [n; s] kw); reflexivity.
  Qed.
  Lemma lk_glob_eq n s : ~ In n X4 -> ~ In s X4 ->
    u_lk glob [n; s] = first4 (kw_get [n; s] kw) (kw_get [n; s] kw) (kw_get [s] kw) (kw_get [s] kw).
  Proof.
    intros Hn Hk. unfold u_lk. destruct (glob_lookup kw X4 [n; s] split glob not_empty_X4 Hu) as [Hg Hgnd].
    destruct (glob_lookup kw X4 [s] split glob not_empty_X4 Hu) as [Hg2 _].
    rewrite !kw_last_NoDup by exact Hgnd. rewrite Hg, Hg2. unfold head_of. cbn [partition_key fst].
    apply mem_false in Hn, Hk. rewrite Hn, Hk, !klg. unfold first4.
    destruct (kw_get [n; s] kw); [reflexivity|]. destruct (kw_get [s] kw); reflexivity.
  Qed.
  Lemma lk_nested_eq side nsplit ng n s : (side = "noext" \/ side = "ext") ->
    unflatten_and_split (sub_kwargs side split) ["contra"] = (nsplit, ng) -> ~ In n X4 -> ~ In s X4 ->
    u_lk (obj_kwargs "contra" nsplit glob) [n; s]
    = first4 (kw_get [side; "contra"; n; s] kw) (kw_get [n; s] kw) (kw_get [side; "contra"; s] kw) (kw_get [s] kw).
  Proof.
    intros Hside Hun Hn Hk. assert (Hs : In side X4) by (destruct Hside as [-> | ->]; cbn; tauto).
    destruct (glob_lookup kw X4 [n; s] split glob not_empty_X4 Hu) as [Hg Hgnd].
    destruct (glob_lookup kw X4 [s] split glob not_empty_X4 Hu) as [Hg2 _].
    assert (Hcn : ~ In "" ["contra"]) by (cbn; intuition discriminate).
    assert (Hlook : forall K, kw_get K (kw_update (sub_kwargs "contra" nsplit) glob)
                     = match kw_get (side :: "contra" :: K) kw with Some v => Some v | None => kw_get K glob end).
    { intros K.
      destruct (sub_kwargs_lookup (sub_kwargs side split) ["contra"] "contra" K nsplit ng Hcn Hun (or_introl eq_refl)) as [Hsub Hsnd].
      destruct (sub_kwargs_lookup kw X4 side ("contra" :: K) split glob not_empty_X4 Hu Hs) as [Hsub2 Hsnd2].
      rewrite kw_get_update, kw_get_rev_NoDup by exact Hsnd. rewrite Hsub, kw_last_NoDup by exact Hsnd2. rewrite Hsub2, klg. reflexivity. }
    unfold u_lk, obj_kwargs. rewrite !kw_last_NoDup by (apply kw_update_NoDup, Hgnd).
    rewrite !Hlook, Hg, Hg2. unfold head_of. cbn [partition_key fst]. apply mem_false in Hn, Hk. rewrite Hn, Hk, !klg. unfold first4.
    destruct (kw_get [side; "contra"; n; s] kw); [reflexivity|]. destruct (kw_get [n; s] kw); reflexivity.
  Qed.
End LkEq.

Section ChainG.
  Variables (m0 : midline) (a0 : args) (kw : kwargs) (P : path) (n s : string) (q : Qc) (m' : midline) (r : args).
  Hypothesis Hok : mid_set_ok m0 = true.
  Hypothesis Hnd : NoDup (map fst kw).
  Hypothesis Hch : andthen (m_set_spread_params m0 a0 kw) (fun m1 a1 => m_set_distribution_params m1 a1 kw) = (m', Some r).
  Hypothesis Hc : first4 (kw_get (P ++ [n; s]) kw) (kw_get [n; s] kw) (kw_get (P ++ [s]) kw) (kw_get [s] kw) = Some (V q).
  Let ei := ml_ei m0.
  Let ec := ml_ec m0.
  Let nc := ml_nc m0.
  Let Hok' : mid_names_ok m0 = true. Proof. unfold mid_set_ok in Hok. rewrite !andb_true_iff in Hok. apply Hok. Qed.

  Lemma key_notX4 u k : u_names_ok u = true -> In k (map fst (u_tumor_items u)) \/ In k (map fst (u_lnl_items u)) ->
    exists n' s', k = [n'; s'] /\ ~ In n' X4 /\ ~ In s' X4.
  Proof.
    intros Hu [H|H].
    - destruct (T_key u k H) as (n' & s' & -> & Hn' & Hs'). exists n', s'. split; [reflexivity|]. split; [|apply kind_notX4, Hs'].
      intros H4. apply (in_reserved_not_edge u n' Hu); [cbn in H4 |- *; intuition | apply TNp_EN, Hn'].
    - destruct (L_key u k H) as (n' & s' & -> & Hn' & Hs'). exists n', s'. split; [reflexivity|]. split; [|apply kind_notX4, Hs'].
      intros H4. apply (in_reserved_not_edge u n' Hu); [cbn in H4 |- *; intuition | apply LNp_EN, Hn'].
  Qed.

  (** identify the decomposition [P ++ [n; s] = pre ++ k] of a reported key *)
  Ltac decomp E Hk u Hu side :=
    let n' := fresh "n'" in let s' := fresh "s'" in let Hn' := fresh "Hn'" in let Hs' := fresh "Hs'" in
    destruct (key_notX4 u _ Hu side) as (n' & s' & -> & Hn' & Hs');
    apply app_eq_len' in E; [|reflexivity]; destruct E as [-> E]; injection E as -> ->.

  Lemma chain_global_over :
    mid_names_ok m' = true /\
    (In (P ++ [n; s]) (map fst (mid_spread_items m0)) -> In (P ++ [n; s], q) (mid_items m')).
  Proof.
    destruct (m_ok_parts m0 Hok') as (Hei & Hec & Hnc & _ & _ & _ & _ & HbsymL). fold ei ec nc in Hei, Hec, Hnc.
    pose proof (keys_T_nc m0 Hok') as KTnc. pose proof (keys_T_ec m0 Hok') as KTec. pose proof (keys_L_ec m0 Hok') as KLec.
    fold ei ec nc in KTnc, KTec, KLec.
    destruct (ml_mixing m0) as [cur|] eqn:Emix.
    - (* with mixing *)
      destruct (m_chain_inv_mix m0 a0 kw m' r cur Hok Emix Hch)
        as (split & glob & qI & qC & mix & qE & qLi & qLe & qLn & m2 & dsplit & dglob & ikw & ckw & dsi & Hcc).
      cbv zeta in Hcc. fold ei ec nc in Hcc.
      destruct Hcc as (Hu & HqI & HqC & Hmx & HqLi & HqLe & HqLn & HuD & Hsk & Hdp & Hei' & (dsc & Hec' & Hecok) & (dsn & Hnc' & Hncok) & Hmix' & Hd' & Hs' & Hb').
      assert (Hnames' : mid_names_ok m' = true).
      { apply (mid_names_ok_final m0 m' qI qLi dsi qE qLe dsc qC qLn dsn _ Hok Hei' Hec' Hnc' Hecok Hncok Hdp); [apply plan_length | exact Hs' | exact Hb']. }
      split; [exact Hnames'|].
      destruct (leaf_after_items ei qI qLi dsi) as (I1 & I2 & I3); [apply (plan_lengths _ _ _ _ HqI) | apply (plan_lengths _ _ _ _ HqLi)|].
      destruct (leaf_after_items nc qC qLn dsn) as (N1 & _ & _); [apply (plan_lengths _ _ _ _ HqC) | apply (plan_lengths _ _ _ _ HqLn)|].
      pose proof (leaf_after_lnl ec qE qLe dsc (plan_lengths _ _ _ _ HqLe)) as E2.
      fold (leaf_after ei qI qLi dsi) in Hei'. fold (leaf_after nc qC qLn dsn) in Hnc'. fold (leaf_after ec qE qLe dsc) in Hec'.
      unfold mid_items, mid_spread_items. rewrite Hmix', Hs', Emix. unfold m_mixing_item, m_midext_item. rewrite Hmix', Emix.
      fold ei ec nc. rewrite Hei', Hnc', Hec', I1, I2, I3, N1, E2.
      destruct (ml_symL m0) eqn:EsymL; rewrite ?map_app, ?pre_app, ?map_app, ?in_app_iff, ?in_pre_keys; cbn [map fst In];
        intros HK; rewrite ?pre_app, ?in_app_iff.
      + destruct HK as [(k & E & Hk)|[(k & E & Hk)|[[E|[]]|Hk]]].
        * left. decomp E Hk ei Hei (or_introl (B := In k (map fst (u_lnl_items ei))) Hk). apply (in_pre_items ["ipsi"]).
          apply (block_In _ _ _ _ _ _ HqI Hk). rewrite (lk_side_eq kw Hnd split glob Hu "ipsi") by (cbn; tauto || assumption). exact Hc.
        * right. left. decomp E Hk nc Hnc (or_introl (B := In k (map fst (u_lnl_items nc))) Hk). apply (in_pre_items ["contra"]).
          apply (block_In _ _ _ _ _ _ HqC Hk). rewrite (lk_side_eq kw Hnd split glob Hu "contra") by (cbn; tauto || assumption). exact Hc.
        * exfalso. apply (f_equal (@length _)) in E. rewrite app_length in E. cbn in E. lia.
        * right. right. right. left.
          destruct (key_notX4 ei _ Hei (or_intror Hk)) as (n' & s' & E & Hnx & Hsx).
          assert (E' : P ++ [n; s] = [] ++ [n'; s']) by exact E. apply app_eq_len' in E'; [|reflexivity]. destruct E' as [-> E']. injection E' as -> ->.
          cbn [app] in *. apply (block_In _ _ _ _ _ _ HqLi Hk). rewrite (lk_glob_eq kw Hnd split glob Hu) by assumption. exact Hc.
      + destruct HK as [[(k & E & Hk)|(k & E & Hk)]|[[(k & E & Hk)|(k & E & Hk)]|[E|[]]]].
        * left. left. decomp E Hk ei Hei (or_introl (B := In k (map fst (u_lnl_items ei))) Hk). apply (in_pre_items ["ipsi"]).
          apply (block_In _ _ _ _ _ _ HqI Hk). rewrite (lk_side_eq kw Hnd split glob Hu "ipsi") by (cbn; tauto || assumption). exact Hc.
        * left. right. decomp E Hk ei Hei (or_intror (A := In k (map fst (u_tumor_items ei))) Hk). apply (in_pre_items ["ipsi"]).
          apply (block_In _ _ _ _ _ _ HqLi Hk). rewrite (lk_side_eq kw Hnd split glob Hu "ipsi") by (cbn; tauto || assumption). exact Hc.
        * right. left. left. decomp E Hk nc Hnc (or_introl (B := In k (map fst (u_lnl_items nc))) Hk). apply (in_pre_items ["contra"]).
          apply (block_In _ _ _ _ _ _ HqC Hk). rewrite (lk_side_eq kw Hnd split glob Hu "contra") by (cbn; tauto || assumption). exact Hc.
        * right. left. right. decomp E Hk ec Hec (or_intror (A := In k (map fst (u_tumor_items ec))) Hk). apply (in_pre_items ["contra"]).
          apply (block_In _ _ _ _ _ _ HqLe Hk). rewrite (lk_side_eq kw Hnd split glob Hu "contra") by (cbn; tauto || assumption). exact Hc.
        * exfalso. apply (f_equal (@length _)) in E. rewrite app_length in E. cbn in E. lia.
    - (* without mixing *)
      destruct (m_chain_inv_nomix m0 a0 kw m' r Hok Emix Hch)
        as (split & glob & nsplit & esplit & ng & eg & qI & qC & qE & qLi & qLe & qLn & m2 & dsplit & dglob & ikw & ckw & dsi & Hcc).
      cbv zeta in Hcc. fold ei ec nc in Hcc.
      destruct Hcc as (Hu & Hun & Hue & HqI & HqC & HqE & HqLi & HqLe & HqLn & HuD & Hsk & Hdp & Hei' & (dsc & Hec' & Hecok) & (dsn & Hnc' & Hncok) & Hmix' & Hd' & Hs' & Hb').
      assert (Hnames' : mid_names_ok m' = true).
      { apply (mid_names_ok_final m0 m' qI qLi dsi qE qLe dsc qC qLn dsn _ Hok Hei' Hec' Hnc' Hecok Hncok Hdp); [apply plan_length | exact Hs' | exact Hb']. }
      split; [exact Hnames'|].
      destruct (leaf_after_items ei qI qLi dsi) as (I1 & I2 & I3); [apply (plan_lengths _ _ _ _ HqI) | apply (plan_lengths _ _ _ _ HqLi)|].
      destruct (leaf_after_items nc qC qLn dsn) as (N1 & _ & _); [apply (plan_lengths _ _ _ _ HqC) | apply (plan_lengths _ _ _ _ HqLn)|].
      destruct (leaf_after_items ec qE qLe dsc) as (E1 & E2 & _); [apply (plan_lengths _ _ _ _ HqE) | apply (plan_lengths _ _ _ _ HqLe)|].
      fold (leaf_after ei qI qLi dsi) in Hei'. fold (leaf_after nc qC qLn dsn) in Hnc'. fold (leaf_after ec qE qLe dsc) in Hec'.
      unfold mid_items, mid_spread_items. rewrite Hmix', Hs', Emix. unfold m_midext_item.
      fold ei ec nc. rewrite Hei', Hnc', Hec', I1, I2, I3, N1, E1, E2.
      destruct (ml_symL m0) eqn:EsymL; rewrite ?map_app, ?pre_app, ?map_app, ?in_app_iff, ?in_pre_keys; cbn [map fst In];
        intros HK; rewrite ?pre_app, ?in_app_iff.
      + destruct HK as [(k & E & Hk)|[(k & E & Hk)|[(k & E & Hk)|Hk]]].
        * left. decomp E Hk ei Hei (or_introl (B := In k (map fst (u_lnl_items ei))) Hk). apply (in_pre_items ["ipsi"]).
          apply (block_In _ _ _ _ _ _ HqI Hk). rewrite (lk_side_eq kw Hnd split glob Hu "ipsi") by (cbn; tauto || assumption). exact Hc.
        * right. left. decomp E Hk nc Hnc (or_introl (B := In k (map fst (u_lnl_items nc))) Hk). apply (in_pre_items ["noext"; "contra"]).
          apply (block_In _ _ _ _ _ _ HqC Hk). rewrite (lk_nested_eq kw Hnd split glob Hu "noext" nsplit ng) by (tauto || assumption). exact Hc.
        * right. right. left. decomp E Hk ec Hec (or_introl (B := In k (map fst (u_lnl_items ec))) Hk). apply (in_pre_items ["ext"; "contra"]).
          apply (block_In _ _ _ _ _ _ HqE Hk). rewrite (lk_nested_eq kw Hnd split glob Hu "ext" esplit eg) by (tauto || assumption). exact Hc.
        * right. right. right. left.
          destruct (key_notX4 ei _ Hei (or_intror Hk)) as (n' & s' & E & Hnx & Hsx).
          assert (E' : P ++ [n; s] = [] ++ [n'; s']) by exact E. apply app_eq_len' in E'; [|reflexivity]. destruct E' as [-> E']. injection E' as -> ->.
          cbn [app] in *. apply (block_In _ _ _ _ _ _ HqLi Hk). rewrite (lk_glob_eq kw Hnd split glob Hu) by assumption. exact Hc.
      + destruct HK as [[(k & E & Hk)|(k & E & Hk)]|[(k & E & Hk)|[(k & E & Hk)|(k & E & Hk)]]].
        * left. left. decomp E Hk ei Hei (or_introl (B := In k (map fst (u_lnl_items ei))) Hk). apply (in_pre_items ["ipsi"]).
          apply (block_In _ _ _ _ _ _ HqI Hk). rewrite (lk_side_eq kw Hnd split glob Hu "ipsi") by (cbn; tauto || assumption). exact Hc.
        * left. right. decomp E Hk ei Hei (or_intror (A := In k (map fst (u_tumor_items ei))) Hk). apply (in_pre_items ["ipsi"]).
          apply (block_In _ _ _ _ _ _ HqLi Hk). rewrite (lk_side_eq kw Hnd split glob Hu "ipsi") by (cbn; tauto || assumption). exact Hc.
        * right. left. decomp E Hk nc Hnc (or_introl (B := In k (map fst (u_lnl_items nc))) Hk). apply (in_pre_items ["noext"; "contra"]).
          apply (block_In _ _ _ _ _ _ HqC Hk). rewrite (lk_nested_eq kw Hnd split glob Hu "noext" nsplit ng) by (tauto || assumption). exact Hc.
        * right. right. left. decomp E Hk ec Hec (or_introl (B := In k (map fst (u_lnl_items ec))) Hk). apply (in_pre_items ["ext"; "contra"]).
          apply (block_In _ _ _ _ _ _ HqE Hk). rewrite (lk_nested_eq kw Hnd split glob Hu "ext" esplit eg) by (tauto || assumption). exact Hc.
        * right. right. right. left. decomp E Hk ec Hec (or_intror (A := In k (map fst (u_tumor_items ec))) Hk). apply (in_pre_items ["contra"]).
          apply (block_In _ _ _ _ _ _ HqLe Hk). rewrite (lk_side_eq kw Hnd split glob Hu "contra") by (cbn; tauto || assumption). exact Hc.
  Qed.
End ChainG.

Theorem mid_specific_over_global : C10_mid_specific_over_global_stmt.
Proof.
  intros m a kw P n s q Hok Hnd HK Hc r Hr. subst r.
  assert (Hok' : mid_names_ok m = true) by (unfold mid_set_ok in Hok; rewrite !andb_true_iff in Hok; apply Hok).
  rewrite (m_set_params_unfold m a kw Hok') in Hr |- *.
  destruct (popat a (Z.of_nat (length (mid_items m)) - 1)) as [[before last] after].
  cbv beta iota zeta in Hr |- *.
  set (mp := match kw_get ["midext"; "prob"] kw with Some v => Some v | None => last end) in *.
  assert (H0 : exists m0, match mp with None => Some m | Some v => option_map (ml_with_midext m) (check_unit v) end = Some m0
                          /\ mid_set_ok m0 = true /\ mid_spread_items m0 = mid_spread_items m).
  { destruct mp as [vm|].
    - destruct (check_unit vm) as [x|]; [|exfalso; apply Hr; reflexivity]. exists (ml_with_midext m x). repeat split. exact Hok.
    - exists m. repeat split. exact Hok. }
  destruct H0 as (m0 & E0 & Hok0 & Hsp0). rewrite E0 in Hr |- *.
  destruct (andthen (m_set_spread_params m0 (before ++ after) kw) (fun m1 a1 => m_set_distribution_params m1 a1 kw)) as [m' [r|]] eqn:Ech;
    [|exfalso; apply Hr; reflexivity]. cbn [fst snd] in *. clear Hr.
  destruct (chain_global_over m0 (before ++ after) kw P n s q m' r Hok0 Hnd Ech Hc) as (Hn' & Hin').
  rewrite (m_got_spec m' Hn'). cbn [option_map]. do 2 f_equal.
  apply kw_get_NoDup_In; [apply mid_items_NoDup, Hn'|]. apply Hin'. rewrite Hsp0. exact HK.
Qed.

(** * The hypotheses of [C10_mid_set_own_params_is_identity_stmt] are needed *)
(** (a) without [own_dists_accepted]: every leaf is valid on its own and the object is
    well-formed, but noext.contra carries a binomial "late" distribution while ext.ipsi carries
    a linear one whose (unused) keyword p = 3/2 is reported as "late_p": the call hands 3/2 to
    every sub-model and raises *)
Definition C10_mid_set_own_params_needs_same_config_refuted_stmt : Prop :=
  exists m, m_names_ok m = true /\ m_spread_valid m /\ in_unit (ml_midext m) = true /\
    forallb u_vals_ok (m_unis m) = true /\
    snd (m_set_params m [] (own_kwargs (mid_items m))) = None.
(** (b) the stronger reading "the OBJECT is unchanged" (as for Unilateral) is false without
    the synchronisation invariant of C11: all hypotheses of the theorem hold, the call returns
    and get_params is unchanged, but ext.contra (out of sync: TtoII_spread = 9/10) is reset to
    the mixture *)
Definition C10_mid_set_own_params_model_identity_refuted_stmt : Prop :=
  exists m, m_names_ok m = true /\ m_spread_valid m /\ in_unit (ml_midext m) = true /\ own_dists_accepted m /\
    snd (m_set_params m [] (own_kwargs (mid_items m))) = Some [] /\
    fst (m_set_params m [] (own_kwargs (mid_items m))) <> m.

Definition C10r_g : graph :=
  force_graph (build_graph 3 [ (("tumor", "T"), CList ["II"; "III"]); (("lnl", "II"), CList ["III"]); (("lnl", "III"), CList []) ]).
Definition C10r_uA : uni := new_uni C10r_g [("late", Param 1 [("p", qc 3 2)])] 2.
Definition C10r_uB : uni := new_uni C10r_g [("late", Param 0 [("p", qc 1 3)])] 2.
Definition C10r_mA : midline :=
  let m := new_midline C10r_uA true true false true true in ml_with_noext m (b_with_contra (ml_noext m) C10r_uB).
Definition C10r_mB1 : midline :=
  fst (m_set_params (new_midline C10r_uB true true false true false)
         (vals [qc 1 10; qc 2 10; qc 3 10; qc 4 10; qc 5 10; qc 6 10; qc 7 10; qc 8 10; qc 9 10; qc 1 3; qc 1 2; qc 2 3; qc 1 4; qc 1 5; qc 1 6]) []).
Definition C10r_mB : midline :=
  ml_with_ext C10r_mB1 (b_with_contra (ml_ext C10r_mB1)
    (fst (u_set_params (b_contra (ml_ext C10r_mB1)) [] [(["TtoII"; "spread"], V (qc 9 10))]))).

Theorem mid_set_own_params_needs_same_config_refuted : C10_mid_set_own_params_needs_same_config_refuted_stmt.
Proof.
  exists C10r_mA. split; [vm_compute; reflexivity|]. split; [apply m_spread_validb_ok; vm_compute; reflexivity|].
  split; [vm_compute; reflexivity|]. split; vm_compute; reflexivity.
Qed.
Theorem mid_set_own_params_model_identity_refuted : C10_mid_set_own_params_model_identity_refuted_stmt.
Proof.
  exists C10r_mB. split; [vm_compute; reflexivity|]. split; [apply m_spread_validb_ok; vm_compute; reflexivity|].
  split; [vm_compute; reflexivity|]. split; [apply own_dists_acceptedb_ok; vm_compute; reflexivity|].
  split; [vm_compute; reflexivity|].
  intros H. apply (f_equal (fun x => out_leaf (b_contra (ml_ext x)))) in H. vm_compute in H. discriminate H.
Qed.

(** * 2'. set_params( **get_params()) leaves a CONSISTENT object unchanged *)
(** For an object in the invariant of C11 ([Sync.m_consistent]: the sub-models share their
    parameters as the Midline setters leave them, and carry the same distributions / max_time)
    with valid values, [set_params( **get_params())] changes NOTHING: the strong reading of the
    Unilateral statement.  By [C10_mid_set_own_params_model_identity_refuted_stmt] the
    synchronisation hypothesis cannot be dropped. *)
Definition C10_mid_set_own_params_model_identity_stmt : Prop :=
  forall m, m_names_ok m = true -> m_spread_valid m -> in_unit (ml_midext m) = true -> Sync.m_consistent m ->
    forallb (fun td => dist_valid (u_maxt (ml_ei m)) (snd td)) (u_dists (ml_ei m)) = true ->
    m_set_params m [] (own_kwargs (mid_items m)) = (m, Some []).

Lemma own_kwargs_keys (l : list (path * Qc)) : map fst (own_kwargs l) = map fst l.
Proof. unfold own_kwargs. rewrite map_map. reflexivity. Qed.
Lemma map_lv (X : list (path * Qc)) (f : path -> val) : (forall k x, In (k, x) X -> f k = V x) -> map f (map fst X) = vals (map snd X).
Proof.
  induction X as [|[k x] X IH]; intros H; [reflexivity|]. cbn [map fst snd vals]. rewrite (H k x) by (left; reflexivity).
  f_equal. apply IH. intros k' x' Hin. apply H. right. exact Hin.
Qed.
Lemma put_own sel u : u_put_sel sel u (map snd (u_sel_items sel u)) = u.
Proof. unfold u_put_sel, u_sel_items. rewrite edges_put_own. destruct u as [g ms ds mt]. destruct g. reflexivity. Qed.
Lemma mixed_items_vals mix Ti : forall Tc, map snd (Sync.mixed_items mix Ti Tc) = SafeMidline.mixed mix (map snd Ti) (map snd Tc).
Proof.
  unfold Sync.mixed_items, SafeMidline.mixed. induction Ti as [|[k x] Ti IH]; intros [|[k' y] Tc]; try reflexivity.
  cbn [map combine fst snd]. f_equal. apply (IH Tc).
Qed.

Section OwnIdentity.
  Variable m : midline.
  Hypothesis Hsafe : m_names_ok m = true.
  Hypothesis Hcons : Sync.m_consistent m.
  Hypothesis Hdv : forallb (fun td => dist_valid (u_maxt (ml_ei m)) (snd td)) (u_dists (ml_ei m)) = true.
  Let its := m_items m.
  Let v := vals (map snd its).
  Notation ei := (ml_ei m).
  Notation ec := (ml_ec m).
  Notation ni := (ml_ni m).
  Notation nc := (ml_nc m).
  Notation lv := (SafeMidline.LV m v).

  Lemma mkw_own : SafeMidline.mkw m v = own_kwargs its.
  Proof. unfold SafeMidline.mkw, m_names, v. symmetry. apply own_kwargs_combine. Qed.
  Lemma LV_own K x : In (K, x) its -> lv K = V x.
  Proof.
    intros H. unfold SafeMidline.LV. rewrite mkw_own. rewrite (kw_get_NoDup_In K (V x)); [reflexivity | |].
    - rewrite own_kwargs_keys. apply (proj2 (safe_mid_names_nodup m Hsafe)).
    - unfold own_kwargs. apply in_map_iff. exists (K, x). split; [reflexivity | exact H].
  Qed.

  (** where the values of the leaves are reported *)
  Lemma its_T_ei k x : In (k, x) (u_tumor_items ei) -> In ("ipsi" :: k, x) its.
  Proof.
    intros H. unfold its, m_items, m_spread_items. apply in_app_iff. left. fold ei.
    destruct (ml_mixing m), (ml_symL m); rewrite ?pre_app, ?in_app_iff; repeat left; apply (in_pre_items ["ipsi"]), H.
  Qed.
  Lemma its_T_nc k x : In (k, x) (u_tumor_items nc) -> In (SafeMidline.cpre m ++ k, x) its.
  Proof.
    intros H. unfold its, m_items, m_spread_items, SafeMidline.cpre. apply in_app_iff. left. fold nc.
    destruct (ml_mixing m), (ml_symL m); rewrite ?pre_app, ?in_app_iff.
    - right. left. apply in_pre_items, H.
    - right. left. left. apply in_pre_items, H.
    - right. left. apply in_pre_items, H.
    - right. left. apply in_pre_items, H.
  Qed.
  Lemma its_T_ec k x : ml_mixing m = None -> In (k, x) (u_tumor_items ec) -> In ("ext" :: "contra" :: k, x) its.
  Proof.
    intros E H. unfold its, m_items, m_spread_items. apply in_app_iff. left. fold ec. rewrite E.
    destruct (ml_symL m); rewrite ?pre_app, ?in_app_iff; right; right; left; apply (in_pre_items ["ext"; "contra"]), H.
  Qed.
  Lemma its_L_ei k x : In (k, x) (u_lnl_items ei) -> In (SafeMidline.lpre m "ipsi" ++ k, x) its.
  Proof.
    intros H. unfold its, m_items, m_spread_items, SafeMidline.lpre. apply in_app_iff. left. fold ei.
    destruct (ml_mixing m), (ml_symL m); rewrite ?pre_app, ?in_app_iff; cbn [app].
    - right. right. right. exact H.
    - left. right. apply (in_pre_items ["ipsi"]), H.
    - right. right. right. exact H.
    - left. right. apply (in_pre_items ["ipsi"]), H.
  Qed.
  Lemma its_L_ec k x : ml_symL m = false -> In (k, x) (u_lnl_items ec) -> In ("contra" :: k, x) its.
  Proof.
    intros E H. unfold its, m_items, m_spread_items. apply in_app_iff. left. fold ec. rewrite E.
    destruct (ml_mixing m); rewrite ?pre_app, ?in_app_iff.
    - right. left. right. apply (in_pre_items ["contra"]), H.
    - right. right. right. apply (in_pre_items ["contra"]), H.
  Qed.
  Lemma its_D k x : In (k, x) (u_dist_items ei) -> In (k, x) its.
  Proof. intros H. unfold its, m_items. rewrite !in_app_iff. right. left. exact H. Qed.
  Lemma its_mixing x : ml_mixing m = Some x -> In (["mixing"], x) its.
  Proof.
    intros E. unfold its, m_items, m_spread_items. apply in_app_iff. left. rewrite E.
    destruct (ml_symL m); rewrite ?in_app_iff; right; right; [left|]; left; reflexivity.
  Qed.
  Lemma its_midext : In (["midext"; "prob"], ml_midext m) its.
  Proof. unfold its, m_items. rewrite !in_app_iff. right. right. left. reflexivity. Qed.

  (** the values the call hands to the leaves *)
  Let Hlike_ec : SafeMidline.like_ei m ec. Proof. apply (SafeMidline.m_ok_bi m (ml_ext m) Hsafe (SafeMidline.m_ok_ext m Hsafe)). Qed.
  Let Hlike_nc : SafeMidline.like_ei m nc. Proof. apply (SafeMidline.m_ok_bi m (ml_noext m) Hsafe (SafeMidline.m_ok_noext m Hsafe)). Qed.
  Lemma vTi_own : SafeMidline.vTi m v = vals (map snd (u_tumor_items ei)).
  Proof. unfold SafeMidline.vTi, SafeMidline.TK. apply (map_lv (u_tumor_items ei)). intros k x H. apply LV_own, its_T_ei, H. Qed.
  Lemma vTc_own : SafeMidline.vTc m v = vals (map snd (u_tumor_items nc)).
  Proof.
    unfold SafeMidline.vTc. destruct Hlike_nc as (_ & HT & _). rewrite <- HT.
    apply (map_lv (u_tumor_items nc)). intros k x H. apply LV_own, its_T_nc, H.
  Qed.
  Lemma vTe_own : ml_mixing m = None -> SafeMidline.vTe m v = vals (map snd (u_tumor_items ec)).
  Proof.
    intros E. unfold SafeMidline.vTe. destruct Hlike_ec as (_ & HT & _). rewrite <- HT.
    apply (map_lv (u_tumor_items ec)). intros k x H. apply LV_own, (its_T_ec k x E H).
  Qed.
  Lemma vLi_own : SafeMidline.vLi m v = vals (map snd (u_lnl_items ei)).
  Proof. unfold SafeMidline.vLi, SafeMidline.LK. apply (map_lv (u_lnl_items ei)). intros k x H. apply LV_own, its_L_ei, H. Qed.
  Lemma vLc_own : ml_symL m = false -> SafeMidline.vLc m v = vals (map snd (u_lnl_items ec)).
  Proof.
    intros E. unfold SafeMidline.vLc, SafeMidline.lpre. rewrite E. destruct Hlike_ec as (_ & _ & HL & _). rewrite <- HL.
    apply (map_lv (u_lnl_items ec)). intros k x H. apply LV_own, (its_L_ec k x E H).
  Qed.
  Lemma vD_own : SafeMidline.vD m v = vals (map snd (u_dist_items ei)).
  Proof. unfold SafeMidline.vD, SafeMidline.DK. apply (map_lv (u_dist_items ei)). intros k x H. apply LV_own, its_D, H. Qed.

  (** a leaf that receives its own values and carries the distributions of ext.ipsi is unchanged *)
  Lemma ds_own u : u_dists u = u_dists ei -> u_maxt u = u_maxt ei -> SafeMidline.force_ds m v u = u_dists u.
  Proof.
    intros Hd Hm. unfold SafeMidline.force_ds, SafeMidline.leaf_ds. rewrite vD_own, Hd, Hm. unfold u_dist_items.
    rewrite (dists_put_own _ _ Hdv). reflexivity.
  Qed.
  Lemma with_dists_own u : u_with_dists u (u_dists u) = u.
  Proof. destruct u. reflexivity. Qed.
  Lemma leaf_fin_own u qT qL : qT = map snd (u_tumor_items u) -> qL = map snd (u_lnl_items u) ->
    u_dists u = u_dists ei -> u_maxt u = u_maxt ei -> SafeMidline.leaf_fin m v u qT qL = u.
  Proof.
    intros -> -> Hd Hm. unfold SafeMidline.leaf_fin. change (u_tumor_items u) with (u_sel_items T u). rewrite put_own.
    change (u_lnl_items u) with (u_sel_items L u). rewrite put_own. cbv zeta. rewrite (ds_own u Hd Hm). apply with_dists_own.
  Qed.
  Lemma bi_ds_own b : u_dists (b_ipsi b) = u_dists ei -> u_maxt (b_ipsi b) = u_maxt ei ->
    u_dists (b_contra b) = u_dists ei -> u_maxt (b_contra b) = u_maxt ei -> SafeMidline.bi_ds m v b = b.
  Proof.
    intros H1 H2 H3 H4. unfold SafeMidline.bi_ds. rewrite (ds_own _ H1 H2), (ds_own _ H3 H4), !with_dists_own. destruct b. reflexivity.
  Qed.

  Theorem own_identity : m_spread_valid m -> in_unit (ml_midext m) = true -> m_set_params m [] (own_kwargs its) = (m, Some []).
  Proof.
    intros Hval Hmid. destruct Hcons as [(S1 & S2 & S3 & S4 & S5 & S6) Hcfg].
    change (Sync.ext_i m) with ei in *. change (Sync.ext_c m) with ec in *. change (Sync.noext_c m) with nc in *.
    unfold Sync.u_T, Sync.u_L in *.
    assert (Hcf : forall u, In u (Sync.all_leaves m) -> u_dists u = u_dists ei /\ u_maxt u = u_maxt ei)
      by (intros u Hu; destruct (Hcfg u Hu) as (_ & A & B); split; assumption).
    pose proof (own_accepts m Hsafe Hval Hmid (same_config_own_dists m Hcfg Hdv)) as Hacc. fold its v in Hacc.
    assert (Hl : length v = length (m_items m)) by (unfold v; rewrite vals_length, map_length; reflexivity).
    destruct (SafeMidline.m_set_accept m v Hsafe safe_mid_names_nodup Hl Hacc) as (q & qTi & qTc & qTe & mixo & qLi & qLc & Hset & HT & HL & Hq & _).
    rewrite mkw_own in Hset. rewrite Hset. f_equal.
    (* the values *)
    unfold SafeMidline.tumor_vals in HT. rewrite vTi_own, vTc_own in HT.
    destruct (all_unit (vals (map snd (u_tumor_items ei)))) as [x1|] eqn:A1; [|discriminate]. apply all_unit_vals_inv in A1. subst x1.
    destruct (all_unit (vals (map snd (u_tumor_items nc)))) as [x2|] eqn:A2; [|discriminate]. apply all_unit_vals_inv in A2. subst x2.
    unfold SafeMidline.lnl_vals in HL. rewrite vLi_own in HL.
    destruct (all_unit (vals (map snd (u_lnl_items ei)))) as [x3|] eqn:A3; [|discriminate]. apply all_unit_vals_inv in A3. subst x3.
    destruct (all_unit (SafeMidline.vLc m v)) as [x4|] eqn:A4; [|discriminate]. injection HL as <- <-.
    rewrite (LV_own _ _ its_midext) in Hq. apply check_unit_Some in Hq. destruct Hq as [[= <-] _].
    assert (HqLc : (if ml_symL m then map snd (u_lnl_items ei) else x4) = map snd (u_lnl_items ec)).
    { destruct (ml_symL m) eqn:EsymL; [rewrite (S6 eq_refl); reflexivity|]. rewrite (vLc_own EsymL) in A4. apply all_unit_vals_inv in A4. exact A4. }
    assert (HqTe : match mixo with Some mix => SafeMidline.mixed mix qTi qTc | None => qTe end = map snd (u_tumor_items ec)
                   /\ match mixo with Some mix => Some mix | None => ml_mixing m end = ml_mixing m
                   /\ qTi = map snd (u_tumor_items ei) /\ qTc = map snd (u_tumor_items nc)).
    { destruct (ml_mixing m) as [cur|] eqn:Emix.
      - rewrite (LV_own _ _ (its_mixing cur Emix)) in HT. destruct (check_unit (V cur)) as [mix|] eqn:Ec; [|discriminate].
        apply check_unit_Some in Ec. destruct Ec as [[= <-] _]. injection HT as <- <- _ <-.
        rewrite (S3 cur eq_refl), mixed_items_vals. repeat split.
      - rewrite (vTe_own Emix) in HT.
        destruct (all_unit (vals (map snd (u_tumor_items ec)))) as [x5|] eqn:A5; [|discriminate]. apply all_unit_vals_inv in A5. subst x5.
        injection HT as <- <- <- <-. repeat split. }
    destruct HqTe as (HTe & Hmixo & -> & ->).
    (* membership of the leaves in the lists of the invariant *)
    assert (Iei : In ei (Sync.all_leaves m)) by (unfold Sync.all_leaves, Sync.ext_i; cbn; tauto).
    assert (Iec : In ec (Sync.all_leaves m)) by (unfold Sync.all_leaves, Sync.ext_c; cbn; tauto).
    assert (Ini : In ni (Sync.all_leaves m)) by (unfold Sync.all_leaves, Sync.noext_i; cbn; tauto).
    assert (Inc : In nc (Sync.all_leaves m)) by (unfold Sync.all_leaves, Sync.noext_c; cbn; tauto).
    assert (Pni : In ni (Sync.ipsi_leaves m)) by (unfold Sync.ipsi_leaves, Sync.noext_i; cbn; tauto).
    assert (Cnc : In nc (Sync.contra_leaves m)) by (unfold Sync.contra_leaves, Sync.noext_c; cbn; tauto).
    apply SafeMidline.midline_ext; unfold SafeMidline.m_explicit; cbn [ml_ext ml_noext ml_central ml_unknown ml_mixing ml_midext ml_evo ml_symL].
    - change (b_ipsi (ml_ext m)) with ei. change (b_contra (ml_ext m)) with ec.
      rewrite (leaf_fin_own ei _ _ eq_refl eq_refl eq_refl eq_refl).
      rewrite (leaf_fin_own ec _ _ HTe HqLc (proj1 (Hcf ec Iec)) (proj2 (Hcf ec Iec))). unfold ml_ei, ml_ec. destruct (ml_ext m). reflexivity.
    - change (b_ipsi (ml_noext m)) with ni. change (b_contra (ml_noext m)) with nc.
      rewrite (leaf_fin_own ni _ _ (eq_sym (f_equal (map snd) (S1 ni Pni))) (eq_sym (f_equal (map snd) (S4 ni Pni))) (proj1 (Hcf ni Ini)) (proj2 (Hcf ni Ini))).
      rewrite (leaf_fin_own nc _ _ eq_refl (eq_trans HqLc (eq_sym (f_equal (map snd) (S5 nc Cnc)))) (proj1 (Hcf nc Inc)) (proj2 (Hcf nc Inc))).
      unfold ml_ni, ml_nc. destruct (ml_noext m). reflexivity.
    - destruct (ml_central m) as [c|] eqn:Ec; [|reflexivity]. cbn [option_map]. f_equal.
      assert (Ici : In (b_ipsi c) (Sync.all_leaves m)) by (unfold Sync.all_leaves; rewrite Ec; cbn; tauto).
      assert (Icc : In (b_contra c) (Sync.all_leaves m)) by (unfold Sync.all_leaves; rewrite Ec; cbn; tauto).
      assert (Pci : In (b_ipsi c) (Sync.ipsi_leaves m)) by (unfold Sync.ipsi_leaves; rewrite Ec; cbn; tauto).
      assert (Ccc : In (b_contra c) (Sync.contra_leaves m)) by (unfold Sync.contra_leaves; rewrite Ec; cbn; tauto).
      rewrite (leaf_fin_own (b_ipsi c) _ _ (eq_sym (f_equal (map snd) (S1 _ Pci))) (eq_sym (f_equal (map snd) (S4 _ Pci))) (proj1 (Hcf _ Ici)) (proj2 (Hcf _ Ici))).
      rewrite (leaf_fin_own (b_contra c) _ _ (eq_sym (f_equal (map snd) (S2 c eq_refl))) (eq_trans HqLc (eq_sym (f_equal (map snd) (S5 _ Ccc)))) (proj1 (Hcf _ Icc)) (proj2 (Hcf _ Icc))).
      destruct c. reflexivity.
    - destruct (ml_unknown m) as [k|] eqn:Ek; [|reflexivity]. cbn [option_map]. f_equal.
      assert (Iki : In (b_ipsi k) (Sync.all_leaves m)) by (unfold Sync.all_leaves; rewrite Ek; destruct (ml_central m); cbn; tauto).
      assert (Ikc : In (b_contra k) (Sync.all_leaves m)) by (unfold Sync.all_leaves; rewrite Ek; destruct (ml_central m); cbn; tauto).
      apply bi_ds_own; [apply (Hcf _ Iki) | apply (Hcf _ Iki) | apply (Hcf _ Ikc) | apply (Hcf _ Ikc)].
    - exact Hmixo.
    - reflexivity.
    - reflexivity.
    - reflexivity.
  Qed.
End OwnIdentity.

Theorem mid_set_own_params_model_identity : C10_mid_set_own_params_model_identity_stmt.
Proof.
  intros m Hsafe Hval Hmid Hcons Hdv. rewrite <- safe_items_mid. apply (own_identity m Hsafe Hcons Hdv Hval Hmid).
Qed.
