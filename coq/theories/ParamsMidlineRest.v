(** ParamsMidlineRest: the remaining members of the C10 family for models.Midline
    ([unknown_names_ignored], [set_own_params_is_identity], [surplus], [specific_over_global]),
    in the style of the Bilateral statements of ParamsStatements.v.

    Routes
    - unknown names: every keyword dict a leaf receives binds only values of the call's keywords
      under names prefixed by routing words ([Fr], NamedMidlineMore.v); a keyword whose name,
      stripped of any number of leading routing words, is no leaf parameter name, no global tail
      of one, not "mixing" and not "midext_prob" is therefore found by no look-up, and every
      setter only looks keywords up ([set_edges_for_ext], [set_dists_for_ext]).
    - surplus: every leaf setter called with [a ++ extra], where [a] already covers the leaf's
      parameters, does what it does with [a] and returns [extra] appended to the rest.
    - own parameters: instance of the forward traversal [mid_lit_accept] (NamedMidlineMore.v)
      and of the keyword round trip [mid_set_get_keyword] (ParamsMidline.v).
    New file; nothing existing is changed. *)
From LymphModel Require Import Base States Linalg Graph Transition Observation Dist Unilateral Models Params
  ParamsStatements ParamsLemmas ParamsProofs ParamsBilateral ParamsMidline ParamsMidlineMore
  Safe ParamsMidlineSafe Named NamedProofs NamedMidline NamedMidlineMore.
From LymphModel Require SafeProofs SafeMidline Sync.
From Coq Require Import Lia.
Local Open Scope nat_scope.
Local Open Scope string_scope.
Local Open Scope list_scope.

(** * 1. Unknown keyword names are ignored *)
(** ** Vocabulary *)
(** the parameter names of one leaf (every leaf of a well-formed Midline has the names of
    ext.ipsi): "TtoII_spread", "IItoIII_micro", "late_p", ... *)
Definition mid_leaf_keys (m : midline) : list path :=
  map fst (u_tumor_items (ml_ei m)) ++ map fst (u_lnl_items (ml_ei m)) ++ map fst (u_dist_items (ml_ei m)).
(** what some look-up of the Midline plumbing can ask for once the routing prefixes are
    consumed: a leaf parameter name, its global tail ("spread", "growth", "micro", a
    distribution keyword), "mixing" (only with use_mixing), "midext_prob" *)
Definition mid_resolvable (m : midline) (K : path) : bool :=
  memp K (mid_leaf_keys m) || memp K (map (@tl string) (mid_leaf_keys m))
  || (is_some (ml_mixing m) && path_eqb K ["mixing"]) || path_eqb K ["midext"; "prob"].
(** [c] is unknown: stripped of any number of leading routing words
    ("ipsi", "contra", "noext", "ext", "central", "unknown") it is never resolvable *)
Fixpoint kw_unknown_path (res : path -> bool) (c : path) : bool :=
  negb (res c) && match c with w :: c' => if mem w routing then kw_unknown_path res c' else true | [] => true end.
Definition mid_kw_unknown (m : midline) (kw : kwargs) : bool := forallb (kw_unknown_path (mid_resolvable m)) (map fst kw).

(** ** Statements *)
(** Midline analogue of [C10_bi_unknown_names_ignored_stmt], for every well-formed object
    ([Safe.m_names_ok]: all sub-models come from one graph dictionary; true of every
    constructed object), every positional argument list and every keyword dict (Python
    keyword arguments form a dict, hence [NoDup]): the call with the extra keywords leaves
    the SAME object and returns the same (rest or exception) as the call without keywords. *)
Definition C10_mid_unknown_names_ignored_stmt : Prop :=
  forall m a kw, m_names_ok m = true -> NoDup (map fst kw) -> mid_kw_unknown m kw = true ->
    m_set_params m a kw = m_set_params m a [].
(** ... also beside keywords that do name parameters: unknown keywords can be dropped *)
Definition C10_mid_unknown_names_dropped_stmt : Prop :=
  forall m a kw junk, m_names_ok m = true -> NoDup (map fst (kw ++ junk)) -> mid_kw_unknown m junk = true ->
    m_set_params m a (kw ++ junk) = m_set_params m a kw.
(** ... in the exact shape of the Bilateral statement *)
Definition C10_mid_unknown_names_ignored_got_stmt : Prop :=
  forall m a kw, m_names_ok m = true -> NoDup (map fst kw) -> mid_kw_unknown m kw = true ->
    let r1 := m_set_params m a kw in let r2 := m_set_params m a [] in
    snd r1 = snd r2 /\ (snd r1 <> None -> m_got (fst r1) = m_got (fst r2)).

(** ** Look-ups that find nothing *)
Lemma unknown_path_spec res P : forall K, Forall (fun w => In w routing) P -> kw_unknown_path res (P ++ K) = true -> res K = false.
Proof.
  induction P as [|w P IH]; intros K HP H.
  - cbn [app] in H. destruct K; cbn [kw_unknown_path] in H; apply andb_true_iff in H; destruct H as [H _]; apply negb_true_iff, H.
  - inversion HP as [|? ? Hw HP']; subst. cbn [app kw_unknown_path] in H. apply andb_true_iff in H. destruct H as [_ H].
    apply mem_In in Hw. rewrite Hw in H. apply (IH K HP' H).
Qed.

(** two keyword dicts are interchangeable for a leaf with the keys [Ks] when both bind none of
    the names the leaf looks up *)
Definition nohit (Ks : list path) (kwL : kwargs) : Prop :=
  NoDup (map fst kwL) /\ forall k, In k Ks -> kw_get k kwL = None /\ kw_get (tl k) kwL = None.

Lemma sel_params_key_in tri sel es e t : In e es -> sel e = true -> In t (map fst (edge_params tri e)) ->
  In (e_name e :: t) (map fst (sel_params tri sel es)).
Proof.
  intros He Hs Ht. apply in_map_iff in Ht. destruct Ht as ([t' q] & E & Hin). cbn [fst] in E. subst t'.
  apply in_map_iff. exists (e_name e :: t, q). split; [reflexivity|]. unfold sel_params. apply in_flat_map.
  exists e. split; [exact He|]. rewrite Hs. unfold pre, prefix. apply in_map_iff. exists (t, q). split; [reflexivity | exact Hin].
Qed.
Lemma dists_items_key_in ds td s : In td ds -> In s (dist_kw_names [td]) -> In [fst td; s] (map fst (dists_items ds)).
Proof.
  intros Hin Hs. unfold dist_kw_names in Hs. cbn [flat_map] in Hs. rewrite app_nil_r in Hs.
  destruct td as [t d]. cbn [fst snd] in *. destruct d as [p|f kws]; [destruct Hs|].
  apply in_map_iff in Hs. destruct Hs as ([s' q] & E & Hk). cbn [fst] in E. subst s'.
  apply in_map_iff. exists ([t; s], q). split; [reflexivity|]. unfold dists_items. apply in_flat_map.
  exists (t, Param f kws). split; [exact Hin|]. cbn [fst snd dist_local]. unfold pre, prefix. apply in_map_iff.
  exists ([s], q). split; [reflexivity|]. apply in_map_iff. exists (s, q). split; [reflexivity | exact Hk].
Qed.

Lemma empty_reserved : In "" reserved.
Proof. cbn. tauto. Qed.
Lemma leaf_sel_nohit sel u a kwL : u_names_ok u = true -> nohit (map fst (u_sel_items sel u)) kwL ->
  lift_graph u (graph_set_params_sel sel (u_graph u) a kwL) = lift_graph u (graph_set_params_sel sel (u_graph u) a []).
Proof.
  intros Hn [Hnd Hk]. f_equal. unfold graph_set_params_sel. rewrite unflatten_nil.
  destruct (unflatten_and_split kwL (map e_name (filter sel (g_edges (u_graph u))))) as [split glob] eqn:Hu.
  rewrite (set_edges_for_ext (g_tri (u_graph u)) sel split glob [] [] (g_edges (u_graph u)) a); [reflexivity|].
  intros e t Hin Hs Ht.
  rewrite (obj_kwargs_lookup kwL _ (e_name e) t split glob (reserved_not_filter u sel "" Hn empty_reserved) Hu)
    by (apply in_map, filter_In; split; assumption).
  destruct (Hk (e_name e :: t) (sel_params_key_in _ sel _ e t Hin Hs Ht)) as [H1 H2]. cbn [tl] in H2.
  rewrite eff_none by (rewrite kw_last_NoDup by exact Hnd; assumption). reflexivity.
Qed.
Lemma leaf_dist_nohit u a kwL : u_names_ok u = true -> nohit (map fst (u_dist_items u)) kwL ->
  u_set_distribution_params u a kwL = u_set_distribution_params u a [].
Proof.
  intros Hn [Hnd Hk]. unfold u_set_distribution_params. rewrite unflatten_nil.
  destruct (unflatten_and_split kwL (map fst (u_dists u))) as [split glob] eqn:Hu.
  rewrite (set_dists_for_ext (u_maxt u) split glob [] [] (u_dists u) a); [reflexivity|].
  intros td s Hin Hs.
  rewrite (obj_kwargs_lookup kwL _ (fst td) [s] split glob (in_reserved_not_tstage u "" Hn empty_reserved) Hu) by (apply in_map, Hin).
  destruct (Hk [fst td; s] (dists_items_key_in _ td s Hin Hs)) as [H1 H2]. cbn [tl] in H2.
  rewrite eff_none by (rewrite kw_last_NoDup by exact Hnd; assumption). reflexivity.
Qed.

Lemma nohit_nil Ks : nohit Ks [].
Proof. split; [constructor|]. intros k _. split; reflexivity. Qed.

(** ** The traversal: two keyword dicts that are both unknown to the model *)
Section Irrelevant.
  Variables (m0 : midline) (kw1 kw2 : kwargs).
  Hypothesis Hsafe : m_names_ok m0 = true.
  Hypothesis Hnd1 : NoDup (map fst kw1).
  Hypothesis Hnd2 : NoDup (map fst kw2).
  Hypothesis Hunk1 : mid_kw_unknown m0 kw1 = true.
  Hypothesis Hunk2 : mid_kw_unknown m0 kw2 = true.
  Notation like := (SafeMidline.like_ei m0).
  Notation St := (SafeMidline.St m0).

  Definition Un (kwL : kwargs) : Prop := forall K, mid_resolvable m0 K = true -> kw_get K kwL = None.
  Lemma Fr_Un kw kwL : mid_kw_unknown m0 kw = true -> Fr kw kwL -> Un kwL.
  Proof.
    intros Hunk [_ HF] K HK. destruct (kw_get K kwL) as [v|] eqn:E; [exfalso | reflexivity].
    destruct (HF K v E) as (P & HP & Hg). unfold mid_kw_unknown in Hunk. rewrite forallb_forall in Hunk.
    specialize (Hunk (P ++ K) (in_items_key _ _ _ (kw_get_Some_In _ _ _ Hg))).
    rewrite (unknown_path_spec _ P K HP Hunk) in HK. discriminate.
  Qed.
  (** a derived dict of either call *)
  Definition Dv (kwL : kwargs) : Prop := NoDup (map fst kwL) /\ Un kwL.
  Lemma Fr_Dv1 kwL : Fr kw1 kwL -> Dv kwL.
  Proof. intros H. split; [apply H | apply (Fr_Un kw1 kwL Hunk1 H)]. Qed.
  Lemma Fr_Dv2 kwL : Fr kw2 kwL -> Dv kwL.
  Proof. intros H. split; [apply H | apply (Fr_Un kw2 kwL Hunk2 H)]. Qed.

  Lemma leaf_key_res k : In k (mid_leaf_keys m0) -> mid_resolvable m0 k = true /\ mid_resolvable m0 (tl k) = true.
  Proof.
    intros H. unfold mid_resolvable. split.
    - rewrite (proj2 (memp_In k _) H). reflexivity.
    - apply orb_true_iff. left. apply orb_true_iff. left. apply orb_true_iff. right. apply memp_In. apply (in_map (@tl string)), H.
  Qed.
  Lemma Dv_nohit Ks kwL : incl Ks (mid_leaf_keys m0) -> Dv kwL -> nohit Ks kwL.
  Proof.
    intros Hi [Hnd Hu]. split; [exact Hnd|]. intros k Hk. destruct (leaf_key_res k (Hi k Hk)) as [H1 H2]. split; apply Hu; assumption.
  Qed.
  Lemma like_T_incl u : like u -> incl (map fst (u_sel_items T u)) (mid_leaf_keys m0).
  Proof. intros (_ & HT & _) k Hk. change (u_sel_items T u) with (u_tumor_items u) in Hk. rewrite HT in Hk. unfold mid_leaf_keys. apply in_app_iff. left. exact Hk. Qed.
  Lemma like_L_incl u : like u -> incl (map fst (u_sel_items L u)) (mid_leaf_keys m0).
  Proof. intros (_ & _ & HL & _) k Hk. change (u_sel_items L u) with (u_lnl_items u) in Hk. rewrite HL in Hk. unfold mid_leaf_keys. rewrite !in_app_iff. right. left. exact Hk. Qed.
  Lemma like_D_incl u : like u -> incl (map fst (u_dist_items u)) (mid_leaf_keys m0).
  Proof. intros (_ & _ & _ & HD) k Hk. rewrite HD in Hk. unfold mid_leaf_keys. rewrite !in_app_iff. right. right. exact Hk. Qed.

  Lemma u_sel_irrel sel u a k1 k2 : (sel = T \/ sel = L) -> like u -> Dv k1 -> Dv k2 ->
    lift_graph u (graph_set_params_sel sel (u_graph u) a k1) = lift_graph u (graph_set_params_sel sel (u_graph u) a k2).
  Proof.
    intros Hsel Hl H1 H2.
    assert (Hi : incl (map fst (u_sel_items sel u)) (mid_leaf_keys m0)) by (destruct Hsel as [-> | ->]; [apply like_T_incl | apply like_L_incl]; exact Hl).
    rewrite (leaf_sel_nohit sel u a k1 (proj1 Hl) (Dv_nohit _ k1 Hi H1)), (leaf_sel_nohit sel u a k2 (proj1 Hl) (Dv_nohit _ k2 Hi H2)). reflexivity.
  Qed.
  Lemma u_T_irrel u a k1 k2 : like u -> Dv k1 -> Dv k2 -> u_set_tumor_spread_params u a k1 = u_set_tumor_spread_params u a k2.
  Proof. intros. apply (u_sel_irrel T); [left; reflexivity | assumption..]. Qed.
  Lemma u_L_irrel u a k1 k2 : like u -> Dv k1 -> Dv k2 -> u_set_lnl_spread_params u a k1 = u_set_lnl_spread_params u a k2.
  Proof. intros. apply (u_sel_irrel L); [right; reflexivity | assumption..]. Qed.
  Lemma u_D_irrel u a k1 k2 : like u -> Dv k1 -> Dv k2 -> u_set_distribution_params u a k1 = u_set_distribution_params u a k2.
  Proof.
    intros Hl H1 H2.
    rewrite (leaf_dist_nohit u a k1 (proj1 Hl) (Dv_nohit _ k1 (like_D_incl u Hl) H1)), (leaf_dist_nohit u a k2 (proj1 Hl) (Dv_nohit _ k2 (like_D_incl u Hl) H2)).
    reflexivity.
  Qed.

  (** dicts derived from one of the two calls *)
  Definition Fd (kwL : kwargs) : Prop := Fr kw1 kwL \/ Fr kw2 kwL.
  Lemma Fd_Dv kwL : Fd kwL -> Dv kwL.
  Proof. intros [H|H]; [apply Fr_Dv1 | apply Fr_Dv2]; exact H. Qed.
  Lemma Fd_side kwB ikw ckw : Fd kwB -> side_kwargs kwB = (ikw, ckw) -> Fd ikw /\ Fd ckw.
  Proof.
    intros [H|H] Hs; [destruct (Fr_side kw1 kwB ikw ckw H Hs) as [A B]; split; left; assumption
                     | destruct (Fr_side kw2 kwB ikw ckw H Hs) as [A B]; split; right; assumption].
  Qed.

  Lemma b_side_irrel sel sym b a k1 k2 : (sel = T \/ sel = L) -> like (b_ipsi b) -> like (b_contra b) -> Fd k1 -> Fd k2 ->
    b_set_side_params sel sym b a k1 = b_set_side_params sel sym b a k2.
  Proof.
    intros Hsel Hi Hc H1 H2. unfold b_set_side_params.
    destruct (side_kwargs k1) as [i1 c1] eqn:E1. destruct (side_kwargs k2) as [i2 c2] eqn:E2.
    destruct (Fd_side k1 i1 c1 H1 E1) as [Hi1 Hc1]. destruct (Fd_side k2 i2 c2 H2 E2) as [Hi2 Hc2].
    rewrite (u_sel_irrel sel (b_ipsi b) a i1 i2 Hsel Hi (Fd_Dv _ Hi1) (Fd_Dv _ Hi2)).
    destruct (lift_graph (b_ipsi b) (graph_set_params_sel sel (u_graph (b_ipsi b)) a i2)) as [i' [a1|]]; [|reflexivity].
    destruct sym; [reflexivity|].
    rewrite (u_sel_irrel sel (b_contra b) a1 c1 c2 Hsel Hc (Fd_Dv _ Hc1) (Fd_Dv _ Hc2)). reflexivity.
  Qed.
  Lemma b_D_irrel b a k1 k2 : like (b_ipsi b) -> like (b_contra b) -> Fd k1 -> Fd k2 ->
    b_set_distribution_params b a k1 = b_set_distribution_params b a k2.
  Proof.
    intros Hi Hc H1 H2. unfold b_set_distribution_params.
    destruct (side_kwargs k1) as [i1 c1] eqn:E1. destruct (side_kwargs k2) as [i2 c2] eqn:E2.
    destruct (Fd_side k1 i1 c1 H1 E1) as [Hi1 Hc1]. destruct (Fd_side k2 i2 c2 H2 E2) as [Hi2 Hc2].
    rewrite (u_D_irrel (b_ipsi b) a i1 i2 Hi (Fd_Dv _ Hi1) (Fd_Dv _ Hi2)).
    destruct (u_set_distribution_params (b_ipsi b) a i2) as [i' [r|]]; [|reflexivity].
    rewrite (u_D_irrel (b_contra b) a c1 c2 Hc (Fd_Dv _ Hc1) (Fd_Dv _ Hc2)). reflexivity.
  Qed.

  Lemma X4_routing w : In w X4 -> In w routing.
  Proof. cbn. tauto. Qed.
  Lemma mixing_res mk cur : St mk -> ml_mixing mk = Some cur -> mid_resolvable m0 ["mixing"] = true.
  Proof.
    intros HS E. destruct (proj1 (SafeMidline.St_mixing m0 mk HS) (ex_intro _ cur E)) as (q & Hq).
    unfold mid_resolvable. rewrite Hq. cbn [is_some andb]. rewrite path_eqb_refl, orb_true_r. reflexivity.
  Qed.

  (** ** tumour spread *)
  Lemma m_T_irrel mk a : St mk -> m_set_tumor_spread_params mk a kw1 = m_set_tumor_spread_params mk a kw2.
  Proof.
    intros HS.
    destruct (SafeMidline.St_ext m0 Hsafe mk HS) as (_ & Hei & Hec & _).
    destruct (SafeMidline.St_noext m0 Hsafe mk HS) as (_ & Hni & Hnc & _).
    unfold m_set_tumor_spread_params. change ["ipsi"; "noext"; "ext"; "contra"] with X4.
    destruct (unflatten_and_split kw1 X4) as [s1 g1] eqn:Hu1. destruct (unflatten_and_split kw2 X4) as [s2 g2] eqn:Hu2.
    pose proof (Fr_refl kw1 Hnd1) as HF1. pose proof (Fr_refl kw2 Hnd2) as HF2.
    assert (Ho1 : forall name, In name X4 -> Fd (obj_kwargs name s1 g1))
      by (intros name Hn; left; apply (Fr_obj kw1 kw1 X4 name s1 g1 HF1 not_empty_X4 Hn (X4_routing _ Hn) Hu1)).
    assert (Ho2 : forall name, In name X4 -> Fd (obj_kwargs name s2 g2))
      by (intros name Hn; right; apply (Fr_obj kw2 kw2 X4 name s2 g2 HF2 not_empty_X4 Hn (X4_routing _ Hn) Hu2)).
    assert (Hi1 : Fd (obj_kwargs "ipsi" s1 g1)) by (apply Ho1; cbn; tauto).
    assert (Hi2 : Fd (obj_kwargs "ipsi" s2 g2)) by (apply Ho2; cbn; tauto).
    (* central *)
    assert (Hc : match ml_central mk with
                 | None => (mk, true)
                 | Some c => let '(c', ok) := ok_of (b_set_tumor_spread_params c a (obj_kwargs "ipsi" s1 g1)) in (ml_with_central mk c', ok)
                 end
               = match ml_central mk with
                 | None => (mk, true)
                 | Some c => let '(c', ok) := ok_of (b_set_tumor_spread_params c a (obj_kwargs "ipsi" s2 g2)) in (ml_with_central mk c', ok)
                 end).
    { destruct (ml_central mk) as [c|] eqn:Ec; [|reflexivity].
      destruct (SafeMidline.St_central m0 Hsafe mk c HS Ec) as (c0 & _ & (_ & Hci & Hcc & _)).
      unfold b_set_tumor_spread_params.
      rewrite (b_side_irrel is_tumor_spread (b_symT c) c a _ _ (or_introl eq_refl) Hci Hcc Hi1 Hi2). reflexivity. }
    rewrite Hc.
    destruct (match ml_central mk with
              | None => (mk, true)
              | Some c => let '(c', ok) := ok_of (b_set_tumor_spread_params c a (obj_kwargs "ipsi" s2 g2)) in (ml_with_central mk c', ok)
              end) as [m1 ok1] eqn:Ec.
    destruct (central_step_frame mk (fun c => ok_of (b_set_tumor_spread_params c a (obj_kwargs "ipsi" s2 g2))) m1 ok1 Ec) as (He1 & Hn1 & Hm1 & _).
    destruct ok1; cbn [negb]; [|reflexivity].
    rewrite He1.
    rewrite (u_T_irrel (b_ipsi (ml_ext mk)) a _ _ Hei (Fd_Dv _ Hi1) (Fd_Dv _ Hi2)).
    destruct (ok_of (u_set_tumor_spread_params (b_ipsi (ml_ext mk)) a (obj_kwargs "ipsi" s2 g2))) as [ei' ok2].
    destruct ok2; cbn [negb]; [|reflexivity].
    autorewrite with mlf. rewrite Hn1.
    rewrite (u_T_irrel (b_ipsi (ml_noext mk)) a _ _ Hni (Fd_Dv _ Hi1) (Fd_Dv _ Hi2)).
    destruct (u_set_tumor_spread_params (b_ipsi (ml_noext mk)) a (obj_kwargs "ipsi" s2 g2)) as [ni' [a3|]]; [|reflexivity].
    autorewrite with mlf. rewrite Hm1.
    destruct (ml_mixing mk) as [cur|] eqn:Emix.
    - assert (Hc1 : Fd (obj_kwargs "contra" s1 g1)) by (apply Ho1; cbn; tauto).
      assert (Hc2 : Fd (obj_kwargs "contra" s2 g2)) by (apply Ho2; cbn; tauto).
      rewrite (u_T_irrel (b_contra (ml_noext mk)) a3 _ _ Hnc (Fd_Dv _ Hc1) (Fd_Dv _ Hc2)).
      destruct (u_set_tumor_spread_params (b_contra (ml_noext mk)) a3 (obj_kwargs "contra" s2 g2)) as [nc' [a4|]]; [|reflexivity].
      pose proof (mixing_res mk cur HS Emix) as Hmr.
      rewrite (proj2 (Fr_Dv1 g1 (Fr_glob kw1 kw1 X4 s1 g1 HF1 not_empty_X4 Hu1)) _ Hmr).
      rewrite (proj2 (Fr_Dv2 g2 (Fr_glob kw2 kw2 X4 s2 g2 HF2 not_empty_X4 Hu2)) _ Hmr).
      reflexivity.
    - destruct (unflatten_and_split (sub_kwargs "noext" s1) ["contra"]) as [ns1 ng1] eqn:Hn1'.
      destruct (unflatten_and_split (sub_kwargs "noext" s2) ["contra"]) as [ns2 ng2] eqn:Hn2'.
      pose proof (Fr_nested kw1 "noext" s1 g1 ns1 ng1 Hnd1 (or_introl eq_refl) Hu1 Hn1') as HFn1.
      pose proof (Fr_nested kw2 "noext" s2 g2 ns2 ng2 Hnd2 (or_introl eq_refl) Hu2 Hn2') as HFn2.
      rewrite (u_T_irrel (b_contra (ml_noext mk)) a3 _ _ Hnc (Fr_Dv1 _ HFn1) (Fr_Dv2 _ HFn2)).
      destruct (u_set_tumor_spread_params (b_contra (ml_noext mk)) a3 (obj_kwargs "contra" ns2 g2)) as [nc' [a4|]]; [|reflexivity].
      destruct (unflatten_and_split (sub_kwargs "ext" s1) ["contra"]) as [es1 eg1] eqn:He1'.
      destruct (unflatten_and_split (sub_kwargs "ext" s2) ["contra"]) as [es2 eg2] eqn:He2'.
      pose proof (Fr_nested kw1 "ext" s1 g1 es1 eg1 Hnd1 (or_intror eq_refl) Hu1 He1') as HFe1.
      pose proof (Fr_nested kw2 "ext" s2 g2 es2 eg2 Hnd2 (or_intror eq_refl) Hu2 He2') as HFe2.
      autorewrite with mlf. rewrite ?He1.
      rewrite (u_T_irrel (b_contra (ml_ext mk)) a4 _ _ Hec (Fr_Dv1 _ HFe1) (Fr_Dv2 _ HFe2)). reflexivity.
  Qed.

  (** ** LNL spread *)
  Definition leaves_like (mk : midline) : Prop := forall l u, ml_leaf mk l = Some u -> like u.
  Lemma leaves_like_with mk l u' : leaves_like mk -> ml_leaf mk l <> None -> like u' -> leaves_like (ml_with_leaf mk l u').
  Proof.
    intros HI Hl Hlk l' u Hu. destruct (leaf_id_dec l l') as [<-|Hne].
    - rewrite (ml_leaf_with_same mk l u' Hl) in Hu. injection Hu as <-. exact Hlk.
    - rewrite (ml_leaf_with_other mk l l' u' Hne) in Hu. apply (HI l' u Hu).
  Qed.
  Lemma lnl_block_irrel ls : forall mk a k1 k2, Dv k1 -> Dv k2 -> leaves_like mk ->
    m_set_lnl_block mk ls a k1 = m_set_lnl_block mk ls a k2.
  Proof.
    induction ls as [|l r IH]; intros mk a k1 k2 H1 H2 HI; [reflexivity|]. cbn [m_set_lnl_block].
    destruct (ml_leaf mk l) as [u|] eqn:El; [|apply IH; assumption].
    rewrite (u_L_irrel u a k1 k2 (HI l u El) H1 H2).
    pose proof (SafeProofs.sk_uni_set_lnl u a k2) as Hsk.
    destruct (u_set_lnl_spread_params u a k2) as [u' [a'|]]; [|reflexivity]. cbn [fst] in Hsk.
    destruct r as [|l2 r2]; [reflexivity|]. apply IH; try assumption.
    apply leaves_like_with; [exact HI | congruence | apply (SafeMidline.like_ei_sk m0 u' u (HI l u El) Hsk)].
  Qed.
  Lemma St_leaves_like mk : St mk -> leaves_like mk.
  Proof. intros HS l u Hl. apply (SafeMidline.St_leaf m0 Hsafe mk l u HS Hl). Qed.

  Lemma m_L_irrel mk a : St mk -> m_set_lnl_spread_params mk a kw1 = m_set_lnl_spread_params mk a kw2.
  Proof.
    intros HS. unfold m_set_lnl_spread_params. change ["ipsi"; "noext"; "ext"; "contra"] with X4.
    destruct (unflatten_and_split kw1 X4) as [s1 g1] eqn:Hu1. destruct (unflatten_and_split kw2 X4) as [s2 g2] eqn:Hu2.
    pose proof (Fr_refl kw1 Hnd1) as HF1. pose proof (Fr_refl kw2 Hnd2) as HF2.
    pose proof (St_leaves_like mk HS) as HI.
    destruct (ml_symL mk).
    - apply lnl_block_irrel; [apply Fr_Dv1, (Fr_glob kw1 kw1 X4 s1 g1 HF1 not_empty_X4 Hu1) | apply Fr_Dv2, (Fr_glob kw2 kw2 X4 s2 g2 HF2 not_empty_X4 Hu2) | exact HI].
    - assert (Ho1 : forall name, In name X4 -> Dv (obj_kwargs name s1 g1))
        by (intros name Hn; apply Fr_Dv1, (Fr_obj kw1 kw1 X4 name s1 g1 HF1 not_empty_X4 Hn (X4_routing _ Hn) Hu1)).
      assert (Ho2 : forall name, In name X4 -> Dv (obj_kwargs name s2 g2))
        by (intros name Hn; apply Fr_Dv2, (Fr_obj kw2 kw2 X4 name s2 g2 HF2 not_empty_X4 Hn (X4_routing _ Hn) Hu2)).
      rewrite (lnl_block_irrel [LCentralIpsi; LExtIpsi; LNoextIpsi] mk a (obj_kwargs "ipsi" s1 g1) (obj_kwargs "ipsi" s2 g2))
        by (first [exact HI | apply Ho1; cbn; tauto | apply Ho2; cbn; tauto]).
      pose proof (SafeProofs.sk_mid_set_lnl_block [LCentralIpsi; LExtIpsi; LNoextIpsi] mk a (obj_kwargs "ipsi" s2 g2)) as Hsk.
      destruct (m_set_lnl_block mk [LCentralIpsi; LExtIpsi; LNoextIpsi] a (obj_kwargs "ipsi" s2 g2)) as [m1 [a1|]]; [|reflexivity].
      cbn [andthen fst] in Hsk |- *.
      apply lnl_block_irrel; [apply Ho1; cbn; tauto | apply Ho2; cbn; tauto|].
      apply St_leaves_like. unfold SafeMidline.St. rewrite Hsk. exact HS.
  Qed.

  (** ** distributions *)
  Lemma m_D_irrel mk a : St mk -> m_set_distribution_params mk a kw1 = m_set_distribution_params mk a kw2.
  Proof.
    intros HS.
    destruct (SafeMidline.St_ext m0 Hsafe mk HS) as (_ & Hei & Hec & _).
    destruct (SafeMidline.St_noext m0 Hsafe mk HS) as (_ & Hni & Hnc & _).
    unfold m_set_distribution_params. fold (XD mk).
    destruct (unflatten_and_split kw1 (XD mk)) as [s1 g1] eqn:Hu1. destruct (unflatten_and_split kw2 (XD mk)) as [s2 g2] eqn:Hu2.
    pose proof (Fr_refl kw1 Hnd1) as HF1. pose proof (Fr_refl kw2 Hnd2) as HF2.
    assert (HeD : ~ In "" (XD mk)) by (intros H; apply XD_routing in H; cbn in H; intuition discriminate).
    assert (Ho1 : forall name, In name (XD mk) -> Fd (obj_kwargs name s1 g1))
      by (intros name Hn; left; apply (Fr_obj kw1 kw1 (XD mk) name s1 g1 HF1 HeD Hn (XD_routing mk _ Hn) Hu1)).
    assert (Ho2 : forall name, In name (XD mk) -> Fd (obj_kwargs name s2 g2))
      by (intros name Hn; right; apply (Fr_obj kw2 kw2 (XD mk) name s2 g2 HF2 HeD Hn (XD_routing mk _ Hn) Hu2)).
    assert (Hxe : In "ext" (XD mk)) by apply XD_props.
    assert (Hxn : In "noext" (XD mk)) by (unfold XD; cbn; tauto).
    rewrite (b_D_irrel (ml_ext mk) a _ _ Hei Hec (Ho1 _ Hxe) (Ho2 _ Hxe)).
    destruct (b_set_distribution_params (ml_ext mk) a (obj_kwargs "ext" s2 g2)) as [e' [r1|]]; [|reflexivity].
    autorewrite with mlf.
    rewrite (b_D_irrel (ml_noext mk) a _ _ Hni Hnc (Ho1 _ Hxn) (Ho2 _ Hxn)).
    destruct (b_set_distribution_params (ml_noext mk) a (obj_kwargs "noext" s2 g2)) as [n' [r2|]]; [|reflexivity].
    autorewrite with mlf.
    assert (Hk : forall k, ml_unknown mk = Some k ->
              b_set_distribution_params k a (obj_kwargs "unknown" s1 g1) = b_set_distribution_params k a (obj_kwargs "unknown" s2 g2)).
    { intros k Ek. destruct (SafeMidline.St_unknown m0 Hsafe mk k HS Ek) as (k0 & _ & (_ & Hki & Hkc & _)).
      assert (Hxk : In "unknown" (XD mk)) by (unfold XD; rewrite Ek; destruct (ml_central mk); cbn; tauto).
      apply b_D_irrel; [exact Hki | exact Hkc | apply Ho1, Hxk | apply Ho2, Hxk]. }
    destruct (ml_central mk) as [c|] eqn:Ec.
    - destruct (SafeMidline.St_central m0 Hsafe mk c HS Ec) as (c0 & _ & (_ & Hci & Hcc & _)).
      assert (Hxc : In "central" (XD mk)) by (unfold XD; rewrite Ec; cbn; tauto).
      rewrite (b_D_irrel c a _ _ Hci Hcc (Ho1 _ Hxc) (Ho2 _ Hxc)).
      destruct (b_set_distribution_params c a (obj_kwargs "central" s2 g2)) as [c' [r3|]]; cbv beta iota; [|reflexivity].
      autorewrite with mlf. destruct (ml_unknown mk) as [k|] eqn:Ek; [|reflexivity].
      rewrite (Hk k eq_refl). reflexivity.
    - cbv beta iota. autorewrite with mlf. destruct (ml_unknown mk) as [k|] eqn:Ek; [|reflexivity].
      rewrite (Hk k eq_refl). reflexivity.
  Qed.

  (** ** the whole call *)
  Lemma m_chain_irrel mk a : St mk ->
    andthen (m_set_spread_params mk a kw1) (fun m1 a1 => m_set_distribution_params m1 a1 kw1)
    = andthen (m_set_spread_params mk a kw2) (fun m1 a1 => m_set_distribution_params m1 a1 kw2).
  Proof.
    intros HS. unfold m_set_spread_params. rewrite (m_T_irrel mk a HS).
    pose proof (SafeProofs.sk_mid_set_tumor mk a kw2) as HskT.
    destruct (m_set_tumor_spread_params mk a kw2) as [m1 [a1|]]; [|reflexivity]. cbn [andthen fst] in HskT |- *.
    assert (HS1 : St m1) by (unfold SafeMidline.St; rewrite HskT; exact HS).
    rewrite (m_L_irrel m1 a1 HS1).
    pose proof (SafeProofs.sk_mid_set_lnl m1 a1 kw2) as HskL.
    destruct (m_set_lnl_spread_params m1 a1 kw2) as [m2 [a2|]]; [|reflexivity]. cbn [andthen fst] in HskL |- *.
    apply m_D_irrel. unfold SafeMidline.St. rewrite HskL. exact HS1.
  Qed.
  Lemma midext_res : mid_resolvable m0 ["midext"; "prob"] = true.
  Proof. unfold mid_resolvable. rewrite path_eqb_refl, orb_true_r. reflexivity. Qed.
  Lemma m_set_params_irrel a : m_set_params m0 a kw1 = m_set_params m0 a kw2.
  Proof.
    unfold m_set_params. destruct (m_get_params m0 true) as [ps|]; [|reflexivity].
    destruct (popat a (Z.of_nat (length ps) - 1)) as [[before last] after].
    rewrite (proj2 (Fr_Dv1 kw1 (Fr_refl kw1 Hnd1)) _ midext_res), (proj2 (Fr_Dv2 kw2 (Fr_refl kw2 Hnd2)) _ midext_res).
    destruct last as [v|]; cbn [option_map].
    - destruct (check_unit v) as [q|]; cbn [option_map]; [|reflexivity].
      apply m_chain_irrel. apply SafeProofs.sk_mid_with_midext.
    - apply m_chain_irrel. reflexivity.
  Qed.
End Irrelevant.

Lemma mid_kw_unknown_nil m : mid_kw_unknown m [] = true.
Proof. reflexivity. Qed.
Lemma mid_kw_unknown_app m k1 k2 : mid_kw_unknown m (k1 ++ k2) = mid_kw_unknown m k1 && mid_kw_unknown m k2.
Proof. unfold mid_kw_unknown. rewrite map_app, forallb_app. reflexivity. Qed.

Theorem mid_unknown_names_ignored : C10_mid_unknown_names_ignored_stmt.
Proof.
  intros m a kw Hsafe Hnd Hunk. apply (m_set_params_irrel m kw [] Hsafe Hnd (NoDup_nil _) Hunk (mid_kw_unknown_nil m)).
Qed.
Theorem mid_unknown_names_ignored_got : C10_mid_unknown_names_ignored_got_stmt.
Proof.
  intros m a kw Hsafe Hnd Hunk r1 r2. subst r1 r2. rewrite (mid_unknown_names_ignored m a kw Hsafe Hnd Hunk). split; reflexivity.
Qed.
