(** SyncMidlineRecovery: recovery of the Midline invariant (C11) by a complete valid
    KEYWORD assignment, from any state of a configuration.

    [Sync.C11_midline_full_assignment_restores_stmt] is about a complete POSITIONAL
    assignment under [m_wf] / [m_shapes_agree] / [m_config_sim]; what is proved here is the
    keyword form ([set_params( **dict(zip(names, v)))], what [likelihood(given_params=...)]
    and every sampler do), by combining
    - C12 [SafeMidline.mid_full_assignment_absorbing]: an acceptable full keyword assignment
      leaves the SAME object behind on any two objects of the same configuration, and
    - C11 [SyncProofs.midline_params_preserved] / [fresh_consistent]: [set_params] that
      returns normally preserves [m_wf] and [m_consistent].
    New definitions and proofs only; nothing existing is changed. *)
From LymphModel Require Import Base States Linalg Graph Transition Observation Dist Unilateral Models Params
  ParamsStatements ParamsLemmas ParamsProofs ParamsBilateral ParamsMidline Safe ParamsMidlineSafe SafeProofs SafeMidline
  Sync SyncProofs.
Local Open Scope nat_scope.
Local Open Scope string_scope.
Local Open Scope list_scope.

(** * Statements *)
(** [m0] is ANY well-formed consistent object (e.g. a freshly constructed one, or the state
    after any history of normally returning calls); [m] is ANY object of the same
    configuration ([Safe.same_config]: same graphs, modalities, frozen distributions,
    families, max_time, flags; ALL settable numbers arbitrary, in particular the leaves may
    be out of sync after half-way failures).  [v] is a complete proposal in the order of
    [get_params] that is acceptable ([Safe.m_accepts]: spread values, mixing, midext_prob in
    [0,1], every leaf's distributions accept). *)
Definition C11_midline_full_assignment_restores_kw_stmt : Prop :=
  forall m0 m v,
    m_wf m0 = true -> m_consistent m0 -> m_names_ok m0 = true ->
    Safe.same_config (MMid m) (MMid m0) ->
    length v = length (m_items m) -> m_accepts m (vals v) = true ->
    let r := m_set_params m [] (kw_of (m_names m) v) in
    snd r = Some [] /\
    fst r = fst (m_set_params m0 [] (kw_of (m_names m) v)) /\
    m_wf (fst r) = true /\ m_consistent (fst r).

(** a history of raw setter calls (any of the five setters, any arguments, returning
    normally or raising half-way) *)
Fixpoint m_after (m : midline) (cs : list (setter * args * kwargs)) : midline :=
  match cs with
  | [] => m
  | (s, a, kw) :: r => m_after (fst (m_call s m a kw)) r
  end.
(** from a freshly constructed model, after ANY such history, a complete acceptable keyword
    assignment returns normally and leaves exactly the object it leaves on the fresh model,
    which is well-formed and consistent *)
Definition C11_midline_recovery_after_history_stmt : Prop :=
  forall u mix cen evo unk symL cs v,
    u_names_ok u = true ->
    let m0 := new_midline u mix cen evo unk symL in
    let m := m_after m0 cs in
    length v = length (m_items m) -> m_accepts m (vals v) = true ->
    let r := m_set_params m [] (kw_of (m_names m) v) in
    snd r = Some [] /\
    fst r = fst (m_set_params m0 [] (kw_of (m_names m0) v)) /\
    m_wf (fst r) = true /\ m_consistent (fst r).

(** * The full keyword assignment is in the domain of the preservation theorem *)
Section Domain.
  Variables (m : midline) (v : list val).
  Hypothesis Hok : m_names_ok m = true.
  Hypothesis Hl : length v = length (m_items m).
  Let Hnd : NoDup (m_names m) := proj2 (safe_mid_names_nodup m Hok).

  Lemma mkw_no_double_ipsi : no_double_ipsi (mkw m v).
  Proof.
    intros k Hk. rewrite (kw_keys m v Hl) in Hk. pose proof (m_name_form m k Hok Hk) as Hf.
    destruct (double_ipsi k) eqn:E; [|reflexivity]. exfalso.
    destruct k as [|h1 [|h2 t]]; cbn [double_ipsi] in E; try discriminate.
    apply andb_true_iff in E. destruct E as [E1 E2]. apply str_eqb_eq in E1, E2. subst h1 h2.
    inversion Hf; subst.
    - apply (EN_not_reserved m "ipsi" Hok); [assumption | cbn; tauto].
    - apply (EN_not_reserved m "ipsi" Hok); [assumption | cbn; tauto].
    - apply (TS_not_reserved m "ipsi" Hok); [assumption | cbn; tauto].
  Qed.

  Lemma mkw_plain_dist k : In k (DK m) -> u_lk (mkw m v) k = Some (LV m v k).
  Proof.
    intros Hk. destruct (DK_form m k Hk) as (t & s & -> & _). unfold u_lk.
    rewrite (kw_in m v Hnd Hl [t; s]) by (apply M_dist; assumption). reflexivity.
  Qed.

  Lemma m_children_XB (m' : midline) : incl (m_children m') XB.
  Proof.
    unfold m_children, XB. intros x Hx. rewrite !in_app_iff in Hx.
    destruct (ml_central m'), (ml_unknown m'); cbn in *; intuition.
  Qed.

  (** every leaf of any object [m'] with the distribution keys of [m] receives, for every
      distribution parameter, what the plain look-up gives *)
  Lemma mkw_dist_kw_agree m' : map fst (u_dist_items (ext_i m')) = DK m -> m_dist_kw_agree m' (mkw m v).
  Proof.
    intros HD kwl k Hkwl Hk. rewrite HD in Hk. rewrite (mkw_plain_dist k Hk).
    unfold m_dist_leaf_kwargs in Hkwl. destruct (unflatten_and_split (mkw m v) (m_children m')) as [split glob] eqn:Hu.
    apply in_flat_map in Hkwl. destruct Hkwl as (child & Hch & Hkwl).
    unfold b_dist_leaf_kwargs in Hkwl. destruct (side_kwargs (obj_kwargs child split glob)) as [ikw ckw] eqn:Hsk.
    destruct (side_kwargs_lk _ ikw ckw Hsk) as [Hi Hc].
    destruct (DK_form m k Hk) as (t & s & -> & _).
    destruct Hkwl as [<-|[<-|[]]].
    - rewrite Hi. apply (lk_dist m v Hok Hnd Hl (m_children m') split glob child "ipsi" t s (m_children_XB m') Hu Hch (or_introl eq_refl) Hk).
    - rewrite Hc. apply (lk_dist m v Hok Hnd Hl (m_children m') split glob child "contra" t s (m_children_XB m') Hu Hch (or_intror eq_refl) Hk).
  Qed.
End Domain.

(** * Freshly constructed models are well-formed in the sense of Safe.v *)
Lemma new_midline_names_ok u mix cen evo unk symL : u_names_ok u = true ->
  m_names_ok (new_midline u mix cen evo unk symL) = true.
Proof.
  intros Hu. unfold m_names_ok, m_bis, m_ei, new_midline, new_bilateral.
  cbn [ml_ext ml_noext ml_central ml_unknown ml_symL b_ipsi b_contra b_symT b_symL].
  assert (Hb : forall sT sL, b_names_ok {| b_ipsi := u; b_contra := u; b_symT := sT; b_symL := sL |} = true)
    by (intros; apply b_names_ok_twice, Hu).
  assert (Hs : same_shape u u && same_dist_keys u u = true).
  { rewrite SyncProofs.same_shape_refl. unfold same_dist_keys. rewrite SyncProofs.keys_eqb_refl. reflexivity. }
  destruct cen, unk; cbn [opt_list app forallb b_ipsi b_contra b_symT b_symL negb];
    rewrite ?Hb, ?Hs, ?Bool.eqb_reflx; reflexivity.
Qed.

(** * The recovery theorem *)
Theorem midline_full_assignment_restores_kw : C11_midline_full_assignment_restores_kw_stmt.
Proof.
  intros m0 m v Hwf0 Hc0 Hok0 Hcfg Hl Hacc r.
  unfold Safe.same_config in Hcfg. cbn [sk_model] in Hcfg. apply MMid_inj in Hcfg.
  pose proof (m_names_ok_sk m m0 Hcfg Hok0) as Hok.
  pose proof (m_names_sk m m0 Hok0 Hcfg) as Hn.
  destruct (mid_full_assignment_absorbing safe_mid_names_nodup m m0 v Hok Hcfg Hl Hacc) as [Heq Hret].
  assert (Hlv0 : length (vals v) = length (m_items m0)).
  { rewrite vals_length, Hl, <- !(map_length fst). fold (m_names m) (m_names m0). rewrite Hn. reflexivity. }
  (* the call on the consistent object [m0] is in the domain of the preservation theorem *)
  assert (Hkw : kw_of (m_names m) v = mkw m0 (vals v)) by (unfold kw_of, mkw; rewrite Hn; reflexivity).
  assert (Hret0 : snd (m_set_params m0 [] (kw_of (m_names m) v)) <> None).
  { rewrite <- Heq, Hret. discriminate. }
  pose proof (midline_params_preserved m0 [] (kw_of (m_names m) v) Hwf0 Hc0) as HP.
  cbn [m_call touches_dists] in HP.
  specialize (HP ltac:(intros _; rewrite Hkw; apply (mkw_no_double_ipsi m0 (vals v) Hok0 Hlv0)) Hret0).
  cbv zeta in HP. destruct HP as (Hwf' & Hsh' & Hcf').
  assert (E : fst r = fst (m_set_params m0 [] (kw_of (m_names m) v))) by (unfold r; rewrite Heq; reflexivity).
  split; [exact Hret|]. split; [exact E|]. rewrite E. split; [exact Hwf'|]. split; [exact Hsh'|].
  apply Hcf'. right. rewrite Hkw. apply (mkw_dist_kw_agree m0 (vals v) Hok0 Hlv0). reflexivity.
Qed.

(** * ... after any history of setter calls on a fresh model *)
Lemma sk_mid_call s m a kw : sk_mid (fst (m_call s m a kw)) = sk_mid m.
Proof.
  destruct s; cbn [m_call];
    [apply sk_mid_set_params | apply sk_mid_set_tumor | apply sk_mid_set_lnl | apply sk_mid_set_spread | apply sk_mid_set_dist].
Qed.
Lemma sk_mid_after cs : forall m, sk_mid (m_after m cs) = sk_mid m.
Proof.
  induction cs as [|[[s a] kw] r IH]; intros m; [reflexivity|]. cbn [m_after]. rewrite IH. apply sk_mid_call.
Qed.

Theorem midline_recovery_after_history : C11_midline_recovery_after_history_stmt.
Proof.
  intros u mix cen evo unk symL cs v Hu m0 m Hl Hacc r.
  destruct (fresh_consistent u Hu) as (_ & Hm & _). destruct (Hm mix cen evo unk symL) as [Hwf0 Hc0]. fold m0 in Hwf0, Hc0.
  pose proof (new_midline_names_ok u mix cen evo unk symL Hu) as Hok0. fold m0 in Hok0.
  assert (Hsk : sk_mid m = sk_mid m0) by apply sk_mid_after.
  assert (Hcfg : Safe.same_config (MMid m) (MMid m0)) by (unfold Safe.same_config; cbn [sk_model]; rewrite Hsk; reflexivity).
  destruct (midline_full_assignment_restores_kw m0 m v Hwf0 Hc0 Hok0 Hcfg Hl Hacc) as (R1 & R2 & R3 & R4).
  rewrite (m_names_sk m m0 Hok0 Hsk) in R2 at 2. subst r. exact (conj R1 (conj R2 (conj R3 R4))).
Qed.

(** * The same from hypotheses on the state alone *)
(** Closest to [Sync.C11_midline_full_assignment_restores_stmt]: no reference object; the
    state is well-formed ([Safe.m_names_ok]) and its leaves differ at most in parameter
    values ([Sync.m_config_sim]: equal modalities, max_time, T-stages, distribution families
    and keyword NAMES; keyword values, spread values, mixing, midext_prob arbitrary). *)
Definition C11_midline_full_assignment_restores_kw_sim_stmt : Prop :=
  forall m v, m_names_ok m = true -> m_config_sim m ->
    length v = length (m_items m) -> m_accepts m (vals v) = true ->
    let r := m_set_params m [] (kw_of (m_names m) v) in
    snd r = Some [] /\ m_wf (fst r) = true /\ m_consistent (fst r).

Lemma names_ok_wf m : m_names_ok m = true -> m_wf m = true.
Proof.
  unfold m_names_ok, m_wf, m_bis. rewrite !andb_true_iff. intros [[[[[Hb _] _] _] Hc] _].
  destruct (ml_central m) as [c|], (ml_unknown m) as [k|]; cbn [opt_list app forallb opt_ok] in *;
    rewrite ?andb_true_iff in Hb; rewrite ?andb_true_iff; intuition.
Qed.

Lemma all_leaves_bis m u : In u (all_leaves m) -> exists b, In b (m_bis m) /\ (u = b_ipsi b \/ u = b_contra b).
Proof.
  unfold all_leaves, m_bis, ext_i, ext_c, noext_i, noext_c.
  destruct (ml_central m) as [c|], (ml_unknown m) as [k|]; cbn [opt_leaves opt_list app In]; intros H;
    repeat (destruct H as [<-|H]; [eexists; split; [|eauto]; cbn; tauto|]); destruct H.
Qed.

Lemma mixed_items_combine mix (K : list path) : forall qi qc, length qi = length K -> length qc = length K ->
  mixed_items mix (combine K qi) (combine K qc) = combine K (mixed mix qi qc).
Proof.
  intros qi qc Hi Hc. unfold mixed_items. rewrite (ParamsLemmas.map_snd_combine K qc) by (symmetry; exact Hc).
  revert qi qc Hi Hc. induction K as [|k K IH]; intros [|a qi] [|b qc] Hi Hc; cbn [length] in *; try discriminate; [reflexivity|].
  unfold mixed. cbn [combine map fst snd]. f_equal. apply IH; lia.
Qed.

Section Direct.
  Variables (m : midline) (v : list val).
  Hypothesis Hok : m_names_ok m = true.

  Lemma leaf_fin_T u qT qL : like_ei m u -> length qT = length (TK m) -> u_T (leaf_fin m v u qT qL) = combine (TK m) qT.
  Proof.
    intros (_ & HT & _) Hl. unfold leaf_fin. rewrite u_with_dists_T, u_put_sel_T_lnl, put_T_keys.
    - unfold u_T. rewrite HT. reflexivity.
    - unfold u_T. rewrite <- (map_length fst), HT. exact Hl.
  Qed.
  Lemma leaf_fin_L u qT qL : like_ei m u -> length qL = length (LK m) -> u_L (leaf_fin m v u qT qL) = combine (LK m) qL.
  Proof.
    intros (_ & _ & HL & _) Hl. unfold leaf_fin. rewrite u_with_dists_L.
    set (u1 := u_put_sel is_tumor_spread u qT).
    assert (E : u_L u1 = u_L u) by apply u_put_sel_L_tumor.
    change (u_L (u_put_sel sel_lnl u1 qL)) with (u_sel_items sel_lnl (u_put_sel sel_lnl u1 qL)).
    rewrite (u_sel_items_put sel_lnl u1 qL kind_sel_lnl).
    - change (u_sel_items sel_lnl u1) with (u_L u1). rewrite E. unfold u_L. rewrite HL. reflexivity.
    - change (u_sel_items sel_lnl u1) with (u_L u1). rewrite E. unfold u_L. rewrite <- (map_length fst), HL. exact Hl.
  Qed.
  Lemma leaf_fin_cfg u qT qL :
    u_mods (leaf_fin m v u qT qL) = u_mods u /\ u_maxt (leaf_fin m v u qT qL) = u_maxt u
    /\ u_dists (leaf_fin m v u qT qL) = force_ds m v u.
  Proof. repeat split. Qed.

  Hypothesis Hsim : m_config_sim m.
  Variables (q : Qc) (qTi qTc qTe : list Qc) (mixo : option Qc) (qLi qLc : list Qc).
  Hypothesis Htv : tumor_vals m v = Some (qTi, qTc, qTe, mixo).
  Hypothesis Hlv : lnl_vals m v = Some (qLi, qLc).
  Hypothesis Hd : dist_ok m v m = true.
  Let r := m_explicit m v q qTi qTc qTe mixo qLi qLc.
  Let qLc' := if ml_symL m then qLi else qLc.
  Let qTec := match mixo with Some mix => mixed mix qTi qTc | None => qTe end.

  (** every leaf of [m] receives distributions, and all receive the same ones *)
  Lemma force_ds_same u : In u (all_leaves m) -> force_ds m v u = force_ds m v (ext_i m).
  Proof.
    intros Hin. unfold dist_ok in Hd. rewrite forallb_forall in Hd.
    assert (Hsome : forall w, In w (all_leaves m) -> leaf_ds m v w <> None).
    { intros w Hw. destruct (all_leaves_bis m w Hw) as (b & Hb & Hs). specialize (Hd b Hb). unfold bi_ds_ok in Hd.
      apply andb_true_iff in Hd. destruct Hd as [H1 H2]. destruct Hs as [-> | ->]; intros E; rewrite E in *; discriminate. }
    assert (He : In (ext_i m) (all_leaves m)) by (left; reflexivity).
    pose proof (Hsome u Hin) as Hu. pose proof (Hsome _ He) as Hx.
    destruct (Hsim u Hin) as (_ & Hmt & Hk & Hs). unfold force_ds, leaf_ds in *.
    destruct (dists_put (u_maxt u) (u_dists u) (vD m v)) as [d1|] eqn:E1; [|contradiction].
    destruct (dists_put (u_maxt (ext_i m)) (u_dists (ext_i m)) (vD m v)) as [d2|] eqn:E2; [|contradiction].
    rewrite Hmt in E1. apply (dists_put_sim _ _ _ _ _ _ Hk Hs E1 E2).
  Qed.

  Lemma explicit_leaves u' : In u' (all_leaves r) ->
    exists u, In u (all_leaves m) /\ ((exists qT qL, u' = leaf_fin m v u qT qL) \/ u' = u_with_dists u (force_ds m v u)).
  Proof.
    unfold all_leaves, ext_i, ext_c, noext_i, noext_c, r, m_explicit.
    cbn [ml_ext ml_noext ml_central ml_unknown b_with b_ipsi b_contra].
    destruct (ml_central m) as [c|], (ml_unknown m) as [k|]; cbn [option_map opt_leaves bi_ds b_with b_ipsi b_contra app In]; intros H;
      repeat (destruct H as [<-|H];
              [eexists; split; [|first [left; do 2 eexists; reflexivity | right; reflexivity]]; cbn [In]; tauto|]); destruct H.
  Qed.

  Lemma explicit_same_config : m_same_config r.
  Proof.
    assert (H : forall u', In u' (all_leaves r) ->
              u_mods u' = u_mods (ext_i m) /\ u_dists u' = force_ds m v (ext_i m) /\ u_maxt u' = u_maxt (ext_i m)).
    { intros u' Hu'. destruct (explicit_leaves u' Hu') as (u & Hin & Hu).
      assert (Hc : u_mods u' = u_mods u /\ u_maxt u' = u_maxt u /\ u_dists u' = force_ds m v u).
      { destruct Hu as [(qT & qL & ->) | ->]; [apply leaf_fin_cfg | repeat split]. }
      destruct Hc as (Hm & Ht & Hds).
      destruct (Hsim u Hin) as (Hm2 & Ht2 & _). rewrite Hm, Ht, Hds, (force_ds_same u Hin). repeat split; assumption. }
    intros u' Hu'. destruct (H u' Hu') as (A & B & C).
    destruct (H (ext_i r)) as (A' & B' & C'); [left; reflexivity|].
    unfold Sync.same_config. rewrite A, B, C, A', B', C'. repeat split.
  Qed.

  Lemma explicit_shared : m_shared r.
  Proof.
    destruct (tumor_vals_lengths _ _ _ _ _ _ Htv) as (LTi & LTc & LTe). destruct (lnl_vals_lengths _ _ _ _ Hlv) as (LLi & LLc).
    fold qTec in LTe.
    assert (LLc' : length qLc' = length (LK m)) by (unfold qLc'; destruct (ml_symL m); assumption).
    destruct (m_ok_bi m _ Hok (m_ok_ext m Hok)) as (_ & Hei & Hec & _).
    destruct (m_ok_bi m _ Hok (m_ok_noext m Hok)) as (_ & Hni & Hnc & _).
    assert (Hcen : forall c, ml_central m = Some c -> like_ei m (b_ipsi c) /\ like_ei m (b_contra c)).
    { intros c Ec. destruct (m_ok_bi m c Hok (m_ok_central m c Ec)) as (_ & Hci & Hcc & _). split; assumption. }
    assert (XTei : u_T (ext_i r) = combine (TK m) qTi) by (apply leaf_fin_T; assumption).
    assert (XTec : u_T (ext_c r) = combine (TK m) qTec) by (apply leaf_fin_T; assumption).
    assert (XTnc : u_T (noext_c r) = combine (TK m) qTc) by (apply leaf_fin_T; assumption).
    assert (XLei : u_L (ext_i r) = combine (LK m) qLi) by (apply leaf_fin_L; assumption).
    assert (XLec : u_L (ext_c r) = combine (LK m) qLc') by (apply leaf_fin_L; assumption).
    unfold m_shared. rewrite XTei, XTec, XTnc, XLei, XLec.
    unfold ipsi_leaves, contra_leaves, ext_i, ext_c, noext_i, noext_c, r, m_explicit.
    cbn [ml_ext ml_noext ml_central ml_mixing ml_symL b_with b_ipsi b_contra]. fold qLc' qTec.
    split; [|split; [|split; [|split; [|split]]]].
    - destruct (ml_central m) as [c|] eqn:Ec; cbn [option_map opt_leaves app In b_with b_ipsi]; intros u H;
        repeat (destruct H as [<-|H]; [apply leaf_fin_T; try assumption; apply (Hcen c eq_refl)|]); destruct H.
    - intros c'. destruct (ml_central m) as [c|] eqn:Ec; cbn [option_map]; [|discriminate]. intros [= <-].
      cbn [b_with b_contra]. apply leaf_fin_T; [apply (Hcen c eq_refl) | exact LTi].
    - intros mix Hm. unfold qTec. destruct mixo as [mix0|].
      + injection Hm as <-. symmetry. apply mixed_items_combine; assumption.
      + exfalso. unfold tumor_vals in Htv. destruct (all_unit (vTi m v)); [|discriminate]. destruct (all_unit (vTc m v)); [|discriminate].
        destruct (ml_mixing m); [destruct (check_unit _); discriminate | discriminate].
    - destruct (ml_central m) as [c|] eqn:Ec; cbn [option_map opt_leaves app In b_with b_ipsi]; intros u H;
        repeat (destruct H as [<-|H]; [apply leaf_fin_L; try assumption; apply (Hcen c eq_refl)|]); destruct H.
    - destruct (ml_central m) as [c|] eqn:Ec; cbn [option_map opt_leaves app In b_with b_contra]; intros u H;
        repeat (destruct H as [<-|H]; [apply leaf_fin_L; try assumption; apply (Hcen c eq_refl)|]); destruct H.
    - intros E. unfold qLc'. rewrite E. reflexivity.
  Qed.
End Direct.

Theorem midline_full_assignment_restores_kw_sim : C11_midline_full_assignment_restores_kw_sim_stmt.
Proof.
  intros m v Hok Hsim Hl Hacc r.
  assert (Hlv : length (vals v) = length (m_items m)) by (rewrite vals_length; exact Hl).
  destruct (m_set_accept m (vals v) Hok safe_mid_names_nodup Hlv Hacc) as (q & qTi & qTc & qTe & mixo & qLi & qLc & Hset & Htv & Hlnl & _ & Hd).
  unfold mkw in Hset. fold (kw_of (m_names m) v) in Hset.
  assert (Hwf : m_wf (fst r) = true).
  { apply names_ok_wf. apply (m_names_ok_sk _ m); [apply sk_mid_set_params | exact Hok]. }
  subst r. rewrite Hset in *. cbn [fst snd] in *. split; [reflexivity|]. split; [exact Hwf|]. split.
  - apply (explicit_shared m (vals v) Hok q qTi qTc qTe mixo qLi qLc Htv Hlnl).
  - apply (explicit_same_config m (vals v) Hsim q qTi qTc qTe mixo qLi qLc Hd).
Qed.

Print Assumptions midline_full_assignment_restores_kw.
Print Assumptions midline_recovery_after_history.
Print Assumptions midline_full_assignment_restores_kw_sim.
