(** Invariance (C15): results do not depend on names or on listing order.

    The transformations of a model that must not change its results, each as a
    function / relation on the records of Graph.v, Unilateral.v, Models.v:
      - [arcs_reordered]   the arcs are created in another order (a node's connection
                           list is permuted): the edge list is a [Permutation];
      - [nodes_relisted]   the nodes of the graph dictionary are listed in another
                           order: the node list is a [Permutation]; states are digit
                           lists in LNL listing order, so a state [x] of the old
                           listing is the state [relist g g' x] of the new one;
      - modality order     [u_mods] is a [Permutation];
      - column order       the patient's findings (dicts keyed by modality / LNL name)
                           are listed in another order: [same_findings];
      - [rename_uni]       LNL / tumour names and modality names are replaced by their
                           images under injective maps, the patients' findings and
                           the involvement pattern of a risk query likewise;
      - [swap_sides]       ipsi- and contralateral sub-model (with their parameters)
                           and the patient's ipsi / contra findings are exchanged.
    and the statements [C15_*_stmt]: the Spec quantities ([trans_spec], [evo_spec],
    [prior_spec], [findings_prob], [patient_lik_spec], [risk_spec], [bi_joint_spec],
    [bi_patient_lik_spec]) are unchanged up to the corresponding relabelling of
    states.  The code-level quantities are equal to these Spec quantities by
    C05 / C07 / C01 / C02 / C03, for the original AND for the transformed model (both
    are well-formed: [C15_wf_preserved_stmt]).  Definitions and statements only. *)
From Coq Require Import Permutation.
From LymphModel Require Import Base States Linalg Graph Transition Observation Dist Unilateral UniStatements Models Bilateral.
Local Open Scope nat_scope.
Open Scope Qc_scope.

(** * The Spec of a risk: Bayes' rule with the Spec prior and P(findings | state)
      (C02_risk_bayes with prior = [prior_spec], see [risk_spec_is_C02] in the proofs) *)
Definition post_weight (u : uni) (pm : vec) (p : patient) (x : state) : Qc :=
  prior_spec u pm x * findings_prob u p x.
Definition risk_spec (u : uni) (pm : vec) (inv : pattern) (p : patient) : Qc :=
  sumQ (map (fun x => if matches_pattern (u_lnls u) inv (u_base u) x then post_weight u pm p x else 0)
            (u_states u))
  / patient_lik_spec u pm p.

(** * Relabelling of states: the generic transfer *)
(** [pi] carries the states of [g] onto the states of [g'] and commutes with one
    step of the evolution and with "all healthy" *)
Definition graph_iso (g g' : graph) (pi : state -> state) : Prop :=
  Permutation (map pi (state_list g)) (state_list g') /\
  (forall x y, In x (state_list g) -> In y (state_list g) ->
     trans_spec g' (pi x) (pi y) = trans_spec g x y) /\
  (forall x, In x (state_list g) -> (pi x = healthy (nlnls g') <-> x = healthy (nlnls g))).
Definition uni_iso (u u' : uni) (pi : state -> state) : Prop :=
  u_maxt u' = u_maxt u /\ graph_iso (u_graph u) (u_graph u') pi.
Definition findings_iso (u u' : uni) (pi : state -> state) (p p' : patient) : Prop :=
  forall x, In x (u_states u) -> findings_prob u' p' (pi x) = findings_prob u p x.
Definition pattern_iso (u u' : uni) (pi : state -> state) (inv inv' : pattern) : Prop :=
  forall x, In x (u_states u) ->
    matches_pattern (u_lnls u') inv' (u_base u') (pi x) = matches_pattern (u_lnls u) inv (u_base u) x.

(** the prior is the same distribution with relabelled states *)
Definition C15_transfer_evo_stmt : Prop :=
  forall g g' pi, graph_iso g g' pi ->
    forall t x, In x (state_list g) -> evo_spec g' t (pi x) = evo_spec g t x.
(** ... so is the prior mixed over diagnosis times and the posterior weight; the
    likelihood and the risk are identical *)
Definition C15_transfer_uni_stmt : Prop :=
  forall u u' pi pm p p', uni_iso u u' pi -> findings_iso u u' pi p p' ->
    (forall x, In x (u_states u) -> prior_spec u' pm (pi x) = prior_spec u pm x) /\
    (forall x, In x (u_states u) -> post_weight u' pm p' (pi x) = post_weight u pm p x) /\
    patient_lik_spec u' pm p' = patient_lik_spec u pm p /\
    (forall inv inv', pattern_iso u u' pi inv inv' -> risk_spec u' pm inv' p' = risk_spec u pm inv p).
(** the same for a bilateral model whose two sides are relabelled (independently) *)
Definition C15_transfer_bi_stmt : Prop :=
  forall b b' pii pic pm p p',
    uni_iso (b_ipsi b) (b_ipsi b') pii -> uni_iso (b_contra b) (b_contra b') pic ->
    findings_iso (b_ipsi b) (b_ipsi b') pii (ipsi_patient p) (ipsi_patient p') ->
    findings_iso (b_contra b) (b_contra b') pic (contra_patient p) (contra_patient p') ->
    (forall xi xc, In xi (u_states (b_ipsi b)) -> In xc (u_states (b_contra b)) ->
       bi_joint_spec b' pm (pii xi) (pic xc) = bi_joint_spec b pm xi xc) /\
    bi_patient_lik_spec b' (bi_joint_spec b' pm) p' = bi_patient_lik_spec b (bi_joint_spec b pm) p.

(** * 1. The order in which a node's arcs are listed *)
Definition arcs_reordered (g g' : graph) : Prop :=
  g_base g' = g_base g /\ g_nodes g' = g_nodes g /\ Permutation (g_edges g) (g_edges g').
Definition with_graph (u : uni) (g : graph) : uni :=
  {| u_graph := g; u_mods := u_mods u; u_dists := u_dists u; u_maxt := u_maxt u |}.

(** no hypothesis on the graph, all states (of any length) *)
Definition C15_arc_order_stmt : Prop :=
  forall g g', arcs_reordered g g' ->
    (forall x y, trans_spec g' x y = trans_spec g x y) /\
    (forall t x, evo_spec g' t x = evo_spec g t x) /\
    state_list g' = state_list g.
Definition C15_arc_order_model_stmt : Prop :=
  forall u g' pm p inv, arcs_reordered (u_graph u) g' ->
    (forall x, prior_spec (with_graph u g') pm x = prior_spec u pm x) /\
    (forall x, findings_prob (with_graph u g') p x = findings_prob u p x) /\
    patient_lik_spec (with_graph u g') pm p = patient_lik_spec u pm p /\
    risk_spec (with_graph u g') pm inv p = risk_spec u pm inv p.

(** * 2. The order of the modalities *)
Definition with_mods (u : uni) (ms : list (string * modality)) : uni :=
  {| u_graph := u_graph u; u_mods := ms; u_dists := u_dists u; u_maxt := u_maxt u |}.
Definition C15_modality_order_stmt : Prop :=
  forall u ms' pm p inv, Permutation (u_mods u) ms' ->
    (forall x, findings_prob (with_mods u ms') p x = findings_prob u p x) /\
    (forall x, prior_spec (with_mods u ms') pm x = prior_spec u pm x) /\
    patient_lik_spec (with_mods u ms') pm p = patient_lik_spec u pm p /\
    risk_spec (with_mods u ms') pm inv p = risk_spec u pm inv p.

(** * 2b. The order of the table's columns: findings are dicts keyed by name *)
Definition same_pattern (p p' : pattern) : Prop := forall l, pat_get l p' = pat_get l p.
Definition same_findings (d d' : diagnosis) : Prop :=
  forall m, match diag_get m d, diag_get m d' with
            | Some p, Some p' => same_pattern p p'
            | None, None => True
            | _, _ => False
            end.
Definition C15_column_order_stmt : Prop :=
  (forall p p' : pattern, NoDup (map fst p) -> Permutation p p' -> same_pattern p p') /\
  (forall d d' : diagnosis, NoDup (map fst d) -> Permutation d d' -> same_findings d d') /\
  (forall u pm p p' inv inv', same_findings (p_find p) (p_find p') -> same_pattern inv inv' ->
     (forall x, findings_prob u p' x = findings_prob u p x) /\
     patient_lik_spec u pm p' = patient_lik_spec u pm p /\
     risk_spec u pm inv' p' = risk_spec u pm inv p).

(** * 3. The order in which the nodes are listed *)
Definition nodes_relisted (g g' : graph) : Prop :=
  g_base g' = g_base g /\ g_edges g' = g_edges g /\ Permutation (g_nodes g) (g_nodes g').
(** the state of the new listing that assigns to every LNL (by NAME) what [x] does *)
Definition relist (g g' : graph) (x : state) : state :=
  map (fun l => digit (index_of l (lnls g)) x) (lnls g').

Definition C15_node_order_stmt : Prop :=
  forall g g', wf_graphb g = true -> nodes_relisted g g' ->
    (* one step: ALL x, y *)
    (forall x y, trans_spec g' (relist g g' x) (relist g g' y) = trans_spec g x y) /\
    (* relabelling is a bijection between the two state lists, with inverse *)
    Permutation (map (relist g g') (state_list g)) (state_list g') /\
    (forall x, length x = nlnls g -> relist g' g (relist g g' x) = x) /\
    (* t steps *)
    (forall t x, length x = nlnls g -> evo_spec g' t (relist g g' x) = evo_spec g t x) /\
    graph_iso g g' (relist g g').
Definition C15_node_order_model_stmt : Prop :=
  forall u g' pm p inv, wf_graphb (u_graph u) = true -> nodes_relisted (u_graph u) g' ->
    let pi := relist (u_graph u) g' in
    (forall x, length x = u_n u -> prior_spec (with_graph u g') pm (pi x) = prior_spec u pm x) /\
    (* findings are keyed by LNL name: the SAME patient record on both sides *)
    (forall x, length x = u_n u -> findings_prob (with_graph u g') p (pi x) = findings_prob u p x) /\
    (forall x, length x = u_n u ->
       matches_pattern (lnls g') inv (g_base g') (pi x) = matches_pattern (u_lnls u) inv (u_base u) x) /\
    patient_lik_spec (with_graph u g') pm p = patient_lik_spec u pm p /\
    risk_spec (with_graph u g') pm inv p = risk_spec u pm inv p.

(** * 3b. Nodes AND arcs listed in another order: what permuting the keys of the
      graph dictionary (and each connection list) does, since arcs are created while
      iterating over the dictionary *)
Definition graph_relisted (g g' : graph) : Prop :=
  g_base g' = g_base g /\ Permutation (g_nodes g) (g_nodes g') /\ Permutation (g_edges g) (g_edges g').
Definition C15_listing_order_stmt : Prop :=
  forall g g', wf_graphb g = true -> graph_relisted g g' ->
    wf_graphb g' = true /\
    (forall x y, trans_spec g' (relist g g' x) (relist g g' y) = trans_spec g x y) /\
    (forall t x, length x = nlnls g -> evo_spec g' t (relist g g' x) = evo_spec g t x) /\
    graph_iso g g' (relist g g').
Definition C15_listing_order_model_stmt : Prop :=
  forall u g' pm p inv, wf_graphb (u_graph u) = true -> graph_relisted (u_graph u) g' ->
    let pi := relist (u_graph u) g' in
    (forall x, length x = u_n u -> prior_spec (with_graph u g') pm (pi x) = prior_spec u pm x) /\
    (forall x, length x = u_n u -> post_weight (with_graph u g') pm p (pi x) = post_weight u pm p x) /\
    patient_lik_spec (with_graph u g') pm p = patient_lik_spec u pm p /\
    risk_spec (with_graph u g') pm inv p = risk_spec u pm inv p.

(** * 4. Renaming *)
Definition injective (rho : string -> string) : Prop := forall a b, rho a = rho b -> a = b.
Definition rename_node (rho : string -> string) (n : node) : node :=
  {| n_tumor := n_tumor n; n_name := rho (n_name n) |}.
(** arc names are derived from the node names as [_init_edges] derives them *)
Definition rename_edge (rho : string -> string) (e : edge) : edge :=
  {| e_name := if is_growth e then rho (e_parent e) else edge_name (rho (e_parent e)) (rho (e_child e));
     e_parent := rho (e_parent e); e_child := rho (e_child e); e_kind := e_kind e;
     e_spread := e_spread e; e_micro := e_micro e |}.
Definition rename_graph (rho : string -> string) (g : graph) : graph :=
  {| g_base := g_base g; g_nodes := map (rename_node rho) (g_nodes g);
     g_edges := map (rename_edge rho) (g_edges g) |}.
Definition rename_pattern (rho : string -> string) (p : pattern) : pattern :=
  map (fun kv => (rho (fst kv), snd kv)) p.
Definition rename_diag (rl rm : string -> string) (d : diagnosis) : diagnosis :=
  map (fun kv => (rm (fst kv), rename_pattern rl (snd kv))) d.
Definition rename_patient (rl rm : string -> string) (p : patient) : patient :=
  {| p_tstage := p_tstage p; p_find := rename_diag rl rm (p_find p) |}.
Definition rename_uni (rl rm : string -> string) (u : uni) : uni :=
  {| u_graph := rename_graph rl (u_graph u);
     u_mods := map (fun kv => (rm (fst kv), snd kv)) (u_mods u);
     u_dists := u_dists u; u_maxt := u_maxt u |}.

Definition C15_renaming_stmt : Prop :=
  forall rho g, injective rho ->
    (forall x y, trans_spec (rename_graph rho g) x y = trans_spec g x y) /\
    (forall t x, evo_spec (rename_graph rho g) t x = evo_spec g t x) /\
    state_list (rename_graph rho g) = state_list g.
Definition C15_renaming_model_stmt : Prop :=
  forall rl rm u pm p inv, injective rl -> injective rm ->
    let u' := rename_uni rl rm u in
    let p' := rename_patient rl rm p in
    (forall x, prior_spec u' pm x = prior_spec u pm x) /\
    (forall x, findings_prob u' p' x = findings_prob u p x) /\
    (forall x, matches_pattern (u_lnls u') (rename_pattern rl inv) (u_base u') x
               = matches_pattern (u_lnls u) inv (u_base u) x) /\
    patient_lik_spec u' pm p' = patient_lik_spec u pm p /\
    risk_spec u' pm (rename_pattern rl inv) p' = risk_spec u pm inv p.

(** * 5. Exchanging the two sides of a bilateral model *)
Definition swap_sides (b : bilateral) : bilateral :=
  {| b_ipsi := b_contra b; b_contra := b_ipsi b; b_symT := b_symT b; b_symL := b_symL b |}.
Definition swap_bpatient (p : bpatient) : bpatient :=
  {| bp_t := bp_t p; bp_ipsi := bp_contra p; bp_contra := bp_ipsi p |}.
Definition transpose_fun (joint : state -> state -> Qc) : state -> state -> Qc := fun xc xi => joint xi xc.
(** posterior weight of a bilateral model (the summand of C02_bi_posterior_bayes) *)
Definition bi_post_weight (b : bilateral) (prior : state -> state -> Qc) (p : bpatient) (xi xc : state) : Qc :=
  prior xi xc * findings_prob (b_ipsi b) (ipsi_patient p) xi * findings_prob (b_contra b) (contra_patient p) xc.

Definition C15_side_swap_stmt : Prop :=
  forall b pm, u_maxt (b_ipsi b) = u_maxt (b_contra b) ->
    (* the joint prior is transposed *)
    (forall xi xc, bi_joint_spec (swap_sides b) pm xc xi = bi_joint_spec b pm xi xc) /\
    (* likelihood of a patient under ANY joint and its transpose *)
    (forall joint p, bi_patient_lik_spec (swap_sides b) (transpose_fun joint) (swap_bpatient p)
                     = bi_patient_lik_spec b joint p) /\
    (* likelihood under the model's own prior *)
    (forall p, bi_patient_lik_spec (swap_sides b) (bi_joint_spec (swap_sides b) pm) (swap_bpatient p)
               = bi_patient_lik_spec b (bi_joint_spec b pm) p) /\
    (* the posterior weights are transposed *)
    (forall prior p xi xc, bi_post_weight (swap_sides b) (transpose_fun prior) (swap_bpatient p) xc xi
                           = bi_post_weight b prior p xi xc).

(** * The transformed objects are well-formed whenever the original is, so the
      Impl = Spec theorems (C05, C07, C01, C02, C03) apply to both *)
Definition C15_wf_preserved_stmt : Prop :=
  (forall g g', arcs_reordered g g' -> wf_graphb g = true -> wf_graphb g' = true) /\
  (forall g g', nodes_relisted g g' -> wf_graphb g = true -> wf_graphb g' = true) /\
  (forall rho g, injective rho -> wf_graphb (rename_graph rho g) = wf_graphb g) /\
  (forall u ms', Permutation (u_mods u) ms' -> wf_uni u = true -> wf_uni (with_mods u ms') = true) /\
  (forall rl rm u, injective rl -> injective rm -> wf_uni (rename_uni rl rm u) = wf_uni u) /\
  (forall rl rm p, wf_patient (rename_patient rl rm p) = wf_patient p).

(** [risk_spec] is the quantity of C02_risk_bayes for the Spec prior *)
Definition C15_risk_spec_is_C02_stmt : Prop :=
  forall u pm inv p,
    let prior := map (prior_spec u pm) (u_states u) in
    let J := joint_spec u prior (p_find p) in
    risk_spec u pm inv p
    = sumQ (map (fun '(x, j) => if matches_pattern (u_lnls u) inv (u_base u) x then j else 0)
                (combine (u_states u) J)) / sumQ J.
